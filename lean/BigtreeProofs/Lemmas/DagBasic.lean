import BigtreeModel.Dag
import Batteries.Data.List.Perm
/-! Basic facts about the DAG model: `dedup`, step-counted reachability, paths as vertex lists,
the length bound that acyclicity gives (pigeonhole), and a rank certificate for acyclicity. -/

namespace Dag
open List

/-! ### dedup -/

theorem mem_dedup {l : List Nat} {a : Nat} : a ∈ dedup l ↔ a ∈ l := by
  induction l with
  | nil => simp [dedup]
  | cons x xs ih =>
    simp only [dedup, mem_cons, mem_filter, ih, bne_iff_ne, ne_eq]
    by_cases h : a = x <;> simp [h]

theorem nodup_dedup (l : List Nat) : (dedup l).Nodup := by
  induction l with
  | nil => simp [dedup]
  | cons x xs ih =>
    simp only [dedup, nodup_cons, mem_filter, bne_iff_ne, ne_eq, not_true_eq_false, and_false,
      not_false_eq_true, true_and]
    exact ih.filter _

/-! ### step-counted reachability -/

/-- `ReachN g k a b`: a directed walk with exactly `k` edges from `a` to `b` -/
inductive ReachN (g : Dag) : Nat → Nat → Nat → Prop
  | zero (a) : ReachN g 0 a a
  | succ {k a b c} : b ∈ g.children a → ReachN g k b c → ReachN g (k + 1) a c

theorem ReachN.zero_eq {g : Dag} {a b} (h : ReachN g 0 a b) : a = b := by
  cases h; rfl

theorem ReachN.succ_inv {g : Dag} {k a c} (h : ReachN g (k + 1) a c) :
    ∃ b, b ∈ g.children a ∧ ReachN g k b c := by
  cases h with
  | succ hb hr => exact ⟨_, hb, hr⟩

theorem ReachN.snoc {g : Dag} {k a b c} (h : ReachN g k a b) (hc : c ∈ g.children b) :
    ReachN g (k + 1) a c := by
  induction h with
  | zero a => exact .succ hc (.zero c)
  | succ hb _ ih => exact .succ hb (ih hc)

theorem ReachN.snoc_inv {g : Dag} : ∀ {k a c}, ReachN g (k + 1) a c →
    ∃ b, ReachN g k a b ∧ c ∈ g.children b := by
  intro k
  induction k with
  | zero =>
    intro a c h
    obtain ⟨b, hb, hr⟩ := h.succ_inv
    have := hr.zero_eq; subst this
    exact ⟨a, .zero a, hb⟩
  | succ k ih =>
    intro a c h
    obtain ⟨b, hb, hr⟩ := h.succ_inv
    obtain ⟨b', hr', hc⟩ := ih hr
    exact ⟨b', .succ hb hr', hc⟩

theorem ReachN.trans {g : Dag} {j k a b c} (h₁ : ReachN g j a b) (h₂ : ReachN g k b c) :
    ReachN g (j + k) a c := by
  induction h₁ with
  | zero a => simpa using h₂
  | @succ j a b' c' hb _ ih =>
    have := ReachN.succ hb (ih h₂)
    rwa [show j + 1 + k = j + k + 1 by omega]

theorem reach_iff_reachN {g : Dag} {a b} : g.Reach a b ↔ ∃ k, ReachN g (k + 1) a b := by
  constructor
  · intro h
    induction h with
    | edge h => exact ⟨0, .succ h (.zero _)⟩
    | step h _ ih =>
      obtain ⟨k, hk⟩ := ih
      exact ⟨k + 1, .succ h hk⟩
  · rintro ⟨k, h⟩
    induction k generalizing a with
    | zero =>
      obtain ⟨c, hc, hr⟩ := h.succ_inv
      have := hr.zero_eq; subst this
      exact .edge hc
    | succ k ih =>
      obtain ⟨c, hc, hr⟩ := h.succ_inv
      exact .step hc (ih hr)

theorem Reach.trans {g : Dag} {a b c} (h₁ : g.Reach a b) (h₂ : g.Reach b c) : g.Reach a c := by
  induction h₁ with
  | edge h => exact .step h h₂
  | step h _ ih => exact .step h (ih h₂)

theorem Reach.snoc {g : Dag} {a b c} (h₁ : g.Reach a b) (h₂ : c ∈ g.children b) : g.Reach a c :=
  h₁.trans (.edge h₂)

theorem ReachN.mem_nodes {g : Dag} (wf : g.DWF) {k a b} (ha : a ∈ g.nodes) (h : ReachN g k a b) :
    b ∈ g.nodes := by
  induction h with
  | zero a => exact ha
  | succ hb _ ih => exact ih (wf.chi_closed _ ha _ hb).1

theorem Reach.mem_nodes {g : Dag} (wf : g.DWF) {a b} (ha : a ∈ g.nodes) (h : g.Reach a b) :
    b ∈ g.nodes := by
  obtain ⟨k, hk⟩ := reach_iff_reachN.1 h
  exact hk.mem_nodes wf ha

/-! ### paths as vertex lists -/

theorem isPath_cons_cons {g : Dag} {a b : Nat} {l : List Nat} :
    g.IsPath (a :: b :: l) ↔ b ∈ g.children a ∧ g.IsPath (b :: l) := Iff.rfl

@[simp] theorem isPath_single {g : Dag} {a : Nat} : g.IsPath [a] := trivial

@[simp] theorem not_isPath_nil {g : Dag} : ¬ g.IsPath [] := fun h => h

/-- a walk with `k` edges is a path with `k + 1` vertices -/
theorem reachN_iff_path {g : Dag} {k a b} :
    ReachN g k a b ↔ ∃ l, l.length = k ∧ g.IsPath (a :: l) ∧ (a :: l).getLast? = some b := by
  constructor
  · intro h
    induction h with
    | zero a => exact ⟨[], rfl, trivial, rfl⟩
    | @succ k a b c hb _ ih =>
      obtain ⟨l, hl, hp, hlast⟩ := ih
      refine ⟨b :: l, by simp [hl], ⟨hb, hp⟩, ?_⟩
      simpa [getLast?_cons_cons] using hlast
  · rintro ⟨l, hl, hp, hlast⟩
    induction l generalizing a k with
    | nil =>
      simp at hl hlast; subst hl; subst hlast; exact .zero a
    | cons c l ih =>
      simp at hl; subst hl
      rw [getLast?_cons_cons] at hlast
      exact .succ hp.1 (ih rfl hp.2 hlast)

theorem path_reach {g : Dag} {a : Nat} {l : List Nat} (hp : g.IsPath (a :: l)) {x} (hx : x ∈ l) :
    g.Reach a x := by
  induction l generalizing a with
  | nil => cases hx
  | cons b l ih =>
    rcases mem_cons.1 hx with rfl | hx
    · exact .edge hp.1
    · exact .step hp.1 (ih hp.2 hx)

/-- in a well-formed DAG a path from a node repeats no vertex and stays inside `nodes` -/
theorem path_nodup {g : Dag} (wf : g.DWF) {a : Nat} {l : List Nat} (ha : a ∈ g.nodes)
    (hp : g.IsPath (a :: l)) : (a :: l).Nodup ∧ ∀ x ∈ a :: l, x ∈ g.nodes := by
  induction l generalizing a with
  | nil => simp [ha]
  | cons b l ih =>
    have hb := (wf.chi_closed _ ha _ hp.1).1
    obtain ⟨hnd, hsub⟩ := ih hb hp.2
    refine ⟨nodup_cons.2 ⟨fun hmem => wf.acyclic a ha (path_reach hp hmem), hnd⟩, ?_⟩
    intro x hx
    rcases mem_cons.1 hx with rfl | hx
    · exact ha
    · exact hsub x hx

/-- pigeonhole: a path in a well-formed DAG has at most `|nodes|` vertices -/
theorem path_length_le {g : Dag} (wf : g.DWF) {a : Nat} {l : List Nat} (ha : a ∈ g.nodes)
    (hp : g.IsPath (a :: l)) : (a :: l).length ≤ g.nodes.length := by
  obtain ⟨hnd, hsub⟩ := path_nodup wf ha hp
  exact (subperm_of_subset hnd hsub).length_le

theorem reachN_lt {g : Dag} (wf : g.DWF) {k a b} (ha : a ∈ g.nodes) (h : ReachN g k a b) :
    k < g.nodes.length := by
  obtain ⟨l, hl, hp, _⟩ := reachN_iff_path.1 h
  have := path_length_le wf ha hp
  simp at this; omega

theorem reach_ne {g : Dag} (wf : g.DWF) {a b} (ha : a ∈ g.nodes) (h : g.Reach a b) : a ≠ b := by
  rintro rfl; exact wf.acyclic a ha h

/-! ### a rank function certifies acyclicity (used by the non-vacuity examples) -/

theorem reach_rank_lt {g : Dag} (rank : Nat → Nat)
    (closed : ∀ v ∈ g.nodes, ∀ c ∈ g.children v, c ∈ g.nodes)
    (hr : ∀ v ∈ g.nodes, ∀ c ∈ g.children v, rank v < rank c) {a b}
    (ha : a ∈ g.nodes) (h : g.Reach a b) : rank a < rank b := by
  induction h with
  | edge h => exact hr _ ha _ h
  | step h _ ih => exact Nat.lt_trans (hr _ ha _ h) (ih (closed _ ha _ h))

theorem acyclic_of_rank {g : Dag} (rank : Nat → Nat)
    (closed : ∀ v ∈ g.nodes, ∀ c ∈ g.children v, c ∈ g.nodes)
    (hr : ∀ v ∈ g.nodes, ∀ c ∈ g.children v, rank v < rank c) :
    ∀ x ∈ g.nodes, ¬ g.Reach x x :=
  fun _ hx h => Nat.lt_irrefl _ (reach_rank_lt rank closed hr hx h)

end Dag
