import BigtreeModel.Helper
import BigtreeModel.HelperDiff
import BigtreeProofs.Lemmas.DiffDefs
import BigtreeProofs.Lemmas.DiffWalk
import BigtreeProofs.Lemmas.DiffInsert
/-!
# C15: updates of existing nodes through `ins` on a relabelled tree (`mapN`)
-/
namespace Helper

theorem mapNL_eq_map (fn : List Str → Str → Str) (fa : List Str → Attrs → Attrs) (anc : List Str) :
    ∀ cs, mapNL fn fa anc cs = cs.map (mapN fn fa anc) := by
  intro cs
  induction cs with
  | nil => simp [mapNL]
  | cons c cs ih => simp [mapNL, ih]

theorem mapN_name (fn : List Str → Str → Str) (fa : List Str → Attrs → Attrs) (anc : List Str) (t : Tree) :
    (mapN fn fa anc t).name = fn (anc ++ [t.name]) t.name := by
  cases t; simp [mapN]

theorem mapN_congr (fn fn' : List Str → Str → Str) (fa fa' : List Str → Attrs → Attrs) :
    ∀ (T : Tree) (anc : List Str),
      (∀ q, (anc ++ [T.name]) <+: q → fn q = fn' q ∧ fa q = fa' q) →
      mapN fn fa anc T = mapN fn' fa' anc T := by
  intro T
  induction T using Tree.ind with
  | h i n av cs ih =>
    intro anc h
    simp only [Tree.name_node] at h
    simp only [mapN, mapNL_eq_map]
    have h0 := h (anc ++ [n]) (List.prefix_refl _)
    rw [h0.1, h0.2]
    congr 1
    apply List.map_congr_left
    intro c hc
    apply ih c hc
    intro q hq
    exact h q (List.IsPrefix.trans (List.prefix_append _ _) hq)

theorem mapN_id (T : Tree) (anc : List Str) : mapN (fun _ n => n) (fun _ a => a) anc T = T := by
  induction T using Tree.ind generalizing anc with
  | h i n av cs ih =>
    simp only [mapN, mapNL_eq_map]
    congr 1
    conv => rhs; rw [← List.map_id cs]
    apply List.map_congr_left
    intro c hc
    simpa using ih c hc (anc ++ [n])

/-! ## rows of a relabelled tree -/

theorem rows_mapN (fn : List Str → Str → Str) (fa : List Str → Attrs → Attrs) :
    ∀ (T : Tree) (anc : List Str),
      rows (mapN fn fa anc T) = (rows T).map fun r => (relabel fn anc r.1, fa (anc ++ r.1) r.2) := by
  intro T
  induction T using Tree.ind with
  | h i n av cs ih =>
    intro anc
    have hL : ∀ (l : List Tree), (∀ c ∈ l, c ∈ cs) →
        rowsL (mapNL fn fa (anc ++ [n]) l) =
          (rowsL l).map fun r => (relabel fn (anc ++ [n]) r.1, fa (anc ++ [n] ++ r.1) r.2) := by
      intro l
      induction l with
      | nil => intro _; simp [mapNL, rowsL]
      | cons c l ihl =>
        intro hl
        simp only [mapNL, rowsL, List.map_append]
        rw [ih c (hl c (by simp)) (anc ++ [n]), ihl (fun c' hc' => hl c' (by simp [hc']))]
    simp only [mapN, rows, List.map_cons, List.map_map, relabel]
    rw [hL cs (fun c hc => hc)]
    simp only [List.map_map]
    congr 1
    apply List.map_congr_left
    intro r _
    simp [relabel]

/-! ## the update functions -/

def updFn (u : Upd) (p : List Str) (fn : List Str → Str → Str) : List Str → Str → Str :=
  match u with
  | .name s => fun q n => if q = p then s else fn q n
  | _ => fn

def updFa (u : Upd) (p : List Str) (fa : List Str → Attrs → Attrs) : List Str → Attrs → Attrs :=
  match u with
  | .pair k x y => fun q a => if q = p then setPair (fa q a) k x y else fa q a
  | _ => fa

theorem updFn_ne (u : Upd) (p q : List Str) (fn : List Str → Str → Str) (h : q ≠ p) :
    updFn u p fn q = fn q := by
  cases u <;> simp [updFn, h]

theorem updFa_ne (u : Upd) (p q : List Str) (fa : List Str → Attrs → Attrs) (h : q ≠ p) :
    updFa u p fa q = fa q := by
  cases u <;> simp [updFa, h]

theorem applyUpd_mapN_node (u : Upd) (fn : List Str → Str → Str) (fa : List Str → Attrs → Attrs)
    (anc : List Str) (i : Nat) (n : Str) (av : Attrs) (cs : List Tree) :
    applyUpd u (.node i (fn (anc ++ [n]) n) (fa (anc ++ [n]) av) cs) =
      .node i (updFn u (anc ++ [n]) fn (anc ++ [n]) n) (updFa u (anc ++ [n]) fa (anc ++ [n]) av) cs := by
  cases u <;> simp [applyUpd, updFn, updFa]

/-- `ins` on a relabelled tree, when the path exists in the original tree, the route is not yet
    relabelled, and relabelled siblings cannot be confused with route names: the update lands on the
    node whose original path is `p` -/
theorem ins_mapN (u : Upd) (fn : List Str → Str → Str) (fa : List Str → Attrs → Attrs) (p : List Str)
    (hd : ∀ q n, fn q n = n ∨ sufChanged <:+ fn q n)
    (hc : ∀ q n, q <+: p → fn q n = n) :
    ∀ (rest : List Str) (T : Tree) (anc : List Str), p = anc ++ T.name :: rest →
      SibU T → (T.name :: rest) ∈ keys T → (∀ x ∈ rest, ¬ sufChanged <:+ x) →
      ins u rest (mapN fn fa anc T) = .ok (mapN (updFn u p fn) (updFa u p fa) anc T) := by
  intro rest
  induction rest with
  | nil =>
    intro T anc hp hs hk hx
    cases T with | node i n av cs =>
    simp only [Tree.name_node] at hp
    have hp' : p = anc ++ [n] := hp
    rw [ins_nil]
    simp only [mapN]
    rw [applyUpd_mapN_node, ← hp']
    have hch : mapNL fn fa p cs = mapNL (updFn u p fn) (updFa u p fa) p cs := by
      rw [mapNL_eq_map, mapNL_eq_map]
      apply List.map_congr_left
      intro c _
      apply mapN_congr
      intro q hq
      have hne : q ≠ p := by
        intro e
        have := List.IsPrefix.length_le hq
        rw [e] at this
        simp at this
        omega
      rw [updFn_ne u p q fn hne, updFa_ne u p q fa hne]
      exact ⟨rfl, rfl⟩
    rw [hch]
  | cons x rest ih =>
    intro T anc hp hs hk hx
    cases T with | node i n av cs =>
    simp only [Tree.name_node] at hp hk
    have hs' := (SibU.node_iff i n av cs).mp hs
    -- the child on the route
    rw [mem_keys_node] at hk
    have hk' : (x :: rest) ∈ keysL cs := by
      rcases hk with hk | ⟨r, hr, hrk⟩
      · simp at hk
      · simp at hr; rw [hr]; exact hrk
    rw [mem_keysL] at hk'
    obtain ⟨t, htm, htk⟩ := hk'
    have htx : t.name = x := by
      obtain ⟨r, hr⟩ := keys_head t _ htk
      simp at hr; exact hr.1.symm
    obtain ⟨l1, l2, hcs, h1, h2⟩ := split_at_name cs hs'.1 t htm
    rw [htx] at h1 h2
    subst hcs
    have hp2 : p = (anc ++ [n]) ++ t.name :: rest := by rw [hp, htx]; simp
    have hroute : fn (anc ++ [n] ++ [x]) x = x := by
      apply hc; rw [hp]
      refine ⟨rest, by simp⟩
    have hsib : ∀ y : Tree, y.name ≠ x → (mapN fn fa (anc ++ [n]) y).name ≠ x := by
      intro y hy e
      rw [mapN_name] at e
      rcases hd (anc ++ [n] ++ [y.name]) y.name with h | h
      · exact hy (h ▸ e)
      · rw [e] at h; exact hx x (by simp) h
    have hne0 : anc ++ [n] ≠ p := by
      intro e
      have := congrArg List.length e
      rw [hp] at this; simp at this
    have hfar : ∀ y : Tree, y.name ≠ x →
        mapN fn fa (anc ++ [n]) y = mapN (updFn u p fn) (updFa u p fa) (anc ++ [n]) y := by
      intro y hy
      apply mapN_congr
      intro q hq
      have hne : q ≠ p := by
        intro e
        rw [e, hp] at hq
        have : (anc ++ [n] ++ [y.name]) <+: (anc ++ [n] ++ x :: rest) := by simpa using hq
        rw [List.prefix_append_right_inj] at this
        rw [List.cons_prefix_cons] at this
        exact hy this.1
      rw [updFn_ne u p q fn hne, updFa_ne u p q fa hne]
      exact ⟨rfl, rfl⟩
    simp only [mapN, mapNL_eq_map, List.map_append, List.map_cons]
    rw [ins_found u x rest i _ _ (mapN fn fa (anc ++ [n]) t) _ _
      (by rw [mapN_name, htx]; exact hroute)
      (by intro y hy; obtain ⟨y', hy', rfl⟩ := List.mem_map.mp hy; exact hsib y' (h1 y' hy'))
      (by intro y hy; obtain ⟨y', hy', rfl⟩ := List.mem_map.mp hy; exact hsib y' (h2 y' hy'))]
    rw [ih t (anc ++ [n]) hp2 (hs'.2 t htm) (by rw [htx]; exact htk)
      (fun y hy => hx y (by simp [hy]))]
    simp only [Except.map]
    rw [updFn_ne u p _ fn hne0, updFa_ne u p _ fa hne0]
    congr 3
    · apply List.map_congr_left; intro y hy; exact hfar y (h1 y hy)
    · congr 1
      apply List.map_congr_left; intro y hy; exact hfar y (h2 y hy)

end Helper
