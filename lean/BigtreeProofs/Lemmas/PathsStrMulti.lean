import BigtreeProofs.Lemmas.StorePathF
import BigtreeProofs.Lemmas.PathsStr
/-!
# Path strings with a separator of any length (C05)

`BigtreeModel/Str.lean` (the string functions of the path constructors) and `BigtreeModel/StorePath.lean`
(those of `Node.path_name` / `find_full_path`) spell `lstrip`, `rstrip`, `join` and `split` differently
(recursion vs `dropWhile`, a fuel-bounded scan that drops the separator vs a skip counter).  They are the
same functions; with that, the multi-character results of `StorePathF` carry over: whatever run of
separator characters leads or trails, the components of a path written with a non-empty separator that
shares no character with them come back.
-/

namespace Str

theorem lstrip_eq (chars : Str) : ∀ s : Str, lstrip chars s = Store.lstrip chars s := by
  intro s
  induction s with
  | nil => rfl
  | cons c cs ih =>
    simp only [lstrip, Store.lstrip, List.dropWhile]
    cases h : chars.contains c with
    | true => simp only [if_true]; rw [ih]; rfl
    | false => simp

theorem rstrip_eq (chars s : Str) : rstrip chars s = Store.rstrip chars s := by
  simp [rstrip, Store.rstrip, lstrip_eq]

theorem join_eq (sep : Str) : ∀ l : List Str, join sep l = Store.join sep l := by
  intro l
  induction l with
  | nil => rfl
  | cons a t ih =>
    cases t with
    | nil => rfl
    | cons b r => simp only [join, Store.join]; rw [ih]

theorem splitGo_eq (sp : Str) (hsp : sp ≠ []) : ∀ (f : Nat) (s cur : Str), s.length < f →
    splitGo sp f s cur = Store.splitAux sp 0 s cur := by
  intro f
  induction f with
  | zero => intro s cur h; omega
  | succ f ih =>
    intro s cur hlen
    cases s with
    | nil => simp [splitGo, Store.splitAux]
    | cons c cs =>
      simp only [splitGo, Store.splitAux]
      by_cases hp : sp.isPrefixOf (c :: cs) = true
      · simp only [hp, if_true]
        congr 1
        cases hs : sp with
        | nil => exact absurd hs hsp
        | cons a as =>
          -- `a :: as` is a prefix of `c :: cs`: `cs = as ++ rest`
          rw [hs] at hp
          obtain ⟨rest, hrest⟩ := List.isPrefixOf_iff_prefix.1 hp
          have hcs : cs = as ++ rest := by
            simp only [List.cons_append, List.cons.injEq] at hrest
            exact hrest.2.symm
          have hd : (c :: cs).drop (a :: as).length = rest := by
            simp [hcs]
          rw [hd]
          have hk : (a :: as).length - 1 = as.length := by simp
          rw [hk, hcs, Store.splitAux_skip]
          have : rest.length < f := by
            simp only [List.length_cons, hcs, List.length_append] at hlen; omega
          rw [← hs]
          exact ih rest [] this
      · simp only [hp, Bool.false_eq_true, if_false]
        exact ih cs (c :: cur) (by simp only [List.length_cons] at hlen; omega)

theorem split_eq (sp : Str) (hsp : sp ≠ []) (s : Str) : split sp s = Store.split sp s :=
  splitGo_eq sp hsp _ s [] (by omega)

/-- Reading a path written with a separator of any length: whatever separator characters lead or trail,
the components come back -/
theorem split_strip_join_multi (sp : Str) (hsp : sp ≠ []) (lead trail : Str) (l : List Str) (hne : l ≠ [])
    (hl : ∀ x ∈ lead, x ∈ sp) (ht : ∀ x ∈ trail, x ∈ sp) (hfree : ∀ x ∈ l, x ≠ [] ∧ Store.Free sp x) :
    split sp (strip sp (lead ++ join sp l ++ trail)) = l := by
  obtain ⟨⟨c0, t0, hc0, h0⟩, ⟨c1, t1, hc1, h1⟩⟩ := Store.join_shape_multi sp l hne hfree
  have hbody : strip sp (lead ++ join sp l ++ trail) = join sp l := by
    unfold strip
    rw [lstrip_eq, rstrip_eq, join_eq]
    have e1 : lead ++ Store.join sp l ++ trail = lead ++ c0 :: (t0 ++ trail) := by rw [h0]; simp
    rw [e1, Store.lstrip_prefix sp lead c0 (t0 ++ trail) hl hc0]
    have e2 : c0 :: (t0 ++ trail) = t1 ++ [c1] ++ trail := by
      have : c0 :: t0 = t1 ++ [c1] := by rw [← h0, h1]
      rw [← List.cons_append, this]
    rw [e2, Store.rstrip_suffix sp t1 c1 trail ht hc1, ← h1]
  rw [hbody, split_eq sp hsp, join_eq]
  exact Store.split_join_multi sp hsp l hne (fun x hx => (hfree x hx).2)

end Str
