import BigtreeProofs.Lemmas.StorePathB
/-!
# Paths on the pointer store, part C: strings (`split ∘ join`, stripping) and `find_full_path`
-/

namespace Store

/-! ## `split` after `join`, single-character separator -/

theorem isPrefixOf_singleton (d c : Char) (cs : Str) : [d].isPrefixOf (c :: cs) = (d == c) := by
  simp [List.isPrefixOf]

theorem splitAux_free (d : Char) : ∀ (x rest acc : Str), d ∉ x →
    splitAux [d] 0 (x ++ rest) acc = splitAux [d] 0 rest (x.reverse ++ acc) := by
  intro x
  induction x with
  | nil => intro rest acc _; rfl
  | cons c cs ih =>
    intro rest acc hd
    have hc : d ≠ c := fun e => hd (e ▸ List.mem_cons_self)
    have hcs : d ∉ cs := fun e => hd (List.mem_cons_of_mem _ e)
    simp only [List.cons_append, splitAux, isPrefixOf_singleton]
    have : (d == c) = false := by simp [hc]
    simp only [this, Bool.false_eq_true, if_false]
    rw [ih rest (c :: acc) hcs]
    simp

/-- `sep.join(xs).split(sep) == xs` for a single-character separator occurring in no piece -/
theorem split_join (d : Char) : ∀ (xs : List Str), xs ≠ [] → (∀ x ∈ xs, d ∉ x) →
    split [d] (join [d] xs) = xs := by
  intro xs
  induction xs with
  | nil => intro h; exact absurd rfl h
  | cons x rest ih =>
    intro _ hx
    have hx0 : d ∉ x := hx x List.mem_cons_self
    cases rest with
    | nil =>
      simp only [join, split]
      have := splitAux_free d x [] [] hx0
      simp only [List.append_nil] at this
      rw [this]; simp [splitAux]
    | cons y rest' =>
      simp only [join, split]
      have := splitAux_free d x ([d] ++ join [d] (y :: rest')) [] hx0
      rw [List.append_assoc, this]
      simp only [List.append_nil, List.singleton_append, splitAux, isPrefixOf_singleton, beq_self_eq_true,
        if_true, List.reverse_reverse, List.length_singleton, Nat.sub_self]
      have ih' := ih (by simp) (fun z hz => hx z (List.mem_cons_of_mem _ hz))
      simp only [split] at ih'
      rw [ih']

theorem join_injective (d : Char) (xs ys : List Str) (hx : xs ≠ []) (hy : ys ≠ [])
    (hxd : ∀ x ∈ xs, d ∉ x) (hyd : ∀ y ∈ ys, d ∉ y) (h : join [d] xs = join [d] ys) : xs = ys := by
  rw [← split_join d xs hx hxd, ← split_join d ys hy hyd, h]

/-! ## stripping -/

theorem join_snoc (sep : Str) : ∀ (xs : List Str) (y : Str), xs ≠ [] →
    join sep (xs ++ [y]) = join sep xs ++ sep ++ y := by
  intro xs
  induction xs with
  | nil => intro y h; exact absurd rfl h
  | cons x rest ih =>
    intro y _
    cases rest with
    | nil => simp [join]
    | cons z rest' =>
      have := ih y (by simp)
      simp only [List.cons_append, join] at this ⊢
      rw [this]; simp [List.append_assoc]

theorem join_cons_head (sep : Str) (x : Str) (rest : List Str) :
    ∃ t, join sep (x :: rest) = x ++ t := by
  cases rest with
  | nil => exact ⟨[], by simp [join]⟩
  | cons y r => exact ⟨sep ++ join sep (y :: r), by simp [join, List.append_assoc]⟩

theorem lstrip_cons_stop (d c : Char) (t : Str) (h : c ≠ d) : lstrip [d] (d :: c :: t) = c :: t := by
  simp [lstrip, List.dropWhile, h]

theorem rstrip_snoc_stop (d c : Char) (t : Str) (h : c ≠ d) : rstrip [d] (t ++ [c]) = t ++ [c] := by
  simp [rstrip, lstrip, h]

/-- stripping a path name: exactly the leading separator goes -/
theorem strip_path (d : Char) (names : List Str) (hne : names ≠ []) (hn : ∀ x ∈ names, x ≠ [] ∧ d ∉ x) :
    lstrip [d] (rstrip [d] ([d] ++ join [d] names)) = join [d] names := by
  -- the last character is the last character of the last name
  obtain ⟨init, ln, rfl⟩ : ∃ init ln, names = init ++ [ln] :=
    ⟨names.dropLast, names.getLast hne, (List.dropLast_concat_getLast hne).symm⟩
  have hln := hn ln (by simp)
  obtain ⟨w, c, rfl⟩ : ∃ w c, ln = w ++ [c] :=
    ⟨ln.dropLast, ln.getLast hln.1, (List.dropLast_concat_getLast hln.1).symm⟩
  have hc : c ≠ d := fun e => hln.2 (by simp [e])
  have hshape : ∃ X, [d] ++ join [d] (init ++ [w ++ [c]]) = X ++ [c] := by
    by_cases hi : init = []
    · subst hi; exact ⟨[d] ++ w, by simp [join]⟩
    · exact ⟨[d] ++ join [d] init ++ [d] ++ w, by rw [join_snoc [d] init _ hi]; simp [List.append_assoc]⟩
  obtain ⟨X, hX⟩ := hshape
  rw [hX, rstrip_snoc_stop d c X hc, ← hX]
  -- the first character after the separator is the first character of the first name
  cases hnames : init ++ [w ++ [c]] with
  | nil => simp at hnames
  | cons f rest =>
    have hf := hn f (by rw [hnames]; simp)
    obtain ⟨t, ht⟩ := join_cons_head [d] f rest
    rw [ht]
    cases f with
    | nil => exact absurd rfl hf.1
    | cons c0 f' =>
      have hc0 : c0 ≠ d := fun e => hf.2 (by simp [e])
      exact lstrip_cons_stop d c0 (f' ++ t) hc0

end Store
