import BigtreeModel.Helper
import BigtreeModel.HelperDiff
import BigtreeProofs.Lemmas.DiffDefs
import BigtreeProofs.Lemmas.DiffWalk
/-!
# C15: path insertion (`ins`) — creation of missing nodes, and updates of existing nodes
-/
namespace Helper

/-! ## one step of the descent -/

theorem insL_unique (u : Upd) (c : Str) (rest : List Str) (t : Tree) (l2 : List Tree) :
    ∀ (l1 : List Tree), t.name = c → (∀ x ∈ l1, x.name ≠ c) →
    insL u c rest (l1 ++ t :: l2) = (ins u rest t).map (fun t' => l1 ++ t' :: l2) := by
  intro l1
  induction l1 with
  | nil =>
    intro ht _
    simp only [List.nil_append, insL, ht, beq_self_eq_true, if_true]
  | cons x l1 ih =>
    intro ht hl
    have hx : (x.name == c) = false := by simpa using hl x (by simp)
    simp only [List.cons_append, insL, hx]
    rw [ih ht (fun y hy => hl y (by simp [hy]))]
    cases ins u rest t <;> simp [Except.map]

theorem filter_name_length (c : Str) (t : Tree) (l1 l2 : List Tree) (ht : t.name = c)
    (h1 : ∀ x ∈ l1, x.name ≠ c) (h2 : ∀ x ∈ l2, x.name ≠ c) :
    ((l1 ++ t :: l2).filter fun t => t.name == c).length = 1 := by
  have e1 : l1.filter (fun t => t.name == c) = [] := by
    rw [List.filter_eq_nil_iff]; intro x hx; simpa using h1 x hx
  have e2 : l2.filter (fun t => t.name == c) = [] := by
    rw [List.filter_eq_nil_iff]; intro x hx; simpa using h2 x hx
  simp [List.filter_append, e1, e2, ht]

theorem ins_found (u : Upd) (c : Str) (rest : List Str) (i : Nat) (n : Str) (av : Attrs)
    (t : Tree) (l1 l2 : List Tree) (ht : t.name = c)
    (h1 : ∀ x ∈ l1, x.name ≠ c) (h2 : ∀ x ∈ l2, x.name ≠ c) :
    ins u (c :: rest) (.node i n av (l1 ++ t :: l2)) =
      (ins u rest t).map (fun t' => .node i n av (l1 ++ t' :: l2)) := by
  have hlen := filter_name_length c t l1 l2 ht h1 h2
  have hany : ((l1 ++ t :: l2).any fun t => t.name == c) = true := by
    simp only [List.any_eq_true]; exact ⟨t, by simp, by simp [ht]⟩
  simp only [ins, hlen, hany, if_true]
  rw [insL_unique u c rest t l2 l1 ht h1]
  cases ins u rest t <;> simp [Except.map]

theorem ins_missing (u : Upd) (c : Str) (rest : List Str) (i : Nat) (n : Str) (av : Attrs)
    (cs : List Tree) (h : ∀ x ∈ cs, x.name ≠ c) :
    ins u (c :: rest) (.node i n av cs) = .ok (.node i n av (cs ++ [chain u c rest])) := by
  have e : cs.filter (fun t => t.name == c) = [] := by
    rw [List.filter_eq_nil_iff]; intro x hx; simpa using h x hx
  have hany : (cs.any fun t => t.name == c) = false := by
    rw [List.any_eq_false]; intro x hx; simpa using h x hx
  simp [ins, e, hany]

theorem ins_nil (u : Upd) (t : Tree) : ins u [] t = .ok (applyUpd u t) := by
  cases t; simp [ins]

theorem applyUpd_nothing (t : Tree) : applyUpd .nothing t = t := by
  cases t; simp [applyUpd]

/-- split the children around the one with a given name -/
theorem split_at_name (cs : List Tree) (hn : (cs.map Tree.name).Nodup) (t : Tree) (ht : t ∈ cs) :
    ∃ l1 l2, cs = l1 ++ t :: l2 ∧ (∀ x ∈ l1, x.name ≠ t.name) ∧ (∀ x ∈ l2, x.name ≠ t.name) := by
  obtain ⟨l1, l2, rfl⟩ := List.append_of_mem ht
  refine ⟨l1, l2, rfl, ?_, ?_⟩
  · intro x hx e
    simp only [List.map_append, List.map_cons, List.nodup_append, List.nodup_cons] at hn
    exact hn.2.2 x.name (List.mem_map_of_mem hx) t.name (by simp) e
  · intro x hx e
    simp only [List.map_append, List.map_cons, List.nodup_append, List.nodup_cons] at hn
    exact hn.2.1.1 (e ▸ List.mem_map_of_mem hx)

/-! ## the chain of new nodes -/

theorem chain_name (u : Upd) (c : Str) (rest : List Str) (h : ∀ s, u ≠ .name s) :
    (chain u c rest).name = c := by
  cases rest with
  | nil => cases u <;> simp_all [chain, applyUpd]
  | cons => simp [chain]

theorem keys_chain_nothing : ∀ (rest : List Str) (c : Str) (q : List Str),
    q ∈ keys (chain .nothing c rest) ↔ q ≠ [] ∧ q <+: c :: rest := by
  intro rest
  induction rest with
  | nil =>
    intro c q
    simp only [chain, applyUpd, keys_node, keysL_nil, List.map_nil, List.mem_singleton]
    constructor
    · rintro rfl; simp
    · rintro ⟨hne, hp⟩
      cases q with
      | nil => exact absurd rfl hne
      | cons x r =>
        rw [List.cons_prefix_cons] at hp
        obtain ⟨rfl, hp⟩ := hp
        simp at hp; simp [hp]
  | cons c' rest ih =>
    intro c q
    simp only [chain, mem_keys_node, keysL_cons, keysL_nil, List.append_nil]
    constructor
    · rintro (rfl | ⟨r, rfl, hr⟩)
      · simp
      · rw [ih] at hr
        exact ⟨by simp, by rw [List.cons_prefix_cons]; exact ⟨rfl, hr.2⟩⟩
    · rintro ⟨hne, hp⟩
      cases q with
      | nil => exact absurd rfl hne
      | cons x r =>
        rw [List.cons_prefix_cons] at hp
        obtain ⟨rfl, hp⟩ := hp
        cases r with
        | nil => left; rfl
        | cons y r' => right; exact ⟨y :: r', rfl, (ih c' (y :: r')).mpr ⟨by simp, hp⟩⟩

theorem chain_nothing_allSub (P : Tree → Prop) (hP : ∀ n cs, P (.node 0 n [] cs)) :
    ∀ (rest : List Str) (c : Str), AllSub P (chain .nothing c rest) := by
  intro rest
  induction rest with
  | nil => intro c; simp only [chain, applyUpd]; exact AllSub.mk _ _ _ _ (hP _ _) (by simp)
  | cons c' rest ih =>
    intro c; simp only [chain]
    exact AllSub.mk _ _ _ _ (hP _ _) (by intro x hx; simp at hx; subst hx; exact ih c')

theorem chain_nothing_sibU : ∀ (rest : List Str) (c : Str), SibU (chain .nothing c rest) := by
  intro rest
  induction rest with
  | nil => intro c; simp only [chain, applyUpd]; rw [SibU.node_iff]; simp
  | cons c' rest ih =>
    intro c; simp only [chain]; rw [SibU.node_iff]
    exact ⟨by simp, by intro x hx; simp at hx; subst hx; exact ih c'⟩

/-! ## `ins .nothing`: the missing prefixes are created, nothing else changes -/

def NoAttrs (t : Tree) : Prop := AllSub (fun s => s.attrs = []) t

theorem ins_nothing_spec : ∀ (rest : List Str) (T : Tree), SibU T → NoAttrs T →
    ∃ T', ins .nothing rest T = .ok T' ∧ SibU T' ∧ NoAttrs T' ∧ T'.name = T.name ∧
      ∀ q, q ∈ keys T' ↔ q ∈ keys T ∨ (q ≠ [] ∧ q <+: T.name :: rest) := by
  intro rest
  induction rest with
  | nil =>
    intro T hs ha
    refine ⟨T, by rw [ins_nil, applyUpd_nothing], hs, ha, rfl, ?_⟩
    intro q
    constructor
    · exact Or.inl
    · rintro (h | ⟨hne, hp⟩)
      · exact h
      · cases q with
        | nil => exact absurd rfl hne
        | cons x r =>
          rw [List.cons_prefix_cons] at hp
          obtain ⟨rfl, hp⟩ := hp
          simp at hp; subst hp; exact root_mem_keys T
  | cons c rest ih =>
    intro T hs ha
    cases T with | node i n av cs =>
    have hs' := (SibU.node_iff i n av cs).mp hs
    have ha' := (AllSub.node_iff _ i n av cs).mp ha
    by_cases hex : ∃ t ∈ cs, t.name = c
    · obtain ⟨t, htm, htc⟩ := hex
      obtain ⟨l1, l2, hcs, h1, h2⟩ := split_at_name cs hs'.1 t htm
      rw [htc] at h1 h2
      obtain ⟨t', ht', hst', hat', hnt', hkt'⟩ := ih t (hs'.2 t htm) (ha'.2 t htm)
      subst hcs
      refine ⟨.node i n av (l1 ++ t' :: l2), ?_, ?_, ?_, rfl, ?_⟩
      · rw [ins_found .nothing c rest i n av t l1 l2 htc h1 h2, ht']; rfl
      · rw [SibU.node_iff]
        refine ⟨?_, ?_⟩
        · have := hs'.1
          simp only [List.map_append, List.map_cons] at this ⊢
          rw [hnt']; exact this
        · intro x hx
          simp only [List.mem_append, List.mem_cons] at hx
          rcases hx with hx | rfl | hx
          · exact hs'.2 x (by simp [hx])
          · exact hst'
          · exact hs'.2 x (by simp [hx])
      · unfold NoAttrs; rw [AllSub.node_iff]
        refine ⟨ha'.1, ?_⟩
        intro x hx
        simp only [List.mem_append, List.mem_cons] at hx
        rcases hx with hx | rfl | hx
        · exact ha'.2 x (by simp [hx])
        · exact hat'
        · exact ha'.2 x (by simp [hx])
      · intro q
        simp only [mem_keys_node, keysL_append, keysL_cons, List.mem_append, Tree.name_node]
        constructor
        · rintro (rfl | ⟨r, rfl, hr | hr | hr⟩)
          · exact Or.inl (Or.inl rfl)
          · exact Or.inl (Or.inr ⟨r, rfl, Or.inl hr⟩)
          · rw [hkt'] at hr
            rcases hr with hr | ⟨hne, hp⟩
            · exact Or.inl (Or.inr ⟨r, rfl, Or.inr (Or.inl hr)⟩)
            · right; refine ⟨by simp, ?_⟩
              rw [List.cons_prefix_cons]; rw [htc] at hp; exact ⟨rfl, hp⟩
          · exact Or.inl (Or.inr ⟨r, rfl, Or.inr (Or.inr hr)⟩)
        · rintro ((rfl | ⟨r, rfl, hr | hr | hr⟩) | ⟨hne, hp⟩)
          · exact Or.inl rfl
          · exact Or.inr ⟨r, rfl, Or.inl hr⟩
          · exact Or.inr ⟨r, rfl, Or.inr (Or.inl ((hkt' r).mpr (Or.inl hr)))⟩
          · exact Or.inr ⟨r, rfl, Or.inr (Or.inr hr)⟩
          · cases q with
            | nil => exact absurd rfl hne
            | cons x r =>
              rw [List.cons_prefix_cons] at hp
              obtain ⟨rfl, hp⟩ := hp
              cases r with
              | nil => exact Or.inl rfl
              | cons y r' =>
                right
                refine ⟨y :: r', rfl, Or.inr (Or.inl ((hkt' _).mpr (Or.inr ⟨by simp, ?_⟩)))⟩
                rw [htc]; exact hp
    · have hno : ∀ x ∈ cs, x.name ≠ c := fun x hx e => hex ⟨x, hx, e⟩
      refine ⟨.node i n av (cs ++ [chain .nothing c rest]), ins_missing .nothing c rest i n av cs hno,
        ?_, ?_, rfl, ?_⟩
      · rw [SibU.node_iff]
        refine ⟨?_, ?_⟩
        · simp only [List.map_append, List.map_cons, List.map_nil]
          rw [List.nodup_append]
          refine ⟨hs'.1, by simp, ?_⟩
          intro a ha b hb e
          simp only [List.mem_singleton] at hb
          rw [chain_name _ _ _ (by intro s; simp)] at hb
          obtain ⟨x, hx, rfl⟩ := List.mem_map.mp ha
          exact hno x hx (e.trans hb)
        · intro x hx
          simp only [List.mem_append, List.mem_singleton] at hx
          rcases hx with hx | rfl
          · exact hs'.2 x hx
          · exact chain_nothing_sibU rest c
      · unfold NoAttrs; rw [AllSub.node_iff]
        refine ⟨ha'.1, ?_⟩
        intro x hx
        simp only [List.mem_append, List.mem_singleton] at hx
        rcases hx with hx | rfl
        · exact ha'.2 x hx
        · exact chain_nothing_allSub _ (by intro n cs; rfl) rest c
      · intro q
        simp only [mem_keys_node, keysL_append, keysL_cons, keysL_nil, List.append_nil, List.mem_append,
          Tree.name_node, keys_chain_nothing]
        constructor
        · rintro (rfl | ⟨r, rfl, hr | ⟨hne, hp⟩⟩)
          · exact Or.inl (Or.inl rfl)
          · exact Or.inl (Or.inr ⟨r, rfl, hr⟩)
          · right; exact ⟨by simp, by rw [List.cons_prefix_cons]; exact ⟨rfl, hp⟩⟩
        · rintro ((rfl | ⟨r, rfl, hr⟩) | ⟨hne, hp⟩)
          · exact Or.inl rfl
          · exact Or.inr ⟨r, rfl, Or.inl hr⟩
          · cases q with
            | nil => exact absurd rfl hne
            | cons x r =>
              rw [List.cons_prefix_cons] at hp
              obtain ⟨rfl, hp⟩ := hp
              cases r with
              | nil => exact Or.inl rfl
              | cons y r' => exact Or.inr ⟨y :: r', rfl, Or.inr ⟨by simp, hp⟩⟩

end Helper
