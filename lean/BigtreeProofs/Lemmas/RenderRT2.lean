import BigtreeModel.Render
import BigtreeProofs.Lemmas.RenderRT1
/-! Helper lemmas for C18.print_roundtrip, part 2: the `cur_parent` walk of `str_to_tree` as an ancestor stack;
reading the specification lines of a tree rebuilds the tree. -/
namespace Render

/-! ### the ancestor stack -/

/-- pop `n` frames (each popped frame is attached to the one below) -/
def popN : Nat → List Frame → List Frame
  | 0, S => S
  | n + 1, f :: p :: rest => popN n (p.attach f :: rest)
  | _ + 1, S => S

def popTo (d : Nat) (S : List Frame) : List Frame := popN (S.length - d) S

theorem popN_short (n : Nat) (S : List Frame) (h : S.length ≤ 1) : popN n S = S := by
  cases n with
  | zero => rfl
  | succ n =>
    match S, h with
    | [], _ => rfl
    | [_], _ => rfl

theorem popN_length : ∀ (n : Nat) (S : List Frame), n < S.length → (popN n S).length = S.length - n
  | 0, _, _ => rfl
  | n + 1, [], h => by simp at h
  | n + 1, [_], h => by simp at h
  | n + 1, f :: p :: rest, h => by
    simp only [popN]
    rw [popN_length n _ (by simp at h ⊢; omega)]
    simp

theorem popN_add : ∀ (a b : Nat) (S : List Frame), popN (a + b) S = popN b (popN a S)
  | 0, b, S => by simp [popN]
  | a + 1, b, [] => by rw [popN_short _ [] (by simp), popN_short _ [] (by simp), popN_short _ [] (by simp)]
  | a + 1, b, [f] => by rw [popN_short _ [f] (by simp), popN_short _ [f] (by simp), popN_short _ [f] (by simp)]
  | a + 1, b, f :: p :: rest => by
    rw [show a + 1 + b = (a + b) + 1 by omega]
    simp only [popN]
    exact popN_add a b _

theorem popTo_length {d : Nat} {S : List Frame} (h1 : 1 ≤ d) (h2 : d ≤ S.length) : (popTo d S).length = d := by
  unfold popTo
  rw [popN_length _ _ (by omega)]; omega

theorem popTo_of_le {d : Nat} {S : List Frame} (h : S.length ≤ d) : popTo d S = S := by
  unfold popTo
  rw [show S.length - d = 0 by omega]; rfl

theorem popTo_popTo {d' d : Nat} {S : List Frame} (h0 : 1 ≤ d') (h : d' ≤ d) : popTo d' (popTo d S) = popTo d' S := by
  by_cases hl : d ≤ S.length
  · have := popTo_length (by omega) hl
    unfold popTo at this ⊢
    rw [this, ← popN_add]
    congr 1; omega
  · rw [popTo_of_le (d := d) (S := S) (by omega)]

theorem popTo_cons_pop {d : Nat} {f p : Frame} {rest : List Frame} (h : rest.length + 1 = d) :
    popTo d (f :: p :: rest) = p.attach f :: rest := by
  unfold popTo
  rw [show (f :: p :: rest).length - d = 1 by simp; omega]
  rfl

theorem popWhile_eq : ∀ (fuel q : Nat) (S : List Frame), 1 ≤ q → S ≠ [] → S.length - q ≤ fuel →
    popWhile q fuel S = some (popTo q S)
  | 0, q, S, _, _, h => by
    unfold popTo
    rw [show S.length - q = 0 by omega]; rfl
  | fuel + 1, q, [], _, h, _ => absurd rfl h
  | fuel + 1, q, [f], hq, _, _ => by
    simp only [popWhile]
    rw [if_neg (by omega), popTo_of_le (by simpa using hq)]
  | fuel + 1, q, f :: p :: rest, hq, _, h => by
    simp only [popWhile]
    by_cases hc : rest.length + 2 > q
    · rw [if_pos hc, popWhile_eq fuel q _ hq (by simp) (by simp at h ⊢; omega)]
      unfold popTo
      rw [show (f :: p :: rest).length - q = ((p.attach f :: rest).length - q) + 1 by simp; omega]
      rfl
    · rw [if_neg hc, popTo_of_le (by simp; omega)]

theorem closeAll_eq : ∀ (fuel : Nat) (S : List Frame), S ≠ [] → S.length ≤ fuel →
    closeAll fuel S = (popTo 1 S).head?.map Frame.close
  | 0, S, h, hl => by
    have : S = [] := List.length_eq_zero_iff.mp (by omega)
    exact absurd this h
  | fuel + 1, [], h, _ => absurd rfl h
  | fuel + 1, [f], _, _ => by simp [closeAll, popTo, popN]
  | fuel + 1, f :: p :: rest, _, hl => by
    simp only [closeAll]
    rw [closeAll_eq fuel _ (by simp) (by simp at hl ⊢; omega)]
    unfold popTo
    rw [show (f :: p :: rest).length - 1 = ((p.attach f :: rest).length - 1) + 1 by simp]
    rfl
end Render

namespace Render

theorem strStep_line {st : Style} (h : styleOk st = true) (ps : List Str) (anc : List Bool) (hr : Bool) {n : Str}
    (hn : nameOk st n = true)
    (hnm : nodeName ps ((anc.map st.glyph).flatten ++ st.fill hr ++ n) = n) (pl? : Option Nat) (S : List Frame)
    (hpl : pl? = some st.stem.length ∨ (pl? = none ∧ anc = []))
    (hS : anc.length + 1 ≤ S.length) (P : Frame) (rest : List Frame)
    (hP : popTo (anc.length + 1) S = P :: rest)
    (hdup : (P.kids.map Tree.name).contains n = false) :
    strStep ps ⟨pl?, S⟩ ((anc.map st.glyph).flatten ++ st.fill hr ++ n) =
      some ⟨some st.stem.length, ⟨n, []⟩ :: P :: rest⟩ := by
  obtain ⟨lb, lf, lpos, hne⟩ := styleOk_lengths h
  have hne' : n.isEmpty = false := by
    obtain ⟨c, tl, rfl, _⟩ := nameOk_parts hn
    rfl
  have hS0 : S ≠ [] := by intro e; subst e; simp at hS
  have hpop : popWhile (anc.length + 1) S.length S = some (P :: rest) := by
    rw [popWhile_eq _ _ _ (by omega) hS0 (by omega), hP]
  have hdiv : (anc.length + 1) * st.stem.length / st.stem.length = anc.length + 1 :=
    Nat.mul_div_cancel _ lpos
  have hmod : (anc.length + 1) * st.stem.length % st.stem.length = 0 := Nat.mul_mod_left _ _
  unfold strStep
  simp only [hnm, indexOf_line h anc hr hn]
  have hdup' : ∀ x ∈ P.kids, ¬ x.name = n := by simpa using hdup
  rcases hpl with rfl | ⟨rfl, rfl⟩
  · simp [hmod, hdiv, hpop, hne']
    exact hdup'
  · simp only [List.length_nil, Nat.zero_add, Nat.one_mul] at hdiv hmod hpop ⊢
    have h0 : st.stem.length ≠ 0 := by omega
    simp [hpop, hne', h0, Nat.div_self lpos]
    exact hdup'
end Render

namespace Render

theorem strLoop_append (ps : List Str) : ∀ (a b : List Str) (s : PState),
    strLoop ps s (a ++ b) = (strLoop ps s a).bind fun s' => strLoop ps s' b
  | [], _, _ => rfl
  | l :: a, b, s => by
    simp only [List.cons_append, strLoop]
    cases strStep ps s l with
    | none => rfl
    | some s' => simp [strLoop_append ps a b s']

theorem erase_name (t : Tree) : (erase t).name = t.name := by
  match t with
  | .node i n a cs => rfl

theorem eraseL_names : ∀ cs : List Tree, (erase.eraseL cs).map Tree.name = cs.map Tree.name
  | [] => rfl
  | c :: cs => by simp [erase.eraseL, erase_name, eraseL_names cs]

theorem eraseL_append_singleton : ∀ (c : Tree) (cs : List Tree), erase.eraseL (c :: cs) = erase c :: erase.eraseL cs := by
  intros; rfl

def Lok (st : Style) : PState → List Frame → Prop := fun s S => s.prefixLen = some st.stem.length ∧ s.stack = S

mutual
theorem rtT {st : Style} (h : styleOk st = true) (ps : List Str) (c : Tree) (anc : List Bool) (hr : Bool)
    (hread : ∀ (anc : List Bool) (hr : Bool), ∀ n ∈ namesT c, nodeName ps ((anc.map st.glyph).flatten ++ st.fill hr ++ n) = n)
    (pl? : Option Nat) (S : List Frame)
    (hpl : pl? = some st.stem.length ∨ (pl? = none ∧ anc = []))
    (hS : anc.length + 1 ≤ S.length) (P : Frame) (rest : List Frame)
    (hP : popTo (anc.length + 1) S = P :: rest)
    (hdup : (P.kids.map Tree.name).contains c.name = false)
    (hnames : ∀ n ∈ namesT c, nameOk st n = true) (hsd : sibDistinct c = true) :
    ∃ S', strLoop ps ⟨pl?, S⟩ ((specT st anc hr c).map Line.text) =
        some ⟨some st.stem.length, S'⟩ ∧ anc.length + 2 ≤ S'.length ∧
      popTo (anc.length + 2) S' = ⟨c.name, erase.eraseL c.children⟩ :: P :: rest := by
  match c with
  | .node i n a cs =>
    have hn : nameOk st n = true := hnames n (by simp [namesT])
    have hstep := strStep_line h ps anc hr hn (hread anc hr n (by simp [namesT])) pl? S hpl hS P rest hP hdup
    have hlenPR : (P :: rest).length = anc.length + 1 := by rw [← hP]; exact popTo_length (by omega) hS
    simp only [sibDistinct, Bool.and_eq_true, decide_eq_true_eq] at hsd
    have hL := rtL h ps cs (anc ++ [hr]) (fun a b m hm => hread a b m (by simp [namesT, hm])) (some st.stem.length) (⟨n, []⟩ :: P :: rest) (Or.inl rfl)
      (by simp at hlenPR ⊢; omega) ⟨n, []⟩ (P :: rest)
      (by rw [popTo_of_le]; simp at hlenPR ⊢; omega)
      (by simpa using hsd.1) (fun m hm => hnames m (by simp [namesT, hm])) hsd.2
    obtain ⟨pl', S', e1, e2, e3, e4⟩ := hL
    refine ⟨S', ?_, ?_, ?_⟩
    · simp only [specT, List.map_cons, strLoop, Line.text]
      rw [hstep]
      simp only [Option.bind_some]
      rw [e1]
      rcases e2 with rfl | ⟨_, rfl⟩ <;> rfl
    · simpa using e3
    · simpa using e4
theorem rtL {st : Style} (h : styleOk st = true) (ps : List Str) (cs : List Tree) (anc : List Bool)
    (hread : ∀ (anc : List Bool) (hr : Bool), ∀ n ∈ namesL cs, nodeName ps ((anc.map st.glyph).flatten ++ st.fill hr ++ n) = n)
    (pl? : Option Nat) (S : List Frame)
    (hpl : pl? = some st.stem.length ∨ (pl? = none ∧ anc = []))
    (hS : anc.length + 1 ≤ S.length) (P : Frame) (rest : List Frame)
    (hP : popTo (anc.length + 1) S = P :: rest)
    (hdup : (P.kids.map Tree.name ++ cs.map Tree.name).Nodup)
    (hnames : ∀ n ∈ namesL cs, nameOk st n = true) (hsd : sibDistinct.sibDistinctL cs = true) :
    ∃ pl' S', strLoop ps ⟨pl?, S⟩ ((specL st anc cs).map Line.text) = some ⟨pl', S'⟩ ∧
      (pl' = some st.stem.length ∨ (cs = [] ∧ pl' = pl?)) ∧ anc.length + 1 ≤ S'.length ∧
      popTo (anc.length + 1) S' = ⟨P.name, P.kids ++ erase.eraseL cs⟩ :: rest := by
  match cs with
  | [] =>
    exact ⟨pl?, S, rfl, Or.inr ⟨rfl, rfl⟩, hS, by simpa [erase.eraseL] using hP⟩
  | c :: cs =>
    simp only [sibDistinct.sibDistinctL, Bool.and_eq_true] at hsd
    have hlenPR : (P :: rest).length = anc.length + 1 := by rw [← hP]; exact popTo_length (by omega) hS
    have hd1 : (P.kids.map Tree.name).contains c.name = false := by
      have := (List.nodup_append.mp hdup).2.2
      simp only [List.contains_eq_mem, decide_eq_false_iff_not]
      intro hc
      exact this _ hc _ (by simp) rfl
    obtain ⟨S1, e1, e2, e3⟩ := rtT h ps c anc (!cs.isEmpty) (fun a b m hm => hread a b m (by simp [namesL, hm])) pl? S hpl hS P rest hP hd1
      (fun m hm => hnames m (by simp [namesL, hm])) hsd.1
    have hP1 : popTo (anc.length + 1) S1 = (P.attach ⟨c.name, erase.eraseL c.children⟩) :: rest := by
      rw [← popTo_popTo (d := anc.length + 2) (by omega) (by omega), e3]
      exact popTo_cons_pop (by simpa using hlenPR)
    have hclose : (Frame.close ⟨c.name, erase.eraseL c.children⟩) = erase c := by
      match c with
      | .node i n a ds => rfl
    have hdup2 : (((P.attach ⟨c.name, erase.eraseL c.children⟩).kids.map Tree.name) ++ cs.map Tree.name).Nodup := by
      simp only [Frame.attach, List.map_append, List.map_cons, List.map_nil, hclose, erase_name, List.append_assoc,
        List.singleton_append]
      simpa using hdup
    obtain ⟨pl2, S2, f1, _, f3, f4⟩ := rtL h ps cs anc (fun a b m hm => hread a b m (by simp [namesL, hm])) (some st.stem.length) S1 (Or.inl rfl) (by omega)
      (P.attach ⟨c.name, erase.eraseL c.children⟩) rest hP1 hdup2
      (fun m hm => hnames m (by simp [namesL, hm])) hsd.2
    refine ⟨pl2, S2, ?_, ?_, f3, ?_⟩
    · simp only [specL, List.map_append]
      rw [strLoop_append, e1]
      exact f1
    · rename_i f2
      rcases f2 with rfl | ⟨rfl, rfl⟩
      · exact Or.inl rfl
      · exact Or.inl rfl
    · rw [f4]
      simp [Frame.attach, hclose, erase.eraseL]
end

theorem strToTree_spec_gen {st : Style} (h : styleOk st = true) (ps : List Str) (t : Tree)
    (hread : ∀ (anc : List Bool) (hr : Bool), ∀ n ∈ namesT t, nodeName ps ((anc.map st.glyph).flatten ++ st.fill hr ++ n) = n)
    (hnames : ∀ n ∈ namesT t, nameOk st n = true) (hsd : sibDistinct t = true) :
    strToTreeLines ps ((specRoot st t).map Line.text) = some (erase t) := by
  match t with
  | .node i n a cs =>
    have hn : nameOk st n = true := hnames n (by simp [namesT])
    obtain ⟨c0, tl, hn0, _⟩ := nameOk_parts hn
    simp only [sibDistinct, Bool.and_eq_true, decide_eq_true_eq] at hsd
    obtain ⟨pl', S', e1, _, e3, e4⟩ := rtL h ps cs [] (fun a b m hm => hread a b m (by simp [namesT, hm])) none [⟨n, []⟩] (Or.inr ⟨rfl, rfl⟩) (by simp) ⟨n, []⟩ []
      (by simp [popTo, popN]) (by simpa using hsd.1) (fun m hm => hnames m (by simp [namesT, hm])) hsd.2
    simp only [specRoot, List.map_cons, Line.text, List.append_nil, List.nil_append, strToTreeLines]
    have : n.isEmpty = false := by rw [hn0]; rfl
    simp only [this, Bool.false_eq_true, ↓reduceIte]
    rw [e1]
    simp only [Option.bind_some]
    have hS' : S' ≠ [] := by intro e; subst e; simp at e3
    rw [closeAll_eq _ _ hS' (Nat.le_refl _)]
    simp only [List.length_nil, Nat.zero_add] at e4
    rw [e4]
    simp [Frame.close, erase]

/-- with the two connectors as prefix list -/
theorem strToTree_spec {st : Style} (h : styleOk st = true) (t : Tree)
    (hnames : ∀ n ∈ namesT t, nameOk st n = true) (hsd : sibDistinct t = true) :
    strToTreeLines [st.branch, st.stemFinal] ((specRoot st t).map Line.text) = some (erase t) :=
  strToTree_spec_gen h _ t (fun anc hr n hn => nodeName_line h anc hr (hnames n hn)) hnames hsd
end Render
