import BigtreeModel.Store
/-!
# Pointer store: well-formedness, reachability, list lemmas (helpers for C01/C02/C03/C20)
-/

namespace Store

theorem ext' {s t : Store} (h1 : s.n = t.n) (h2 : s.parent = t.parent) (h3 : s.children = t.children)
    (h4 : s.name = t.name) (h5 : s.sepOf = t.sepOf) : s = t := by
  cases s; cases t; simp_all

@[simp] theorem setP_parent (s : Store) (x : Nat) (p : Option Nat) (y : Nat) :
    (s.setP x p).parent y = if y = x then p else s.parent y := rfl
@[simp] theorem setP_children (s : Store) (x : Nat) (p : Option Nat) : (s.setP x p).children = s.children := rfl
@[simp] theorem setP_n (s : Store) (x : Nat) (p : Option Nat) : (s.setP x p).n = s.n := rfl
@[simp] theorem setP_name (s : Store) (x : Nat) (p : Option Nat) : (s.setP x p).name = s.name := rfl
@[simp] theorem setP_sepOf (s : Store) (x : Nat) (p : Option Nat) : (s.setP x p).sepOf = s.sepOf := rfl
@[simp] theorem setC_children (s : Store) (x : Nat) (l : List Nat) (y : Nat) :
    (s.setC x l).children y = if y = x then l else s.children y := rfl
@[simp] theorem setC_parent (s : Store) (x : Nat) (l : List Nat) : (s.setC x l).parent = s.parent := rfl
@[simp] theorem setC_n (s : Store) (x : Nat) (l : List Nat) : (s.setC x l).n = s.n := rfl
@[simp] theorem setC_name (s : Store) (x : Nat) (l : List Nat) : (s.setC x l).name = s.name := rfl
@[simp] theorem setC_sepOf (s : Store) (x : Nat) (l : List Nat) : (s.setC x l).sepOf = s.sepOf := rfl

/-- `p` is the parent of `c` -/
def IsParent (s : Store) (p c : Nat) : Prop := s.parent c = some p

/-- W1–W5 of the design: the links form a forest -/
structure WF (s : Store) : Prop where
  up : ∀ c p, s.parent c = some p → c ∈ s.children p
  down : ∀ p c, c ∈ s.children p → s.parent c = some p
  nodup : ∀ p, (s.children p).Nodup
  acyc : ∀ v, Acc s.IsParent v
  range : ∀ c p, s.parent c = some p → c < s.n ∧ p < s.n

/-- reflexive-transitive: `a` is `v` or an ancestor of `v` -/
inductive Reach (s : Store) : Nat → Nat → Prop
  | refl (v) : Reach s v v
  | step {a p v} : Reach s a p → s.parent v = some p → Reach s a v

/-- `a` is a proper ancestor of `v` (walking parents from `v` meets `a` after ≥ 1 steps) -/
def ProperAncestor (s : Store) (a v : Nat) : Prop := ∃ p, s.parent v = some p ∧ Reach s a p

theorem Reach.trans {s : Store} {a b c : Nat} (h1 : Reach s a b) (h2 : Reach s b c) : Reach s a c := by
  induction h2 with
  | refl => exact h1
  | step _ hp ih => exact Reach.step ih hp

theorem Reach.of_parent {s : Store} {p v : Nat} (h : s.parent v = some p) : Reach s p v :=
  Reach.step (Reach.refl p) h

/-- a proper ancestor cannot be the node itself in an acyclic store -/
theorem not_properAncestor_self {s : Store} (h : ∀ v, Acc s.IsParent v) (v : Nat) : ¬ ProperAncestor s v v := by
  have key : ∀ x, Acc s.IsParent x → ∀ q, s.parent x = some q → ¬ Reach s x q := by
    intro x hx
    induction hx with
    | intro x _ ih =>
      intro q hq hr
      cases hr with
      | refl => exact ih x hq x hq (Reach.refl x)
      | step hr' hp => exact ih q hq _ hp (Reach.trans (Reach.of_parent hq) hr')
  intro ⟨p, hp, hr⟩
  exact key v (h v) p hp hr

end Store
