import BigtreeProofs.Lemmas.RenderHDecGrid
/-!
# `decodeNode` reads every block back

* `PreCol`, `hblock_inner_cases` (one child slot / at least two), `hblock_headInv`;
* `hheight` (fuel), `decode_inner_many`, `decode_inner_one`;
* `decode_aux`: mutual induction — a block embedded in the grid decodes to `hExpected`.
-/

namespace Render

/-- the prefix column of an inner node: `nodeStr` plus connector on the node's row, padding plus one glyph elsewhere -/
structure PreCol (ns : Str) (pre : List Str) (idx : Nat) (g : Char) : Prop where
  hidx : pre[idx]? = some (ns ++ [g])
  hpad : ∀ (r : Nat) (x : Str), pre[r]? = some x → r ≠ idx → ∃ g', x = padRow ns g'

theorem PreCol.length {ns : Str} {pre : List Str} {idx : Nat} {g : Char} (h : PreCol ns pre idx g) :
    ∀ (j : Nat) (x : Str), pre[j]? = some x → x.length = ns.length + 1 := by
  intro j x hx
  by_cases hj : j = idx
  · subst hj; rw [h.hidx] at hx; cases hx; simp
  · obtain ⟨g', rfl⟩ := h.hpad j x hx hj; simp [padRow]

theorem zipWith_getElem?_some {pre res : List Str} {j : Nat} {row : Str}
    (h : (List.zipWith (· ++ ·) pre res)[j]? = some row) :
    ∃ x y, pre[j]? = some x ∧ res[j]? = some y ∧ row = x ++ y := by
  rw [List.getElem?_zipWith] at h
  cases hx : pre[j]? with
  | none => simp [hx] at h
  | some x =>
    cases hy : res[j]? with
    | none => simp [hx, hy] at h
    | some y => simp [hx, hy] at h; exact ⟨x, y, rfl, rfl, h.symm⟩

theorem PreCol.headInv {ns : Str} {pre : List Str} {idx : Nat} {g : Char} (h : PreCol ns pre idx g)
    {b : Char} (hb : ns.head? = some b) (res : List Str) :
    HeadInv b (List.zipWith (· ++ ·) pre res, idx) := by
  intro j row hj
  obtain ⟨x, y, hx, -, rfl⟩ := zipWith_getElem?_some hj
  have hne : ns ≠ [] := by intro e; simp [e] at hb
  by_cases hji : j = idx
  · subst hji
    rw [h.hidx] at hx; cases hx
    cases ns with
    | nil => exact absurd rfl hne
    | cons a t => simpa using hb
  · obtain ⟨g', rfl⟩ := h.hpad j x hx hji
    cases ns with
    | nil => exact absurd rfl hne
    | cons a t => simp [padRow, hji, List.replicate_succ]

theorem ConnCol.preCol {S : HStyle} {ns : Str} {pre : List Str} {first mid last : Nat}
    (h : ConnCol S ns pre first mid last) :
    ∃ g, (g = S.splitBranch ∨ g = S.middleChild) ∧ PreCol ns pre mid g := by
  obtain ⟨g, hg, hm⟩ := h.hmid
  exact ⟨g, hg, hm, h.hpad⟩

theorem hlabel_inner_head (S : HStyle) (inter : Bool) (pad : Nat → Nat) (d : Nat) (n : Str) :
    (hlabel S inter pad d n false).head? = some S.branch := by
  cases inter <;> simp [hlabel]

theorem hblockL_single (S : HStyle) (inter : Bool) (pad : Nat → Nat) (d : Nat) (c : HTree) :
    hblockL S inter pad d [c] = [hblock S inter pad d c] := by simp [hblockL]

/-- the two shapes of the block of an inner node -/
theorem hblock_inner_cases (S : HStyle) (inter : Bool) (pad : Nat → Nat) (d : Nat) (n : Str) (cs : List HTree)
    (h : ¬(!cs.any HTree.isReal) = true) :
    (∃ c, cs = [c] ∧ ∃ pre,
      (hblock S inter pad d (.node n cs)).1 = List.zipWith (· ++ ·) pre (hblock S inter pad (d + 1) c).1 ∧
      pre.length = (hblock S inter pad (d + 1) c).1.length ∧
      (hblock S inter pad d (.node n cs)).2 = (hblock S inter pad (d + 1) c).2 ∧
      PreCol (hlabel S inter pad d n false) pre (hblock S inter pad (d + 1) c).2 S.branch) ∨
    (2 ≤ cs.length ∧ ∃ pre first last,
      (hblock S inter pad d (.node n cs)).1 = List.zipWith (· ++ ·) pre
        (joinGap (gapInserted (hblockL S inter pad (d + 1) cs)) (hblockL S inter pad (d + 1) cs)) ∧
      pre.length = (joinGap (gapInserted (hblockL S inter pad (d + 1) cs)) (hblockL S inter pad (d + 1) cs)).length ∧
      ConnCol S (hlabel S inter pad d n false) pre first (hblock S inter pad d (.node n cs)).2 last ∧
      ∀ x ∈ cRows 0 (gapInserted (hblockL S inter pad (d + 1) cs)) (hblockL S inter pad (d + 1) cs),
        first ≤ x ∧ x ≤ last) := by
  have hinv := (hblock_inv S inter pad).2 (d + 1) cs
  rw [hblock_inner _ _ _ _ _ _ h]
  match cs, h, hinv with
  | [], h, _ => simp at h
  | [c], _, hinv =>
    left
    refine ⟨c, rfl, ?_⟩
    rw [hblockL_single]
    obtain ⟨pre, h1, h2, h3, h4, h5⟩ := assemble_single S (hlabel S inter pad d n false) _
      ((hblock_inv S inter pad).1 (d + 1) c)
    exact ⟨pre, h1, h2, h3, h4, h5⟩
  | a :: b :: r, _, hinv =>
    right
    refine ⟨by simp, ?_⟩
    exact assemble_conn S _ _ (by simp [hblockL]) hinv

/-- every block satisfies the head invariant -/
theorem hblock_headInv (S : HStyle) (inter : Bool) (pad : Nat → Nat) (d : Nat) (t : HTree) :
    HeadInv S.branch (hblock S inter pad d t) := by
  have leafCase : ∀ nm, HeadInv S.branch ([hlabel S inter pad d nm true], 0) := by
    intro nm j row hj
    cases j with
    | zero => simp at hj; subst hj; simp [hlabel]
    | succ j => simp at hj
  cases t with
  | hole => rw [hblock_hole]; exact leafCase _
  | node n cs =>
    by_cases h : (!cs.any HTree.isReal) = true
    · rw [hblock_leaf _ _ _ _ _ _ h]; exact leafCase _
    · rcases hblock_inner_cases S inter pad d n cs h with ⟨c, -, pre, h1, -, h3, h4⟩ | ⟨-, pre, first, last, h1, -, h3, -⟩
      · have := h4.headInv (hlabel_inner_head S inter pad d n) (hblock S inter pad (d + 1) c).1
        intro j row hj
        rw [h1] at hj
        rw [h3]; exact this j row hj
      · obtain ⟨g, -, hpc⟩ := h3.preCol
        have := hpc.headInv (hlabel_inner_head S inter pad d n)
          (joinGap (gapInserted (hblockL S inter pad (d + 1) cs)) (hblockL S inter pad (d + 1) cs))
        intro j row hj
        rw [h1] at hj
        exact this j row hj

/-! ### heights (fuel) -/

mutual
/-- number of node levels that are rendered below and including `t` -/
def hheight : HTree → Nat
  | .hole => 1
  | .node _ cs => if !(cs.any HTree.isReal) then 1 else 1 + hheightL cs
def hheightL : List HTree → Nat
  | [] => 0
  | c :: cs => max (hheight c) (hheightL cs)
end

theorem hheight_pos (t : HTree) : 1 ≤ hheight t := by
  cases t with
  | hole => simp [hheight]
  | node n cs => rw [hheight]; split <;> omega

theorem hstyleOk_facts {S : HStyle} (h : hstyleOk S = true) :
    S.firstChild ≠ S.stem ∧ S.firstChild ≠ S.subsequentChild ∧ S.lastChild ≠ S.stem ∧
    S.lastChild ≠ S.subsequentChild ∧ S.branch ≠ ' ' ∧ S.splitBranch ≠ S.branch ∧ S.middleChild ≠ S.branch := by
  simp only [hstyleOk, Bool.and_eq_true, bne_iff_ne, ne_eq] at h
  obtain ⟨⟨⟨⟨⟨⟨⟨⟨h1, h2⟩, h3⟩, h4⟩, h5⟩, h6⟩, h7⟩, h8⟩, h9⟩ := h
  exact ⟨h1, h2, h3, h4, h5, h8, h9⟩

theorem hExpected_inner (inter : Bool) (n : Str) (cs : List HTree) (h : ¬(!cs.any HTree.isReal) = true) :
    hExpected inter (.node n cs) = .node (if inter then n else []) (hExpected.hExpectedL inter cs) := by
  simp only [Bool.not_eq_eq_eq_not, Bool.not_true, Bool.not_eq_false] at h
  simp [hExpected, h]

theorem hExpected_leaf (inter : Bool) (n : Str) (cs : List HTree) (h : (!cs.any HTree.isReal) = true) :
    hExpected inter (.node n cs) = .node (rstrip n) [] := by
  simp only [Bool.not_eq_eq_eq_not, Bool.not_true] at h
  simp [hExpected, h]

/-- the character in the connector column of a framed block -/
theorem conn_char {grid : List Str} {off c : Nat} {ns : Str} {pre res : List Str} (hlen : pre.length = res.length)
    (he : Emb grid off c (List.zipWith (· ++ ·) pre res)) {j : Nat} {gl : Char}
    (hj : pre[j]? = some (padRow ns gl)) : charAt grid (off + j) (c + ns.length) = some gl := by
  have hlt : j < pre.length := (List.getElem?_eq_some_iff.mp hj).1
  have hy : res[j]? = some (res[j]'(by omega)) := List.getElem?_eq_getElem _
  have := he.charAt (j := j) (row := padRow ns gl ++ res[j]'(by omega))
    (by rw [List.getElem?_zipWith, hj, hy]) ns.length
  rw [this]
  simp [padRow]


/-- decoding an inner node with at least two child slots, given that its children decode -/
theorem decode_inner_many (S : HStyle) (hS : hstyleOk S = true) (inter : Bool) (pad : Nat → Nat) (d : Nat)
    (n : Str) (hn : hnameOk n = true) (grid : List Str) (f off c : Nat)
    (ps : List (List Str × Nat)) (gap : Bool) (pre : List Str) (first idx last : Nat)
    (hinv : ∀ p ∈ ps, PInv p) (hh : ∀ p ∈ ps, HeadInv S.branch p)
    (hlen : pre.length = (joinGap gap ps).length)
    (hcc : ConnCol S (hlabel S inter pad d n false) pre first idx last)
    (hbounds : ∀ x ∈ cRows 0 gap ps, first ≤ x ∧ x ≤ last)
    (he : Emb grid off c (List.zipWith (· ++ ·) pre (joinGap gap ps)))
    (kids : List HTree)
    (hkids : (cRows off gap ps).mapM
      (fun r' => decodeNode S grid f r' (c + (hlabel S inter pad d n false).length + 1)) = some kids) :
    decodeNode S grid (f + 1) (off + idx) c = some (.node (if inter then n else []) kids) := by
  obtain ⟨hs1, hs2, hs3, hs4, hb, hs6, hs7⟩ := hstyleOk_facts hS
  generalize hns : hlabel S inter pad d n false = ns at *
  obtain ⟨g, hg, hpc⟩ := hcc.preCol
  have hW := hpc.length
  have hgb : g ≠ S.branch := by rcases hg with rfl | rfl <;> assumption
  have h1 := hcc.lt1
  have h2 := hcc.lt2
  have h3 := hcc.lt3
  -- the node's own row
  have hy : (joinGap gap ps)[idx]? = some ((joinGap gap ps)[idx]'(by omega)) := List.getElem?_eq_getElem _
  have hrow := he idx _ (by rw [List.getElem?_zipWith, hpc.hidx, hy])
  rw [List.append_assoc, List.singleton_append] at hrow
  rw [← hns] at hrow
  rw [decodeNode_innerRow S hb inter pad d n hn grid f (off + idx) c g _ hrow, hns]
  unfold decodeRest
  rw [if_neg (by simpa using hgb)]
  -- scanning
  have hidxlt : off + idx < grid.length :=
    he.lt_length (by rw [List.getElem?_zipWith, hpc.hidx, hy]) (by simp)
  have hy' : (joinGap gap ps)[last]? = some ((joinGap gap ps)[last]'(by omega)) := List.getElem?_eq_getElem _
  have hlastlt : off + last < grid.length :=
    he.lt_length (by rw [List.getElem?_zipWith, hcc.hlast, hy']) (by simp [padRow])
  have hbetween : ∀ j, first < j → j < last → j ≠ idx → ∃ ch, charAt grid (off + j) (c + ns.length) = some ch ∧
      (ch = S.stem ∨ ch = S.subsequentChild) := by
    intro j hj1 hj2 hj3
    rcases hcc.hbetween j hj1 hj2 hj3 with h | h
    · exact ⟨_, conn_char hlen he h, Or.inl rfl⟩
    · exact ⟨_, conn_char hlen he h, Or.inr rfl⟩
  have hup : scanCol S grid (c + ns.length) S.firstChild true grid.length (off + idx) = some (off + first) := by
    apply scanCol_up S grid _ _ _ (conn_char hlen he hcc.hfirst) (idx - first - 1) _ _ (by omega) (by omega)
    intro j hj1 hj2
    obtain ⟨ch, hch, hor⟩ := hbetween (j - off) (by omega) (by omega) (by omega)
    rw [show off + (j - off) = j by omega] at hch
    refine ⟨ch, hch, ?_, hor⟩
    rcases hor with rfl | rfl
    · exact fun e => hs1 e.symm
    · exact fun e => hs2 e.symm
  have hdown : scanCol S grid (c + ns.length) S.lastChild false grid.length (off + idx) = some (off + last) := by
    apply scanCol_down S grid _ _ _ (conn_char hlen he hcc.hlast) (last - idx - 1) _ _ (by omega) (by omega)
    intro j hj1 hj2
    obtain ⟨ch, hch, hor⟩ := hbetween (j - off) (by omega) (by omega) (by omega)
    rw [show off + (j - off) = j by omega] at hch
    refine ⟨ch, hch, ?_, hor⟩
    rcases hor with rfl | rfl
    · exact fun e => hs3 e.symm
    · exact fun e => hs4 e.symm
  rw [hup, hdown]
  -- the children rows
  have he' : Emb grid off (c + (ns.length + 1)) (joinGap gap ps) := he.framed hlen hW
  have hmarks := marks_joined S hb grid (c + (ns.length + 1)) gap ps hinv hh off he'
  have hfilter := filter_range'_restrict _ off _ first last _ hmarks (by omega) (by omega) (by
    intro x hx
    rw [cRows_shift, List.mem_map] at hx
    obtain ⟨y, hy, rfl⟩ := hx
    have := hbounds y hy
    omega)
  rw [← Nat.add_assoc] at hfilter
  simp only [Option.bind_eq_bind, Option.bind_some]
  rw [show off + last - (off + first) + 1 = last - first + 1 by omega, hfilter, hkids]
  rfl


/-- decoding an inner node with one child slot, given that the child decodes -/
theorem decode_inner_one (S : HStyle) (hS : hstyleOk S = true) (inter : Bool) (pad : Nat → Nat) (d : Nat)
    (n : Str) (hn : hnameOk n = true) (grid : List Str) (f off c : Nat)
    (res : List Str) (pre : List Str) (idx : Nat)
    (hidx : idx < res.length)
    (hpc : PreCol (hlabel S inter pad d n false) pre idx S.branch)
    (he : Emb grid off c (List.zipWith (· ++ ·) pre res))
    (kid : HTree)
    (hkid : decodeNode S grid f (off + idx) (c + (hlabel S inter pad d n false).length + 1) = some kid) :
    decodeNode S grid (f + 1) (off + idx) c = some (.node (if inter then n else []) [kid]) := by
  obtain ⟨-, -, -, -, hb, -, -⟩ := hstyleOk_facts hS
  have hy : res[idx]? = some (res[idx]'hidx) := List.getElem?_eq_getElem _
  have hrow := he idx _ (by rw [List.getElem?_zipWith, hpc.hidx, hy])
  rw [List.append_assoc, List.singleton_append] at hrow
  rw [decodeNode_innerRow S hb inter pad d n hn grid f (off + idx) c S.branch _ hrow]
  unfold decodeRest
  rw [if_pos (by simp), hkid]
  rfl

theorem mem_hblockL (S : HStyle) (inter : Bool) (pad : Nat → Nat) (d : Nat) (cs : List HTree)
    (p : List Str × Nat) (hp : p ∈ hblockL S inter pad d cs) : ∃ t, t ∈ cs ∧ hblock S inter pad d t = p := by
  induction cs with
  | nil => simp [hblockL] at hp
  | cons c cs ih =>
    simp only [hblockL, List.mem_cons] at hp
    rcases hp with rfl | hp
    · exact ⟨c, by simp, rfl⟩
    · obtain ⟨t, ht, rfl⟩ := ih hp; exact ⟨t, by simp [ht], rfl⟩

theorem mapM_single_some {α β} (f : α → Option β) (x : α) (ys : List β) (h : [x].mapM f = some ys) :
    ∃ y, f x = some y ∧ ys = [y] := by
  rw [List.mapM_cons] at h
  cases hx : f x with
  | none => simp [hx] at h
  | some y => simp [hx] at h; exact ⟨y, rfl, h.symm⟩

/-- the decoder reads every block back (mutual induction over the tree) -/
theorem decode_aux (S : HStyle) (hS : hstyleOk S = true) (inter : Bool) (pad : Nat → Nat) (grid : List Str) :
    (∀ (d : Nat) (t : HTree), hnamesOk t = true → ∀ fuel off c, hheight t ≤ fuel →
      Emb grid off c (hblock S inter pad d t).1 →
      decodeNode S grid fuel (off + (hblock S inter pad d t).2) c = some (hExpected inter t)) ∧
    (∀ (d : Nat) (cs : List HTree), hnamesOk.hnamesOkL cs = true → ∀ fuel gap off c, hheightL cs ≤ fuel →
      Emb grid off c (joinGap gap (hblockL S inter pad d cs)) →
      (cRows off gap (hblockL S inter pad d cs)).mapM (fun r' => decodeNode S grid fuel r' c)
        = some (hExpected.hExpectedL inter cs)) := by
  apply hblock.mutual_induct S inter pad
  · -- hole
    intro d _ fuel off c hf he
    obtain ⟨f, rfl⟩ : ∃ f, fuel = f + 1 := ⟨fuel - 1, by simp [hheight] at hf; omega⟩
    rw [hblock_hole] at he ⊢
    have := he 0 _ rfl
    rw [hlabel_hole] at this
    rw [decodeNode_leafRow S grid f _ c 0 [] (by simp) this]
    simp [hExpected]
  · -- leaf
    intro d n cs h hn fuel off c hf he
    obtain ⟨f, rfl⟩ : ∃ f, fuel = f + 1 := ⟨fuel - 1, by have := hheight_pos (.node n cs); omega⟩
    rw [hnamesOk, Bool.and_eq_true] at hn
    rw [hblock_leaf _ _ _ _ _ _ h] at he ⊢
    have := he 0 _ rfl
    obtain ⟨l, hl⟩ := hlabel_leaf_shape S inter pad d n hn.1
    rw [hl] at this
    rw [decodeNode_leafRow S grid f _ c l n (noblank_of_noSpace (hnameOk_noblank hn.1).1) this]
    rw [hExpected_leaf _ _ _ h, rstrip_name hn.1]
  · -- inner node
    intro d n cs h ih hn fuel off c hf he
    rw [hnamesOk, Bool.and_eq_true] at hn
    have hreal : ¬(!cs.any HTree.isReal) = true := h
    rw [hheight, if_neg hreal] at hf
    obtain ⟨f, rfl⟩ : ∃ f, fuel = f + 1 := ⟨fuel - 1, by omega⟩
    rw [hExpected_inner _ _ _ h]
    rcases hblock_inner_cases S inter pad d n cs h with ⟨c1, rfl, pre, h1, h2, h3, h4⟩ |
      ⟨-, pre, first, last, h1, h2, h3, h4⟩
    · rw [h1] at he
      rw [h3]
      have he' := he.framed h2 h4.length
      have := ih hn.2 f false off (c + ((hlabel S inter pad d n false).length + 1)) (by omega)
        (by simpa [hblockL, joinGap] using he')
      rw [hblockL_single] at this
      obtain ⟨y, hy1, hy2⟩ := mapM_single_some _ _ _ this
      have hy3 : hExpected.hExpectedL inter [c1] = [hExpected inter c1] := by simp [hExpected.hExpectedL]
      rw [hy3] at hy2 ⊢
      cases hy2
      have hy1' : decodeNode S grid f (off + (hblock S inter pad (d + 1) c1).2)
          (c + (hlabel S inter pad d n false).length + 1) = some (hExpected inter c1) := by
        rw [Nat.add_assoc]; exact hy1
      exact decode_inner_one S hS inter pad d n hn.1 grid f off c _ pre _
        ((hblock_inv S inter pad).1 (d + 1) c1).lt h4 he _ hy1'
    · rw [h1] at he
      obtain ⟨g, -, hpc⟩ := h3.preCol
      have he' := he.framed h2 hpc.length
      have := ih hn.2 f (gapInserted (hblockL S inter pad (d + 1) cs)) off
        (c + ((hlabel S inter pad d n false).length + 1)) (by omega) he'
      rw [← Nat.add_assoc] at this
      exact decode_inner_many S hS inter pad d n hn.1 grid f off c _ _ pre first _ last
        ((hblock_inv S inter pad).2 (d + 1) cs)
        (fun p hp => by
          obtain ⟨t, -, rfl⟩ := mem_hblockL S inter pad (d + 1) cs p hp
          exact hblock_headInv S inter pad (d + 1) t)
        h2 h3 h4 he _ this
  · -- no children
    intro d _ fuel gap off c _ _
    simp [hblockL, cRows, hExpected.hExpectedL]
  · -- cons
    intro d c1 cs ih1 ih2 hn fuel gap off c hf he
    rw [hnamesOk.hnamesOkL, Bool.and_eq_true] at hn
    rw [hheightL] at hf
    rw [hblockL] at he ⊢
    obtain ⟨he1, he2⟩ := he.split_cons
    have r1 := ih1 hn.1 fuel off c (by omega) he1
    have r2 := ih2 hn.2 fuel gap _ c (by omega) he2
    simp only [cRows, List.mapM_cons, r1, r2, hExpected.hExpectedL]
    rfl

end Render
