import BigtreeModel.Modify
/-!
# C08 helper lemmas: path strings with a single-character separator
-/
namespace Modify

variable {c : Char}

/-- every name is non-empty and free of the separator -/
def GoodNames (c : Char) (ns : List Str) : Prop := ∀ n ∈ ns, GoodName c n

theorem GoodNames.cons {n : Str} {ns : List Str} (h : GoodNames c (n :: ns)) :
    GoodName c n ∧ GoodNames c ns :=
  ⟨h n (by simp), fun m hm => h m (by simp [hm])⟩

theorem join_cons_cons (sep p q : Str) (ps : List Str) :
    join sep (p :: q :: ps) = p ++ sep ++ join sep (q :: ps) := rfl

/-! ### split -/

theorem splitGo_word (w : Str) (hw : c ∉ w) (rest acc : Str) :
    splitGo [c] (w ++ rest) 0 acc = splitGo [c] rest 0 (w.reverse ++ acc) := by
  induction w generalizing acc with
  | nil => simp
  | cons x w ih =>
    have hx : x ≠ c := fun h => hw (by simp [h])
    have hw' : c ∉ w := fun h => hw (by simp [h])
    have hpre : ([c].isPrefixOf (x :: (w ++ rest))) = false := by
      simp [List.isPrefixOf, Ne.symm hx]
    simp only [List.cons_append, splitGo, hpre]
    simp [ih hw']

theorem splitGo_sep (rest acc : Str) :
    splitGo [c] (c :: rest) 0 acc = acc.reverse :: splitGo [c] rest 0 [] := by
  simp [splitGo, List.isPrefixOf]

theorem splitOn_join (ns : List Str) (hne : ns ≠ []) (hc : ∀ n ∈ ns, c ∉ n) (acc : Str) :
    splitGo [c] (join [c] ns) 0 acc =
      match ns with
      | [] => []
      | n :: rest => (acc.reverse ++ n) :: rest := by
  induction ns generalizing acc with
  | nil => exact absurd rfl hne
  | cons n ns ih =>
    cases ns with
    | nil =>
      have := splitGo_word n (hc n (by simp)) [] acc
      simp only [List.append_nil] at this
      simp [join, this, splitGo]
    | cons m ns =>
      rw [join_cons_cons, List.append_assoc, splitGo_word n (hc n (by simp)), List.singleton_append,
        splitGo_sep, ih (by simp) (fun x hx => hc x (by simp [hx])) []]
      simp

theorem splitOn_join' (ns : List Str) (hne : ns ≠ []) (hc : ∀ n ∈ ns, c ∉ n) :
    splitOn [c] (join [c] ns) = ns := by
  unfold splitOn
  rw [splitOn_join ns hne hc []]
  cases ns with
  | nil => exact absurd rfl hne
  | cons n rest => simp

theorem splitOn_pathName (ns : List Str) (hne : ns ≠ []) (hc : ∀ n ∈ ns, c ∉ n) :
    splitOn [c] (pathName [c] ns) = [] :: ns := by
  unfold splitOn pathName
  rw [List.singleton_append, splitGo_sep, splitOn_join ns hne hc []]
  cases ns with
  | nil => exact absurd rfl hne
  | cons n rest => simp

/-! ### strip -/

theorem stripL_of_head {s : Str} (h : ∀ x, s.head? = some x → x ≠ c) : stripL [c] s = s := by
  cases s with
  | nil => rfl
  | cons x s =>
    have : x ≠ c := h x rfl
    simp [stripL, List.dropWhile, this]

theorem stripL_sep_cons (s : Str) : stripL [c] (c :: s) = stripL [c] s := by
  simp [stripL, List.dropWhile]

theorem stripR_of_last {s : Str} (h : ∀ x, s.getLast? = some x → x ≠ c) : stripR [c] s = s := by
  unfold stripR
  rw [stripL_of_head, List.reverse_reverse]
  intro x hx
  rw [List.head?_reverse] at hx
  exact h x hx

theorem join_head {n : Str} {ns : List Str} (hn : n ≠ []) : (join [c] (n :: ns)).head? = n.head? := by
  cases ns with
  | nil => rfl
  | cons m ns =>
    rw [join_cons_cons]
    cases n with
    | nil => exact absurd rfl hn
    | cons x n => rfl

theorem getLast?_append_ne {l l' : Str} (h : l' ≠ []) : (l ++ l').getLast? = l'.getLast? := by
  rw [List.getLast?_append]
  cases h' : l'.getLast? with
  | none => exact absurd (List.getLast?_eq_none_iff.1 h') h
  | some x => rfl

theorem join_ne_nil (ns : List Str) (hne : ns ≠ []) (hl : ns.getLast hne ≠ []) : join [c] ns ≠ [] := by
  cases ns with
  | nil => exact absurd rfl hne
  | cons n ns =>
    cases ns with
    | nil => simpa [join] using hl
    | cons m ns => simp [join_cons_cons]

theorem join_getLast (ns : List Str) (hne : ns ≠ []) (hl : ns.getLast hne ≠ []) :
    (join [c] ns).getLast? = (ns.getLast hne).getLast? := by
  induction ns with
  | nil => exact absurd rfl hne
  | cons n ns ih =>
    cases ns with
    | nil => rfl
    | cons m ns =>
      have hl' : (m :: ns).getLast (by simp) ≠ [] := by simpa using hl
      rw [join_cons_cons, getLast?_append_ne (join_ne_nil _ (by simp) hl'), ih (by simp) hl']
      simp

theorem head_ne_of_good {n : Str} (h : GoodName c n) : ∀ x, n.head? = some x → x ≠ c := by
  intro x hx hxc
  cases n with
  | nil => simp at hx
  | cons y n => simp at hx; subst hx; exact h.2 (by simp [hxc])

theorem last_ne_of_good {n : Str} (h : GoodName c n) : ∀ x, n.getLast? = some x → x ≠ c := by
  intro x hx hxc
  have := List.mem_of_getLast? hx
  exact h.2 (hxc ▸ this)

theorem good_last {ns : List Str} (h : GoodNames c ns) (hne : ns ≠ []) : GoodName c (ns.getLast hne) :=
  h _ (List.getLast_mem hne)

/-- `path.rstrip(sep)` leaves a joined path alone -/
theorem stripR_join (ns : List Str) (hne : ns ≠ []) (h : GoodNames c ns) :
    stripR [c] (join [c] ns) = join [c] ns := by
  apply stripR_of_last
  intro x hx
  rw [join_getLast ns hne (good_last h hne).1] at hx
  exact last_ne_of_good (good_last h hne) x hx

theorem stripL_join (n : Str) (ns : List Str) (h : GoodName c n) :
    stripL [c] (join [c] (n :: ns)) = join [c] (n :: ns) := by
  apply stripL_of_head
  intro x hx
  rw [join_head h.1] at hx
  exact head_ne_of_good h x hx

theorem stripR_pathName (ns : List Str) (hne : ns ≠ []) (h : GoodNames c ns) :
    stripR [c] (pathName [c] ns) = pathName [c] ns := by
  apply stripR_of_last
  intro x hx
  unfold pathName at hx
  rw [getLast?_append_ne (join_ne_nil ns hne (good_last h hne).1),
    join_getLast ns hne (good_last h hne).1] at hx
  exact last_ne_of_good (good_last h hne) x hx

theorem stripL_pathName (n : Str) (ns : List Str) (h : GoodName c n) :
    stripL [c] (pathName [c] (n :: ns)) = join [c] (n :: ns) := by
  unfold pathName
  rw [List.singleton_append, stripL_sep_cons, stripL_join n ns h]

/-! ### replace -/

theorem replaceGo_self (s : Str) : replaceGo [c] [c] s 0 = s := by
  induction s with
  | nil => rfl
  | cons x s ih =>
    by_cases hx : x = c
    · subst hx; simp [replaceGo, List.isPrefixOf, ih]
    · simp [replaceGo, List.isPrefixOf, Ne.symm hx, ih]

theorem replace_self (s : Str) : replace [c] [c] s = s := replaceGo_self s

/-! ### what the validation and the lookups see of a printed path -/

theorem lastComp_pathName (ns : List Str) (hne : ns ≠ []) (h : GoodNames c ns) :
    lastComp [c] (pathName [c] ns) = ns.getLast hne := by
  unfold lastComp
  rw [splitOn_pathName ns hne (fun n hn => (h n hn).2)]
  cases ns with
  | nil => exact absurd rfl hne
  | cons n rest =>
    rw [List.getLast?_cons_cons, List.getLast?_eq_some_getLast (by simp)]
    rfl

theorem headComp_pathName (n : Str) (ns : List Str) (h : GoodNames c (n :: ns)) :
    headComp [c] (pathName [c] (n :: ns)) = n := by
  unfold headComp
  rw [stripL_pathName n ns (h n (by simp)), splitOn_join' (n :: ns) (by simp) (fun m hm => (h m hm).2)]
  rfl

/-- the components `find_full_path` / `add_path_to_tree` walk for a printed path -/
theorem comps_pathName (n : Str) (ns : List Str) (h : GoodNames c (n :: ns)) :
    splitOn [c] (stripL [c] (stripR [c] (pathName [c] (n :: ns)))) = n :: ns := by
  rw [stripR_pathName _ (by simp) h, stripL_pathName n ns (h n (by simp)),
    splitOn_join' (n :: ns) (by simp) (fun m hm => (h m hm).2)]

theorem comps_pathName' (n : Str) (ns : List Str) (h : GoodNames c (n :: ns)) :
    splitOn [c] (stripR [c] (stripL [c] (pathName [c] (n :: ns)))) = n :: ns := by
  rw [stripL_pathName n ns (h n (by simp)), stripR_join _ (by simp) h,
    splitOn_join' (n :: ns) (by simp) (fun m hm => (h m hm).2)]

/-- `tree_sep.join(to_path.split(tree_sep)[:-1])`: the printed path of the parent -/
theorem parent_pathName (n : Str) (ns : List Str) (l : Str) (h : GoodNames c (n :: ns ++ [l])) :
    join [c] (splitOn [c] (pathName [c] (n :: ns ++ [l]))).dropLast = pathName [c] (n :: ns) := by
  rw [splitOn_pathName _ (by simp) (fun m hm => (h m hm).2)]
  have : ([] :: (n :: ns ++ [l])).dropLast = [] :: n :: ns := by
    rw [show ([] : Str) :: (n :: ns ++ [l]) = ([] :: n :: ns) ++ [l] by simp, List.dropLast_concat]
  rw [this, join_cons_cons]
  simp [pathName]

end Modify
