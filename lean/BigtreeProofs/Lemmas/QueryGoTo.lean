import BigtreeModel.Query
import BigtreeProofs.Lemmas.QueryAddr
import BigtreeProofs.Lemmas.QueryProps
/-! Helper lemmas for C12: `go_to` = up to the lowest common ancestor, then down. -/

namespace Query

/-! ### longest common prefix -/

theorem lcpLen_le_left : ∀ (a b : Addr), lcpLen a b ≤ a.length
  | [], _ => by simp [lcpLen]
  | _ :: _, [] => by simp [lcpLen]
  | x :: xs, y :: ys => by
    simp only [lcpLen, List.length_cons]
    split
    · have := lcpLen_le_left xs ys; omega
    · omega

theorem lcpLen_le_right : ∀ (a b : Addr), lcpLen a b ≤ b.length
  | [], _ => by simp [lcpLen]
  | _ :: _, [] => by simp [lcpLen]
  | x :: xs, y :: ys => by
    simp only [lcpLen, List.length_cons]
    split
    · have := lcpLen_le_right xs ys; omega
    · omega

theorem take_lcpLen : ∀ (a b : Addr), a.take (lcpLen a b) = b.take (lcpLen a b)
  | [], _ => by simp [lcpLen]
  | _ :: _, [] => by simp [lcpLen]
  | x :: xs, y :: ys => by
    simp only [lcpLen]
    split
    · rename_i h; subst h; simp [take_lcpLen xs ys]
    · simp

/-- any common prefix is at most as long as the longest one -/
theorem le_lcpLen : ∀ (a b : Addr) (j : Nat), j ≤ a.length → j ≤ b.length → a.take j = b.take j →
    j ≤ lcpLen a b
  | [], _, j, h, _, _ => by simp at h; omega
  | _ :: _, [], j, _, h, _ => by simp at h; omega
  | x :: xs, y :: ys, j, h1, h2, h3 => by
    cases j with
    | zero => omega
    | succ j =>
      simp only [List.take_succ_cons, List.cons.injEq] at h3
      simp only [lcpLen, h3.1, ↓reduceIte]
      have := le_lcpLen xs ys j (by simpa using h1) (by simpa using h2) h3.2
      omega

theorem lcpLen_self (a : Addr) : lcpLen a a = a.length := by
  induction a with
  | nil => rfl
  | cons x xs ih => simp [lcpLen, ih]

/-! ### the node path as a list of prefixes -/

theorem length_nodePathSpec (a : Addr) : (nodePathSpec a).length = a.length + 1 := by
  simp [nodePathSpec]

theorem getElem_nodePathSpec (a : Addr) (i : Nat) (h : i < (nodePathSpec a).length) :
    (nodePathSpec a)[i] = a.take i := by
  simp [nodePathSpec]

theorem mem_nodePathSpec {a x : Addr} : x ∈ nodePathSpec a ↔ ∃ m, m ≤ a.length ∧ x = a.take m := by
  simp only [nodePathSpec, List.mem_map, List.mem_range]
  constructor
  · rintro ⟨m, hm, rfl⟩; exact ⟨m, by omega, rfl⟩
  · rintro ⟨m, hm, rfl⟩; exact ⟨m, by omega, rfl⟩

theorem take_inj_of_le {a : Addr} {x y : Nat} (hx : x ≤ a.length) (hy : y ≤ a.length)
    (h : a.take x = a.take y) : x = y := by
  have := congrArg List.length h
  simp only [List.length_take] at this
  omega

theorem nodePathSpec_nodup (a : Addr) : (nodePathSpec a).Nodup := by
  unfold nodePathSpec
  rw [List.nodup_iff_pairwise_ne, List.pairwise_map]
  have := @List.nodup_range (a.length + 1)
  rw [List.nodup_iff_pairwise_ne] at this
  refine this.imp_of_mem ?_
  intro x y hx hy hne e
  have hx' := List.mem_range.1 hx
  have hy' := List.mem_range.1 hy
  exact hne (take_inj_of_le (by omega) (by omega) e)

theorem idxOf_nodePathSpec (a : Addr) {m : Nat} (h : m ≤ a.length) :
    (nodePathSpec a).idxOf (a.take m) = m := by
  have hm : m < (nodePathSpec a).length := by rw [length_nodePathSpec]; omega
  have := (nodePathSpec_nodup a).idxOf_getElem m hm
  rwa [getElem_nodePathSpec] at this

/-! ### `[self] + ancestors`: the prefixes, longest first -/

/-- `[self] + list(self.ancestors)` -/
def upList (a : Addr) : List Addr := (List.range (a.length + 1)).map fun i => a.take (a.length - i)

theorem self_ancestors_eq_upList (a : Addr) : a :: ancestorsSpec a = upList a := by
  apply List.ext_getElem
  · simp [upList, ancestorsSpec]
  · intro i h1 h2
    cases i with
    | zero => simp [upList]
    | succ i =>
      simp only [List.length_cons, length_ancestorsSpec] at h1
      simp only [List.getElem_cons_succ, ancestorsSpec, List.getElem_map, List.getElem_reverse,
        List.getElem_range, List.length_range, upList]
      congr 1
      omega

theorem length_upList (a : Addr) : (upList a).length = a.length + 1 := by simp [upList]

theorem getElem_upList (a : Addr) (i : Nat) (h : i < (upList a).length) :
    (upList a)[i] = a.take (a.length - i) := by
  simp [upList]

theorem mem_upList {a x : Addr} : x ∈ upList a ↔ ∃ m, m ≤ a.length ∧ x = a.take m := by
  simp only [upList, List.mem_map, List.mem_range]
  constructor
  · rintro ⟨i, hi, rfl⟩; exact ⟨a.length - i, by omega, rfl⟩
  · rintro ⟨m, hm, rfl⟩; exact ⟨a.length - m, by omega, by congr 1; omega⟩

theorem upList_nodup (a : Addr) : (upList a).Nodup := by
  unfold upList
  rw [List.nodup_iff_pairwise_ne, List.pairwise_map]
  have := @List.nodup_range (a.length + 1)
  rw [List.nodup_iff_pairwise_ne] at this
  refine this.imp_of_mem ?_
  intro x y hx hy hne e
  have hx' := List.mem_range.1 hx
  have hy' := List.mem_range.1 hy
  have := take_inj_of_le (by omega) (by omega) e
  omega

theorem idxOf_upList (a : Addr) {m : Nat} (h : m ≤ a.length) :
    (upList a).idxOf (a.take m) = a.length - m := by
  have hm : a.length - m < (upList a).length := by rw [length_upList]; omega
  have := (upList_nodup a).idxOf_getElem (a.length - m) hm
  rw [getElem_upList] at this
  have e : a.length - (a.length - m) = m := by omega
  rwa [e] at this

/-! ### minList -/

theorem foldl_min_le (l : List Nat) (x : Nat) : l.foldl min x ≤ x := by
  induction l generalizing x with
  | nil => simp
  | cons y ys ih => exact Nat.le_trans (ih (min x y)) (Nat.min_le_left x y)

theorem foldl_min_lb (l : List Nat) (x m : Nat) (hx : m ≤ x) (hl : ∀ y ∈ l, m ≤ y) : m ≤ l.foldl min x := by
  induction l generalizing x with
  | nil => simpa
  | cons y ys ih =>
    exact ih (min x y) (Nat.le_min.2 ⟨hx, hl y (by simp)⟩) (fun z hz => hl z (by simp [hz]))

theorem foldl_min_le_mem {ys : List Nat} {x : Nat} (h : x ∈ ys) (y : Nat) : ys.foldl min y ≤ x := by
  induction ys generalizing y with
  | nil => simp at h
  | cons z zs ih =>
    rcases List.mem_cons.1 h with rfl | h
    · exact Nat.le_trans (foldl_min_le zs _) (Nat.min_le_right y _)
    · exact ih h (min y z)

theorem minList_eq_of {l : List Nat} {m : Nat} (hm : m ∈ l) (hlb : ∀ x ∈ l, m ≤ x) : minList l = m := by
  cases l with
  | nil => simp at hm
  | cons y ys =>
    simp only [minList]
    apply Nat.le_antisymm
    · rcases List.mem_cons.1 hm with rfl | h
      · exact foldl_min_le ys _
      · exact foldl_min_le_mem h y
    · exact foldl_min_lb ys y m (hlb y (by simp)) (fun z hz => hlb z (by simp [hz]))

/-! ### go_to -/

/-- a prefix of `a` lies on `b`'s node path iff it is a common prefix -/
theorem take_mem_nodePathSpec_iff {a b : Addr} {j : Nat} (hj : j ≤ a.length) :
    a.take j ∈ nodePathSpec b ↔ j ≤ lcpLen a b := by
  rw [mem_nodePathSpec]
  constructor
  · rintro ⟨m, hm, e⟩
    have hl := congrArg List.length e
    simp only [List.length_take] at hl
    have hjm : j = m := by omega
    subst hjm
    exact le_lcpLen a b j hj hm e
  · intro h
    have h1 := lcpLen_le_right a b
    refine ⟨j, by omega, ?_⟩
    have := congrArg (List.take j) (take_lcpLen a b)
    simpa [List.take_take, Nat.min_eq_left h] using this

theorem goToSame_eq_spec (a b : Addr) : goToSame a b = goToSpec a b := by
  unfold goToSame goToSpec
  by_cases hab : a = b
  · subst hab
    simp [lcpLen_self]
  · have hne : (a == b) = false := by simpa using hab
    simp only [hne, Bool.false_eq_true, ↓reduceIte]
    have hl1 := lcpLen_le_left a b
    have hl2 := lcpLen_le_right a b
    rw [ancestors_eq_spec, ancestors_eq_spec, self_ancestors_reverse, self_ancestors_eq_upList]
    -- the minimal index among the common nodes
    have hmin : minList ((List.filter (fun n => (nodePathSpec b).contains n) (upList a)).map
        fun n => (upList a).idxOf n) = a.length - lcpLen a b := by
      apply minList_eq_of
      · refine List.mem_map.2 ⟨a.take (lcpLen a b), ?_, idxOf_upList a hl1⟩
        rw [List.mem_filter]
        refine ⟨mem_upList.2 ⟨_, hl1, rfl⟩, ?_⟩
        rw [List.contains_iff_mem]
        exact (take_mem_nodePathSpec_iff hl1).2 (Nat.le_refl _)
      · intro x hx
        rcases List.mem_map.1 hx with ⟨n, hn, rfl⟩
        rw [List.mem_filter, List.contains_iff_mem] at hn
        rcases mem_upList.1 hn.1 with ⟨m, hm, rfl⟩
        have := (take_mem_nodePathSpec_iff hm).1 hn.2
        rw [idxOf_upList a hm]
        omega
    rw [hmin]
    have hidx : a.length - lcpLen a b < (upList a).length := by rw [length_upList]; omega
    have hnode : ((upList a)[a.length - lcpLen a b]?).getD [] = b.take (lcpLen a b) := by
      rw [List.getElem?_eq_getElem hidx, Option.getD_some, getElem_upList, ← take_lcpLen]
      congr 1; omega
    rw [hnode, idxOf_nodePathSpec b hl2]
    congr 1
    · simp only [upList, ← List.map_take, List.take_range]
      congr 2
      omega
    · apply List.ext_getElem
      · simp [nodePathSpec]; omega
      · intro i h1 h2
        simp [nodePathSpec]

end Query
