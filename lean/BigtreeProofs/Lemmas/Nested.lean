import BigtreeModel.Relation
/-!
# Lemmas for `nested_dict_to_tree` (C13)
Core Lean only.
-/
open Paths

namespace Rel

theorem namesNodup_iff (ts : List Tree) : namesNodup ts = true ↔ (ts.map Tree.name).Nodup := by
  induction ts with
  | nil => simp [namesNodup]
  | cons t ts ih =>
    simp only [namesNodup, Bool.and_eq_true, Bool.not_eq_true', List.map_cons, List.nodup_cons, ih]
    constructor
    · rintro ⟨h1, h2⟩
      refine ⟨?_, h2⟩
      intro hm
      rw [List.mem_map] at hm
      obtain ⟨u, hu, hn⟩ := hm
      have : (ts.any fun u => decide (u.name = t.name)) = true := by
        rw [List.any_eq_true]; exact ⟨u, hu, by simp [hn]⟩
      rw [this] at h1; cases h1
    · rintro ⟨h1, h2⟩
      refine ⟨?_, h2⟩
      cases hany : (ts.any fun u => decide (u.name = t.name)) with
      | false => rfl
      | true =>
        rw [List.any_eq_true] at hany
        obtain ⟨u, hu, hn⟩ := hany
        exact absurd (List.mem_map.mpr ⟨u, hu, by simpa using hn⟩) h1

end Rel

namespace NDict

def name : NDict → Str | .mk n _ _ => n

mutual
theorem toTree_mirror : ∀ (d : NDict) (t : Tree), d.toTree = .ok t → ofTree t = d
  | .mk n a cs, t, h => by
    unfold toTree at h
    split at h
    · cases h
    · cases hl : toTreeL cs with
      | error e => rw [hl] at h; cases h
      | ok ts =>
        rw [hl] at h
        simp only at h
        split at h
        · cases h
          simp [ofTree, toTreeL_mirror cs ts hl]
        · cases h
theorem toTreeL_mirror : ∀ (ds : List NDict) (ts : List Tree), toTreeL ds = .ok ts → ofTreeL ts = ds
  | [], ts, h => by
    simp [toTreeL] at h; subst h; rfl
  | d :: ds, ts, h => by
    unfold toTreeL at h
    cases hd : toTree d with
    | error e => rw [hd] at h; cases h
    | ok t =>
      rw [hd] at h
      simp only at h
      cases hl : toTreeL ds with
      | error e => rw [hl] at h; cases h
      | ok ts' =>
        rw [hl] at h
        cases h
        simp [ofTreeL, toTree_mirror d t hd, toTreeL_mirror ds ts' hl]
end

mutual
/-- a nested dictionary bigtree can represent: non-empty names, sibling names pairwise different -/
def WF : NDict → Prop
  | .mk n _ cs => n ≠ [] ∧ (cs.map name).Nodup ∧ WFL cs
def WFL : List NDict → Prop
  | [] => True
  | d :: ds => WF d ∧ WFL ds
end

theorem ofTree_name (t : Tree) : (ofTree t).name = t.name := by
  cases t; simp [ofTree, name]

theorem ofTreeL_names (ts : List Tree) : (ofTreeL ts).map name = ts.map Tree.name := by
  induction ts with
  | nil => simp [ofTreeL]
  | cons t ts ih => simp [ofTreeL, ih, ofTree_name]

mutual
theorem toTree_accepts : ∀ (d : NDict), WF d → ∃ t, d.toTree = .ok t
  | .mk n a cs, h => by
    unfold WF at h
    obtain ⟨hn, hnd, hw⟩ := h
    obtain ⟨ts, hts⟩ := toTreeL_accepts cs hw
    have hm := toTreeL_mirror cs ts hts
    have hnd' : Rel.namesNodup ts = true := by
      rw [Rel.namesNodup_iff, ← ofTreeL_names, hm]; exact hnd
    exact ⟨.node 0 n a ts, by unfold toTree; simp [hn, hts, hnd']⟩
theorem toTreeL_accepts : ∀ (ds : List NDict), WFL ds → ∃ ts, toTreeL ds = .ok ts
  | [], _ => ⟨[], by simp [toTreeL]⟩
  | d :: ds, h => by
    unfold WFL at h
    obtain ⟨t, ht⟩ := toTree_accepts d h.1
    obtain ⟨ts, hts⟩ := toTreeL_accepts ds h.2
    exact ⟨t :: ts, by unfold toTreeL; simp [ht, hts]⟩
end

mutual
theorem toTree_wf : ∀ (d : NDict) (t : Tree), d.toTree = .ok t → WF d
  | .mk n a cs, t, h => by
    unfold toTree at h
    split at h
    · cases h
    · rename_i hn
      cases hl : toTreeL cs with
      | error e => rw [hl] at h; cases h
      | ok ts =>
        rw [hl] at h
        simp only at h
        split at h
        · rename_i hnd
          unfold WF
          refine ⟨hn, ?_, toTreeL_wf cs ts hl⟩
          rw [← toTreeL_mirror cs ts hl, ofTreeL_names, ← Rel.namesNodup_iff]; exact hnd
        · cases h
theorem toTreeL_wf : ∀ (ds : List NDict) (ts : List Tree), toTreeL ds = .ok ts → WFL ds
  | [], _, _ => by unfold WFL; trivial
  | d :: ds, ts, h => by
    unfold toTreeL at h
    cases hd : toTree d with
    | error e => rw [hd] at h; cases h
    | ok t =>
      rw [hd] at h
      simp only at h
      cases hl : toTreeL ds with
      | error e => rw [hl] at h; cases h
      | ok ts' =>
        unfold WFL
        exact ⟨toTree_wf d t hd, toTreeL_wf ds ts' hl⟩
end

end NDict
