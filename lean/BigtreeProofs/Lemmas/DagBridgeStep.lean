import BigtreeProofs.Lemmas.DagBridgeBasic
import BigtreeProofs.Lemmas.DagStoreExtra
/-!
# DagBridge — the effect of one operation on the edge list of the store
-/

namespace DagStore
open List

/-! ## generic facts about edge lists -/

/-- the edges out of the nodes of `L`, for adjacency `f` -/
def outE (f : Nat → List Nat) (L : List Nat) : List (Nat × Nat) :=
  L.flatMap fun p => (f p).map fun c => (p, c)

theorem edges_eq_outE (s : DStore) : edges s = outE s.children (List.range s.n) := rfl

theorem outE_append (f : Nat → List Nat) (L M : List Nat) : outE f (L ++ M) = outE f L ++ outE f M := by
  simp [outE]

theorem outE_congr {f g : Nat → List Nat} {L : List Nat} (h : ∀ p ∈ L, f p = g p) :
    outE f L = outE g L := by
  induction L with
  | nil => rfl
  | cons a L ih =>
    simp only [outE, flatMap_cons] at ih ⊢
    rw [h a (by simp), ih (fun p hp => h p (by simp [hp]))]

theorem outE_filter_src_all {f : Nat → List Nat} {L : List Nat} (P : Nat → Bool) (h : ∀ p ∈ L, P p = true) :
    (outE f L).filter (fun e => P e.1) = outE f L := by
  rw [filter_eq_self]
  intro e he
  simp only [outE, mem_flatMap, mem_map] at he
  obtain ⟨p, hp, _, _, rfl⟩ := he
  exact h p hp

theorem outE_filter_src_none {f : Nat → List Nat} {L : List Nat} (P : Nat → Bool) (h : ∀ p ∈ L, P p = false) :
    (outE f L).filter (fun e => P e.1) = [] := by
  rw [filter_eq_nil_iff]
  intro e he
  simp only [outE, mem_flatMap, mem_map] at he
  obtain ⟨p, hp, _, _, rfl⟩ := he
  simp [h p hp]

theorem outE_sublist {f g : Nat → List Nat} {L M : List Nat} (hLM : L <+ M)
    (h : ∀ p, f p <+ g p) : outE f L <+ outE g M := by
  induction hLM with
  | slnil => exact Sublist.refl _
  | cons a _ ih =>
    simp only [outE, flatMap_cons] at ih ⊢
    exact ih.trans (sublist_append_right _ _)
  | cons_cons a _ ih =>
    simp only [outE, flatMap_cons] at ih ⊢
    exact Sublist.append ((h a).map _) ih

/-- the store's edge list only grows (order kept) when every children list only grows -/
theorem edges_sublist {s t : DStore} (hn : s.n ≤ t.n) (hc : ∀ x, s.children x <+ t.children x) :
    edges s <+ edges t :=
  outE_sublist (range_sublist.2 hn) hc

theorem edgesUp_sublist {s t : DStore} (hn : s.n ≤ t.n) (hc : ∀ x, s.parents x <+ t.parents x) :
    edgesUp s <+ edgesUp t :=
  outE_sublist (f := s.parents) (g := t.parents) (range_sublist.2 hn) hc |> fun h => by
    have e : ∀ (f : Nat → List Nat) (L : List Nat),
        (L.flatMap fun c => (f c).map fun p => (p, c)) = (outE f L).map Prod.swap := by
      intro f L
      simp [outE, map_flatMap, Function.comp_def]
    unfold edgesUp
    rw [e, e]
    exact h.map _

/-- splitting `range n` at a node -/
theorem range_split {n v : Nat} (hv : v < n) :
    List.range n = List.range v ++ v :: (List.range (n - (v + 1))).map (v + 1 + ·) := by
  have h1 : n = (v + 1) + (n - (v + 1)) := by omega
  conv => lhs; rw [h1, range_add, range_succ]
  simp

/-- one adjacency list gets a tail appended: the new entries sit right behind the node's old ones -/
theorem outE_append_at {f g : Nat → List Nat} {n v : Nat} {A : List Nat} (hv : v < n)
    (hg : ∀ x, g x = if x = v then f v ++ A else f x) :
    outE g (List.range n) =
      (outE f (List.range n)).filter (fun e => decide (e.1 ≤ v)) ++ A.map (fun c => (v, c)) ++
      (outE f (List.range n)).filter (fun e => !decide (e.1 ≤ v)) := by
  rw [range_split hv]
  have hlo : ∀ p ∈ List.range v, g p = f p := by
    intro p hp
    have : p ≠ v := by have := mem_range.1 hp; omega
    rw [hg, if_neg this]
  have hhi : ∀ p ∈ (List.range (n - (v + 1))).map (v + 1 + ·), g p = f p := by
    intro p hp
    obtain ⟨k, _, rfl⟩ := mem_map.1 hp
    have : v + 1 + k ≠ v := by omega
    rw [hg, if_neg this]
  have hcons : ∀ (h : Nat → List Nat) (M : List Nat), outE h (v :: M) = (h v).map (fun c => (v, c)) ++ outE h M := by
    intro h M; simp [outE]
  simp only [outE_append, hcons, filter_append]
  rw [outE_congr hlo, outE_congr hhi, hg v, if_pos rfl]
  have a1 := outE_filter_src_all (f := f) (L := List.range v) (fun p => decide (p ≤ v))
    (fun p hp => by have := mem_range.1 hp; simp; omega)
  have a2 := outE_filter_src_none (f := f) (L := List.range v) (fun p => !decide (p ≤ v))
    (fun p hp => by have := mem_range.1 hp; simp; omega)
  have b1 := outE_filter_src_none (f := f) (L := (List.range (n - (v + 1))).map (v + 1 + ·))
    (fun p => decide (p ≤ v)) (fun p hp => by obtain ⟨k, _, rfl⟩ := mem_map.1 hp; simp; omega)
  have b2 := outE_filter_src_all (f := f) (L := (List.range (n - (v + 1))).map (v + 1 + ·))
    (fun p => !decide (p ≤ v)) (fun p hp => by obtain ⟨k, _, rfl⟩ := mem_map.1 hp; simp; omega)
  have c1 : ((f v).map fun c => (v, c)).filter (fun e => decide (e.1 ≤ v)) = (f v).map fun c => (v, c) := by
    rw [filter_eq_self]; intro e he; obtain ⟨_, _, rfl⟩ := mem_map.1 he; simp
  have c2 : ((f v).map fun c => (v, c)).filter (fun e => !decide (e.1 ≤ v)) = [] := by
    rw [filter_eq_nil_iff]; intro e he; obtain ⟨_, _, rfl⟩ := mem_map.1 he; simp
  rw [a1, a2, b1, b2, c1, c2]
  simp

/-- every adjacency list is filtered by a predicate on the edge: so is the edge list -/
theorem outE_filter {f g : Nat → List Nat} {L : List Nat} (P : Nat × Nat → Bool)
    (h : ∀ x ∈ L, g x = (f x).filter fun c => P (x, c)) : outE g L = (outE f L).filter P := by
  induction L with
  | nil => rfl
  | cons a L ih =>
    simp only [outE, flatMap_cons, filter_append] at ih ⊢
    rw [ih (fun x hx => h x (by simp [hx])), h a (by simp), filter_map]
    rfl

/-! ## accepted assignments: the edge list gains exactly the requested edges that were missing -/

theorem edges_perm_of_adds {s t : DStore} (hs : DWF0 s) (ht : DWF0 t) {R : List (Nat × Nat)} (hR : R.Nodup)
    (h : ∀ p c, p ∈ t.parents c ↔ p ∈ s.parents c ∨ (p, c) ∈ R) :
    (edges t).Perm (edges s ++ R.filter fun e => decide (e ∉ edges s)) := by
  have hnd : (edges s ++ R.filter fun e => decide (e ∉ edges s)).Nodup := by
    rw [nodup_append]
    refine ⟨nodup_edges hs, hR.filter _, ?_⟩
    intro a ha b hb hab
    subst hab
    simp only [mem_filter, decide_eq_true_eq] at hb
    exact hb.2 ha
  rw [perm_ext_iff_of_nodup (nodup_edges ht) hnd]
  rintro ⟨p, c⟩
  rw [mem_edges_iff ht, h, mem_append, mem_filter]
  simp only [decide_eq_true_eq, mem_edges_iff hs]
  constructor
  · rintro (h1 | h1)
    · exact Or.inl h1
    · by_cases h2 : p ∈ s.parents c
      · exact Or.inl h2
      · exact Or.inr ⟨h1, h2⟩
  · rintro (h1 | h1)
    · exact Or.inl h1
    · exact Or.inr h1.1

/-- what an accepted assignment asks for never names an edge twice -/
theorem requested_nodup {s : DStore} (hs : DWF s) {op : Op} (h : (step true s op).2 = .ok) :
    (requested s op).Nodup := by
  have inj1 : ∀ v : Nat, ∀ a b : Nat, (a, v) = (b, v) → a = b := fun v a b e => (Prod.mk.inj e).1
  have inj2 : ∀ v : Nat, ∀ a b : Nat, (v, a) = (v, b) → a = b := fun v a b e => (Prod.mk.inj e).2
  cases op with
  | setParents v a f =>
    simp only [step] at h
    split at h
    · obtain ⟨l, rfl, hn, _⟩ := setParents_ok_spec hs h
      exact Dag.nodup_map_of_inj (inj1 v) hn
    · cases h
  | setChildren v a f =>
    simp only [step] at h
    split at h
    · obtain ⟨l, ha, hn, _⟩ := setChildren_ok_spec hs h
      simp only [requested, ha, Option.getD_some]
      exact Dag.nodup_map_of_inj (inj2 v) hn
    · cases h
  | rshift v o f => simp [requested]
  | lshift v o f => simp [requested]
  | delChildren v => simp [requested]
  | delItem v nm => simp [requested]
  | construct nm ps cs fp fc =>
    simp only [step, construct_eq] at h
    cases h1 : (setParents true (alloc s nm) s.n ps fp).2 with
    | rej => simp [h1] at h
    | ok =>
      simp only [h1, reduceCtorEq, if_false] at h
      have h0 := dwf_alloc hs nm
      have hv : s.n < (alloc s nm).n := by simp [alloc]
      obtain ⟨lp, rfl, hnp, hlp⟩ := setParents_ok_spec h0 h1
      obtain ⟨lc, hac, hnc, _⟩ := setChildren_ok_spec (dwf_setParents h0 hv _ fp) h
      have hps : (Arg.list lp).items = some lp := rfl
      simp only [requested, hps, hac, Option.getD_some]
      rw [nodup_append]
      refine ⟨Dag.nodup_map_of_inj (inj1 _) hnp, Dag.nodup_map_of_inj (inj2 _) hnc, ?_⟩
      intro a ha b hb hab
      subst hab
      obtain ⟨p, hp, rfl⟩ := mem_map.1 ha
      obtain ⟨c, _, hc⟩ := mem_map.1 hb
      exact (hlp p hp).2.1 (Prod.mk.inj hc).1.symm

/-- **accepted assignment, on the edge list**: the new edge list is the old one (as a sublist, order
kept) and is, up to order, the old one plus the requested edges that were not yet there, each once -/
theorem step_edges_adds {s : DStore} (hs : DWF s) {op : Op} (ha : op.isAssign = true)
    (h : (step true s op).2 = .ok) :
    (edges (step true s op).1).Perm (edges s ++ (requested s op).filter fun e => decide (e ∉ edges s)) :=
  edges_perm_of_adds hs.toDWF0 (dwf_step hs op).toDWF0 (requested_nodup hs h)
    (fun p c => step_adds hs h ha p c)

theorem delChildrenLoop_n (s : DStore) (v : Nat) (l : List Nat) : (delChildrenLoop s v l).n = s.n := by
  induction l generalizing s with
  | nil => rfl
  | cons c l ih => simp only [delChildrenLoop]; rw [ih]; rfl

theorem step_n_le {s : DStore} (hs : DWF s) (op : Op) : s.n ≤ (step true s op).1.n := by
  cases op with
  | setParents v a f =>
    simp only [step]; split
    · rw [setParents_n s hs.toDWF0]; exact Nat.le_refl _
    · exact Nat.le_refl _
  | setChildren v a f =>
    simp only [step]; split
    · cases h : (setChildren true s v a f).2 with
      | rej => rw [setChildren_rej_id hs.toDWF0 h]; exact Nat.le_refl _
      | ok => obtain ⟨l, _, _, _, he⟩ := setChildren_ok h; rw [he]; simp
    · exact Nat.le_refl _
  | rshift v o f =>
    simp only [step]; split
    · rw [setParents_n s hs.toDWF0]; exact Nat.le_refl _
    · exact Nat.le_refl _
  | lshift v o f =>
    simp only [step]; split
    · rw [setParents_n s hs.toDWF0]; exact Nat.le_refl _
    · exact Nat.le_refl _
  | delChildren v =>
    simp only [step]; split
    · simp only [delChildren, delChildrenLoop_n]; exact Nat.le_refl _
    · exact Nat.le_refl _
  | delItem v nm =>
    simp only [step]; split
    · unfold delItem; split <;> exact Nat.le_refl _
    · exact Nat.le_refl _
  | construct nm ps cs fp fc =>
    simp only [step, construct_eq]
    have h0 := dwf_alloc hs nm
    have hv : s.n < (alloc s nm).n := by simp [alloc]
    have e1 := setParents_n (alloc s nm) h0.toDWF0 s.n ps fp
    split
    · rw [e1]; simp [alloc]
    · have h1 := dwf_setParents h0 hv ps fp
      cases h : (setChildren true (setParents true (alloc s nm) s.n ps fp).1 s.n cs fc).2 with
      | rej => rw [setChildren_rej_id h1.toDWF0 h, e1]; simp [alloc]
      | ok => obtain ⟨l, _, _, _, he⟩ := setChildren_ok h; rw [he, addEs_n, e1]; simp [alloc]

/-- **any assignment, any outcome** (accepted, refused, failed hook, half-built constructor): the old
edge list is a sublist of the new one — no edge disappears, no two edges change their order -/
theorem step_edges_sublist {s : DStore} (hs : DWF s) {op : Op} (ha : op.isAssign = true) :
    edges s <+ edges (step true s op).1 ∧ edgesUp s <+ edgesUp (step true s op).1 :=
  ⟨edges_sublist (step_n_le hs op) (fun x => (step_prefix hs ha x).2.sublist),
   edgesUp_sublist (step_n_le hs op) (fun x => (step_prefix hs ha x).1.sublist)⟩

/-! ## deletions: the edge list loses exactly the named edges, order kept -/

theorem filter_not_removed_self {l : List Nat} {x : Nat} {R : List (Nat × Nat)} (h : ∀ c ∈ l, (x, c) ∉ R) :
    l.filter (fun c => decide ((x, c) ∉ R)) = l := by
  rw [filter_eq_self]
  intro c hc
  simpa using h c hc

theorem edges_of_children_filter {s t : DStore} (hn : t.n = s.n) (R : List (Nat × Nat))
    (h : ∀ x, x < s.n → t.children x = (s.children x).filter fun c => decide ((x, c) ∉ R)) :
    edges t = (edges s).filter fun e => decide (e ∉ R) := by
  rw [edges_eq_outE, edges_eq_outE, hn]
  exact outE_filter _ (fun x hx => h x (mem_range.1 hx))

/-- **deletion, on the edge list**: `del v.children` / `del v[name]` leave the old edge list with
exactly the named edges filtered out (list equality: the order of the remaining edges is kept) -/
theorem step_edges_removes {s : DStore} (hs : DWF s) {op : Op} (ha : op.isAssign = false) :
    edges (step true s op).1 = (edges s).filter fun e => decide (e ∉ removed s op) := by
  have hid : ∀ R : List (Nat × Nat), R = [] → edges s = (edges s).filter fun e => decide (e ∉ R) := by
    intro R hR; subst hR; rw [eq_comm, filter_eq_self]; intro _ _; simp
  cases op with
  | delChildren v =>
    simp only [step]
    split
    · refine edges_of_children_filter (delChildrenLoop_n _ _ _) _ ?_
      intro x _
      change (delChildrenLoop s v (s.children v)).children x = _
      rw [delChildrenLoop_children v rfl, removed]
      by_cases hx : x = v
      · subst hx
        rw [if_pos rfl, eq_comm, filter_eq_nil_iff]
        intro c hc
        simp only [decide_eq_true_eq, Classical.not_not]
        exact mem_map.2 ⟨c, hc, rfl⟩
      · rw [if_neg hx, filter_not_removed_self]
        intro c _ hm
        obtain ⟨_, _, e⟩ := mem_map.1 hm
        exact hx (Prod.mk.inj e).1.symm
    · rename_i hv
      have : s.children v = [] := hs.children_nil (by omega)
      exact hid _ (by simp [removed, this])
  | delItem v nm =>
    simp only [step]
    split
    · unfold delItem removed
      cases hf : (s.children v).filter (fun c => s.names c == nm) with
      | nil => simp only [hf]; exact hid _ rfl
      | cons c' t =>
        cases t with
        | cons b t => simp only [hf]; exact hid _ rfl
        | nil =>
          simp only [hf]
          refine edges_of_children_filter (s := s) (t := (s.popChild v c').popParent c' v) rfl [(v, c')] ?_
          intro x _
          change (s.delE v c').children x = _
          rw [delE_children]
          by_cases hx : x = v
          · subst hx
            rw [if_pos rfl, (hs.ndc x).erase_eq_filter]
            apply filter_congr
            intro c _
            by_cases hcc : c = c' <;> simp [hcc]
          · rw [if_neg hx, filter_not_removed_self]
            intro c _ hm
            simp only [mem_singleton, Prod.mk.injEq] at hm
            exact hx hm.1
    · rename_i hv
      have : s.children v = [] := hs.children_nil (by omega)
      exact hid _ (by simp [removed, this])
  | setParents => cases ha
  | setChildren => cases ha
  | rshift => cases ha
  | lshift => cases ha
  | construct => cases ha

/-! ## accepted setters, list-exactly -/

theorem edgesUp_eq_outE (s : DStore) : edgesUp s = (outE s.parents (List.range s.n)).map Prod.swap := by
  simp [edgesUp, outE, map_flatMap, Function.comp_def]

/-- accepted `v.children = a`: the new edges `(v, c)` — the members of `a` that were not children of
`v` yet, in argument order — are inserted right behind `v`'s old out-edges; nothing else moves -/
theorem setChildren_edges_exact {s : DStore} {v : Nat} (hv : v < s.n) {a : Arg} {f : Fault}
    (h : (setChildren true s v a f).2 = .ok) :
    edges (setChildren true s v a f).1 =
      (edges s).filter (fun e => decide (e.1 ≤ v)) ++
      ((a.items.getD []).filter fun c => decide (v ∉ s.parents c)).map (fun c => (v, c)) ++
      (edges s).filter (fun e => !decide (e.1 ≤ v)) := by
  have hn : (setChildren true s v a f).1.n = s.n := by
    obtain ⟨l, _, _, _, he⟩ := setChildren_ok h; rw [he]; simp
  rw [edges_eq_outE, edges_eq_outE, hn]
  exact outE_append_at hv (fun x => setChildren_ok_children h x)

/-- accepted `v.parents = l`, read on the `parents` lists: the new edges `(p, v)` — the members of `l`
that were not parents of `v` yet, in argument order — sit right behind `v`'s old in-edges -/
theorem setParents_edgesUp_exact {s : DStore} (hs : DWF s) {v : Nat} (hv : v < s.n) {l : List Nat} {f : Fault}
    (h : (setParents true s v (.list l) f).2 = .ok) :
    edgesUp (setParents true s v (.list l) f).1 =
      (edgesUp s).filter (fun e => decide (e.2 ≤ v)) ++
      (l.filter fun p => decide (p ∉ s.parents v)).map (fun p => (p, v)) ++
      (edgesUp s).filter (fun e => !decide (e.2 ≤ v)) := by
  rw [edgesUp_eq_outE, edgesUp_eq_outE, setParents_n s hs.toDWF0,
    outE_append_at hv (fun x => setParents_ok_parents h x)]
  simp only [map_append, filter_map, map_map]
  rfl

/-- … and read on the `children` lists: every new parent gets `v` appended to its children list -/
theorem setParents_edges_exact {s : DStore} (hs : DWF s) {v : Nat} {l : List Nat} {f : Fault}
    (h : (setParents true s v (.list l) f).2 = .ok) :
    edges (setParents true s v (.list l) f).1 =
      (List.range s.n).flatMap fun p =>
        (s.children p ++ if p ∈ l ∧ p ∉ s.parents v then [v] else []).map fun c => (p, c) := by
  obtain ⟨l', hl', hchk, _, he⟩ := setParents_ok h
  cases hl'
  have hnd := (checkParentLoop_spec hchk).1
  rw [edges, setParents_n s hs.toDWF0]
  congr 1
  funext p
  congr 1
  rw [he]
  -- children of `p` after appending the edges `(q, v)` for the new `q`
  have key : ∀ (A : List Nat) (t : DStore), A.Nodup →
      (addEs t (A.map fun q => (q, v))).children p = t.children p ++ if p ∈ A then [v] else [] := by
    intro A
    induction A with
    | nil => intro t _; simp [addEs]
    | cons q A ih =>
      intro t hA
      have hA' := nodup_cons.1 hA
      simp only [map_cons, addEs]
      rw [ih _ hA'.2, addE_children]
      by_cases hpq : p = q
      · subst hpq; simp [hA'.1]
      · simp [hpq]
  rw [newParentEdges, key _ _ (hnd.filter _)]
  simp [mem_filter]

end DagStore
