import Mathlib.Data.List.Nodup
import BigtreeProofs.Lemmas.BridgeBasic
/-!
# Bridge A→B, part 2: the identities of the read-back tree are exactly the descendants, each once;
the forest partitions the node set
-/

namespace Store
open Iter

theorem preL_eq_flatten (ts : List Tree) : preL ts = (ts.map pre).flatten := by
  induction ts with
  | nil => rfl
  | cons t ts ih => simp [preL, ih]

theorem pre_treeOf {s : Store} (hw : WF s) (r f : Nat) (hf : s.n ≤ f) :
    pre (treeOf s f r) = r :: ((s.children r).map fun c => pre (treeOf s f c)).flatten := by
  rw [treeOf_unfold hw r f hf]
  simp only [pre, preL_eq_flatten, List.map_map]
  rfl

/-- the identities of the read-back of `r` are `r` and its descendants -/
theorem mem_pre_treeOf {s : Store} (hw : WF s) (f : Nat) (hf : s.n ≤ f) (r x : Nat) :
    x ∈ pre (treeOf s f r) ↔ Reach s r x := by
  induction r using children_induction hw generalizing x with
  | h r ih =>
    rw [pre_treeOf hw r f hf, reach_top_iff hw]
    simp only [List.mem_cons, List.mem_flatten, List.mem_map]
    constructor
    · rintro (h | ⟨l, ⟨c, hc, rfl⟩, hx⟩)
      · exact Or.inl h
      · exact Or.inr ⟨c, hc, (ih c hc x).1 hx⟩
    · rintro (h | ⟨c, hc, hx⟩)
      · exact Or.inl h
      · exact Or.inr ⟨_, ⟨c, hc, rfl⟩, (ih c hc x).2 hx⟩

/-- two different children of one node have no common descendant -/
theorem siblings_disjoint {s : Store} (hw : WF s) {r c1 c2 x : Nat} (h1 : c1 ∈ s.children r)
    (h2 : c2 ∈ s.children r) (hne : c1 ≠ c2) (hx1 : Reach s c1 x) (hx2 : Reach s c2 x) : False := by
  have hp1 := hw.down r c1 h1
  have hp2 := hw.down r c2 h2
  -- wlog c1 above c2
  have key : ∀ a b, s.parent a = some r → s.parent b = some r → a ≠ b → Reach s a b → False := by
    intro a b ha hb hab hr
    rcases reach_iff.1 hr with h | ⟨p, hp, hrp⟩
    · exact hab h
    · rw [hb] at hp; cases hp
      -- `a` reaches `r`, and `r` is the parent of `a`
      have := Reach.antisymm hw hrp (Reach.of_parent ha)
      subst this
      exact not_properAncestor_self hw.acyc a ⟨a, ha, Reach.refl a⟩
  rcases Reach.comparable hx1 hx2 with h | h
  · exact key c1 c2 hp1 hp2 hne h
  · exact key c2 c1 hp2 hp1 (Ne.symm hne) h

/-- no identity occurs twice in a read-back tree -/
theorem nodup_pre_treeOf {s : Store} (hw : WF s) (f : Nat) (hf : s.n ≤ f) (r : Nat) :
    (pre (treeOf s f r)).Nodup := by
  induction r using children_induction hw with
  | h r ih =>
    rw [pre_treeOf hw r f hf]
    refine List.nodup_cons.2 ⟨?_, ?_⟩
    · simp only [List.mem_flatten, List.mem_map]
      rintro ⟨l, ⟨c, hc, rfl⟩, hx⟩
      have hr := (mem_pre_treeOf hw f hf c r).1 hx
      have := Reach.antisymm hw hr (Reach.of_parent (hw.down r c hc))
      subst this
      exact not_properAncestor_self hw.acyc c ⟨c, hw.down c c hc, Reach.refl c⟩
    · rw [List.nodup_flatten]
      constructor
      · intro l hl
        obtain ⟨c, hc, rfl⟩ := List.mem_map.1 hl
        exact ih c hc
      · rw [List.pairwise_map]
        refine List.Pairwise.imp_of_mem ?_ (hw.nodup r)
        intro c1 c2 h1 h2 hne x hx1 hx2
        exact siblings_disjoint hw h1 h2 hne ((mem_pre_treeOf hw f hf c1 x).1 hx1)
          ((mem_pre_treeOf hw f hf c2 x).1 hx2)

/-! ## roots and the forest -/

theorem mem_roots {s : Store} (r : Nat) : r ∈ roots s ↔ r < s.n ∧ s.parent r = none := by
  simp [roots, Option.isNone_iff_eq_none]

theorem roots_nodup (s : Store) : (roots s).Nodup :=
  List.Nodup.filter _ List.nodup_range

theorem roots_sorted (s : Store) : (roots s).Pairwise (· < ·) :=
  List.Pairwise.filter _ List.pairwise_lt_range

theorem preL_forest (s : Store) :
    preL (forest s) = ((roots s).map fun r => pre (treeOf s s.n r)).flatten := by
  rw [preL_eq_flatten, forest, List.map_map]; rfl

theorem mem_preL_forest {s : Store} (hw : WF s) (x : Nat) : x ∈ preL (forest s) ↔ x < s.n := by
  rw [preL_forest]
  simp only [List.mem_flatten, List.mem_map]
  constructor
  · rintro ⟨l, ⟨r, hr, rfl⟩, hx⟩
    have hrx := (mem_pre_treeOf hw s.n (Nat.le_refl _) r x).1 hx
    cases hrx with
    | refl => exact ((mem_roots x).1 hr).1
    | step _ hp => exact (hw.range _ _ hp).1
  · intro hx
    obtain ⟨h1, h2⟩ := rootOf_is_root hw x
    refine ⟨_, ⟨rootOf s s.n x, (mem_roots _).2 ⟨reach_lt hw h2 hx, h1⟩, rfl⟩, ?_⟩
    exact (mem_pre_treeOf hw s.n (Nat.le_refl _) _ x).2 h2

theorem nodup_preL_forest {s : Store} (hw : WF s) : (preL (forest s)).Nodup := by
  rw [preL_forest, List.nodup_flatten]
  constructor
  · intro l hl
    obtain ⟨r, _, rfl⟩ := List.mem_map.1 hl
    exact nodup_pre_treeOf hw s.n (Nat.le_refl _) r
  · rw [List.pairwise_map]
    refine List.Pairwise.imp_of_mem ?_ (roots_nodup s)
    intro r1 r2 h1 h2 hne x hx1 hx2
    have e1 := rootOf_spec hw ((mem_pre_treeOf hw s.n (Nat.le_refl _) r1 x).1 hx1) ((mem_roots r1).1 h1).2
    have e2 := rootOf_spec hw ((mem_pre_treeOf hw s.n (Nat.le_refl _) r2 x).1 hx2) ((mem_roots r2).1 h2).2
    exact hne (e1.symm.trans e2)

end Store
