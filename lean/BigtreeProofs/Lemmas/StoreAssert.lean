import BigtreeProofs.Lemmas.StoreStep
/-!
# C20 on the pointer store: the `assertions` parameter only guards
-/

namespace Store

def onCfg (nd : Bool) : Cfg := { assertions := true, node := nd }
def offCfg (nd : Bool) : Cfg := { assertions := false, node := nd }

theorem setParent_off_same (nd : Bool) (s : Store) (v : Nat) (np : Option Nat) (f : Fault)
    (h : (setParent (onCfg nd) s v np f).2 = .ok) :
    setParent (offCfg nd) s v np f = setParent (onCfg nd) s v np f := by
  unfold setParent at h ⊢
  simp only [onCfg, offCfg, Bool.true_and, Bool.false_and] at h ⊢
  split at h
  · simp at h
  · rename_i h1; rw [if_neg h1]; simp

theorem setChildren_off_same (nd : Bool) (s : Store) (v : Nat) (cs : List Nat) (f : Fault)
    (h : (setChildren (onCfg nd) s v cs f).2 = .ok) :
    setChildren (offCfg nd) s v cs f = setChildren (onCfg nd) s v cs f := by
  unfold setChildren at h ⊢
  simp only [onCfg, offCfg, Bool.true_and, Bool.false_and] at h ⊢
  split at h
  · simp at h
  · rename_i h1; rw [if_neg h1]; simp

theorem assignParentOf_off_same (nd : Bool) (s : Store) (ch p : Nat) (f : Fault)
    (h : (assignParentOf (onCfg nd) s ch p f).2 = .ok) :
    assignParentOf (offCfg nd) s ch p f = assignParentOf (onCfg nd) s ch p f := by
  unfold assignParentOf at h ⊢
  split
  · rename_i hc; rw [if_pos hc] at h; exact setParent_off_same nd s ch (some p) f h
  · rfl

theorem extend_off_same (nd : Bool) (p : Nat) : ∀ (cs : List Nat) (s : Store) (f : Fault) (k : Nat),
    (extend (onCfg nd) s p cs f k).2 = .ok → extend (offCfg nd) s p cs f k = extend (onCfg nd) s p cs f k := by
  intro cs
  induction cs with
  | nil => intro s f k _; rfl
  | cons x xs ih =>
    intro s f k h
    unfold extend at h ⊢
    cases ho : (assignParentOf (onCfg nd) s x p (if k = 0 then f else .none)).2 with
    | rej => simp only [ho] at h; cases h
    | ok =>
      have e := assignParentOf_off_same nd s x p _ ho
      simp only [ho] at h
      simp only [e, ho]
      exact ih _ _ _ h

/-- an operation accepted with the checks on gives the identical result with the checks off -/
theorem step_off_same (nd : Bool) (s : Store) (op : Op) (h : (step (onCfg nd) s op).2 = .ok) :
    step (offCfg nd) s op = step (onCfg nd) s op := by
  cases op with
  | setParent v np f =>
    simp only [step] at h ⊢; split
    · rename_i hv; rw [if_pos hv] at h; exact setParent_off_same nd s v np f h
    · rfl
  | setChildren v cs f =>
    simp only [step] at h ⊢; split
    · rename_i hv; rw [if_pos hv] at h; exact setChildren_off_same nd s v cs f h
    · rfl
  | setChildrenNonList v f => rfl
  | delChildren v => rfl
  | append p ch f =>
    simp only [step] at h ⊢; split
    · rename_i hv; rw [if_pos hv] at h; exact assignParentOf_off_same nd s ch p f h
    · rfl
  | extend p cs f k =>
    simp only [step] at h ⊢; split
    · rename_i hv; rw [if_pos hv] at h; exact extend_off_same nd p cs s f k h
    · rfl
  | rshift p ch f =>
    simp only [step] at h ⊢; split
    · rename_i hv; rw [if_pos hv] at h; exact assignParentOf_off_same nd s ch p f h
    · rfl
  | lshift ch p f =>
    simp only [step] at h ⊢; split
    · rename_i hv; rw [if_pos hv] at h; exact setParent_off_same nd s ch p f h
    · rfl
  | delItem p nm f =>
    simp only [step, delItem] at h ⊢; split
    · rename_i hv; rw [if_pos hv] at h
      cases hf : findChildByName s p nm with
      | none => rfl
      | some r =>
        cases r with
        | none => rfl
        | some ch => rw [hf] at h; exact setParent_off_same nd s ch none f h
    · rfl
  | sort v ranks rev => rfl
  | setSep v x => rfl

/-- all outcomes of a history are `ok` -/
def AllOk (c : Cfg) : Store → List Op → Prop
  | _, [] => True
  | s, op :: ops => (step c s op).2 = .ok ∧ AllOk c (step c s op).1 ops

theorem trace_off_same (nd : Bool) : ∀ (ops : List Op) (s : Store), AllOk (onCfg nd) s ops →
    trace (offCfg nd) s ops = trace (onCfg nd) s ops := by
  intro ops
  induction ops with
  | nil => intro s _; rfl
  | cons op ops ih =>
    intro s h
    simp only [trace]
    rw [step_off_same nd s op h.1, ih _ h.2]

theorem run_off_same (nd : Bool) : ∀ (ops : List Op) (s : Store), AllOk (onCfg nd) s ops →
    run (offCfg nd) s ops = run (onCfg nd) s ops := by
  intro ops
  induction ops with
  | nil => intro s _; rfl
  | cons op ops ih =>
    intro s h
    simp only [run, List.foldl_cons]
    rw [step_off_same nd s op h.1]
    exact ih _ h.2

end Store
