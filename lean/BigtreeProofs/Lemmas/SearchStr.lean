import BigtreeModel.Search
/-! String lemmas for C09: `split` / `join` / `strip` with a single-character separator. -/

namespace Search

/-! ### join -/

@[simp] theorem join_nil (sep : Str) : join sep [] = [] := rfl
@[simp] theorem join_singleton (sep w : Str) : join sep [w] = w := by
  simp [join, List.intercalate]

theorem join_cons_cons (sep w w' : Str) (ws : List Str) :
    join sep (w :: w' :: ws) = w ++ sep ++ join sep (w' :: ws) := by
  simp [join, List.intercalate, List.intersperse_cons_cons]

theorem join_consHead (sep : Str) (c : Char) (w : Str) (ws : List Str) :
    join sep (consHead c (w :: ws)) = c :: join sep (w :: ws) := by
  cases ws with
  | nil => simp [consHead]
  | cons w' ws => simp [consHead, join_cons_cons]

/-! ### split with a one-character separator -/

theorem splitGo_nil (sep : Str) (k : Nat) : splitGo sep k [] = [[]] := by
  cases k <;> rfl

theorem split_nil (sep : Str) : split sep [] = [[]] := splitGo_nil sep 0

theorem split_single_cons (s c : Char) (cs : Str) :
    split [s] (c :: cs) = if c = s then [] :: split [s] cs else consHead c (split [s] cs) := by
  simp only [split, splitGo, List.isPrefixOf, Bool.and_true,
    List.length_cons, List.length_nil, Nat.zero_add, Nat.sub_self]
  by_cases h : c = s
  · subst h; simp
  · have : (s == c) = false := by
      simp only [beq_eq_false_iff_ne, ne_eq]; exact fun e => h e.symm
    simp [h, this]

theorem split_single_ne_nil (s : Char) (x : Str) : split [s] x ≠ [] := by
  cases x with
  | nil => simp [split_nil]
  | cons c cs =>
    rw [split_single_cons]
    split
    · simp
    · cases split [s] cs <;> simp [consHead]

/-- joining the pieces gives the string back -/
theorem join_split_single (s : Char) (x : Str) : join [s] (split [s] x) = x := by
  induction x with
  | nil => simp [split_nil]
  | cons c cs ih =>
    rw [split_single_cons]
    have hne := split_single_ne_nil s cs
    cases hsp : split [s] cs with
    | nil => exact absurd hsp hne
    | cons w ws =>
      rw [hsp] at ih
      split
      · rename_i h; subst h
        rw [join_cons_cons, ih]; simp
      · rw [join_consHead, ih]

/-- a piece without the separator is not split -/
theorem split_single_of_not_mem (s : Char) (w : Str) (h : s ∉ w) : split [s] w = [w] := by
  induction w with
  | nil => simp [split_nil]
  | cons c cs ih =>
    have hc : c ≠ s := fun e => h (by simp [e])
    have hcs : s ∉ cs := fun e => h (by simp [e])
    rw [split_single_cons, if_neg hc, ih hcs]; rfl

theorem split_single_append (s : Char) (w rest : Str) (h : s ∉ w) :
    split [s] (w ++ s :: rest) = w :: split [s] rest := by
  induction w with
  | nil => simp [split_single_cons]
  | cons c cs ih =>
    have hc : c ≠ s := fun e => h (by simp [e])
    have hcs : s ∉ cs := fun e => h (by simp [e])
    rw [List.cons_append, split_single_cons, if_neg hc, ih hcs]; rfl

/-- splitting the join of separator-free pieces gives the pieces back -/
theorem split_join_single (s : Char) (ws : List Str) (hne : ws ≠ []) (h : ∀ w ∈ ws, s ∉ w) :
    split [s] (join [s] ws) = ws := by
  induction ws with
  | nil => exact absurd rfl hne
  | cons w ws ih =>
    cases ws with
    | nil => simpa using split_single_of_not_mem s w (h w (by simp))
    | cons w' ws =>
      rw [join_cons_cons, List.append_assoc, List.singleton_append,
        split_single_append s w _ (h w (by simp)),
        ih (by simp) (fun x hx => h x (List.mem_cons_of_mem _ hx))]

/-! ### strip with a one-character separator -/

theorem lstrip_single_cons (s c : Char) (cs : Str) :
    lstrip [s] (c :: cs) = if c = s then lstrip [s] cs else c :: cs := by
  simp only [lstrip, List.dropWhile_cons, List.contains_cons, List.contains_nil, Bool.or_false,
    beq_iff_eq]

theorem lstrip_single_of_head (s : Char) (x : Str) (h : ∀ c, x.head? = some c → c ≠ s) :
    lstrip [s] x = x := by
  cases x with
  | nil => rfl
  | cons c cs => rw [lstrip_single_cons, if_neg (h c rfl)]

theorem rstrip_single_of_last (s : Char) (x : Str) (h : ∀ c, x.getLast? = some c → c ≠ s) :
    rstrip [s] x = x := by
  unfold rstrip
  have : List.dropWhile (fun c => [s].contains c) x.reverse = x.reverse := by
    apply lstrip_single_of_head s x.reverse
    intro c hc
    exact h c (by simpa [List.head?_reverse] using hc)
  rw [this, List.reverse_reverse]

end Search
