import BigtreeModel.Bridge
import BigtreeModel.Iter
import BigtreeProofs.Lemmas.StorePathA
import BigtreeProofs.Lemmas.Iter
/-!
# Bridge A→B, part 1: downward induction on a well-formed store, the read-back is fuel-independent
-/

namespace Store

/-! ## more about `Reach` -/

/-- descending: a proper ancestor of `b` is a proper ancestor of everything below `b` -/
theorem ProperAncestor.down {s : Store} {x b a : Nat} (h : ProperAncestor s x b) (hr : Reach s b a) :
    ProperAncestor s x a := by
  induction hr with
  | refl => exact h
  | step _ hp ih => exact ⟨_, hp, reach_iff.2 (Or.inr ih)⟩

theorem Reach.antisymm {s : Store} (hw : WF s) {a b : Nat} (h1 : Reach s a b) (h2 : Reach s b a) : a = b := by
  rcases reach_iff.1 h1 with h | h
  · exact h
  · exact absurd (h.down h2) (not_properAncestor_self hw.acyc a)

/-- the ancestors of a node form a chain -/
theorem Reach.comparable {s : Store} {a b x : Nat} (h1 : Reach s a x) (h2 : Reach s b x) :
    Reach s a b ∨ Reach s b a := by
  induction h1 with
  | refl => exact Or.inr h2
  | step hr hp ih =>
    cases h2 with
    | refl => exact Or.inl (Reach.step hr hp)
    | step hr2 hp2 =>
      rw [hp] at hp2
      cases hp2
      exact ih hr2

/-- first step from the top: below `r` means `r` itself or below a child of `r` -/
theorem reach_top {s : Store} {r x : Nat} (h : Reach s r x) : x = r ∨ ∃ c, s.parent c = some r ∧ Reach s c x := by
  induction h with
  | refl => exact Or.inl rfl
  | step hr hp ih =>
    rename_i p v
    rcases ih with rfl | ⟨c, hc, hcr⟩
    · exact Or.inr ⟨v, hp, Reach.refl v⟩
    · exact Or.inr ⟨c, hc, Reach.step hcr hp⟩

theorem reach_top_iff {s : Store} (hw : WF s) (r x : Nat) :
    Reach s r x ↔ x = r ∨ ∃ c ∈ s.children r, Reach s c x := by
  constructor
  · intro h
    rcases reach_top h with h | ⟨c, hc, hcr⟩
    · exact Or.inl h
    · exact Or.inr ⟨c, hw.up c r hc, hcr⟩
  · rintro (rfl | ⟨c, hc, hcr⟩)
    · exact Reach.refl _
    · exact (Reach.of_parent (hw.down r c hc)).trans hcr

/-- a root is reached only by itself -/
theorem reach_root {s : Store} {a r : Nat} (h : Reach s a r) (hr : s.parent r = none) : a = r := by
  cases h with
  | refl => rfl
  | step _ hp => rw [hr] at hp; cases hp

/-! ## downward induction -/

theorem children_nil_of_ge {s : Store} (hw : WF s) (v : Nat) (hv : s.n ≤ v) : s.children v = [] := by
  cases h : s.children v with
  | nil => rfl
  | cons c cs =>
    have := hw.down v c (by rw [h]; exact List.mem_cons_self)
    have := (hw.range c v this).2
    omega

theorem anc_length_child {s : Store} (hw : WF s) {v c : Nat} (hc : c ∈ s.children v) :
    (anc s s.n c).length = (anc s s.n v).length + 1 ∧ (anc s s.n c).length < s.n := by
  have hp := hw.down v c hc
  refine ⟨by rw [anc_step hw c v hp]; rfl, anc_length_lt hw c (hw.range c v hp).1⟩

/-- induction from the leaves upwards: acyclic finite stores are well-founded downwards, too -/
theorem children_induction {s : Store} (hw : WF s) {P : Nat → Prop}
    (h : ∀ v, (∀ c ∈ s.children v, P c) → P v) : ∀ v, P v := by
  have key : ∀ m v, s.n - (anc s s.n v).length ≤ m → P v := by
    intro m
    induction m with
    | zero =>
      intro v hm
      apply h
      intro c hc
      have := anc_length_child hw hc
      omega
    | succ m ih =>
      intro v hm
      apply h
      intro c hc
      have := anc_length_child hw hc
      apply ih
      omega
  intro v
  exact key _ v (Nat.le_refl _)

/-! ## the read-back -/

@[simp] theorem treeOf_id (s : Store) (f v : Nat) : (treeOf s f v).id = v := by
  cases f <;> rfl

@[simp] theorem treeOf_name (s : Store) (f v : Nat) : (treeOf s f v).name = s.name v := by
  cases f <;> rfl

@[simp] theorem treeOf_attrs (s : Store) (f v : Nat) : (treeOf s f v).attrs = [] := by
  cases f <;> rfl

theorem treeOf_succ (s : Store) (f v : Nat) :
    treeOf s (f + 1) v = .node v (s.name v) [] ((s.children v).map (treeOf s f)) := rfl

/-- enough fuel for the levels that are left below `v` gives one and the same tree -/
theorem treeOf_fuel_aux {s : Store} (hw : WF s) : ∀ (v f g : Nat),
    s.n ≤ f + (anc s s.n v).length + 1 → s.n ≤ g + (anc s s.n v).length + 1 →
    treeOf s f v = treeOf s g v := by
  intro v
  induction v using children_induction hw with
  | h v ih =>
    intro f g hf hg
    have hleaf : s.n ≤ (anc s s.n v).length + 1 → s.children v = [] := by
      intro hle
      cases hch : s.children v with
      | nil => rfl
      | cons c cs =>
        have := anc_length_child hw (v := v) (c := c) (by rw [hch]; exact List.mem_cons_self)
        omega
    cases f with
    | zero =>
      cases g with
      | zero => rfl
      | succ g => simp [treeOf, hleaf (by omega)]
    | succ f =>
      cases g with
      | zero => simp [treeOf, hleaf (by omega)]
      | succ g =>
        simp only [treeOf_succ]
        congr 1
        apply List.map_congr_left
        intro c hc
        have := anc_length_child hw hc
        exact ih c hc f g (by omega) (by omega)

theorem treeOf_fuel {s : Store} (hw : WF s) (v f g : Nat) (hf : s.n ≤ f) (hg : s.n ≤ g) :
    treeOf s f v = treeOf s g v :=
  treeOf_fuel_aux hw v f g (by omega) (by omega)

/-- with fuel `≥ n` the read-back is a fixed point of "read the node, then read its children" -/
theorem treeOf_unfold {s : Store} (hw : WF s) (v f : Nat) (hf : s.n ≤ f) :
    treeOf s f v = .node v (s.name v) [] ((s.children v).map (treeOf s f)) := by
  rw [treeOf_fuel hw v f (f + 1) hf (by omega)]
  rfl

theorem treeOf_children {s : Store} (hw : WF s) (v f : Nat) (hf : s.n ≤ f) :
    (treeOf s f v).children = (s.children v).map (treeOf s f) := by
  rw [treeOf_unfold hw v f hf]; rfl

end Store
