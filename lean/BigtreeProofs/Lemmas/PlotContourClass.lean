import BigtreeModel.Plot
import BigtreeProofs.Lemmas.Plot
import BigtreeProofs.Lemmas.PlotContourWalk
import BigtreeProofs.Lemmas.PlotContourPass
/-!
# Members of the class `Sk.exact`

* every tree of height ≤ 3 (`Sk.exact_of_height_le`);
* every complete binary tree (`Sk.full2_exact`).

Only core Lean is used.
-/

namespace Plot

theorem Sk.height_le_of_mem {c : Sk} {cs : List Sk} (h : c ∈ cs) : c.height ≤ Sk.heightL cs := by
  false_or_by_contra
  rename_i hn
  have : Sk.heightL cs < c.height := by omega
  have h2 := (Sk.lt_heightL_iff (n := Sk.heightL cs) (l := cs)).mpr ⟨c, h, this⟩
  omega

theorem Sk.rwalkL_pos : ∀ {cs : List Sk}, cs ≠ [] → 1 ≤ Sk.rwalkL cs
  | [], h => absurd rfl h
  | c :: cs, _ => by
    simp only [Sk.rwalkL]
    split
    · next h =>
      have hne : cs ≠ [] := by intro h0; subst h0; simp at h
      exact Sk.rwalkL_pos hne
    · cases c; simp [Sk.rwalk]

theorem Sk.lwalkL_pos : ∀ {cs : List Sk}, cs ≠ [] → 1 ≤ Sk.lwalkL cs
  | [], h => absurd rfl h
  | c :: cs, _ => by
    simp only [Sk.lwalkL]
    split
    · cases c; simp [Sk.lwalk]
    · next h =>
      have hne : cs ≠ [] := by intro h0; subst h0; simp at h
      exact Sk.lwalkL_pos hne

theorem Sk.two_le_rwalk : ∀ t : Sk, 2 ≤ t.height → 2 ≤ t.rwalk
  | .node cs, h => by
    rw [Sk.height_node] at h
    rw [Sk.rwalk_node]
    have hne : cs ≠ [] := by intro h0; subst h0; simp [Sk.heightL] at h
    have := Sk.rwalkL_pos hne
    omega

theorem Sk.two_le_lwalk : ∀ t : Sk, 2 ≤ t.height → 2 ≤ t.lwalk
  | .node cs, h => by
    rw [Sk.height_node] at h
    rw [Sk.lwalk_node]
    have hne : cs ≠ [] := by intro h0; subst h0; simp [Sk.heightL] at h
    have := Sk.lwalkL_pos hne
    omega

theorem Sk.rwalk_pos : ∀ t : Sk, 1 ≤ t.rwalk
  | .node _ => by simp [Sk.rwalk]

theorem Sk.lwalk_pos : ∀ t : Sk, 1 ≤ t.lwalk
  | .node _ => by simp [Sk.lwalk]

theorem Sk.pairExact_of_le2 {a b : Sk} (ha : a.height ≤ 2) (hb : b.height ≤ 2) :
    Sk.pairExact a b = true := by
  have h1 := Sk.two_le_rwalk a
  have h2 := Sk.two_le_lwalk b
  have h3 := Sk.rwalk_pos a
  have h4 := Sk.lwalk_pos b
  have h5 := Sk.height_pos a
  have h6 := Sk.height_pos b
  simp only [Sk.pairExact, decide_eq_true_eq]
  omega

theorem Sk.shallow_of_le2 {a b : Sk} (ha : a.height ≤ 2) : Sk.shallow a b = true := by
  simp only [Sk.shallow, decide_eq_true_eq]
  omega

theorem Sk.groupOK_of_le2 : ∀ {cs : List Sk}, (∀ c ∈ cs, c.height ≤ 2) → Sk.groupOK cs = true
  | [], _ => rfl
  | c0 :: rest, h => by
    simp only [Sk.groupOK, Bool.and_eq_true, Sk.exactFrom_iff, Sk.shallowPairs_iff]
    refine ⟨fun c hc => Sk.pairExact_of_le2 (h c0 (by simp)) (h c (by simp [hc])), ?_⟩
    apply List.pairwise_of_forall_mem_list
    intro a ha b _
    exact Sk.shallow_of_le2 (h a (by simp [ha]))

/-- every tree with at most three levels is in the class -/
theorem Sk.exact_of_height_le : ∀ t : Sk, t.height ≤ 3 → t.exact = true := by
  apply Sk.ind
  intro cs ih h
  rw [Sk.height_node] at h
  have hc : ∀ c ∈ cs, c.height ≤ 2 := fun c hc => by
    have := Sk.height_le_of_mem hc; omega
  rw [Sk.exact_node]
  exact ⟨Sk.groupOK_of_le2 hc, fun c hcm => ih c hcm (by have := hc c hcm; omega)⟩

/-! ## complete trees -/

/-- the complete `k`-ary tree with `n + 1` levels -/
def Sk.full (k : Nat) : Nat → Sk
  | 0 => .node []
  | n + 1 => .node (List.replicate k (Sk.full k n))

theorem Sk.full2_walks : ∀ n : Nat, (Sk.full 2 n).height = n + 1 ∧ (Sk.full 2 n).rwalk = n + 1 ∧
    (Sk.full 2 n).lwalk = n + 1
  | 0 => by simp [Sk.full, Sk.height, Sk.heightL, Sk.rwalk, Sk.rwalkL, Sk.lwalk, Sk.lwalkL]
  | n + 1 => by
    obtain ⟨h1, h2, h3⟩ := Sk.full2_walks n
    have e : List.replicate 2 (Sk.full 2 n) = [Sk.full 2 n, Sk.full 2 n] := rfl
    simp only [Sk.full, e, Sk.height, Sk.heightL, Sk.rwalk, Sk.rwalkL, Sk.lwalk, Sk.lwalkL, h1, h2, h3]
    simp only [List.any_cons, List.any_nil, Bool.or_false, Bool.false_eq_true, if_false, List.isEmpty_nil,
      Bool.or_true, if_true, ite_self, List.isEmpty_cons]
    refine ⟨by omega, by omega, by omega⟩

/-- every complete binary tree is in the class -/
theorem Sk.full2_exact : ∀ n : Nat, (Sk.full 2 n).exact = true
  | 0 => by simp [Sk.full, Sk.exact, Sk.groupOK, Sk.exactL]
  | n + 1 => by
    obtain ⟨h1, h2, h3⟩ := Sk.full2_walks n
    have e : List.replicate 2 (Sk.full 2 n) = [Sk.full 2 n, Sk.full 2 n] := rfl
    have ih := Sk.full2_exact n
    simp only [Sk.full, e, Sk.exact, Sk.exactL, Sk.groupOK, Sk.exactFrom, Sk.shallowPairs, Sk.shallowFrom, Sk.pairExact, ih,
      h1, h2, h3]
    simp

theorem toST_sk' : ∀ s : Sk, (Sk.toST s).sk = s := by
  apply Sk.ind
  intro cs ih
  simp only [Sk.toST, Sk.toSTL_eq_map, ST.sk, ST.skL_eq_map, List.map_map]
  congr 1
  conv => rhs; rw [← List.map_id cs]
  exact List.map_congr_left (fun c hc => by simpa using ih c hc)

end Plot
