import BigtreeModel.Render
/-! Helper lemmas for C18 (dot and mermaid): the edges of a tree whose names are the vertex ids are
the parent–child links (pairs of pre-order indices) looked up in the pre-order list of ids. -/
namespace Render

mutual
theorem namesT_length (t : Tree) : (namesT t).length = t.size := by
  match t with
  | .node i n a cs => simp [namesT, Tree.size, namesL_length cs]; omega
theorem namesL_length (cs : List Tree) : (namesL cs).length = Tree.size.sizeL cs := by
  match cs with
  | [] => rfl
  | c :: cs => simp [namesL, Tree.size.sizeL, namesT_length c, namesL_length cs]
end

theorem namesT_head (t : Tree) (rest : List Str) : (namesT t ++ rest).getD 0 [] = t.name := by
  match t with
  | .node i n a cs => simp [namesT]

mutual
/-- (parent name, child name) for every link, in pre-order of the child -/
def edgesOfT : Tree → List (Str × Str)
  | .node _ n _ cs => edgesOfL n cs
def edgesOfL (p : Str) : List Tree → List (Str × Str)
  | [] => []
  | c :: cs => (p, c.name) :: (edgesOfT c ++ edgesOfL p cs)
end

def look (N : List Str) (pc : Nat × Nat) : Str × Str := (N.getD pc.1 [], N.getD pc.2 [])

theorem getD_mid (pre : List Str) (x : Str) (post : List Str) : (pre ++ x :: post).getD pre.length [] = x := by
  simp [List.getD_eq_getElem?_getD]

mutual
theorem edgesOfT_links (t : Tree) (N pre post : List Str) (h : N = pre ++ namesT t ++ post) :
    edgesOfT t = (linksT pre.length t).map (look N) := by
  match t with
  | .node i n a cs =>
    simp only [edgesOfT, linksT]
    have h' : N = (pre ++ [n]) ++ namesL cs ++ post := by simp [h, namesT]
    have hp : N.getD pre.length [] = n := by
      rw [h]; simp only [namesT, List.append_assoc, List.cons_append]; exact getD_mid _ _ _
    have := edgesOfL_links cs n pre.length N (pre ++ [n]) post h' hp
    simpa using this
theorem edgesOfL_links (cs : List Tree) (pname : Str) (pidx : Nat) (N pre post : List Str)
    (h : N = pre ++ namesL cs ++ post) (hp : N.getD pidx [] = pname) :
    edgesOfL pname cs = (linksL pidx pre.length cs).map (look N) := by
  match cs with
  | [] => rfl
  | c :: cs =>
    simp only [edgesOfL, linksL, List.map_cons, List.map_append]
    have h1 : N = pre ++ namesT c ++ (namesL cs ++ post) := by simp [h, namesL]
    have h2 : N = (pre ++ namesT c) ++ namesL cs ++ post := by simp [h, namesL]
    have hc : N.getD pre.length [] = c.name := by
      rw [h1]
      match c with
      | .node i n a ds => simp only [namesT, List.append_assoc, List.cons_append]; exact getD_mid _ _ _
    have e1 := edgesOfT_links c N pre (namesL cs ++ post) h1
    have e2 := edgesOfL_links cs pname pidx N (pre ++ namesT c) post h2 hp
    rw [List.length_append, namesT_length] at e2
    rw [e1, e2]
    simp only [look, hp, hc]
end

/-- the generic index statement -/
theorem edgesOf_eq_links (t : Tree) :
    edgesOfT t = (linksT 0 t).map (look (namesT t)) := by
  have := edgesOfT_links t (namesT t) [] [] (by simp)
  simpa using this

end Render
