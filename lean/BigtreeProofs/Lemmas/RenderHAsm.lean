import BigtreeModel.Render
/-!
# `assemble` (the part of `_hprint_branch` after the recursive calls): shape lemmas

* `PInv`: the shape invariant of a block `(rows, idx)`: one row with `idx = 0`, or `idx` strictly inside;
* `bIdx`, `midSec`, `preMany`: names for the pieces of the prefix column in the many-children case;
* `assemble_one`, `assemble_two_nogap`, `assemble_two_gap`, `assemble_many`: the four cases, unfolded;
* `Framed`, `assemble_framed`: the output is the (gap-joined) children rows with a prefix column of
  constant width `nodeStr.length + 1` in front, the returned row carrying `nodeStr`; `PInv` is preserved.
-/

namespace Render

/-- shape invariant of a block: one row, or the node's row is strictly inside -/
def PInv (p : List Str × Nat) : Prop := (p.1.length = 1 ∧ p.2 = 0) ∨ (0 < p.2 ∧ p.2 + 1 < p.1.length)

theorem PInv.lt {p : List Str × Nat} (h : PInv p) : p.2 < p.1.length := by
  unfold PInv at h; omega

/-! ### the many-children prefix column -/
def midSec (stemRow subs lastR : Str) (B : List Nat) : List Str :=
  let nStems := List.zipWith (fun a b => b - a - 1) B B.tail
  (nStems.dropLast.flatMap fun n => List.replicate n stemRow ++ [subs])
    ++ List.replicate (nStems.getLastD 0) stemRow ++ [lastR]

theorem midSec_two (x y z : Str) (b0 b1 : Nat) :
    midSec x y z [b0, b1] = List.replicate (b1 - b0 - 1) x ++ [z] := by
  simp [midSec]

theorem midSec_cons (x y z : Str) (b0 b1 b2 : Nat) (r : List Nat) :
    midSec x y z (b0 :: b1 :: b2 :: r) = List.replicate (b1 - b0 - 1) x ++ [y] ++ midSec x y z (b1 :: b2 :: r) := by
  simp [midSec]

theorem midSec_length (x y z : Str) (r : List Nat) : ∀ (b0 b1 : Nat),
    (b0 :: b1 :: r).Pairwise (· < ·) →
    (midSec x y z (b0 :: b1 :: r)).length + b0 = (b1 :: r).getLast (by simp) := by
  induction r with
  | nil => intro b0 b1 h; simp [midSec_two] at *; omega
  | cons b2 r ih =>
    intro b0 b1 h
    rw [midSec_cons]
    have h' : (b1 :: b2 :: r).Pairwise (· < ·) := (List.pairwise_cons.mp h).2
    have := ih b1 b2 h'
    have h01 : b0 < b1 := by simp at h; omega
    simp at this ⊢
    omega

theorem midSec_mem (x y z : Str) (r : List Nat) : ∀ (b0 b1 : Nat),
    ∀ s ∈ midSec x y z (b0 :: b1 :: r), s = x ∨ s = y ∨ s = z := by
  induction r with
  | nil => intro b0 b1 s; simp [midSec_two]; grind
  | cons b2 r ih =>
    intro b0 b1 s
    rw [midSec_cons]
    intro hs
    simp only [List.mem_append] at hs
    rcases hs with (hs | hs) | hs
    · simp at hs; simp [hs]
    · simp at hs; simp [hs]
    · exact ih b1 b2 s hs

/-! ### `branch_idxs`, `first`, `last`, `mid` -/
def bIdx (a : Nat) (parts : List (List Str × Nat)) : List Nat :=
  List.zipWith (· + ·) (parts.map (·.2)) (accum a (parts.map (·.1.length)))
@[simp] theorem bIdx_nil (a : Nat) : bIdx a [] = [] := by simp [bIdx]
@[simp] theorem bIdx_cons (a : Nat) (p) (ps) : bIdx a (p :: ps) = (p.2 + a) :: bIdx (a + p.1.length) ps := by
  simp [bIdx, accum]

def aFirst (parts : List (List Str × Nat)) : Nat := (parts.map (·.2)).headD 0
def aTotal (parts : List (List Str × Nat)) : Nat := (parts.map (·.1.length)).sum
def aLast (parts : List (List Str × Nat)) : Nat :=
  aTotal parts + (parts.map (·.2)).getLastD 0 - (parts.map (·.1.length)).getLastD 0
def aMid (parts : List (List Str × Nat)) : Nat := (aFirst parts + aLast parts) / 2

theorem getLastD_le_sum (l : List Nat) : ∀ d, l.getLastD d ≤ l.sum + d := by
  induction l with
  | nil => intro d; simp
  | cons x l ih => intro d; have := ih x; rw [List.getLastD_cons, List.sum_cons]; omega

@[simp] theorem aTotal_cons (p) (ps) : aTotal (p :: ps) = p.1.length + aTotal ps := by simp [aTotal]
@[simp] theorem aFirst_cons (p) (ps) : aFirst (p :: ps) = p.2 := by simp [aFirst]
@[simp] theorem aLast_one (p : List Str × Nat) : aLast [p] = p.2 := by simp [aLast, aTotal]
theorem aLast_cons (p q) (r) : aLast (p :: q :: r) = p.1.length + aLast (q :: r) := by
  have := getLastD_le_sum ((q :: r).map (·.1.length)) 0
  simp only [aLast, aTotal, List.map_cons, List.sum_cons, List.getLastD_cons] at this ⊢
  omega

def Good (ps : List (List Str × Nat)) : Prop := ∀ p ∈ ps, p.2 < p.1.length

theorem aLast_lt (ps : List (List Str × Nat)) (hne : ps ≠ []) (hg : Good ps) : aLast ps < aTotal ps := by
  induction ps with
  | nil => exact absurd rfl hne
  | cons p ps ih =>
    cases ps with
    | nil => have := hg p (by simp); simp; omega
    | cons q r =>
      rw [aLast_cons, aTotal_cons]
      have := ih (by simp) (fun x hx => hg x (List.mem_cons_of_mem _ hx))
      omega

theorem bIdx_ge (ps : List (List Str × Nat)) : ∀ a, ∀ x ∈ bIdx a ps, a ≤ x := by
  induction ps with
  | nil => simp
  | cons p ps ih =>
    intro a x hx
    simp at hx
    rcases hx with rfl | hx
    · omega
    · have := ih _ x hx; omega

theorem bIdx_pairwise (ps : List (List Str × Nat)) (hg : Good ps) : ∀ a, (bIdx a ps).Pairwise (· < ·) := by
  induction ps with
  | nil => simp
  | cons p ps ih =>
    intro a
    simp only [bIdx_cons, List.pairwise_cons]
    refine ⟨fun x hx => ?_, ih (fun x hx => hg x (by simp [hx])) _⟩
    have := bIdx_ge ps _ x hx
    have := hg p (by simp)
    omega

theorem bIdx_getLast (ps : List (List Str × Nat)) (hne : ps ≠ []) : ∀ a,
    (bIdx a ps).getLast? = some (a + aLast ps) := by
  induction ps with
  | nil => exact absurd rfl hne
  | cons p ps ih =>
    intro a
    cases ps with
    | nil => simp; omega
    | cons q r =>
      have := ih (by simp) (a + p.1.length)
      rw [aLast_cons, bIdx_cons]
      rw [bIdx_cons] at this ⊢
      rw [List.getLast?_cons_cons]
      rw [this]; congr 1; omega

/-! ### the cases of `assemble`, unfolded -/

/-- the prefix column of the many-children case before the two `set`s -/
def preMany (S : HStyle) (nodeStr : Str) (parts : List (List Str × Nat)) : List Str :=
  let padding : Str := List.replicate nodeStr.length ' '
  List.replicate (aFirst parts) (padding ++ [' ']) ++ [padding ++ [S.firstChild]]
    ++ midSec (padding ++ [S.stem]) (padding ++ [S.subsequentChild]) (padding ++ [S.lastChild]) (bIdx 0 parts)
    ++ List.replicate (aTotal parts - 1 - aLast parts) (padding ++ [' '])

theorem assemble_many (S : HStyle) (nodeStr : Str) (a b c : List Str × Nat) (r : List (List Str × Nat)) :
    assemble S nodeStr (a :: b :: c :: r) =
      (List.zipWith (· ++ ·)
        (if (bIdx 0 (a :: b :: c :: r)).contains (aMid (a :: b :: c :: r)) then
          ((preMany S nodeStr (a :: b :: c :: r)).set (aMid (a :: b :: c :: r)) (nodeStr ++ [S.splitBranch])).set
            (aMid (a :: b :: c :: r)) (nodeStr ++ [S.middleChild])
         else (preMany S nodeStr (a :: b :: c :: r)).set (aMid (a :: b :: c :: r)) (nodeStr ++ [S.splitBranch]))
        ((a :: b :: c :: r).flatMap (·.1)), aMid (a :: b :: c :: r)) := by
  simp only [assemble, preMany, midSec, bIdx, aMid, aFirst, aLast, aTotal, List.append_assoc]

theorem assemble_one (S : HStyle) (nodeStr : Str) (a : List Str × Nat) :
    assemble S nodeStr [a] =
      (List.zipWith (· ++ ·)
        (List.replicate a.2 (List.replicate nodeStr.length ' ' ++ [' ']) ++ [nodeStr ++ [S.branch]]
          ++ List.replicate (a.1.length - 1 - (a.1.length + a.2 - a.1.length)) (List.replicate nodeStr.length ' ' ++ [' ']))
        a.1, (a.2 + (a.1.length + a.2 - a.1.length)) / 2) := by
  simp [assemble]

theorem assemble_two_nogap (S : HStyle) (nodeStr : Str) (a b : List Str × Nat)
    (h : gapInserted [a, b] = false) :
    assemble S nodeStr [a, b] =
      (List.zipWith (· ++ ·)
        (List.replicate a.2 (List.replicate nodeStr.length ' ' ++ [' '])
          ++ [List.replicate nodeStr.length ' ' ++ [S.firstChild]]
          ++ List.replicate ((a.2 + (a.1.length + b.2)) / 2 - a.2 - 1) (List.replicate nodeStr.length ' ' ++ [S.stem])
          ++ [nodeStr ++ [S.splitBranch]]
          ++ List.replicate (a.1.length + b.2 - (a.2 + (a.1.length + b.2)) / 2 - 1) (List.replicate nodeStr.length ' ' ++ [S.stem])
          ++ [List.replicate nodeStr.length ' ' ++ [S.lastChild]]
          ++ List.replicate (a.1.length + b.1.length - 1 - (a.1.length + b.2)) (List.replicate nodeStr.length ' ' ++ [' ']))
        (a.1 ++ b.1), (a.2 + (a.1.length + b.2)) / 2) := by
  have e : a.1.length + b.1.length + b.2 - b.1.length = a.1.length + b.2 := by omega
  simp only [gapInserted, beq_eq_false_iff_ne, ne_eq] at h
  simp [assemble, e, h]

theorem assemble_two_gap (S : HStyle) (nodeStr : Str) (ra rb : Str) :
    assemble S nodeStr [([ra], 0), ([rb], 0)] =
      ([(List.replicate nodeStr.length ' ' ++ [S.firstChild]) ++ ra,
        (nodeStr ++ [S.splitBranch]) ++ [],
        (List.replicate nodeStr.length ' ' ++ [S.lastChild]) ++ rb], 1) := by
  simp [assemble]

/-! ### the framing statement -/

/-- children rows put one under the other, with the blank row of the gap case between them -/
def joinGap (gap : Bool) : List (List Str × Nat) → List Str
  | [] => []
  | [p] => p.1
  | p :: q :: r => p.1 ++ (if gap then [[]] else []) ++ joinGap gap (q :: r)

theorem joinGap_false (ps : List (List Str × Nat)) : joinGap false ps = ps.flatMap (·.1) := by
  induction ps with
  | nil => rfl
  | cons p ps ih =>
    cases ps with
    | nil => simp [joinGap]
    | cons q r => simp [joinGap, ih]

theorem length_flatMap_rows (ps : List (List Str × Nat)) : (ps.flatMap (·.1)).length = aTotal ps := by
  induction ps with
  | nil => rfl
  | cons p ps ih => simp [ih]

/-- `out` is `result` with a prefix column of constant width `nodeStr.length + 1` in front;
    the prefix of the returned row is `nodeStr` plus one glyph -/
def Framed (nodeStr : Str) (result : List Str) (out : List Str × Nat) : Prop :=
  ∃ pre : List Str, out.1 = List.zipWith (· ++ ·) pre result ∧ pre.length = result.length ∧
    (∀ x ∈ pre, x.length = nodeStr.length + 1) ∧ (∃ g, pre[out.2]? = some (nodeStr ++ [g]))

theorem getElem?_at {α} (l1 : List α) (x : α) (l2 : List α) (n : Nat) (h : l1.length = n) :
    (l1 ++ x :: l2)[n]? = some x := by
  subst h; simp

theorem getElem?_at5 {α} (P : List α) (x : α) (C : List α) (l : α) (D : List α) (n : Nat)
    (h : P.length = n) : (P ++ [x] ++ C ++ [l] ++ D)[n]? = some x := by
  subst h; simp

theorem framed_one (S : HStyle) (nodeStr : Str) (a : List Str × Nat) (ha : PInv a) :
    Framed nodeStr a.1 (assemble S nodeStr [a]) ∧ PInv (assemble S nodeStr [a]) := by
  have hlt := ha.lt
  rw [assemble_one]
  have e1 : a.1.length + a.2 - a.1.length = a.2 := by omega
  have e2 : (a.2 + a.2) / 2 = a.2 := by omega
  rw [e1, e2]
  constructor
  · refine ⟨_, rfl, ?_, ?_, S.branch, ?_⟩
    · simp; omega
    · intro x hx
      simp only [List.mem_append, List.mem_replicate, List.mem_singleton] at hx
      rcases hx with (hx | hx) | hx <;> first | (simp [hx.2]) | (simp [hx])
    · rw [List.append_assoc]; exact getElem?_at _ _ _ _ (by simp)
  · unfold PInv at ha ⊢
    simp
    omega

theorem framed_two_nogap (S : HStyle) (nodeStr : Str) (a b : List Str × Nat) (ha : PInv a) (hb : PInv b)
    (h : gapInserted [a, b] = false) :
    Framed nodeStr (a.1 ++ b.1) (assemble S nodeStr [a, b]) ∧ PInv (assemble S nodeStr [a, b]) := by
  have hla := ha.lt
  have hlb := hb.lt
  rw [assemble_two_nogap S nodeStr a b h]
  simp only [gapInserted, beq_eq_false_iff_ne, ne_eq] at h
  generalize hm : (a.2 + (a.1.length + b.2)) / 2 = m
  have hm1 : a.2 < m := by omega
  have hm2 : m < a.1.length + b.2 := by omega
  constructor
  · refine ⟨_, rfl, ?_, ?_, S.splitBranch, ?_⟩
    · simp; omega
    · intro x hx
      simp only [List.mem_append, List.mem_replicate, List.mem_singleton] at hx
      rcases hx with (((((hx | hx) | hx) | hx) | hx) | hx) | hx <;> first | (simp [hx.2]) | (simp [hx])
    · exact getElem?_at5 _ _ _ _ _ _ (by simp; omega)
  · unfold PInv
    right
    simp
    omega

theorem gap_shape (a b : List Str × Nat) (ha : PInv a) (hb : PInv b) (h : gapInserted [a, b] = true) :
    ∃ ra rb, a = ([ra], 0) ∧ b = ([rb], 0) := by
  simp only [gapInserted, beq_iff_eq] at h
  unfold PInv at ha hb
  have h1 : a.1.length = 1 := by omega
  have h2 : b.1.length = 1 := by omega
  have h3 : a.2 = 0 := by omega
  have h4 : b.2 = 0 := by omega
  obtain ⟨ra, hra⟩ := List.length_eq_one_iff.mp h1
  obtain ⟨rb, hrb⟩ := List.length_eq_one_iff.mp h2
  exact ⟨ra, rb, Prod.ext hra h3, Prod.ext hrb h4⟩

theorem framed_two_gap (S : HStyle) (nodeStr : Str) (ra rb : Str) :
    Framed nodeStr [ra, [], rb] (assemble S nodeStr [([ra], 0), ([rb], 0)]) ∧
      PInv (assemble S nodeStr [([ra], 0), ([rb], 0)]) := by
  rw [assemble_two_gap]
  constructor
  · refine ⟨[List.replicate nodeStr.length ' ' ++ [S.firstChild], nodeStr ++ [S.splitBranch],
      List.replicate nodeStr.length ' ' ++ [S.lastChild]], by simp, by simp, ?_, S.splitBranch, by simp⟩
    intro x hx
    simp only [List.mem_cons, List.not_mem_nil, or_false] at hx
    rcases hx with hx | hx | hx <;> simp [hx]
  · unfold PInv; simp

theorem preMany_length (S : HStyle) (nodeStr : Str) (a b c : List Str × Nat) (r : List (List Str × Nat))
    (hg : Good (a :: b :: c :: r)) :
    (preMany S nodeStr (a :: b :: c :: r)).length = aTotal (a :: b :: c :: r) := by
  have hlast := aLast_lt (a :: b :: c :: r) (by simp) hg
  have hpw := bIdx_pairwise (a :: b :: c :: r) hg 0
  have hgl := bIdx_getLast (a :: b :: c :: r) (by simp) 0
  rw [bIdx_cons, bIdx_cons] at hpw hgl
  have hms := midSec_length (List.replicate nodeStr.length ' ' ++ [S.stem])
    (List.replicate nodeStr.length ' ' ++ [S.subsequentChild]) (List.replicate nodeStr.length ' ' ++ [S.lastChild])
    _ _ _ hpw
  rw [List.getLast?_cons_cons, List.getLast?_eq_some_getLast (by simp)] at hgl
  simp only [Option.some.injEq] at hgl
  rw [hgl] at hms
  unfold preMany
  rw [bIdx_cons, bIdx_cons]
  simp only [List.length_append, List.length_replicate, List.length_cons, List.length_nil, aFirst_cons]
  omega

theorem preMany_mem (S : HStyle) (nodeStr : Str) (a b c : List Str × Nat) (r : List (List Str × Nat)) :
    ∀ x ∈ preMany S nodeStr (a :: b :: c :: r), x.length = nodeStr.length + 1 := by
  intro x hx
  unfold preMany at hx
  rw [bIdx_cons, bIdx_cons] at hx
  simp only [List.mem_append, List.mem_replicate, List.mem_singleton] at hx
  rcases hx with ((hx | hx) | hx) | hx
  · simp [hx.2]
  · simp [hx]
  · rcases midSec_mem _ _ _ _ _ _ x hx with h | h | h <;> simp [h]
  · simp [hx.2]

theorem aMid_bounds (a b c : List Str × Nat) (r : List (List Str × Nat)) (hg : Good (a :: b :: c :: r)) :
    0 < aMid (a :: b :: c :: r) ∧ aMid (a :: b :: c :: r) + 1 < aTotal (a :: b :: c :: r) := by
  have hlast := aLast_lt (a :: b :: c :: r) (by simp) hg
  have ha := hg a (by simp)
  have hb := hg b (by simp)
  unfold aMid
  rw [aLast_cons, aLast_cons] at *
  rw [aFirst_cons]
  omega

theorem framed_many (S : HStyle) (nodeStr : Str) (a b c : List Str × Nat) (r : List (List Str × Nat))
    (hg : Good (a :: b :: c :: r)) :
    Framed nodeStr ((a :: b :: c :: r).flatMap (·.1)) (assemble S nodeStr (a :: b :: c :: r)) ∧
      PInv (assemble S nodeStr (a :: b :: c :: r)) := by
  rw [assemble_many]
  have hlen := preMany_length S nodeStr a b c r hg
  have hmem := preMany_mem S nodeStr a b c r
  have hmid := aMid_bounds a b c r hg
  have hres := length_flatMap_rows (a :: b :: c :: r)
  generalize preMany S nodeStr (a :: b :: c :: r) = pre at *
  generalize aMid (a :: b :: c :: r) = m at *
  generalize aTotal (a :: b :: c :: r) = T at *
  generalize (a :: b :: c :: r).flatMap (·.1) = res at *
  constructor
  · refine ⟨_, rfl, ?_, ?_, ?_⟩
    · split <;> simp [hlen, hres]
    · intro x hx
      split at hx
      · rcases List.mem_or_eq_of_mem_set hx with hx | hx
        · rcases List.mem_or_eq_of_mem_set hx with hx | hx
          · exact hmem x hx
          · simp [hx]
        · simp [hx]
      · rcases List.mem_or_eq_of_mem_set hx with hx | hx
        · exact hmem x hx
        · simp [hx]
    · split
      · exact ⟨S.middleChild, List.getElem?_set_self (by simp; omega)⟩
      · exact ⟨S.splitBranch, List.getElem?_set_self (by omega)⟩
  · unfold PInv
    right
    simp only
    have : (List.zipWith (· ++ ·)
        (if (bIdx 0 (a :: b :: c :: r)).contains m then (pre.set m (nodeStr ++ [S.splitBranch])).set m (nodeStr ++ [S.middleChild])
          else pre.set m (nodeStr ++ [S.splitBranch])) res).length = T := by
      split <;> simp [hlen, hres]
    omega

theorem good_of_inv (ps : List (List Str × Nat)) (h : ∀ p ∈ ps, PInv p) : Good ps :=
  fun p hp => (h p hp).lt

/-- `assemble` puts a prefix column of constant width in front of the gap-joined children rows,
    the returned row carries `nodeStr`, and the shape invariant is preserved -/
theorem assemble_framed (S : HStyle) (nodeStr : Str) (ps : List (List Str × Nat)) (hne : ps ≠ [])
    (hinv : ∀ p ∈ ps, PInv p) :
    Framed nodeStr (joinGap (gapInserted ps) ps) (assemble S nodeStr ps) ∧ PInv (assemble S nodeStr ps) := by
  match ps, hne, hinv with
  | [a], _, hinv =>
    have := framed_one S nodeStr a (hinv a (by simp))
    simpa [joinGap] using this
  | [a, b], _, hinv =>
    have ha := hinv a (by simp)
    have hb := hinv b (by simp)
    cases hgap : gapInserted [a, b] with
    | false =>
      have := framed_two_nogap S nodeStr a b ha hb hgap
      simpa [joinGap] using this
    | true =>
      obtain ⟨ra, rb, rfl, rfl⟩ := gap_shape a b ha hb hgap
      have := framed_two_gap S nodeStr ra rb
      simpa [joinGap] using this
  | a :: b :: c :: r, _, hinv =>
    have := framed_many S nodeStr a b c r (good_of_inv _ hinv)
    have e : gapInserted (a :: b :: c :: r) = false := rfl
    rw [e, joinGap_false]
    exact this

end Render
