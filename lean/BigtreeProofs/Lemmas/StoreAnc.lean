import BigtreeProofs.Lemmas.StoreWF
/-!
# The executable ancestor walk (`anc`, fuel `n`) is the semantic one; meaning of the guards
-/

namespace Store

theorem reach_iff {s : Store} {a v : Nat} : Reach s a v ↔ a = v ∨ ProperAncestor s a v := by
  constructor
  · intro h
    cases h with
    | refl => exact Or.inl rfl
    | step hr hp => exact Or.inr ⟨_, hp, hr⟩
  · rintro (rfl | ⟨p, hp, hr⟩)
    · exact Reach.refl _
    · exact Reach.step hr hp

theorem mem_anc_proper {s : Store} : ∀ (f x a : Nat), a ∈ anc s f x → ProperAncestor s a x := by
  intro f
  induction f with
  | zero => intro x a h; simp [anc] at h
  | succ f ih =>
    intro x a h
    unfold anc at h
    cases hp : s.parent x with
    | none => simp [hp] at h
    | some p =>
      simp only [hp, List.mem_cons] at h
      rcases h with rfl | h
      · exact ⟨a, hp, Reach.refl a⟩
      · obtain ⟨q, hq, hr⟩ := ih p a h
        exact ⟨p, hp, Reach.step hr hq⟩

/-- if the walk stopped before the fuel ran out it has seen every proper ancestor -/
theorem proper_mem_anc {s : Store} : ∀ (f x : Nat), (anc s f x).length < f →
    ∀ a, ProperAncestor s a x → a ∈ anc s f x := by
  intro f
  induction f with
  | zero => intro x h; simp at h
  | succ f ih =>
    intro x hlen a ⟨p, hp, hr⟩
    unfold anc at hlen ⊢
    simp only [hp] at hlen ⊢
    simp only [List.length_cons, Nat.add_lt_add_iff_right] at hlen
    rcases reach_iff.1 hr with rfl | hpa
    · exact List.mem_cons_self
    · exact List.mem_cons_of_mem _ (ih p hlen a hpa)

theorem nodup_bounded_length : ∀ (n : Nat) (l : List Nat), l.Nodup → (∀ x ∈ l, x < n) → l.length ≤ n := by
  intro n
  induction n with
  | zero =>
    intro l _ h
    cases l with
    | nil => simp
    | cons a l => exact absurd (h a List.mem_cons_self) (Nat.not_lt_zero a)
  | succ n ih =>
    intro l hn h
    have h1 : ((l.erase n).length) ≤ n := by
      apply ih _ (hn.erase n)
      intro x hx
      have := (hn.mem_erase_iff.1 hx)
      have := h x this.2
      omega
    have h2 : l.length ≤ (l.erase n).length + 1 := by
      by_cases hm : n ∈ l
      · rw [List.length_erase_of_mem hm]; omega
      · rw [List.erase_of_not_mem hm]; omega
    omega

theorem anc_nodup {s : Store} (hw : WF s) : ∀ (f x : Nat), (x :: anc s f x).Nodup := by
  intro f
  induction f with
  | zero => intro x; simp [anc]
  | succ f ih =>
    intro x
    have hx : x ∉ anc s (f + 1) x := fun h => not_properAncestor_self hw.acyc x (mem_anc_proper _ _ _ h)
    refine List.nodup_cons.2 ⟨hx, ?_⟩
    unfold anc
    cases hp : s.parent x with
    | none => simp
    | some p => exact ih p

theorem reach_lt {s : Store} (hw : WF s) {a x : Nat} (h : Reach s a x) (hx : x < s.n) : a < s.n := by
  induction h with
  | refl => exact hx
  | step _ hq ih => exact ih (hw.range _ _ hq).2

theorem anc_lt {s : Store} (hw : WF s) (f x a : Nat) (h : a ∈ anc s f x) : a < s.n := by
  obtain ⟨p, hp, hr⟩ := mem_anc_proper f x a h
  exact reach_lt hw hr (hw.range x p hp).2

/-- fuel lemma: the executable loop check (`n` steps) is the semantic one -/
theorem anc_complete {s : Store} (hw : WF s) (x a : Nat) : a ∈ anc s s.n x ↔ ProperAncestor s a x := by
  refine ⟨mem_anc_proper _ _ _, fun h => ?_⟩
  obtain ⟨p, hp, hr⟩ := h
  have hx : x < s.n := (hw.range x p hp).1
  apply proper_mem_anc s.n x _ a ⟨p, hp, hr⟩
  have hl := nodup_bounded_length s.n (x :: anc s s.n x) (anc_nodup hw s.n x) (by
    intro y hy
    rcases List.mem_cons.1 hy with rfl | hy
    · exact hx
    · exact anc_lt hw _ _ _ hy)
  simp only [List.length_cons] at hl
  omega

/-! ## meaning of the guards on well-formed stores -/

theorem checkParentLoop_iff {s : Store} (hw : WF s) (v p : Nat) :
    checkParentLoop s v (some p) = true ↔ ¬ Reach s v p := by
  simp only [checkParentLoop, Bool.and_eq_true, Bool.not_eq_true', beq_eq_false_iff_ne,
    List.contains_eq_mem, decide_eq_false_iff_not, anc_complete hw, reach_iff]
  constructor
  · rintro ⟨h1, h2⟩ (h | h)
    · exact h1 h.symm
    · exact h2 h
  · intro h
    exact ⟨fun e => h (Or.inl e.symm), fun e => h (Or.inr e)⟩

theorem checkChildrenLoop_spec (s : Store) (v : Nat) : ∀ (cs seen : List Nat),
    checkChildrenLoop s v cs seen = true ↔
      (cs.Nodup ∧ (∀ c ∈ cs, c ∉ seen) ∧ ∀ c ∈ cs, c < s.n ∧ c ≠ v ∧ c ∉ anc s s.n v) := by
  intro cs
  induction cs with
  | nil => intro seen; simp [checkChildrenLoop]
  | cons c cs ih =>
    intro seen
    unfold checkChildrenLoop
    by_cases h1 : c < s.n
    · by_cases h2 : c = v
      · simp [h2]
      · by_cases h3 : c ∈ anc s s.n v
        · simp [h1, h2, h3]
        · by_cases h4 : c ∈ seen
          · simp [h1, h2, h3, h4]
          · simp only [h1, h2, h3, h4, decide_true, Bool.not_true, Bool.false_eq_true, if_false,
              beq_iff_eq, List.contains_eq_mem, decide_false, ih, List.nodup_cons, List.mem_cons]
            constructor
            · rintro ⟨hn, hs, ha⟩
              refine ⟨⟨fun hc => hs c hc (Or.inl rfl), hn⟩, ?_, ?_⟩
              · rintro x (rfl | hx)
                · exact h4
                · exact fun hxs => hs x hx (Or.inr hxs)
              · rintro x (rfl | hx)
                · exact ⟨h1, h2, h3⟩
                · exact ha x hx
            · rintro ⟨⟨hc, hn⟩, hs, ha⟩
              refine ⟨hn, ?_, fun x hx => ha x (Or.inr hx)⟩
              rintro x hx (rfl | hxs)
              · exact hc hx
              · exact hs x (Or.inr hx) hxs
    · simp [h1]

theorem checkChildrenLoop_iff {s : Store} (hw : WF s) (v : Nat) (cs : List Nat) :
    checkChildrenLoop s v cs [] = true ↔ (cs.Nodup ∧ ∀ c ∈ cs, c < s.n ∧ ¬ Reach s c v) := by
  rw [checkChildrenLoop_spec]
  simp only [List.not_mem_nil, not_false_eq_true, implies_true, true_and, anc_complete hw, reach_iff]
  constructor
  · rintro ⟨hn, h⟩
    exact ⟨hn, fun c hc => ⟨(h c hc).1, fun e => e.elim (h c hc).2.1 (h c hc).2.2⟩⟩
  · rintro ⟨hn, h⟩
    exact ⟨hn, fun c hc => ⟨(h c hc).1, fun e => (h c hc).2 (Or.inl e), fun e => (h c hc).2 (Or.inr e)⟩⟩

end Store
