import BigtreeModel.Helper
import BigtreeModel.HelperDiff
import BigtreeProofs.Lemmas.DiffDefs
/-!
# C15: the pre-order walk in compositional form (`rows`, `keys`), `AllSub`, paths of a tree
-/
namespace Helper

/-! ## generic list facts (core has no `Nodup.map`) -/

theorem nodup_map_on {α β} (f : α → β) : ∀ (l : List α),
    (∀ x ∈ l, ∀ y ∈ l, f x = f y → x = y) → l.Nodup → (l.map f).Nodup := by
  intro l
  induction l with
  | nil => intro _ _; simp
  | cons a l ih =>
    intro hinj hn
    simp only [List.nodup_cons] at hn
    simp only [List.map_cons, List.nodup_cons, List.mem_map, not_exists, not_and]
    refine ⟨?_, ih (fun x hx y hy => hinj x (by simp [hx]) y (by simp [hy])) hn.2⟩
    intro x hx hfx
    have := hinj x (by simp [hx]) a (by simp) hfx
    subst this
    exact hn.1 hx

theorem nodup_filter {α} (p : α → Bool) (l : List α) (h : l.Nodup) : (l.filter p).Nodup :=
  List.Nodup.sublist List.filter_sublist h

theorem perm_of_nodup_of_mem_iff {α} [DecidableEq α] : ∀ (l1 l2 : List α), l1.Nodup → l2.Nodup →
    (∀ x, x ∈ l1 ↔ x ∈ l2) → l1.Perm l2 := by
  intro l1
  induction l1 with
  | nil =>
    intro l2 _ _ h
    cases l2 with
    | nil => exact List.Perm.refl _
    | cons b l2 => exact absurd ((h b).mpr (by simp)) (by simp)
  | cons a l1 ih =>
    intro l2 h1 h2 h
    simp only [List.nodup_cons] at h1
    have ha : a ∈ l2 := (h a).mp (by simp)
    have hp := List.perm_cons_erase ha
    refine List.Perm.trans ?_ hp.symm
    refine List.Perm.cons a (ih (l2.erase a) h1.2 (h2.erase a) ?_)
    intro x
    rw [List.Nodup.mem_erase_iff h2]
    constructor
    · intro hx
      exact ⟨fun e => h1.1 (e ▸ hx), (h x).mp (by simp [hx])⟩
    · rintro ⟨hne, hx⟩
      have := (h x).mpr hx
      simp only [List.mem_cons] at this
      rcases this with e | e
      · exact absurd e hne
      · exact e

/-! ## walk ↦ rows -/

mutual
theorem walk_map_rows : ∀ (t : Tree) (a : Addr) (anc : List Str),
    (walk a anc t).map (fun v => (v.names, v.sub.attrs)) = (rows t).map fun r => (anc ++ r.1, r.2)
  | .node i n av cs, a, anc => by
    simp only [walk, rows, List.map_cons, List.map_map, Tree.attrs_node]
    rw [walkL_map_rows cs a (anc ++ [n]) 0]
    congr 1
    apply List.map_congr_left
    intro r _
    simp
theorem walkL_map_rows : ∀ (cs : List Tree) (a : Addr) (anc : List Str) (k : Nat),
    (walkL a anc k cs).map (fun v => (v.names, v.sub.attrs)) = (rowsL cs).map fun r => (anc ++ r.1, r.2)
  | [], _, _, _ => by simp [walkL, rowsL]
  | c :: cs, a, anc, k => by
    simp only [walkL, rowsL, List.map_append]
    rw [walk_map_rows c (a ++ [k]) anc, walkL_map_rows cs a anc (k + 1)]
end

theorem compRows_eq (t : Tree) : compRows t = rows t := by
  unfold compRows
  rw [walk_map_rows]
  simp

theorem compPaths_eq (t : Tree) : compPaths t = keys t := by
  have h := congrArg (List.map (·.1)) (compRows_eq t)
  simpa [compRows, compPaths, keys, List.map_map, Function.comp_def] using h

mutual
theorem walk_names : ∀ (t : Tree) (a : Addr) (anc : List Str) (v : Visit), v ∈ walk a anc t →
    ∃ q, v.names = anc ++ q ++ [v.sub.name]
  | .node i n av cs, a, anc, v, h => by
    simp only [walk, List.mem_cons] at h
    rcases h with h | h
    · subst h; exact ⟨[], by simp⟩
    · obtain ⟨q, hq⟩ := walkL_names cs a (anc ++ [n]) 0 v h
      exact ⟨n :: q, by simp [hq]⟩
theorem walkL_names : ∀ (cs : List Tree) (a : Addr) (anc : List Str) (k : Nat) (v : Visit),
    v ∈ walkL a anc k cs → ∃ q, v.names = anc ++ q ++ [v.sub.name]
  | [], _, _, _, _, h => by simp [walkL] at h
  | c :: cs, a, anc, k, v, h => by
    simp only [walkL, List.mem_append] at h
    rcases h with h | h
    · exact walk_names c (a ++ [k]) anc v h
    · exact walkL_names cs a anc (k + 1) v h
end

theorem walk_names_getLastD (t : Tree) (v : Visit) (h : v ∈ walk [] [] t) :
    v.names.getLastD [] = v.sub.name := by
  obtain ⟨q, hq⟩ := walk_names t [] [] v h
  rw [hq]; simp

/-! ## `∀ v ∈ walk …, P v.sub` is `AllSub P` -/

mutual
theorem walk_all_iff (P : Tree → Prop) : ∀ (t : Tree) (a : Addr) (anc : List Str),
    (∀ v ∈ walk a anc t, P v.sub) ↔ AllSub P t
  | .node i n av cs, a, anc => by
    have ih := walkL_all_iff P cs a (anc ++ [n]) 0
    constructor
    · intro h
      refine AllSub.mk i n av cs (h ⟨a, anc ++ [n], .node i n av cs⟩ (by simp [walk])) ?_
      exact ih.mp (fun v hv => h v (by simp [walk, hv]))
    · intro h v hv
      cases h with
      | mk _ _ _ _ h1 h2 =>
        simp only [walk, List.mem_cons] at hv
        rcases hv with hv | hv
        · subst hv; exact h1
        · exact ih.mpr h2 v hv
theorem walkL_all_iff (P : Tree → Prop) : ∀ (cs : List Tree) (a : Addr) (anc : List Str) (k : Nat),
    (∀ v ∈ walkL a anc k cs, P v.sub) ↔ ∀ c ∈ cs, AllSub P c
  | [], _, _, _ => by simp [walkL]
  | c :: cs, a, anc, k => by
    have ih1 := walk_all_iff P c (a ++ [k]) anc
    have ih2 := walkL_all_iff P cs a anc (k + 1)
    simp only [walkL, List.mem_append, List.mem_cons, forall_eq_or_imp]
    rw [← ih1, ← ih2]
    constructor
    · intro h; exact ⟨fun v hv => h v (Or.inl hv), fun v hv => h v (Or.inr hv)⟩
    · rintro ⟨h1, h2⟩ v (hv | hv)
      · exact h1 v hv
      · exact h2 v hv
end

theorem AllSub.node_iff (P : Tree → Prop) (i : Nat) (n : Str) (av : Attrs) (cs : List Tree) :
    AllSub P (.node i n av cs) ↔ P (.node i n av cs) ∧ ∀ c ∈ cs, AllSub P c := by
  constructor
  · intro h; cases h with | mk _ _ _ _ h1 h2 => exact ⟨h1, h2⟩
  · rintro ⟨h1, h2⟩; exact AllSub.mk i n av cs h1 h2

theorem AllSub.root {P : Tree → Prop} {t : Tree} (h : AllSub P t) : P t := by
  cases h with | mk _ _ _ _ h1 _ => exact h1

theorem AllSub.imp {P Q : Tree → Prop} (hPQ : ∀ s, P s → Q s) : ∀ t, AllSub P t → AllSub Q t := by
  intro t
  induction t using Tree.ind with
  | h i n av cs ih =>
    intro h
    rw [AllSub.node_iff] at h ⊢
    exact ⟨hPQ _ h.1, fun c hc => ih c hc (h.2 c hc)⟩

theorem AllSub.and {P Q : Tree → Prop} : ∀ t, AllSub P t → AllSub Q t → AllSub (fun s => P s ∧ Q s) t := by
  intro t
  induction t using Tree.ind with
  | h i n av cs ih =>
    intro h1 h2
    rw [AllSub.node_iff] at h1 h2 ⊢
    exact ⟨⟨h1.1, h2.1⟩, fun c hc => ih c hc (h1.2 c hc) (h2.2 c hc)⟩

theorem SibU.node_iff (i : Nat) (n : Str) (av : Attrs) (cs : List Tree) :
    SibU (.node i n av cs) ↔ (cs.map Tree.name).Nodup ∧ ∀ c ∈ cs, SibU c := by
  unfold SibU; rw [AllSub.node_iff]; simp

/-! ## rows / keys -/

theorem rowsL_append (l1 l2 : List Tree) : rowsL (l1 ++ l2) = rowsL l1 ++ rowsL l2 := by
  induction l1 with
  | nil => simp [rowsL]
  | cons c cs ih => simp [rowsL, ih]

theorem mem_rowsL (cs : List Tree) (r : List Str × Attrs) : r ∈ rowsL cs ↔ ∃ c ∈ cs, r ∈ rows c := by
  induction cs with
  | nil => simp [rowsL]
  | cons c cs ih => simp [rowsL, ih]

theorem keysL_append (l1 l2 : List Tree) : keysL (l1 ++ l2) = keysL l1 ++ keysL l2 := by
  simp [keysL, rowsL_append]

theorem keysL_cons (c : Tree) (cs : List Tree) : keysL (c :: cs) = keys c ++ keysL cs := by
  simp [keysL, keys, rowsL]

theorem keysL_nil : keysL [] = [] := by simp [keysL, rowsL]

theorem mem_keysL (cs : List Tree) (q : List Str) : q ∈ keysL cs ↔ ∃ c ∈ cs, q ∈ keys c := by
  induction cs with
  | nil => simp [keysL_nil]
  | cons c cs ih => simp [keysL_cons, ih]

theorem keys_node (i : Nat) (n : Str) (av : Attrs) (cs : List Tree) :
    keys (.node i n av cs) = [n] :: (keysL cs).map (n :: ·) := by
  simp [keys, keysL, rows, List.map_map, Function.comp_def]

theorem mem_keys_node (i : Nat) (n : Str) (av : Attrs) (cs : List Tree) (q : List Str) :
    q ∈ keys (.node i n av cs) ↔ q = [n] ∨ ∃ r, q = n :: r ∧ r ∈ keysL cs := by
  rw [keys_node]
  simp only [List.mem_cons, List.mem_map]
  constructor
  · rintro (h | ⟨r, hr, rfl⟩)
    · exact Or.inl h
    · exact Or.inr ⟨r, rfl, hr⟩
  · rintro (h | ⟨r, rfl, hr⟩)
    · exact Or.inl h
    · exact Or.inr ⟨r, hr, rfl⟩

theorem mem_rows_node (i : Nat) (n : Str) (av : Attrs) (cs : List Tree) (q : List Str) (a : Attrs) :
    (q, a) ∈ rows (.node i n av cs) ↔ (q = [n] ∧ a = av) ∨ ∃ r, q = n :: r ∧ (r, a) ∈ rowsL cs := by
  simp only [rows, List.mem_cons, List.mem_map, Prod.mk.injEq]
  constructor
  · rintro (h | ⟨r, hr, rfl, rfl⟩)
    · exact Or.inl h
    · exact Or.inr ⟨r.1, rfl, hr⟩
  · rintro (h | ⟨r, rfl, hr⟩)
    · exact Or.inl h
    · exact Or.inr ⟨(r, a), hr, rfl, rfl⟩

theorem root_mem_keys (t : Tree) : [t.name] ∈ keys t := by
  cases t with | node i n av cs => simp [keys_node]

theorem keys_ne_nil (t : Tree) : keys t ≠ [] := by
  intro h; have := root_mem_keys t; rw [h] at this; simp at this

theorem keys_head (t : Tree) (q : List Str) (h : q ∈ keys t) : ∃ r, q = t.name :: r := by
  cases t with | node i n av cs =>
  rw [mem_keys_node] at h
  rcases h with h | ⟨r, h, _⟩
  · exact ⟨[], h⟩
  · exact ⟨r, h⟩

theorem keys_prefix_closed : ∀ (t : Tree) (q q' : List Str), q ∈ keys t → q' <+: q → q' ≠ [] → q' ∈ keys t := by
  intro t
  induction t using Tree.ind with
  | h i n av cs ih =>
    intro q q' hq hpre hne
    rw [mem_keys_node] at hq ⊢
    cases q' with
    | nil => exact absurd rfl hne
    | cons x r' =>
      rcases hq with hq | ⟨r, hq, hr⟩
      · subst hq
        have := List.IsPrefix.length_le hpre
        obtain ⟨t', ht'⟩ := hpre
        cases r' with
        | nil => simp at ht'; left; simp [ht'.1]
        | cons y r'' => simp at this
      · subst hq
        rw [List.cons_prefix_cons] at hpre
        obtain ⟨rfl, hpre⟩ := hpre
        cases r' with
        | nil => left; rfl
        | cons y r'' =>
          right
          refine ⟨y :: r'', rfl, ?_⟩
          rw [mem_keysL] at hr ⊢
          obtain ⟨c, hc, hrc⟩ := hr
          exact ⟨c, hc, ih c hc r (y :: r'') hrc hpre (by simp)⟩

theorem keys_names (P : Str → Prop) : ∀ (t : Tree), AllSub (fun s => P s.name) t →
    ∀ q ∈ keys t, ∀ n ∈ q, P n := by
  intro t
  induction t using Tree.ind with
  | h i n av cs ih =>
    intro h q hq x hx
    rw [AllSub.node_iff] at h
    rw [mem_keys_node] at hq
    rcases hq with hq | ⟨r, hq, hr⟩
    · subst hq; simp at hx; subst hx; exact h.1
    · subst hq
      simp only [List.mem_cons] at hx
      rcases hx with hx | hx
      · subst hx; exact h.1
      · rw [mem_keysL] at hr
        obtain ⟨c, hc, hrc⟩ := hr
        exact ih c hc (h.2 c hc) r hrc x hx

theorem rows_attrs (P : Attrs → Prop) : ∀ (t : Tree), AllSub (fun s => P s.attrs) t →
    ∀ r ∈ rows t, P r.2 := by
  intro t
  induction t using Tree.ind with
  | h i n av cs ih =>
    intro h r hr
    rw [AllSub.node_iff] at h
    obtain ⟨q, a⟩ := r
    rw [mem_rows_node] at hr
    rcases hr with ⟨_, rfl⟩ | ⟨r, _, hr⟩
    · exact h.1
    · rw [mem_rowsL] at hr
      obtain ⟨c, hc, hrc⟩ := hr
      exact ih c hc (h.2 c hc) (r, a) hrc

/-- keys of different children start with different names -/
theorem keysL_nodup : ∀ (cs : List Tree), (cs.map Tree.name).Nodup → (∀ c ∈ cs, (keys c).Nodup) →
    (keysL cs).Nodup := by
  intro cs
  induction cs with
  | nil => intro _ _; simp [keysL_nil]
  | cons c cs ih =>
    intro hn hk
    rw [keysL_cons, List.nodup_append]
    simp only [List.map_cons, List.nodup_cons] at hn
    refine ⟨hk c (by simp), ih hn.2 (fun c' hc' => hk c' (by simp [hc'])), ?_⟩
    intro q hq q' hq' heq
    subst heq
    rw [mem_keysL] at hq'
    obtain ⟨c', hc', hqc'⟩ := hq'
    obtain ⟨r, hr⟩ := keys_head c q hq
    obtain ⟨r', hr'⟩ := keys_head c' q hqc'
    rw [hr] at hr'
    have : c.name = c'.name := by simpa using congrArg List.head? hr'
    exact hn.1 (by rw [this]; exact List.mem_map_of_mem hc')

theorem keys_nodup : ∀ (t : Tree), SibU t → (keys t).Nodup := by
  intro t
  induction t using Tree.ind with
  | h i n av cs ih =>
    intro h
    rw [SibU.node_iff] at h
    rw [keys_node, List.nodup_cons]
    constructor
    · simp only [List.mem_map, not_exists, not_and]
      intro r hr
      rw [mem_keysL] at hr
      obtain ⟨c, _, hc⟩ := hr
      obtain ⟨r', hr'⟩ := keys_head c r hc
      subst hr'; simp
    · have := keysL_nodup cs h.1 (fun c hc => ih c hc (h.2 c hc))
      exact nodup_map_on _ _ (by intro a _ b _ hab; simpa using hab) this

/-! ## lookup -/

theorem lookup_eq_none_iff {α} (l : List (List Str × α)) (p : List Str) :
    l.lookup p = none ↔ p ∉ l.map (·.1) := by
  induction l with
  | nil => simp
  | cons x xs ih =>
    obtain ⟨k, v⟩ := x
    simp only [List.lookup_cons, List.map_cons, List.mem_cons, not_or]
    by_cases h : p = k
    · subst h; simp
    · have : (p == k) = false := by simpa using h
      simp [this, ih, h]

theorem lookup_mem {α} (l : List (List Str × α)) (p : List Str) (a : α) (h : l.lookup p = some a) :
    (p, a) ∈ l := by
  induction l with
  | nil => simp at h
  | cons x xs ih =>
    obtain ⟨k, v⟩ := x
    simp only [List.lookup_cons] at h
    by_cases hk : p = k
    · subst hk; simp at h; subst h; simp
    · have : (p == k) = false := by simpa using hk
      simp [this] at h
      exact List.mem_cons_of_mem _ (ih h)

theorem lookup_of_mem_nodup {α} (l : List (List Str × α)) (p : List Str) (a : α)
    (hn : (l.map (·.1)).Nodup) (h : (p, a) ∈ l) : l.lookup p = some a := by
  induction l with
  | nil => simp at h
  | cons x xs ih =>
    obtain ⟨k, v⟩ := x
    simp only [List.map_cons, List.nodup_cons] at hn
    simp only [List.mem_cons, Prod.mk.injEq] at h
    simp only [List.lookup_cons]
    rcases h with ⟨rfl, rfl⟩ | h
    · simp
    · have hk : p ≠ k := by
        intro e; subst e
        exact hn.1 (List.mem_map_of_mem (f := (·.1)) h)
      have : (p == k) = false := by simpa using hk
      simp [this, ih hn.2 h]

theorem attrsAt_eq (t : Tree) (p : List Str) : attrsAt t p = (rows t).lookup p := by
  simp [attrsAt, compRows_eq]

theorem attrsAt_eq_none_iff (t : Tree) (p : List Str) : attrsAt t p = none ↔ p ∉ compPaths t := by
  rw [attrsAt_eq, lookup_eq_none_iff, compPaths_eq]; rfl

theorem attrsAt_isSome_iff (t : Tree) (p : List Str) : (∃ a, attrsAt t p = some a) ↔ p ∈ compPaths t := by
  have := attrsAt_eq_none_iff t p
  cases h : attrsAt t p with
  | none => simp [h] at this; simp [this]
  | some a => simp [h] at this; simp [this]

theorem attrsAt_some_iff (t : Tree) (hs : SibU t) (p : List Str) (a : Attrs) :
    attrsAt t p = some a ↔ (p, a) ∈ rows t := by
  rw [attrsAt_eq]
  exact ⟨lookup_mem _ _ _, lookup_of_mem_nodup _ _ _ (keys_nodup t hs)⟩

/-! ## NamesOK in structural form -/

theorem NamesOK.sibU {c : Char} {t : Tree} (h : NamesOK c t) : SibU t :=
  (walk_all_iff _ t [] []).mp h.sibUnique

theorem NamesOK.keys_good {c : Char} {t : Tree} (h : NamesOK c t) :
    ∀ q ∈ keys t, ∀ n ∈ q, n ≠ [] ∧ c ∉ n ∧ ¬ endsWithMark n := by
  have h1 := (walk_all_iff (fun s => s.name ≠ []) t [] []).mp h.nonempty
  have h2 := (walk_all_iff (fun s => c ∉ s.name) t [] []).mp h.nosep
  have h3 := (walk_all_iff (fun s => ¬ endsWithMark s.name) t [] []).mp h.nomark
  intro q hq n hn
  exact ⟨keys_names (· ≠ []) t h1 q hq n hn, keys_names (c ∉ ·) t h2 q hq n hn,
    keys_names (fun n => ¬ endsWithMark n) t h3 q hq n hn⟩

end Helper
