import Mathlib.Data.List.Nodup
import BigtreeModel.Paths
import BigtreeProofs.Lemmas.PathsAddr
import BigtreeProofs.Lemmas.PathsSet
/-!
# One step of `add_path_to_tree`: appending a leaf, setting attributes (C05)
-/

namespace Paths

theorem modifyAt_name (f : Tree → Tree) (hn : ∀ t, (f t).name = t.name) (a : Addr) (t : Tree) :
    (modifyAt f a t).name = t.name := by
  cases a with
  | nil => rw [modifyAt_nil, hn]
  | cons => simp

theorem map_name_modify (cs : List Tree) (k : Nat) (g : Tree → Tree) (h : ∀ d, (g d).name = d.name) :
    (cs.modify k g).map Tree.name = cs.map Tree.name := by
  induction cs generalizing k with
  | nil => simp
  | cons c cs ih =>
    cases k with
    | zero => simp [h]
    | succ k => simp [ih]

/-- membership in the paths of a tree one of whose children was modified -/
theorem mem_paths_modify_child {t d : Tree} {k : Nat} (g : Tree → Tree) (hk : t.children[k]? = some d)
    (q : List Str) (t' : Tree) (hn : t'.name = t.name) (hc : t'.children = t.children.modify k g) :
    q ∈ paths t' ↔ q = [t.name] ∨
      (∃ q', q = t.name :: q' ∧ q' ∈ paths (g d)) ∨
      (∃ (q' : List Str) (j : Nat) (e : Tree), q = t.name :: q' ∧ j ≠ k ∧ t.children[j]? = some e ∧ q' ∈ paths e) := by
  rw [mem_paths_iff, hn, hc]
  constructor
  · rintro (h | ⟨q', rfl, hq'⟩)
    · exact .inl h
    · rw [mem_pathsL_idx] at hq'
      obtain ⟨j, e, hj, hq⟩ := hq'
      by_cases hjk : k = j
      · subst hjk
        rw [List.getElem?_modify_eq, hk] at hj
        simp at hj
        subst hj
        exact .inr (.inl ⟨q', rfl, hq⟩)
      · rw [List.getElem?_modify_ne _ _ hjk] at hj
        exact .inr (.inr ⟨q', j, e, rfl, fun h => hjk h.symm, hj, hq⟩)
  · rintro (h | ⟨q', rfl, hq⟩ | ⟨q', j, e, rfl, hjk, hj, hq⟩)
    · exact .inl h
    · refine .inr ⟨q', rfl, ?_⟩
      rw [mem_pathsL_idx]
      exact ⟨k, g d, by rw [List.getElem?_modify_eq, hk]; rfl, hq⟩
    · refine .inr ⟨q', rfl, ?_⟩
      rw [mem_pathsL_idx]
      exact ⟨j, e, by rw [List.getElem?_modify_ne _ _ (fun h => hjk h.symm)]; exact hj, hq⟩

theorem mem_paths_child {t : Tree} (q : List Str) :
    q ∈ paths t ↔ q = [t.name] ∨ ∃ (q' : List Str) (j : Nat) (e : Tree), q = t.name :: q' ∧ t.children[j]? = some e ∧ q' ∈ paths e := by
  rw [mem_paths_iff]
  constructor
  · rintro (h | ⟨q', rfl, hq'⟩)
    · exact .inl h
    · rw [mem_pathsL_idx] at hq'
      obtain ⟨j, e, hj, hq⟩ := hq'
      exact .inr ⟨q', j, e, rfl, hj, hq⟩
  · rintro (h | ⟨q', j, e, rfl, hj, hq⟩)
    · exact .inl h
    · exact .inr ⟨q', rfl, mem_pathsL_idx.mpr ⟨j, e, hj, hq⟩⟩

/-- appending a leaf called `c` below the node at `a` adds exactly one path -/
theorem mem_paths_appendChild (fr : Nat) (c : Str) (at' : Attrs) (a : Addr) :
    ∀ (t p : Tree) (q : List Str), nodeAt a t = some p →
      (q ∈ paths (modifyAt (appendChild (.node fr c at' [])) a t) ↔
        q ∈ paths t ∨ q = namesAlong a t ++ [c]) := by
  induction a with
  | nil =>
    intro t p q _
    rw [modifyAt_nil, paths_eq, paths_eq t]
    simp only [appendChild_name, appendChild_children, pathsL_append, pathsL_cons, pathsL_nil,
      List.append_nil, paths_node, List.map_nil, List.mem_cons, List.mem_map, List.mem_append,
      namesAlong_nil, List.not_mem_nil, or_false, List.cons_append, List.nil_append]
    constructor
    · rintro (h | ⟨q', (hq' | rfl), rfl⟩)
      · exact .inl (.inl h)
      · exact .inl (.inr ⟨q', hq', rfl⟩)
      · exact .inr rfl
    · rintro ((h | ⟨q', hq', rfl⟩) | rfl)
      · exact .inl h
      · exact .inr ⟨q', .inl hq', rfl⟩
      · exact .inr ⟨[c], .inr rfl, rfl⟩
  | cons k ks ih =>
    intro t p q hp
    rw [nodeAt_cons] at hp
    cases hk : t.children[k]? with
    | none => rw [hk] at hp; cases hp
    | some d =>
      rw [hk] at hp
      simp only [Option.bind] at hp
      rw [mem_paths_modify_child _ hk q _ (modifyAt_cons_name _ _ _ _) (modifyAt_cons_children _ _ _ _),
        namesAlong_cons _ _ _ _ hk, mem_paths_child]
      constructor
      · rintro (h | ⟨q', rfl, hq⟩ | ⟨q', j, e, rfl, _, hj, hq⟩)
        · exact .inl (.inl h)
        · rcases (ih d p q' hp).mp hq with h | rfl
          · exact .inl (.inr ⟨q', k, d, rfl, hk, h⟩)
          · exact .inr rfl
        · exact .inl (.inr ⟨q', j, e, rfl, hj, hq⟩)
      · rintro ((h | ⟨q', j, e, rfl, hj, hq⟩) | rfl)
        · exact .inl h
        · by_cases hjk : j = k
          · subst hjk
            rw [hk] at hj; cases hj
            exact .inr (.inl ⟨q', rfl, (ih d p q' hp).mpr (.inl hq)⟩)
          · exact .inr (.inr ⟨q', j, e, rfl, hjk, hj, hq⟩)
        · exact .inr (.inl ⟨_, rfl, (ih d p _ hp).mpr (.inr rfl)⟩)

/-- a modification that keeps name and children of the modified node keeps all paths -/
theorem paths_modifyAt_same (f : Tree → Tree) (hn : ∀ t, (f t).name = t.name)
    (hc : ∀ t, (f t).children = t.children) (a : Addr) :
    ∀ (t : Tree), paths (modifyAt f a t) = paths t := by
  induction a with
  | nil => intro t; rw [modifyAt_nil, paths_eq, paths_eq t, hn, hc]
  | cons k ks ih =>
    intro t
    rw [paths_eq, paths_eq t, modifyAt_cons_name, modifyAt_cons_children]
    congr 2
    generalize t.children = cs
    induction cs generalizing k with
    | nil => simp
    | cons c cs ihc =>
      cases k with
      | zero => simp [ih]
      | succ k => simp [ihc]

/-- appending a leaf with a name no sibling has keeps sibling-uniqueness -/
theorem sibUnique_appendChild (fr : Nat) (c : Str) (at' : Attrs) (a : Addr) :
    ∀ (t p : Tree), SibUnique t → nodeAt a t = some p → c ∉ p.children.map Tree.name →
      SibUnique (modifyAt (appendChild (.node fr c at' [])) a t) := by
  induction a with
  | nil =>
    intro t p hs hp hc
    simp at hp; subst hp
    rw [modifyAt_nil, sibUnique_iff]
    rw [sibUnique_iff] at hs
    simp only [appendChild_children, List.map_append, List.map_cons, Tree.name_node, List.map_nil,
      List.mem_append, List.mem_cons, List.not_mem_nil, or_false]
    refine ⟨?_, ?_⟩
    · rw [List.nodup_append]
      refine ⟨hs.1, by simp, ?_⟩
      intro x hx y hy he
      simp at hy; subst hy; subst he
      exact hc hx
    · rintro d (hd | rfl)
      · exact hs.2 d hd
      · rw [sibUnique_iff]; simp
  | cons k ks ih =>
    intro t p hs hp hc
    rw [nodeAt_cons] at hp
    cases hk : t.children[k]? with
    | none => rw [hk] at hp; cases hp
    | some d =>
      rw [hk] at hp
      simp only [Option.bind] at hp
      have hd := ih d p (hs.child hk) hp hc
      rw [sibUnique_iff] at hs ⊢
      rw [modifyAt_cons_children]
      constructor
      · rw [map_name_modify _ _ _ (modifyAt_name _ (fun t => appendChild_name _ t) ks)]; exact hs.1
      · intro e he
        obtain ⟨j, hj, rfl⟩ := List.getElem_of_mem he
        have hj' : j < t.children.length := by simpa using hj
        rw [List.getElem_modify]
        split
        · rename_i h; subst h
          have : t.children[k] = d := by
            have := List.getElem?_eq_getElem hj'
            rw [hk] at this; injection this with this; exact this.symm
          rw [this]; exact hd
        · exact hs.2 _ (List.getElem_mem hj')

theorem sibUnique_modifyAt_same (f : Tree → Tree) (hn : ∀ t, (f t).name = t.name)
    (hc : ∀ t, (f t).children = t.children) (a : Addr) :
    ∀ (t : Tree), SibUnique t → SibUnique (modifyAt f a t) := by
  induction a with
  | nil =>
    intro t hs
    rw [modifyAt_nil, sibUnique_iff, hc]
    exact (sibUnique_iff t).mp hs
  | cons k ks ih =>
    intro t hs
    rw [sibUnique_iff] at hs ⊢
    rw [modifyAt_cons_children]
    constructor
    · rw [map_name_modify _ _ _ (modifyAt_name _ hn ks)]; exact hs.1
    · intro e he
      obtain ⟨j, hj, rfl⟩ := List.getElem_of_mem he
      have hj' : j < t.children.length := by simpa using hj
      rw [List.getElem_modify]
      split
      · exact ih _ (hs.2 _ (List.getElem_mem hj'))
      · exact hs.2 _ (List.getElem_mem hj')

end Paths
