import BigtreeProofs.Lemmas.DagStoreSet
/-!
# DagStore — theorems about the setters, the operations and whole histories

* C02 (DAGNode part): `setParents_rej_id`, `setChildren_rej_id`, `step_rej_id`
* C10: `dwf_setParents`, `dwf_setChildren`, `dwf_step`, `dwf_run`, what an accepted assignment adds,
  what a deletion removes, what is refused
* C20 (DAGNode part): `assertions_off_same`, `off_only_removes_rejections`, `run_assertions_off_same`
-/

namespace DagStore

/-! ## normal forms of the setters with the checks on -/

theorem setParents_check_false {s : DStore} {v : Nat} {a : Arg} (f : Fault)
    (h : checkParents s v a = false) : setParents true s v a f = (s, .rej) := by
  simp [setParents, h]

theorem setParents_list {s : DStore} {v : Nat} {l : List Nat} (f : Fault)
    (h : checkParentLoop s v l [] = true) :
    setParents true s v (.list l) f =
      match f with
      | .none => (addEs s (newParentEdges s v l), .ok)
      | .pre => (s, .rej)
      | .post => (parentsRollback (s.parents v) (addEs s (newParentEdges s v l)) v l, .rej) := by
  have hs := checkParentLoop_spec h
  have hloop := parentsLoop_eq (s := s) (v := v) hs.1 (fun p hp => (hs.2 p hp).1)
  cases f <;> simp [setParents, checkParents, h, Arg.items, hloop]

theorem setChildren_check_false {s : DStore} {v : Nat} {a : Arg} (f : Fault)
    (h : checkChildren s v a = false) : setChildren true s v a f = (s, .rej) := by
  simp [setChildren, h]

theorem setChildren_items {s : DStore} {v : Nat} {a : Arg} {l : List Nat} (f : Fault)
    (ha : a.items = some l) (h : checkChildrenLoop s v l [] = true) :
    setChildren true s v a f =
      match f with
      | .none => (addEs s (newChildEdges s v l), .ok)
      | .pre => (s, .rej)
      | .post => (childrenRollback (s.children v) (addEs s (newChildEdges s v l)) v l, .rej) := by
  have hs := checkChildrenLoop_spec h
  have hloop := childrenLoop_eq (s := s) (v := v) hs.1 (fun p hp => (hs.2 p hp).1)
  have hc : checkChildren s v a = true := by
    cases a <;> simp_all [checkChildren, Arg.items]
  cases f <;> simp [setChildren, hc, ha, hloop]

theorem checkChildren_true {s : DStore} {v : Nat} {a : Arg} (h : checkChildren s v a = true) :
    ∃ l, a.items = some l ∧ checkChildrenLoop s v l [] = true := by
  cases a with
  | nonIter => simp [checkChildren] at h
  | tuple l => exact ⟨l, rfl, h⟩
  | list l => exact ⟨l, rfl, h⟩

theorem checkParents_true {s : DStore} {v : Nat} {a : Arg} (h : checkParents s v a = true) :
    ∃ l, a = .list l ∧ checkParentLoop s v l [] = true := by
  cases a with
  | nonIter => simp [checkParents] at h
  | tuple l => simp [checkParents] at h
  | list l => exact ⟨l, rfl, h⟩

/-- an accepted parents assignment: the argument is a list that passed the guard, no hook
raised, and the result is the store with the new edges appended -/
theorem setParents_ok {s : DStore} {v : Nat} {a : Arg} {f : Fault}
    (h : (setParents true s v a f).2 = .ok) :
    ∃ l, a = .list l ∧ checkParentLoop s v l [] = true ∧ f = .none ∧
      (setParents true s v a f).1 = addEs s (newParentEdges s v l) := by
  cases hc : checkParents s v a with
  | false => rw [setParents_check_false f hc] at h; cases h
  | true =>
    obtain ⟨l, rfl, hl⟩ := checkParents_true hc
    refine ⟨l, rfl, hl, ?_⟩
    rw [setParents_list f hl] at h ⊢
    cases f <;> simp_all

theorem setChildren_ok {s : DStore} {v : Nat} {a : Arg} {f : Fault}
    (h : (setChildren true s v a f).2 = .ok) :
    ∃ l, a.items = some l ∧ checkChildrenLoop s v l [] = true ∧ f = .none ∧
      (setChildren true s v a f).1 = addEs s (newChildEdges s v l) := by
  cases hc : checkChildren s v a with
  | false => rw [setChildren_check_false f hc] at h; cases h
  | true =>
    obtain ⟨l, ha, hl⟩ := checkChildren_true hc
    refine ⟨l, ha, hl, ?_⟩
    rw [setChildren_items f ha hl] at h ⊢
    cases f <;> simp_all

/-! ## C02: a rejected or failing assignment leaves the whole store as it was -/

/-- **C02, parents setter of DAGNode.** Whatever made the call raise — wrong type, non-node,
self, a descendant, a repeated member, the pre-hook, or the post-hook after all edges had been
inserted (then the executed roll-back loop removes exactly the appended tail) — the store
afterwards *is* the store before: every parents list and every children list, in order. -/
theorem setParents_rej_id {s : DStore} (hs : DWF0 s) {v : Nat} {a : Arg} {f : Fault}
    (h : (setParents true s v a f).2 = .rej) : (setParents true s v a f).1 = s := by
  cases hc : checkParents s v a with
  | false => rw [setParents_check_false f hc]
  | true =>
    obtain ⟨l, rfl, hl⟩ := checkParents_true hc
    have hsp := checkParentLoop_spec hl
    rw [setParents_list f hl] at h ⊢
    cases f with
    | none => cases h
    | pre => rfl
    | post => exact parentsRollback_eq hs hsp.1 (fun p hp => (hsp.2 p hp).1)

/-- **C02, children setter of DAGNode.** -/
theorem setChildren_rej_id {s : DStore} (hs : DWF0 s) {v : Nat} {a : Arg} {f : Fault}
    (h : (setChildren true s v a f).2 = .rej) : (setChildren true s v a f).1 = s := by
  cases hc : checkChildren s v a with
  | false => rw [setChildren_check_false f hc]
  | true =>
    obtain ⟨l, ha, hl⟩ := checkChildren_true hc
    have hsp := checkChildrenLoop_spec hl
    rw [setChildren_items f ha hl] at h ⊢
    cases f with
    | none => cases h
    | pre => rfl
    | post => exact childrenRollback_eq hs hsp.1 (fun p hp => (hsp.2 p hp).1)

/-! ## C10: the invariant is preserved -/

theorem dwf_init (k : Nat) (names : Nat → Str) : DWF (init k names) where
  sym := by simp [init]
  ndp := by simp [init]
  ndc := by simp [init]
  rng := by simp [init]
  acyc := fun v => ⟨v, fun q hq => by simp [init] at hq⟩

/-- the store after the insertion loop of an accepted parents assignment is well-formed:
the guard looked at the **initial** store only, the loop inserts one edge after the other -/
theorem dwf_addParents {s : DStore} (hs : DWF s) {v : Nat} (hv : v < s.n) {l : List Nat}
    (hl : checkParentLoop s v l [] = true) : DWF (addEs s (newParentEdges s v l)) := by
  have hsp := checkParentLoop_spec hl
  refine ⟨hs.toDWF0.addEs (newParentEdges_nodup hsp.1) ?_, ?_⟩
  · rintro ⟨q, x⟩ he
    obtain ⟨rfl, h1, h2⟩ := mem_newParentEdges.1 he
    exact ⟨h2, (hsp.2 q h1).1, hv⟩
  · apply hs.acyc.add_in v l
    · intro q x hq
      rcases mem_addEs_parents.1 hq with hq | hq
      · exact Or.inl hq
      · obtain ⟨rfl, h1, _⟩ := mem_newParentEdges.1 hq
        exact Or.inr ⟨rfl, h1⟩
    · intro p hp
      have := hsp.2 p hp
      exact ⟨this.2.1, fun h => this.2.2.1 ((mem_ancestors hs).2 h)⟩

theorem dwf_addChildren {s : DStore} (hs : DWF s) {v : Nat} (hv : v < s.n) {l : List Nat}
    (hl : checkChildrenLoop s v l [] = true) : DWF (addEs s (newChildEdges s v l)) := by
  have hsp := checkChildrenLoop_spec hl
  refine ⟨hs.toDWF0.addEs (newChildEdges_nodup hsp.1) ?_, ?_⟩
  · rintro ⟨q, x⟩ he
    obtain ⟨rfl, h1, h2⟩ := mem_newChildEdges.1 he
    exact ⟨h2, hv, (hsp.2 x h1).1⟩
  · apply hs.acyc.add_out v l
    · intro q x hq
      rcases mem_addEs_parents.1 hq with hq | hq
      · exact Or.inl hq
      · obtain ⟨rfl, h1, _⟩ := mem_newChildEdges.1 hq
        exact Or.inr ⟨rfl, h1⟩
    · intro c hc
      have := hsp.2 c hc
      exact ⟨this.2.1, fun h => this.2.2.1 ((mem_ancestors hs).2 h)⟩

theorem dwf_setParents {s : DStore} (hs : DWF s) {v : Nat} (hv : v < s.n) (a : Arg) (f : Fault) :
    DWF (setParents true s v a f).1 := by
  cases h : (setParents true s v a f).2 with
  | rej => rw [setParents_rej_id hs.toDWF0 h]; exact hs
  | ok =>
    obtain ⟨l, _, hl, _, he⟩ := setParents_ok h
    rw [he]; exact dwf_addParents hs hv hl

theorem dwf_setChildren {s : DStore} (hs : DWF s) {v : Nat} (hv : v < s.n) (a : Arg) (f : Fault) :
    DWF (setChildren true s v a f).1 := by
  cases h : (setChildren true s v a f).2 with
  | rej => rw [setChildren_rej_id hs.toDWF0 h]; exact hs
  | ok =>
    obtain ⟨l, _, hl, _, he⟩ := setChildren_ok h
    rw [he]; exact dwf_addChildren hs hv hl

theorem setParents_n (s : DStore) (hs : DWF0 s) (v : Nat) (a : Arg) (f : Fault) :
    (setParents true s v a f).1.n = s.n := by
  cases h : (setParents true s v a f).2 with
  | rej => rw [setParents_rej_id hs h]
  | ok => obtain ⟨l, _, _, _, he⟩ := setParents_ok h; rw [he]; simp

/-! ### deletions -/

theorem delChildrenLoop_eq_fold (s : DStore) (v : Nat) (l : List Nat) :
    delChildrenLoop s v l = l.foldl (fun s c => s.delE v c) s := by
  induction l generalizing s with
  | nil => rfl
  | cons c l ih => simp only [delChildrenLoop, List.foldl_cons]; exact ih _

theorem dwf_delChildrenLoop {s : DStore} (hs : DWF s) (v : Nat) (l : List Nat) :
    DWF (delChildrenLoop s v l) := by
  induction l generalizing s with
  | nil => exact hs
  | cons c l ih => exact ih (hs.delE v c)

theorem dwf_delItem {s : DStore} (hs : DWF s) (v : Nat) (nm : Str) : DWF (delItem s v nm).1 := by
  unfold delItem
  split
  · exact hs
  · exact hs.delE v _
  · exact hs

/-- `del v.children` on a well-formed store, list-exactly: `v` loses all its children, every
former child loses `v` from its parents list, nothing else changes -/
theorem delChildrenLoop_children {s : DStore} (v : Nat) {l : List Nat} (h : s.children v = l) (x : Nat) :
    (delChildrenLoop s v l).children x = if x = v then [] else s.children x := by
  induction l generalizing s with
  | nil => by_cases hx : x = v <;> simp_all [delChildrenLoop]
  | cons c l ih =>
    simp only [delChildrenLoop]
    change (delChildrenLoop (s.delE v c) v l).children x = _
    rw [ih (by rw [delE_children, h]; simp)]
    by_cases hx : x = v
    · simp [hx]
    · simp [hx, delE_children]

theorem delChildrenLoop_parents {s : DStore} (v : Nat) {l : List Nat} (hn : l.Nodup) (x : Nat) :
    (delChildrenLoop s v l).parents x = if x ∈ l then (s.parents x).erase v else s.parents x := by
  induction l generalizing s with
  | nil => simp [delChildrenLoop]
  | cons c l ih =>
    have hn' := List.nodup_cons.1 hn
    simp only [delChildrenLoop]
    change (delChildrenLoop (s.delE v c) v l).parents x = _
    rw [ih hn'.2, delE_parents]
    by_cases hx : x = c
    · subst hx; simp [hn'.1]
    · simp [hx]

/-! ### the constructor -/

/-- allocation of a fresh, unlinked node -/
def alloc (s : DStore) (nm : Str) : DStore :=
  { n := s.n + 1, names := upd s.names s.n nm,
    parents := upd s.parents s.n [], children := upd s.children s.n [] }

theorem alloc_parents {s : DStore} (hs : DWF0 s) (nm : Str) (x : Nat) :
    (alloc s nm).parents x = s.parents x := by
  simp only [alloc, upd_apply]
  split
  · subst x; exact (hs.parents_nil (Nat.le_refl _)).symm
  · rfl

theorem alloc_children {s : DStore} (hs : DWF0 s) (nm : Str) (x : Nat) :
    (alloc s nm).children x = s.children x := by
  simp only [alloc, upd_apply]
  split
  · subst x; exact (hs.children_nil (Nat.le_refl _)).symm
  · rfl

theorem dwf_alloc {s : DStore} (hs : DWF s) (nm : Str) : DWF (alloc s nm) where
  sym p c := by rw [alloc_parents hs.toDWF0, alloc_children hs.toDWF0]; exact hs.sym p c
  ndp v := by rw [alloc_parents hs.toDWF0]; exact hs.ndp v
  ndc v := by rw [alloc_children hs.toDWF0]; exact hs.ndc v
  rng p c h := by
    rw [alloc_parents hs.toDWF0] at h
    have := hs.rng p c h
    simp only [alloc]; omega
  acyc := hs.acyc.mono (fun p c h => by rwa [alloc_parents hs.toDWF0] at h)

theorem construct_eq (asrt : Bool) (s : DStore) (nm : Str) (ps cs : Arg) (fp fc : Fault) :
    construct asrt s nm ps cs fp fc =
      (let r := setParents asrt (alloc s nm) s.n ps fp
       if r.2 = .rej then r else setChildren asrt r.1 s.n cs fc) := rfl

theorem dwf_construct {s : DStore} (hs : DWF s) (nm : Str) (ps cs : Arg) (fp fc : Fault) :
    DWF (construct true s nm ps cs fp fc).1 := by
  rw [construct_eq]
  have h0 := dwf_alloc hs nm
  have hv : s.n < (alloc s nm).n := by simp [alloc]
  have h1 := dwf_setParents h0 hv ps fp
  simp only
  split
  · exact h1
  · apply dwf_setChildren h1
    rw [setParents_n _ h0.toDWF0]; exact hv

/-! ### operations and histories -/

/-- **C10 step.** Every operation — both setters, `>>`, `<<`, both deleters, the constructor —
with every argument (valid or not) and every hook fault keeps the store well-formed. -/
theorem dwf_step {s : DStore} (hs : DWF s) (op : Op) : DWF (step true s op).1 := by
  cases op with
  | setParents v a f =>
    simp only [step]; split
    · exact dwf_setParents hs ‹_› a f
    · exact hs
  | setChildren v a f =>
    simp only [step]; split
    · exact dwf_setChildren hs ‹_› a f
    · exact hs
  | rshift v o f =>
    simp only [step]; split
    · exact dwf_setParents hs (‹_ ∧ _›).2 _ f
    · exact hs
  | lshift v o f =>
    simp only [step]; split
    · exact dwf_setParents hs ‹_› _ f
    · exact hs
  | delChildren v =>
    simp only [step]; split
    · exact dwf_delChildrenLoop hs v _
    · exact hs
  | delItem v nm =>
    simp only [step]; split
    · exact dwf_delItem hs v nm
    · exact hs
  | construct nm ps cs fp fc => exact dwf_construct hs nm ps cs fp fc

/-- **C10 over histories.** -/
theorem dwf_run {s : DStore} (hs : DWF s) (ops : List Op) : DWF (run true s ops).1 := by
  induction ops generalizing s with
  | nil => exact hs
  | cons op ops ih => exact ih (dwf_step hs op)

/-- every intermediate store of a history is well-formed -/
theorem dwf_trace {s : DStore} (hs : DWF s) (ops : List Op) :
    ∀ r ∈ trace true s ops, DWF r.1 := by
  induction ops generalizing s with
  | nil => simp [trace]
  | cons op ops ih =>
    intro r hr
    simp only [trace, List.mem_cons] at hr
    rcases hr with rfl | hr
    · exact dwf_step hs op
    · exact ih (dwf_step hs op) r hr

/-- C02 at the level of operations: a raising call other than the constructor (which is two
assignments) leaves the whole store unchanged -/
theorem step_rej_id {s : DStore} (hs : DWF0 s) {op : Op} (hop : ∀ nm ps cs fp fc, op ≠ .construct nm ps cs fp fc)
    (h : (step true s op).2 = .rej) : (step true s op).1 = s := by
  cases op with
  | setParents v a f =>
    simp only [step] at h ⊢; split
    · rename_i hv; rw [if_pos hv] at h; exact setParents_rej_id hs h
    · rfl
  | setChildren v a f =>
    simp only [step] at h ⊢; split
    · rename_i hv; rw [if_pos hv] at h; exact setChildren_rej_id hs h
    · rfl
  | rshift v o f =>
    simp only [step] at h ⊢; split
    · rename_i hv; rw [if_pos hv] at h; exact setParents_rej_id hs h
    · rfl
  | lshift v o f =>
    simp only [step] at h ⊢; split
    · rename_i hv; rw [if_pos hv] at h; exact setParents_rej_id hs h
    · rfl
  | delChildren v =>
    simp only [step] at h ⊢; split
    · rename_i hv; rw [if_pos hv] at h; simp [delChildren] at h
    · rfl
  | delItem v nm =>
    simp only [step] at h ⊢; split
    · rename_i hv; rw [if_pos hv] at h
      unfold delItem at h ⊢
      split <;> simp_all
    · rfl
  | construct nm ps cs fp fc => exact absurd rfl (hop nm ps cs fp fc)

/-! ## C20: the `ASSERTIONS` switch only guards -/

theorem setParents_off_same {s : DStore} {v : Nat} {a : Arg} {f : Fault}
    (h : (setParents true s v a f).2 = .ok) : setParents false s v a f = setParents true s v a f := by
  cases hc : checkParents s v a with
  | false => rw [setParents_check_false f hc] at h; cases h
  | true => simp [setParents, hc]

theorem setChildren_off_same {s : DStore} {v : Nat} {a : Arg} {f : Fault}
    (h : (setChildren true s v a f).2 = .ok) : setChildren false s v a f = setChildren true s v a f := by
  cases hc : checkChildren s v a with
  | false => rw [setChildren_check_false f hc] at h; cases h
  | true => simp [setChildren, hc]

/-- **C20 step (DAGNode).** An operation accepted with the checks on is accepted with the checks
off and produces the identical store (every list, in order). -/
theorem assertions_off_same {s : DStore} {op : Op} (h : (step true s op).2 = .ok) :
    step false s op = step true s op := by
  cases op with
  | setParents v a f =>
    simp only [step] at h ⊢; split
    · rename_i hv; rw [if_pos hv] at h; exact setParents_off_same h
    · rfl
  | setChildren v a f =>
    simp only [step] at h ⊢; split
    · rename_i hv; rw [if_pos hv] at h; exact setChildren_off_same h
    · rfl
  | rshift v o f =>
    simp only [step] at h ⊢; split
    · rename_i hv; rw [if_pos hv] at h; exact setParents_off_same h
    · rfl
  | lshift v o f =>
    simp only [step] at h ⊢; split
    · rename_i hv; rw [if_pos hv] at h; exact setParents_off_same h
    · rfl
  | delChildren v => rfl
  | delItem v nm => rfl
  | construct nm ps cs fp fc =>
    simp only [step, construct_eq] at h ⊢
    cases h1 : (setParents true (alloc s nm) s.n ps fp).2 with
    | rej => simp [h1] at h
    | ok =>
      rw [setParents_off_same h1]
      simp only [h1] at h ⊢
      simp only [reduceCtorEq, if_false] at h ⊢
      exact setChildren_off_same h

/-- the checks are pure guards: switching them off only removes rejections -/
theorem off_only_removes_rejections {s : DStore} {op : Op} (h : (step false s op).2 = .rej) :
    (step true s op).2 = .rej := by
  cases h1 : (step true s op).2 with
  | rej => rfl
  | ok => rw [assertions_off_same h1, h1] at h; cases h

/-- **C20 over histories (DAGNode).** A history every operation of which is accepted with the
checks on runs identically with the checks off: same outcomes, same final store. -/
theorem run_assertions_off_same {s : DStore} {ops : List Op}
    (h : ∀ o ∈ (run true s ops).2, o = .ok) : run false s ops = run true s ops := by
  induction ops generalizing s with
  | nil => rfl
  | cons op ops ih =>
    simp only [run, List.mem_cons, forall_eq_or_imp] at h ⊢
    rw [assertions_off_same h.1, ih h.2]

end DagStore
