import BigtreeProofs.Lemmas.NewickRun
/-! Helper lemmas for C06 (Newick): distinctness facts, evaluation of single parser steps from a
"string" state, reading a plain or quoted name. Core Lean only. -/

namespace Newick
open Export

/-! ### the eight constants are pairwise distinct -/

theorem Chars.ne_of_nodup (c : Chars) (h : c.values.Nodup) (i j : Nat) (hi : i < 8) (hj : j < 8) (hij : i ≠ j) :
    c.values[i]'(by simpa [Chars.values] using hi) ≠ c.values[j]'(by simpa [Chars.values] using hj) := by
  have hp := List.pairwise_iff_getElem.mp h
  rcases Nat.lt_or_gt_of_ne hij with hlt | hgt
  · exact hp i j _ _ hlt
  · exact (hp j i _ _ hgt).symm

/-- a character that is none of the eight constants -/
def Plain (c : Chars) (x : Char) : Prop := x ∉ c.values

theorem Plain.ne (c : Chars) (x : Char) (h : Plain c x) :
    x ≠ c.openB ∧ x ≠ c.closeB ∧ x ≠ c.attrStart ∧ x ≠ c.attrEnd ∧ x ≠ c.keyValue ∧ x ≠ c.quote ∧ x ≠ c.sep ∧ x ≠ c.nodeSep := by
  simpa [Plain, Chars.values] using h

/-! ### updates of `depth_nodes` -/

theorem upd_same (dn : Int → List Tree) (k : Int) (l : List Tree) : upd dn k l k = l := by simp [upd]

theorem upd_other (dn : Int → List Tree) (k j : Int) (l : List Tree) (h : j ≠ k) : upd dn k l j = dn j := by
  simp [upd, h]

theorem upd_self_eq (dn : Int → List Tree) (k : Int) (l : List Tree) (h : dn k = l) : upd dn k l = dn := by
  funext j
  by_cases hj : j = k
  · subst hj; simp [upd, h]
  · simp [upd, hj]

theorem upd_upd (dn : Int → List Tree) (k : Int) (l l' : List Tree) : upd (upd dn k l) k l' = upd dn k l' := by
  funext j
  by_cases hj : j = k <;> simp [upd, hj]

theorem upd_comm (dn : Int → List Tree) (k k' : Int) (l l' : List Tree) (h : k ≠ k') :
    upd (upd dn k l) k' l' = upd (upd dn k' l') k l := by
  funext j
  by_cases hj : j = k
  · subst hj; simp [upd, h]
  · by_cases hj' : j = k'
    · subst hj'; simp [upd, hj]
    · simp [upd, hj, hj']

/-! ### `_create_node` with a pending name and parked children -/

theorem attach_parked (dn : Int → List Tree) (d : Int) (nm : Str) (h : dupNames (dn (d + 1)) = false) :
    attach dn d (.node 0 nm [] []) = some (.node 0 nm [] (dn (d + 1)), upd dn (d + 1) []) := by
  unfold attach
  cases hk : dn (d + 1) with
  | nil => simp only; rw [upd_self_eq dn (d + 1) [] hk]
  | cons k ks =>
    simp only
    rw [hk] at h
    simp [h, setChildren]

theorem createNew_parked (s : PState) (hcum : s.cum ≠ []) (h : dupNames (s.dn (s.depth + 1)) = false) :
    createNew s = some { s with
      dn := upd (upd s.dn (s.depth + 1) []) s.depth (s.dn s.depth ++ [.node 0 s.cum [] (s.dn (s.depth + 1))]),
      cur := true } := by
  unfold createNew
  simp only [hcum, if_false]
  rw [attach_parked s.dn s.depth s.cum h]
  simp only
  rw [upd_other s.dn (s.depth + 1) s.depth [] (by omega)]

/-! ### single steps from a string state -/

theorem step_open (c : Chars) (la pre : Str) (s : PState) (rest : Str)
    (h1 : s.st = .str) (h2 : s.cur = false) (h3 : s.cum = []) (h4 : s.cumVal = []) :
    step c la pre s c.openB rest = some ({ s with depth := s.depth + 1 }, 0) := by
  simp [step, h1, h2, h3, h4]

theorem step_close_new (c : Chars) (hc : c.values.Nodup) (la pre : Str) (s s2 : PState) (rest : Str)
    (h1 : s.st = .str) (h2 : s.cur = false) (hn : createNew s = some s2) (h4 : s2.cumVal = []) :
    step c la pre s c.closeB rest = some ({ s2 with depth := s2.depth - 1, cur := false, cum := [] }, 0) := by
  have a : c.closeB ≠ c.openB := c.ne_of_nodup hc 1 0 (by omega) (by omega) (by omega)
  have b : c.closeB ≠ c.attrStart := c.ne_of_nodup hc 1 2 (by omega) (by omega) (by omega)
  have d : c.closeB ≠ c.nodeSep := c.ne_of_nodup hc 1 7 (by omega) (by omega) (by omega)
  simp [step, a, b, d, h1, create, h2, hn, h4]

theorem step_nodeSep_new (c : Chars) (hc : c.values.Nodup) (la pre : Str) (s s2 : PState) (rest : Str)
    (h1 : s.st = .str) (h2 : s.cur = false) (hn : createNew s = some s2) (h4 : s2.cumVal = []) :
    step c la pre s c.nodeSep rest = some ({ s2 with cur := false, cum := [] }, 0) := by
  have a : c.nodeSep ≠ c.openB := c.ne_of_nodup hc 7 0 (by omega) (by omega) (by omega)
  have b : c.nodeSep ≠ c.attrStart := c.ne_of_nodup hc 7 2 (by omega) (by omega) (by omega)
  have d : c.nodeSep ≠ c.closeB := c.ne_of_nodup hc 7 1 (by omega) (by omega) (by omega)
  simp [step, a, b, d, h1, create, h2, hn, h4]

theorem step_plain (c : Chars) (la pre : Str) (s : PState) (x : Char) (rest : Str)
    (hx : Plain c x) (h1 : s.st = .str) :
    step c la pre s x rest = some ({ s with cum := s.cum ++ [x] }, 0) := by
  obtain ⟨a1, a2, a3, a4, a5, a6, a7, a8⟩ := Plain.ne c x hx
  simp [step, a1, a2, a3, a4, a5, a6, a7, a8, h1]

theorem takeWhile_quote (q : Char) (w rest : Str) (hw : q ∉ w) :
    (w ++ q :: rest).takeWhile (· != q) = w := by
  induction w with
  | nil => simp
  | cons x xs ih =>
    simp only [List.mem_cons, not_or] at hw
    have : (x != q) = true := by simp [Ne.symm hw.1]
    simp [this, ih hw.2]

theorem step_quote (c : Chars) (hc : c.values.Nodup) (la pre : Str) (s : PState) (w rest : Str)
    (hw : c.quote ∉ w) (h1 : s.st = .str) (h3 : s.cum = []) :
    step c la pre s c.quote (w ++ c.quote :: rest) = some ({ s with cum := w }, w.length + 1) := by
  have a : c.quote ≠ c.openB := c.ne_of_nodup hc 5 0 (by omega) (by omega) (by omega)
  have b : c.quote ≠ c.closeB := c.ne_of_nodup hc 5 1 (by omega) (by omega) (by omega)
  have d : c.quote ≠ c.attrStart := c.ne_of_nodup hc 5 2 (by omega) (by omega) (by omega)
  have e : c.quote ≠ c.attrEnd := c.ne_of_nodup hc 5 3 (by omega) (by omega) (by omega)
  have f : c.quote ≠ c.keyValue := c.ne_of_nodup hc 5 4 (by omega) (by omega) (by omega)
  have g : c.quote ≠ c.nodeSep := c.ne_of_nodup hc 5 7 (by omega) (by omega) (by omega)
  simp [step, a, b, d, e, f, g, h1, h3, takeWhile_quote c.quote w rest hw]

/-! ### reading a name -/

theorem go_plain (c : Chars) (la pre : Str) : ∀ (w : Str) (s : PState) (rest : Str),
    (∀ x ∈ w, Plain c x) → s.st = .str →
    go c la pre s (w ++ rest) = go c la pre { s with cum := s.cum ++ w } rest := by
  intro w
  induction w with
  | nil => intro s rest _ _; simp
  | cons x xs ih =>
    intro s rest hw hs
    rw [List.cons_append, go_step c la pre s x (xs ++ rest) _ 0 (step_plain c la pre s x _ (hw x (by simp)) hs)]
    have := ih { s with cum := s.cum ++ [x] } rest (fun y hy => hw y (by simp [hy])) hs
    rw [List.drop_zero, this]
    simp

/-- reading `_serialize(name)` from a state with nothing pending leaves the name pending -/
theorem go_name (c : Chars) (hc : c.OK) (la pre : Str) (n : Str) (s : PState) (rest : Str)
    (hq : c.quote ∉ n) (h1 : s.st = .str) (h3 : s.cum = []) :
    go c la pre s (serialize c n ++ rest) = go c la pre { s with cum := n } rest := by
  unfold serialize
  by_cases hany : (n.any fun ch => c.values.contains ch) = true
  · rw [if_pos hany]
    have hmap : n.map (fun ch => if ch = c.quote then '"' else ch) = n := by
      conv => rhs; rw [← List.map_id n]
      apply List.map_congr_left
      intro x hx
      have : x ≠ c.quote := fun e => hq (e ▸ hx)
      simp [this]
    rw [hmap]
    have hq' : c.quote = '\'' := hc.2.2.2.2.2.2.1
    rw [← hq']
    have e : c.quote :: n ++ [c.quote] ++ rest = c.quote :: (n ++ c.quote :: rest) := by simp
    rw [e, go_step c la pre s c.quote _ _ _ (step_quote c hc.1 la pre s n rest hq h1 h3)]
    congr 1
    simp
  · rw [if_neg hany]
    have hpl : ∀ x ∈ n, Plain c x := by
      intro x hx hmem
      apply hany
      rw [List.any_eq_true]
      exact ⟨x, hx, by simpa using hmem⟩
    rw [go_plain c la pre n s rest hpl h1, h3]
    simp

/-! ### steps inside an attribute section -/

theorem step_plain_name (c : Chars) (la pre : Str) (s : PState) (x : Char) (rest : Str)
    (hx : Plain c x) (h1 : s.st = .attrName) :
    step c la pre s x rest = some ({ s with cum := s.cum ++ [x] }, 0) := by
  obtain ⟨a1, a2, a3, a4, a5, a6, a7, a8⟩ := Plain.ne c x hx
  simp [step, a1, a2, a3, a4, a5, a6, a7, a8, h1]

theorem step_plain_val (c : Chars) (la pre : Str) (s : PState) (x : Char) (rest : Str)
    (hx : Plain c x) (h1 : s.st = .attrVal) :
    step c la pre s x rest = some ({ s with cumVal := s.cumVal ++ [x] }, 0) := by
  obtain ⟨a1, a2, a3, a4, a5, a6, a7, a8⟩ := Plain.ne c x hx
  simp [step, a1, a2, a3, a4, a5, a6, a7, a8, h1]

theorem step_quote_name (c : Chars) (hc : c.values.Nodup) (la pre : Str) (s : PState) (w rest : Str)
    (hw : c.quote ∉ w) (h1 : s.st = .attrName) (h3 : s.cum = []) :
    step c la pre s c.quote (w ++ c.quote :: rest) = some ({ s with cum := w }, w.length + 1) := by
  have a : c.quote ≠ c.openB := c.ne_of_nodup hc 5 0 (by omega) (by omega) (by omega)
  have b : c.quote ≠ c.closeB := c.ne_of_nodup hc 5 1 (by omega) (by omega) (by omega)
  have d : c.quote ≠ c.attrStart := c.ne_of_nodup hc 5 2 (by omega) (by omega) (by omega)
  have e : c.quote ≠ c.attrEnd := c.ne_of_nodup hc 5 3 (by omega) (by omega) (by omega)
  have f : c.quote ≠ c.keyValue := c.ne_of_nodup hc 5 4 (by omega) (by omega) (by omega)
  have g : c.quote ≠ c.nodeSep := c.ne_of_nodup hc 5 7 (by omega) (by omega) (by omega)
  simp [step, a, b, d, e, f, g, h1, h3, takeWhile_quote c.quote w rest hw]

theorem step_quote_val (c : Chars) (hc : c.values.Nodup) (la pre : Str) (s : PState) (w rest : Str)
    (hw : c.quote ∉ w) (h1 : s.st = .attrVal) (h3 : s.cumVal = []) :
    step c la pre s c.quote (w ++ c.quote :: rest) = some ({ s with cumVal := w }, w.length + 1) := by
  have a : c.quote ≠ c.openB := c.ne_of_nodup hc 5 0 (by omega) (by omega) (by omega)
  have b : c.quote ≠ c.closeB := c.ne_of_nodup hc 5 1 (by omega) (by omega) (by omega)
  have d : c.quote ≠ c.attrStart := c.ne_of_nodup hc 5 2 (by omega) (by omega) (by omega)
  have e : c.quote ≠ c.attrEnd := c.ne_of_nodup hc 5 3 (by omega) (by omega) (by omega)
  have f : c.quote ≠ c.keyValue := c.ne_of_nodup hc 5 4 (by omega) (by omega) (by omega)
  have g : c.quote ≠ c.nodeSep := c.ne_of_nodup hc 5 7 (by omega) (by omega) (by omega)
  simp [step, a, b, d, e, f, g, h1, h3, takeWhile_quote c.quote w rest hw]

theorem step_keyValue (c : Chars) (hc : c.values.Nodup) (la pre : Str) (s : PState) (rest : Str)
    (h1 : s.st = .attrName) (h2 : s.cur = true) (h3 : s.cum ≠ []) (h4 : s.cumVal = []) :
    step c la pre s c.keyValue rest = some ({ s with st := .attrVal }, 0) := by
  have a : c.keyValue ≠ c.openB := c.ne_of_nodup hc 4 0 (by omega) (by omega) (by omega)
  have b : c.keyValue ≠ c.closeB := c.ne_of_nodup hc 4 1 (by omega) (by omega) (by omega)
  have d : c.keyValue ≠ c.attrStart := c.ne_of_nodup hc 4 2 (by omega) (by omega) (by omega)
  have e : c.keyValue ≠ c.attrEnd := c.ne_of_nodup hc 4 3 (by omega) (by omega) (by omega)
  have g : c.keyValue ≠ c.nodeSep := c.ne_of_nodup hc 4 7 (by omega) (by omega) (by omega)
  simp [step, a, b, d, e, g, h1, h2, h3, h4]

theorem step_attrEnd (c : Chars) (hc : c.values.Nodup) (la pre : Str) (s s1 : PState) (rest : Str)
    (h1 : s.st = .attrVal) (hs : setCurAttr { s with st := .str } = some s1) :
    step c la pre s c.attrEnd rest = some (s1, 0) := by
  have a : c.attrEnd ≠ c.openB := c.ne_of_nodup hc 3 0 (by omega) (by omega) (by omega)
  have b : c.attrEnd ≠ c.closeB := c.ne_of_nodup hc 3 1 (by omega) (by omega) (by omega)
  have d : c.attrEnd ≠ c.attrStart := c.ne_of_nodup hc 3 2 (by omega) (by omega) (by omega)
  have g : c.attrEnd ≠ c.nodeSep := c.ne_of_nodup hc 3 7 (by omega) (by omega) (by omega)
  simp [step, a, b, d, g, h1, hs]

theorem step_sep_val (c : Chars) (hc : c.values.Nodup) (la pre : Str) (s s1 : PState) (rest : Str)
    (h1 : s.st = .attrVal) (hs : setCurAttr { s with st := .attrName } = some s1) :
    step c la pre s c.sep rest = some (s1, 0) := by
  have a : c.sep ≠ c.openB := c.ne_of_nodup hc 6 0 (by omega) (by omega) (by omega)
  have b : c.sep ≠ c.closeB := c.ne_of_nodup hc 6 1 (by omega) (by omega) (by omega)
  have d : c.sep ≠ c.attrStart := c.ne_of_nodup hc 6 2 (by omega) (by omega) (by omega)
  have e : c.sep ≠ c.attrEnd := c.ne_of_nodup hc 6 3 (by omega) (by omega) (by omega)
  have f : c.sep ≠ c.keyValue := c.ne_of_nodup hc 6 4 (by omega) (by omega) (by omega)
  have q : c.sep ≠ c.quote := c.ne_of_nodup hc 6 5 (by omega) (by omega) (by omega)
  have g : c.sep ≠ c.nodeSep := c.ne_of_nodup hc 6 7 (by omega) (by omega) (by omega)
  simp [step, a, b, d, e, f, q, g, h1, hs]

theorem step_sep_str (c : Chars) (hc : c.values.Nodup) (la pre : Str) (s s1 : PState) (rest : Str)
    (h1 : s.st = .str) (h2 : s.cur = false) (hn : createNew s = some s1) (h4 : s1.cumVal = []) :
    step c la pre s c.sep rest = some ({ s1 with cum := [] }, 0) := by
  have a : c.sep ≠ c.openB := c.ne_of_nodup hc 6 0 (by omega) (by omega) (by omega)
  have b : c.sep ≠ c.closeB := c.ne_of_nodup hc 6 1 (by omega) (by omega) (by omega)
  have d : c.sep ≠ c.attrStart := c.ne_of_nodup hc 6 2 (by omega) (by omega) (by omega)
  have e : c.sep ≠ c.attrEnd := c.ne_of_nodup hc 6 3 (by omega) (by omega) (by omega)
  have f : c.sep ≠ c.keyValue := c.ne_of_nodup hc 6 4 (by omega) (by omega) (by omega)
  have q : c.sep ≠ c.quote := c.ne_of_nodup hc 6 5 (by omega) (by omega) (by omega)
  have g : c.sep ≠ c.nodeSep := c.ne_of_nodup hc 6 7 (by omega) (by omega) (by omega)
  simp [step, a, b, d, e, f, q, g, h1, h2, hn, h4]

/-- `[`: the node is created (or completed), the prefix skipped -/
theorem step_attrStart (c : Chars) (hc : c.values.Nodup) (la pre : Str) (s s2 : PState) (rest : Str)
    (h1 : s.st = .str) (hn : create la { s with st := .attrName } = some s2) (h4 : s2.cumVal = []) :
    step c la pre s c.attrStart (pre ++ rest) = some ({ s2 with cum := [] }, pre.length) := by
  have a : c.attrStart ≠ c.openB := c.ne_of_nodup hc 2 0 (by omega) (by omega) (by omega)
  have b : c.attrStart ≠ c.closeB := c.ne_of_nodup hc 2 1 (by omega) (by omega) (by omega)
  have g : c.attrStart ≠ c.nodeSep := c.ne_of_nodup hc 2 7 (by omega) (by omega) (by omega)
  have hsw : ∀ (p r : Str), startsWith (p ++ r) p = true := by
    intro p
    induction p with
    | nil => intro r; cases r <;> rfl
    | cons x xs ih => intro r; simp [startsWith, ih]
  simp [step, a, b, g, h1, hn, h4, hsw]

/-- `,` / `)` when the node already exists -/
theorem step_close_cur (c : Chars) (hc : c.values.Nodup) (la pre : Str) (s s2 : PState) (rest : Str)
    (h1 : s.st = .str) (h2 : s.cur = true) (hn : createExisting la s = some s2) (h4 : s2.cumVal = []) :
    step c la pre s c.closeB rest = some ({ s2 with depth := s2.depth - 1, cur := false, cum := [] }, 0) := by
  have a : c.closeB ≠ c.openB := c.ne_of_nodup hc 1 0 (by omega) (by omega) (by omega)
  have b : c.closeB ≠ c.attrStart := c.ne_of_nodup hc 1 2 (by omega) (by omega) (by omega)
  have d : c.closeB ≠ c.nodeSep := c.ne_of_nodup hc 1 7 (by omega) (by omega) (by omega)
  simp [step, a, b, d, h1, create, h2, hn, h4]

theorem step_nodeSep_cur (c : Chars) (hc : c.values.Nodup) (la pre : Str) (s s2 : PState) (rest : Str)
    (h1 : s.st = .str) (h2 : s.cur = true) (hn : createExisting la s = some s2) (h4 : s2.cumVal = []) :
    step c la pre s c.nodeSep rest = some ({ s2 with cur := false, cum := [] }, 0) := by
  have a : c.nodeSep ≠ c.openB := c.ne_of_nodup hc 7 0 (by omega) (by omega) (by omega)
  have b : c.nodeSep ≠ c.attrStart := c.ne_of_nodup hc 7 2 (by omega) (by omega) (by omega)
  have d : c.nodeSep ≠ c.closeB := c.ne_of_nodup hc 7 1 (by omega) (by omega) (by omega)
  simp [step, a, b, d, h1, create, h2, hn, h4]

/-! ### reading plain / quoted text into the key or value buffer -/

theorem go_plain_name (c : Chars) (la pre : Str) : ∀ (w : Str) (s : PState) (rest : Str),
    (∀ x ∈ w, Plain c x) → s.st = .attrName →
    go c la pre s (w ++ rest) = go c la pre { s with cum := s.cum ++ w } rest := by
  intro w
  induction w with
  | nil => intro s rest _ _; simp
  | cons x xs ih =>
    intro s rest hw hs
    rw [List.cons_append, go_step c la pre s x (xs ++ rest) _ 0 (step_plain_name c la pre s x _ (hw x (by simp)) hs)]
    have := ih { s with cum := s.cum ++ [x] } rest (fun y hy => hw y (by simp [hy])) hs
    rw [List.drop_zero, this]
    simp

theorem go_plain_val (c : Chars) (la pre : Str) : ∀ (w : Str) (s : PState) (rest : Str),
    (∀ x ∈ w, Plain c x) → s.st = .attrVal →
    go c la pre s (w ++ rest) = go c la pre { s with cumVal := s.cumVal ++ w } rest := by
  intro w
  induction w with
  | nil => intro s rest _ _; simp
  | cons x xs ih =>
    intro s rest hw hs
    rw [List.cons_append, go_step c la pre s x (xs ++ rest) _ 0 (step_plain_val c la pre s x _ (hw x (by simp)) hs)]
    have := ih { s with cumVal := s.cumVal ++ [x] } rest (fun y hy => hw y (by simp [hy])) hs
    rw [List.drop_zero, this]
    simp

theorem serialize_cases (c : Chars) (hc : c.OK) (n : Str) (hq : c.quote ∉ n) :
    (serialize c n = c.quote :: n ++ [c.quote]) ∨ (serialize c n = n ∧ ∀ x ∈ n, Plain c x) := by
  unfold serialize
  by_cases hany : (n.any fun ch => c.values.contains ch) = true
  · left
    rw [if_pos hany]
    have hmap : n.map (fun ch => if ch = c.quote then '"' else ch) = n := by
      conv => rhs; rw [← List.map_id n]
      apply List.map_congr_left
      intro x hx
      have : x ≠ c.quote := fun e => hq (e ▸ hx)
      simp [this]
    rw [hmap, hc.2.2.2.2.2.2.1]
  · right
    rw [if_neg hany]
    refine ⟨rfl, ?_⟩
    intro x hx hmem
    apply hany
    rw [List.any_eq_true]
    exact ⟨x, hx, by simpa using hmem⟩

/-- reading `_serialize(key)` in the attribute-name state -/
theorem go_key (c : Chars) (hc : c.OK) (la pre : Str) (k : Str) (s : PState) (rest : Str)
    (hq : c.quote ∉ k) (h1 : s.st = .attrName) (h3 : s.cum = []) :
    go c la pre s (serialize c k ++ rest) = go c la pre { s with cum := k } rest := by
  rcases serialize_cases c hc k hq with h | ⟨h, hpl⟩
  · rw [h]
    have e : c.quote :: k ++ [c.quote] ++ rest = c.quote :: (k ++ c.quote :: rest) := by simp
    rw [e, go_step c la pre s c.quote _ _ _ (step_quote_name c hc.1 la pre s k rest hq h1 h3)]
    congr 1
    simp
  · rw [h, go_plain_name c la pre k s rest hpl h1, h3]
    simp

/-- reading `_serialize(value)` in the attribute-value state -/
theorem go_val (c : Chars) (hc : c.OK) (la pre : Str) (v : Str) (s : PState) (rest : Str)
    (hq : c.quote ∉ v) (h1 : s.st = .attrVal) (h3 : s.cumVal = []) :
    go c la pre s (serialize c v ++ rest) = go c la pre { s with cumVal := v } rest := by
  rcases serialize_cases c hc v hq with h | ⟨h, hpl⟩
  · rw [h]
    have e : c.quote :: v ++ [c.quote] ++ rest = c.quote :: (v ++ c.quote :: rest) := by simp
    rw [e, go_step c la pre s c.quote _ _ _ (step_quote_val c hc.1 la pre s v rest hq h1 h3)]
    congr 1
    simp
  · rw [h, go_plain_val c la pre v s rest hpl h1, h3]
    simp

end Newick
