import BigtreeProofs.Lemmas.DagBasic
/-! The DFS argument for `dag_iterator`.

* `Inv`: the pairs yielded so far are duplicate-free and are exactly the edges with an end point
  in the visited set (independent of the order in which nodes are entered);
* `Ext`: the visited set only grows, and every node entered during a call has all its
  neighbours visited when the call returns (given enough fuel);
* fuel: `unv` (number of unvisited nodes) bounds the recursion depth. -/

namespace Dag
open List

theorem mem_edges {g : Dag} {e : Edge} : e ∈ g.edges ↔ e.1 ∈ g.nodes ∧ e.2 ∈ g.children e.1 := by
  obtain ⟨p, c⟩ := e
  simp only [edges, mem_flatMap, mem_map, Prod.mk.injEq]
  constructor
  · rintro ⟨p', hp', c', hc', rfl, rfl⟩; exact ⟨hp', hc'⟩
  · rintro ⟨hp, hc⟩; exact ⟨p, hp, c, hc, rfl, rfl⟩

theorem nodup_map_of_inj {α β} {f : α → β} (hf : ∀ a b, f a = f b → a = b) {l : List α}
    (h : l.Nodup) : (l.map f).Nodup := by
  rw [Nodup, pairwise_map]
  exact h.imp (fun hne heq => hne (hf _ _ heq))

theorem nodup_edges {g : Dag} (wf : g.DWF) : g.edges.Nodup := by
  unfold edges
  have key : ∀ (l : List Nat), l.Nodup → (∀ v ∈ l, (g.children v).Nodup) →
      (l.flatMap fun p => (g.children p).map fun c => (p, c)).Nodup := by
    intro l
    induction l with
    | nil => intro _ _; simp
    | cons a l ih =>
      intro hnd hch
      rw [flatMap_cons, nodup_append]
      refine ⟨nodup_map_of_inj (by intro x y h; simpa using h) (hch a (by simp)),
        ih (nodup_cons.1 hnd).2 (fun v hv => hch v (by simp [hv])), ?_⟩
      intro e he e' he' heq
      subst heq
      simp only [mem_map] at he
      obtain ⟨c, _, rfl⟩ := he
      simp only [mem_flatMap, mem_map, Prod.mk.injEq] at he'
      obtain ⟨p, hp, _, _, rfl, _⟩ := he'
      exact (nodup_cons.1 hnd).1 hp
  exact key _ wf.nodup_nodes wf.nodup_chi

/-! ### the yielding loops -/

theorem mem_emit {g : Dag} (wf : g.DWF) {v : Nat} (hv : v ∈ g.nodes) {vis : List Nat} {e : Edge} :
    e ∈ g.emit v vis ↔
      e ∈ g.edges ∧ ((e.2 = v ∧ e.1 ∉ vis) ∨ (e.1 = v ∧ e.2 ∉ vis)) := by
  obtain ⟨a, b⟩ := e
  simp only [emit, mem_append, mem_map, mem_filter, decide_eq_true_eq, Prod.mk.injEq, mem_edges]
  constructor
  · rintro (⟨p, ⟨hp, hpv⟩, rfl, rfl⟩ | ⟨c, ⟨hc, hcv⟩, rfl, rfl⟩)
    · have := wf.par_closed _ hv _ hp
      exact ⟨⟨this.1, this.2⟩, Or.inl ⟨rfl, hpv⟩⟩
    · exact ⟨⟨hv, hc⟩, Or.inr ⟨rfl, hcv⟩⟩
  · rintro ⟨⟨ha, hb⟩, (⟨rfl, hn⟩ | ⟨rfl, hn⟩)⟩
    · left; exact ⟨a, ⟨(wf.chi_closed _ ha _ hb).2, hn⟩, rfl, rfl⟩
    · right; exact ⟨b, ⟨hb, hn⟩, rfl, rfl⟩

theorem nodup_emit {g : Dag} (wf : g.DWF) {v : Nat} (hv : v ∈ g.nodes) {vis : List Nat}
    (hvis : v ∈ vis) : (g.emit v vis).Nodup := by
  unfold emit
  rw [nodup_append]
  refine ⟨nodup_map_of_inj (by intro x y h; simpa using h) ((wf.nodup_par v hv).filter _),
    nodup_map_of_inj (by intro x y h; simpa using h) ((wf.nodup_chi v hv).filter _), ?_⟩
  intro e he e' he' heq
  subst heq
  simp only [mem_map, mem_filter, decide_eq_true_eq] at he he'
  obtain ⟨p, ⟨_, hpv⟩, rfl⟩ := he
  obtain ⟨c, _, hc⟩ := he'
  simp only [Prod.mk.injEq] at hc
  exact hpv (hc.1 ▸ hvis)

/-- the order-independent invariant of the walk -/
def Inv (g : Dag) (st : St) : Prop :=
  st.out.Nodup ∧ (∀ x ∈ st.vis, x ∈ g.nodes) ∧
  ∀ e, e ∈ st.out ↔ (e ∈ g.edges ∧ (e.1 ∈ st.vis ∨ e.2 ∈ st.vis))

theorem inv_init (g : Dag) : Inv g ⟨[], []⟩ := by
  refine ⟨by simp, by simp, ?_⟩
  intro e; simp

/-- entering an unvisited node keeps the invariant -/
theorem inv_enter {g : Dag} (wf : g.DWF) {v : Nat} (hv : v ∈ g.nodes) {st : St}
    (hnv : v ∉ st.vis) (h : Inv g st) :
    Inv g { vis := v :: st.vis, out := st.out ++ g.emit v (v :: st.vis) } := by
  obtain ⟨hnd, hsub, hmem⟩ := h
  have noloop : v ∉ g.children v := fun hc => wf.acyclic v hv (.edge hc)
  refine ⟨?_, ?_, ?_⟩
  · rw [nodup_append]
    refine ⟨hnd, nodup_emit wf hv (by simp), ?_⟩
    intro e he e' he' heq
    subst heq
    have h1 := ((hmem e).1 he).2
    have h2 := ((mem_emit wf hv).1 he').2
    rcases h2 with ⟨h2a, h2c⟩ | ⟨h2a, h2c⟩
    · have h2c' : e.1 ∉ st.vis := fun h => h2c (mem_cons_of_mem _ h)
      rcases h1 with h1 | h1
      · exact h2c' h1
      · exact hnv (h2a ▸ h1)
    · have h2c' : e.2 ∉ st.vis := fun h => h2c (mem_cons_of_mem _ h)
      rcases h1 with h1 | h1
      · exact hnv (h2a ▸ h1)
      · exact h2c' h1
  · intro x hx
    rcases mem_cons.1 hx with rfl | hx
    · exact hv
    · exact hsub x hx
  · intro e
    simp only [mem_append, hmem, mem_emit wf hv, mem_cons]
    constructor
    · rintro (⟨he, h1 | h1⟩ | ⟨he, ⟨h1, _⟩ | ⟨h1, _⟩⟩)
      · exact ⟨he, Or.inl (Or.inr h1)⟩
      · exact ⟨he, Or.inr (Or.inr h1)⟩
      · exact ⟨he, Or.inr (Or.inl h1)⟩
      · exact ⟨he, Or.inl (Or.inl h1)⟩
    · rintro ⟨he, hto⟩
      by_cases ht : e.1 ∈ st.vis ∨ e.2 ∈ st.vis
      · exact Or.inl ⟨he, ht⟩
      · simp only [not_or] at ht
        right
        refine ⟨he, ?_⟩
        have hch := (mem_edges.1 he).2
        rcases hto with (h1 | h1) | (h1 | h1)
        · right
          refine ⟨h1, ?_⟩
          rintro (h2 | h2)
          · rw [h1, h2] at hch; exact noloop hch
          · exact ht.2 h2
        · exact absurd h1 ht.1
        · left
          refine ⟨h1, ?_⟩
          rintro (h2 | h2)
          · rw [h1, h2] at hch; exact noloop hch
          · exact ht.1 h2
        · exact absurd h1 ht.2

/-- a property of states that entering keeps is kept by a recursing loop -/
theorem visitAll_keeps (P : St → Prop) (Q : Nat → Prop) (rec : Nat → St → St)
    (hrec : ∀ m st, Q m → m ∉ st.vis → P st → P (rec m st)) :
    ∀ ms st, (∀ m ∈ ms, Q m) → P st → P (visitAll rec ms st) := by
  intro ms
  induction ms with
  | nil => intro st _ h; exact h
  | cons m ms ih =>
    intro st hms h
    simp only [visitAll]
    apply ih _ (fun x hx => hms x (by simp [hx]))
    split
    · exact h
    · rename_i hm; exact hrec m st (hms m (by simp)) hm h

theorem visit_inv {g : Dag} (wf : g.DWF) : ∀ f v st, v ∈ g.nodes → v ∉ st.vis →
    Inv g st → Inv g (visit g f v st) := by
  intro f
  induction f with
  | zero => intro v st _ _ h; exact h
  | succ f ih =>
    intro v st hv hnv h
    simp only [visit]
    apply visitAll_keeps (Inv g) (· ∈ g.nodes) (visit g f) ih _ _ (fun c hc => (wf.chi_closed _ hv _ hc).1)
    apply visitAll_keeps (Inv g) (· ∈ g.nodes) (visit g f) ih _ _ (fun p hp => (wf.par_closed _ hv _ hp).1)
    exact inv_enter wf hv hnv h

/-- only nodes weakly connected to the start node are ever visited -/
theorem visit_sound {g : Dag} (v0 : Nat) : ∀ f v st, g.UReach v0 v →
    (∀ x ∈ st.vis, g.UReach v0 x) → ∀ x ∈ (visit g f v st).vis, g.UReach v0 x := by
  intro f
  induction f with
  | zero => intro v st _ h; exact h
  | succ f ih =>
    intro v st hv h
    simp only [visit]
    apply visitAll_keeps (fun st => ∀ x ∈ st.vis, g.UReach v0 x) (g.UReach v0) (visit g f)
      (fun m st hm _ hst => ih m st hm hst) _ _ (fun c hc => .step hv (Or.inr hc))
    apply visitAll_keeps (fun st => ∀ x ∈ st.vis, g.UReach v0 x) (g.UReach v0) (visit g f)
      (fun m st hm _ hst => ih m st hm hst) _ _ (fun p hp => .step hv (Or.inl hp))
    intro x hx
    rcases mem_cons.1 hx with rfl | hx
    · exact hv
    · exact h x hx

/-! ### growth, neighbour-closure, fuel -/

/-- number of nodes not yet visited -/
def unv (g : Dag) (vis : List Nat) : Nat := g.nodes.countP fun x => decide (x ∉ vis)

theorem unv_mono {g : Dag} {vis vis' : List Nat} (h : ∀ x ∈ vis, x ∈ vis') :
    g.unv vis' ≤ g.unv vis := by
  unfold unv
  apply countP_mono_left
  intro x _ hx
  simp only [decide_eq_true_eq] at hx ⊢
  exact fun hc => hx (h x hc)

theorem unv_enter {g : Dag} {v : Nat} (hv : v ∈ g.nodes) {vis : List Nat} (hnv : v ∉ vis) :
    g.unv (v :: vis) + 1 ≤ g.unv vis := by
  unfold unv
  generalize g.nodes = l at hv
  induction l with
  | nil => cases hv
  | cons a l ih =>
    rw [countP_cons, countP_cons]
    by_cases ha : a = v
    · subst ha
      have hle : countP (fun x => decide (x ∉ a :: vis)) l ≤ countP (fun x => decide (x ∉ vis)) l := by
        apply countP_mono_left
        intro x _ hx
        simp only [decide_eq_true_eq] at hx ⊢
        exact fun hc => hx (mem_cons_of_mem _ hc)
      have h1 : decide (a ∉ a :: vis) = false := by simp
      have h2 : decide (a ∉ vis) = true := by simpa using hnv
      rw [h1, h2]; simp only [Bool.false_eq_true, ↓reduceIte]; omega
    · have hv' : v ∈ l := by
        rcases mem_cons.1 hv with h | h
        · exact absurd h.symm ha
        · exact h
      have := ih hv'
      have h1 : decide (a ∉ v :: vis) = decide (a ∉ vis) := by simp [ha]
      rw [h1]; omega

/-- `st'` extends `st`: visited grows; nodes entered in between are neighbour-closed in `st'` -/
def Ext (g : Dag) (st st' : St) : Prop :=
  (∀ x ∈ st.vis, x ∈ st'.vis) ∧
  ∀ x ∈ st'.vis, x ∉ st.vis → ∀ y, (y ∈ g.parents x ∨ y ∈ g.children x) → y ∈ st'.vis

theorem Ext.refl (g : Dag) (st : St) : Ext g st st :=
  ⟨fun _ h => h, fun _ hx hnx => absurd hx hnx⟩

theorem Ext.trans {g : Dag} {a b c : St} (h₁ : Ext g a b) (h₂ : Ext g b c) : Ext g a c := by
  refine ⟨fun x hx => h₂.1 x (h₁.1 x hx), ?_⟩
  intro x hx hnx y hy
  by_cases hb : x ∈ b.vis
  · exact h₂.1 y (h₁.2 x hb hnx y hy)
  · exact h₂.2 x hx hb y hy

/-- what a call with enough fuel guarantees -/
def Post (g : Dag) (st st' : St) : Prop :=
  Ext g st st' ∧ ∀ x ∈ st'.vis, x ∈ g.nodes

theorem visitAll_post {g : Dag} (f : Nat) (rec : Nat → St → St)
    (hrec : ∀ m st, m ∈ g.nodes → m ∉ st.vis → (∀ x ∈ st.vis, x ∈ g.nodes) → g.unv st.vis ≤ f →
      Post g st (rec m st) ∧ m ∈ (rec m st).vis) :
    ∀ ms st, (∀ m ∈ ms, m ∈ g.nodes) → (∀ x ∈ st.vis, x ∈ g.nodes) → g.unv st.vis ≤ f →
      Post g st (visitAll rec ms st) ∧ ∀ m ∈ ms, m ∈ (visitAll rec ms st).vis := by
  intro ms
  induction ms with
  | nil => intro st _ hsub _; exact ⟨⟨Ext.refl g st, hsub⟩, by simp⟩
  | cons m ms ih =>
    intro st hms hsub hf
    simp only [visitAll]
    have hmn := hms m (by simp)
    -- the state after dealing with `m`
    have h1 : Post g st (if m ∈ st.vis then st else rec m st) ∧
        m ∈ (if m ∈ st.vis then st else rec m st).vis := by
      split
      · rename_i hm; exact ⟨⟨Ext.refl g st, hsub⟩, hm⟩
      · rename_i hm; exact hrec m st hmn hm hsub hf
    generalize (if m ∈ st.vis then st else rec m st) = st1 at h1 ⊢
    obtain ⟨⟨hext1, hsub1⟩, hm1⟩ := h1
    have hf1 : g.unv st1.vis ≤ f := Nat.le_trans (unv_mono hext1.1) hf
    obtain ⟨⟨hext2, hsub2⟩, hms2⟩ := ih st1 (fun x hx => hms x (by simp [hx])) hsub1 hf1
    refine ⟨⟨hext1.trans hext2, hsub2⟩, ?_⟩
    intro x hx
    rcases mem_cons.1 hx with rfl | hx
    · exact hext2.1 _ hm1
    · exact hms2 x hx

theorem visit_post {g : Dag} (wf : g.DWF) : ∀ f v st, v ∈ g.nodes → v ∉ st.vis →
    (∀ x ∈ st.vis, x ∈ g.nodes) → g.unv st.vis ≤ f →
    Post g st (visit g f v st) ∧ v ∈ (visit g f v st).vis := by
  intro f
  induction f with
  | zero =>
    intro v st hv hnv _ hf
    have := unv_enter hv hnv
    omega
  | succ f ih =>
    intro v st hv hnv hsub hf
    simp only [visit]
    have hf0 : g.unv (v :: st.vis) ≤ f := by have := unv_enter hv hnv; omega
    have hsub0 : ∀ x ∈ v :: st.vis, x ∈ g.nodes := by
      intro x hx
      rcases mem_cons.1 hx with rfl | hx
      · exact hv
      · exact hsub x hx
    generalize hst0 : ({ vis := v :: st.vis, out := st.out ++ g.emit v (v :: st.vis) } : St) = st0
    have hvis0 : st0.vis = v :: st.vis := by rw [← hst0]
    rw [← hvis0] at hf0 hsub0
    obtain ⟨⟨hext1, hsub1⟩, hps⟩ := visitAll_post f (visit g f) ih (g.parents v) st0
      (fun p hp => (wf.par_closed _ hv _ hp).1) hsub0 hf0
    generalize visitAll (visit g f) (g.parents v) st0 = st1 at hext1 hsub1 hps ⊢
    have hf1 : g.unv st1.vis ≤ f := Nat.le_trans (unv_mono hext1.1) hf0
    obtain ⟨⟨hext2, hsub2⟩, hcs⟩ := visitAll_post f (visit g f) ih (g.children v) st1
      (fun c hc => (wf.chi_closed _ hv _ hc).1) hsub1 hf1
    generalize visitAll (visit g f) (g.children v) st1 = st2 at hext2 hsub2 hcs ⊢
    have hext02 := hext1.trans hext2
    have hv2 : v ∈ st2.vis := hext02.1 v (by rw [hvis0]; simp)
    refine ⟨⟨⟨?_, ?_⟩, hsub2⟩, hv2⟩
    · intro x hx; exact hext02.1 x (by rw [hvis0]; simp [hx])
    · intro x hx hnx y hy
      by_cases hxv : x = v
      · subst hxv
        rcases hy with hy | hy
        · exact hext2.1 y (hps y hy)
        · exact hcs y hy
      · exact hext02.2 x hx (by rw [hvis0]; simp [hxv, hnx]) y hy

/-! ### more fuel changes nothing -/

theorem visitAll_congr {g : Dag} (f : Nat) (rec rec' : Nat → St → St)
    (heq : ∀ m st, m ∈ g.nodes → m ∉ st.vis → (∀ x ∈ st.vis, x ∈ g.nodes) → g.unv st.vis ≤ f →
      rec' m st = rec m st)
    (hrec : ∀ m st, m ∈ g.nodes → m ∉ st.vis → (∀ x ∈ st.vis, x ∈ g.nodes) → g.unv st.vis ≤ f →
      Post g st (rec m st) ∧ m ∈ (rec m st).vis) :
    ∀ ms st, (∀ m ∈ ms, m ∈ g.nodes) → (∀ x ∈ st.vis, x ∈ g.nodes) → g.unv st.vis ≤ f →
      visitAll rec' ms st = visitAll rec ms st := by
  intro ms
  induction ms with
  | nil => intro st _ _ _; rfl
  | cons m ms ih =>
    intro st hms hsub hf
    simp only [visitAll]
    have hmn := hms m (by simp)
    by_cases hm : m ∈ st.vis
    · simp only [hm, if_true]
      exact ih st (fun x hx => hms x (by simp [hx])) hsub hf
    · simp only [hm, if_false]
      rw [heq m st hmn hm hsub hf]
      obtain ⟨⟨hext, hsub1⟩, _⟩ := hrec m st hmn hm hsub hf
      exact ih _ (fun x hx => hms x (by simp [hx])) hsub1 (Nat.le_trans (unv_mono hext.1) hf)

theorem visit_fuel {g : Dag} (wf : g.DWF) : ∀ f v st, v ∈ g.nodes → v ∉ st.vis →
    (∀ x ∈ st.vis, x ∈ g.nodes) → g.unv st.vis ≤ f → ∀ f', f ≤ f' →
    visit g f' v st = visit g f v st := by
  intro f
  induction f with
  | zero =>
    intro v st hv hnv _ hf
    have := unv_enter hv hnv
    omega
  | succ f ih =>
    intro v st hv hnv hsub hf f' hle
    obtain ⟨f'', rfl⟩ : ∃ f'', f' = f'' + 1 := ⟨f' - 1, by omega⟩
    simp only [visit]
    have hf0 : g.unv (v :: st.vis) ≤ f := by have := unv_enter hv hnv; omega
    have hsub0 : ∀ x ∈ v :: st.vis, x ∈ g.nodes := by
      intro x hx
      rcases mem_cons.1 hx with rfl | hx
      · exact hv
      · exact hsub x hx
    generalize hst0 : ({ vis := v :: st.vis, out := st.out ++ g.emit v (v :: st.vis) } : St) = st0
    have hvis0 : st0.vis = v :: st.vis := by rw [← hst0]
    rw [← hvis0] at hf0 hsub0
    have hcongr := visitAll_congr f (visit g f) (visit g f'')
      (fun m st hm hnm hs hu => ih m st hm hnm hs hu f'' (by omega)) (visit_post wf f)
    have hpar : ∀ p ∈ g.parents v, p ∈ g.nodes := fun p hp => (wf.par_closed _ hv _ hp).1
    have hchi : ∀ c ∈ g.children v, c ∈ g.nodes := fun c hc => (wf.chi_closed _ hv _ hc).1
    rw [hcongr (g.parents v) st0 hpar hsub0 hf0]
    obtain ⟨⟨hext1, hsub1⟩, _⟩ := visitAll_post f (visit g f) (visit_post wf f) (g.parents v) st0
      hpar hsub0 hf0
    exact hcongr (g.children v) _ hchi hsub1 (Nat.le_trans (unv_mono hext1.1) hf0)

/-! ### the result of a whole run -/

theorem unv_nil_le (g : Dag) : g.unv [] ≤ g.fuel := by
  unfold unv fuel
  have := countP_le_length (p := fun x => decide (x ∉ ([] : List Nat))) (l := g.nodes)
  omega

theorem dagRun_inv {g : Dag} (wf : g.DWF) {v : Nat} (hv : v ∈ g.nodes) : Inv g (g.dagRun v) :=
  visit_inv wf _ v _ hv (by simp) (inv_init g)

theorem dagRun_post {g : Dag} (wf : g.DWF) {v : Nat} (hv : v ∈ g.nodes) :
    Post g ⟨[], []⟩ (g.dagRun v) ∧ v ∈ (g.dagRun v).vis :=
  visit_post wf _ v _ hv (by simp) (by simp) (unv_nil_le g)

/-- everything weakly connected to the start node is visited -/
theorem dagRun_vis_of_ureach {g : Dag} (wf : g.DWF) {v : Nat} (hv : v ∈ g.nodes) {u : Nat}
    (h : g.UReach v u) : u ∈ (g.dagRun v).vis := by
  obtain ⟨⟨hext, _⟩, hv'⟩ := dagRun_post wf hv
  induction h with
  | refl => exact hv'
  | step _ hy ih => exact hext.2 _ ih (by simp) _ hy

theorem dagRun_vis_iff {g : Dag} (wf : g.DWF) {v : Nat} (hv : v ∈ g.nodes) {u : Nat} :
    u ∈ (g.dagRun v).vis ↔ g.UReach v u :=
  ⟨fun h => visit_sound v _ v _ (.refl v) (by simp) u h, dagRun_vis_of_ureach wf hv⟩

/-- the yielded pairs are exactly the edges of the weakly connected component of the start -/
theorem mem_dagIter {g : Dag} (wf : g.DWF) {v : Nat} (hv : v ∈ g.nodes) {e : Edge} :
    e ∈ g.dagIter v ↔ e ∈ g.edges ∧ g.UReach v e.1 := by
  obtain ⟨_, _, hmem⟩ := dagRun_inv wf hv
  unfold dagIter
  rw [hmem]
  constructor
  · rintro ⟨he, h1 | h2⟩
    · exact ⟨he, (dagRun_vis_iff wf hv).1 h1⟩
    · have := (mem_edges.1 he)
      exact ⟨he, .step ((dagRun_vis_iff wf hv).1 h2) (Or.inl (wf.chi_closed _ this.1 _ this.2).2)⟩
  · rintro ⟨he, hr⟩
    exact ⟨he, Or.inl ((dagRun_vis_iff wf hv).2 hr)⟩

theorem nodup_dagIter {g : Dag} (wf : g.DWF) {v : Nat} (hv : v ∈ g.nodes) : (g.dagIter v).Nodup :=
  (dagRun_inv wf hv).1

end Dag
