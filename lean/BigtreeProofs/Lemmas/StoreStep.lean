import BigtreeProofs.Lemmas.StoreRollback
/-!
# Case analysis of the setters: a call either is rejected and leaves the store alone (C02) or is
accepted and yields the closed form of its body (C01 effects)
-/

namespace Store

/-- C02, parent setter: any rejection (type, loop, duplicate name, hook before, hook after) leaves a
well-formed store exactly as it was -/
theorem setParent_rej_id {s : Store} (hw : WF s) (c : Cfg) (v : Nat) (np : Option Nat) (f : Fault)
    (h : (setParent c s v np f).2 = .rej) : (setParent c s v np f).1 = s := by
  unfold setParent at h ⊢
  split
  · rfl
  · split
    · rfl
    · split
      · rfl
      · split
        · rename_i hpost
          show parentRollback (parentBody s v np).1 v np (s.parent v) (parentBody s v np).2 = s
          exact parentRollback_id hw v np
        · rename_i h1 h2 h3 h4
          rw [if_neg h1, if_neg h2, if_neg h3] at h
          simp [h4] at h

theorem setParent_ok_eq {s : Store} (c : Cfg) (v : Nat) (np : Option Nat) (f : Fault)
    (h : (setParent c s v np f).2 = .ok) :
    (setParent c s v np f).1 = reparent s v np ∧ f = .none ∧
      (c.assertions = true → checkParentType s np = true ∧ checkParentLoop s v np = true) ∧
      (c.node = true → dupParent s v np = false) := by
  unfold setParent at h ⊢
  split at h
  · simp at h
  · rename_i h1
    rw [if_neg h1]
    split at h
    · simp at h
    · rename_i h2
      rw [if_neg h2]
      split at h
      · simp at h
      · rename_i h3
        rw [if_neg h3]
        split at h
        · simp at h
        · rename_i h4
          rw [if_neg h4]
          refine ⟨parentBody_eq s v np, ?_, ?_, ?_⟩
          · cases f <;> simp_all
          · intro ha; simpa [ha] using h1
          · intro hn; simpa [hn] using h3

theorem wf_setParent {s : Store} (hw : WF s) (c : Cfg) (hc : c.assertions = true) (v : Nat) (hv : v < s.n)
    (np : Option Nat) (f : Fault) : WF (setParent c s v np f).1 := by
  cases ho : (setParent c s v np f).2 with
  | rej => rw [setParent_rej_id hw c v np f ho]; exact hw
  | ok =>
    obtain ⟨he, _, hg, _⟩ := setParent_ok_eq c v np f ho
    rw [he]
    apply wf_reparent hw v np hv
    intro p hp
    subst hp
    have := hg hc
    exact ⟨by simpa [checkParentType] using this.1, (checkParentLoop_iff hw v p).1 this.2⟩

/-- C02, children setter: any rejection leaves a well-formed store exactly as it was
(with the checks off: for arguments the checks accept) -/
theorem setChildren_rej_id {s : Store} (hw : WF s) (c : Cfg) (v : Nat) (cs : List Nat) (f : Fault)
    (hc : c.assertions = false → checkChildrenLoop s v cs [] = true)
    (h : (setChildren c s v cs f).2 = .rej) : (setChildren c s v cs f).1 = s := by
  unfold setChildren at h ⊢
  split
  · rfl
  · rename_i h1
    split
    · rfl
    · split
      · rfl
      · split
        · have hchk : checkChildrenLoop s v cs [] = true := by
            cases ha : c.assertions with
            | false => exact hc ha
            | true => simpa [ha] using h1
          have hn := ((checkChildrenLoop_iff hw v cs).1 hchk).1
          show childrenRollback (childrenBody s v cs) v _ _ _ = s
          rw [childrenBody_eq hw v cs hn]
          exact childrenRollback_id hw v cs hn
        · rename_i h2 h3 h4
          rw [if_neg h1, if_neg h2, if_neg h3] at h
          simp [h4] at h

theorem setChildren_ok_eq {s : Store} (hw : WF s) (c : Cfg) (v : Nat) (cs : List Nat) (f : Fault)
    (hc : c.assertions = false → checkChildrenLoop s v cs [] = true)
    (h : (setChildren c s v cs f).2 = .ok) :
    (setChildren c s v cs f).1 = adopted s v cs ∧ f = .none ∧ checkChildrenLoop s v cs [] = true ∧
      (c.node = true → dupNames s cs = false) := by
  unfold setChildren at h ⊢
  split at h
  · simp at h
  · rename_i h1
    rw [if_neg h1]
    have hchk : checkChildrenLoop s v cs [] = true := by
      cases ha : c.assertions with
      | false => exact hc ha
      | true => simpa [ha] using h1
    split at h
    · simp at h
    · rename_i h2
      rw [if_neg h2]
      split at h
      · simp at h
      · rename_i h3
        rw [if_neg h3]
        split at h
        · simp at h
        · rename_i h4
          rw [if_neg h4]
          refine ⟨childrenBody_eq hw v cs ((checkChildrenLoop_iff hw v cs).1 hchk).1, ?_, hchk, ?_⟩
          · cases f <;> simp_all
          · intro hn; simpa [hn] using h3

theorem wf_setChildren {s : Store} (hw : WF s) (c : Cfg) (hc : c.assertions = true) (v : Nat) (hv : v < s.n)
    (cs : List Nat) (f : Fault) : WF (setChildren c s v cs f).1 := by
  have hc' : c.assertions = false → checkChildrenLoop s v cs [] = true := by simp [hc]
  cases ho : (setChildren c s v cs f).2 with
  | rej => rw [setChildren_rej_id hw c v cs f hc' ho]; exact hw
  | ok =>
    obtain ⟨he, _, hg, _⟩ := setChildren_ok_eq hw c v cs f hc' ho
    rw [he]
    have := (checkChildrenLoop_iff hw v cs).1 hg
    exact wf_adopted hw v cs hv this.1 this.2

theorem wf_assignParentOf {s : Store} (hw : WF s) (c : Cfg) (hc : c.assertions = true) (ch p : Nat) (f : Fault) :
    WF (assignParentOf c s ch p f).1 := by
  unfold assignParentOf
  split
  · rename_i h; exact wf_setParent hw c hc ch h (some p) f
  · exact hw

theorem wf_extend {c : Cfg} (hc : c.assertions = true) (p : Nat) : ∀ (cs : List Nat) (s : Store) (f : Fault) (k : Nat),
    WF s → WF (extend c s p cs f k).1 := by
  intro cs
  induction cs with
  | nil => intro s f k hw; exact hw
  | cons x xs ih =>
    intro s f k hw
    unfold extend
    have h1 := wf_assignParentOf hw c hc x p (if k = 0 then f else .none)
    cases ho : (assignParentOf c s x p (if k = 0 then f else .none)).2 with
    | rej => simp only [ho]; exact h1
    | ok => simp only [ho]; exact ih _ _ _ h1

theorem wf_delItem {s : Store} (hw : WF s) (c : Cfg) (hc : c.assertions = true) (p : Nat) (nm : Str) (f : Fault) :
    WF (delItem c s p nm f).1 := by
  unfold delItem
  cases h : findChildByName s p nm with
  | none => exact hw
  | some r =>
    cases r with
    | none => exact hw
    | some ch =>
      have hmem : ch ∈ s.children p := by
        unfold findChildByName at h
        split at h
        · simp at h
        · rename_i c' heq
          simp at h; subst h
          have : c' ∈ (s.children p).filter fun c => s.name c == nm := by rw [heq]; simp
          exact (List.mem_filter.1 this).1
        · simp at h
      exact wf_setParent hw c hc ch (hw.range ch p (hw.down p ch hmem)).1 none f

/-- C01: every call of the structural API, with any arguments and any hook fault, keeps the forest -/
theorem wf_step {s : Store} (hw : WF s) (c : Cfg) (hc : c.assertions = true) (op : Op) :
    WF (step c s op).1 := by
  cases op with
  | setParent v np f => simp only [step]; split; exact wf_setParent hw c hc v ‹_› np f; exact hw
  | setChildren v cs f => simp only [step]; split; exact wf_setChildren hw c hc v ‹_› cs f; exact hw
  | setChildrenNonList v f => exact hw
  | delChildren v =>
    simp only [step]; split
    · rw [delChildren_eq hw]; exact wf_detached hw v
    · exact hw
  | append p ch f => simp only [step]; split; exact wf_assignParentOf hw c hc ch p f; exact hw
  | extend p cs f k => simp only [step]; split; exact wf_extend hc p cs s f k hw; exact hw
  | rshift p ch f => simp only [step]; split; exact wf_assignParentOf hw c hc ch p f; exact hw
  | lshift ch p f => simp only [step]; split; exact wf_setParent hw c hc ch ‹_› p f; exact hw
  | delItem p nm f => simp only [step]; split; exact wf_delItem hw c hc p nm f; exact hw
  | sort v ranks rev => simp only [step]; split; exact wf_sortChildren hw v ranks rev; exact hw
  | setSep v x => simp only [step]; split; exact wf_setSep hw v x; exact hw

theorem wf_run {s : Store} (hw : WF s) (c : Cfg) (hc : c.assertions = true) (ops : List Op) :
    WF (run c s ops) := by
  unfold run
  induction ops generalizing s with
  | nil => exact hw
  | cons op ops ih => exact ih (wf_step hw c hc op)

end Store
