import Mathlib.Data.List.Nodup
import BigtreeModel.Paths
import BigtreeProofs.Lemmas.PathsAddr
import BigtreeProofs.Lemmas.PathsSet
import BigtreeProofs.Lemmas.PathsInsert
import BigtreeProofs.Lemmas.PathsLoop
import BigtreeProofs.Lemmas.PathsNoDup
/-!
# New nodes of one `add_path_to_tree` call: where they are, what they carry, in which order (C05)

Converse frame ("every node of the result is an old node or one of the new ones"), attributes of
the new nodes, and the children-order invariant used for "children ordered by first appearance".
-/

namespace Paths
open Str

/-- child names of the node at `b` (`none` on an invalid address) -/
def kidNames (b : Addr) (t : Tree) : Option (List Str) := (nodeAt b t).map fun n => n.children.map Tree.name

/-! ## converse frame for an appended leaf -/

theorem nodeAt_leaf (new : Tree) (h : new.children = []) (b : Addr) (n : Tree) (hn : nodeAt b new = some n) :
    b = [] ∧ n = new := by
  cases b with
  | nil => simp at hn; exact ⟨rfl, hn.symm⟩
  | cons k ks => rw [nodeAt_cons, h] at hn; simp at hn

/-- after appending the leaf `new` below `a`: a node of the result is an old node — with the
    same child names, plus `new` last if it is the node at `a` — or it is `new` itself -/
theorem nodeAt_appendChild_inv (new : Tree) (hnew : new.children = []) (a : Addr) :
    ∀ (b : Addr) (t p n' : Tree), nodeAt a t = some p →
      nodeAt b (modifyAt (appendChild new) a t) = some n' →
      (∃ n, nodeAt b t = some n ∧ n'.attrs = n.attrs ∧
        n'.children.map Tree.name = n.children.map Tree.name ++ (if b = a then [new.name] else [])) ∨
      (nodeAt b t = none ∧ b = a ++ [p.children.length] ∧ n' = new) := by
  induction a with
  | nil =>
    intro b t p n' hp hn'
    simp at hp; subst hp
    rw [modifyAt_nil] at hn'
    cases b with
    | nil =>
      simp at hn'; subst hn'
      exact .inl ⟨t, rfl, by simp, by simp⟩
    | cons k ks =>
      rw [nodeAt_cons, appendChild_children] at hn'
      by_cases hk : k < t.children.length
      · rw [List.getElem?_append_left hk] at hn'
        refine .inl ⟨n', by rw [nodeAt_cons]; exact hn', rfl, by simp⟩
      · by_cases hk' : k = t.children.length
        · subst hk'
          rw [List.getElem?_append_right (Nat.le_refl _)] at hn'
          simp at hn'
          obtain ⟨rfl, rfl⟩ := nodeAt_leaf new hnew ks n' hn'
          refine .inr ⟨?_, rfl, rfl⟩
          rw [nodeAt_cons, List.getElem?_eq_none (Nat.le_refl _)]; rfl
        · rw [List.getElem?_eq_none (by simp; omega)] at hn'
          cases hn'
  | cons j js ih =>
    intro b t p n' hp hn'
    rw [nodeAt_cons] at hp
    cases hj : t.children[j]? with
    | none => rw [hj] at hp; cases hp
    | some d =>
      rw [hj] at hp
      simp only [Option.bind] at hp
      cases b with
      | nil =>
        simp at hn'; subst hn'
        refine .inl ⟨t, rfl, by simp, ?_⟩
        simp only [modifyAt_cons_children, List.nil_eq, reduceCtorEq, if_false, List.append_nil]
        exact map_name_modify _ _ _ (modifyAt_name _ (fun t => appendChild_name _ t) js)
      | cons k ks =>
        rw [nodeAt_cons, modifyAt_cons_children] at hn'
        by_cases hjk : j = k
        · subst hjk
          rw [List.getElem?_modify_eq, hj] at hn'
          simp only [Option.bind] at hn'
          rcases ih ks d p n' hp hn' with ⟨n, h1, h2, h3⟩ | ⟨h1, h2, h3⟩
          · refine .inl ⟨n, by rw [nodeAt_cons, hj]; exact h1, h2, ?_⟩
            rw [h3]
            by_cases hks : ks = js
            · simp [hks]
            · simp [hks]
          · refine .inr ⟨by rw [nodeAt_cons, hj]; exact h1, by rw [h2]; rfl, h3⟩
        · rw [List.getElem?_modify_ne _ _ hjk] at hn'
          refine .inl ⟨n', by rw [nodeAt_cons]; exact hn', rfl, ?_⟩
          have : ¬ (k :: ks = j :: js) := by intro e; injection e with e _; exact hjk e.symm
          simp [this]

/-- converse frame for a modification that keeps name and children of the modified node -/
theorem nodeAt_modifyAt_same_inv (f : Tree → Tree) (hn : ∀ t, (f t).name = t.name)
    (hc : ∀ t, (f t).children = t.children) (a : Addr) :
    ∀ (b : Addr) (t n' : Tree), nodeAt b (modifyAt f a t) = some n' →
      ∃ n, nodeAt b t = some n ∧ n'.children.map Tree.name = n.children.map Tree.name ∧
        (b ≠ a → n'.attrs = n.attrs) ∧ (b = a → n' = f n) := by
  induction a with
  | nil =>
    intro b t n' h
    rw [modifyAt_nil] at h
    cases b with
    | nil => simp at h; subst h; exact ⟨t, rfl, by rw [hc], fun h => absurd rfl h, fun _ => rfl⟩
    | cons k ks =>
      rw [nodeAt_cons, hc] at h
      exact ⟨n', by rw [nodeAt_cons]; exact h, rfl, fun _ => rfl, fun e => by cases e⟩
  | cons j js ih =>
    intro b t n' h
    cases b with
    | nil =>
      simp at h; subst h
      refine ⟨t, rfl, ?_, fun _ => by simp, fun e => by cases e⟩
      rw [modifyAt_cons_children]
      exact map_name_modify _ _ _ (modifyAt_name _ hn js)
    | cons k ks =>
      rw [nodeAt_cons, modifyAt_cons_children] at h
      by_cases hjk : j = k
      · subst hjk
        rw [List.getElem?_modify_eq] at h
        cases hj : t.children[j]? with
        | none => rw [hj] at h; cases h
        | some d =>
          rw [hj] at h
          simp only [Option.bind] at h
          obtain ⟨n, h1, h2, h3, h4⟩ := ih ks d n' h
          refine ⟨n, by rw [nodeAt_cons, hj]; exact h1, h2, fun hne => h3 (fun e => hne (by rw [e])),
            fun e => h4 (by injection e)⟩
      · rw [List.getElem?_modify_ne _ _ hjk] at h
        refine ⟨n', by rw [nodeAt_cons]; exact h, rfl, fun _ => rfl, fun e => ?_⟩
        injection e with e _
        exact absurd e.symm hjk

end Paths

namespace Paths
open Str

theorem nodeAt_snoc' (a : Addr) (k : Nat) (t p : Tree) (h : nodeAt (a ++ [k]) t = some p) :
    ∃ p', nodeAt a t = some p' ∧ p'.children[k]? = some p := by
  rw [nodeAt_append] at h
  cases hp : nodeAt a t with
  | none => rw [hp] at h; cases h
  | some p' =>
    rw [hp] at h
    simp only [Option.bind, nodeAt_cons] at h
    cases hk : p'.children[k]? with
    | none => rw [hk] at h; cases h
    | some d => rw [hk] at h; simp at h; subst h; exact ⟨p', rfl, hk⟩

/-- no child of that name ⇒ the extended path is not a path of the tree -/
theorem not_mem_paths_of_no_child (t p : Tree) (paddr : Addr) (c : Str) (hs : SibUnique t)
    (hp : nodeAt paddr t = some p) (hc : c ∉ p.children.map Tree.name) :
    namesAlong paddr t ++ [c] ∉ paths t := by
  intro hm
  obtain ⟨b, n, hn, hnames⟩ := (mem_paths_addr t _).mp hm
  have hlen := namesAlong_length b t n hn
  have hlenp := namesAlong_length paddr t p hp
  rw [hnames] at hlen
  simp only [List.length_append, List.length_singleton] at hlen
  have hbne : b ≠ [] := by intro e; subst e; simp only [List.length_nil] at hlen; omega
  obtain ⟨b', k, rfl⟩ : ∃ b' k, b = b' ++ [k] :=
    ⟨b.dropLast, b.getLast hbne, (List.dropLast_append_getLast hbne).symm⟩
  obtain ⟨p', hp', hk⟩ := nodeAt_snoc' b' k t n hn
  rw [namesAlong_snoc _ _ _ _ _ hp' hk] at hnames
  have h1 : namesAlong b' t = namesAlong paddr t := List.append_inj_left' hnames rfl
  have h2 : n.name = c := by
    have := List.append_inj_right' hnames rfl
    simpa using this
  have hb : b' = paddr := namesAlong_inj b' paddr t p' p hs hp' hp h1
  subst hb
  rw [hp] at hp'; injection hp' with hp'; subst hp'
  exact hc (List.mem_map.mpr ⟨n, List.mem_of_getElem? hk, h2⟩)

/-- the paths of the children of `n`, given the path `nm` of `n` -/
def kidPaths (nm : List Str) (n : Tree) : List (List Str) := (n.children.map Tree.name).map fun x => nm ++ [x]

theorem prefixes_ne_nil {α} (l : List α) : ∀ r ∈ prefixes l, r ≠ [] := by
  induction l with
  | nil => intro r h; simp [prefixes] at h
  | cons a as ih =>
    intro r h
    simp only [prefixes, List.mem_cons, List.mem_map] at h
    rcases h with rfl | ⟨r', _, rfl⟩ <;> simp

theorem not_self_mem_extensions (pre rest : List Str) : pre ∉ extensions pre rest := by
  intro h
  simp only [extensions, List.mem_map] at h
  obtain ⟨r, hr, he⟩ := h
  have := prefixes_ne_nil rest r hr
  have : r = [] := by simpa using he
  contradiction

/-- the paths created by the loop, in creation order -/
def created (pre rest : List Str) (t : Tree) : List (List Str) :=
  (extensions pre rest).filter fun q => decide (q ∉ paths t)

/-- new nodes and children order of the loop (duplicates allowed) -/
theorem insertLoop_new (treeSep : Str) (attrs : Attrs) : ∀ (rest pre : List Str) (t : Tree) (paddr : Addr)
    (fresh : Nat) (p t' : Tree) (ad : Addr) (fr' : Nat),
    SibUnique t → nodeAt paddr t = some p → namesAlong paddr t = pre →
    insertLoop treeSep true attrs rest pre t paddr fresh = .ok (t', ad, fr') →
    (∀ b n', nodeAt b t' = some n' → nodeAt b t = none → n'.attrs = if b = ad then attrs else []) ∧
    (∀ L : List (List Str), (∀ b n, nodeAt b t = some n → (kidPaths (namesAlong b t) n).Sublist L) →
      ∀ b n', nodeAt b t' = some n' → (kidPaths (namesAlong b t') n').Sublist (L ++ created pre rest t)) := by
  intro rest
  induction rest with
  | nil =>
    intro pre t paddr fresh p t' ad fr' hs hp hn h
    simp only [insertLoop, Except.ok.injEq, Prod.mk.injEq] at h
    obtain ⟨rfl, rfl, rfl⟩ := h
    refine ⟨fun b n' h1 h2 => (by rw [h1] at h2; cases h2), fun L hL b n' hn' => ?_⟩
    simpa [created, extensions, prefixes] using hL b n' hn'
  | cons c rest ih =>
    intro pre t paddr fresh p t' ad fr' hs hp hn h
    have hfull := h
    unfold insertLoop at h
    simp only [lookup, if_true, hp] at h
    cases hci : childIdxs c 0 p.children with
    | nil =>
      rw [hci] at h
      simp only at h
      split at h
      · cases h
      · simp only [Option.map, Option.getD] at h
        generalize hnew : Tree.node fresh c (if rest.isEmpty = true then attrs else []) [] = new at h
        have hnewc : new.children = [] := by rw [← hnew]; rfl
        have hnewn : new.name = c := by rw [← hnew]; rfl
        have hcn : c ∉ p.children.map Tree.name := (childIdxs_nil_iff c p.children).mp hci
        have hs1 : SibUnique (modifyAt (appendChild new) paddr t) := by
          rw [← hnew]; exact sibUnique_appendChild _ _ _ paddr t p hs hp hcn
        have hp1 : nodeAt paddr (modifyAt (appendChild new) paddr t) = some (appendChild new p) := by
          rw [nodeAt_modifyAt_self, hp]; rfl
        have hk1 : (appendChild new p).children[p.children.length]? = some new := by simp
        have hp2 : nodeAt (paddr ++ [p.children.length]) (modifyAt (appendChild new) paddr t) = some new := by
          rw [nodeAt_append, hp1]; simp [nodeAt_cons]
        have hn2 : namesAlong (paddr ++ [p.children.length]) (modifyAt (appendChild new) paddr t)
            = pre ++ [c] := by
          rw [namesAlong_snoc _ _ _ _ _ hp1 hk1,
            namesAlong_modifyAt_grows (grows_appendChild new) paddr paddr t p hp, hn, hnewn]
        obtain ⟨i1, i2⟩ := ih _ _ _ _ _ _ _ _ hs1 hp2 hn2 h
        obtain ⟨_, ⟨nad, hnad⟩, d3, _, d5⟩ := insertLoop_dup treeSep attrs rest _ _ _ _ _ _ _ _ hs1 hp2 hn2 h
        have hnot : pre ++ [c] ∉ paths t := by
          rw [← hn]; exact not_mem_paths_of_no_child t p paddr c hs hp hcn
        -- the created list
        have hcr : created pre (c :: rest) t =
            (pre ++ [c]) :: created (pre ++ [c]) rest (modifyAt (appendChild new) paddr t) := by
          unfold created
          rw [extensions_cons, List.filter_cons_of_pos (by simpa using hnot)]
          congr 1
          apply List.filter_congr
          intro q hq
          have hq' : q ≠ pre ++ [c] := fun e => not_self_mem_extensions (pre ++ [c]) rest (e ▸ hq)
          have := mem_paths_appendChild fresh c (if rest.isEmpty = true then attrs else []) paddr t p q hp
          rw [hnew, hn] at this
          simp only [decide_eq_decide]
          rw [this]
          constructor
          · rintro h1 (h2 | h2)
            · exact h1 h2
            · exact hq' h2
          · intro h1 h2; exact h1 (.inl h2)
        constructor
        · -- attributes of the new nodes
          intro b n' hn' hnone
          cases hb1 : nodeAt b (modifyAt (appendChild new) paddr t) with
          | none => exact i1 b n' hn' hb1
          | some n1 =>
            rcases nodeAt_appendChild_inv new hnewc paddr b t p n1 hp hb1 with ⟨n, h1, _, _⟩ | ⟨_, h2, h3⟩
            · rw [h1] at hnone; cases hnone
            · subst h3
              obtain ⟨n'', e1, _, _, e4, _⟩ := d5 b n1 hb1
              rw [hn'] at e1; injection e1 with e1; subst e1
              rw [e4, ← hnew]
              simp only [Tree.attrs_node]
              cases rest with
              | nil =>
                simp only [insertLoop, Except.ok.injEq, Prod.mk.injEq] at h
                rw [h2, h.2.1]; simp
              | cons r rs =>
                have hne : b ≠ ad := by
                  intro e
                  have l1 := namesAlong_length ad t' nad hnad
                  rw [d3] at l1
                  have l2 := namesAlong_length b _ _ hb1
                  rw [h2, hn2] at l2
                  rw [← e, h2] at l1
                  simp only [List.length_append, List.length_cons, List.length_nil] at l1 l2
                  omega
                simp [hne]
        · -- children order
          intro L hL b n' hn'
          have hL1 : ∀ b n1, nodeAt b (modifyAt (appendChild new) paddr t) = some n1 →
              (kidPaths (namesAlong b (modifyAt (appendChild new) paddr t)) n1).Sublist (L ++ [pre ++ [c]]) := by
            intro b n1 hb1
            rcases nodeAt_appendChild_inv new hnewc paddr b t p n1 hp hb1 with ⟨n, h1, _, h3⟩ | ⟨_, _, h3⟩
            · rw [namesAlong_modifyAt_grows (grows_appendChild new) paddr b t n h1]
              unfold kidPaths
              rw [h3, List.map_append]
              apply List.Sublist.append (hL b n h1)
              by_cases hba : b = paddr
              · subst hba; simp [hn, hnewn]
              · simp [hba]
            · subst h3; simp [kidPaths, hnewc]
          have := i2 (L ++ [pre ++ [c]]) hL1 b n' hn'
          rw [hcr]
          simpa [List.append_assoc] using this
    | cons k ks =>
      rw [hci] at h
      cases ks with
      | cons k2 ks2 => simp at h
      | nil =>
        simp only at h
        obtain ⟨d, hd, hdn⟩ := childIdxs_single c p.children k hci
        have hp2 : nodeAt (paddr ++ [k]) t = some d := by
          rw [nodeAt_append, hp]; simp [nodeAt_cons, hd]
        have hn2 : namesAlong (paddr ++ [k]) t = pre ++ [c] := by
          rw [namesAlong_snoc _ _ _ _ _ hp hd, hn, hdn]
        obtain ⟨i1, i2⟩ := ih _ _ _ _ _ _ _ _ hs hp2 hn2 h
        have hin : pre ++ [c] ∈ paths t := (mem_paths_addr t _).mpr ⟨_, d, hp2, hn2⟩
        have hcr : created pre (c :: rest) t = created (pre ++ [c]) rest t := by
          unfold created
          rw [extensions_cons, List.filter_cons_of_neg (by simpa using hin)]
        refine ⟨i1, fun L hL b n' hn' => ?_⟩
        rw [hcr]
        exact i2 L hL b n' hn'

end Paths

namespace Paths
open Str

/-- attributes after one `add_path_to_tree` call (duplicates allowed): old nodes keep theirs, the
    addressed node is updated, new intermediate nodes carry none -/
theorem addComps_attrs (treeSep : Str) (t : Tree) (fresh : Nat) (branch : List Str) (attrs : Attrs)
    (t' : Tree) (ad : Addr) (fr' : Nat) (hs : SibUnique t)
    (h : addComps treeSep true t fresh branch attrs = .ok (t', ad, fr')) :
    ∀ b n', nodeAt b t' = some n' →
      (∃ n, nodeAt b t = some n ∧ n'.attrs = if b = ad then updateAttrs n.attrs attrs else n.attrs) ∨
      (nodeAt b t = none ∧ n'.attrs = if b = ad then updateAttrs attrs attrs else []) := by
  unfold addComps at h
  cases branch with
  | nil => cases h
  | cons b0 rest =>
    simp only at h
    split at h
    · cases h
    · rename_i hb0
      have hb0 : b0 = t.name := by simpa using hb0
      cases hl : insertLoop treeSep true attrs rest [b0] t [] fresh with
      | error e => rw [hl] at h; cases h
      | ok r =>
        obtain ⟨t1, ad1, fr1⟩ := r
        rw [hl] at h
        simp only [Except.ok.injEq, Prod.mk.injEq] at h
        obtain ⟨rfl, rfl, rfl⟩ := h
        obtain ⟨_, _, _, _, r5⟩ :=
          insertLoop_dup treeSep attrs rest [b0] t [] fresh t t1 ad1 fr1 hs rfl (by simp [hb0]) hl
        obtain ⟨i1, _⟩ :=
          insertLoop_new treeSep attrs rest [b0] t [] fresh t t1 ad1 fr1 hs rfl (by simp [hb0]) hl
        intro b n' hn'
        obtain ⟨n1, h1, _, h3, h4⟩ :=
          nodeAt_modifyAt_same_inv _ (setAttrs_name attrs) (setAttrs_children attrs) ad1 b t1 n' hn'
        cases hbt : nodeAt b t with
        | some n =>
          left
          obtain ⟨n1', e1, _, _, e4, _⟩ := r5 b n hbt
          rw [h1] at e1; injection e1 with e1; subst e1
          refine ⟨n, rfl, ?_⟩
          by_cases hba : b = ad1
          · rw [if_pos hba, h4 hba]; simp [e4]
          · rw [if_neg hba, h3 hba, e4]
        | none =>
          right
          refine ⟨rfl, ?_⟩
          have := i1 b n1 h1 hbt
          by_cases hba : b = ad1
          · rw [if_pos hba] at this ⊢; rw [h4 hba]; simp [this]
          · rw [if_neg hba] at this ⊢; rw [h3 hba, this]

/-- children order after one call: whatever list `L` the children paths of every node were a
    sublist of, they now are a sublist of `L` followed by the newly created paths in creation order -/
theorem addComps_order (treeSep : Str) (t : Tree) (fresh : Nat) (b0 : Str) (rest : List Str) (attrs : Attrs)
    (t' : Tree) (ad : Addr) (fr' : Nat) (hs : SibUnique t)
    (h : addComps treeSep true t fresh (b0 :: rest) attrs = .ok (t', ad, fr'))
    (L : List (List Str)) (hL : ∀ b n, nodeAt b t = some n → (kidPaths (namesAlong b t) n).Sublist L) :
    ∀ b n', nodeAt b t' = some n' → (kidPaths (namesAlong b t') n').Sublist (L ++ created [b0] rest t) := by
  unfold addComps at h
  simp only at h
  split at h
  · cases h
  · rename_i hb0
    have hb0 : b0 = t.name := by simpa using hb0
    cases hl : insertLoop treeSep true attrs rest [b0] t [] fresh with
    | error e => rw [hl] at h; cases h
    | ok r =>
      obtain ⟨t1, ad1, fr1⟩ := r
      rw [hl] at h
      simp only [Except.ok.injEq, Prod.mk.injEq] at h
      obtain ⟨rfl, rfl, rfl⟩ := h
      obtain ⟨_, i2⟩ :=
        insertLoop_new treeSep attrs rest [b0] t [] fresh t t1 ad1 fr1 hs rfl (by simp [hb0]) hl
      intro b n' hn'
      obtain ⟨n1, h1, h2, _, _⟩ :=
        nodeAt_modifyAt_same_inv _ (setAttrs_name attrs) (setAttrs_children attrs) ad1 b t1 n' hn'
      have := i2 L hL b n1 h1
      rw [namesAlong_modifyAt_grows (grows_setAttrs attrs) ad1 b t1 n1 h1]
      unfold kidPaths at this ⊢
      rw [h2]; exact this

end Paths

namespace Paths

theorem setKey_self (k : Str) (v : Val) : ∀ (a : Attrs), (a.map Prod.fst).Nodup → (k, v) ∈ a → setKey k v a = a := by
  intro a
  induction a with
  | nil => intro _ h; cases h
  | cons x xs ih =>
    intro hnd hm
    obtain ⟨k', v'⟩ := x
    simp only [List.map_cons, List.nodup_cons] at hnd
    unfold setKey
    by_cases hk : k' = k
    · subst hk
      simp only [if_true]
      rcases List.mem_cons.mp hm with e | e
      · injection e with _ e2; rw [e2]
      · exact absurd (List.mem_map.mpr ⟨(k', v), e, rfl⟩) hnd.1
    · simp only [hk, if_false]
      rcases List.mem_cons.mp hm with e | e
      · injection e with e1 _; exact absurd e1.symm hk
      · rw [ih hnd.2 e]

/-- a new node created with `attrs` and then `set_attrs(attrs)` carries exactly `attrs` -/
theorem updateAttrs_self (a : Attrs) (h : (a.map Prod.fst).Nodup) : updateAttrs a a = a := by
  unfold updateAttrs
  suffices hs : ∀ (l : Attrs), (∀ kv ∈ l, kv ∈ a) → l.foldl (fun acc kv => setKey kv.1 kv.2 acc) a = a from
    hs a (fun _ h => h)
  intro l
  induction l with
  | nil => intro _; rfl
  | cons x xs ih =>
    intro hl
    simp only [List.foldl_cons]
    rw [setKey_self x.1 x.2 a h (hl x (by simp))]
    exact ih (fun kv hkv => hl kv (List.mem_cons_of_mem _ hkv))

end Paths
