import BigtreeModel.DagBridge
import BigtreeProofs.Lemmas.DagStoreEdges
import BigtreeProofs.Lemmas.DagIter
import BigtreeProofs.Lemmas.DagGoTo
/-!
# DagBridge — the graph read off a store: vocabulary translation and well-formedness
-/

namespace DagStore
open List

/-! ## projections -/

@[simp] theorem toDag_nodes (s : DStore) (a : Nat → Attrs) : (toDag s a).nodes = List.range s.n := rfl
@[simp] theorem toDag_parents (s : DStore) (a : Nat → Attrs) : (toDag s a).parents = s.parents := rfl
@[simp] theorem toDag_children (s : DStore) (a : Nat → Attrs) : (toDag s a).children = s.children := rfl
@[simp] theorem toDag_attrs (s : DStore) (a : Nat → Attrs) : (toDag s a).attrs = a := rfl

theorem mem_toDag_nodes {s : DStore} {a : Nat → Attrs} {v : Nat} : v ∈ (toDag s a).nodes ↔ v < s.n := by
  simp

/-- the edge list of the graph is the edge list of the store, as lists -/
theorem edges_toDag (s : DStore) (a : Nat → Attrs) : (toDag s a).edges = edges s := rfl

/-! ## vocabulary -/

theorem reach_toDag {s : DStore} {a : Nat → Attrs} {x y : Nat} :
    (toDag s a).Reach x y ↔ Desc s x y := by
  constructor
  · intro h
    induction h with
    | edge h => exact .edge h
    | step h _ ih => exact .step h ih
  · intro h
    induction h with
    | edge h => exact .edge h
    | step h _ ih => exact .step h ih

theorem ureach_toDag {s : DStore} {a : Nat → Attrs} {x y : Nat} :
    (toDag s a).UReach x y ↔ Linked s x y := by
  constructor
  · intro h
    induction h with
    | refl => exact .refl _
    | step _ h ih => exact .step ih h
  · intro h
    induction h with
    | refl => exact .refl _
    | step _ h ih => exact .step ih h

theorem isPath_toDag {s : DStore} {a : Nat → Attrs} : ∀ {l : List Nat},
    (toDag s a).IsPath l ↔ Chain s l
  | [] => Iff.rfl
  | [_] => Iff.rfl
  | x :: y :: rest => by
    simp only [Dag.IsPath, Chain, toDag_children]
    rw [isPath_toDag (l := y :: rest)]

theorem pathFromTo_toDag {s : DStore} {a : Nat → Attrs} {u w : Nat} {l : List Nat} :
    (toDag s a).PathFromTo u w l ↔ ChainFromTo s u w l := by
  unfold Dag.PathFromTo ChainFromTo
  rw [isPath_toDag]

/-! ## `Desc` (down the `children` lists) and `Anc` (up the `parents` lists) -/

theorem Desc.snoc {s : DStore} {a b c : Nat} (h : Desc s a b) (hc : c ∈ s.children b) : Desc s a c := by
  induction h with
  | edge h => exact .step h (.edge hc)
  | step h _ ih => exact .step h (ih hc)

theorem Desc.trans {s : DStore} {a b c : Nat} (h1 : Desc s a b) (h2 : Desc s b c) : Desc s a c := by
  induction h1 with
  | edge h => exact .step h h2
  | step h _ ih => exact .step h (ih h2)

/-- on a symmetric store, walking down the `children` lists and walking up the `parents` lists
describe the same relation -/
theorem desc_iff_anc {s : DStore} (hs : DWF0 s) {a b : Nat} : Desc s a b ↔ Anc s a b := by
  constructor
  · intro h
    induction h with
    | edge h => exact .base ((hs.sym _ _).2 h)
    | step h _ ih => exact Anc.head ((hs.sym _ _).2 h) ih
  · intro h
    induction h with
    | base h => exact .edge ((hs.sym _ _).1 h)
    | step _ h ih => exact ih.snoc ((hs.sym _ _).1 h)

theorem Linked.trans {s : DStore} {a b c : Nat} (h1 : Linked s a b) (h2 : Linked s b c) : Linked s a c := by
  induction h2 with
  | refl => exact h1
  | step _ h ih => exact .step ih h

theorem Linked.symm {s : DStore} (hs : DWF0 s) {a b : Nat} (h : Linked s a b) : Linked s b a := by
  induction h with
  | refl => exact .refl _
  | step _ h ih =>
    rename_i b c _
    have hb : b ∈ s.parents c ∨ b ∈ s.children c := by
      rcases h with h | h
      · exact Or.inr ((hs.sym _ _).1 h)
      · exact Or.inl ((hs.sym _ _).2 h)
    exact (Linked.step (.refl c) hb).trans ih

theorem Desc.linked {s : DStore} {a b : Nat} (h : Desc s a b) : Linked s a b := by
  induction h with
  | edge h => exact .step (.refl _) (Or.inr h)
  | step h _ ih => exact (Linked.step (.refl _) (Or.inr h)).trans ih

/-! ## edges of the store -/

theorem mem_edges {s : DStore} {e : Nat × Nat} : e ∈ edges s ↔ e.1 < s.n ∧ e.2 ∈ s.children e.1 := by
  obtain ⟨p, c⟩ := e
  simp only [edges, mem_flatMap, mem_range, mem_map, Prod.mk.injEq]
  constructor
  · rintro ⟨q, hq, d, hd, rfl, rfl⟩; exact ⟨hq, hd⟩
  · rintro ⟨hq, hd⟩; exact ⟨p, hq, c, hd, rfl, rfl⟩

/-- on a well-formed store the edge list is the symmetric link relation, read either way -/
theorem mem_edges_iff {s : DStore} (hs : DWF0 s) {p c : Nat} :
    (p, c) ∈ edges s ↔ p ∈ s.parents c := by
  rw [mem_edges, hs.sym]
  exact ⟨fun h => h.2, fun h => ⟨(hs.rng p c ((hs.sym p c).2 h)).1, h⟩⟩

theorem mem_edgesUp {s : DStore} {e : Nat × Nat} : e ∈ edgesUp s ↔ e.2 < s.n ∧ e.1 ∈ s.parents e.2 := by
  obtain ⟨p, c⟩ := e
  simp only [edgesUp, mem_flatMap, mem_range, mem_map, Prod.mk.injEq]
  constructor
  · rintro ⟨q, hq, d, hd, rfl, rfl⟩; exact ⟨hq, hd⟩
  · rintro ⟨hq, hd⟩; exact ⟨c, hq, p, hd, rfl, rfl⟩

theorem mem_edgesUp_iff {s : DStore} (hs : DWF0 s) {p c : Nat} :
    (p, c) ∈ edgesUp s ↔ p ∈ s.parents c := by
  rw [mem_edgesUp]
  exact ⟨fun h => h.2, fun h => ⟨(hs.rng p c h).2, h⟩⟩

theorem nodup_flatMap_range {α : Type} (n : Nat) (f : Nat → List α) (h1 : ∀ i, (f i).Nodup)
    (h2 : ∀ i j x, x ∈ f i → x ∈ f j → i = j) : ((List.range n).flatMap f).Nodup :=
  Dag.nodup_flatMap_of List.nodup_range (fun i _ => h1 i)
    (fun i _ j _ hij x hx hy => hij (h2 i j x hx hy))

theorem nodup_edges {s : DStore} (hs : DWF0 s) : (edges s).Nodup := by
  refine nodup_flatMap_range _ _ (fun p => ?_) ?_
  · exact Dag.nodup_map_of_inj (fun a b h => by simpa using h) (hs.ndc p)
  · intro i j x hx hy
    simp only [mem_map] at hx hy
    obtain ⟨_, _, rfl⟩ := hx
    obtain ⟨_, _, h⟩ := hy
    exact (Prod.mk.inj h).1.symm

theorem nodup_edgesUp {s : DStore} (hs : DWF0 s) : (edgesUp s).Nodup := by
  refine nodup_flatMap_range _ _ (fun c => ?_) ?_
  · exact Dag.nodup_map_of_inj (fun a b h => by simpa using h) (hs.ndp c)
  · intro i j x hx hy
    simp only [mem_map] at hx hy
    obtain ⟨_, _, rfl⟩ := hx
    obtain ⟨_, _, h⟩ := hy
    exact (Prod.mk.inj h).2.symm

/-- the `children` lists and the `parents` lists hold the same edges, each exactly once -/
theorem edges_perm_edgesUp {s : DStore} (hs : DWF0 s) : (edges s).Perm (edgesUp s) := by
  rw [perm_ext_iff_of_nodup (nodup_edges hs) (nodup_edgesUp hs)]
  rintro ⟨p, c⟩
  rw [mem_edges_iff hs, mem_edgesUp_iff hs]

/-! ## well-formedness transfers -/

/-- the invariant of C10 on the store gives the hypothesis of C16/C17 on the graph -/
theorem toDag_wf {s : DStore} (hs : DWF s) (a : Nat → Attrs := fun _ => []) : Dag.DWF (toDag s a) where
  nodup_nodes := List.nodup_range
  par_closed v _ p hp := by
    have := hs.rng p v hp
    exact ⟨mem_toDag_nodes.2 this.1, (hs.sym p v).1 hp⟩
  chi_closed v _ c hc := by
    have hp := (hs.sym v c).2 hc
    exact ⟨mem_toDag_nodes.2 (hs.rng v c hp).2, hp⟩
  nodup_par v _ := hs.ndp v
  nodup_chi v _ := hs.ndc v
  acyclic x _ h := hs.acyc.irrefl x ((desc_iff_anc hs.toDWF0).1 (reach_toDag.1 h))

end DagStore
