import BigtreeModel.Query
import BigtreeProofs.Lemmas.QueryAddr
/-! Helper lemmas for C12/C09: subtrees at addresses, the located pre-order and its specification. -/

namespace Query

/-! ### sub -/

@[simp] theorem sub_nil (R : Tree) : sub R [] = some R := by
  cases R; rfl

theorem sub_cons (R : Tree) (k : Nat) (ks : Addr) :
    sub R (k :: ks) = (R.children[k]?).bind fun c => sub c ks := by
  cases R with
  | node i n a cs =>
    simp only [sub, Tree.children_node]
    cases cs[k]? <;> rfl

theorem sub_append (R : Tree) (a b : Addr) : sub R (a ++ b) = (sub R a).bind fun t => sub t b := by
  induction a generalizing R with
  | nil => simp
  | cons k ks ih =>
    simp only [List.cons_append, sub_cons]
    cases R.children[k]? with
    | none => rfl
    | some c => simp [ih]

theorem sub_snoc (R : Tree) (a : Addr) (k : Nat) :
    sub R (a ++ [k]) = (sub R a).bind fun t => t.children[k]? := by
  rw [sub_append]
  cases sub R a with
  | none => rfl
  | some t =>
    simp only [Option.bind_some, sub_cons]
    cases t.children[k]? <;> simp

theorem childrenOf_of_sub {R : Tree} {a : Addr} {t : Tree} (h : sub R a = some t) :
    childrenOf R a = (List.range t.children.length).map fun k => a ++ [k] := by
  simp [childrenOf, h]

theorem childrenOf_of_none {R : Tree} {a : Addr} (h : sub R a = none) : childrenOf R a = [] := by
  simp [childrenOf, h]

/-- a valid address stays valid when shortened -/
theorem sub_isSome_of_append {R : Tree} {a b : Addr} (h : (sub R (a ++ b)).isSome) : (sub R a).isSome := by
  rw [sub_append] at h
  cases hs : sub R a with
  | none => simp [hs] at h
  | some t => rfl

/-! ### locs -/

theorem locs_node (i : Nat) (n : Str) (at' : Attrs) (cs : List Tree) :
    locs (.node i n at' cs) = [] :: locsL 0 cs := by
  simp [locs]

theorem locsL_cons (k : Nat) (t : Tree) (ts : List Tree) :
    locsL k (t :: ts) = (locs t).map (k :: ·) ++ locsL (k + 1) ts := by
  simp [locsL]

theorem locsL_ne_nil (k : Nat) (ts : List Tree) : ∀ x ∈ locsL k ts, x ≠ [] := by
  induction ts generalizing k with
  | nil => simp [locsL]
  | cons t ts ih =>
    intro x hx
    rw [locsL_cons, List.mem_append] at hx
    rcases hx with hx | hx
    · rcases List.mem_map.1 hx with ⟨y, _, rfl⟩; simp
    · exact ih (k + 1) x hx

theorem nil_mem_locs (t : Tree) : [] ∈ locs t := by
  cases t; simp [locs_node]

theorem locs_eq_cons (t : Tree) : locs t = [] :: locsL 0 t.children := by
  cases t; simp [locs_node]

/-! ### the located pre-order is the filtered list of all locations -/

/-- the gate of `preorder_iter` seen as a predicate on addresses -/
def within (md : Nat) (b : Addr) : Bool := md == 0 || decide (b.length + 1 ≤ md)

theorem preAtL_eq_of (filt : Addr → Bool) (md : Nat) (a : Addr) (ts : List Tree)
    (ih : ∀ t ∈ ts, ∀ b : Addr, preAt filt md b t =
      ((locs t).map (b ++ ·)).filter fun x => within md x && filt x) :
    ∀ k, preAtL filt md a k ts =
      ((locsL k ts).map (a ++ ·)).filter fun x => within md x && filt x := by
  induction ts with
  | nil => intro k; simp [preAtL, locsL]
  | cons t ts iht =>
    intro k
    rw [preAtL, locsL_cons, List.map_append, List.filter_append,
      ih t (by simp) (a ++ [k]), iht (fun t ht => ih t (by simp [ht])) (k + 1)]
    congr 2
    rw [List.map_map]
    apply List.map_congr_left
    intro x _
    simp

theorem preAt_eq (filt : Addr → Bool) (md : Nat) : ∀ (t : Tree) (a : Addr),
    preAt filt md a t = ((locs t).map (a ++ ·)).filter fun x => within md x && filt x := by
  intro t
  induction t using Tree.ind with
  | h i n at' cs ih =>
    intro a
    rw [preAt, depth_eq_length, locs_node]
    by_cases hg : (md == 0 || !(decide (a.length + 1 > md))) = true
    · rw [if_pos hg, preAtL_eq_of filt md a cs ih 0]
      have hw : within md a = true := by
        simp only [within]
        simp only [Bool.or_eq_true, beq_iff_eq, Bool.not_eq_true', decide_eq_false_iff_not,
          decide_eq_true_eq] at hg ⊢
        omega
      simp only [List.map_cons, List.append_nil, List.filter_cons, hw, Bool.true_and]
      split <;> simp
    · rw [if_neg hg]
      symm
      rw [List.filter_eq_nil_iff]
      intro x hx
      rcases List.mem_map.1 hx with ⟨y, _, rfl⟩
      simp only [within]
      simp only [Bool.or_eq_true, beq_iff_eq, Bool.not_eq_true', decide_eq_false_iff_not,
        not_or, Decidable.not_not] at hg
      simp only [Bool.and_eq_true, Bool.or_eq_true, beq_iff_eq, decide_eq_true_eq, not_and,
        List.length_append]
      omega

theorem preorderFrom_eq (R : Tree) (filt : Addr → Bool) (md : Nat) (a : Addr) :
    preorderFrom R filt md a = (subtreeLocs R a).filter fun x => within md x && filt x := by
  unfold preorderFrom subtreeLocs
  cases sub R a with
  | none => rfl
  | some t => exact preAt_eq filt md t a

end Query
