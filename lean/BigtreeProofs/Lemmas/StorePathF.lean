import BigtreeProofs.Lemmas.StorePathE
/-!
# Paths on the pointer store, part F: separators of any length

`Node.sep` may be any non-empty string (`"::"`, `"->"`, …).  The single-character theorems of parts C–E
are generalised here to every non-empty separator `sp`, for names that are non-empty and share
**no character** with the separator (`Free sp x`).  That hypothesis is the exact domain on which
bigtree's string handling is sound: `lstrip`/`rstrip` strip the *character set* of `sp`, so a name
that merely starts or ends with one of its characters is already mis-parsed (known finding K7).
-/

namespace Store

/-- `x` shares no character with the separator -/
def Free (sp x : Str) : Prop := ∀ c ∈ x, c ∉ sp

theorem Free.tail {sp : Str} {c : Char} {cs : Str} (h : Free sp (c :: cs)) : Free sp cs :=
  fun x hx => h x (List.mem_cons_of_mem _ hx)

theorem free_singleton (d : Char) (x : Str) : Free [d] x ↔ d ∉ x := by
  constructor
  · intro h hd; exact h d hd (by simp)
  · intro h c hc hcd
    have : c = d := by simpa using hcd
    exact h (this ▸ hc)

/-! ## `split` after `join` -/

theorem isPrefixOf_free (sp : Str) (hsp : sp ≠ []) (c : Char) (cs : Str) (hc : c ∉ sp) :
    sp.isPrefixOf (c :: cs) = false := by
  cases sp with
  | nil => exact absurd rfl hsp
  | cons a as =>
    have : (a == c) = false := by
      have : a ≠ c := fun e => hc (e ▸ List.mem_cons_self)
      simp [this]
    simp [List.isPrefixOf, this]

theorem isPrefixOf_append_self (sp rest : Str) : sp.isPrefixOf (sp ++ rest) = true := by
  induction sp with
  | nil => simp [List.isPrefixOf]
  | cons a as ih => simp [ih]

/-- a piece free of separator characters is scanned into the accumulator -/
theorem splitAux_free_multi (sp : Str) (hsp : sp ≠ []) : ∀ (x rest acc : Str), Free sp x →
    splitAux sp 0 (x ++ rest) acc = splitAux sp 0 rest (x.reverse ++ acc) := by
  intro x
  induction x with
  | nil => intro rest acc _; rfl
  | cons c cs ih =>
    intro rest acc hf
    have hc : c ∉ sp := hf c List.mem_cons_self
    simp only [List.cons_append, splitAux, isPrefixOf_free sp hsp c (cs ++ rest) hc,
      Bool.false_eq_true, if_false]
    rw [ih rest (c :: acc) hf.tail]
    simp

/-- the skip counter swallows exactly that many characters -/
theorem splitAux_skip (sp : Str) : ∀ (pre rest acc : Str),
    splitAux sp pre.length (pre ++ rest) acc = splitAux sp 0 rest acc := by
  intro pre
  induction pre with
  | nil => intro rest acc; rfl
  | cons c cs ih =>
    intro rest acc
    simp only [List.length_cons, List.cons_append, splitAux]
    exact ih rest acc

/-- at an occurrence of the separator the current piece is emitted and the occurrence skipped -/
theorem splitAux_sep (sp : Str) (hsp : sp ≠ []) (rest acc : Str) :
    splitAux sp 0 (sp ++ rest) acc = acc.reverse :: splitAux sp 0 rest [] := by
  cases hs : sp with
  | nil => exact absurd hs hsp
  | cons a as =>
    have hp : (a :: as).isPrefixOf (a :: (as ++ rest)) = true := by
      have := isPrefixOf_append_self (a :: as) rest
      simp
    simp only [List.cons_append, splitAux, hp, if_true, List.length_cons, Nat.add_sub_cancel]
    rw [splitAux_skip]

/-- `sep.join(xs).split(sep) == xs` for every non-empty separator sharing no character with a piece -/
theorem split_join_multi (sp : Str) (hsp : sp ≠ []) : ∀ (xs : List Str), xs ≠ [] →
    (∀ x ∈ xs, Free sp x) → split sp (join sp xs) = xs := by
  intro xs
  induction xs with
  | nil => intro h; exact absurd rfl h
  | cons x rest ih =>
    intro _ hx
    have hx0 : Free sp x := hx x List.mem_cons_self
    cases rest with
    | nil =>
      simp only [join, split]
      have := splitAux_free_multi sp hsp x [] [] hx0
      simp only [List.append_nil] at this
      rw [this]; simp [splitAux]
    | cons y rest' =>
      simp only [join, split]
      have := splitAux_free_multi sp hsp x (sp ++ join sp (y :: rest')) [] hx0
      rw [List.append_assoc, this, splitAux_sep sp hsp]
      have ih' := ih (by simp) (fun z hz => hx z (List.mem_cons_of_mem _ hz))
      simp only [split] at ih'
      rw [ih']; simp

theorem join_injective_multi (sp : Str) (hsp : sp ≠ []) (xs ys : List Str) (hx : xs ≠ []) (hy : ys ≠ [])
    (hxd : ∀ x ∈ xs, Free sp x) (hyd : ∀ y ∈ ys, Free sp y) (h : join sp xs = join sp ys) : xs = ys := by
  rw [← split_join_multi sp hsp xs hx hxd, ← split_join_multi sp hsp ys hy hyd, h]

/-! ## stripping (character-set semantics) -/

/-- `lstrip` removes a prefix made of separator characters and stops at the first other character -/
theorem lstrip_prefix (sp : Str) : ∀ (pre : Str) (c : Char) (t : Str), (∀ x ∈ pre, x ∈ sp) → c ∉ sp →
    lstrip sp (pre ++ c :: t) = c :: t := by
  intro pre
  induction pre with
  | nil =>
    intro c t _ hc
    simp [lstrip, hc]
  | cons a as ih =>
    intro c t hp hc
    have ha : a ∈ sp := hp a List.mem_cons_self
    have := ih c t (fun x hx => hp x (List.mem_cons_of_mem _ hx)) hc
    simp only [lstrip] at this ⊢
    simp only [List.cons_append, List.dropWhile, List.contains_eq_mem, ha, decide_true]
    simpa using this

theorem lstrip_stop_multi (sp : Str) (c : Char) (t : Str) (hc : c ∉ sp) : lstrip sp (c :: t) = c :: t :=
  lstrip_prefix sp [] c t (by simp) hc

/-- `rstrip` removes a suffix made of separator characters and stops at the last other character -/
theorem rstrip_suffix (sp : Str) (t : Str) (c : Char) (suf : Str) (hs : ∀ x ∈ suf, x ∈ sp) (hc : c ∉ sp) :
    rstrip sp (t ++ [c] ++ suf) = t ++ [c] := by
  unfold rstrip
  have e : (t ++ [c] ++ suf).reverse = suf.reverse ++ c :: t.reverse := by simp
  rw [e, lstrip_prefix sp suf.reverse c t.reverse (fun x hx => hs x (List.mem_reverse.1 hx)) hc]
  simp

/-- shape of a joined route: it starts and ends with a character outside the separator -/
theorem join_shape_multi (sp : Str) (names : List Str) (hne : names ≠ [])
    (hn : ∀ x ∈ names, x ≠ [] ∧ Free sp x) :
    (∃ c t, c ∉ sp ∧ join sp names = c :: t) ∧ (∃ c t, c ∉ sp ∧ join sp names = t ++ [c]) := by
  constructor
  · cases names with
    | nil => exact absurd rfl hne
    | cons f rest =>
      have hf := hn f List.mem_cons_self
      obtain ⟨t, ht⟩ := join_cons_head sp f rest
      cases f with
      | nil => exact absurd rfl hf.1
      | cons c0 f' => exact ⟨c0, f' ++ t, hf.2 c0 List.mem_cons_self, by rw [ht]; rfl⟩
  · obtain ⟨init, ln, rfl⟩ : ∃ init ln, names = init ++ [ln] :=
      ⟨names.dropLast, names.getLast hne, (List.dropLast_concat_getLast hne).symm⟩
    have hln := hn ln (by simp)
    obtain ⟨w, c, rfl⟩ : ∃ w c, ln = w ++ [c] :=
      ⟨ln.dropLast, ln.getLast hln.1, (List.dropLast_concat_getLast hln.1).symm⟩
    have hc : c ∉ sp := hln.2 c (by simp)
    by_cases hi : init = []
    · subst hi; exact ⟨c, w, hc, by simp [join]⟩
    · exact ⟨c, join sp init ++ sp ++ w, hc, by rw [join_snoc sp init _ hi]; simp [List.append_assoc]⟩

/-- stripping `lead ++ join ++ trail` where `lead`, `trail` consist of separator characters gives the join -/
theorem strip_path_multi (sp : Str) (names : List Str) (hne : names ≠ [])
    (hn : ∀ x ∈ names, x ≠ [] ∧ Free sp x) (lead trail : Str)
    (hl : ∀ x ∈ lead, x ∈ sp) (ht : ∀ x ∈ trail, x ∈ sp) :
    lstrip sp (rstrip sp (lead ++ join sp names ++ trail)) = join sp names := by
  obtain ⟨⟨c0, t0, hc0, h0⟩, ⟨c1, t1, hc1, h1⟩⟩ := join_shape_multi sp names hne hn
  have e : lead ++ join sp names ++ trail = (lead ++ t1) ++ [c1] ++ trail := by
    rw [h1]; simp [List.append_assoc]
  rw [e, rstrip_suffix sp _ c1 trail ht hc1]
  have e2 : lead ++ t1 ++ [c1] = lead ++ c0 :: t0 := by
    have : t1 ++ [c1] = c0 :: t0 := by rw [← h1, h0]
    rw [List.append_assoc, this]
  rw [e2, lstrip_prefix sp lead c0 t0 hl hc0, ← h0]

/-! ## `find_full_path` and `path_name` -/

/-- looking a node's path name up from any node of its tree returns that very node — for every
non-empty separator, names non-empty and sharing no character with it -/
theorem findFullPath_pathName_multi {s : Store} (hw : WF s) (hu : SibUnique s) (start v : Nat)
    (hst : SameTree s start v) (hsp : sep s v ≠ [])
    (hn : ∀ x ∈ pathNodes s v, s.name x ≠ [] ∧ Free (sep s v) (s.name x))
    (lead trail : Str) (hl : ∀ x ∈ lead, x ∈ sep s v) (ht : ∀ x ∈ trail, x ∈ sep s v) :
    findFullPath s start (lead ++ join (sep s v) (pathNames s v) ++ trail) = some (some v) := by
  have hsep' : sep s start = sep s v := by
    simp only [sep]; rw [hst]
  have hnames : ∀ x ∈ pathNames s v, x ≠ [] ∧ Free (sep s v) x := by
    intro x hx
    obtain ⟨y, hy, rfl⟩ := List.mem_map.1 hx
    exact hn y hy
  unfold findFullPath
  simp only [hsep']
  rw [strip_path_multi (sep s v) _ (pathNames_ne_nil s v) hnames lead trail hl ht,
    split_join_multi (sep s v) hsp _ (pathNames_ne_nil s v) (fun x hx => (hnames x hx).2)]
  have hh := pathNodes_head s v
  have hl' := pathNodes_getLast s v
  have hd := down_pathNodes hw v
  unfold pathNames
  cases hL : pathNodes s v with
  | nil => rw [hL] at hh; simp at hh
  | cons r t =>
    rw [hL] at hh hl' hd
    simp only [List.head?_cons, Option.some.injEq] at hh
    simp only [List.map_cons]
    have hr : r = rootOf s s.n start := by rw [hh]; exact hst.symm
    rw [if_pos (by rw [hr])]
    rw [← hr, descend_chain hw hu t r hd, hl']

/-- path names identify nodes, for every non-empty separator -/
theorem pathName_injective_multi {s : Store} (hw : WF s) (hu : SibUnique s) (u v : Nat)
    (hst : SameTree s u v) (hsp : sep s v ≠ [])
    (hn : ∀ x, s.name x ≠ [] ∧ Free (sep s v) (s.name x))
    (h : pathName s u = pathName s v) : u = v := by
  have hsep' : sep s u = sep s v := by
    simp only [sep]; rw [hst]
  rw [pathName_eq, pathName_eq, hsep'] at h
  have h' := List.append_cancel_left h
  apply pathNames_injective hw hu u v hst
  apply join_injective_multi (sep s v) hsp _ _ (pathNames_ne_nil s u) (pathNames_ne_nil s v) _ _ h'
  · intro x hx; obtain ⟨y, _, rfl⟩ := List.mem_map.1 hx; exact (hn y).2
  · intro x hx; obtain ⟨y, _, rfl⟩ := List.mem_map.1 hx; exact (hn y).2

end Store
