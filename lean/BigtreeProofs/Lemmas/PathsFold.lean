import Mathlib.Data.List.Nodup
import BigtreeModel.Paths
import BigtreeProofs.Lemmas.PathsStr
import BigtreeProofs.Lemmas.PathsAddr
import BigtreeProofs.Lemmas.PathsSet
import BigtreeProofs.Lemmas.PathsInsert
import BigtreeProofs.Lemmas.PathsLoop
import BigtreeProofs.Lemmas.PathsNoDup
import BigtreeProofs.Lemmas.PathsOrder
import BigtreeProofs.Lemmas.RelationBuild
/-!
# Folding `add_path_to_tree` over many paths: node set, no duplicates, children by first appearance (C05)
-/

namespace Paths
open Str

/-- a path as the caller writes it: a run of separators, the components, a run of separators -/
structure Item where
  lead : Str
  branch : List Str
  trail : Str
  attrs : Attrs

def Item.render (c : Char) (it : Item) : Str := it.lead ++ join [c] it.branch ++ it.trail

/-- well-formed for the separator `c`: at least one component, non-empty components free of `c` -/
def Item.Wf (c : Char) (it : Item) : Prop :=
  it.branch ≠ [] ∧ (∀ x ∈ it.lead, x = c) ∧ (∀ x ∈ it.trail, x = c) ∧ ∀ x ∈ it.branch, x ≠ [] ∧ c ∉ x

/-- the string interface is the component interface -/
theorem addPath_eq_addComps (treeSep : Str) (c : Char) (dupOk : Bool) (t : Tree) (fresh : Nat)
    (lead trail : Str) (branch : List Str) (attrs : Attrs) (hne : branch ≠ [])
    (hl : ∀ x ∈ lead, x = c) (ht : ∀ x ∈ trail, x = c) (hfree : ∀ x ∈ branch, x ≠ [] ∧ c ∉ x) :
    addPath treeSep [c] dupOk t fresh (lead ++ join [c] branch ++ trail) attrs
      = addComps treeSep dupOk t fresh branch attrs := by
  have hpath : lead ++ join [c] branch ++ trail ≠ [] := by
    cases branch with
    | nil => exact absurd rfl hne
    | cons a rest =>
      have ha := (hfree a (by simp)).1
      intro e
      have h1 : join [c] (a :: rest) = [] := by
        have := List.append_eq_nil_iff.mp e
        exact (List.append_eq_nil_iff.mp this.1).2
      cases rest with
      | nil => exact ha (by simpa [join] using h1)
      | cons b r => simp [join] at h1
  unfold addPath addComps
  rw [if_neg hpath, split_strip_join c lead trail branch hne hl ht hfree]

theorem addPath_render (treeSep : Str) (c : Char) (dupOk : Bool) (t : Tree) (fresh : Nat) (it : Item)
    (hw : it.Wf c) :
    addPath treeSep [c] dupOk t fresh (it.render c) it.attrs = addComps treeSep dupOk t fresh it.branch it.attrs :=
  addPath_eq_addComps treeSep c dupOk t fresh it.lead it.trail it.branch it.attrs hw.1 hw.2.1 hw.2.2.1 hw.2.2.2

/-- the list of known paths after seeing the branches `bs`, starting from `L`: every new prefix is
    appended once, in order of appearance -/
def closure (L : List (List Str)) : List (List Str) → List (List Str)
  | [] => L
  | b :: bs => closure (L ++ (prefixes b).filter (fun q => decide (q ∉ L))) bs

theorem prefixes_nodup {α} (l : List α) : (prefixes l).Nodup := by
  induction l with
  | nil => simp [prefixes]
  | cons a as ih =>
    simp only [prefixes, List.nodup_cons, List.mem_map]
    constructor
    · rintro ⟨r, hr, he⟩
      have := prefixes_ne_nil as r hr
      simp at he
      exact this he
    · exact ih.map (fun _ _ h => by injection h)

theorem extensions_nodup (pre rest : List Str) : (extensions pre rest).Nodup :=
  (prefixes_nodup rest).map (fun _ _ h => List.append_cancel_left h)

/-- one step of the fold, duplicates allowed -/
theorem addComps_step (treeSep : Str) (t : Tree) (fresh : Nat) (branch : List Str) (attrs : Attrs)
    (t' : Tree) (ad : Addr) (fr' : Nat) (L : List (List Str))
    (hs : SibUnique t) (hLn : L.Nodup) (hLm : ∀ q, q ∈ paths t ↔ q ∈ L)
    (hLk : ∀ b n, nodeAt b t = some n → (kidPaths (namesAlong b t) n).Sublist L)
    (h : addComps treeSep true t fresh branch attrs = .ok (t', ad, fr')) :
    let L' := L ++ (prefixes branch).filter (fun q => decide (q ∉ L))
    SibUnique t' ∧ L'.Nodup ∧ (∀ q, q ∈ paths t' ↔ q ∈ L') ∧
    (∀ b n, nodeAt b t' = some n → (kidPaths (namesAlong b t') n).Sublist L') ∧
    t'.name = t.name ∧ branch.head? = some t.name := by
  intro L'
  obtain ⟨r1, _, _, r4, r5⟩ := addComps_dup treeSep t fresh branch attrs t' ad fr' hs h
  cases branch with
  | nil => simp [addComps] at h
  | cons b0 rest =>
    have hb0 : b0 = t.name := by
      unfold addComps at h
      simp only at h
      split at h
      · cases h
      · rename_i hb; simpa using hb
    have hroot : [b0] ∈ L := (hLm _).mp (by rw [hb0, paths_eq]; simp)
    have hL' : L' = L ++ created [b0] rest t := by
      show L ++ (prefixes (b0 :: rest)).filter (fun q => decide (q ∉ L)) = _
      rw [prefixes_cons_eq, List.filter_cons_of_neg (by simpa using hroot)]
      unfold created
      congr 1
      apply List.filter_congr
      intro q _
      simp only [decide_eq_decide]
      rw [hLm q]
    refine ⟨r1, ?_, ?_, ?_, ?_, by simp [hb0]⟩
    · show (L ++ (prefixes (b0 :: rest)).filter (fun q => decide (q ∉ L))).Nodup
      rw [List.nodup_append]
      refine ⟨hLn, (prefixes_nodup _).filter _, ?_⟩
      intro x hx y hy e
      subst e
      simp only [List.mem_filter, decide_eq_true_eq] at hy
      exact hy.2 hx
    · intro q
      show q ∈ paths t' ↔ q ∈ L ++ (prefixes (b0 :: rest)).filter (fun q => decide (q ∉ L))
      rw [r4 q, hLm q, List.mem_append, List.mem_filter]
      simp only [decide_eq_true_eq]
      constructor
      · rintro (h1 | h1)
        · exact .inl h1
        · by_cases hq : q ∈ L
          · exact .inl hq
          · exact .inr ⟨h1, hq⟩
      · rintro (h1 | ⟨h1, _⟩)
        · exact .inl h1
        · exact .inr h1
    · rw [hL']
      exact addComps_order treeSep t fresh b0 rest attrs t' ad fr' hs h L hLk
    · obtain ⟨n', e1, _, e3, _⟩ := r5 [] t rfl
      simp at e1; subst e1; exact e3

/-- the fold, duplicates allowed -/
theorem addMany_fold (treeSep : Str) (c : Char) : ∀ (items : List Item) (t : Tree) (fresh : Nat)
    (L : List (List Str)) (t' : Tree) (fr' : Nat),
    (∀ it ∈ items, it.Wf c) → SibUnique t → L.Nodup → (∀ q, q ∈ paths t ↔ q ∈ L) →
    (∀ b n, nodeAt b t = some n → (kidPaths (namesAlong b t) n).Sublist L) →
    addMany treeSep [c] true (items.map fun it => (it.render c, it.attrs)) t fresh = .ok (t', fr') →
    SibUnique t' ∧ (closure L (items.map (·.branch))).Nodup ∧
    (∀ q, q ∈ paths t' ↔ q ∈ closure L (items.map (·.branch))) ∧
    (∀ b n, nodeAt b t' = some n → (kidPaths (namesAlong b t') n).Sublist (closure L (items.map (·.branch)))) ∧
    t'.name = t.name ∧ ∀ it ∈ items, it.branch.head? = some t.name := by
  intro items
  induction items with
  | nil =>
    intro t fresh L t' fr' _ hs hLn hLm hLk h
    simp only [List.map_nil, addMany, Except.ok.injEq, Prod.mk.injEq] at h
    obtain ⟨rfl, rfl⟩ := h
    exact ⟨hs, hLn, hLm, hLk, rfl, by simp⟩
  | cons it items ih =>
    intro t fresh L t' fr' hwf hs hLn hLm hLk h
    simp only [List.map_cons, addMany] at h
    obtain ⟨w1, w2, w3, w4⟩ := hwf it (by simp)
    have hadd := addPath_render treeSep c true t fresh it ⟨w1, w2, w3, w4⟩
    rw [hadd] at h
    cases hc : addComps treeSep true t fresh it.branch it.attrs with
    | error e => rw [hc] at h; cases h
    | ok r =>
      obtain ⟨t1, ad1, fr1⟩ := r
      rw [hc] at h
      simp only at h
      obtain ⟨s1, s2, s3, s4, s5, s6⟩ := addComps_step treeSep t fresh it.branch it.attrs t1 ad1 fr1 L hs hLn hLm hLk hc
      obtain ⟨u1, u2, u3, u4, u5, u6⟩ := ih t1 fr1 _ t' fr' (fun x hx => hwf x (List.mem_cons_of_mem _ hx)) s1 s2 s3 s4 h
      refine ⟨u1, u2, u3, u4, u5.trans s5, ?_⟩
      intro x hx
      rcases List.mem_cons.mp hx with rfl | hx
      · exact s6
      · rw [← s5]; exact u6 x hx

end Paths

namespace Paths
open Str

/-! ## duplicates disallowed: the fold either raises or is the fold with duplicates allowed -/

theorem sepFree_step (s : Char) (treeSep : Str) (t : Tree) (fresh : Nat) (branch : List Str) (attrs : Attrs)
    (t' : Tree) (ad : Addr) (fr' : Nat) (hs : SibUnique t) (hf : SepFree s t) (hb : ∀ x ∈ branch, s ∉ x)
    (h : addComps treeSep true t fresh branch attrs = .ok (t', ad, fr')) : SepFree s t' := by
  obtain ⟨_, _, _, r4, _⟩ := addComps_dup treeSep t fresh branch attrs t' ad fr' hs h
  intro q hq x hx
  rcases (r4 q).mp hq with h1 | h1
  · exact hf q h1 x hx
  · have : ∀ (l : List Str) (q : List Str), q ∈ prefixes l → ∀ x ∈ q, x ∈ l := by
      intro l
      induction l with
      | nil => intro q hq; simp [prefixes] at hq
      | cons a as ih =>
        intro q hq x hx
        simp only [prefixes, List.mem_cons, List.mem_map] at hq
        rcases hq with rfl | ⟨r, hr, rfl⟩
        · simp at hx; rw [hx]; exact List.mem_cons_self
        · rcases List.mem_cons.mp hx with rfl | hx
          · exact List.mem_cons_self
          · exact List.mem_cons_of_mem _ (ih r hr x hx)
    exact hb x (this branch q h1 x hx)

theorem addMany_nodup (s c : Char) : ∀ (items : List Item) (t : Tree) (fresh : Nat) (r : Tree × Nat),
    (∀ it ∈ items, it.Wf c ∧ ∀ x ∈ it.branch, s ∉ x) → SibUnique t → SepFree s t →
    addMany [s] [c] false (items.map fun it => (it.render c, it.attrs)) t fresh = .ok r →
    addMany [s] [c] true (items.map fun it => (it.render c, it.attrs)) t fresh = .ok r ∧
      ((names t).Nodup → (names r.1).Nodup) := by
  intro items
  induction items with
  | nil =>
    intro t fresh r _ _ _ h
    simp only [List.map_nil, addMany, Except.ok.injEq] at h
    subst h
    exact ⟨by simp [addMany], fun h => h⟩
  | cons it items ih =>
    intro t fresh r hwf hs hf h
    simp only [List.map_cons, addMany] at h ⊢
    obtain ⟨⟨w1, w2, w3, w4⟩, w5⟩ := hwf it (by simp)
    rw [addPath_render [s] c false t fresh it ⟨w1, w2, w3, w4⟩] at h
    rw [addPath_render [s] c true t fresh it ⟨w1, w2, w3, w4⟩]
    cases hc : addComps [s] false t fresh it.branch it.attrs with
    | error e => rw [hc] at h; cases h
    | ok r1 =>
      obtain ⟨h1, h2⟩ := addComps_nodup s t fresh it.branch it.attrs r1 hs hf w5 hc
      obtain ⟨t1, ad1, fr1⟩ := r1
      rw [hc] at h
      rw [h1]
      simp only at h ⊢
      have hs1 := (addComps_dup [s] t fresh it.branch it.attrs t1 ad1 fr1 hs h1).1
      have hf1 := sepFree_step s [s] t fresh it.branch it.attrs t1 ad1 fr1 hs hf w5 h1
      obtain ⟨i1, i2⟩ := ih t1 fr1 r (fun x hx => hwf x (List.mem_cons_of_mem _ hx)) hs1 hf1 h
      exact ⟨i1, fun hnd => i2 (h2 hnd)⟩

/-! ## `closure` is first-appearance order -/

/-- first occurrences -/
def firstSeen (bs : List (List Str)) : List (List Str) := Rel.dedupBy (bs.flatMap prefixes)

end Paths

namespace Paths
open Str Rel

theorem dedupBy_of_nodup {α} [DecidableEq α] (l : List α) (h : l.Nodup) : dedupBy l = l := by
  induction l with
  | nil => rfl
  | cons x xs ih =>
    simp only [List.nodup_cons] at h
    simp only [dedupBy, ih h.2]
    congr 1
    rw [List.filter_eq_self]
    intro y hy
    simp only [decide_eq_true_eq]
    intro e; subst e; exact h.1 hy

theorem dedupBy_append {α} [DecidableEq α] (xs ys : List α) :
    dedupBy (xs ++ ys) = dedupBy xs ++ (dedupBy ys).filter (fun q => decide (q ∉ xs)) := by
  induction xs with
  | nil => simp [dedupBy]
  | cons x xs ih =>
    simp only [List.cons_append, dedupBy, ih, List.filter_append, List.filter_filter]
    congr 2
    apply List.filter_congr
    intro q _
    by_cases h1 : q = x <;> by_cases h2 : q ∈ xs <;> simp [h1, h2]

theorem closure_eq (bs : List (List Str)) : ∀ (L : List (List Str)),
    closure L bs = L ++ (dedupBy (bs.flatMap prefixes)).filter (fun q => decide (q ∉ L)) := by
  induction bs with
  | nil => intro L; simp [closure, dedupBy]
  | cons b bs ih =>
    intro L
    simp only [closure, ih, List.flatMap_cons, dedupBy_append, dedupBy_of_nodup _ (prefixes_nodup b),
      List.filter_append, List.filter_filter, List.append_assoc]
    congr 2
    apply List.filter_congr
    intro q _
    by_cases h1 : q ∈ L <;> by_cases h2 : q ∈ prefixes b <;> simp [h1, h2]

/-- starting from the root's own path, `closure` lists the prefixes in order of first appearance -/
theorem closure_root (root : Str) (bs : List (List Str)) (hne : bs ≠ [])
    (hroot : ∀ b ∈ bs, b.head? = some root) : closure [[root]] bs = firstSeen bs := by
  rw [closure_eq]
  unfold firstSeen
  cases bs with
  | nil => exact absurd rfl hne
  | cons b bs =>
    have hb := hroot b (by simp)
    cases b with
    | nil => simp at hb
    | cons b0 rest =>
      simp at hb; subst hb
      simp only [List.flatMap_cons, prefixes, List.cons_append, dedupBy]
      rw [List.nil_append, List.filter_cons_of_neg (by simp), List.filter_filter]
      congr 1
      apply List.filter_congr
      intro q _
      by_cases h1 : q = [b0] <;> simp [h1]

theorem paths_dedup_of_nodup (l : List Str) (h : l.Nodup) : Paths.dedup l = l := by
  induction l with
  | nil => rfl
  | cons x xs ih =>
    simp only [List.nodup_cons] at h
    simp only [Paths.dedup, ih h.2]
    congr 1
    rw [List.filter_eq_self]
    intro y hy
    simp only [decide_eq_true_eq]
    intro e; subst e; exact h.1 hy

/-- `paths[0].lstrip(sep).split(sep)[0]` is the first component -/
theorem root_of_render (c : Char) (it : Item) (hw : it.Wf c) :
    (split [c] (lstrip [c] (it.render c))).headD [] = it.branch.headD [] := by
  obtain ⟨w1, w2, w3, w4⟩ := hw
  cases hb : it.branch with
  | nil => exact absurd hb w1
  | cons a rest =>
    have ha := w4 a (by rw [hb]; simp)
    unfold Item.render
    rw [hb, List.append_assoc, lstrip_allC c _ _ w2, split_single]
    have hj : ∃ tail, join [c] (a :: rest) ++ it.trail = a ++ tail ∧ (tail = [] ∨ ∃ s', tail = c :: s') := by
      cases rest with
      | nil =>
        refine ⟨it.trail, by simp [join], ?_⟩
        cases ht : it.trail with
        | nil => exact .inl rfl
        | cons x xs => exact .inr ⟨xs, by rw [w3 x (by rw [ht]; simp)]⟩
      | cons b r => exact ⟨c :: join [c] (b :: r) ++ it.trail, by simp [join], .inr ⟨_, rfl⟩⟩
    obtain ⟨tail, ht, hcase⟩ := hj
    rw [ht]
    have hhead : (a ++ tail).head? ≠ some c := by
      cases a with
      | nil => exact absurd rfl ha.1
      | cons x xs => simp; intro e; exact ha.2 (by simp [e])
    rw [lstrip_head c _ hhead]
    rcases hcase with rfl | ⟨s', rfl⟩
    · simp [splitC_free c a ha.2]
    · simp [splitC_append_sep c a s' ha.2]

/-- `list_to_tree` on well-formed, pairwise different path strings -/
theorem listToTree_spec (c : Char) (dupOk : Bool) (items : List Item) (hwf : ∀ it ∈ items, it.Wf c)
    (hat : ∀ it ∈ items, it.attrs = []) (hnd : (items.map (·.render c)).Nodup) (t : Tree)
    (h : listToTree [c] dupOk (items.map (·.render c)) = .ok t) :
    SibUnique t ∧ (firstSeen (items.map (·.branch))).Nodup ∧
    (∀ q, q ∈ paths t ↔ q ∈ firstSeen (items.map (·.branch))) ∧
    (∀ b n, nodeAt b t = some n →
      (kidPaths (namesAlong b t) n).Sublist (firstSeen (items.map (·.branch)))) ∧
    (dupOk = false → (names t).Nodup) := by
  unfold listToTree at h
  rw [paths_dedup_of_nodup _ hnd] at h
  cases items with
  | nil => simp at h
  | cons it0 items =>
    simp only [List.map_cons] at h
    have hw0 := hwf it0 (by simp)
    rw [root_of_render c it0 hw0] at h
    obtain ⟨root, rest0, hb0⟩ : ∃ root rest0, it0.branch = root :: rest0 := by
      cases hb : it0.branch with
      | nil => exact absurd hb hw0.1
      | cons a r => exact ⟨a, r, rfl⟩
    have hroot : root ≠ [] ∧ c ∉ root := hw0.2.2.2 root (by rw [hb0]; simp)
    simp only [hb0, List.headD_cons, hroot.1, if_false] at h
    have hmap : ((it0.render c, ([] : Attrs)) :: (items.map (·.render c)).map fun p => (p, ([] : Attrs)))
        = (it0 :: items).map fun it => (it.render c, it.attrs) := by
      simp only [List.map_cons, List.map_map]
      congr 1
      · rw [hat it0 (by simp)]
      · apply List.map_congr_left
        intro x hx
        simp [hat x (List.mem_cons_of_mem _ hx)]
    rw [hmap] at h
    -- the one-node start tree
    have hs0 : SibUnique (.node 0 root [] []) := by simp [SibUnique, SibUniqueL]
    have hp0 : ∀ q, q ∈ paths (.node 0 root [] []) ↔ q ∈ [[root]] := by intro q; simp [paths, pathsL]
    have hk0 : ∀ b n, nodeAt b (.node 0 root [] []) = some n →
        (kidPaths (namesAlong b (.node 0 root [] [])) n).Sublist [[root]] := by
      intro b n hn
      obtain ⟨_, rfl⟩ := nodeAt_leaf _ rfl b n hn
      simp [kidPaths]
    cases hm : addMany [c] [c] dupOk ((it0 :: items).map fun it => (it.render c, it.attrs))
        (.node 0 root [] []) 1 with
    | error e => rw [hm] at h; cases h
    | ok r =>
      obtain ⟨t', fr'⟩ := r
      rw [hm] at h
      simp only [Except.ok.injEq] at h
      subst h
      have hdup : addMany [c] [c] true ((it0 :: items).map fun it => (it.render c, it.attrs))
          (.node 0 root [] []) 1 = .ok (t', fr') ∧ (dupOk = false → (names t').Nodup) := by
        cases dupOk with
        | true => exact ⟨hm, fun e => by cases e⟩
        | false =>
          have hsf : SepFree c (.node 0 root [] []) := by
            intro q hq x hx
            rw [hp0] at hq
            simp at hq; subst hq
            simp at hx; subst hx
            exact hroot.2
          obtain ⟨i1, i2⟩ := addMany_nodup c c (it0 :: items) _ 1 (t', fr')
            (fun x hx => ⟨hwf x hx, fun y hy => ((hwf x hx).2.2.2 y hy).2⟩) hs0 hsf hm
          exact ⟨i1, fun _ => i2 (by simp [names, namesL])⟩
      obtain ⟨u1, u2, u3, u4, _, u6⟩ := addMany_fold [c] c (it0 :: items) _ 1 [[root]] t' fr' hwf hs0
        (by simp) hp0 hk0 hdup.1
      have hcl : closure [[root]] ((it0 :: items).map (·.branch)) = firstSeen ((it0 :: items).map (·.branch)) := by
        apply closure_root root _ (by simp)
        intro b hb
        rw [List.mem_map] at hb
        obtain ⟨x, hx, rfl⟩ := hb
        exact u6 x hx
      rw [hcl] at u2 u3 u4
      exact ⟨u1, u2, u3, u4, hdup.2⟩

end Paths

namespace Paths
open Str Rel

/-! ## any tree: the children paths of a node appear, in order, in the pre-order path list -/

theorem heads_sublist_pathsL (cs : List Tree) : (cs.map fun c => [c.name]).Sublist (pathsL cs) := by
  induction cs with
  | nil => simp
  | cons c cs ih =>
    rw [pathsL_cons, paths_eq, List.map_cons]
    exact List.Sublist.cons_cons _ ((ih.trans (List.sublist_append_right _ _)))

theorem paths_sublist_pathsL (cs : List Tree) (k : Nat) (c : Tree) (h : cs[k]? = some c) :
    (paths c).Sublist (pathsL cs) := by
  induction cs generalizing k with
  | nil => simp at h
  | cons x xs ih =>
    rw [pathsL_cons]
    cases k with
    | zero => simp at h; subst h; exact List.sublist_append_left _ _
    | succ k => exact (ih k (by simpa using h)).trans (List.sublist_append_right _ _)

theorem kidPaths_sublist_paths (b : Addr) : ∀ (t n : Tree), nodeAt b t = some n →
    (kidPaths (namesAlong b t) n).Sublist (paths t) := by
  induction b with
  | nil =>
    intro t n hn
    simp at hn; subst hn
    rw [paths_eq]
    apply List.Sublist.cons
    have := (heads_sublist_pathsL t.children).map (fun q => t.name :: q)
    simpa [kidPaths, List.map_map, Function.comp_def] using this
  | cons k ks ih =>
    intro t n hn
    rw [nodeAt_cons] at hn
    cases hk : t.children[k]? with
    | none => rw [hk] at hn; cases hn
    | some c =>
      rw [hk] at hn
      simp only [Option.bind] at hn
      rw [namesAlong_cons _ _ _ _ hk, paths_eq]
      apply List.Sublist.cons
      have h1 := (ih c n hn).map (fun q => t.name :: q)
      have h2 := (paths_sublist_pathsL t.children k c hk).map (fun q => t.name :: q)
      have h3 : kidPaths (t.name :: namesAlong ks c) n = (kidPaths (namesAlong ks c) n).map (fun q => t.name :: q) := by
        simp [kidPaths, List.map_map, Function.comp_def]
      rw [h3]
      exact h1.trans h2

/-- The fold of `add_path_to_tree` over well-formed path strings, starting from ANY tree with
    pairwise different sibling names (the `add_*_by_path` functions; the constructors start it from
    a one-node tree): with `K := closure (paths t) branches`,
    the node paths of the result are exactly `K` (old paths, then every new prefix once, in order of
    first appearance), no path twice, and the children paths of every node are a sublist of `K`.
    With duplicates disallowed (`s` = the tree's separator, occurring in no name) a fold that does
    not raise gives the same result, and keeps all names distinct if they were. -/
theorem addMany_spec (s c : Char) (dupOk : Bool) (items : List Item) (t : Tree) (fresh : Nat) (t' : Tree)
    (fr' : Nat) (hwf : ∀ it ∈ items, it.Wf c) (hs : SibUnique t)
    (hno : dupOk = false → SepFree s t ∧ ∀ it ∈ items, ∀ x ∈ it.branch, s ∉ x)
    (h : addMany [s] [c] dupOk (items.map fun it => (it.render c, it.attrs)) t fresh = .ok (t', fr')) :
    addMany [s] [c] true (items.map fun it => (it.render c, it.attrs)) t fresh = .ok (t', fr') ∧
    SibUnique t' ∧ (closure (paths t) (items.map (·.branch))).Nodup ∧
    (∀ q, q ∈ paths t' ↔ q ∈ closure (paths t) (items.map (·.branch))) ∧
    (∀ b n, nodeAt b t' = some n →
      (kidPaths (namesAlong b t') n).Sublist (closure (paths t) (items.map (·.branch)))) ∧
    t'.name = t.name ∧ (∀ it ∈ items, it.branch.head? = some t.name) ∧
    (dupOk = false → (names t).Nodup → (names t').Nodup) := by
  have hdup : addMany [s] [c] true (items.map fun it => (it.render c, it.attrs)) t fresh = .ok (t', fr') ∧
      (dupOk = false → (names t).Nodup → (names t').Nodup) := by
    cases dupOk with
    | true => exact ⟨h, fun e => by cases e⟩
    | false =>
      obtain ⟨hf, hb⟩ := hno rfl
      obtain ⟨i1, i2⟩ := addMany_nodup s c items t fresh (t', fr')
        (fun x hx => ⟨hwf x hx, hb x hx⟩) hs hf h
      exact ⟨i1, fun _ => i2⟩
  obtain ⟨u1, u2, u3, u4, u5, u6⟩ := addMany_fold [s] c items t fresh (paths t) t' fr' hwf hs
    (nodup_paths t hs) (fun _ => Iff.rfl) (fun b n hn => kidPaths_sublist_paths b t n hn) hdup.1
  exact ⟨hdup.1, u1, u2, u3, u4, u5, u6, hdup.2⟩

end Paths

namespace Paths
open Str Rel

/-- the constructors: the fold started from a one-node tree -/
theorem fromLeaf_spec (s c : Char) (dupOk : Bool) (items : List Item) (root : Str) (ra : Attrs) (fresh : Nat)
    (t' : Tree) (fr' : Nat) (hne : items ≠ []) (hwf : ∀ it ∈ items, it.Wf c)
    (hno : dupOk = false → s ∉ root ∧ ∀ it ∈ items, ∀ x ∈ it.branch, s ∉ x)
    (h : addMany [s] [c] dupOk (items.map fun it => (it.render c, it.attrs)) (.node 0 root ra []) fresh
          = .ok (t', fr')) :
    SibUnique t' ∧ (firstSeen (items.map (·.branch))).Nodup ∧
    (∀ q, q ∈ paths t' ↔ q ∈ firstSeen (items.map (·.branch))) ∧
    (∀ b n, nodeAt b t' = some n → (kidPaths (namesAlong b t') n).Sublist (firstSeen (items.map (·.branch)))) ∧
    t'.name = root ∧ (dupOk = false → (names t').Nodup) := by
  have hs0 : SibUnique (.node 0 root ra []) := by simp [SibUnique, SibUniqueL]
  have hp0 : paths (.node 0 root ra []) = [[root]] := by simp [paths, pathsL]
  obtain ⟨_, u1, u2, u3, u4, u5, u6, u7⟩ := addMany_spec s c dupOk items (.node 0 root ra []) fresh t' fr' hwf hs0
    (fun e => by
      obtain ⟨h1, h2⟩ := hno e
      refine ⟨?_, h2⟩
      intro q hq x hx
      rw [hp0] at hq
      simp at hq; subst hq
      simp at hx; subst hx
      exact h1) h
  have hcl : closure (paths (.node 0 root ra [])) (items.map (·.branch)) = firstSeen (items.map (·.branch)) := by
    rw [hp0]
    apply closure_root root _ (by simpa using hne)
    intro b hb
    rw [List.mem_map] at hb
    obtain ⟨x, hx, rfl⟩ := hb
    exact u6 x hx
  rw [hcl] at u2 u3 u4
  exact ⟨u1, u2, u3, u4, u5, fun e => u7 e (by simp [names, namesL])⟩

/-- `dict_to_tree` on well-formed keys -/
theorem dictToTree_spec (c : Char) (dupOk : Bool) (items : List Item) (hwf : ∀ it ∈ items, it.Wf c) (t : Tree)
    (h : dictToTree [c] dupOk (items.map fun it => (it.render c, it.attrs)) = .ok t) :
    SibUnique t ∧ (firstSeen (items.map (·.branch))).Nodup ∧
    (∀ q, q ∈ paths t ↔ q ∈ firstSeen (items.map (·.branch))) ∧
    (∀ b n, nodeAt b t = some n → (kidPaths (namesAlong b t) n).Sublist (firstSeen (items.map (·.branch)))) ∧
    (dupOk = false → (names t).Nodup) := by
  unfold dictToTree at h
  cases items with
  | nil => simp at h
  | cons it0 items =>
    simp only [List.map_cons] at h
    have hw0 := hwf it0 (by simp)
    have hsp : split [c] (strip [c] (it0.render c)) = it0.branch :=
      split_strip_join c it0.lead it0.trail it0.branch hw0.1 hw0.2.1 hw0.2.2.1 hw0.2.2.2
    rw [hsp] at h
    obtain ⟨root, rest0, hb0⟩ : ∃ root rest0, it0.branch = root :: rest0 := by
      cases hb : it0.branch with
      | nil => exact absurd hb hw0.1
      | cons a r => exact ⟨a, r, rfl⟩
    have hroot : root ≠ [] ∧ c ∉ root := hw0.2.2.2 root (by rw [hb0]; simp)
    simp only [hb0, List.headD_cons, hroot.1, if_false] at h
    generalize hra : dropName (orElse (dictGet _ root) _) = ra at h
    let items' : List Item := (it0 :: items).map fun it => { it with attrs := dropName it.attrs }
    have hmap : ((it0.render c, dropName it0.attrs) :: (items.map fun it => (it.render c, it.attrs)).map
          fun e => (e.1, dropName e.2)) = items'.map fun it => (it.render c, it.attrs) := by
      simp [items', List.map_map, Function.comp_def, Item.render]
    rw [hmap] at h
    cases hm : addMany [c] [c] dupOk (items'.map fun it => (it.render c, it.attrs)) (.node 0 root ra []) 1 with
    | error e => rw [hm] at h; cases h
    | ok r =>
      obtain ⟨t', fr'⟩ := r
      rw [hm] at h
      simp only [Except.ok.injEq] at h
      subst h
      have hwf' : ∀ it ∈ items', it.Wf c := by
        intro it hit
        simp only [items', List.mem_map] at hit
        obtain ⟨x, hx, rfl⟩ := hit
        exact hwf x hx
      have hbr : items'.map (·.branch) = (it0 :: items).map (·.branch) := by
        simp [items', List.map_map, Function.comp_def]
      obtain ⟨v1, v2, v3, v4, _, v6⟩ := fromLeaf_spec c c dupOk items' root ra 1 t' fr' (by simp [items']) hwf'
        (fun _ => ⟨hroot.2, fun it hit x hx => ((hwf' it hit).2.2.2 x hx).2⟩) hm
      rw [hbr] at v2 v3 v4
      exact ⟨v1, v2, v3, v4, v6⟩

end Paths

namespace Paths
open Str Rel

/-- what a successful `rowsToTree` did -/
theorem rowsToTree_ok (sep : Str) (dupOk : Bool) (rows : List Row) (t : Tree)
    (h : rowsToTree sep dupOk rows = .ok t) :
    ∃ (p0 : Str) (a0 : Attrs) (rest : List Row) (ra : Attrs) (fr : Nat),
      rows.map (fun r => (strip sep r.1, r.2)) = (p0, a0) :: rest ∧ (split sep p0).headD [] ≠ [] ∧
      addMany sep sep dupOk ((rows.map fun r => (strip sep r.1, r.2)).map fun r => (r.1, filterRow r.2))
        (.node 0 ((split sep p0).headD []) ra []) 1 = .ok (t, fr) := by
  unfold rowsToTree at h
  simp only at h
  cases hr : rows.map (fun r => (strip sep r.1, r.2)) with
  | nil => rw [hr] at h; cases h
  | cons x rest =>
    obtain ⟨p0, a0⟩ := x
    rw [hr] at h
    simp only at h
    split at h
    · cases h
    · split at h
      · cases h
      · rename_i hne
        split at h
        · cases h
        · rename_i t' fr heq
          simp only [Except.ok.injEq] at h
          subst h
          exact ⟨p0, a0, rest, _, fr, rfl, hne, heq⟩

/-- `dataframe_to_tree` / `polars_to_tree` on well-formed paths (since repair D11 the loop runs under the separator
    given, so no extra condition on `/` is needed). -/
theorem rowsToTree_spec (c : Char) (dupOk : Bool) (items : List Item) (hwf : ∀ it ∈ items, it.Wf c) (t : Tree)
    (h : rowsToTree [c] dupOk (items.map fun it => (it.render c, it.attrs)) = .ok t) :
    SibUnique t ∧ (firstSeen (items.map (·.branch))).Nodup ∧
    (∀ q, q ∈ paths t ↔ q ∈ firstSeen (items.map (·.branch))) ∧
    (∀ b n, nodeAt b t = some n → (kidPaths (namesAlong b t) n).Sublist (firstSeen (items.map (·.branch)))) ∧
    (dupOk = false → (names t).Nodup) := by
  obtain ⟨p0, a0, rest, ra, fr, hr, hne, hm⟩ := rowsToTree_ok [c] dupOk _ t h
  have hstrip : (items.map fun it => (it.render c, it.attrs)).map (fun r => (strip [c] r.1, r.2))
      = items.map fun it => (join [c] it.branch, it.attrs) := by
    rw [List.map_map]
    apply List.map_congr_left
    intro it hit
    obtain ⟨w1, w2, w3, w4⟩ := hwf it hit
    simp only [Function.comp, Item.render]
    rw [strip_lead_join_trail c it.lead it.trail it.branch w1 w2 w3 w4]
  rw [hstrip] at hr hm
  cases items with
  | nil => simp at hr
  | cons it0 items =>
    simp only [List.map_cons, List.cons.injEq, Prod.mk.injEq] at hr
    obtain ⟨⟨hp0, _⟩, _⟩ := hr
    have hw0 := hwf it0 (by simp)
    obtain ⟨root, rest0, hb0⟩ : ∃ root rest0, it0.branch = root :: rest0 := by
      cases hb : it0.branch with
      | nil => exact absurd hb hw0.1
      | cons a r => exact ⟨a, r, rfl⟩
    have hroot : root ≠ [] ∧ c ∉ root := hw0.2.2.2 root (by rw [hb0]; simp)
    have hsp : (split [c] p0).headD [] = root := by
      rw [← hp0, split_single, splitC_join c _ hw0.1 (fun x hx => (hw0.2.2.2 x hx).2), hb0]; rfl
    rw [hsp] at hm
    let items' : List Item := (it0 :: items).map fun it =>
      { lead := [], branch := it.branch, trail := [], attrs := filterRow it.attrs }
    have hmap : (((it0 :: items).map fun it => (join [c] it.branch, it.attrs)).map fun r => (r.1, filterRow r.2))
        = items'.map fun it => (it.render c, it.attrs) := by
      simp [items', List.map_map, Function.comp_def, Item.render]
    rw [hmap] at hm
    have hwf' : ∀ it ∈ items', it.Wf c := by
      intro it hit
      simp only [items', List.mem_map] at hit
      obtain ⟨x, hx, rfl⟩ := hit
      obtain ⟨w1, _, _, w4⟩ := hwf x hx
      exact ⟨w1, by simp, by simp, w4⟩
    have hbr : items'.map (·.branch) = (it0 :: items).map (·.branch) := by
      simp [items', List.map_map, Function.comp_def]
    obtain ⟨v1, v2, v3, v4, _, v6⟩ := fromLeaf_spec c c dupOk items' root ra 1 t fr (by simp [items']) hwf'
      (fun _ => by
        refine ⟨hroot.2, ?_⟩
        intro it hit x hx
        simp only [items', List.mem_map] at hit
        obtain ⟨y, hy, rfl⟩ := hit
        exact ((hwf y hy).2.2.2 x hx).2) hm
    rw [hbr] at v2 v3 v4
    exact ⟨v1, v2, v3, v4, v6⟩

end Paths

namespace Paths
open Str Rel

/-! ## exact repeats among the given strings do not change first appearances -/

theorem filter_comm' {α} (p q : α → Bool) (l : List α) : (l.filter p).filter q = (l.filter q).filter p := by
  rw [List.filter_filter, List.filter_filter]
  apply List.filter_congr
  intro a _
  exact Bool.and_comm _ _

theorem dedupBy_flatMap_filter {α β} [DecidableEq α] [DecidableEq β] (g : α → List β) (x : α) : ∀ (l : List α),
    (dedupBy ((l.filter fun y => decide (y ≠ x)).flatMap g)).filter (fun q => decide (q ∉ g x)) =
    (dedupBy (l.flatMap g)).filter (fun q => decide (q ∉ g x)) := by
  intro l
  induction l with
  | nil => rfl
  | cons y l ih =>
    by_cases hy : y = x
    · subst hy
      rw [List.filter_cons_of_neg (by simp), ih, List.flatMap_cons, dedupBy_append, List.filter_append]
      have : (dedupBy (g y)).filter (fun q => decide (q ∉ g y)) = [] := by
        rw [List.filter_eq_nil_iff]
        intro q hq
        simpa using (mem_dedupBy _ _).mp hq
      rw [this, List.nil_append, List.filter_filter]
      apply List.filter_congr
      intro q _
      simp
    · rw [List.filter_cons_of_pos (by simpa using hy), List.flatMap_cons, List.flatMap_cons, dedupBy_append,
        dedupBy_append, List.filter_append, List.filter_append]
      congr 1
      rw [filter_comm', ih, filter_comm']

theorem dedupBy_flatMap_dedupBy {α β} [DecidableEq α] [DecidableEq β] (g : α → List β) : ∀ (xs : List α),
    dedupBy ((dedupBy xs).flatMap g) = dedupBy (xs.flatMap g) := by
  intro xs
  induction xs with
  | nil => rfl
  | cons x xs ih =>
    simp only [dedupBy, List.flatMap_cons, dedupBy_append]
    congr 1
    rw [dedupBy_flatMap_filter g x (dedupBy xs), ih]

theorem paths_dedup_eq (l : List Str) : Paths.dedup l = dedupBy l := by
  induction l with
  | nil => rfl
  | cons x xs ih => simp [Paths.dedup, dedupBy, ih]

/-- the components a well-formed path string stands for -/
def branchOf (c : Char) (p : Str) : List Str := split [c] (strip [c] p)

theorem branchOf_render (c : Char) (it : Item) (hw : it.Wf c) : branchOf c (it.render c) = it.branch :=
  split_strip_join c it.lead it.trail it.branch hw.1 hw.2.1 hw.2.2.1 hw.2.2.2

/-- a string is well-formed if some well-formed item renders to it -/
def WfStr (c : Char) (p : Str) : Prop := ∃ it : Item, it.Wf c ∧ it.attrs = [] ∧ it.render c = p

theorem items_of_strings (c : Char) : ∀ (ps : List Str), (∀ p ∈ ps, WfStr c p) →
    ∃ items : List Item, (∀ it ∈ items, it.Wf c) ∧ (∀ it ∈ items, it.attrs = []) ∧
      items.map (·.render c) = ps ∧ items.map (·.branch) = ps.map (branchOf c) := by
  intro ps
  induction ps with
  | nil => intro _; exact ⟨[], by simp, by simp, rfl, rfl⟩
  | cons p ps ih =>
    intro h
    obtain ⟨it, hw, ha, hr⟩ := h p (by simp)
    obtain ⟨items, h1, h2, h3, h4⟩ := ih (fun q hq => h q (List.mem_cons_of_mem _ hq))
    refine ⟨it :: items, ?_, ?_, by simp [hr, h3], by simp [h4, ← hr, branchOf_render c it hw]⟩
    · intro x hx; rcases List.mem_cons.mp hx with rfl | hx
      · exact hw
      · exact h1 x hx
    · intro x hx; rcases List.mem_cons.mp hx with rfl | hx
      · exact ha
      · exact h2 x hx

/-- `list_to_tree` on ANY list of well-formed path strings (repeats allowed) -/
theorem listToTree_spec' (c : Char) (dupOk : Bool) (ps : List Str) (hwf : ∀ p ∈ ps, WfStr c p) (t : Tree)
    (h : listToTree [c] dupOk ps = .ok t) :
    SibUnique t ∧ (firstSeen (ps.map (branchOf c))).Nodup ∧
    (∀ q, q ∈ paths t ↔ q ∈ firstSeen (ps.map (branchOf c))) ∧
    (∀ b n, nodeAt b t = some n →
      (kidPaths (namesAlong b t) n).Sublist (firstSeen (ps.map (branchOf c)))) ∧
    (dupOk = false → (names t).Nodup) := by
  -- `list_to_tree` only looks at the de-duplicated list
  have hdd : listToTree [c] dupOk (Paths.dedup ps) = listToTree [c] dupOk ps := by
    unfold listToTree
    rw [paths_dedup_eq, paths_dedup_eq, dedupBy_of_nodup _ (nodup_dedupBy ps)]
  rw [← hdd] at h
  have hwf' : ∀ p ∈ Paths.dedup ps, WfStr c p := by
    intro p hp
    rw [paths_dedup_eq, mem_dedupBy] at hp
    exact hwf p hp
  obtain ⟨items, i1, i2, i3, i4⟩ := items_of_strings c (Paths.dedup ps) hwf'
  rw [← i3] at h
  have hnd : (items.map (·.render c)).Nodup := by rw [i3, paths_dedup_eq]; exact nodup_dedupBy ps
  obtain ⟨s1, s2, s3, s4, s5⟩ := listToTree_spec c dupOk items i1 i2 hnd t h
  have hfs : firstSeen (items.map (·.branch)) = firstSeen (ps.map (branchOf c)) := by
    rw [i4, paths_dedup_eq]
    unfold firstSeen
    rw [List.flatMap_map, List.flatMap_map]
    exact dedupBy_flatMap_dedupBy (fun p => prefixes (branchOf c p)) ps
  rw [hfs] at s2 s3 s4
  exact ⟨s1, s2, s3, s4, s5⟩

end Paths
