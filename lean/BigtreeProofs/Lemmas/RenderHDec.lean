import BigtreeProofs.Lemmas.RenderHDecNode
/-!
# Tier 2 `h_decodable`: `hdecode` reads `hyieldTree` back

* `hheight_le_row` (fuel suffices: some row is at least as long as the tree is high), `le_foldl_max`;
* `hnamesOk_hprune`;
* `hdecode_block` (any block, any `pad`), `h_decodable`.
-/

namespace Render

/-! ### fuel: some row is at least as long as the tree is high -/

theorem mem_joinGap (gap : Bool) (ps : List (List Str × Nat)) (p : List Str × Nat) (row : Str)
    (hp : p ∈ ps) (hr : row ∈ p.1) : row ∈ joinGap gap ps := by
  induction ps with
  | nil => simp at hp
  | cons q ps ih =>
    cases ps with
    | nil => simp at hp; subst hp; simpa [joinGap] using hr
    | cons q' r =>
      rw [joinGap_cons _ _ _ (by simp)]
      simp only [List.mem_cons] at hp
      rcases hp with rfl | hp
      · simp [hr]
      · have := ih (by simpa using hp)
        simp [this]

theorem hheight_le_row (S : HStyle) (inter : Bool) (pad : Nat → Nat) :
    (∀ (d : Nat) (t : HTree), ∃ row ∈ (hblock S inter pad d t).1, hheight t ≤ row.length) ∧
    (∀ (d : Nat) (cs : List HTree), cs ≠ [] →
      ∃ p ∈ hblockL S inter pad d cs, ∃ row ∈ p.1, hheightL cs ≤ row.length) := by
  apply hblock.mutual_induct S inter pad
  · intro d; rw [hblock_hole]
    exact ⟨_, List.mem_singleton.mpr rfl, by simp [hheight, hlabel]⟩
  · intro d n cs h
    rw [hblock_leaf _ _ _ _ _ _ h, hheight, if_pos h]
    exact ⟨_, List.mem_singleton.mpr rfl, by simp [hlabel]⟩
  · intro d n cs h ih
    have hne : cs ≠ [] := by intro e; subst e; simp at h
    obtain ⟨p, hp, row, hrow, hle⟩ := ih hne
    have hmem := mem_joinGap (gapInserted (hblockL S inter pad (d + 1) cs)) _ p row hp hrow
    obtain ⟨j, hj⟩ := List.getElem?_of_mem hmem
    obtain ⟨pre, hpre, hout⟩ := (hblock_framed S inter pad d n cs h).row hj
    refine ⟨pre ++ row, List.mem_of_getElem? hout, ?_⟩
    rw [hheight, if_neg h]
    simp only [List.length_append]; omega
  · intro d h; exact absurd rfl h
  · intro d c cs ih1 ih2 _
    obtain ⟨row, hrow, hle⟩ := ih1
    rw [hblockL, hheightL]
    by_cases hcs : cs = []
    · subst hcs
      exact ⟨_, by simp, row, hrow, by simp [hheightL]; exact hle⟩
    · obtain ⟨p, hp, row2, hrow2, hle2⟩ := ih2 hcs
      by_cases hmax : hheightL cs ≤ hheight c
      · exact ⟨_, by simp, row, hrow, by rw [Nat.max_eq_left hmax]; exact hle⟩
      · exact ⟨p, by simp [hp], row2, hrow2, by rw [Nat.max_eq_right (by omega)]; exact hle2⟩

theorem le_foldl_max (l : List Nat) : ∀ a, a ≤ l.foldl max a ∧ ∀ x ∈ l, x ≤ l.foldl max a := by
  induction l with
  | nil => intro a; simp
  | cons y l ih =>
    intro a
    obtain ⟨h1, h2⟩ := ih (max a y)
    simp only [List.foldl_cons, List.mem_cons]
    refine ⟨by omega, ?_⟩
    rintro x (rfl | hx)
    · omega
    · exact h2 x hx

/-! ### pruning keeps the names good -/

theorem hnamesOkL_holes (cs : List HTree) : hnamesOk.hnamesOkL (cs.map fun _ => HTree.hole) = true := by
  induction cs with
  | nil => simp [hnamesOk.hnamesOkL]
  | cons c cs ih => simp [hnamesOk.hnamesOkL, hnamesOk, ih]

theorem hnamesOk_hcut :
    (∀ t : HTree, ∀ md d, hnamesOk t = true → hnamesOk (hcut md d t) = true) ∧
    (∀ cs : List HTree, ∀ md d, hnamesOk.hnamesOkL cs = true → hnamesOk.hnamesOkL (hcutL md d cs) = true) := by
  apply HTree.induct2
  · intro md d _; simp [hcut, hnamesOk]
  · intro n cs ih md d h
    rw [hnamesOk, Bool.and_eq_true] at h
    rw [hcut, hnamesOk, Bool.and_eq_true]
    refine ⟨h.1, ?_⟩
    split
    · exact hnamesOkL_holes cs
    · exact ih md (d + 1) h.2
  · intro md d _; simp [hcutL, hnamesOk.hnamesOkL]
  · intro c cs ih1 ih2 md d h
    rw [hnamesOk.hnamesOkL, Bool.and_eq_true] at h
    rw [hcutL, hnamesOk.hnamesOkL, Bool.and_eq_true]
    exact ⟨ih1 md d h.1, ih2 md d h.2⟩

theorem hnamesOk_hprune (md : Nat) (t : HTree) (h : hnamesOk t = true) : hnamesOk (hprune md t) = true := by
  unfold hprune
  split
  · exact h
  · exact hnamesOk_hcut.1 t md 1 h

/-! ### the whole rendering -/

theorem Emb.self (rows : List Str) : Emb rows 0 0 rows := by
  intro j row hj
  simp [List.getD_eq_getElem?_getD, hj]

/-- the decoder reads a block (as the whole grid) back -/
theorem hdecode_block (S : HStyle) (hS : hstyleOk S = true) (inter : Bool) (pad : Nat → Nat) (d : Nat)
    (t : HTree) (hn : hnamesOk t = true) :
    hdecode S (hblock S inter pad d t).1 = some (hExpected inter t) := by
  obtain ⟨-, -, -, -, hb, -, -⟩ := hstyleOk_facts hS
  have hmarks := marks_block S hb (hblock S inter pad d t).1 0 0 (hblock S inter pad d t)
    ((hblock_inv S inter pad).1 d t) (hblock_headInv S inter pad d t) (Emb.self _)
  obtain ⟨row, hrow, hle⟩ := (hheight_le_row S inter pad).1 d t
  have hM := (le_foldl_max ((hblock S inter pad d t).1.map List.length) 0).2 row.length
    (List.mem_map.mpr ⟨row, hrow, rfl⟩)
  have := (decode_aux S hS inter pad (hblock S inter pad d t).1).1 d t hn
    (((hblock S inter pad d t).1.map List.length).foldl max 0 + 1) 0 0 (by omega) (Emb.self _)
  unfold hdecode
  rw [List.range_eq_range', hmarks]
  exact this

/-- Tier 2 `h_decodable`: the decoder reads the horizontal rendering back -/
theorem h_decodable (S : HStyle) (hS : hstyleOk S = true) (inter : Bool) (md : Nat) (t : HTree)
    (hn : hnamesOk t = true) :
    hdecode S (hyieldTree S inter md t) = some (hExpected inter (hprune md t)) :=
  hdecode_block S hS inter _ 1 _ (hnamesOk_hprune md t hn)


/-! ### non-vacuity -/

example : hstyleOk ⟨'a', 'b', 'c', 'd', 'e', '|', '-'⟩ = true := by decide

example : hnamesOk (.node ['r'] [.node ['a'] [], .node ['b'] [.node ['c'] [], .node ['d'] []], .hole]) = true := by
  decide

end Render
