import BigtreeProofs.Lemmas.RelationTree
import BigtreeProofs.Lemmas.PathsNoDup
/-! Soundness of the executable `NonLeafUnique` check (C13, non-vacuity examples). -/
namespace Rel
open Paths

theorem nonLeafUnique_of_check (t : Tree) (h : nonLeafUniqueB t = true) : NonLeafUnique t := by
  intro a b na nb ha hb hne hn
  unfold nonLeafUniqueB at h
  rw [List.all_eq_true] at h
  have hc : na.name ∈ names t := (mem_names_iff t _).mpr ⟨a, na, ha, rfl⟩
  have := h _ hc
  have hma : a ∈ findName na.name t := (mem_findName _ t a).mpr ⟨na, ha, rfl⟩
  have hmb : b ∈ findName na.name t := (mem_findName _ t b).mpr ⟨nb, hb, hn.symm⟩
  rw [Bool.or_eq_true] at this
  rcases this with h1 | h2
  · have h1 : (findName na.name t).length ≤ 1 := by simpa using h1
    cases hf : findName na.name t with
    | nil => rw [hf] at hma; cases hma
    | cons x xs =>
      rw [hf] at hma hmb h1
      cases xs with
      | nil => simp at hma hmb; rw [hma, hmb]
      | cons _ _ => simp at h1
  · rw [List.all_eq_true] at h2
    have := h2 a hma
    rw [ha] at this
    simp at this
    exact absurd this hne

end Rel
