import BigtreeModel.BinStore
/-! Helper lemmas for the two-slot store (`BinStore`): field writes, list helpers (`idx?`,
`fillFirst`, `clear`), the fuel lemma for `anc`, acyclicity under re-parenting. Core Lean only. -/

namespace BinStore

/-! ### store extensionality and field writes -/

theorem Store.ext' {s t : Store} (hn : s.n = t.n) (hp : ∀ x, s.parent x = t.parent x)
    (hs : ∀ x, s.slots x = t.slots x) : s = t := by
  cases s; cases t
  simp only [Store.mk.injEq]
  exact ⟨hn, funext hp, funext hs⟩

@[simp] theorem setPar_n (s : Store) (c p) : (setPar s c p).n = s.n := rfl
@[simp] theorem setPar_parent (s : Store) (c p x) :
    (setPar s c p).parent x = if x = c then p else s.parent x := rfl
@[simp] theorem setPar_slots (s : Store) (c p) : (setPar s c p).slots = s.slots := rfl
@[simp] theorem setSlots_n (s : Store) (p l) : (setSlots s p l).n = s.n := rfl
@[simp] theorem setSlots_parent (s : Store) (p l) : (setSlots s p l).parent = s.parent := rfl
@[simp] theorem setSlots_slots (s : Store) (p l x) :
    (setSlots s p l).slots x = if x = p then l else s.slots x := rfl
@[simp] theorem setSlotAt_n (s : Store) (p i o) : (setSlotAt s p i o).n = s.n := rfl
@[simp] theorem setSlotAt_parent (s : Store) (p i o) : (setSlotAt s p i o).parent = s.parent := rfl
@[simp] theorem setSlotAt_slots (s : Store) (p i o x) :
    (setSlotAt s p i o).slots x = if x = p then (s.slots p).set i o else s.slots x := rfl

/-! ### two-element lists -/

theorem two_of_len {α} {l : List α} (h : l.length = 2) : ∃ a b, l = [a, b] := by
  match l, h with
  | [a, b], _ => exact ⟨a, b, rfl⟩

/-- `clear c l`: every slot holding `c` emptied -/
def clear (c : Nat) (l : List (Option Nat)) : List (Option Nat) :=
  l.map fun o => if o = some c then none else o

@[simp] theorem clear_nil (c) : clear c [] = [] := rfl
@[simp] theorem clear_cons (c o l) :
    clear c (o :: l) = (if o = some c then none else o) :: clear c l := rfl
@[simp] theorem clear_length (c l) : (clear c l).length = l.length := by simp [clear]

theorem clear_of_not_mem {c : Nat} {l : List (Option Nat)} (h : some c ∉ l) : clear c l = l := by
  induction l with
  | nil => rfl
  | cons o l ih =>
    simp only [List.mem_cons, not_or] at h
    have : ¬ o = some c := fun e => h.1 e.symm
    simp [this, ih h.2]

theorem not_mem_clear (c : Nat) (l : List (Option Nat)) : some c ∉ clear c l := by
  induction l with
  | nil => simp
  | cons o l ih =>
    by_cases h : o = some c
    · simp [h, ih]
    · simp only [clear_cons, h, if_false, List.mem_cons, not_or]
      exact ⟨fun e => h e.symm, ih⟩

theorem mem_clear {c d : Nat} {l : List (Option Nat)} (h : d ≠ c) :
    some d ∈ clear c l ↔ some d ∈ l := by
  induction l with
  | nil => simp
  | cons o l ih =>
    by_cases ho : o = some c
    · subst ho
      simp [ih, h]
    · simp [ho, ih]

/-! ### `idx?` -/

theorem idx?_eq_none {l : List (Option Nat)} {c : Nat} : idx? l c = none ↔ some c ∉ l := by
  induction l with
  | nil => simp [idx?]
  | cons o l ih =>
    by_cases h : o = some c
    · simp [idx?, h]
    · have h' : ¬ some c = o := fun e => h e.symm
      simp [idx?, h, h', ih]

theorem idx?_isSome {l : List (Option Nat)} {c : Nat} (h : some c ∈ l) : ∃ i, idx? l c = some i := by
  cases hi : idx? l c with
  | none => exact absurd h (idx?_eq_none.1 hi)
  | some i => exact ⟨i, rfl⟩

theorem idx?_mem {l : List (Option Nat)} {c i : Nat} (h : idx? l c = some i) : some c ∈ l := by
  by_cases hm : some c ∈ l
  · exact hm
  · rw [idx?_eq_none.2 hm] at h; cases h

/-- `l[i] = None` at the index of the only occurrence of `c` is `clear` -/
theorem set_idx_none {l : List (Option Nat)} {c i : Nat} (h : idx? l c = some i)
    (h1 : l.count (some c) ≤ 1) : l.set i none = clear c l := by
  induction l generalizing i with
  | nil => simp [idx?] at h
  | cons o l ih =>
    by_cases ho : o = some c
    · subst ho
      simp only [idx?, if_true, Option.some.injEq] at h
      subst h
      have : some c ∉ l := by
        intro hm
        have := List.count_pos_iff.2 hm
        simp at h1
        omega
      simp [clear_of_not_mem this]
    · simp only [idx?, ho, if_false, Option.map_eq_some_iff] at h
      obtain ⟨j, hj, rfl⟩ := h
      have hc : l.count (some c) ≤ 1 := by
        have : (o == some c) = false := by simp [ho]
        simpa [List.count_cons, this] using h1
      simp [ho, ih hj hc]

/-- putting `c` back at the index it was found at undoes `clear` -/
theorem set_idx_clear {l : List (Option Nat)} {c i : Nat} (h : idx? l c = some i)
    (h1 : l.count (some c) ≤ 1) : (clear c l).set i (some c) = l := by
  induction l generalizing i with
  | nil => simp [idx?] at h
  | cons o l ih =>
    by_cases ho : o = some c
    · subst ho
      simp only [idx?, if_true, Option.some.injEq] at h
      subst h
      have : some c ∉ l := by
        intro hm
        have := List.count_pos_iff.2 hm
        simp at h1
        omega
      simp [clear_of_not_mem this]
    · simp only [idx?, ho, if_false, Option.map_eq_some_iff] at h
      obtain ⟨j, hj, rfl⟩ := h
      have hc : l.count (some c) ≤ 1 := by
        have : (o == some c) = false := by simp [ho]
        simpa [List.count_cons, this] using h1
      simp [ho, ih hj hc]

/-! ### `fillFirst` -/

/-- index of the first empty slot -/
def firstNone : List (Option Nat) → Option Nat
  | [] => none
  | o :: l => if o = none then some 0 else (firstNone l).map (· + 1)

theorem fillFirst_true (v : Nat) (l : List (Option Nat)) : fillFirst v l true = (l, true) := by
  induction l with
  | nil => rfl
  | cons o l ih => simp [fillFirst, ih]

theorem fillFirst_false (v : Nat) (l : List (Option Nat)) :
    fillFirst v l false =
      match firstNone l with
      | some j => (l.set j (some v), true)
      | none => (l, false) := by
  induction l with
  | nil => rfl
  | cons o l ih =>
    cases o with
    | none => simp [fillFirst, firstNone, fillFirst_true]
    | some k =>
      simp only [fillFirst, firstNone, Option.isNone_some, Bool.false_and, ih]
      cases firstNone l <;> simp

theorem firstNone_get {l : List (Option Nat)} {j : Nat} (h : firstNone l = some j) :
    l.set j none = l := by
  induction l generalizing j with
  | nil => simp [firstNone] at h
  | cons o l ih =>
    by_cases ho : o = none
    · subst ho
      simp only [firstNone, if_true, Option.some.injEq] at h
      subst h; rfl
    · simp only [firstNone, ho, if_false, Option.map_eq_some_iff] at h
      obtain ⟨i, hi, rfl⟩ := h
      simp [ih hi]

/-- after filling the first empty slot with `v` (not present before), `index(v)` finds that slot -/
theorem idx?_set_firstNone {l : List (Option Nat)} {j v : Nat} (h : firstNone l = some j)
    (hv : some v ∉ l) : idx? (l.set j (some v)) v = some j := by
  induction l generalizing j with
  | nil => simp [firstNone] at h
  | cons o l ih =>
    simp only [List.mem_cons, not_or] at hv
    by_cases ho : o = none
    · subst ho
      simp only [firstNone, if_true, Option.some.injEq] at h
      subst h
      simp [idx?]
    · simp only [firstNone, ho, if_false, Option.map_eq_some_iff] at h
      obtain ⟨i, hi, rfl⟩ := h
      have : ¬ o = some v := fun e => hv.1 e.symm
      simp [idx?, this, ih hi hv.2]

theorem idx?_clear_ne {k c : Nat} (l : List (Option Nat)) (h : c ≠ k) :
    idx? (clear k l) c = idx? l c := by
  induction l with
  | nil => rfl
  | cons o l ih =>
    by_cases ho : o = some k
    · subst ho
      have : ¬ k = c := fun e => h e.symm
      simp [idx?, ih, this]
    · simp [idx?, ho, ih]

theorem clear_set_none (k : Nat) (l : List (Option Nat)) (i : Nat) :
    (clear k l).set i none = clear k (l.set i none) := by
  induction l generalizing i with
  | nil => rfl
  | cons o l ih =>
    cases i with
    | zero => simp
    | succ i => simp [ih]

theorem clear_set_some_ne {k c : Nat} (l : List (Option Nat)) (i : Nat) (h : c ≠ k) :
    (clear k l).set i (some c) = clear k (l.set i (some c)) := by
  induction l generalizing i with
  | nil => rfl
  | cons o l ih =>
    cases i with
    | zero => simp [h]
    | succ i => simp [ih]

theorem clear_comm (a b : Nat) (l : List (Option Nat)) : clear a (clear b l) = clear b (clear a l) := by
  induction l with
  | nil => rfl
  | cons o l ih =>
    simp only [clear_cons, ih, List.cons.injEq, and_true]
    by_cases h1 : o = some a <;> by_cases h2 : o = some b <;> simp [h1, h2]

/-- `clearO c l`: the slot(s) holding the (optional) node `c` emptied -/
def clearO : Option Nat → List (Option Nat) → List (Option Nat)
  | none, l => l
  | some k, l => clear k l

@[simp] theorem clearO_none (l) : clearO none l = l := rfl
@[simp] theorem clearO_some (k l) : clearO (some k) l = clear k l := rfl

theorem count_clear_le (k c : Nat) (l : List (Option Nat)) :
    (clear k l).count (some c) ≤ l.count (some c) := by
  induction l with
  | nil => simp
  | cons o l ih =>
    by_cases ho : o = some k
    · subst ho
      by_cases hkc : k = c
      · subst hkc; simp; omega
      · simp [hkc]; omega
    · simp only [clear_cons, ho, if_false, List.count_cons]
      split <;> omega

theorem firstNone_lt {l : List (Option Nat)} {j : Nat} (h : firstNone l = some j) : j < l.length := by
  induction l generalizing j with
  | nil => simp [firstNone] at h
  | cons o l ih =>
    by_cases ho : o = none
    · subst ho
      simp only [firstNone, if_true, Option.some.injEq] at h
      subst h; simp
    · simp only [firstNone, ho, if_false, Option.map_eq_some_iff] at h
      obtain ⟨i, hi, rfl⟩ := h
      have := ih hi
      simp; omega

theorem mem_set_firstNone {l : List (Option Nat)} {j v c : Nat} (h : firstNone l = some j) :
    some c ∈ l.set j (some v) ↔ c = v ∨ some c ∈ l := by
  induction l generalizing j with
  | nil => simp [firstNone] at h
  | cons o l ih =>
    by_cases ho : o = none
    · subst ho
      simp only [firstNone, if_true, Option.some.injEq] at h
      subst h
      simp
    · simp only [firstNone, ho, if_false, Option.map_eq_some_iff] at h
      obtain ⟨i, hi, rfl⟩ := h
      simp only [List.set_cons_succ, List.mem_cons, ih hi]
      grind

theorem count_set_firstNone {l : List (Option Nat)} {j v : Nat} (c : Nat) (h : firstNone l = some j) :
    (l.set j (some v)).count (some c) = l.count (some c) + (if c = v then 1 else 0) := by
  induction l generalizing j with
  | nil => simp [firstNone] at h
  | cons o l ih =>
    by_cases ho : o = none
    · subst ho
      simp only [firstNone, if_true, Option.some.injEq] at h
      subst h
      by_cases hc : c = v
      · subst hc; simp
      · have : ¬ v = c := fun e => hc e.symm
        simp [hc, this]
    · simp only [firstNone, ho, if_false, Option.map_eq_some_iff] at h
      obtain ⟨i, hi, rfl⟩ := h
      simp only [List.set_cons_succ, List.count_cons, ih hi]
      omega

theorem count_eq_zero_of_not_mem {c : Nat} {l : List (Option Nat)} (h : some c ∉ l) :
    l.count (some c) = 0 := List.count_eq_zero.2 h

theorem set_set_same {α} (l : List α) (i : Nat) (a b : α) : (l.set i a).set i b = l.set i b := by
  simp

end BinStore
