import BigtreeProofs.Lemmas.DagBridgeStep
/-!
# DagBridge — whole histories: the edge list of the final store is the replay of the documented effects
-/

namespace DagStore
open List

/-- the store `s` and the graph-level state `g` agree: same nodes, same names, same edges (each once) -/
structure Rel (s : DStore) (g : EState) : Prop where
  n : g.n = s.n
  names : g.names = s.names
  perm : (edges s).Perm g.E

theorem rel_estate (s : DStore) : Rel s (estate s) := ⟨rfl, rfl, Perm.refl _⟩

theorem asked_eq (s : DStore) (op : Op) : asked s.n op = requested s op := by
  cases op <;> rfl

/-! ## `n` and `names` under one step -/

theorem setParents_names (s : DStore) (hs : DWF0 s) (v : Nat) (a : Arg) (f : Fault) :
    (setParents true s v a f).1.names = s.names := by
  cases h : (setParents true s v a f).2 with
  | rej => rw [setParents_rej_id hs h]
  | ok => obtain ⟨l, _, _, _, he⟩ := setParents_ok h; rw [he]; simp

theorem setChildren_n (s : DStore) (hs : DWF0 s) (v : Nat) (a : Arg) (f : Fault) :
    (setChildren true s v a f).1.n = s.n := by
  cases h : (setChildren true s v a f).2 with
  | rej => rw [setChildren_rej_id hs h]
  | ok => obtain ⟨l, _, _, _, he⟩ := setChildren_ok h; rw [he]; simp

theorem setChildren_names (s : DStore) (hs : DWF0 s) (v : Nat) (a : Arg) (f : Fault) :
    (setChildren true s v a f).1.names = s.names := by
  cases h : (setChildren true s v a f).2 with
  | rej => rw [setChildren_rej_id hs h]
  | ok => obtain ⟨l, _, _, _, he⟩ := setChildren_ok h; rw [he]; simp

theorem delChildrenLoop_names (s : DStore) (v : Nat) (l : List Nat) : (delChildrenLoop s v l).names = s.names := by
  induction l generalizing s with
  | nil => rfl
  | cons c l ih => simp only [delChildrenLoop]; rw [ih]; rfl

/-- every call other than the constructor keeps the node set and the names -/
theorem step_n_names {s : DStore} (hs : DWF s) {op : Op} (hop : ∀ nm ps cs fp fc, op ≠ .construct nm ps cs fp fc) :
    (step true s op).1.n = s.n ∧ (step true s op).1.names = s.names := by
  cases op with
  | setParents v a f =>
    simp only [step]; split
    · exact ⟨setParents_n s hs.toDWF0 v a f, setParents_names s hs.toDWF0 v a f⟩
    · exact ⟨rfl, rfl⟩
  | setChildren v a f =>
    simp only [step]; split
    · exact ⟨setChildren_n s hs.toDWF0 v a f, setChildren_names s hs.toDWF0 v a f⟩
    · exact ⟨rfl, rfl⟩
  | rshift v o f =>
    simp only [step]; split
    · exact ⟨setParents_n s hs.toDWF0 _ _ f, setParents_names s hs.toDWF0 _ _ f⟩
    · exact ⟨rfl, rfl⟩
  | lshift v o f =>
    simp only [step]; split
    · exact ⟨setParents_n s hs.toDWF0 _ _ f, setParents_names s hs.toDWF0 _ _ f⟩
    · exact ⟨rfl, rfl⟩
  | delChildren v =>
    simp only [step]; split
    · exact ⟨delChildrenLoop_n _ _ _, delChildrenLoop_names _ _ _⟩
    · exact ⟨rfl, rfl⟩
  | delItem v nm =>
    simp only [step]; split
    · unfold delItem; split <;> exact ⟨rfl, rfl⟩
    · exact ⟨rfl, rfl⟩
  | construct nm ps cs fp fc => exact absurd rfl (hop nm ps cs fp fc)

/-- the constructor allocates the next id and records the name, whatever happens to its two assignments -/
theorem construct_n_names {s : DStore} (hs : DWF s) (nm : Str) (ps cs : Arg) (fp fc : Fault) :
    (step true s (.construct nm ps cs fp fc)).1.n = s.n + 1 ∧
    (step true s (.construct nm ps cs fp fc)).1.names = upd s.names s.n nm := by
  simp only [step, construct_eq]
  have h0 := dwf_alloc hs nm
  have hv : s.n < (alloc s nm).n := by simp [alloc]
  have e1 := setParents_n (alloc s nm) h0.toDWF0 s.n ps fp
  have e2 := setParents_names (alloc s nm) h0.toDWF0 s.n ps fp
  split
  · exact ⟨e1, e2⟩
  · have h1 := dwf_setParents h0 hv ps fp
    exact ⟨(setChildren_n _ h1.toDWF0 s.n cs fc).trans e1, (setChildren_names _ h1.toDWF0 s.n cs fc).trans e2⟩

/-! ## one accepted call -/

theorem perm_adds {E G R : List (Nat × Nat)} (h : E.Perm G) :
    (E ++ R.filter fun e => decide (e ∉ E)).Perm (G ++ R.filter fun e => decide (e ∉ G)) := by
  have : (R.filter fun e => decide (e ∉ E)) = R.filter fun e => decide (e ∉ G) := by
    apply filter_congr
    intro e _
    simp only [h.mem_iff]
  rw [this]
  exact h.append_right _

/-- the out-edges of `v` with a property of the target, read off the edge list -/
theorem edges_filter_src {s : DStore} (hs : DWF0 s) (v : Nat) (p : Nat → Bool) :
    ((edges s).filter fun e => e.1 == v && p e.2).Perm (((s.children v).filter p).map fun c => (v, c)) := by
  rw [perm_ext_iff_of_nodup ((nodup_edges hs).filter _)
    (Dag.nodup_map_of_inj (fun a b h => (Prod.mk.inj h).2) ((hs.ndc v).filter _))]
  rintro ⟨a, c⟩
  simp only [mem_filter, mem_edges, Bool.and_eq_true, beq_iff_eq, mem_map, Prod.mk.injEq]
  constructor
  · rintro ⟨⟨_, hc⟩, rfl, hp⟩
    exact ⟨c, ⟨hc, hp⟩, rfl, rfl⟩
  · rintro ⟨c', ⟨hc, hp⟩, rfl, rfl⟩
    refine ⟨⟨?_, hc⟩, rfl, hp⟩
    exact (hs.rng _ _ ((hs.sym _ _).2 hc)).1

/-- **an accepted call, read on the edge list alone, is its documented effect** -/
theorem step_ok_rel {s : DStore} (hs : DWF s) {g : EState} (hr : Rel s g) (op : Op)
    (h : (step true s op).2 = .ok) : Rel (step true s op).1 (g.apply op) := by
  have hassign : ∀ op : Op, op.isAssign = true → (step true s op).2 = .ok →
      (edges (step true s op).1).Perm (g.E ++ (asked g.n op).filter fun e => decide (e ∉ g.E)) := by
    intro op ha h
    rw [hr.n, asked_eq]
    exact (step_edges_adds hs ha h).trans (perm_adds hr.perm)
  cases op with
  | setParents v a f =>
    have hn := step_n_names hs (op := .setParents v a f) (by intros; exact Op.noConfusion)
    exact ⟨hr.n.trans hn.1.symm, hr.names.trans hn.2.symm, hassign _ rfl h⟩
  | setChildren v a f =>
    have hn := step_n_names hs (op := .setChildren v a f) (by intros; exact Op.noConfusion)
    exact ⟨hr.n.trans hn.1.symm, hr.names.trans hn.2.symm, hassign _ rfl h⟩
  | rshift v o f =>
    have hn := step_n_names hs (op := .rshift v o f) (by intros; exact Op.noConfusion)
    exact ⟨hr.n.trans hn.1.symm, hr.names.trans hn.2.symm, hassign _ rfl h⟩
  | lshift v o f =>
    have hn := step_n_names hs (op := .lshift v o f) (by intros; exact Op.noConfusion)
    exact ⟨hr.n.trans hn.1.symm, hr.names.trans hn.2.symm, hassign _ rfl h⟩
  | construct nm ps cs fp fc =>
    have hn := construct_n_names hs nm ps cs fp fc
    refine ⟨?_, ?_, hassign _ rfl h⟩
    · show g.n + 1 = _
      rw [hn.1, hr.n]
    · show upd g.names g.n nm = _
      rw [hn.2, hr.n, hr.names]
  | delChildren v =>
    have hn := step_n_names hs (op := .delChildren v) (by intros; exact Op.noConfusion)
    refine ⟨hr.n.trans hn.1.symm, hr.names.trans hn.2.symm, ?_⟩
    rw [step_edges_removes hs rfl]
    have : ((edges s).filter fun e => decide (e ∉ removed s (.delChildren v))) =
        (edges s).filter fun e => e.1 != v := by
      apply filter_congr
      rintro ⟨p, c⟩ he
      have hc := (mem_edges.1 he).2
      have hiff : (p, c) ∈ removed s (.delChildren v) ↔ p = v := by
        simp only [removed, mem_map, Prod.mk.injEq]
        constructor
        · rintro ⟨x, _, rfl, _⟩; rfl
        · rintro rfl; exact ⟨c, hc, rfl, rfl⟩
      by_cases hp : p = v
      · subst hp
        have := hiff.2 rfl
        simp [this]
      · have : (p, c) ∉ removed s (.delChildren v) := fun h => hp (hiff.1 h)
        simp [this, hp]
    rw [this]
    exact hr.perm.filter _
  | delItem v nm =>
    have hn := step_n_names hs (op := .delItem v nm) (by intros; exact Op.noConfusion)
    -- the candidates on both sides
    have hcand : (g.E.filter fun e => e.1 == v && g.names e.2 == nm).Perm
        (((s.children v).filter fun c => s.names c == nm).map fun c => (v, c)) := by
      rw [hr.names]
      exact (hr.perm.symm.filter _).trans (edges_filter_src hs.toDWF0 v fun c => s.names c == nm)
    have hshape : ∀ L : List Nat, L = [] ∨ (∃ c, L = [c]) ∨ ∃ a b t, L = a :: b :: t := by
      intro L
      match L with
      | [] => exact Or.inl rfl
      | [c] => exact Or.inr (Or.inl ⟨c, rfl⟩)
      | a :: b :: t => exact Or.inr (Or.inr ⟨a, b, t, rfl⟩)
    have hE : (edges (step true s (.delItem v nm)).1).Perm (g.apply (.delItem v nm)).E := by
      rw [step_edges_removes hs rfl]
      rcases hshape ((s.children v).filter fun c => s.names c == nm) with hf | ⟨c', hf⟩ | ⟨a, b, t, hf⟩
      · rw [hf] at hcand
        have hnil := hcand.eq_nil
        simp only [EState.apply, removed, hf, hnil]
        rw [filter_eq_self.2 (by intro e _; simp)]
        exact hr.perm
      · rw [hf] at hcand
        have hone : (g.E.filter fun e => e.1 == v && g.names e.2 == nm) = [(v, c')] := by
          simpa using hcand.eq_singleton
        simp only [EState.apply, removed, hf, hone]
        have : ((edges s).filter fun e => decide (e ∉ [(v, c')])) = (edges s).filter fun x => x != (v, c') := by
          apply filter_congr
          intro e _
          by_cases he : e = (v, c') <;> simp [he]
        rw [this]
        exact hr.perm.filter _
      · rw [hf] at hcand
        have hlen := hcand.length_eq
        simp only [map_cons, length_cons, length_map] at hlen
        have hne : ∀ e, (g.E.filter fun e => e.1 == v && g.names e.2 == nm) ≠ [e] := by
          intro e he
          rw [he] at hlen
          simp at hlen
        simp only [EState.apply, removed, hf]
        rw [filter_eq_self.2 (by intro e _; simp)]
        first
          | exact hr.perm
          | (split
             · rename_i e he
               exact absurd he (hne e)
             · exact hr.perm)
    have hfield : (g.apply (.delItem v nm)).n = g.n ∧ (g.apply (.delItem v nm)).names = g.names := by
      simp only [EState.apply]
      split <;> exact ⟨rfl, rfl⟩
    exact ⟨hfield.1.trans (hr.n.trans hn.1.symm), hfield.2.trans (hr.names.trans hn.2.symm), hE⟩

/-! ## histories -/

/-- no constructor call of the history raises (a raising constructor may leave a half-built node behind) -/
def NoRejConstruct : DStore → List Op → Prop
  | _, [] => True
  | s, op :: ops =>
    ((step true s op).2 = .rej → ∀ nm ps cs fp fc, op ≠ .construct nm ps cs fp fc) ∧
    NoRejConstruct (step true s op).1 ops

/-- **whole histories**: the edge list of the final store is, up to order, the replay of the documented
effects of the accepted calls on the edge list of the initial one -/
theorem run_rel : ∀ (ops : List Op) (s : DStore) (g : EState), DWF s → Rel s g → NoRejConstruct s ops →
    Rel (run true s ops).1 (g.replay (ops.zip (run true s ops).2)) := by
  intro ops
  induction ops with
  | nil => intro s g _ hr _; exact hr
  | cons op ops ih =>
    intro s g hs hr hx
    have hs1 := dwf_step hs op
    simp only [run, zip_cons_cons]
    cases ho : (step true s op).2 with
    | ok =>
      simp only [EState.replay]
      exact ih _ _ hs1 (step_ok_rel hs hr op ho) hx.2
    | rej =>
      simp only [EState.replay]
      refine ih _ _ hs1 ?_ hx.2
      rw [step_rej_id hs.toDWF0 (hx.1 ho) ho]
      exact hr

end DagStore
