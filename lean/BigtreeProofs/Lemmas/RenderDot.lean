import BigtreeModel.Render
import BigtreeProofs.Lemmas.RenderNat
import BigtreeProofs.Lemmas.RenderLinks
/-! Helper lemmas for C18 (tree_to_dot), part 1: vertex ids are pairwise distinct when sibling names are
distinct, the separator occurs in no name and no name ends in a digit. -/
namespace Render

/-! ### splitting at the first position where a predicate fails -/
theorem span_unique {α} (P : α → Prop) : ∀ {u v r s : List α},
    (∀ x ∈ u, P x) → (∀ x ∈ v, P x) → (∀ x, r.head? = some x → ¬ P x) → (∀ x, s.head? = some x → ¬ P x) →
    u ++ r = v ++ s → u = v ∧ r = s
  | [], [], _, _, _, _, _, _, h => ⟨rfl, by simpa using h⟩
  | [], y :: v, r, s, _, hv, hr, _, h => by
    simp only [List.nil_append] at h
    exact absurd (hv y (by simp)) (hr y (by simp [h]))
  | x :: u, [], r, s, hu, _, _, hs, h => by
    simp only [List.nil_append] at h
    exact absurd (hu x (by simp)) (hs x (by simp [← h]))
  | x :: u, y :: v, r, s, hu, hv, hr, hs, h => by
    simp only [List.cons_append, List.cons.injEq] at h
    have := span_unique P (u := u) (v := v) (fun z hz => hu z (by simp [hz])) (fun z hz => hv z (by simp [hz])) hr hs h.2
    exact ⟨by rw [h.1, this.1], this.2⟩

/-- (B1) a label not ending in a digit followed by a decimal number determines both -/
theorem label_number_inj {a b : Str} {i j : Nat} (ha : noDigitEnd a = true) (hb : noDigitEnd b = true)
    (h : a ++ natStr i = b ++ natStr j) : a = b ∧ i = j := by
  have h' := congrArg List.reverse h
  simp only [List.reverse_append] at h'
  have key := span_unique (fun c : Char => c.isDigit = true)
    (u := (natStr i).reverse) (v := (natStr j).reverse) (r := a.reverse) (s := b.reverse)
    (fun x hx => natStr_isDigit i x (by simpa using hx))
    (fun x hx => natStr_isDigit j x (by simpa using hx))
    (by
      intro x hx
      simp only [List.head?_reverse] at hx
      simp only [noDigitEnd, hx] at ha
      simpa using ha)
    (by
      intro x hx
      simp only [List.head?_reverse] at hx
      simp only [noDigitEnd, hx] at hb
      simpa using hb)
    h'
  exact ⟨List.reverse_inj.mp key.2, natStr_injective (List.reverse_inj.mp key.1)⟩

/-! ### the name dictionary -/
theorem put_nil (k : Str) (v : List Str) : NameDict.put [] k v = [(k, v)] := rfl

theorem put_cons_eq (ev : List Str) (nd : NameDict) (k : Str) (v : List Str) :
    NameDict.put ((k, ev) :: nd) k v = (k, v) :: nd.map (fun e => if e.1 == k then (k, v) else e) := by
  simp [NameDict.put]

theorem put_cons_ne (ek : Str) (ev : List Str) (nd : NameDict) (k : Str) (v : List Str) (h : ek ≠ k) :
    NameDict.put ((ek, ev) :: nd) k v = (ek, ev) :: NameDict.put nd k v := by
  have hb : (ek == k) = false := by simpa using h
  unfold NameDict.put
  by_cases ha : nd.any (·.1 == k) = true
  · simp only [List.any_cons, hb, Bool.false_or, ha, ↓reduceIte, List.map_cons, Bool.false_eq_true]
  · simp only [List.any_cons, hb, Bool.false_or, ha, Bool.false_eq_true, ↓reduceIte, List.cons_append]

theorem get_cons_eq (ev : List Str) (nd : NameDict) (k : Str) : NameDict.get ((k, ev) :: nd) k = ev := by
  simp [NameDict.get, List.lookup]

theorem get_cons_ne (ek : Str) (ev : List Str) (nd : NameDict) (k : Str) (h : k ≠ ek) :
    NameDict.get ((ek, ev) :: nd) k = NameDict.get nd k := by
  have hb : (k == ek) = false := by simpa using h
  simp [NameDict.get, List.lookup, hb]

theorem get_put_same : ∀ (nd : NameDict) (k : Str) (v : List Str), (nd.put k v).get k = v
  | [], k, v => by rw [put_nil, get_cons_eq]
  | (ek, ev) :: nd, k, v => by
    by_cases he : ek = k
    · subst he; rw [put_cons_eq, get_cons_eq]
    · rw [put_cons_ne _ _ _ _ _ he, get_cons_ne _ _ _ _ (fun x => he x.symm)]
      exact get_put_same nd k v

theorem get_map_other (nd : NameDict) (k k' : Str) (v : List Str) (h : k' ≠ k) :
    NameDict.get (nd.map (fun e => if e.1 == k then (k, v) else e)) k' = NameDict.get nd k' := by
  induction nd with
  | nil => rfl
  | cons e nd ih =>
    obtain ⟨ek, ev⟩ := e
    by_cases he : ek = k
    · subst he
      simp only [List.map_cons, beq_self_eq_true, ↓reduceIte]
      rw [get_cons_ne _ _ _ _ h, get_cons_ne _ _ _ _ h, ih]
    · have hb : (ek == k) = false := by simpa using he
      simp only [List.map_cons, hb, Bool.false_eq_true, ↓reduceIte]
      by_cases hk : k' = ek
      · subst hk; rw [get_cons_eq, get_cons_eq]
      · rw [get_cons_ne _ _ _ _ hk, get_cons_ne _ _ _ _ hk, ih]

theorem get_put_other : ∀ (nd : NameDict) (k k' : Str) (v : List Str), k' ≠ k → (nd.put k v).get k' = nd.get k'
  | [], k, k', v, h => by rw [put_nil, get_cons_ne _ _ _ _ h]
  | (ek, ev) :: nd, k, k', v, h => by
    by_cases he : ek = k
    · subst he
      rw [put_cons_eq, get_cons_ne _ _ _ _ h, get_cons_ne _ _ _ _ h, get_map_other _ _ _ _ h]
    · rw [put_cons_ne _ _ _ _ _ he]
      by_cases hk : k' = ek
      · subst hk; rw [get_cons_eq, get_cons_eq]
      · rw [get_cons_ne _ _ _ _ hk, get_cons_ne _ _ _ _ hk]
        exact get_put_other nd k k' v h
end Render

namespace Render
/-! ### `tree_to_dot` as a fold over the pre-order sequence of (label, path_name) -/

def dstep (nd : NameDict) (e : Str × Str) : NameDict :=
  nd.put e.1 (if (nd.get e.1).contains e.2 then nd.get e.1 else nd.get e.1 ++ [e.2])

def idsOf : NameDict → List (Str × Str) → List Str
  | _, [] => []
  | nd, e :: r => (e.1 ++ natStr (((dstep nd e).get e.1).idxOf e.2)) :: idsOf (dstep nd e) r

theorem idsOf_append : ∀ (a b : List (Str × Str)) (nd : NameDict),
    idsOf nd (a ++ b) = idsOf nd a ++ idsOf (a.foldl dstep nd) b
  | [], _, _ => rfl
  | e :: a, b, nd => by simp [idsOf, idsOf_append a b]

mutual
def seqT (sep pp : Str) : Tree → List (Str × Str)
  | .node _ n _ cs => (n, pp ++ sep ++ n) :: seqL sep (pp ++ sep ++ n) cs
def seqL (sep pp : Str) : List Tree → List (Str × Str)
  | [] => []
  | c :: cs => seqT sep pp c ++ seqL sep pp cs
end

mutual
theorem dotT_seq (sep : Str) (nd : NameDict) (parent : Option Str) (pp : Str) (t : Tree) :
    (dotT sep nd parent pp t).vertices.map (·.1) = idsOf nd (seqT sep pp t) ∧
    (dotT sep nd parent pp t).dict = (seqT sep pp t).foldl dstep nd := by
  match t with
  | .node i n a cs =>
    have hg : (dstep nd (n, pp ++ sep ++ n)).get n =
        (if (nd.get n).contains (pp ++ sep ++ n) then nd.get n else nd.get n ++ [pp ++ sep ++ n]) := by
      unfold dstep; exact get_put_same _ _ _
    have ih := dotL_seq sep (dstep nd (n, pp ++ sep ++ n))
      (n ++ natStr ((dstep nd (n, pp ++ sep ++ n)).get n |>.idxOf (pp ++ sep ++ n))) (pp ++ sep ++ n) cs
    simp only [dotT, seqT, idsOf, List.map_cons, List.foldl_cons]
    rw [hg] at ih
    exact ⟨by rw [hg]; exact congrArg _ ih.1, ih.2⟩
theorem dotL_seq (sep : Str) (nd : NameDict) (parent : Str) (pp : Str) (cs : List Tree) :
    (dotL sep nd parent pp cs).vertices.map (·.1) = idsOf nd (seqL sep pp cs) ∧
    (dotL sep nd parent pp cs).dict = (seqL sep pp cs).foldl dstep nd := by
  match cs with
  | [] => exact ⟨rfl, rfl⟩
  | c :: cs =>
    have h1 := dotT_seq sep nd (some parent) pp c
    have h2 := dotL_seq sep (dotT sep nd (some parent) pp c).dict parent pp cs
    simp only [dotL, seqL, List.map_append, idsOf_append, List.foldl_append]
    rw [h1.2] at h2
    exact ⟨by rw [h1.1, h1.2, h2.1], by rw [h1.2]; exact h2.2⟩
end
end Render

namespace Render
/-! ### the list-level argument -/
def cnt (prev : List (Str × Str)) (n : Str) : Nat := (prev.filter (fun e => e.1 == n)).length

def DInv (nd : NameDict) (prev : List (Str × Str)) : Prop :=
  ∀ n, nd.get n = (prev.filter (fun e => e.1 == n)).map (·.2)

theorem cnt_append_same (prev : List (Str × Str)) (e : Str × Str) : cnt (prev ++ [e]) e.1 = cnt prev e.1 + 1 := by
  simp [cnt, List.filter_append]

theorem cnt_append_le (prev : List (Str × Str)) (e : Str × Str) (n : Str) : cnt prev n ≤ cnt (prev ++ [e]) n := by
  simp [cnt, List.filter_append]

theorem dstep_inv {nd : NameDict} {prev : List (Str × Str)} {e : Str × Str} (h : DInv nd prev)
    (hp : e.2 ∉ prev.map (·.2)) :
    DInv (dstep nd e) (prev ++ [e]) ∧ ((dstep nd e).get e.1).idxOf e.2 = cnt prev e.1 := by
  have hnot : e.2 ∉ nd.get e.1 := by
    rw [h e.1]
    intro hm
    apply hp
    simp only [List.mem_map, List.mem_filter] at hm ⊢
    obtain ⟨x, ⟨hx, _⟩, hx2⟩ := hm
    exact ⟨x, hx, hx2⟩
  have hc : (nd.get e.1).contains e.2 = false := by simpa using hnot
  have hget : (dstep nd e).get e.1 = nd.get e.1 ++ [e.2] := by
    unfold dstep; rw [get_put_same, hc]; simp
  constructor
  · intro n
    by_cases hn : n = e.1
    · subst hn
      rw [hget, h e.1]
      simp [List.filter_append]
    · have hb : (e.1 == n) = false := by simpa using fun x => hn x.symm
      unfold dstep
      rw [get_put_other _ _ _ _ hn, h n]
      simp [List.filter_append, hb]
  · rw [hget, h e.1]
    rw [h e.1] at hnot
    simp only [cnt]
    rw [List.idxOf_append]
    simp [hnot]

def specIds : List (Str × Str) → List (Str × Str) → List Str
  | _, [] => []
  | prev, e :: r => (e.1 ++ natStr (cnt prev e.1)) :: specIds (prev ++ [e]) r

theorem idsOf_eq_spec : ∀ (seq : List (Str × Str)) (nd : NameDict) (prev : List (Str × Str)),
    DInv nd prev → (prev.map (·.2) ++ seq.map (·.2)).Nodup → idsOf nd seq = specIds prev seq
  | [], _, _, _, _ => rfl
  | e :: r, nd, prev, h, hn => by
    have hp : e.2 ∉ prev.map (·.2) := by
      have := (List.nodup_append.mp hn).2.2
      intro hm
      exact this _ hm _ (by simp) rfl
    have hs := dstep_inv h hp
    simp only [idsOf, specIds, hs.2]
    congr 1
    apply idsOf_eq_spec r _ _ hs.1
    simpa [List.append_assoc] using hn

theorem specIds_form : ∀ (seq prev : List (Str × Str)), ∀ id ∈ specIds prev seq,
    ∃ e ∈ seq, ∃ k, id = e.1 ++ natStr k ∧ cnt prev e.1 ≤ k
  | [], _, _, h => by simp [specIds] at h
  | e :: r, prev, id, h => by
    simp only [specIds, List.mem_cons] at h
    rcases h with rfl | h
    · exact ⟨e, by simp, _, rfl, Nat.le_refl _⟩
    · obtain ⟨e', he', k, hk, hle⟩ := specIds_form r _ id h
      exact ⟨e', by simp [he'], k, hk, Nat.le_trans (cnt_append_le prev e e'.1) hle⟩

theorem specIds_nodup : ∀ (seq prev : List (Str × Str)), (∀ e ∈ seq, noDigitEnd e.1 = true) →
    (specIds prev seq).Nodup
  | [], _, _ => by simp [specIds]
  | e :: r, prev, hd => by
    simp only [specIds, List.nodup_cons]
    refine ⟨?_, specIds_nodup r _ (fun x hx => hd x (by simp [hx]))⟩
    intro hm
    obtain ⟨e', he', k, hk, hle⟩ := specIds_form r _ _ hm
    have := label_number_inj (hd e (by simp)) (hd e' (by simp [he'])) hk
    rw [← this.1, cnt_append_same] at hle
    omega

/-- ids are pairwise distinct when the paths are and no label ends in a digit -/
theorem idsOf_nodup (seq : List (Str × Str)) (hp : (seq.map (·.2)).Nodup) (hd : ∀ e ∈ seq, noDigitEnd e.1 = true) :
    (idsOf [] seq).Nodup := by
  rw [idsOf_eq_spec seq [] [] (by intro n; simp [NameDict.get, List.lookup]) (by simpa using hp)]
  exact specIds_nodup seq [] hd
end Render

namespace Render
/-! ### distinct nodes have distinct path names -/

def StartsWith (c : Char) (rest : Str) : Prop := ∀ x, rest.head? = some x → x = c

mutual
theorem seqT_form (c : Char) (pp : Str) (t : Tree) :
    ∀ e ∈ seqT [c] pp t, ∃ rest, e.2 = pp ++ c :: (t.name ++ rest) ∧ StartsWith c rest := by
  match t with
  | .node i n a cs =>
    intro e he
    simp only [seqT, List.mem_cons] at he
    rcases he with rfl | he
    · exact ⟨[], by simp, by intro x hx; simp at hx⟩
    · obtain ⟨k, _, rest, hr, _⟩ := seqL_form c (pp ++ [c] ++ n) cs e he
      exact ⟨c :: (k.name ++ rest), by simp [hr], by intro x hx; simpa using hx.symm⟩
theorem seqL_form (c : Char) (pp : Str) (cs : List Tree) :
    ∀ e ∈ seqL [c] pp cs, ∃ k ∈ cs, ∃ rest, e.2 = pp ++ c :: (k.name ++ rest) ∧ StartsWith c rest := by
  match cs with
  | [] => intro e he; simp [seqL] at he
  | k :: ks =>
    intro e he
    simp only [seqL, List.mem_append] at he
    rcases he with he | he
    · obtain ⟨rest, hr, hs⟩ := seqT_form c pp k e he
      exact ⟨k, by simp, rest, hr, hs⟩
    · obtain ⟨k', hk', rest, hr, hs⟩ := seqL_form c pp ks e he
      exact ⟨k', by simp [hk'], rest, hr, hs⟩
end

mutual
theorem seqT_labels (sep pp : Str) (t : Tree) : ∀ e ∈ seqT sep pp t, e.1 ∈ namesT t := by
  match t with
  | .node i n a cs =>
    intro e he
    simp only [seqT, List.mem_cons] at he
    rcases he with rfl | he
    · simp [namesT]
    · simp [namesT, seqL_labels sep _ cs e he]
theorem seqL_labels (sep pp : Str) (cs : List Tree) : ∀ e ∈ seqL sep pp cs, e.1 ∈ namesL cs := by
  match cs with
  | [] => intro e he; simp [seqL] at he
  | k :: ks =>
    intro e he
    simp only [seqL, List.mem_append] at he
    simp only [namesL, List.mem_append]
    rcases he with he | he
    · exact Or.inl (seqT_labels sep pp k e he)
    · exact Or.inr (seqL_labels sep pp ks e he)
end

theorem name_mem_namesT (t : Tree) : t.name ∈ namesT t := by
  match t with
  | .node i n a cs => simp [namesT]

theorem namesL_of_mem {k : Tree} {cs : List Tree} (h : k ∈ cs) : ∀ n ∈ namesT k, n ∈ namesL cs := by
  induction cs with
  | nil => simp at h
  | cons x xs ih =>
    intro n hn
    simp only [namesL, List.mem_append]
    rcases List.mem_cons.mp h with rfl | h
    · exact Or.inl hn
    · exact Or.inr (ih h n hn)

mutual
theorem seqT_paths_nodup (c : Char) (pp : Str) (t : Tree) (hsib : sibDistinct t = true)
    (hsep : ∀ n ∈ namesT t, c ∉ n) : ((seqT [c] pp t).map (·.2)).Nodup := by
  match t with
  | .node i n a cs =>
    simp only [sibDistinct, Bool.and_eq_true, decide_eq_true_eq] at hsib
    simp only [seqT, List.map_cons, List.nodup_cons]
    refine ⟨?_, seqL_paths_nodup c _ cs hsib.1 hsib.2 (fun m hm => hsep m (by simp [namesT, hm]))⟩
    intro hm
    obtain ⟨e, he, heq⟩ := List.mem_map.mp hm
    obtain ⟨k, _, rest, hr, _⟩ := seqL_form c (pp ++ [c] ++ n) cs e he
    rw [hr] at heq
    have := congrArg List.length heq
    simp at this
theorem seqL_paths_nodup (c : Char) (pp : Str) (cs : List Tree) (hnd : (cs.map Tree.name).Nodup)
    (hsib : sibDistinct.sibDistinctL cs = true) (hsep : ∀ n ∈ namesL cs, c ∉ n) :
    ((seqL [c] pp cs).map (·.2)).Nodup := by
  match cs with
  | [] => simp [seqL]
  | k :: ks =>
    simp only [sibDistinct.sibDistinctL, Bool.and_eq_true] at hsib
    simp only [List.map_cons, List.nodup_cons] at hnd
    simp only [seqL, List.map_append]
    rw [List.nodup_append]
    refine ⟨seqT_paths_nodup c pp k hsib.1 (fun m hm => hsep m (by simp [namesL, hm])),
      seqL_paths_nodup c pp ks hnd.2 hsib.2 (fun m hm => hsep m (by simp [namesL, hm])), ?_⟩
    intro x hx y hy hxy
    subst hxy
    obtain ⟨e1, he1, h1⟩ := List.mem_map.mp hx
    obtain ⟨e2, he2, h2⟩ := List.mem_map.mp hy
    obtain ⟨r1, hr1, hs1⟩ := seqT_form c pp k e1 he1
    obtain ⟨k', hk', r2, hr2, hs2⟩ := seqL_form c pp ks e2 he2
    have heq : k.name ++ r1 = k'.name ++ r2 := by
      have : pp ++ c :: (k.name ++ r1) = pp ++ c :: (k'.name ++ r2) := by rw [← hr1, ← hr2, h1, h2]
      simpa using this
    have hk1 : c ∉ k.name := hsep _ (by simp [namesL, name_mem_namesT])
    have hk2 : c ∉ k'.name := hsep _ (by
      simp only [namesL, List.mem_append]
      exact Or.inr (namesL_of_mem hk' _ (name_mem_namesT k')))
    have := span_unique (fun x : Char => x ≠ c) (u := k.name) (v := k'.name) (r := r1) (s := r2)
      (fun x hx he => hk1 (he ▸ hx)) (fun x hx he => hk2 (he ▸ hx))
      (fun x hx hne => hne (hs1 x hx)) (fun x hx hne => hne (hs2 x hx)) heq
    exact hnd.1 (by rw [this.1]; exact List.mem_map.mpr ⟨k', hk', rfl⟩)
end

/-- `dot_ids_injective_partial`: ids pairwise distinct under the three hypotheses -/
theorem dot_ids_nodup (c : Char) (t : Tree) (hsib : sibDistinct t = true)
    (hsep : ∀ n ∈ namesT t, c ∉ n) (hdig : ∀ n ∈ namesT t, noDigitEnd n = true) :
    (dotIds [c] t).Nodup := by
  unfold dotIds
  rw [(dotT_seq [c] [] none [] t).1]
  exact idsOf_nodup _ (seqT_paths_nodup c [] t hsib hsep) (fun e he => hdig _ (seqT_labels _ _ t e he))
end Render
