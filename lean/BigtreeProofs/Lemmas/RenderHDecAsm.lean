import BigtreeProofs.Lemmas.RenderH
/-!
# `assemble`: the connector column (for the decoder proof)

* `padRow`, `ConnCol`: what the prefix column looks like for a node with at least two child slots:
  `firstChild` on the first child's row, `lastChild` on the last child's row, stems / subsequent-child
  glyphs strictly between (except the node's own row, which carries `nodeStr` and split/middle), blanks elsewhere;
* `cRows`: the children's own rows computed from the parts (`childRows_eq_cRows`);
* `assemble_conn` (`Framed2`), `assemble_single`.
-/

namespace Render

/-- a prefix row that carries only a glyph in the connector column -/
def padRow (ns : Str) (g : Char) : Str := List.replicate ns.length ' ' ++ [g]

/-- the connector column of a node with at least two child slots -/
structure ConnCol (S : HStyle) (ns : Str) (pre : List Str) (first mid last : Nat) : Prop where
  lt1 : first < mid
  lt2 : mid < last
  lt3 : last < pre.length
  hfirst : pre[first]? = some (padRow ns S.firstChild)
  hlast : pre[last]? = some (padRow ns S.lastChild)
  hmid : ∃ g, (g = S.splitBranch ∨ g = S.middleChild) ∧ pre[mid]? = some (ns ++ [g])
  hbetween : ∀ r, first < r → r < last → r ≠ mid →
    pre[r]? = some (padRow ns S.stem) ∨ pre[r]? = some (padRow ns S.subsequentChild)
  hpad : ∀ r x, pre[r]? = some x → r ≠ mid → ∃ g, x = padRow ns g

theorem getElem?_seg {α} (P I R : List α) (r : Nat) (h1 : P.length ≤ r) (h2 : r < P.length + I.length) :
    ∃ y ∈ I, (P ++ I ++ R)[r]? = some y := by
  refine ⟨I[r - P.length]'(by omega), List.getElem_mem _, ?_⟩
  rw [List.getElem?_append_left (by simp; omega), List.getElem?_append_right h1]
  exact List.getElem?_eq_getElem _

theorem connCol_of_shape (S : HStyle) (ns : Str) (A I E : List Str) (mid : Nat) (g : Char)
    (hg : g = S.splitBranch ∨ g = S.middleChild)
    (hA : ∀ y ∈ A, y = padRow ns ' ') (hE : ∀ y ∈ E, y = padRow ns ' ')
    (hI : ∀ y ∈ I, y = padRow ns S.stem ∨ y = padRow ns S.subsequentChild)
    (h1 : A.length < mid) (h2 : mid < A.length + 1 + I.length) :
    ConnCol S ns ((A ++ [padRow ns S.firstChild] ++ I ++ [padRow ns S.lastChild] ++ E).set mid (ns ++ [g]))
      A.length mid (A.length + 1 + I.length) := by
  have hlen : (A ++ [padRow ns S.firstChild] ++ I ++ [padRow ns S.lastChild] ++ E).length
      = A.length + 1 + I.length + 1 + E.length := by simp; omega
  have hall : ∀ y ∈ A ++ [padRow ns S.firstChild] ++ I ++ [padRow ns S.lastChild] ++ E, ∃ g', y = padRow ns g' := by
    intro y hy
    simp only [List.mem_append, List.mem_singleton] at hy
    rcases hy with (((hy | hy) | hy) | hy) | hy
    · exact ⟨_, hA y hy⟩
    · exact ⟨_, hy⟩
    · rcases hI y hy with h | h <;> exact ⟨_, h⟩
    · exact ⟨_, hy⟩
    · exact ⟨_, hE y hy⟩
  refine ⟨h1, h2, by rw [List.length_set, hlen]; omega, ?_, ?_, ⟨g, hg, ?_⟩, ?_, ?_⟩
  · rw [List.getElem?_set_ne (by omega)]
    simp only [List.append_assoc, List.singleton_append]
    exact getElem?_at _ _ _ _ rfl
  · rw [List.getElem?_set_ne (by omega)]
    rw [List.append_assoc _ [_] E, List.singleton_append]
    exact getElem?_at _ _ _ _ (by simp; omega)
  · exact List.getElem?_set_self (by rw [hlen]; omega)
  · intro r hr1 hr2 hr3
    rw [List.getElem?_set_ne (by omega)]
    rw [List.append_assoc _ [_] E]
    obtain ⟨y, hy, hyr⟩ := getElem?_seg (A ++ [padRow ns S.firstChild]) I ([padRow ns S.lastChild] ++ E) r
      (by simp; omega) (by simp; omega)
    rw [hyr]
    rcases hI y hy with h | h <;> simp [h]
  · intro r x hx hr
    rw [List.getElem?_set_ne (by omega)] at hx
    exact hall x (List.mem_of_getElem? hx)

theorem connCol_of_shape' (S : HStyle) (ns : Str) (A I E : List Str) (first mid last : Nat) (g : Char)
    (hg : g = S.splitBranch ∨ g = S.middleChild)
    (hA : ∀ y ∈ A, y = padRow ns ' ') (hE : ∀ y ∈ E, y = padRow ns ' ')
    (hI : ∀ y ∈ I, y = padRow ns S.stem ∨ y = padRow ns S.subsequentChild)
    (hf : A.length = first) (hl : A.length + 1 + I.length = last)
    (h1 : first < mid) (h2 : mid < last) :
    ConnCol S ns ((A ++ [padRow ns S.firstChild] ++ I ++ [padRow ns S.lastChild] ++ E).set mid (ns ++ [g]))
      first mid last := by
  subst hf hl
  exact connCol_of_shape S ns A I E mid g hg hA hE hI h1 h2

theorem set_in_mid {α} (P B : List α) (s : α) (C R R' : List α) (x : α) (n : Nat) (hn : n = P.length + B.length) :
    (P ++ (B ++ [s] ++ C) ++ R ++ R').set n x = P ++ B ++ [x] ++ C ++ R ++ R' := by
  subst hn
  simp

/-- rows of the children themselves, from the parts -/
def cRows (off : Nat) (gap : Bool) : List (List Str × Nat) → List Nat
  | [] => []
  | p :: ps => (off + p.2) :: cRows (off + p.1.length + (if gap then 1 else 0)) gap ps

theorem cRows_false (ps : List (List Str × Nat)) : ∀ off, cRows off false ps = bIdx off ps := by
  induction ps with
  | nil => intro off; simp [cRows]
  | cons p ps ih => intro off; simp [cRows, ih, Nat.add_comm]

theorem childRows_eq_cRows (S : HStyle) (inter : Bool) (pad : Nat → Nat) (d : Nat) (gap : Bool)
    (cs : List HTree) : ∀ off, childRows S inter pad d off gap cs = cRows off gap (hblockL S inter pad d cs) := by
  induction cs with
  | nil => intro off; simp [childRows, cRows, hblockL]
  | cons c cs ih => intro off; simp [childRows, cRows, hblockL, ih]

theorem bIdx_le_last (ps : List (List Str × Nat)) (hg : Good ps) : ∀ a, ∀ x ∈ bIdx a ps, x ≤ a + aLast ps := by
  induction ps with
  | nil => simp
  | cons p ps ih =>
    intro a x hx
    cases ps with
    | nil => simp at hx; simp [hx]; omega
    | cons q r =>
      rw [bIdx_cons] at hx
      rw [aLast_cons]
      simp only [List.mem_cons] at hx
      rcases hx with rfl | hx
      · have := hg p (by simp); omega
      · have := ih (fun y hy => hg y (List.mem_cons_of_mem _ hy)) (a + p.1.length) x (by simpa using hx)
        omega

theorem bIdx_ge_first (ps : List (List Str × Nat)) (hg : Good ps) (a : Nat) :
    ∀ x ∈ bIdx a ps, a + aFirst ps ≤ x := by
  cases ps with
  | nil => simp
  | cons p ps =>
    intro x hx
    rw [bIdx_cons] at hx
    simp only [List.mem_cons] at hx
    rcases hx with rfl | hx
    · simp; omega
    · have := bIdx_ge ps _ x hx
      have := hg p (by simp)
      simp; omega

theorem midSec_init (x y z : Str) (r : List Nat) : ∀ (b0 b1 : Nat),
    ∃ init, midSec x y z (b0 :: b1 :: r) = init ++ [z] ∧ ∀ s ∈ init, s = x ∨ s = y := by
  induction r with
  | nil => intro b0 b1; exact ⟨_, midSec_two x y z b0 b1, by simp⟩
  | cons b2 r ih =>
    intro b0 b1
    obtain ⟨init, h1, h2⟩ := ih b1 b2
    refine ⟨List.replicate (b1 - b0 - 1) x ++ [y] ++ init, ?_, ?_⟩
    · rw [midSec_cons, h1]; simp
    · intro s hs
      simp only [List.mem_append, List.mem_replicate, List.mem_singleton] at hs
      rcases hs with (hs | hs) | hs
      · exact Or.inl hs.2
      · exact Or.inr hs
      · exact h2 s hs

/-- the refined statement about `assemble` for at least two parts -/
def Framed2 (S : HStyle) (ns : Str) (ps : List (List Str × Nat)) : Prop :=
  ∃ pre first last,
    (assemble S ns ps).1 = List.zipWith (· ++ ·) pre (joinGap (gapInserted ps) ps) ∧
    pre.length = (joinGap (gapInserted ps) ps).length ∧
    ConnCol S ns pre first (assemble S ns ps).2 last ∧
    ∀ x ∈ cRows 0 (gapInserted ps) ps, first ≤ x ∧ x ≤ last

theorem framed2_two_nogap (S : HStyle) (ns : Str) (a b : List Str × Nat) (ha : PInv a) (hb : PInv b)
    (h : gapInserted [a, b] = false) : Framed2 S ns [a, b] := by
  have hla := ha.lt
  have hlb := hb.lt
  have hg : Good [a, b] := by intro p hp; simp at hp; rcases hp with rfl | rfl <;> assumption
  unfold Framed2
  rw [assemble_two_nogap S ns a b h, h]
  have h' := h
  simp only [gapInserted, beq_eq_false_iff_ne, ne_eq] at h'
  generalize hm : (a.2 + (a.1.length + b.2)) / 2 = m
  have hm1 : a.2 < m := by omega
  have hm2 : m < a.1.length + b.2 := by omega
  have hj : joinGap false [a, b] = a.1 ++ b.1 := by simp [joinGap]
  rw [hj]
  refine ⟨_, a.2, a.1.length + b.2, rfl, ?_, ?_, ?_⟩
  · simp; omega
  · have key := connCol_of_shape' S ns (List.replicate a.2 (padRow ns ' '))
      (List.replicate (m - a.2 - 1) (padRow ns S.stem) ++ [padRow ns S.stem]
        ++ List.replicate (a.1.length + b.2 - m - 1) (padRow ns S.stem))
      (List.replicate (a.1.length + b.1.length - 1 - (a.1.length + b.2)) (padRow ns ' '))
      a.2 m (a.1.length + b.2) S.splitBranch (Or.inl rfl)
      (by intro y hy; exact (List.mem_replicate.mp hy).2) (by intro y hy; exact (List.mem_replicate.mp hy).2)
      (by intro y hy; simp only [List.mem_append, List.mem_replicate, List.mem_singleton] at hy
          rcases hy with (hy | hy) | hy
          · exact Or.inl hy.2
          · exact Or.inl hy
          · exact Or.inl hy.2)
      (by simp) (by simp; omega) hm1 hm2
    rw [set_in_mid _ _ _ _ _ _ _ _ (by simp; omega)] at key
    simpa [padRow] using key
  · rw [cRows_false]
    intro x hx
    have h1 := bIdx_ge_first [a, b] hg 0 x hx
    have h2 := bIdx_le_last [a, b] hg 0 x hx
    simp only [aFirst_cons, aLast_cons, aLast_one] at h1 h2
    omega

theorem framed2_two_gap (S : HStyle) (ns : Str) (ra rb : Str) :
    Framed2 S ns [([ra], 0), ([rb], 0)] := by
  unfold Framed2
  rw [assemble_two_gap]
  refine ⟨[padRow ns S.firstChild, ns ++ [S.splitBranch], padRow ns S.lastChild], 0, 2, ?_, ?_, ?_, ?_⟩
  · simp [joinGap, gapInserted, padRow]
  · simp [joinGap, gapInserted]
  · refine ⟨by omega, by omega, by simp, by simp, by simp, ⟨S.splitBranch, Or.inl rfl, by simp⟩, ?_, ?_⟩
    · intro r h1 h2 h3; omega
    · intro r x hx hr
      match r, hr, hx with
      | 0, _, hx => simp at hx; exact ⟨_, hx.symm⟩
      | 2, _, hx => simp at hx; exact ⟨_, hx.symm⟩
      | r + 3, _, hx => simp at hx
  · simp [cRows, gapInserted]

theorem framed2_many (S : HStyle) (ns : Str) (a b c : List Str × Nat) (r : List (List Str × Nat))
    (hg : Good (a :: b :: c :: r)) : Framed2 S ns (a :: b :: c :: r) := by
  unfold Framed2
  have e : gapInserted (a :: b :: c :: r) = false := rfl
  rw [e, joinGap_false, assemble_many]
  have hlen := preMany_length S ns a b c r hg
  have hres := length_flatMap_rows (a :: b :: c :: r)
  have hlast := aLast_lt (a :: b :: c :: r) (by simp) hg
  have h2 := aFirst_add_two_le_aLast (a :: b :: c :: r) hg (by simp) e
  have hpw := bIdx_pairwise (a :: b :: c :: r) hg 0
  have hgl := bIdx_getLast (a :: b :: c :: r) (by simp) 0
  -- the shape of `preMany`
  obtain ⟨init, hinit, hmem⟩ := midSec_init (padRow ns S.stem) (padRow ns S.subsequentChild) (padRow ns S.lastChild)
    (bIdx (0 + a.1.length + b.1.length) (c :: r)) (a.2 + 0) (b.2 + (0 + a.1.length))
  have hms := midSec_length (padRow ns S.stem) (padRow ns S.subsequentChild) (padRow ns S.lastChild)
    (bIdx (0 + a.1.length + b.1.length) (c :: r)) (a.2 + 0) (b.2 + (0 + a.1.length))
    (by rw [bIdx_cons, bIdx_cons] at hpw; exact hpw)
  rw [bIdx_cons, bIdx_cons, List.getLast?_cons_cons, List.getLast?_eq_some_getLast (by simp)] at hgl
  simp only [Option.some.injEq] at hgl
  rw [hgl, hinit] at hms
  have hpre : preMany S ns (a :: b :: c :: r) =
      List.replicate (aFirst (a :: b :: c :: r)) (padRow ns ' ') ++ [padRow ns S.firstChild] ++ init
        ++ [padRow ns S.lastChild]
        ++ List.replicate (aTotal (a :: b :: c :: r) - 1 - aLast (a :: b :: c :: r)) (padRow ns ' ') := by
    unfold preMany
    rw [bIdx_cons, bIdx_cons]
    show _ ++ [padRow ns S.firstChild] ++ midSec (padRow ns S.stem) (padRow ns S.subsequentChild)
      (padRow ns S.lastChild) _ ++ _ = _
    rw [hinit]; simp [padRow]
  generalize hm : aMid (a :: b :: c :: r) = m at *
  have hm1 : aFirst (a :: b :: c :: r) < m := by rw [← hm]; unfold aMid; omega
  have hm2 : m < aLast (a :: b :: c :: r) := by rw [← hm]; unfold aMid; omega
  have hset : (if (bIdx 0 (a :: b :: c :: r)).contains m then
        ((preMany S ns (a :: b :: c :: r)).set m (ns ++ [S.splitBranch])).set m (ns ++ [S.middleChild])
      else (preMany S ns (a :: b :: c :: r)).set m (ns ++ [S.splitBranch])) =
      (preMany S ns (a :: b :: c :: r)).set m
        (ns ++ [if (bIdx 0 (a :: b :: c :: r)).contains m then S.middleChild else S.splitBranch]) := by
    split <;> simp [List.set_set]
  rw [hset]
  refine ⟨_, aFirst (a :: b :: c :: r), aLast (a :: b :: c :: r), rfl, by rw [List.length_set, hlen, hres], ?_, ?_⟩
  · rw [hpre]
    refine connCol_of_shape' S ns _ init _ _ m _ _ (by split <;> simp)
      (by intro y hy; exact (List.mem_replicate.mp hy).2) (by intro y hy; exact (List.mem_replicate.mp hy).2)
      hmem (by simp) ?_ hm1 hm2
    simp only [List.length_replicate, List.length_append, List.length_cons, List.length_nil, aFirst_cons] at hms ⊢
    omega
  · rw [cRows_false]
    intro x hx
    have h1 := bIdx_ge_first _ hg 0 x hx
    have h2 := bIdx_le_last _ hg 0 x hx
    omega

/-- at least two parts: the connector column -/
theorem assemble_conn (S : HStyle) (ns : Str) (ps : List (List Str × Nat)) (h2 : 2 ≤ ps.length)
    (hinv : ∀ p ∈ ps, PInv p) : Framed2 S ns ps := by
  match ps, h2, hinv with
  | [a, b], _, hinv =>
    have ha := hinv a (by simp)
    have hb := hinv b (by simp)
    cases hgap : gapInserted [a, b] with
    | false => exact framed2_two_nogap S ns a b ha hb hgap
    | true =>
      obtain ⟨ra, rb, rfl, rfl⟩ := gap_shape a b ha hb hgap
      exact framed2_two_gap S ns ra rb
  | a :: b :: c :: r, _, hinv => exact framed2_many S ns a b c r (good_of_inv _ hinv)

/-- one part: the node sits on the row of its child, connector `branch` -/
theorem assemble_single (S : HStyle) (ns : Str) (a : List Str × Nat) (ha : PInv a) :
    ∃ pre, (assemble S ns [a]).1 = List.zipWith (· ++ ·) pre a.1 ∧ pre.length = a.1.length ∧
      (assemble S ns [a]).2 = a.2 ∧ pre[a.2]? = some (ns ++ [S.branch]) ∧
      ∀ r x, pre[r]? = some x → r ≠ a.2 → ∃ g, x = padRow ns g := by
  have hlt := ha.lt
  rw [assemble_one]
  have e1 : a.1.length + a.2 - a.1.length = a.2 := by omega
  have e2 : (a.2 + a.2) / 2 = a.2 := by omega
  rw [e1, e2]
  refine ⟨_, rfl, by simp; omega, rfl, ?_, ?_⟩
  · rw [List.append_assoc]; exact getElem?_at _ _ _ _ (by simp)
  · intro r x hx hr
    have hset : (List.replicate a.2 (padRow ns ' ') ++ [ns ++ [S.branch]]
          ++ List.replicate (a.1.length - 1 - a.2) (padRow ns ' ')) =
        (List.replicate a.2 (padRow ns ' ') ++ [padRow ns ' ']
          ++ List.replicate (a.1.length - 1 - a.2) (padRow ns ' ')).set a.2 (ns ++ [S.branch]) := by
      simp
    change (List.replicate a.2 (padRow ns ' ') ++ [ns ++ [S.branch]]
          ++ List.replicate (a.1.length - 1 - a.2) (padRow ns ' '))[r]? = some x at hx
    rw [hset, List.getElem?_set_ne (by omega)] at hx
    have := List.mem_of_getElem? hx
    simp only [List.mem_append, List.mem_replicate, List.mem_singleton] at this
    rcases this with (h | h) | h
    · exact ⟨_, h.2⟩
    · exact ⟨_, h⟩
    · exact ⟨_, h.2⟩
end Render
