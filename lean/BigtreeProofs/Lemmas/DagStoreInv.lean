import BigtreeProofs.Lemmas.DagStoreBasic
/-!
# DagStore — the invariant `DWF`, reachability, the fuel of `ancestors`, acyclicity of insertions
-/

namespace DagStore

/-- link well-formedness without acyclicity -/
structure DWF0 (s : DStore) : Prop where
  sym : ∀ p c, p ∈ s.parents c ↔ c ∈ s.children p
  ndp : ∀ v, (s.parents v).Nodup
  ndc : ∀ v, (s.children v).Nodup
  rng : ∀ p c, p ∈ s.parents c → p < s.n ∧ c < s.n

/-- nobody is its own ancestor, stated as well-foundedness of "is a parent of" -/
def Acyclic (s : DStore) : Prop := ∀ v, Acc (fun p c => p ∈ s.parents c) v

/-- the invariant of C10: symmetric links, no duplicates, ids in range, acyclic -/
structure DWF (s : DStore) : Prop extends DWF0 s where
  acyc : Acyclic s

theorem DWF0.parents_nil {s : DStore} (h : DWF0 s) {v : Nat} (hv : s.n ≤ v) : s.parents v = [] := by
  cases hp : s.parents v with
  | nil => rfl
  | cons a t =>
    have := (h.rng a v (by simp [hp])).2
    omega

theorem DWF0.children_nil {s : DStore} (h : DWF0 s) {v : Nat} (hv : s.n ≤ v) : s.children v = [] := by
  cases hp : s.children v with
  | nil => rfl
  | cons a t =>
    have := (h.rng v a ((h.sym v a).2 (by simp [hp]))).1
    omega

/-! ## `DWF0` under edge insertion and removal -/

theorem DWF0.addE {s : DStore} (h : DWF0 s) {p c : Nat} (hn : p ∉ s.parents c) (hp : p < s.n)
    (hc : c < s.n) : DWF0 (s.addE p c) where
  sym q x := by
    rw [mem_addE_parents, mem_addE_children, h.sym]
  ndp v := by
    rw [addE_parents]
    by_cases hv : v = c
    · subst hv
      simp only [if_true]
      exact List.nodup_append.2 ⟨h.ndp v, by simp, by
        intro a ha b hb; simp at hb; subst hb; intro e; subst e; exact hn ha⟩
    · simp [hv, h.ndp v]
  ndc v := by
    rw [addE_children]
    by_cases hv : v = p
    · subst hv
      simp only [if_true]
      exact List.nodup_append.2 ⟨h.ndc v, by simp, by
        intro a ha b hb; simp at hb; subst hb; intro e; subst e
        exact hn ((h.sym _ _).2 ha)⟩
    · simp [hv, h.ndc v]
  rng q x hq := by
    rcases mem_addE_parents.1 hq with hq | ⟨rfl, rfl⟩
    · exact h.rng q x hq
    · exact ⟨hp, hc⟩

theorem DWF0.addEs {s : DStore} (h : DWF0 s) {E : List (Nat × Nat)} (hnd : E.Nodup)
    (hE : ∀ e ∈ E, e.1 ∉ s.parents e.2 ∧ e.1 < s.n ∧ e.2 < s.n) : DWF0 (addEs s E) := by
  induction E generalizing s with
  | nil => exact h
  | cons e E ih =>
    obtain ⟨p, c⟩ := e
    have hpc := hE (p, c) (by simp)
    have hnd' := List.nodup_cons.1 hnd
    apply ih (h.addE hpc.1 hpc.2.1 hpc.2.2) hnd'.2
    intro e he
    have := hE e (by simp [he])
    refine ⟨?_, by simpa using this.2⟩
    rw [mem_addE_parents]
    rintro (h1 | ⟨h1, h2⟩)
    · exact this.1 h1
    · apply hnd'.1
      have : e = (p, c) := Prod.ext h1 h2
      exact this ▸ he

theorem DWF0.delE {s : DStore} (h : DWF0 s) (p c : Nat) : DWF0 (s.delE p c) where
  sym q x := by
    rw [delE_parents, delE_children]
    by_cases hx : x = c <;> by_cases hq : q = p
    · subst hx hq; simp [(h.ndp _).mem_erase_iff, (h.ndc _).mem_erase_iff]
    · subst hx; simp [hq, (h.ndp _).mem_erase_iff, h.sym]
    · subst hq; simp [hx, (h.ndc _).mem_erase_iff, h.sym]
    · simp [hx, hq, h.sym]
  ndp v := by
    rw [delE_parents]; split
    · exact (h.ndp _).erase _
    · exact h.ndp _
  ndc v := by
    rw [delE_children]; split
    · exact (h.ndc _).erase _
    · exact h.ndc _
  rng q x hq := by
    rw [delE_parents] at hq
    split at hq
    · subst x; exact h.rng q c (List.mem_of_mem_erase hq)
    · exact h.rng q x hq

theorem Acyclic.mono {s t : DStore} (h : Acyclic s) (hsub : ∀ p c, p ∈ t.parents c → p ∈ s.parents c) :
    Acyclic t := by
  intro v
  induction h v with
  | intro x _ ih => exact ⟨x, fun q hq => ih q (hsub q x hq)⟩

theorem DWF.delE {s : DStore} (h : DWF s) (p c : Nat) : DWF (s.delE p c) where
  toDWF0 := h.toDWF0.delE p c
  acyc := h.acyc.mono (by
    intro q x hq
    rw [delE_parents] at hq
    split at hq
    · subst x; exact List.mem_of_mem_erase hq
    · exact hq)

/-! ## reachability -/

/-- `Anc s a v`: `a` is a proper ancestor of `v` (transitive closure of "is a parent of") -/
inductive Anc (s : DStore) : Nat → Nat → Prop
  | base {p c : Nat} : p ∈ s.parents c → Anc s p c
  | step {a p c : Nat} : Anc s a p → p ∈ s.parents c → Anc s a c

theorem Anc.head {s : DStore} {q y v : Nat} (hq : q ∈ s.parents y) (h : Anc s y v) : Anc s q v := by
  induction h with
  | base h => exact .step (.base hq) h
  | step _ h2 ih => exact .step ih h2

theorem Anc.trans {s : DStore} {a b c : Nat} (h1 : Anc s a b) (h2 : Anc s b c) : Anc s a c := by
  induction h2 with
  | base h => exact .step h1 h
  | step _ h ih => exact .step ih h

theorem Anc.parents_ne_nil {s : DStore} {a v : Nat} (h : Anc s a v) : s.parents v ≠ [] := by
  cases h with
  | base h => intro e; simp [e] at h
  | step _ h => intro e; simp [e] at h

theorem Acyclic.acc_anc {s : DStore} (h : Acyclic s) : ∀ v, Acc (Anc s) v := by
  intro v
  induction h v with
  | intro x _ ih =>
    constructor
    intro a ha
    cases ha with
    | base h1 => exact ih a h1
    | step h1 h2 => exact (ih _ h2).inv h1

theorem Acyclic.irrefl {s : DStore} (h : Acyclic s) (v : Nat) : ¬ Anc s v v := by
  have := h.acc_anc v
  induction this with
  | intro x _ ih => intro hx; exact ih x hx hx

/-- `Up s v [p₁, …, p_k]`: `p₁` is a parent of `v`, `p₂` a parent of `p₁`, … -/
def Up (s : DStore) : Nat → List Nat → Prop
  | _, [] => True
  | v, p :: l => p ∈ s.parents v ∧ Up s p l

theorem anc_iff_up {s : DStore} {a v : Nat} : Anc s a v ↔ ∃ l, Up s v (l ++ [a]) := by
  constructor
  · intro h
    induction h with
    | base h => exact ⟨[], by simpa [Up] using h⟩
    | step _ h2 ih =>
      obtain ⟨l, hl⟩ := ih
      exact ⟨_ :: l, by simpa [Up] using ⟨h2, hl⟩⟩
  · rintro ⟨l, hl⟩
    induction l generalizing v with
    | nil => exact .base (by simpa [Up] using hl)
    | cons p l ih =>
      simp only [List.cons_append, Up] at hl
      exact .step (ih hl.2) hl.1

theorem mem_recParent {s : DStore} {f a v : Nat} :
    a ∈ recParent s f v ↔ ∃ l, l.length < f ∧ Up s v (l ++ [a]) := by
  induction f generalizing v with
  | zero => simp [recParent]
  | succ f ih =>
    simp only [recParent, List.mem_flatMap, List.mem_append, List.mem_singleton, ih]
    constructor
    · rintro ⟨p, hp, (⟨l, hl, hu⟩ | rfl)⟩
      · exact ⟨p :: l, by simp; omega, by simpa [Up] using ⟨hp, hu⟩⟩
      · exact ⟨[], by simp, by simpa [Up] using hp⟩
    · rintro ⟨l, hl, hu⟩
      cases l with
      | nil => exact ⟨a, by simpa [Up] using hu, Or.inr rfl⟩
      | cons p l =>
        simp only [List.cons_append, Up] at hu
        exact ⟨p, hu.1, Or.inl ⟨l, by simp at hl; omega, hu.2⟩⟩

theorem Up.anc {s : DStore} {v : Nat} {l : List Nat} (h : Up s v l) : ∀ x ∈ l, Anc s x v := by
  induction l generalizing v with
  | nil => simp
  | cons p l ih =>
    intro x hx
    rcases List.mem_cons.1 hx with rfl | hx
    · exact .base h.1
    · exact .step (ih h.2 x hx) h.1

theorem Up.nodup {s : DStore} (hs : Acyclic s) {v : Nat} {l : List Nat} (h : Up s v l) :
    (v :: l).Nodup := by
  induction l generalizing v with
  | nil => simp
  | cons p l ih =>
    refine List.nodup_cons.2 ⟨?_, ih h.2⟩
    intro hv
    exact hs.irrefl v (h.anc v hv)

theorem Up.lt {s : DStore} (hs : DWF0 s) {v : Nat} {l : List Nat} (h : Up s v l) (hl : l ≠ []) :
    ∀ x ∈ v :: l, x < s.n := by
  induction l generalizing v with
  | nil => exact absurd rfl hl
  | cons p l ih =>
    intro x hx
    rcases List.mem_cons.1 hx with rfl | hx
    · exact (hs.rng _ _ h.1).2
    · by_cases hl' : l = []
      · subst hl'
        simp at hx; subst hx
        exact (hs.rng _ _ h.1).1
      · exact ih h.2 hl' x hx

/-- **the fuel `n + 1` of the recursive `ancestors` is enough** on well-formed stores: the
fuel-bounded, de-duplicated list is exactly the set of proper ancestors -/
theorem mem_ancestors {s : DStore} (hs : DWF s) {a v : Nat} : a ∈ ancestors s v ↔ Anc s a v := by
  unfold ancestors
  by_cases he : (s.parents v).isEmpty
  · simp only [he, if_true, List.not_mem_nil, false_iff]
    intro h
    exact h.parents_ne_nil (by simpa using he)
  · rw [if_neg he, List.mem_eraseDups, mem_recParent, anc_iff_up]
    constructor
    · rintro ⟨l, _, hu⟩; exact ⟨l, hu⟩
    · rintro ⟨l, hu⟩
      refine ⟨l, ?_, hu⟩
      have h1 := hu.nodup hs.acyc
      have h2 := hu.lt hs.toDWF0 (by simp)
      have := nodup_bound s.n _ h1 h2
      simp at this
      omega

/-! ## acyclicity of a batch of insertions -/

/-- new edges all *into* `v`, from nodes that `v` does not reach: still acyclic. This is why the
parents setter may check every new parent against the **initial** store only. -/
theorem Acyclic.add_in {s t : DStore} (hs : Acyclic s) (v : Nat) (L : List Nat)
    (hsub : ∀ q x, q ∈ t.parents x → q ∈ s.parents x ∨ (x = v ∧ q ∈ L))
    (hL : ∀ p ∈ L, p ≠ v ∧ ¬ Anc s v p) : Acyclic t := by
  have key : ∀ y, y ≠ v → ¬ Anc s v y → Acc (fun p c => p ∈ t.parents c) y := by
    intro y
    induction hs y with
    | intro y _ ih =>
      intro hyv hy
      constructor
      intro q hq
      rcases hsub q y hq with hq | ⟨rfl, _⟩
      · apply ih q hq
        · rintro rfl; exact hy (.base hq)
        · intro h; exact hy (.step h hq)
      · exact absurd rfl hyv
  have hv : Acc (fun p c => p ∈ t.parents c) v := by
    constructor
    intro q hq
    rcases hsub q v hq with hq | ⟨_, hq⟩
    · apply key q
      · rintro rfl; exact hs.irrefl _ (.base hq)
      · intro h; exact hs.irrefl _ (.step h hq)
    · exact key q (hL q hq).1 (hL q hq).2
  intro x
  induction hs x with
  | intro x _ ih =>
    by_cases hx : x = v
    · subst hx; exact hv
    · constructor
      intro q hq
      rcases hsub q x hq with hq | ⟨rfl, _⟩
      · exact ih q hq
      · exact absurd rfl hx

/-- new edges all *out of* `v`, to nodes that do not reach `v`: still acyclic (children setter) -/
theorem Acyclic.add_out {s t : DStore} (hs : Acyclic s) (v : Nat) (L : List Nat)
    (hsub : ∀ q x, q ∈ t.parents x → q ∈ s.parents x ∨ (q = v ∧ x ∈ L))
    (hL : ∀ c ∈ L, c ≠ v ∧ ¬ Anc s c v) : Acyclic t := by
  have key : ∀ y, (y = v ∨ Anc s y v) → Acc (fun p c => p ∈ t.parents c) y := by
    intro y
    induction hs y with
    | intro y _ ih =>
      intro hy
      constructor
      intro q hq
      rcases hsub q y hq with hq | ⟨_, hyL⟩
      · apply ih q hq
        rcases hy with rfl | hy
        · exact Or.inr (.base hq)
        · exact Or.inr (hy.head hq)
      · rcases hy with rfl | hy
        · exact absurd rfl (hL _ hyL).1
        · exact absurd hy (hL _ hyL).2
  intro x
  induction hs x with
  | intro x _ ih =>
    constructor
    intro q hq
    rcases hsub q x hq with hq | ⟨rfl, _⟩
    · exact ih q hq
    · exact key _ (Or.inl rfl)

end DagStore
