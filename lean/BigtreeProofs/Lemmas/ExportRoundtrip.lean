import BigtreeProofs.Lemmas.ExportPaths
/-! Helper lemmas for C06: distinct paths, the dict and nested round trips. Core Lean only. -/

namespace Export

mutual
theorem allNodes_preCtx (P : Tree → Prop) : ∀ (t : Tree) (anc : List Str), AllNodes P t →
    ∀ x ∈ preCtx anc t, P x.2
  | .node i n a cs, anc, h, x, hx => by
    rw [allNodes_node] at h
    rw [preCtx] at hx
    rcases List.mem_cons.mp hx with e | e
    · subst e; exact h.1
    · exact allNodesL_preCtxL P cs (anc ++ [n]) h.2 x e
theorem allNodesL_preCtxL (P : Tree → Prop) : ∀ (ts : List Tree) (anc : List Str), AllNodesL P ts →
    ∀ x ∈ preCtxL anc ts, P x.2
  | [], anc, _, x, hx => by simp [preCtxL] at hx
  | t :: ts, anc, h, x, hx => by
    rw [allNodesL_cons] at h
    rw [preCtxL] at hx
    rcases List.mem_append.mp hx with e | e
    · exact allNodes_preCtx P t anc h.1 x e
    · exact allNodesL_preCtxL P ts anc h.2 x e
end

/-- the name lists of the nodes in pre-order -/
theorem preCtx_namelists (t : Tree) (anc : List Str) :
    (preCtx anc t).map (fun x => x.1 ++ [x.2.name]) = (entries describe t).map fun e => anc ++ e.1 := by
  have := congrArg (List.map Prod.fst) (preCtx_entries describe t anc)
  simpa [List.map_map, Function.comp_def] using this

/-- distinct nodes have distinct `path_name`s -/
theorem paths_nodup (sep : Char) (t : Tree) (anc : List Str) (h1 : AllNodes NodeOK t)
    (h2 : AllNodes (SepFree sep) t) (hanc : CompsOK sep anc) :
    ((preCtx anc t).map fun x => pathName sep x.1 x.2.name).Nodup := by
  have hmap : (preCtx anc t).map (fun x => pathName sep x.1 x.2.name)
      = ((entries describe t).map Prod.fst).map (fun p => sep :: joinC sep (anc ++ p)) := by
    have := congrArg (List.map fun p => sep :: joinC sep p) (preCtx_namelists t anc)
    simpa [List.map_map, Function.comp_def, pathName] using this
  rw [hmap]
  have hn := entries_nodup sep describe t h1 h2
  apply List.pairwise_map.mpr
  refine List.Pairwise.imp_of_mem ?_ hn
  intro p q hp hq hpq heq
  apply hpq
  obtain ⟨e, he, rfl⟩ := List.mem_map.mp hp
  obtain ⟨e', he', rfl⟩ := List.mem_map.mp hq
  obtain ⟨hne, _, hc⟩ := entries_comps sep describe t h1 h2 e he
  obtain ⟨hne', _, hc'⟩ := entries_comps sep describe t h1 h2 e' he'
  simp only [List.cons.injEq, true_and] at heq
  have := joinC_inj sep (anc ++ e.1) (anc ++ e'.1) (by simp [hne]) (by simp [hne'])
    (fun x hx => by
      rcases List.mem_append.mp hx with h | h
      · exact (hanc x h).2
      · exact (hc x h).2)
    (fun x hx => by
      rcases List.mem_append.mp hx with h | h
      · exact (hanc x h).2
      · exact (hc' x h).2) heq
  exact List.append_cancel_left this

theorem dictSpec_keys_sublist (o : Opts) (sep : Char) (l : List (List Str × Tree)) :
    ((dictSpec o sep l).map Prod.fst).Sublist (l.map fun x => pathName sep x.1 x.2.name) := by
  unfold dictSpec
  rw [List.map_map]
  exact (List.filter_sublist (l := l)).map _

/-- `tree_to_dict` lists exactly the selected nodes -/
theorem treeToDict_eq (o : Opts) (sep : Char) (t : Tree) (anc : List Str) (h1 : AllNodes NodeOK t)
    (h2 : AllNodes (SepFree sep) t) (hanc : CompsOK sep anc) :
    treeToDict o sep anc t = dictSpec o sep (preCtx anc t) := by
  unfold treeToDict
  rw [appendDict_eq, dsetAll_fresh _ [] ?_ (by simp)]
  · simp
  · exact List.Nodup.sublist (dictSpec_keys_sublist o sep _) (paths_nodup sep t anc h1 h2 hanc)

/-! ### full exports -/

theorem selected_full (pc : Str) (x : List Str × Tree) : selected (fullOpts pc) x = true := by
  simp [selected, fullOpts, Opts.gate]

theorem strName_ne_nil : strName ≠ [] := by decide

/-- record of a full `tree_to_dict` export -/
theorem record_full_dict (sep : Char) (anc : List Str) (t : Tree) (h : NodeOK t) :
    record (fullOpts []) sep anc t = (strName, .str t.name) :: describe t.attrs := by
  unfold record
  simp only [fullOpts, ne_eq, not_true_eq_false, if_false, strName_ne_nil, not_false_eq_true, if_true]
  rw [addAttrs_full _ _ _ rfl h.2.1]
  · rfl
  · intro k hk hk'
    simp only [dset, List.map_cons, List.map_nil, List.mem_singleton] at hk'
    exact describe_no_name t.attrs (hk' ▸ hk)

theorem filterDictAttrs_full (v : Val) (a : Attrs) :
    filterDictAttrs ((strName, v) :: describe a) = describe a := by
  unfold filterDictAttrs
  rw [List.filter_cons]
  simp only [bne_self_eq_false, Bool.false_eq_true, if_false]
  exact filter_name_describe a

theorem dupNames_false : ∀ (ts : List Tree), (ts.map Tree.name).Nodup → dupNames ts = false
  | [], _ => rfl
  | t :: ts, h => by
    simp only [List.map_cons, List.nodup_cons] at h
    rw [dupNames, dupNames_false ts h.2, Bool.or_false, List.any_eq_false]
    intro u hu
    simp only [beq_iff_eq]
    intro e
    exact h.1 (e ▸ List.mem_map.mpr ⟨u, hu, rfl⟩)

/-- `dict_to_tree` of the full pre-order entry list -/
theorem dictToTree_full (sep : Char) (i : Nat) (n : Str) (a : Attrs) (cs : List Tree)
    (h1 : AllNodes NodeOK (.node i n a cs)) (h2 : AllNodes (SepFree sep) (.node i n a cs)) :
    dictToTree sep (dictSpec (fullOpts []) sep (preCtx [] (.node i n a cs))) = some (canon (.node i n a cs)) := by
  have h1' := h1
  have h2' := h2
  rw [allNodes_node] at h1' h2'
  obtain ⟨⟨hn, hkeys, hnames⟩, hcs⟩ := h1'
  simp only [Tree.name_node, Tree.attrs_node, Tree.children_node] at hn hkeys hnames
  have hsep : sep ∉ n := h2'.1
  -- the entry list
  have hsel : ∀ l : List (List Str × Tree), l.filter (selected (fullOpts [])) = l := by
    intro l; exact List.filter_eq_self.mpr (fun x _ => selected_full [] x)
  have hd : dictSpec (fullOpts []) sep (preCtx [] (.node i n a cs))
      = (preCtx [] (.node i n a cs)).map (fun x => (pathName sep x.1 x.2.name, (strName, Val.str x.2.name) :: describe x.2.attrs)) := by
    unfold dictSpec
    rw [hsel]
    apply List.map_congr_left
    intro x hx
    rw [record_full_dict sep x.1 x.2 (allNodes_preCtx NodeOK _ [] h1 x hx)]
  -- entries after the attribute filter
  have hmapped : ((preCtx [] (.node i n a cs)).map (fun x => (pathName sep x.1 x.2.name, (strName, Val.str x.2.name) :: describe x.2.attrs))).map
        (fun pr => (pr.1, filterDictAttrs pr.2))
      = (([], describe a) :: entriesL describe cs).map (fun e => (sep :: joinC sep (n :: e.1), e.2)) := by
    rw [List.map_map]
    have h0 := preCtx_entries describe (.node i n a cs) []
    have := congrArg (List.map fun e : List Str × Attrs => (sep :: joinC sep e.1, e.2)) h0
    rw [List.map_map, List.map_map] at this
    simp only [Function.comp_def, List.nil_append] at this
    simp only [Function.comp_def, filterDictAttrs_full, pathName]
    rw [this, entries]
    simp [List.map_map, Function.comp_def]
  rw [hd]
  unfold dictToTree
  rw [preCtx]
  simp only [List.map_cons, pathName, List.nil_append, Tree.name_node, Tree.attrs_node]
  have hroot : (splitC sep (stripC sep (sep :: joinC sep [n]))).headD [] = n := by
    rw [split_strip_path sep [n] (by simp) (by intro x hx; simp only [List.mem_singleton] at hx; subst hx; exact ⟨hn, hsep⟩)]
    rfl
  rw [hroot]
  simp only [joinC]
  -- the four look-ups: only `sep + root_name` is a key
  have hkeysep : ∀ (l : List (List Str × Tree)) (k : Str), k.head? ≠ some sep →
      dget (l.map (fun x => (sep :: joinC sep (x.1 ++ [x.2.name]), (strName, Val.str x.2.name) :: describe x.2.attrs))) k = none := by
    intro l k hk
    apply dget_of_not_mem
    intro hmem
    obtain ⟨y, hy, rfl⟩ := List.mem_map.mp hmem
    obtain ⟨x, _, rfl⟩ := List.mem_map.mp hy
    simp at hk
  have hnhead : n.head? ≠ some sep := by
    cases n with
    | nil => exact absurd rfl hn
    | cons c0 n' =>
      simp only [List.head?_cons, ne_eq, Option.some.injEq]
      intro e; apply hsep; simp [e]
  have hg1 : dget ((sep :: n, (strName, Val.str n) :: describe a) ::
      (preCtxL [n] cs).map (fun x => (sep :: joinC sep (x.1 ++ [x.2.name]), (strName, Val.str x.2.name) :: describe x.2.attrs))) n = none := by
    rw [dget]
    have : ¬ (sep :: n = n) := by
      intro e
      have := congrArg List.length e
      simp at this
    rw [if_neg this]
    exact hkeysep _ n hnhead
  rw [hg1, dget_cons_self]
  simp only [Option.getD_none, Option.getD_some, firstNonEmpty, ne_eq, not_true_eq_false, if_false,
    reduceCtorEq, not_false_eq_true, if_true, filterDictAttrs_full]
  rw [if_neg hn]
  -- the fold
  have hfold := hmapped
  rw [preCtx] at hfold
  simp only [List.map_cons, pathName, List.nil_append, Tree.name_node, Tree.attrs_node, joinC,
    filterDictAttrs_full] at hfold
  rw [hfold]
  have hR : (Tree.node 0 n (describe a) []).name = n := rfl
  have := foldInsert_paths sep (([], describe a) :: entriesL describe cs) (.node 0 n (describe a) []) ⟨hn, hsep⟩ ?_
  · rw [hR] at this
    simp only [List.map_cons, joinC] at this
    rw [this, foldAt_cons]
    simp only [insertAt]
    rw [dupdate_self (describe a) (describe_keys_nodup a hkeys)]
    rw [foldAt_entriesL describe describe_keys_nodup cs 0 n (describe a) [] (by simp) hnames hcs]
    simp [canon, canonWith]
  · intro e he
    rcases List.mem_cons.mp he with h | h
    · subst h; intro s hs; cases hs
    · exact (entriesL_comps sep describe cs hcs h2'.2 e h).2.2

/-! ### nested dictionaries -/

theorem nestedFields_full (pc : Str) (t : Tree) (h : NodeOK t) :
    nestedFields (fullOpts pc) t = (strName, .str t.name) :: describe t.attrs := by
  unfold nestedFields
  rw [addAttrs_full _ _ _ rfl h.2.1]
  · rfl
  · intro k hk hk'
    simp only [fullOpts, List.map_cons, List.map_nil, List.mem_singleton] at hk'
    exact describe_no_name t.attrs (hk' ▸ hk)

mutual
theorem nestedToTree_mirror (pc : Str) : ∀ (t : Tree), AllNodes NodeOK t →
    nestedToTree strName (mirror (fullOpts pc) t) = some (canon t)
  | .node i n a cs, h => by
    have h' := h
    rw [allNodes_node] at h'
    obtain ⟨hok, hcs⟩ := h'
    have hn : n ≠ [] := hok.1
    have hnames : (cs.map Tree.name).Nodup := hok.2.2
    rw [mirror, nestedFields_full pc _ hok, nestedToTree, dget_cons_self]
    simp only [Tree.name_node, Tree.attrs_node, hn, ↓reduceIte]
    rw [nestedToTreeL_mirror pc cs hcs]
    simp only
    rw [dupNames_false (canonWithL describe cs) (by rw [canonL_names]; exact hnames)]
    simp only [Bool.false_eq_true, ↓reduceIte]
    rw [List.filter_cons]
    simp only [bne_self_eq_false, Bool.false_eq_true, if_false]
    rw [filter_name_describe, canon, canonWith]
theorem nestedToTreeL_mirror (pc : Str) : ∀ (ts : List Tree), AllNodesL NodeOK ts →
    nestedToTreeL strName (mirrorL (fullOpts pc) ts) = some (canonWithL describe ts)
  | [], _ => by simp [mirrorL, nestedToTreeL, canonWithL]
  | t :: ts, h => by
    rw [allNodesL_cons] at h
    rw [mirrorL, nestedToTreeL, nestedToTree_mirror pc t h.1, nestedToTreeL_mirror pc ts h.2, canonWithL, canon]
end

end Export
