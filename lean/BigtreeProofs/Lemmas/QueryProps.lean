import BigtreeModel.Query
import BigtreeProofs.Lemmas.QueryAddr
import BigtreeProofs.Lemmas.QueryPre
/-! Helper lemmas for C12: descendants / leaves / siblings / max_depth / diameter. -/

namespace Query

/-! ### generic list facts -/

theorem nodup_map_inj {α β : Type} {f : α → β} (hf : ∀ x y, f x = f y → x = y) {l : List α}
    (h : l.Nodup) : (l.map f).Nodup := by
  rw [List.nodup_iff_pairwise_ne] at *
  rw [List.pairwise_map]
  exact h.imp (fun hne e => hne (hf _ _ e))

theorem snoc_inj (p : Addr) (j k : Nat) : p ++ [j] = p ++ [k] → j = k := by
  intro h
  have := List.append_cancel_left h
  simpa using this

/-- the children of `p` when it has `n` of them -/
def childList (p : Addr) (n : Nat) : List Addr := (List.range n).map fun k => p ++ [k]

theorem childList_length (p : Addr) (n : Nat) : (childList p n).length = n := by simp [childList]

theorem childList_getElem? (p : Addr) {n k : Nat} (h : k < n) : (childList p n)[k]? = some (p ++ [k]) := by
  simp [childList, List.getElem?_map, List.getElem?_range h]

theorem childList_nodup (p : Addr) (n : Nat) : (childList p n).Nodup :=
  nodup_map_inj (fun _ _ => snoc_inj p _ _) List.nodup_range

theorem childList_idxOf (p : Addr) {n k : Nat} (h : k < n) : (childList p n).idxOf (p ++ [k]) = k := by
  have hk : k < (childList p n).length := by simpa [childList_length] using h
  have hg : (childList p n)[k] = p ++ [k] := by
    have := childList_getElem? p h
    rw [List.getElem?_eq_getElem hk] at this
    simpa using this
  have := (childList_nodup p n).idxOf_getElem k hk
  rwa [hg] at this

theorem childrenOf_eq_childList {R : Tree} {a : Addr} {t : Tree} (h : sub R a = some t) :
    childrenOf R a = childList a t.children.length := childrenOf_of_sub h

/-! ### descendants, leaves -/

theorem subtreeLocs_of_sub {R : Tree} {a : Addr} {t : Tree} (h : sub R a = some t) :
    subtreeLocs R a = (locs t).map (a ++ ·) := by simp [subtreeLocs, h]

theorem subtreeLocs_eq_cons {R : Tree} {a : Addr} {t : Tree} (h : sub R a = some t) :
    subtreeLocs R a = a :: (locsL 0 t.children).map (a ++ ·) := by
  rw [subtreeLocs_of_sub h, locs_eq_cons]; simp

theorem descendants_eq_tail (R : Tree) (a : Addr) : descendants R a = (subtreeLocs R a).tail := by
  unfold descendants
  rw [preorderFrom_eq]
  cases h : sub R a with
  | none => simp [subtreeLocs, h]
  | some t =>
    rw [subtreeLocs_eq_cons h]
    simp only [within, BEq.rfl, Bool.true_or, Bool.true_and, List.filter_cons, bne_self_eq_false,
      Bool.false_eq_true, ↓reduceIte, List.tail_cons]
    rw [List.filter_eq_self]
    intro x hx
    rcases List.mem_map.1 hx with ⟨y, hy, rfl⟩
    have := locsL_ne_nil 0 t.children y hy
    simp only [bne_iff_ne, ne_eq, List.append_right_eq_self]
    exact this

theorem leaves_eq_filter (R : Tree) (a : Addr) :
    leaves R a = (subtreeLocs R a).filter fun b => isLeaf R b := by
  unfold leaves
  rw [preorderFrom_eq]
  simp [within]

theorem isLeaf_of_sub {R : Tree} {a : Addr} {t : Tree} (h : sub R a = some t) :
    isLeaf R a = t.children.isEmpty := by
  simp only [isLeaf, childrenOf_of_sub h, List.length_map, List.length_range]
  cases t.children <;> simp

/-! ### siblings -/

theorem siblings_nil (R : Tree) : siblings R [] = [] := rfl

theorem siblings_snoc {R : Tree} {p : Addr} {t : Tree} (h : sub R p = some t) (k : Nat) :
    siblings R (p ++ [k]) =
      ((List.range t.children.length).filter fun j => j != k).map fun j => p ++ [j] := by
  simp only [siblings, parent_snoc, childrenOf_of_sub h, List.filter_map]
  congr 1
  apply List.filter_congr
  intro j _
  show ((p ++ [j]) != (p ++ [k])) = (j != k)
  by_cases hjk : j = k
  · simp [hjk]
  · have : p ++ [j] ≠ p ++ [k] := fun e => hjk (snoc_inj p j k e)
    rw [bne_iff_ne.2 this, bne_iff_ne.2 hjk]

theorem leftSibling_nil (R : Tree) : leftSibling R [] = none := rfl
theorem rightSibling_nil (R : Tree) : rightSibling R [] = none := rfl

theorem leftSibling_snoc {R : Tree} {p : Addr} {t : Tree} (h : sub R p = some t) {k : Nat}
    (hk : k < t.children.length) :
    leftSibling R (p ++ [k]) = if k = 0 then none else some (p ++ [k - 1]) := by
  simp only [leftSibling, parent_snoc, childrenOf_eq_childList h, childList_idxOf p hk]
  by_cases h0 : k = 0
  · simp [h0]
  · simp only [bne_iff_ne, ne_eq, h0, not_false_eq_true, ↓reduceIte]
    exact childList_getElem? p (by omega)

theorem rightSibling_snoc {R : Tree} {p : Addr} {t : Tree} (h : sub R p = some t) {k : Nat}
    (hk : k < t.children.length) :
    rightSibling R (p ++ [k]) = if k + 1 < t.children.length then some (p ++ [k + 1]) else none := by
  simp only [rightSibling, parent_snoc, childrenOf_eq_childList h, childList_idxOf p hk,
    childList_length]
  by_cases h1 : k + 1 < t.children.length
  · simp only [h1, ↓reduceIte]
    exact childList_getElem? p h1
  · simp [h1]

/-! ### maxList -/

theorem foldl_max_ge (l : List Nat) (x : Nat) : x ≤ l.foldl max x := by
  induction l generalizing x with
  | nil => simp
  | cons y ys ih => exact Nat.le_trans (Nat.le_max_left x y) (ih (max x y))

theorem foldl_max_ub (l : List Nat) (x m : Nat) (hx : x ≤ m) (hl : ∀ y ∈ l, y ≤ m) : l.foldl max x ≤ m := by
  induction l generalizing x with
  | nil => simpa
  | cons y ys ih =>
    exact ih (max x y) (Nat.max_le.2 ⟨hx, hl y (by simp)⟩) (fun z hz => hl z (by simp [hz]))

theorem foldl_max_mem (l : List Nat) (x : Nat) : l.foldl max x = x ∨ l.foldl max x ∈ l := by
  induction l generalizing x with
  | nil => simp
  | cons y ys ih =>
    rcases ih (max x y) with h | h
    · rcases Nat.le_total x y with hxy | hxy
      · right; simp only [List.foldl_cons, h]; simp [Nat.max_eq_right hxy]
      · left; simp only [List.foldl_cons, h]; exact Nat.max_eq_left hxy
    · right; simp only [List.foldl_cons]; exact List.mem_cons_of_mem _ h

theorem foldl_max_ge_mem {ys : List Nat} {x : Nat} (h : x ∈ ys) (y : Nat) : x ≤ ys.foldl max y := by
  induction ys generalizing y with
  | nil => simp at h
  | cons z zs ih =>
    rcases List.mem_cons.1 h with rfl | h
    · exact Nat.le_trans (Nat.le_max_right y _) (foldl_max_ge zs _)
    · exact ih h (max y z)

theorem maxList_ge {l : List Nat} {x : Nat} (h : x ∈ l) : x ≤ maxList l := by
  cases l with
  | nil => simp at h
  | cons y ys =>
    simp only [maxList]
    rcases List.mem_cons.1 h with rfl | h
    · exact foldl_max_ge ys _
    · exact foldl_max_ge_mem h y

theorem maxList_mem {l : List Nat} (h : l ≠ []) : maxList l ∈ l := by
  cases l with
  | nil => exact absurd rfl h
  | cons y ys =>
    simp only [maxList]
    rcases foldl_max_mem ys y with e | e
    · rw [e]; simp
    · exact List.mem_cons_of_mem _ e

theorem maxList_eq_of {l : List Nat} {m : Nat} (hm : m ∈ l) (hub : ∀ x ∈ l, x ≤ m) : maxList l = m := by
  have hne : l ≠ [] := by intro e; simp [e] at hm
  exact Nat.le_antisymm (hub _ (maxList_mem hne)) (maxList_ge hm)

theorem maxList_map_height (cs : List Tree) : maxList (cs.map Iter.height) = Iter.height.heightL cs := by
  cases cs with
  | nil => simp [maxList, Iter.height.heightL]
  | cons c cs =>
    simp only [List.map_cons, maxList, Iter.height.heightL]
    generalize Iter.height c = x
    induction cs generalizing x with
    | nil => simp [Iter.height.heightL]
    | cons d ds ih =>
      simp only [List.map_cons, List.foldl_cons, Iter.height.heightL]
      rw [ih, Nat.max_assoc]

/-! ### heights and locations -/

theorem height_node (i : Nat) (n : Str) (a : Attrs) (cs : List Tree) :
    Iter.height (.node i n a cs) = 1 + Iter.height.heightL cs := by simp [Iter.height]

theorem heightL_cons (c : Tree) (cs : List Tree) :
    Iter.height.heightL (c :: cs) = max (Iter.height c) (Iter.height.heightL cs) := by
  simp [Iter.height.heightL]

theorem locsL_length_le_of (ts : List Tree)
    (ih : ∀ t ∈ ts, ∀ b ∈ locs t, b.length + 1 ≤ Iter.height t) :
    ∀ k, ∀ b ∈ locsL k ts, b.length ≤ Iter.height.heightL ts := by
  induction ts with
  | nil => intro k b hb; simp [locsL] at hb
  | cons t ts iht =>
    intro k b hb
    rw [locsL_cons, List.mem_append] at hb
    rw [heightL_cons]
    rcases hb with hb | hb
    · rcases List.mem_map.1 hb with ⟨y, hy, rfl⟩
      have := ih t (by simp) y hy
      simp only [List.length_cons]
      omega
    · have := iht (fun t ht => ih t (by simp [ht])) (k + 1) b hb
      omega

theorem locs_length_lt_height : ∀ (t : Tree), ∀ b ∈ locs t, b.length + 1 ≤ Iter.height t := by
  intro t
  induction t using Tree.ind with
  | h i n a cs ih =>
    intro b hb
    rw [locs_node, List.mem_cons] at hb
    rw [height_node]
    rcases hb with rfl | hb
    · simp
    · have := locsL_length_le_of cs ih 0 b hb
      omega

theorem exists_locL_height_of (ts : List Tree) (hne : ts ≠ [])
    (ih : ∀ t ∈ ts, ∃ b ∈ locs t, b.length + 1 = Iter.height t) :
    ∀ k, ∃ b ∈ locsL k ts, b.length = Iter.height.heightL ts := by
  induction ts with
  | nil => exact absurd rfl hne
  | cons t ts iht =>
    intro k
    rw [heightL_cons]
    by_cases hts : ts = []
    · subst hts
      rcases ih t (by simp) with ⟨b, hb, he⟩
      refine ⟨k :: b, ?_, ?_⟩
      · rw [locsL_cons]; simp [hb]
      · simp [Iter.height.heightL]; omega
    · rcases iht hts (fun t ht => ih t (by simp [ht])) (k + 1) with ⟨b', hb', he'⟩
      rcases ih t (by simp) with ⟨b, hb, he⟩
      rcases Nat.le_total (Iter.height t) (Iter.height.heightL ts) with hle | hle
      · refine ⟨b', ?_, ?_⟩
        · rw [locsL_cons]; simp [hb']
        · rw [Nat.max_eq_right hle]; exact he'
      · refine ⟨k :: b, ?_, ?_⟩
        · rw [locsL_cons]; simp [hb]
        · rw [Nat.max_eq_left hle]; simp; omega

theorem exists_loc_height : ∀ (t : Tree), ∃ b ∈ locs t, b.length + 1 = Iter.height t := by
  intro t
  induction t using Tree.ind with
  | h i n a cs ih =>
    rw [locs_node, height_node]
    by_cases hcs : cs = []
    · subst hcs; exact ⟨[], by simp, by simp [Iter.height.heightL]⟩
    · rcases exists_locL_height_of cs hcs ih 0 with ⟨b, hb, he⟩
      exact ⟨b, by simp [hb], by omega⟩

theorem maxDepth_eq_height (R : Tree) (a : Addr) : maxDepth R a = Iter.height R := by
  unfold maxDepth
  rw [root_eq_nil, descendants_eq_tail]
  have hcons : depth [] :: ((subtreeLocs R []).tail).map depth = (locs R).map fun b => b.length + 1 := by
    rw [subtreeLocs_of_sub (sub_nil R), locs_eq_cons]
    simp only [List.nil_append, List.map_cons, List.tail_cons, List.length_nil, Nat.zero_add,
      List.cons.injEq]
    refine ⟨by simp [depth_eq_length], ?_⟩
    simp only [List.map_map]
    apply List.map_congr_left
    intro b _
    simp [depth_eq_length]
  rw [hcons]
  apply maxList_eq_of
  · rcases exists_loc_height R with ⟨b, hb, he⟩
    exact List.mem_map.2 ⟨b, hb, he⟩
  · intro x hx
    rcases List.mem_map.1 hx with ⟨b, hb, rfl⟩
    exact locs_length_lt_height R b hb

/-! ### diameter: the nonlocal accumulator -/

theorem recDiamL_eq_of (cs : List Tree)
    (ih : ∀ c ∈ cs, ∀ d, recDiam d c = (Iter.height c, max d (diamSpec c))) :
    ∀ d, recDiamL d cs = (heights cs, max d (diamSpecL cs)) := by
  induction cs with
  | nil => intro d; simp [recDiamL, heights, diamSpecL]
  | cons c cs ihc =>
    intro d
    rw [recDiamL, ih c (by simp), ihc (fun c hc => ih c (by simp [hc]))]
    simp [heights, diamSpecL, Nat.max_assoc]

theorem recDiam_eq : ∀ (t : Tree) (d : Nat), recDiam d t = (Iter.height t, max d (diamSpec t)) := by
  intro t
  induction t using Tree.ind with
  | h i n a cs ih =>
    intro d
    rw [recDiam]
    by_cases hcs : cs = []
    · subst hcs
      simp [diamSpec, diamSpecL, heights, top2Sum, nlargest, sortDesc, Iter.height, Iter.height.heightL]
    · have : cs.isEmpty = false := by simpa [List.isEmpty_iff] using hcs
      simp only [this, Bool.false_eq_true, ↓reduceIte]
      rw [recDiamL_eq_of cs ih d]
      simp only [diamSpec, height_node, heights, top2Sum, maxList_map_height, Prod.mk.injEq, true_and]
      omega

theorem diameter_eq_diamSpec (t : Tree) : diameter t = diamSpec t := by
  unfold diameter
  cases t with
  | node i n a cs =>
    by_cases hcs : cs = []
    · subst hcs
      simp [diamSpec, diamSpecL, heights, top2Sum, nlargest, sortDesc]
    · have : cs.isEmpty = false := by simpa [List.isEmpty_iff] using hcs
      simp [this, recDiam_eq]

end Query
