import BigtreeModel.RenderStyles
import BigtreeProofs.Lemmas.RenderRT4
/-! Helper lemmas for C18.print_roundtrip, part 5: `str_to_tree` without a prefix list
(`node_str.encode("ascii", "ignore").decode("ascii").lstrip()`) for styles whose glyphs are non-ASCII or blank. -/
namespace Render

theorem lstrip_blanks : ∀ (a n : Str), (∀ c ∈ a, c = ' ') → (∀ c, n.head? = some c → pySpace c = false) →
    lstrip (a ++ n) = n
  | [], n, _, hn => by
    unfold lstrip
    match n, hn with
    | [], _ => rfl
    | c :: tl, hn => simp [hn c rfl]
  | x :: a, n, ha, hn => by
    have hx : x = ' ' := ha x (by simp)
    have ih := lstrip_blanks a n (fun c hc => ha c (by simp [hc])) hn
    unfold lstrip at ih ⊢
    subst hx
    have : pySpace ' ' = true := by decide
    simp only [List.cons_append, List.dropWhile, this]
    exact ih

theorem filter_glyphs_blank {st : Style} (hab : asciiBlind st = true) (anc : List Bool) (hr : Bool) :
    ∀ c ∈ ((anc.map st.glyph).flatten ++ st.fill hr).filter (fun c => decide (c.toNat < 128)), c = ' ' := by
  intro c hc
  simp only [List.mem_filter, decide_eq_true_eq] at hc
  obtain ⟨hm, hlt⟩ := hc
  have hg : c ∈ st.stem ++ st.branch ++ st.stemFinal ++ [' '] := by
    simp only [List.mem_append] at hm
    rcases hm with hm | hm
    · exact glyphs_chars st anc c hm
    · cases hr <;> simp [Style.fill] at hm <;> simp [hm]
  simp only [List.mem_append, List.mem_singleton] at hg
  rcases hg with hg | hg
  · have := List.all_eq_true.mp hab c (by simp only [List.mem_append]; exact hg)
    simp only [Bool.or_eq_true, decide_eq_true_eq, beq_iff_eq] at this
    rcases this with h | h
    · omega
    · exact h
  · exact hg

/-- without a prefix list the name is read off as well -/
theorem nodeName_noPrefix {st : Style} (hab : asciiBlind st = true) (anc : List Bool) (hr : Bool) {n : Str}
    (hn : nameOk st n = true) (ha : asciiName n = true) :
    nodeName [] ((anc.map st.glyph).flatten ++ st.fill hr ++ n) = n := by
  obtain ⟨c, tl, hc, hsp, _⟩ := nameOk_parts hn
  unfold nodeName
  simp only [List.isEmpty_nil, ↓reduceIte, List.filter_append]
  have hnf : n.filter (fun c => decide (c.toNat < 128)) = n := by
    rw [List.filter_eq_self]
    intro x hx
    exact List.all_eq_true.mp ha x hx
  rw [hnf, ← List.filter_append]
  apply lstrip_blanks _ _ (filter_glyphs_blank hab anc hr)
  intro x hx
  rw [hc] at hx
  simp at hx
  rw [← hx]; exact hsp

theorem strToTree_noPrefix {st : Style} (hst : styleOk st = true) (hab : asciiBlind st = true) (md : Nat) (t : Tree)
    (hnames : ∀ n ∈ namesT t, nameOk st n = true ∧ asciiName n = true) (hsib : sibDistinct t = true) :
    strToTreeLines [] ((yieldTree st md t).map Line.text) = some (erase (prune md t)) := by
  rw [yieldTree_eq_spec]
  exact strToTree_spec_gen hst [] _
    (fun anc hr n hn => nodeName_noPrefix hab anc hr (hnames n (prune_namesT md t n hn)).1
      (hnames n (prune_namesT md t n hn)).2)
    (fun n hn => (hnames n (prune_namesT md t n hn)).1) (prune_sibDistinct md t hsib)
end Render
