import BigtreeModel.Bridge
import BigtreeModel.Iter
import BigtreeProofs.Lemmas.Iter
/-!
# Bridge A→B, part 4: the tree-level edit functions (no stores here)
-/

namespace Tree
open Iter

theorem pre_eq (t : Tree) : pre t = t.id :: preL t.children := by
  cases t; rfl

theorem mem_preL {x : Nat} {ts : List Tree} : x ∈ preL ts ↔ ∃ t ∈ ts, x ∈ pre t := by
  induction ts with
  | nil => simp [preL]
  | cons t ts ih => simp [preL, ih]

theorem id_mem_pre (t : Tree) : t.id ∈ pre t := by
  cases t; simp [pre]

/-! ## `detach` -/

theorem detachL_eq (v : Nat) (ts : List Tree) :
    detachL v ts = (ts.filter fun t => decide (t.id ≠ v)).map (detach v) := by
  induction ts with
  | nil => rfl
  | cons t ts ih =>
    by_cases h : t.id = v
    · simp [detachL, h, ih]
    · simp [detachL, h, ih]

mutual
theorem detach_of_not_mem (v : Nat) : ∀ t : Tree, v ∉ preL t.children → detach v t = t
  | .node i n a cs => by
    intro h
    simp only [detach]
    rw [detachL_of_not_mem v cs h]
theorem detachL_of_not_mem (v : Nat) : ∀ ts : List Tree, v ∉ preL ts → detachL v ts = ts
  | [] => fun _ => rfl
  | t :: ts => by
    intro h
    simp only [preL, List.mem_append, not_or] at h
    have hid : t.id ≠ v := fun e => h.1 (e ▸ id_mem_pre t)
    have h1 : v ∉ preL t.children := by
      intro hm; apply h.1; rw [pre_eq]; exact List.mem_cons_of_mem _ hm
    simp only [detachL, if_neg hid]
    rw [detach_of_not_mem v t h1, detachL_of_not_mem v ts h.2]
end

/-- a tree whose identities are distinct does not contain its root identity further down -/
theorem detach_root_id (t : Tree) (h : (pre t).Nodup) : detach t.id t = t := by
  apply detach_of_not_mem
  rw [pre_eq] at h
  exact (List.nodup_cons.1 h).1

/-! ## `appendChild` -/

theorem appendChildL_eq (p : Nat) (c : Tree) (ts : List Tree) :
    appendChildL p c ts = ts.map (appendChild p c) := by
  induction ts with
  | nil => rfl
  | cons t ts ih => simp [appendChildL, ih]

mutual
theorem appendChild_of_not_mem (p : Nat) (c : Tree) : ∀ t : Tree, p ∉ pre t → appendChild p c t = t
  | .node i n a cs => by
    intro h
    simp only [pre, List.mem_cons, not_or] at h
    have hi : i ≠ p := fun e => h.1 e.symm
    simp only [appendChild, if_neg hi]
    rw [appendChildL_of_not_mem p c cs h.2]
theorem appendChildL_of_not_mem (p : Nat) (c : Tree) : ∀ ts : List Tree, p ∉ preL ts → appendChildL p c ts = ts
  | [] => fun _ => rfl
  | t :: ts => by
    intro h
    simp only [preL, List.mem_append, not_or] at h
    simp only [appendChildL]
    rw [appendChild_of_not_mem p c t h.1, appendChildL_of_not_mem p c ts h.2]
end

/-! ## `subtree` -/

mutual
theorem subtree_none (v : Nat) : ∀ t : Tree, v ∉ pre t → subtree v t = none
  | .node i n a cs => by
    intro h
    simp only [pre, List.mem_cons, not_or] at h
    have hi : i ≠ v := fun e => h.1 e.symm
    simp only [subtree, if_neg hi]
    exact subtreeL_none v cs h.2
theorem subtreeL_none (v : Nat) : ∀ ts : List Tree, v ∉ preL ts → subtreeL v ts = none
  | [] => fun _ => rfl
  | t :: ts => by
    intro h
    simp only [preL, List.mem_append, not_or] at h
    simp only [subtreeL, subtree_none v t h.1]
    exact subtreeL_none v ts h.2
end

/-- if every member either does not contain `v` or yields `u`, and some member yields `u`, the list yields `u` -/
theorem subtreeL_some (v : Nat) (u : Tree) : ∀ ts : List Tree,
    (∀ t ∈ ts, subtree v t = none ∨ subtree v t = some u) → (∃ t ∈ ts, subtree v t = some u) →
    subtreeL v ts = some u
  | [] => by intro _ ⟨t, ht, _⟩; cases ht
  | t :: ts => by
    intro hall hex
    simp only [subtreeL]
    rcases hall t List.mem_cons_self with h | h
    · rw [h]
      apply subtreeL_some v u ts (fun t' ht' => hall t' (List.mem_cons_of_mem _ ht'))
      obtain ⟨t', ht', h'⟩ := hex
      rcases List.mem_cons.1 ht' with rfl | ht'
      · rw [h] at h'; cases h'
      · exact ⟨t', ht', h'⟩
    · rw [h]

theorem subtree_self (t : Tree) : subtree t.id t = some t := by
  cases t; simp [subtree]

/-! ## `clearChildren` -/

theorem clearChildrenL_eq (v : Nat) (ts : List Tree) :
    clearChildrenL v ts = ts.map (clearChildren v) := by
  induction ts with
  | nil => rfl
  | cons t ts ih => simp [clearChildrenL, ih]

/-! ## `sortChildren` -/

theorem sortChildrenL_eq (v : Nat) (key : Nat → Nat) (rev : Bool) (ts : List Tree) :
    sortChildrenL v key rev ts = ts.map (sortChildren v key rev) := by
  induction ts with
  | nil => rfl
  | cons t ts ih => simp [sortChildrenL, ih]

theorem insertKey_map {α β : Type} (f : α → β) (key : β → Nat) (x : α) (l : List α) :
    Store.insertKey key (f x) (l.map f) = (Store.insertKey (fun a => key (f a)) x l).map f := by
  induction l with
  | nil => rfl
  | cons y ys ih =>
    simp only [List.map_cons, Store.insertKey]
    split
    · rfl
    · simp [ih]

theorem sortKey_map {α β : Type} (f : α → β) (key : β → Nat) (l : List α) :
    Store.sortKey key (l.map f) = (Store.sortKey (fun a => key (f a)) l).map f := by
  induction l with
  | nil => rfl
  | cons x xs ih =>
    simp only [Store.sortKey, List.map_cons, List.foldr_cons] at ih ⊢
    rw [ih, insertKey_map]

/-- sorting the read trees by the key of their identity = reading the sorted identities -/
theorem sortList_map (key : Nat → Nat) (rev : Bool) (g : Nat → Tree) (hg : ∀ x, (g x).id = x) (l : List Nat) :
    sortList key rev (l.map g) =
      (if rev then (Store.sortKey key l.reverse).reverse else Store.sortKey key l).map g := by
  have hk : (fun a => key (g a).id) = key := by funext a; rw [hg]
  unfold sortList
  cases rev with
  | false => simp only [Bool.false_eq_true, if_false]; rw [sortKey_map g (fun t => key t.id), hk]
  | true =>
    simp only [if_true]
    rw [← List.map_reverse, sortKey_map g (fun t => key t.id), hk, List.map_reverse]

/-! ## edits at a node that does not occur are the identity -/

mutual
theorem clearChildren_of_not_mem (v : Nat) : ∀ t : Tree, v ∉ pre t → clearChildren v t = t
  | .node i n a cs => by
    intro h
    simp only [pre, List.mem_cons, not_or] at h
    have hi : i ≠ v := fun e => h.1 e.symm
    simp only [clearChildren, if_neg hi]
    rw [clearChildrenL_of_not_mem v cs h.2]
theorem clearChildrenL_of_not_mem (v : Nat) : ∀ ts : List Tree, v ∉ preL ts → clearChildrenL v ts = ts
  | [] => fun _ => rfl
  | t :: ts => by
    intro h
    simp only [preL, List.mem_append, not_or] at h
    simp only [clearChildrenL]
    rw [clearChildren_of_not_mem v t h.1, clearChildrenL_of_not_mem v ts h.2]
end

mutual
theorem sortChildren_of_not_mem (v : Nat) (key : Nat → Nat) (rev : Bool) :
    ∀ t : Tree, v ∉ pre t → sortChildren v key rev t = t
  | .node i n a cs => by
    intro h
    simp only [pre, List.mem_cons, not_or] at h
    have hi : i ≠ v := fun e => h.1 e.symm
    simp only [sortChildren, if_neg hi]
    rw [sortChildrenL_of_not_mem v key rev cs h.2]
theorem sortChildrenL_of_not_mem (v : Nat) (key : Nat → Nat) (rev : Bool) :
    ∀ ts : List Tree, v ∉ preL ts → sortChildrenL v key rev ts = ts
  | [] => fun _ => rfl
  | t :: ts => by
    intro h
    simp only [preL, List.mem_append, not_or] at h
    simp only [sortChildrenL]
    rw [sortChildren_of_not_mem v key rev t h.1, sortChildrenL_of_not_mem v key rev ts h.2]
end

/-! ## the order of the trees of a forest does not matter -/

theorem preL_perm {F G : List Tree} (h : F.Perm G) : (preL F).Perm (preL G) := by
  induction h with
  | nil => exact List.Perm.refl _
  | cons t _ ih => simp only [preL]; exact ih.append_left _
  | swap a b l =>
    simp only [preL, ← List.append_assoc]
    exact List.perm_append_comm.append_right _
  | trans _ _ ih1 ih2 => exact ih1.trans ih2

theorem mem_pre_of_subtree {v : Nat} {t u : Tree} (h : subtree v t = some u) : v ∈ pre t := by
  by_cases hm : v ∈ pre t
  · exact hm
  · rw [subtree_none v t hm] at h; cases h

theorem subtreeL_perm {F G : List Tree} (h : F.Perm G) (v : Nat) (hn : (preL F).Nodup) :
    subtreeL v F = subtreeL v G := by
  induction h with
  | nil => rfl
  | cons t _ ih =>
    simp only [preL] at hn
    simp only [subtreeL]
    rw [ih (List.nodup_append.1 hn).2.1]
  | swap a b l =>
    simp only [subtreeL]
    cases ha : subtree v a with
    | none => rfl
    | some x =>
      cases hb : subtree v b with
      | none => rfl
      | some y =>
        exfalso
        simp only [preL] at hn
        have h1 := mem_pre_of_subtree ha
        have h2 := mem_pre_of_subtree hb
        have := (List.nodup_append.1 hn).2.2 v h2 v (List.mem_append_left _ h1)
        exact this rfl
  | trans h1 _ ih1 ih2 =>
    rw [ih1 hn, ih2 ((preL_perm h1).nodup_iff.1 hn)]

theorem detachL_perm {F G : List Tree} (h : F.Perm G) (v : Nat) : (detachL v F).Perm (detachL v G) := by
  rw [detachL_eq, detachL_eq]
  exact (h.filter _).map _

theorem appendChildL_perm {F G : List Tree} (h : F.Perm G) (p : Nat) (c : Tree) :
    (appendChildL p c F).Perm (appendChildL p c G) := by
  rw [appendChildL_eq, appendChildL_eq]
  exact h.map _

theorem clearChildrenL_perm {F G : List Tree} (h : F.Perm G) (v : Nat) :
    (clearChildrenL v F).Perm (clearChildrenL v G) := by
  rw [clearChildrenL_eq, clearChildrenL_eq]
  exact h.map _

end Tree

namespace Forest
open Iter Tree

theorem move_perm {F G : Forest} (h : F.Perm G) (hn : (preL F).Nodup) (v p : Nat) :
    (move F v p).Perm (move G v p) := by
  unfold move
  rw [← subtreeL_perm h v hn]
  cases subtreeL v F with
  | none => exact h
  | some t => exact appendChildL_perm (detachL_perm h v) p t

theorem toRoot_perm {F G : Forest} (h : F.Perm G) (hn : (preL F).Nodup) (v : Nat) :
    (toRoot F v).Perm (toRoot G v) := by
  unfold toRoot
  rw [← subtreeL_perm h v hn]
  cases subtreeL v F with
  | none => exact h
  | some t => exact (detachL_perm h v).cons t

theorem delChildren_perm {F G : Forest} (h : F.Perm G) (hn : (preL F).Nodup) (v : Nat) :
    (delChildren F v).Perm (delChildren G v) := by
  unfold delChildren
  rw [← subtreeL_perm h v hn]
  cases subtreeL v F with
  | none => exact h
  | some t => exact (clearChildrenL_perm h v).append_left _

end Forest

namespace Tree

/-- induction on lists from the right -/
theorem snoc_induction {α : Type} {P : List α → Prop} (h0 : P [])
    (h1 : ∀ l a, P l → P (l ++ [a])) : ∀ l, P l := by
  have : ∀ l : List α, P l.reverse := by
    intro l
    induction l with
    | nil => exact h0
    | cons a l ih => rw [List.reverse_cons]; exact h1 _ a ih
  intro l
  have := this l.reverse
  rwa [List.reverse_reverse] at this

end Tree
