import BigtreeModel.Bridge
import BigtreeModel.Iter
import BigtreeProofs.Lemmas.Iter
/-!
# Bridge A→B, part 4: the tree-level edit functions (no stores here)
-/

namespace Tree
open Iter

theorem pre_eq (t : Tree) : pre t = t.id :: preL t.children := by
  cases t; rfl

theorem mem_preL {x : Nat} {ts : List Tree} : x ∈ preL ts ↔ ∃ t ∈ ts, x ∈ pre t := by
  induction ts with
  | nil => simp [preL]
  | cons t ts ih => simp [preL, ih]

theorem id_mem_pre (t : Tree) : t.id ∈ pre t := by
  cases t; simp [pre]

/-! ## `detach` -/

theorem detachL_eq (v : Nat) (ts : List Tree) :
    detachL v ts = (ts.filter fun t => decide (t.id ≠ v)).map (detach v) := by
  induction ts with
  | nil => rfl
  | cons t ts ih =>
    by_cases h : t.id = v
    · simp [detachL, h, ih]
    · simp [detachL, h, ih]

mutual
theorem detach_of_not_mem (v : Nat) : ∀ t : Tree, v ∉ preL t.children → detach v t = t
  | .node i n a cs => by
    intro h
    simp only [detach]
    rw [detachL_of_not_mem v cs h]
theorem detachL_of_not_mem (v : Nat) : ∀ ts : List Tree, v ∉ preL ts → detachL v ts = ts
  | [] => fun _ => rfl
  | t :: ts => by
    intro h
    simp only [preL, List.mem_append, not_or] at h
    have hid : t.id ≠ v := fun e => h.1 (e ▸ id_mem_pre t)
    have h1 : v ∉ preL t.children := by
      intro hm; apply h.1; rw [pre_eq]; exact List.mem_cons_of_mem _ hm
    simp only [detachL, if_neg hid]
    rw [detach_of_not_mem v t h1, detachL_of_not_mem v ts h.2]
end

/-- a tree whose identities are distinct does not contain its root identity further down -/
theorem detach_root_id (t : Tree) (h : (pre t).Nodup) : detach t.id t = t := by
  apply detach_of_not_mem
  rw [pre_eq] at h
  exact (List.nodup_cons.1 h).1

/-! ## `appendChild` -/

theorem appendChildL_eq (p : Nat) (c : Tree) (ts : List Tree) :
    appendChildL p c ts = ts.map (appendChild p c) := by
  induction ts with
  | nil => rfl
  | cons t ts ih => simp [appendChildL, ih]

mutual
theorem appendChild_of_not_mem (p : Nat) (c : Tree) : ∀ t : Tree, p ∉ pre t → appendChild p c t = t
  | .node i n a cs => by
    intro h
    simp only [pre, List.mem_cons, not_or] at h
    have hi : i ≠ p := fun e => h.1 e.symm
    simp only [appendChild, if_neg hi]
    rw [appendChildL_of_not_mem p c cs h.2]
theorem appendChildL_of_not_mem (p : Nat) (c : Tree) : ∀ ts : List Tree, p ∉ preL ts → appendChildL p c ts = ts
  | [] => fun _ => rfl
  | t :: ts => by
    intro h
    simp only [preL, List.mem_append, not_or] at h
    simp only [appendChildL]
    rw [appendChild_of_not_mem p c t h.1, appendChildL_of_not_mem p c ts h.2]
end

/-! ## `subtree` -/

mutual
theorem subtree_none (v : Nat) : ∀ t : Tree, v ∉ pre t → subtree v t = none
  | .node i n a cs => by
    intro h
    simp only [pre, List.mem_cons, not_or] at h
    have hi : i ≠ v := fun e => h.1 e.symm
    simp only [subtree, if_neg hi]
    exact subtreeL_none v cs h.2
theorem subtreeL_none (v : Nat) : ∀ ts : List Tree, v ∉ preL ts → subtreeL v ts = none
  | [] => fun _ => rfl
  | t :: ts => by
    intro h
    simp only [preL, List.mem_append, not_or] at h
    simp only [subtreeL, subtree_none v t h.1]
    exact subtreeL_none v ts h.2
end

/-- if every member either does not contain `v` or yields `u`, and some member yields `u`, the list yields `u` -/
theorem subtreeL_some (v : Nat) (u : Tree) : ∀ ts : List Tree,
    (∀ t ∈ ts, subtree v t = none ∨ subtree v t = some u) → (∃ t ∈ ts, subtree v t = some u) →
    subtreeL v ts = some u
  | [] => by intro _ ⟨t, ht, _⟩; cases ht
  | t :: ts => by
    intro hall hex
    simp only [subtreeL]
    rcases hall t List.mem_cons_self with h | h
    · rw [h]
      apply subtreeL_some v u ts (fun t' ht' => hall t' (List.mem_cons_of_mem _ ht'))
      obtain ⟨t', ht', h'⟩ := hex
      rcases List.mem_cons.1 ht' with rfl | ht'
      · rw [h] at h'; cases h'
      · exact ⟨t', ht', h'⟩
    · rw [h]

theorem subtree_self (t : Tree) : subtree t.id t = some t := by
  cases t; simp [subtree]

/-! ## `clearChildren` -/

theorem clearChildrenL_eq (v : Nat) (ts : List Tree) :
    clearChildrenL v ts = ts.map (clearChildren v) := by
  induction ts with
  | nil => rfl
  | cons t ts ih => simp [clearChildrenL, ih]

/-! ## `sortChildren` -/

theorem sortChildrenL_eq (v : Nat) (key : Nat → Nat) (rev : Bool) (ts : List Tree) :
    sortChildrenL v key rev ts = ts.map (sortChildren v key rev) := by
  induction ts with
  | nil => rfl
  | cons t ts ih => simp [sortChildrenL, ih]

theorem insertKey_map {α β : Type} (f : α → β) (key : β → Nat) (x : α) (l : List α) :
    Store.insertKey key (f x) (l.map f) = (Store.insertKey (fun a => key (f a)) x l).map f := by
  induction l with
  | nil => rfl
  | cons y ys ih =>
    simp only [List.map_cons, Store.insertKey]
    split
    · rfl
    · simp [ih]

theorem sortKey_map {α β : Type} (f : α → β) (key : β → Nat) (l : List α) :
    Store.sortKey key (l.map f) = (Store.sortKey (fun a => key (f a)) l).map f := by
  induction l with
  | nil => rfl
  | cons x xs ih =>
    simp only [Store.sortKey, List.map_cons, List.foldr_cons] at ih ⊢
    rw [ih, insertKey_map]

/-- sorting the read trees by the key of their identity = reading the sorted identities -/
theorem sortList_map (key : Nat → Nat) (rev : Bool) (g : Nat → Tree) (hg : ∀ x, (g x).id = x) (l : List Nat) :
    sortList key rev (l.map g) =
      (if rev then (Store.sortKey key l.reverse).reverse else Store.sortKey key l).map g := by
  have hk : (fun a => key (g a).id) = key := by funext a; rw [hg]
  unfold sortList
  cases rev with
  | false => simp only [Bool.false_eq_true, if_false]; rw [sortKey_map g (fun t => key t.id), hk]
  | true =>
    simp only [if_true]
    rw [← List.map_reverse, sortKey_map g (fun t => key t.id), hk, List.map_reverse]

end Tree
