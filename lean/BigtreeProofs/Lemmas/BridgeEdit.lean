import BigtreeProofs.Lemmas.BridgeMove
/-!
# Bridge A→B, part 6: the closed forms of the children deleter (`detached`), of `sort` and of the
children setter (`adopted`) read back as forest edits
-/

namespace Store
open Iter Tree

/-! ## `del v.children` -/

/-- reading back after `del v.children` = emptying the child list of `v` in every read-back -/
theorem clearChildren_treeOf {s : Store} (hw : WF s) (v : Nat) (f : Nat) (hf : s.n ≤ f) :
    ∀ x, clearChildren v (treeOf s f x) = treeOf (detached s v) f x := by
  have hw1 := wf_detached hw v
  have hn : (detached s v).n = s.n := rfl
  intro x
  induction x using children_induction hw with
  | h x ih =>
    rw [treeOf_unfold hw x f hf, treeOf_unfold hw1 x f (by rw [hn]; exact hf)]
    have hname : (detached s v).name x = s.name x := rfl
    have hch : (detached s v).children x = if x = v then [] else s.children x := rfl
    rw [hname, hch]
    simp only [clearChildren, clearChildrenL_eq, List.map_map]
    by_cases hx : x = v
    · simp [hx]
    · simp only [if_neg hx]
      congr 1
      apply List.map_congr_left
      intro c hc
      simpa using ih c hc

/-- the subtrees of the former children are untouched -/
theorem treeOf_detached_child {s : Store} (hw : WF s) (v : Nat) (f : Nat) (hf : s.n ≤ f) (c : Nat)
    (hc : c ∈ s.children v) : treeOf (detached s v) f c = treeOf s f c := by
  rw [← clearChildren_treeOf hw v f hf c]
  apply clearChildren_of_not_mem
  intro hm
  have hr := (mem_pre_treeOf hw f hf c v).1 hm
  have := Reach.antisymm hw hr (Reach.of_parent (hw.down v c hc))
  subst this
  exact not_properAncestor_self hw.acyc c ⟨c, hw.down c c hc, Reach.refl c⟩

theorem mem_roots_detached {s : Store} (hw : WF s) (v x : Nat) :
    x ∈ roots (detached s v) ↔ x ∈ s.children v ∨ x ∈ roots s := by
  simp only [mem_roots]
  show x < s.n ∧ (if s.parent x = some v then none else s.parent x) = none ↔ _
  by_cases hx : s.parent x = some v
  · simp [hx, hw.up x v hx, (hw.range x v hx).1]
  · have : x ∉ s.children v := fun h => hx (hw.down v x h)
    simp [hx, this]

theorem roots_detached_perm {s : Store} (hw : WF s) (v : Nat) :
    (roots (detached s v)).Perm (s.children v ++ roots s) := by
  rw [List.perm_ext_iff_of_nodup (roots_nodup _)]
  · intro x
    rw [mem_roots_detached hw, List.mem_append]
  · refine List.nodup_append.2 ⟨hw.nodup v, roots_nodup s, ?_⟩
    intro a ha b hb hab
    subst hab
    have := hw.down v a ha
    rw [((mem_roots a).1 hb).2] at this
    cases this

/-- `del v.children`, on forests: `Forest.delChildren`, up to the order of the trees -/
theorem forest_detached {s : Store} (hw : WF s) (v : Nat) (hv : v < s.n) :
    (forest (detached s v)).Perm (Forest.delChildren (forest s) v) := by
  unfold Forest.delChildren
  rw [subtreeL_forest hw v hv]
  simp only
  rw [treeOf_children hw v s.n (Nat.le_refl _), clearChildrenL_eq]
  show ((roots (detached s v)).map (treeOf (detached s v) s.n)).Perm _
  refine ((roots_detached_perm hw v).map _).trans ?_
  rw [List.map_append]
  apply List.Perm.of_eq
  congr 1
  · apply List.map_congr_left
    intro c hc
    exact treeOf_detached_child hw v s.n (Nat.le_refl _) c hc
  · simp only [forest, List.map_map]
    apply List.map_congr_left
    intro x _
    exact (clearChildren_treeOf hw v s.n (Nat.le_refl _) x).symm

/-! ## `sort` -/

theorem sortChildren_children (s : Store) (v : Nat) (ranks : List Nat) (rev : Bool) (x : Nat) :
    (Store.sortChildren s v ranks rev).children x =
      if x = v then
        (if rev then (sortKey (fun i => ranks.getD i 0) (s.children v).reverse).reverse
         else sortKey (fun i => ranks.getD i 0) (s.children v))
      else s.children x := rfl

/-- reading back after `v.sort(…)` = sorting the child list of `v` in every read-back -/
theorem sortChildren_treeOf {s : Store} (hw : WF s) (v : Nat) (ranks : List Nat) (rev : Bool)
    (f : Nat) (hf : s.n ≤ f) :
    ∀ x, Tree.sortChildren v (fun i => ranks.getD i 0) rev (treeOf s f x)
      = treeOf (Store.sortChildren s v ranks rev) f x := by
  have hw1 := wf_sortChildren hw v ranks rev
  have hn : (Store.sortChildren s v ranks rev).n = s.n := rfl
  intro x
  induction x using children_induction hw with
  | h x ih =>
    rw [treeOf_unfold hw x f hf, treeOf_unfold hw1 x f (by rw [hn]; exact hf)]
    have hname : (Store.sortChildren s v ranks rev).name x = s.name x := rfl
    rw [hname, sortChildren_children]
    simp only [Tree.sortChildren, sortChildrenL_eq, List.map_map]
    by_cases hx : x = v
    · subst hx
      simp only [if_true]
      rw [sortList_map _ _ _ (fun y => treeOf_id s f y)]
      congr 1
      apply List.map_congr_left
      intro c hc
      have hperm := sortChildren_perm s x ranks rev
      simp only [sortChildren_children, if_true] at hperm
      have hc' : c ∈ s.children x := hperm.mem_iff.1 hc
      rw [← ih c hc']
      symm
      apply sortChildren_of_not_mem
      intro hm
      have hr := (mem_pre_treeOf hw f hf c x).1 hm
      have := Reach.antisymm hw hr (Reach.of_parent (hw.down x c hc'))
      subst this
      exact not_properAncestor_self hw.acyc c ⟨c, hw.down c c hc', Reach.refl c⟩
    · simp only [if_neg hx]
      congr 1
      apply List.map_congr_left
      intro c hc
      simpa using ih c hc

/-- `v.sort(…)`, on forests: exactly `Forest.sortChildren` -/
theorem forest_sortChildren {s : Store} (hw : WF s) (v : Nat) (ranks : List Nat) (rev : Bool) :
    forest (Store.sortChildren s v ranks rev) = Forest.sortChildren (forest s) v ranks rev := by
  unfold Forest.sortChildren
  rw [sortChildrenL_eq]
  show (roots s).map (treeOf (Store.sortChildren s v ranks rev) s.n) = _
  simp only [forest, List.map_map]
  apply List.map_congr_left
  intro x _
  exact (sortChildren_treeOf hw v ranks rev s.n (Nat.le_refl _) x).symm

/-! ## `v.children = cs` -/

theorem adopted_nil (s : Store) (v : Nat) : adopted s v [] = detached s v := by
  apply ext' <;> try rfl
  all_goals (funext x; simp [adopted, detached])

theorem erase_filter_not_contains {l : List Nat} (hn : l.Nodup) (cs : List Nat) (c : Nat) :
    (l.filter fun y => !cs.contains y).erase c = l.filter fun y => !(cs ++ [c]).contains y := by
  rw [(hn.filter _).erase_eq_filter, List.filter_filter]
  apply List.filter_congr
  intro x _
  by_cases hx : x = c <;> simp [hx]

/-- the children setter, one member at a time: adopting `cs ++ [c]` = adopting `cs`, then `c.parent = v` -/
theorem adopted_snoc {s : Store} (hw : WF s) (v : Nat) (cs : List Nat) (c : Nat) (hc : c ∉ cs) :
    adopted s v (cs ++ [c]) = reparent (adopted s v cs) c (some v) := by
  apply ext' <;> try rfl
  · funext x
    simp only [reparent_parent]
    simp only [adopted, List.mem_append, List.mem_singleton]
    by_cases hxc : x = c
    · simp [hxc]
    · simp [hxc]
  · funext x
    rw [reparent_children]
    have hpc : (adopted s v cs).parent c = if s.parent c = some v then none else s.parent c := by
      simp [adopted, hc]
    have hchx : (adopted s v cs).children x
        = if x = v then cs else (s.children x).filter fun y => !cs.contains y := rfl
    have hchx' : (adopted s v (cs ++ [c])).children x
        = if x = v then cs ++ [c] else (s.children x).filter fun y => !(cs ++ [c]).contains y := rfl
    rw [hpc, hchx, hchx']
    by_cases hx : x = v
    · subst hx
      have : ¬ ((if s.parent c = some x then none else s.parent c) = some x) := by
        split <;> simp_all
      simp [this]
    · have hx' : ¬ (some v = some x) := fun e => hx (Option.some.inj e).symm
      simp only [if_neg hx, if_neg hx']
      by_cases hp : s.parent c = some x
      · have hxv : ¬ (some x = some v) := fun e => hx (Option.some.inj e)
        rw [hp, if_neg hxv, if_pos rfl]
        exact (erase_filter_not_contains (hw.nodup x) cs c).symm
      · have hcx : c ∉ s.children x := fun h => hp (hw.down x c h)
        have : ¬ ((if s.parent c = some v then none else s.parent c) = some x) := by
          split <;> simp_all
        simp only [if_neg this]
        apply List.filter_congr
        intro y hy
        have : y ≠ c := fun e => hcx (e ▸ hy)
        simp [this]

/-- in the store after adopting, the ancestors of `v` are the ones it had -/
theorem reach_adopted_v {s : Store} (hw : WF s) (v : Nat) (cs : List Nat)
    (hcs : ∀ c ∈ cs, ¬ Reach s c v) {a x : Nat} (h : Reach (adopted s v cs) a x) (hx : Reach s x v) :
    Reach s a x := by
  induction h with
  | refl => exact Reach.refl _
  | step hr hp ih =>
    rename_i q w
    have hwcs : w ∉ cs := fun hm => hcs w hm hx
    have hwv : s.parent w ≠ some v := by
      intro e
      have := Reach.antisymm hw hx (Reach.of_parent e)
      subst this
      exact not_properAncestor_self hw.acyc w ⟨w, e, Reach.refl w⟩
    have hp' : s.parent w = some q := by
      have : (adopted s v cs).parent w = s.parent w := by simp [adopted, hwcs, hwv]
      rw [← this]; exact hp
    exact Reach.step (ih ((Reach.of_parent hp').trans hx)) hp'

/-- accepted `v.children = cs`, on forests: `Forest.setChildren`, up to the order of the trees
(`G`: the forest of `s` in any order) -/
theorem forest_adopted {s : Store} (hw : WF s) (v : Nat) (hv : v < s.n) (G : Forest)
    (hG : (forest s).Perm G) : ∀ (cs : List Nat), cs.Nodup →
    (∀ c ∈ cs, c < s.n ∧ ¬ Reach s c v) →
    (forest (adopted s v cs)).Perm (Forest.setChildren G v cs) := by
  intro cs
  induction cs using snoc_induction with
  | h0 =>
    intro _ _
    rw [adopted_nil]
    exact (forest_detached hw v hv).trans (Forest.delChildren_perm hG (nodup_preL_forest hw) v)
  | h1 cs c ih =>
    intro hn hcs
    have hn' := List.nodup_append.1 hn
    have hcs' : ∀ c ∈ cs, c < s.n ∧ ¬ Reach s c v := fun x hx => hcs x (List.mem_append_left _ hx)
    have hc := hcs c (by simp)
    have hcn : c ∉ cs := fun hm => hn'.2.2 c hm c (by simp) rfl
    have hwA := wf_adopted hw v cs hv hn'.1 hcs'
    have hnA : (adopted s v cs).n = s.n := rfl
    have hnr : ¬ Reach (adopted s v cs) c v := fun h =>
      hc.2 (reach_adopted_v hw v cs (fun x hx => (hcs' x hx).2) h (Reach.refl v))
    rw [adopted_snoc hw v cs c hcn, forest_reparent_some hwA c v (by rw [hnA]; exact hc.1) (by rw [hnA]; exact hv) hnr]
    unfold Forest.setChildren
    rw [List.foldl_append]
    simp only [List.foldl_cons, List.foldl_nil]
    exact Forest.move_perm (ih hn'.1 hcs') (nodup_preL_forest hwA) c v

end Store
