import BigtreeModel.Helper
import BigtreeModel.HelperDiff
import BigtreeProofs.Lemmas.DiffDefs
import BigtreeProofs.Lemmas.DiffWalk
import BigtreeProofs.Lemmas.DiffStr
import BigtreeProofs.Lemmas.DiffMark
import BigtreeProofs.Lemmas.DiffInsert
import BigtreeProofs.Lemmas.DiffUpdate
import BigtreeProofs.Lemmas.DiffJoin
import BigtreeProofs.Lemmas.DiffRows
import BigtreeProofs.Lemmas.DiffRebuild
import BigtreeProofs.Lemmas.DiffApply
/-!
# C15: `get_tree_diff` end to end
-/
namespace Helper

/-- `treeDiff` with every data-frame stage read at component level -/
theorem treeDiff_unfold (c : Char) (t1 t2 : Tree) (onlyDiff : Bool) (attrList : List Str) (h : DiffOK c t1 t2) :
    treeDiff [c] t1 t2 onlyDiff attrList =
      if (keptC attrList t1 t2 onlyDiff).isEmpty then .ok none else
      match rebuild [c] ((keptC attrList t1 t2 onlyDiff).map fun p => pathName [c] (markFull (stPM t1 t2) p)) with
      | .error e => .error e
      | .ok t =>
        if (dequeC attrList t1 t2).isEmpty then .ok (some t) else
        match applyUpdates [c] (((pairUpdsC attrList t1 t2).map fun pu => (pathName [c] pu.1, pu.2)) ++
            renames [c] ((dequeC attrList t1 t2).map (pathName [c]))) t with
        | .error e => .error e
        | .ok t => .ok (some t) := by
  unfold treeDiff
  simp only []
  rw [markedRows_eq c attrList t1 t2 h, deque_eq c attrList t1 t2 h, keptRows_eq c attrList t1 t2 h,
    attrDiffs_flatten c attrList t1 t2 h]
  simp only [List.isEmpty_map, List.map_map]
  rfl

/-- the paths that get value pairs / renames exist, unmarked, in the rebuilt tree -/
theorem dequeC_in_tree (c : Char) (attrList : List Str) (t1 t2 : Tree) (h : DiffOK c t1 t2) (onlyDiff : Bool)
    (T' : Tree)
    (hk : ∀ q, q ∈ keys T' ↔ q ∈ (keptPaths attrList t1 t2 onlyDiff).map (markFull (stPM t1 t2)))
    (p : List Str) (hp : p ∈ dequeC attrList t1 t2) :
    p ∈ keys T' ∧ ∀ n ∈ p, n ≠ [] ∧ c ∉ n ∧ ¬ sufChanged <:+ n := by
  obtain ⟨hpa, hpb⟩ := dequeC_both attrList t1 t2 p hp
  have gp := allPaths_good c t1 t2 h p hpa
  refine ⟨?_, fun n hn => ⟨(gp.2 n hn).1, (gp.2 n hn).2.1, fun hs => (gp.2 n hn).2.2 (Or.inr (Or.inr hs))⟩⟩
  rw [hk, List.mem_map]
  refine ⟨p, ?_, markPM_both t1 t2 p hpa hpb⟩
  rw [mem_keptPaths_iff]
  refine ⟨hpa, p, ?_, List.prefix_refl _⟩
  unfold keptC
  cases onlyDiff with
  | false => simpa using hpa
  | true =>
    simp only [if_true, List.mem_filter, bne_iff_ne, ne_eq]
    refine ⟨hpa, ?_⟩
    rw [(status_changed_iff attrList t1 t2 p hpa).mpr hp]
    decide

/-- the update phase on the rebuilt tree -/
theorem updates_result (c : Char) (attrList : List Str) (t1 t2 : Tree) (h : DiffOK c t1 t2) (onlyDiff : Bool)
    (T' : Tree) (hs : SibU T')
    (hk : ∀ q, q ∈ keys T' ↔ q ∈ (keptPaths attrList t1 t2 onlyDiff).map (markFull (stPM t1 t2))) :
    ∃ S : List (List Str), (∀ q, q ∈ S ↔ q ∈ dequeC attrList t1 t2) ∧
      applyUpdates [c] (((pairUpdsC attrList t1 t2).map fun pu => (pathName [c] pu.1, pu.2)) ++
            renames [c] ((dequeC attrList t1 t2).map (pathName [c]))) T' =
        .ok (mapN (fnS S)
          ((pairUpdsC attrList t1 t2).foldl (fun fa pu => updFa pu.2 pu.1 fa) (fun _ a => a)) [] T') := by
  obtain ⟨Lc, hren, hmem, hpw⟩ := renames_eq c attrList t1 t2 h
  refine ⟨Lc.reverse ++ [], by intro q; simp [hmem], ?_⟩
  rw [hren]
  unfold applyUpdates
  rw [List.foldlM_append]
  have hp := fold_pairs c T' hs (pairUpdsC attrList t1 t2) (fun _ a => a)
    (by
      intro pu hpu
      have hd : pu.1 ∈ dequeC attrList t1 t2 := List.mem_map_of_mem (f := (·.1)) hpu
      refine ⟨?_, dequeC_in_tree c attrList t1 t2 h onlyDiff T' hk pu.1 hd⟩
      unfold pairUpdsC at hpu
      simp only [List.mem_flatMap, List.mem_map] at hpu
      obtain ⟨k, _, p, _, rfl⟩ := hpu
      exact ⟨k, _, _, rfl⟩)
  unfold applyUpdates at hp
  rw [mapN_id] at hp
  rw [hp]
  have hr := fold_renames c T' hs
    ((pairUpdsC attrList t1 t2).foldl (fun fa pu => updFa pu.2 pu.1 fa) (fun _ a => a)) Lc [] hpw
    (fun p hp => dequeC_in_tree c attrList t1 t2 h onlyDiff T' hk p ((hmem p).mp hp))
    (by simp)
  unfold applyUpdates at hr
  rw [fnS_nil] at hr
  exact hr

/-- rows of the final tree, up to order -/
theorem final_rows_perm (c : Char) (attrList : List Str) (hA : attrList.Nodup) (t1 t2 : Tree) (h : DiffOK c t1 t2)
    (onlyDiff : Bool) (T' : Tree) (hs : SibU T') (ha : NoAttrs T')
    (hk : ∀ q, q ∈ keys T' ↔ q ∈ (keptPaths attrList t1 t2 onlyDiff).map (markFull (stPM t1 t2)))
    (S : List (List Str)) (hS : ∀ q, q ∈ S ↔ q ∈ dequeC attrList t1 t2) :
    (compRows (mapN (fnS S)
        ((pairUpdsC attrList t1 t2).foldl (fun fa pu => updFa pu.2 pu.1 fa) (fun _ a => a)) [] T')).Perm
      (expected attrList t1 t2 onlyDiff) := by
  rw [compRows_eq, rows_mapN]
  have hperm := (rebuild_rows_perm c attrList t1 t2 h onlyDiff T' hs ha hk).map
    (fun r : List Str × Attrs => (relabel (fnS S) [] r.1,
      ((pairUpdsC attrList t1 t2).foldl (fun fa pu => updFa pu.2 pu.1 fa) (fun _ a => a)) ([] ++ r.1) r.2))
  refine hperm.trans ?_
  rw [List.map_map]
  unfold expected
  apply List.Perm.of_eq
  apply List.map_congr_left
  intro p hp
  have hpa := keptPaths_sub attrList t1 t2 onlyDiff p hp
  simp only [Function.comp_apply, List.nil_append]
  rw [names_at c attrList t1 t2 h S hS p hpa, pairs_at c attrList hA t1 t2 h p hpa]

/-- the core theorem, in terms of the kept rows -/
theorem diff_main (c : Char) (t1 t2 : Tree) (onlyDiff : Bool) (attrList : List Str)
    (hA : attrList.Nodup) (h : DiffOK c t1 t2) (hne : keptC attrList t1 t2 onlyDiff ≠ []) :
    ∃ D, treeDiff [c] t1 t2 onlyDiff attrList = .ok (some D) ∧
      (compRows D).Perm (expected attrList t1 t2 onlyDiff) := by
  obtain ⟨T', hT', hs', ha', _, hk'⟩ := rebuild_kept c attrList t1 t2 h onlyDiff hne
  obtain ⟨S, hS, hupd⟩ := updates_result c attrList t1 t2 h onlyDiff T' hs' hk'
  have hfin := final_rows_perm c attrList hA t1 t2 h onlyDiff T' hs' ha' hk' S hS
  rw [treeDiff_unfold c t1 t2 onlyDiff attrList h]
  have he : (keptC attrList t1 t2 onlyDiff).isEmpty = false := by
    cases hK : keptC attrList t1 t2 onlyDiff with
    | nil => exact absurd hK hne
    | cons => rfl
  rw [he, hT']
  simp only [Bool.false_eq_true, if_false]
  by_cases hd : dequeC attrList t1 t2 = []
  · -- no attribute change: the rebuilt tree is the result
    have hpairs : pairUpdsC attrList t1 t2 = [] := by
      have : (pairUpdsC attrList t1 t2).map (·.1) = [] := hd
      simpa using this
    have hS' : S = [] := by
      rw [List.eq_nil_iff_forall_not_mem]; intro q hq; rw [hS, hd] at hq; simp at hq
    rw [hd]
    simp only [List.isEmpty_nil, if_true]
    refine ⟨T', rfl, ?_⟩
    rw [hpairs, hS', fnS_nil] at hfin
    simp only [List.foldl_nil] at hfin
    rw [mapN_id] at hfin
    exact hfin
  · have he2 : (dequeC attrList t1 t2).isEmpty = false := by
      cases hK : dequeC attrList t1 t2 with
      | nil => exact absurd hK hd
      | cons => rfl
    rw [he2, hupd]
    simp only [Bool.false_eq_true, if_false]
    exact ⟨_, rfl, hfin⟩

theorem diff_none (c : Char) (t1 t2 : Tree) (onlyDiff : Bool) (attrList : List Str)
    (h : DiffOK c t1 t2) (he : keptC attrList t1 t2 onlyDiff = []) :
    treeDiff [c] t1 t2 onlyDiff attrList = .ok none := by
  rw [treeDiff_unfold c t1 t2 onlyDiff attrList h, he]
  rfl

end Helper
