import BigtreeModel.Export
/-! Helper lemmas for C06: Python-dict algebra, `describe`, completeness of the flat and nested
exporters. Core Lean only. -/

namespace Export

/-! ### dict algebra -/

theorem dset_append_of_not_mem {β : Type} (r : List (Str × β)) (k : Str) (v : β)
    (h : k ∉ r.map Prod.fst) : dset r k v = r ++ [(k, v)] := by
  induction r with
  | nil => rfl
  | cons x xs ih =>
    obtain ⟨k', v'⟩ := x
    simp only [List.map_cons, List.mem_cons, not_or] at h
    have hne : ¬ k' = k := fun e => h.1 e.symm
    simp [dset, hne, ih h.2]

theorem dupdate_nil (r : Rec) : dupdate r [] = r := rfl

theorem dupdate_cons (r : Rec) (kv : Str × Val) (u : Rec) :
    dupdate r (kv :: u) = dupdate (dset r kv.1 kv.2) u := rfl

theorem dupdate_append (u : Rec) : ∀ (r : Rec), (u.map Prod.fst).Nodup →
    (∀ k ∈ u.map Prod.fst, k ∉ r.map Prod.fst) → dupdate r u = r ++ u := by
  induction u with
  | nil => intro r _ _; simp [dupdate_nil]
  | cons x xs ih =>
    intro r hn hd
    obtain ⟨k, v⟩ := x
    simp only [List.map_cons, List.nodup_cons] at hn
    rw [dupdate_cons, dset_append_of_not_mem r k v (hd k (by simp))]
    rw [ih (r ++ [(k, v)]) hn.2]
    · simp
    · intro k' hk'
      simp only [List.map_append, List.map_cons, List.map_nil, List.mem_append, List.mem_singleton, not_or]
      exact ⟨hd k' (by simp [hk']), fun e => hn.1 (e ▸ hk')⟩

theorem dset_self (r : Rec) (k : Str) (v : Val) (hn : (r.map Prod.fst).Nodup) (hm : (k, v) ∈ r) :
    dset r k v = r := by
  induction r with
  | nil => cases hm
  | cons x xs ih =>
    obtain ⟨k', v'⟩ := x
    simp only [List.map_cons, List.nodup_cons] at hn
    by_cases hk : k' = k
    · subst hk
      rcases List.mem_cons.mp hm with h | h
      · cases h; simp [dset]
      · exact absurd (List.mem_map.mpr ⟨(k', v), h, rfl⟩) hn.1
    · rcases List.mem_cons.mp hm with h | h
      · cases h; exact absurd rfl hk
      · simp [dset, hk, ih hn.2 h]

theorem dupdate_sub (a : Rec) (hn : (a.map Prod.fst).Nodup) :
    ∀ (u : Rec), (∀ kv ∈ u, kv ∈ a) → dupdate a u = a := by
  intro u
  induction u with
  | nil => intro _; rfl
  | cons x xs ih =>
    intro h
    rw [dupdate_cons, dset_self a x.1 x.2 hn (h x (by simp))]
    exact ih (fun kv hkv => h kv (by simp [hkv]))

/-- `Node(name, **a)` followed by `set_attrs(a)` -/
theorem dupdate_self (a : Rec) (hn : (a.map Prod.fst).Nodup) : dupdate a a = a :=
  dupdate_sub a hn a (fun _ h => h)

theorem dget_cons_self {β : Type} (k : Str) (v : β) (r : List (Str × β)) : dget ((k, v) :: r) k = some v := by
  simp [dget]

theorem dget_of_not_mem {β : Type} (r : List (Str × β)) (k : Str) (h : k ∉ r.map Prod.fst) :
    dget r k = none := by
  induction r with
  | nil => rfl
  | cons x xs ih =>
    obtain ⟨k', v'⟩ := x
    simp only [List.map_cons, List.mem_cons, not_or] at h
    have hne : ¬ k' = k := fun e => h.1 e.symm
    simp [dget, hne, ih h.2]

/-! ### describe -/

theorem insertByKey_perm (kv : Str × Val) (l : Rec) : (insertByKey kv l).Perm (kv :: l) := by
  induction l with
  | nil => exact List.Perm.refl _
  | cons x xs ih =>
    unfold insertByKey
    split
    · exact List.Perm.refl _
    · exact ((List.Perm.cons x ih).trans (List.Perm.swap kv x xs))

theorem sortByKey_perm (l : Rec) : (sortByKey l).Perm l := by
  induction l with
  | nil => exact List.Perm.refl _
  | cons x xs ih =>
    unfold sortByKey
    exact (insertByKey_perm x _).trans (List.Perm.cons x ih)

theorem describe_keys_nodup (a : Attrs) (h : (a.map Prod.fst).Nodup) :
    ((describe a).map Prod.fst).Nodup := by
  have h1 : ((sortByKey a).map Prod.fst).Nodup :=
    ((sortByKey_perm a).map Prod.fst).nodup_iff.mpr h
  exact List.Nodup.sublist ((List.filter_sublist (l := sortByKey a)).map Prod.fst) h1

theorem describe_no_name (a : Attrs) : strName ∉ (describe a).map Prod.fst := by
  intro h
  obtain ⟨kv, hkv, hk⟩ := List.mem_map.mp h
  have := (List.mem_filter.mp hkv).2
  simp [hk] at this

theorem describe_mem (a : Attrs) (kv : Str × Val) (h : kv ∈ describe a) : kv ∈ a :=
  (sortByKey_perm a).mem_iff.mp (List.mem_filter.mp h).1

/-- the record fields of a full export: the name entry followed by what `describe` lists -/
theorem addAttrs_full (r : Rec) (a : Attrs) (o : Opts) (ho : o.allAttrs = true)
    (hn : (a.map Prod.fst).Nodup) (hd : ∀ k ∈ (describe a).map Prod.fst, k ∉ r.map Prod.fst) :
    addAttrs o a r = r ++ describe a := by
  unfold addAttrs
  rw [if_pos ho]
  exact dupdate_append _ _ (describe_keys_nodup a hn) hd

theorem filter_name_describe (a : Attrs) :
    (describe a).filter (fun kv => kv.1 != strName) = describe a := by
  apply List.filter_eq_self.mpr
  intro kv hkv
  have := describe_no_name a
  simp only [bne_iff_ne, ne_eq]
  intro e
  exact this (List.mem_map.mpr ⟨kv, hkv, e⟩)

/-! ### completeness of the tabular exporters -/

/-- the records of the selected nodes, in pre-order -/
def rowsSpec (o : Opts) (sep : Char) (l : List (List Str × Tree)) : List Rec :=
  (l.filter (selected o)).map fun x => record o sep x.1 x.2

theorem rowsSpec_append (o : Opts) (sep : Char) (l₁ l₂ : List (List Str × Tree)) :
    rowsSpec o sep (l₁ ++ l₂) = rowsSpec o sep l₁ ++ rowsSpec o sep l₂ := by
  simp [rowsSpec]

mutual
theorem appendRows_eq (o : Opts) (sep : Char) : ∀ (t : Tree) (anc : List Str) (acc : List Rec),
    appendRows o sep anc acc t = acc ++ rowsSpec o sep (preCtx anc t)
  | .node i n a cs, anc, acc => by
    rw [appendRows, appendRowsL_eq o sep cs, preCtx]
    by_cases h : o.gate (anc.length + 1) cs.isEmpty
    · simp [rowsSpec, selected, h]
    · simp [rowsSpec, selected, h]
theorem appendRowsL_eq (o : Opts) (sep : Char) : ∀ (ts : List Tree) (anc : List Str) (acc : List Rec),
    appendRowsL o sep anc acc ts = acc ++ rowsSpec o sep (preCtxL anc ts)
  | [], anc, acc => by simp [appendRowsL, preCtxL, rowsSpec]
  | t :: ts, anc, acc => by
    rw [appendRowsL, appendRows_eq o sep t, appendRowsL_eq o sep ts, preCtxL, rowsSpec_append]
    simp
end

/-- the (path, record) entries of the selected nodes, in pre-order -/
def dictSpec (o : Opts) (sep : Char) (l : List (List Str × Tree)) : List (Str × Rec) :=
  (l.filter (selected o)).map fun x => (pathName sep x.1 x.2.name, record o sep x.1 x.2)

/-- `data_dict[k] = v` for a list of entries -/
def dsetAll (acc : List (Str × Rec)) (es : List (Str × Rec)) : List (Str × Rec) :=
  es.foldl (fun d e => dset d e.1 e.2) acc

theorem dsetAll_append (acc : List (Str × Rec)) (e₁ e₂ : List (Str × Rec)) :
    dsetAll acc (e₁ ++ e₂) = dsetAll (dsetAll acc e₁) e₂ := by
  simp [dsetAll]

theorem dictSpec_append (o : Opts) (sep : Char) (l₁ l₂ : List (List Str × Tree)) :
    dictSpec o sep (l₁ ++ l₂) = dictSpec o sep l₁ ++ dictSpec o sep l₂ := by
  simp [dictSpec]

mutual
theorem appendDict_eq (o : Opts) (sep : Char) : ∀ (t : Tree) (anc : List Str) (acc : List (Str × Rec)),
    appendDict o sep anc acc t = dsetAll acc (dictSpec o sep (preCtx anc t))
  | .node i n a cs, anc, acc => by
    rw [appendDict, appendDictL_eq o sep cs, preCtx]
    by_cases h : o.gate (anc.length + 1) cs.isEmpty
    · simp [dictSpec, selected, h, dsetAll]
    · simp [dictSpec, selected, h, dsetAll]
theorem appendDictL_eq (o : Opts) (sep : Char) : ∀ (ts : List Tree) (anc : List Str) (acc : List (Str × Rec)),
    appendDictL o sep anc acc ts = dsetAll acc (dictSpec o sep (preCtxL anc ts))
  | [], anc, acc => by simp [appendDictL, preCtxL, dictSpec, dsetAll]
  | t :: ts, anc, acc => by
    rw [appendDictL, appendDict_eq o sep t, appendDictL_eq o sep ts, preCtxL, dictSpec_append, dsetAll_append]
end

/-- assigning entries with pairwise distinct fresh keys appends them -/
theorem dsetAll_fresh (es : List (Str × Rec)) : ∀ (acc : List (Str × Rec)),
    (es.map Prod.fst).Nodup → (∀ k ∈ es.map Prod.fst, k ∉ acc.map Prod.fst) → dsetAll acc es = acc ++ es := by
  induction es with
  | nil => intro acc _ _; simp [dsetAll]
  | cons x xs ih =>
    intro acc hn hd
    obtain ⟨k, v⟩ := x
    simp only [List.map_cons, List.nodup_cons] at hn
    have h1 : dsetAll acc ((k, v) :: xs) = dsetAll (dset acc k v) xs := rfl
    rw [h1, dset_append_of_not_mem acc k v (hd k (by simp)), ih _ hn.2]
    · simp
    · intro k' hk'
      simp only [List.map_append, List.map_cons, List.map_nil, List.mem_append, List.mem_singleton, not_or]
      exact ⟨hd k' (by simp [hk']), fun e => hn.1 (e ▸ hk')⟩

/-! ### completeness of the nested exporter -/

mutual
theorem nestedOf_eq (o : Opts) : ∀ (t : Tree) (d : Nat), (o.maxDepth == 0 || decide (d ≤ o.maxDepth)) = true →
    nestedOf o d t = [mirror o (cutDepth o.maxDepth d t)]
  | .node i n a cs, d, h => by
    rw [nestedOf, if_pos h, cutDepth, mirror, nestedOfL_eq o cs]
    rfl
theorem nestedOfL_eq (o : Opts) : ∀ (ts : List Tree) (d : Nat),
    nestedOfL o d ts = mirrorL o (cutDepthL o.maxDepth d ts)
  | [], d => by simp [nestedOfL, cutDepthL, mirrorL]
  | t :: ts, d => by
    rw [nestedOfL, cutDepthL, nestedOfL_eq o ts]
    by_cases h : (o.maxDepth == 0 || decide (d ≤ o.maxDepth)) = true
    · rw [nestedOf_eq o t d h, if_pos h]; simp [mirrorL]
    · rw [if_neg h]
      cases t with
      | node i n a cs => rw [nestedOf, if_neg h]; simp
end

mutual
theorem cutDepth_zero : ∀ (t : Tree) (d : Nat), cutDepth 0 d t = t
  | .node i n a cs, d => by rw [cutDepth, cutDepthL_zero cs]
theorem cutDepthL_zero : ∀ (ts : List Tree) (d : Nat), cutDepthL 0 d ts = ts
  | [], d => by simp [cutDepthL]
  | t :: ts, d => by simp [cutDepthL, cutDepth_zero t, cutDepthL_zero ts]
end

/-! ### the record, spelled out (no two requested keys coincide) -/

/-- the fixed entries of a record: path (rows only), name, parent name — each only when its key is given -/
def fixedEntries (o : Opts) (sep : Char) (anc : List Str) (t : Tree) : Rec :=
  (if o.pathCol ≠ [] then [(o.pathCol, Val.str (pathName sep anc t.name))] else []) ++
  (if o.nameKey ≠ [] then [(o.nameKey, Val.str t.name)] else []) ++
  (if o.parentKey ≠ [] then [(o.parentKey, parentVal anc)] else [])

theorem foldl_dset_fresh {α : Type} (f : α → Str × Val) : ∀ (l : List α) (r : Rec),
    ((l.map fun x => (f x).1)).Nodup → (∀ x ∈ l, (f x).1 ∉ r.map Prod.fst) →
    l.foldl (fun acc x => dset acc (f x).1 (f x).2) r = r ++ l.map f := by
  intro l
  induction l with
  | nil => intro r _ _; simp
  | cons x xs ih =>
    intro r hn hd
    simp only [List.map_cons, List.nodup_cons] at hn
    rw [List.foldl_cons, dset_append_of_not_mem r _ _ (hd x (by simp)), ih _ hn.2]
    · simp
    · intro y hy
      simp only [List.map_append, List.map_cons, List.map_nil, List.mem_append, List.mem_singleton, not_or]
      exact ⟨hd y (by simp [hy]), fun e => hn.1 (e ▸ List.mem_map.mpr ⟨y, hy, rfl⟩)⟩

theorem record_fixed (o : Opts) (sep : Char) (anc : List Str) (t : Tree)
    (hn : ((fixedEntries o sep anc t).map Prod.fst).Nodup) :
    record o sep anc t = addAttrs o t.attrs (fixedEntries o sep anc t) := by
  unfold record fixedEntries at *
  by_cases h1 : o.pathCol = [] <;> by_cases h2 : o.nameKey = [] <;> by_cases h3 : o.parentKey = [] <;>
    simp only [h1, h2, h3, ne_eq, not_true_eq_false, not_false_eq_true, if_true, if_false, List.append_nil,
      List.nil_append, dset] at hn ⊢
  · simp only [List.singleton_append, List.map_cons, List.map_nil, List.nodup_cons, List.mem_singleton] at hn
    have : ¬ o.nameKey = o.parentKey := hn.1
    simp [this]
  · simp only [List.singleton_append, List.map_cons, List.map_nil, List.nodup_cons, List.mem_singleton] at hn
    have : ¬ o.pathCol = o.parentKey := hn.1
    simp [this]
  · simp only [List.singleton_append, List.map_cons, List.map_nil, List.nodup_cons, List.mem_singleton] at hn
    have : ¬ o.pathCol = o.nameKey := hn.1
    simp [this]
  · simp only [List.cons_append, List.nil_append, List.map_cons, List.map_nil, List.nodup_cons,
      List.mem_cons, not_or] at hn
    have a : ¬ o.pathCol = o.nameKey := hn.1.1
    have b : ¬ o.pathCol = o.parentKey := hn.1.2.1
    have c : ¬ o.nameKey = o.parentKey := hn.2.1.1
    simp [dset, a, b, c]

end Export
