import BigtreeModel.Render
import BigtreeProofs.Lemmas.RenderRT3
/-! Helper lemmas for C18.print_roundtrip, part 4: the text level (`"\n".join`, `.strip("\n")`, `.split("\n")`). -/
namespace Render

theorem splitNl_ne_nil : ∀ s : Str, splitNl s ≠ []
  | [] => by simp [splitNl]
  | c :: s => by
    simp only [splitNl]
    cases h : splitNl s with
    | nil => simp
    | cons l ls => by_cases hc : (c == '\n') = true <;> simp [hc]

theorem splitNl_line : ∀ (l rest : Str), '\n' ∉ l → splitNl (l ++ '\n' :: rest) = l :: splitNl rest
  | [], rest, _ => by
    simp only [List.nil_append, splitNl]
    cases h : splitNl rest with
    | nil => exact absurd h (splitNl_ne_nil rest)
    | cons l0 ls0 => simp
  | c :: l, rest, h => by
    simp only [List.mem_cons, not_or] at h
    have hc : (c == '\n') = false := by simpa using fun e => h.1 e.symm
    simp only [List.cons_append, splitNl, splitNl_line l rest h.2, hc, Bool.false_eq_true, ↓reduceIte]

theorem splitNl_single : ∀ l : Str, '\n' ∉ l → splitNl l = [l]
  | [], _ => rfl
  | c :: l, h => by
    simp only [List.mem_cons, not_or] at h
    have hc : (c == '\n') = false := by simpa using fun e => h.1 e.symm
    simp only [splitNl, splitNl_single l h.2, hc, Bool.false_eq_true, ↓reduceIte]

theorem splitNl_joinNl : ∀ ls : List Str, ls ≠ [] → (∀ l ∈ ls, '\n' ∉ l) → splitNl (joinNl ls) = ls
  | [], h, _ => absurd rfl h
  | [l], _, h => by simp only [joinNl]; exact splitNl_single l (h l (by simp))
  | l :: l2 :: ls, _, h => by
    simp only [joinNl]
    rw [splitNl_line l _ (h l (by simp)), splitNl_joinNl (l2 :: ls) (by simp) (fun x hx => h x (by simp [hx]))]

theorem joinNl_head : ∀ (ls : List Str) (c : Char) (l : Str), joinNl ((c :: l) :: ls) = c :: (joinNl (l :: ls)) := by
  intro ls c l
  cases ls <;> simp [joinNl]

theorem joinNl_last : ∀ (ls : List Str), ls ≠ [] → (∀ l ∈ ls, l ≠ [] ∧ '\n' ∉ l) →
    ∃ c s', joinNl ls = s' ++ [c] ∧ c ≠ '\n'
  | [], h, _ => absurd rfl h
  | [l], _, h => by
    obtain ⟨hne, hnl⟩ := h l (by simp)
    refine ⟨l.getLast hne, l.dropLast, by simp [joinNl, List.dropLast_concat_getLast], ?_⟩
    intro e
    exact hnl (e ▸ List.getLast_mem hne)
  | l :: l2 :: ls, _, h => by
    obtain ⟨c, s', hs, hc⟩ := joinNl_last (l2 :: ls) (by simp) (fun x hx => h x (by simp [hx]))
    exact ⟨c, l ++ '\n' :: s', by simp [joinNl, hs], hc⟩

theorem strip_id (s : Str) (c0 : Char) (s0 : Str) (h0 : s = c0 :: s0) (hc0 : c0 ≠ '\n')
    (c1 : Char) (s1 : Str) (h1 : s = s1 ++ [c1]) (hc1 : c1 ≠ '\n') :
    rstripChars ['\n'] (lstripChars ['\n'] s) = s := by
  have e1 : lstripChars ['\n'] s = s := by
    rw [h0]; simp [lstripChars, List.dropWhile, hc0]
  rw [e1, h1]
  simp [rstripChars, hc1]

/-- every specification line is indentation glyphs, a connector and a name of the tree (or just the root's name) -/
def LineForm (st : Style) (names : List Str) (s : Str) : Prop :=
  ∃ pre n, n ∈ names ∧ s = pre ++ n ∧ ∀ c ∈ pre, c ∈ st.stem ++ st.branch ++ st.stemFinal ++ [' ']

theorem glyphs_chars (st : Style) : ∀ anc : List Bool, ∀ c ∈ (anc.map st.glyph).flatten, c ∈ st.stem ++ st.branch ++ st.stemFinal ++ [' ']
  | [], c, h => by simp at h
  | b :: anc, c, h => by
    simp only [List.map_cons, List.flatten_cons, List.mem_append] at h
    rcases h with h | h
    · cases b
      · simp [Style.glyph, Style.gap] at h; simp [h.2]
      · simp [Style.glyph] at h; simp [h]
    · exact glyphs_chars st anc c h

mutual
theorem specT_form (st : Style) (anc : List Bool) (hr : Bool) (t : Tree) :
    ∀ l ∈ specT st anc hr t, LineForm st (namesT t) l.text := by
  match t with
  | .node i n a cs =>
    intro l hl
    simp only [specT, List.mem_cons] at hl
    rcases hl with rfl | hl
    · refine ⟨(anc.map st.glyph).flatten ++ st.fill hr, n, by simp [namesT], by simp [Line.text], ?_⟩
      intro c hc
      simp only [List.mem_append] at hc
      rcases hc with hc | hc
      · exact glyphs_chars st anc c hc
      · cases hr <;> simp [Style.fill] at hc <;> simp [hc]
    · obtain ⟨pre, m, hm, e, hp⟩ := specL_form st _ cs l hl
      exact ⟨pre, m, by simp [namesT, hm], e, hp⟩
theorem specL_form (st : Style) (anc : List Bool) (cs : List Tree) :
    ∀ l ∈ specL st anc cs, LineForm st (namesL cs) l.text := by
  match cs with
  | [] => intro l hl; simp [specL] at hl
  | c :: cs =>
    intro l hl
    simp only [specL, List.mem_append] at hl
    rcases hl with hl | hl
    · obtain ⟨pre, m, hm, e, hp⟩ := specT_form st anc _ c l hl
      exact ⟨pre, m, by simp [namesL, hm], e, hp⟩
    · obtain ⟨pre, m, hm, e, hp⟩ := specL_form st anc cs l hl
      exact ⟨pre, m, by simp [namesL, hm], e, hp⟩
end

theorem specRoot_form (st : Style) (t : Tree) : ∀ l ∈ specRoot st t, LineForm st (namesT t) l.text := by
  match t with
  | .node i n a cs =>
    intro l hl
    simp only [specRoot, List.mem_cons] at hl
    rcases hl with rfl | hl
    · exact ⟨[], n, by simp [namesT], by simp [Line.text], by simp⟩
    · obtain ⟨pre, m, hm, e, hp⟩ := specL_form st [] cs l hl
      exact ⟨pre, m, by simp [namesT, hm], e, hp⟩

/-- print → parse round trip on the text level -/
theorem strToTree_text {st : Style} (hst : styleOk st = true) (md : Nat) (t : Tree)
    (hnl : '\n' ∉ st.stem ++ st.branch ++ st.stemFinal)
    (hnames : ∀ n ∈ namesT t, nameOk st n = true ∧ '\n' ∉ n) (hsib : sibDistinct t = true) :
    strToTree [st.branch, st.stemFinal] (joinNl ((yieldTree st md t).map Line.text)) = some (erase (prune md t)) := by
  have hrt := strToTree_yieldTree hst md t (fun n hn => (hnames n hn).1) hsib
  rw [yieldTree_eq_spec] at hrt ⊢
  have hlines : ∀ s ∈ (specRoot st (prune md t)).map Line.text, s ≠ [] ∧ '\n' ∉ s := by
    intro s hs
    obtain ⟨l, hl, rfl⟩ := List.mem_map.mp hs
    obtain ⟨pre, n, hn, e, hp⟩ := specRoot_form st _ l hl
    have hn' := hnames n (prune_namesT md t n hn)
    obtain ⟨c, tl, hc, _⟩ := nameOk_parts hn'.1
    rw [e]
    refine ⟨by simp [hc], ?_⟩
    simp only [List.mem_append, not_or]
    refine ⟨fun h => ?_, hn'.2⟩
    have := hp _ h
    simp only [List.mem_append, List.mem_singleton] at this hnl
    rcases this with ((h1 | h1) | h1) | h1
    · exact hnl (Or.inl (Or.inl h1))
    · exact hnl (Or.inl (Or.inr h1))
    · exact hnl (Or.inr h1)
    · exact absurd h1 (by decide)
  have hne : (specRoot st (prune md t)).map Line.text ≠ [] := by
    match prune md t with
    | .node i n a cs => simp [specRoot]
  -- first and last characters
  obtain ⟨c1, s1, e1, hc1⟩ := joinNl_last _ hne hlines
  have hfirst : ∃ c0 s0, joinNl ((specRoot st (prune md t)).map Line.text) = c0 :: s0 ∧ c0 ≠ '\n' := by
    match hp : prune md t with
    | .node i n a cs =>
      have hn' := hnames n (prune_namesT md t n (by rw [hp]; simp [namesT]))
      obtain ⟨c, tl, hc, _⟩ := nameOk_parts hn'.1
      refine ⟨c, joinNl (tl :: (specL st [] cs).map Line.text), ?_, ?_⟩
      · simp only [specRoot, List.map_cons, Line.text, List.nil_append, hc]
        exact joinNl_head _ _ _
      · intro e; exact hn'.2 (by rw [hc, e]; simp)
  obtain ⟨c0, s0, e0, hc0⟩ := hfirst
  unfold strToTree
  simp only [strip_id _ c0 s0 e0 hc0 c1 s1 e1 hc1]
  have : (joinNl ((specRoot st (prune md t)).map Line.text)).isEmpty = false := by rw [e0]; rfl
  simp only [this, Bool.false_eq_true, ↓reduceIte]
  rw [splitNl_joinNl _ hne (fun l hl => (hlines l hl).2)]
  exact hrt
end Render
