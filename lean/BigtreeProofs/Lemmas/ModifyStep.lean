import BigtreeModel.Modify
import BigtreeProofs.Lemmas.ModifyFold
import BigtreeProofs.Lemmas.ModifyTree
import BigtreeProofs.Lemmas.ModifyStr
/-!
# C08 helper lemmas: one pair with printed full paths, separator `c` everywhere
-/
namespace Modify

/-- all three separators are the single character `c` -/
structure Cfg.Plain (cfg : Cfg) (c : Char) : Prop where
  sep : cfg.sep = [c]
  fsep : cfg.fsep = [c]
  tsep : cfg.tsep = [c]

/-- The from-string `fs` of a pair addresses the node `F` at `fp` of `tree`: it survives the
separator normalisation, the lookup the call performs (`find_full_path` with `with_full_path`,
`find_path` otherwise) returns that node, its last component is `l`, and with `with_full_path` it
starts at the root. `FromOK.full` / `FromOK.partial` establish this for printed full paths and for
partial paths that address exactly one node. -/
structure FromOK (cfg : Cfg) (tree : Tree) (fs : Str) (fp : List Str) (F : Tree) (l : Str) : Prop where
  norm : normFrom cfg fs = fs
  res : (if cfg.withFullPath then findFullPath cfg.fsep tree fs else findPath cfg.fsep tree fs)
          = .ok (some (fp, F))
  found : getRel fp tree = some F
  last : lastComp cfg.fsep fs = l
  root : cfg.withFullPath = true → headComp cfg.fsep fs = tree.name

variable {cfg : Cfg} {c : Char}

theorem pathStr_ne_nil (r : Str) (p : List Str) : pathStr c r p ≠ [] := by
  simp [pathStr, pathName]

theorem normFrom_pathStr (hc : cfg.Plain c) (r : Str) (p : List Str) (hg : GoodNames c (r :: p)) :
    normFrom cfg (pathStr c r p) = pathStr c r p := by
  unfold normFrom
  rw [hc.sep, hc.fsep, replace_self]
  exact stripR_pathName _ (by simp) hg

theorem normTo_pathStr (hc : cfg.Plain c) (r : Str) (p : List Str) (hg : GoodNames c (r :: p)) :
    normTo cfg (some (pathStr c r p)) = some (pathStr c r p) := by
  have hne : pathStr c r p ≠ [] := pathStr_ne_nil r p
  cases hp : pathStr c r p with
  | nil => exact absurd hp hne
  | cons x xs =>
    simp only [normTo]
    rw [hc.sep, hc.tsep, replace_self, ← hp]
    exact congrArg some (stripR_pathName _ (by simp) hg)

theorem findFullPath_pathStr (t : Tree) (p : List Str) (hg : GoodNames c (t.name :: p)) :
    findFullPath [c] t (pathStr c t.name p) = .ok ((getRel p t).map (fun x => (p, x))) := by
  unfold findFullPath pathStr
  rw [comps_pathName _ _ hg]
  simp

theorem resolveFrom_of (st : St) {fs : Str} {fp : List Str} {F : Tree} {l : Str}
    (h : FromOK cfg st.tree fs fp F l) : resolveFrom cfg st fs = .ok (some (fp, F)) := h.res

/-- a printed full path with `with_full_path=True` -/
theorem FromOK.full (hc : cfg.Plain c) (hfull : cfg.withFullPath = true) (t : Tree) (fpar : List Str)
    (l : Str) (F : Tree) (hg : GoodNames c (t.name :: fpar ++ [l])) (hF : getRel (fpar ++ [l]) t = some F) :
    FromOK cfg t (pathStr c t.name (fpar ++ [l])) (fpar ++ [l]) F l where
  norm := normFrom_pathStr hc _ _ (by simpa using hg)
  res := by
    rw [hfull, hc.fsep]
    simp only [if_true]
    rw [findFullPath_pathStr _ _ (by simpa using hg), hF]; rfl
  found := hF
  last := by
    rw [hc.fsep]; unfold pathStr
    rw [lastComp_pathName _ (by simp) (by simpa using hg)]
    simp [List.getLast_cons]
  root := fun _ => by
    rw [hc.fsep]; unfold pathStr
    exact headComp_pathName _ _ (by simpa using hg)

theorem addPath_parent (t : Tree) (k : Nat) (tpar : List Str) (l : Str)
    (hg : GoodNames c (t.name :: tpar ++ [l])) :
    addPath [c] t k (join [c] (splitOn [c] (pathStr c t.name (tpar ++ [l]))).dropLast)
      = match grow tpar k t with
        | .ok x => .ok (x.1, x.2, tpar)
        | .error e => .error e := by
  have hg' : GoodNames c (t.name :: tpar) := fun n hn => hg n (by
    simp only [List.cons_append, List.mem_cons, List.mem_append] at hn ⊢
    rcases hn with h | h
    · exact Or.inl h
    · exact Or.inr (Or.inl h))
  unfold pathStr
  rw [show t.name :: (tpar ++ [l]) = t.name :: tpar ++ [l] by simp, parent_pathName _ _ _ hg]
  unfold addPath
  have hne : pathName [c] (t.name :: tpar) ≠ [] := by simp [pathName]
  rw [if_neg hne, comps_pathName' _ _ hg']
  simp only [ne_eq, not_true_eq_false, if_false]
  cases grow tpar k t <;> rfl

theorem nameOk_pathStr (hc : cfg.Plain c) (r r' : Str) (p p' : List Str) (l : Str)
    (hg : GoodNames c (r :: p ++ [l])) (hg' : GoodNames c (r' :: p' ++ [l])) :
    nameOk cfg (pathStr c r (p ++ [l]), some (pathStr c r' (p' ++ [l]))) = true := by
  unfold nameOk
  cases hp : pathStr c r' (p' ++ [l]) with
  | nil => rfl
  | cons x xs =>
    simp only
    rw [← hp, hc.fsep, hc.tsep]
    unfold pathStr
    rw [lastComp_pathName _ (by simp) (by simpa using hg), lastComp_pathName _ (by simp) (by simpa using hg')]
    have hl : ∀ (a : Str) (q : List Str), (a :: (q ++ [l])).getLast (by simp) = l := by
      intro a q
      simp [List.getLast_cons]
    rw [hl, hl]
    simp

theorem fromRootOk_pathStr (hc : cfg.Plain c) (r : Str) (p : List Str) (x : Option Str)
    (hg : GoodNames c (r :: p)) : fromRootOk cfg r (pathStr c r p, x) = true := by
  unfold fromRootOk pathStr
  rw [hc.fsep, headComp_pathName _ _ hg]
  simp

theorem toRootOk_pathStr (hc : cfg.Plain c) (r : Str) (p : List Str) (x : Str)
    (hg : GoodNames c (r :: p)) : toRootOk cfg r (x, some (pathStr c r p)) = true := by
  unfold toRootOk
  cases hp : pathStr c r p with
  | nil => rfl
  | cons y ys =>
    simp only
    rw [← hp, hc.tsep]
    unfold pathStr
    rw [headComp_pathName _ _ hg]
    simp

/-- one pair: the call is the step -/
theorem copyOrShift_single (st : St) (pr : Str × Option Str) (hv : valid cfg st [pr] = true) :
    copyOrShift cfg st [pr] = step cfg st (norm cfg pr) := by
  simp only [copyOrShift, hv, if_true, List.map_cons, List.map_nil, loop]
  cases step cfg st (norm cfg pr) <;> rfl

end Modify

namespace Modify

variable {cfg : Cfg} {c : Char}

theorem valid_single (st : St) (pr : Str × Option Str)
    (h1 : (cfg.mergeChildren && cfg.mergeLeaves) = false)
    (h2 : (cfg.copy && isDelete pr.2) = false)
    (h3 : nameOk cfg (norm cfg pr) = true)
    (h4 : cfg.withFullPath = true → fromRootOk cfg st.tree.name (norm cfg pr) = true)
    (h5 : toRootOk cfg st.dst.name (norm cfg pr) = true) : valid cfg st [pr] = true := by
  unfold valid
  simp only [List.any_cons, List.any_nil, Bool.or_false, List.map_cons, List.map_nil, List.all_cons,
    List.all_nil, Bool.and_true, h1, h2, h3, h5]
  cases hw : cfg.withFullPath with
  | false => simp
  | true => simp [h4 hw]

/-- the state of a same-tree call -/
abbrev st0 (t : Tree) (k : Nat) : St := ⟨none, t, k⟩

@[simp] theorem st0_tree (t k) : (st0 t k).tree = t := rfl

theorem nameOk_of (hc : cfg.Plain c) {tree : Tree} {fs : Str} {fp : List Str} {F : Tree} {l : Str}
    (hfr : FromOK cfg tree fs fp F l) (r' : Str) (p' : List Str)
    (hg' : GoodNames c (r' :: p' ++ [l])) :
    nameOk cfg (fs, some (pathStr c r' (p' ++ [l]))) = true := by
  unfold nameOk
  cases hp : pathStr c r' (p' ++ [l]) with
  | nil => rfl
  | cons x xs =>
    simp only
    rw [← hp, hfr.last, hc.tsep]
    unfold pathStr
    rw [lastComp_pathName _ (by simp) (by simpa using hg')]
    simp [List.getLast_cons]

/-- validity of a (from, full to-path) pair with matching last names; `src`/`k` arbitrary -/
theorem valid_move (hc : cfg.Plain c) (st : St) (fs : Str) (fp : List Str) (F : Tree)
    (tpar : List Str) (l : Str)
    (hm : (cfg.mergeChildren && cfg.mergeLeaves) = false)
    (hfr : FromOK cfg st.tree fs fp F l) (hgt : GoodNames c (st.dst.name :: tpar ++ [l])) :
    valid cfg st [(fs, some (pathStr c st.dst.name (tpar ++ [l])))] = true := by
  have hgt' : GoodNames c (st.dst.name :: (tpar ++ [l])) := by simpa using hgt
  apply valid_single
  · exact hm
  · cases hp : pathStr c st.dst.name (tpar ++ [l]) with
    | nil => exact absurd hp (pathStr_ne_nil _ _)
    | cons x xs => simp [isDelete]
  · simp only [norm, hfr.norm, normTo_pathStr hc _ _ hgt']
    exact nameOk_of hc hfr _ _ hgt
  · intro hw
    simp only [norm, hfr.norm, fromRootOk, hfr.root hw]
    simp
  · simp only [norm, normTo_pathStr hc _ _ hgt']
    exact toRootOk_pathStr hc _ _ _ hgt'

theorem valid_delete (t : Tree) (k : Nat) (fs : Str) (fp : List Str) (F : Tree) (l : Str)
    (hm : (cfg.mergeChildren && cfg.mergeLeaves) = false) (hcp : cfg.copy = false)
    (hfr : FromOK cfg t fs fp F l) :
    valid cfg (st0 t k) [(fs, none)] = true := by
  apply valid_single
  · exact hm
  · simp [hcp]
  · simp [norm, normTo, nameOk]
  · intro hw
    simp only [norm, hfr.norm, fromRootOk, st0_tree, hfr.root hw]
    simp
  · simp [norm, normTo, toRootOk]

/-- `shift_nodes(tree, [from], [None])` -/
theorem delete_step (hcp : cfg.copy = false) (hmc : cfg.mergeChildren = false)
    (hml : cfg.mergeLeaves = false) (hdc : cfg.deleteChildren = false)
    (t : Tree) (k : Nat) (fs : Str) (fp : List Str) (F : Tree) (l : Str)
    (hfr : FromOK cfg t fs fp F l) :
    copyOrShift cfg (st0 t k) [(fs, none)] = .ok (st0 (removeAt fp t) k) := by
  rw [copyOrShift_single _ _ (valid_delete t k fs fp F l (by simp [hmc]) hcp hfr)]
  simp only [norm, normTo, hfr.norm]
  unfold step
  have hr := resolveFrom_of (st0 t k) hfr
  have hF := hfr.found
  simp only [hr, decideTo, hmc, attach, Option.isNone_none, if_true, hF, Option.getD_some,
    Option.isSome_some, hcp, Bool.not_false, Bool.and_true, hml, hdc, attachNode]
  simp

end Modify

namespace Modify

variable {cfg : Cfg} {c : Char}

/-! ### partial from-paths: `find_path` -/

theorem nodesRelL_filter_none {n : Str} {q : List Str} {l : List Tree} (hl : ∀ y ∈ l, y.name ≠ n) :
    (nodesRelL l).filter (fun pr => pr.1 == n :: q) = [] := by
  rw [List.filter_eq_nil_iff]
  intro pr hpr
  obtain ⟨x, hx, r, _, rfl⟩ := mem_nodesRelL.1 hpr
  have := hl x hx
  simp [this]

/-- exactly one node has the path `fp`, and it is the one `getRel` finds -/
theorem nodesRel_filter_path {fp : List Str} {t F : Tree} (hu : SibUnique t) (hF : getRel fp t = some F) :
    (nodesRel t).filter (fun pr => pr.1 == fp) = [(fp, F)] := by
  induction fp generalizing t with
  | nil =>
    simp at hF; subst hF
    cases t with
    | node i n a cs =>
      rw [nodesRel_node, List.filter_cons]
      have : (nodesRelL cs).filter (fun pr => pr.1 == ([] : List Str)) = [] := by
        rw [List.filter_eq_nil_iff]
        intro pr hpr
        obtain ⟨x, _, r, _, rfl⟩ := mem_nodesRelL.1 hpr
        simp
      rw [this]
      simp
  | cons n ns ih =>
    cases t with
    | node i nm a cs =>
      rw [getRel_cons] at hF
      cases hc' : findChild n cs with
      | none => simp [hc'] at hF
      | some x =>
        simp [hc'] at hF
        obtain ⟨l, r, rfl, hl, hx⟩ := findChild_split hc'
        obtain ⟨hnd, hch⟩ := sibUnique_node.1 hu
        have hr := names_ne_of_nodup hx hnd
        rw [nodesRel_node, List.filter_cons, nodesRelL_append, nodesRelL_cons, List.filter_append,
          List.filter_append, nodesRelL_filter_none hl, nodesRelL_filter_none hr, List.filter_map]
        have : ((fun pr : List Str × Tree => pr.1 == n :: ns) ∘ fun pr : List Str × Tree => (x.name :: pr.1, pr.2))
            = fun pr => pr.1 == ns := by
          funext pr
          simp [hx]
        rw [this, ih (hch x (by simp)) hF]
        simp [hx]

theorem mem_paths_of_mem_nodesRel {t : Tree} {pr : List Str × Tree} (h : pr ∈ nodesRel t) :
    pr.1 ∈ paths t := by
  unfold paths flat
  rw [List.map_map]
  exact List.mem_map.2 ⟨pr, h, rfl⟩

/-- a partial path (or node name) that matches exactly one node, with `with_full_path=False` -/
theorem FromOK.partial (hc : cfg.Plain c) (hfull : cfg.withFullPath = false) (t : Tree) (fs : Str)
    (fp : List Str) (F : Tree) (l : Str) (hu : SibUnique t) (hF : getRel fp t = some F)
    (hnorm : stripR [c] fs = fs) (hlast : lastComp [c] fs = l)
    (huniq : ∀ q ∈ paths t, fs.isSuffixOf (pathStr c t.name q) = true ↔ q = fp) :
    FromOK cfg t fs fp F l where
  norm := by
    unfold normFrom
    rw [hc.sep, hc.fsep, replace_self, hnorm]
  res := by
    rw [hfull, hc.fsep]
    simp only [Bool.false_eq_true, if_false]
    unfold findPath
    simp only [hnorm]
    have : (nodesRel t).filter (fun pr => fs.isSuffixOf (pathName [c] (t.name :: pr.1)))
        = (nodesRel t).filter (fun pr => pr.1 == fp) := by
      apply List.filter_congr
      intro pr hpr
      have := huniq pr.1 (mem_paths_of_mem_nodesRel hpr)
      unfold pathStr at this
      by_cases h : pr.1 = fp
      · rw [this.2 h]; simp [h]
      · have h1 : fs.isSuffixOf (pathName [c] (t.name :: pr.1)) = false := by
          cases h' : fs.isSuffixOf (pathName [c] (t.name :: pr.1)) with
          | false => rfl
          | true => exact absurd (this.1 h') h
        rw [h1]; simp [h]
    rw [this, nodesRel_filter_path hu hF]
  found := hF
  last := by rw [hc.fsep]; exact hlast
  root := fun h => by rw [hfull] at h; cases h

end Modify
