import BigtreeModel.Modify
import BigtreeProofs.Lemmas.ModifyFold
import BigtreeProofs.Lemmas.ModifyTree
import BigtreeProofs.Lemmas.ModifyStr
/-!
# C08 helper lemmas: one pair with printed full paths, separator `c` everywhere
-/
namespace Modify

/-- all three separators are the single character `c` and from-paths are full paths -/
structure Cfg.Plain (cfg : Cfg) (c : Char) : Prop where
  sep : cfg.sep = [c]
  fsep : cfg.fsep = [c]
  tsep : cfg.tsep = [c]
  full : cfg.withFullPath = true

variable {cfg : Cfg} {c : Char}

theorem pathStr_ne_nil (r : Str) (p : List Str) : pathStr c r p ≠ [] := by
  simp [pathStr, pathName]

theorem normFrom_pathStr (hc : cfg.Plain c) (r : Str) (p : List Str) (hg : GoodNames c (r :: p)) :
    normFrom cfg (pathStr c r p) = pathStr c r p := by
  unfold normFrom
  rw [hc.sep, hc.fsep, replace_self]
  exact stripR_pathName _ (by simp) hg

theorem normTo_pathStr (hc : cfg.Plain c) (r : Str) (p : List Str) (hg : GoodNames c (r :: p)) :
    normTo cfg (some (pathStr c r p)) = some (pathStr c r p) := by
  have hne : pathStr c r p ≠ [] := pathStr_ne_nil r p
  cases hp : pathStr c r p with
  | nil => exact absurd hp hne
  | cons x xs =>
    simp only [normTo]
    rw [hc.sep, hc.tsep, replace_self, ← hp]
    exact congrArg some (stripR_pathName _ (by simp) hg)

theorem findFullPath_pathStr (t : Tree) (p : List Str) (hg : GoodNames c (t.name :: p)) :
    findFullPath [c] t (pathStr c t.name p) = .ok ((getRel p t).map (fun x => (p, x))) := by
  unfold findFullPath pathStr
  rw [comps_pathName _ _ hg]
  simp

theorem resolveFrom_pathStr (hc : cfg.Plain c) (st : St) (p : List Str)
    (hg : GoodNames c (st.tree.name :: p)) :
    resolveFrom cfg st (pathStr c st.tree.name p) = .ok ((getRel p st.tree).map (fun x => (p, x))) := by
  unfold resolveFrom
  rw [hc.full, hc.fsep]
  simp only [if_true]
  exact findFullPath_pathStr _ _ hg

theorem addPath_parent (t : Tree) (k : Nat) (tpar : List Str) (l : Str)
    (hg : GoodNames c (t.name :: tpar ++ [l])) :
    addPath [c] t k (join [c] (splitOn [c] (pathStr c t.name (tpar ++ [l]))).dropLast)
      = match grow tpar k t with
        | .ok x => .ok (x.1, x.2, tpar)
        | .error e => .error e := by
  have hg' : GoodNames c (t.name :: tpar) := fun n hn => hg n (by
    simp only [List.cons_append, List.mem_cons, List.mem_append] at hn ⊢
    rcases hn with h | h
    · exact Or.inl h
    · exact Or.inr (Or.inl h))
  unfold pathStr
  rw [show t.name :: (tpar ++ [l]) = t.name :: tpar ++ [l] by simp, parent_pathName _ _ _ hg]
  unfold addPath
  have hne : pathName [c] (t.name :: tpar) ≠ [] := by simp [pathName]
  rw [if_neg hne, comps_pathName' _ _ hg']
  simp only [ne_eq, not_true_eq_false, if_false]
  cases grow tpar k t <;> rfl

theorem nameOk_pathStr (hc : cfg.Plain c) (r r' : Str) (p p' : List Str) (l : Str)
    (hg : GoodNames c (r :: p ++ [l])) (hg' : GoodNames c (r' :: p' ++ [l])) :
    nameOk cfg (pathStr c r (p ++ [l]), some (pathStr c r' (p' ++ [l]))) = true := by
  unfold nameOk
  cases hp : pathStr c r' (p' ++ [l]) with
  | nil => rfl
  | cons x xs =>
    simp only
    rw [← hp, hc.fsep, hc.tsep]
    unfold pathStr
    rw [lastComp_pathName _ (by simp) (by simpa using hg), lastComp_pathName _ (by simp) (by simpa using hg')]
    have hl : ∀ (a : Str) (q : List Str), (a :: (q ++ [l])).getLast (by simp) = l := by
      intro a q
      simp [List.getLast_cons]
    rw [hl, hl]
    simp

theorem fromRootOk_pathStr (hc : cfg.Plain c) (r : Str) (p : List Str) (x : Option Str)
    (hg : GoodNames c (r :: p)) : fromRootOk cfg r (pathStr c r p, x) = true := by
  unfold fromRootOk pathStr
  rw [hc.fsep, headComp_pathName _ _ hg]
  simp

theorem toRootOk_pathStr (hc : cfg.Plain c) (r : Str) (p : List Str) (x : Str)
    (hg : GoodNames c (r :: p)) : toRootOk cfg r (x, some (pathStr c r p)) = true := by
  unfold toRootOk
  cases hp : pathStr c r p with
  | nil => rfl
  | cons y ys =>
    simp only
    rw [← hp, hc.tsep]
    unfold pathStr
    rw [headComp_pathName _ _ hg]
    simp

/-- one pair: the call is the step -/
theorem copyOrShift_single (st : St) (pr : Str × Option Str) (hv : valid cfg st [pr] = true) :
    copyOrShift cfg st [pr] = step cfg st (norm cfg pr) := by
  simp only [copyOrShift, hv, if_true, List.map_cons, List.map_nil, loop]
  cases step cfg st (norm cfg pr) <;> rfl

end Modify

namespace Modify

variable {cfg : Cfg} {c : Char}

theorem valid_single (st : St) (pr : Str × Option Str)
    (h1 : (cfg.mergeChildren && cfg.mergeLeaves) = false)
    (h2 : (cfg.copy && isDelete pr.2) = false)
    (h3 : nameOk cfg (norm cfg pr) = true)
    (h4 : fromRootOk cfg st.tree.name (norm cfg pr) = true)
    (h5 : toRootOk cfg st.dst.name (norm cfg pr) = true) : valid cfg st [pr] = true := by
  unfold valid
  simp only [List.any_cons, List.any_nil, Bool.or_false, List.map_cons, List.map_nil, List.all_cons,
    List.all_nil, Bool.and_true, h1, h2, h3, h4, h5]
  simp

/-- the state of a same-tree call -/
abbrev st0 (t : Tree) (k : Nat) : St := ⟨none, t, k⟩

@[simp] theorem st0_tree (t k) : (st0 t k).tree = t := rfl

/-- validity of a (full from-path, full to-path) pair with matching last names -/
theorem valid_move (hc : cfg.Plain c) (t : Tree) (k : Nat) (fpar tpar : List Str) (l : Str)
    (hm : (cfg.mergeChildren && cfg.mergeLeaves) = false)
    (hgf : GoodNames c (t.name :: fpar ++ [l])) (hgt : GoodNames c (t.name :: tpar ++ [l])) :
    valid cfg (st0 t k) [(pathStr c t.name (fpar ++ [l]), some (pathStr c t.name (tpar ++ [l])))] = true := by
  have hgf' : GoodNames c (t.name :: (fpar ++ [l])) := by simpa using hgf
  have hgt' : GoodNames c (t.name :: (tpar ++ [l])) := by simpa using hgt
  apply valid_single
  · exact hm
  · cases hp : pathStr c t.name (tpar ++ [l]) with
    | nil => exact absurd hp (pathStr_ne_nil _ _)
    | cons x xs => simp [isDelete]
  · simp only [norm, normFrom_pathStr hc _ _ hgf', normTo_pathStr hc _ _ hgt']
    exact nameOk_pathStr hc _ _ _ _ _ hgf hgt
  · simp only [norm, normFrom_pathStr hc _ _ hgf', st0_tree]
    exact fromRootOk_pathStr hc _ _ _ hgf'
  · simp only [norm, normTo_pathStr hc _ _ hgt']
    exact toRootOk_pathStr hc _ _ _ hgt'

theorem valid_delete (hc : cfg.Plain c) (t : Tree) (k : Nat) (fp : List Str)
    (hm : (cfg.mergeChildren && cfg.mergeLeaves) = false) (hcp : cfg.copy = false)
    (hgf : GoodNames c (t.name :: fp)) :
    valid cfg (st0 t k) [(pathStr c t.name fp, none)] = true := by
  apply valid_single
  · exact hm
  · simp [hcp]
  · simp [norm, normTo, nameOk]
  · simp only [norm, normFrom_pathStr hc _ _ hgf, st0_tree]
    exact fromRootOk_pathStr hc _ _ _ hgf
  · simp [norm, normTo, toRootOk]

/-- `shift_nodes(tree, [from], [None])` -/
theorem delete_step (hc : cfg.Plain c) (hcp : cfg.copy = false) (hmc : cfg.mergeChildren = false)
    (hml : cfg.mergeLeaves = false) (hdc : cfg.deleteChildren = false)
    (t : Tree) (k : Nat) (fp : List Str) (F : Tree)
    (hg : GoodNames c (t.name :: fp)) (hF : getRel fp t = some F) :
    copyOrShift cfg (st0 t k) [(pathStr c t.name fp, none)] = .ok (st0 (removeAt fp t) k) := by
  rw [copyOrShift_single _ _ (valid_delete hc t k fp (by simp [hmc]) hcp hg)]
  simp only [norm, normTo, normFrom_pathStr hc _ _ hg]
  unfold step
  have hr := resolveFrom_pathStr hc (st0 t k) fp (by simpa using hg)
  simp only [st0_tree, hF, Option.map_some] at hr
  simp only [hr, decideTo, hmc, attach, Option.isNone_none, if_true, hF, Option.getD_some,
    Option.isSome_some, hcp, Bool.not_false, Bool.and_true, hml, hdc, attachNode]
  simp

end Modify
