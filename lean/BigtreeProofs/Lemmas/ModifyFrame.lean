import BigtreeProofs.Lemmas.ModifyTree
/-!
# C08 helper lemmas: the frame of one `copy_or_shift_logic` pair, for EVERY flag combination

Each primitive edit of the model either only *inserts* entries (`appendKid` below some node, `grow`)
or only touches entries *below one address* (`removeAt p`, `modifyAt p f`).  Consequently the
pre-order entry list (path, object identity, attributes) of the old tree, restricted to the entries that
are neither below the from-node nor below the existing destination, is a **sublist** of the entry list of
the new tree: those nodes keep their identity, path, attributes and relative order — whatever the flags.

No hypothesis on the tree (sibling names may even repeat) and none on the strings.
-/
namespace Modify

/-! ### child lists -/

theorem flatL_mapChild_ins (n : Str) (g : Tree → Tree) (hname : ∀ x, (g x).name = x.name)
    (hg : ∀ x, (flat x).Sublist (flat (g x))) :
    ∀ cs, (flatL cs).Sublist (flatL (mapChild n g cs)) := by
  intro cs
  induction cs with
  | nil => simp [mapChild]
  | cons c cs ih =>
    simp only [mapChild]
    split
    · rw [flatL_cons, flatL_cons, hname]
      exact ((hg c).map _).append (List.Sublist.refl _)
    · rw [flatL_cons, flatL_cons]
      exact (List.Sublist.refl _).append ih

theorem flatL_mapChild_sub (n : Str) (q : List Str) (g : Tree → Tree) (hname : ∀ x, (g x).name = x.name)
    (hg : ∀ x, ((flat x).filter (fun e => !under q e)).Sublist (flat (g x))) :
    ∀ cs, ((flatL cs).filter (fun e => !under (n :: q) e)).Sublist (flatL (mapChild n g cs)) := by
  intro cs
  induction cs with
  | nil => simp [mapChild]
  | cons c cs ih =>
    simp only [mapChild]
    split
    next hc =>
      have hcn : c.name = n := by simpa using hc
      rw [flatL_cons, flatL_cons, hname, List.filter_append, hcn, filter_not_under_map_pre]
      exact ((hg c).map _).append List.filter_sublist
    next hc =>
      rw [flatL_cons, flatL_cons, List.filter_append]
      exact List.filter_sublist.append ih

theorem flatL_eraseChild_sub (n : Str) :
    ∀ cs, ((flatL cs).filter (fun e => !under [n] e)).Sublist (flatL (eraseChild n cs)) := by
  intro cs
  induction cs with
  | nil => simp [eraseChild]
  | cons c cs ih =>
    simp only [eraseChild]
    split
    next hc =>
      have hcn : c.name = n := by simpa using hc
      rw [flatL_cons, List.filter_append, hcn, filter_not_under_all, List.nil_append]
      exact List.filter_sublist
    next hc =>
      rw [flatL_cons, flatL_cons, List.filter_append]
      exact List.filter_sublist.append ih

/-! ### whole trees -/

/-- an insertion somewhere below `p` keeps every old entry, in order -/
theorem flat_sub_modifyAt_ins (g : Tree → Tree) (hname : ∀ x, (g x).name = x.name)
    (hg : ∀ x, (flat x).Sublist (flat (g x))) :
    ∀ (p : List Str) (t : Tree), (flat t).Sublist (flat (modifyAt p g t)) := by
  intro p
  induction p with
  | nil => intro t; exact hg t
  | cons n ns ih =>
    intro t
    cases t with
    | node i nm a cs =>
      simp only [modifyAt, flat_node]
      exact (flatL_mapChild_ins n _ (modifyAt_name ns g hname) ih cs).cons₂ _

/-- any edit of the node at `p` keeps every entry that is not below `p`, in order -/
theorem flat_filter_sub_modifyAt (g : Tree → Tree) (hname : ∀ x, (g x).name = x.name) :
    ∀ (p : List Str) (t : Tree),
      ((flat t).filter (fun e => !under p e)).Sublist (flat (modifyAt p g t)) := by
  intro p
  induction p with
  | nil =>
    intro t
    have : (flat t).filter (fun e => !under [] e) = [] := by
      rw [List.filter_eq_nil_iff]; intro e _; simp [under_nil]
    rw [this]; exact List.nil_sublist _
  | cons n ns ih =>
    intro t
    cases t with
    | node i nm a cs =>
      simp only [modifyAt, flat_node, List.filter_cons, under_cons_root, Bool.not_false, if_true]
      exact (flatL_mapChild_sub n ns _ (modifyAt_name ns g hname) ih cs).cons₂ _

/-- detaching the node at `p` keeps every entry that is not below `p`, in order -/
theorem flat_filter_sub_removeAt :
    ∀ (p : List Str) (t : Tree),
      ((flat t).filter (fun e => !under p e)).Sublist (flat (removeAt p t))
  | [], t => by simp only [removeAt]; exact List.filter_sublist
  | [n], .node i nm a cs => by
    simp only [removeAt, flat_node, List.filter_cons, under_cons_root, Bool.not_false, if_true]
    exact (flatL_eraseChild_sub n cs).cons₂ _
  | n :: m :: ns, .node i nm a cs => by
    simp only [removeAt, flat_node, List.filter_cons, under_cons_root, Bool.not_false, if_true]
    exact (flatL_mapChild_sub n (m :: ns) _ (fun x => removeAt_name _ x)
      (fun x => flat_filter_sub_removeAt (m :: ns) x) cs).cons₂ _

theorem flat_sub_appendKid (c t : Tree) : (flat t).Sublist (flat (appendKid c t)) := by
  cases t with
  | node i nm a cs =>
    simp only [appendKid, flat_node, flatL_append]
    exact ((List.sublist_append_left _ _)).cons₂ _

/-- attaching a node somewhere keeps every old entry, in order -/
theorem flat_sub_appendAt (pp : List Str) (c t : Tree) :
    (flat t).Sublist (flat (modifyAt pp (appendKid c) t)) :=
  flat_sub_modifyAt_ins _ (fun x => appendKid_name c x) (flat_sub_appendKid c) pp t

/-- creating missing path components keeps every old entry, in order -/
theorem flat_sublist_grow : ∀ (ns : List Str) (k : Nat) (t : Tree) (r : Tree × Nat),
    grow ns k t = .ok r → (flat t).Sublist (flat r.1)
  | [], k, t, r, h => by
    simp only [grow, Except.ok.injEq] at h; subst h; exact List.Sublist.refl _
  | n :: ns, k, .node i nm a cs, r, h => by
    simp only [grow] at h
    cases hc : findChild n cs with
    | some c =>
      simp only [hc] at h
      cases hg : grow ns k c with
      | error e => simp [hg] at h
      | ok r' =>
        simp only [hg, Except.ok.injEq] at h; subst h
        simp only [flat_node]
        obtain ⟨l, rr, rfl, hl, hx⟩ := findChild_split hc
        rw [mapChild_split _ hl hx, flatL_append, flatL_append, flatL_cons, flatL_cons, grow_name hg]
        exact ((List.Sublist.refl _).append
          (((flat_sublist_grow ns k c r' hg).map _).append (List.Sublist.refl _))).cons₂ _
    | none =>
      simp only [hc] at h
      split at h
      · cases h
      · cases hg : grow ns (k + 1) (.node k n [] []) with
        | error e => simp [hg] at h
        | ok r' =>
          simp only [hg, Except.ok.injEq] at h; subst h
          simp only [flat_node, flatL_append]
          exact (List.sublist_append_left _ _).cons₂ _

/-! ### the steps of one pair -/

theorem attachOne_sub {pp : List Str} {c t t' : Tree} (h : attachOne pp c t = .ok t') :
    (flat t).Sublist (flat t') := by
  unfold attachOne at h
  split at h
  · cases h
  · split at h
    · cases h
    · simp only [Except.ok.injEq] at h; subst h; exact flat_sub_appendAt pp c t

theorem attachAll_sub {pp : List Str} : ∀ {cs : List Tree} {t t' : Tree}, attachAll pp cs t = .ok t' →
    (flat t).Sublist (flat t')
  | [], t, t', h => by simp only [attachAll, Except.ok.injEq] at h; subst h; exact List.Sublist.refl _
  | c :: cs, t, t', h => by
    simp only [attachAll] at h
    cases h1 : attachOne pp c t with
    | error e => simp [h1] at h
    | ok t1 =>
      simp only [h1] at h
      exact (attachOne_sub h1).trans (attachAll_sub h)

/-- the handle of an existing destination (`none`: deletion, or the destination does not exist yet) -/
def destHandle (cfg : Cfg) (st : St) : Option Str → Option (List Str)
  | none => none
  | some tp =>
    if tp = [] then none else
    match findFullPath cfg.tsep st.dst tp with
    | .ok (some (dp, _)) => some dp
    | _ => none

/-- the entries one pair may touch: below the from-node (when it lives in the edited tree) and below an
existing destination -/
def touched (fpo dpo : Option (List Str)) (e : Entry) : Bool :=
  (match fpo with | some fp => under fp e | none => false) ||
  (match dpo with | some dp => under dp e | none => false)

theorem filter_true_eq {α} (l : List α) : l.filter (fun _ => true) = l := by simp

theorem filter_dead {α} (p : α → Bool) (l : List α) : l.filter (fun e => !(false && p e)) = l := by simp

theorem filter_mono {α} (p q : α → Bool) (h : ∀ e, p e = true → q e = true) :
    ∀ l : List α, (l.filter p).Sublist (l.filter q)
  | [] => List.Sublist.refl _
  | a :: l => by
    simp only [List.filter_cons]
    cases hp : p a with
    | true => simp only [h a hp, if_true]; exact (filter_mono p q h l).cons_cons _
    | false =>
      simp only [Bool.false_eq_true, if_false]
      cases hq : q a with
      | true => simp only [if_true]; exact (filter_mono p q h l).cons _
      | false => simp only [Bool.false_eq_true, if_false]; exact filter_mono p q h l

theorem decideExisting_sub {cfg : Cfg} {st : St} {fp dp : List Str} {d : Dest}
    (h : decideExisting cfg st fp dp = .ok d) :
    ((flat st.dst).filter (fun e => !under dp e)).Sublist (flat d.dst) := by
  unfold decideExisting at h
  have hrem := flat_filter_sub_removeAt dp st.dst
  have hkeep : ((flat st.dst).filter (fun e => !under dp e)).Sublist (flat st.dst) := List.filter_sublist
  have hmod := flat_filter_sub_modifyAt (setKids []) (fun x => setKids_name [] x) dp st.dst
  split at h
  · split at h
    · simp only [Except.ok.injEq] at h; subst h; exact hrem
    · split at h
      · simp only [Except.ok.injEq] at h; subst h; exact hkeep
      · cases h
  · split at h
    · split at h
      · simp only [Except.ok.injEq] at h; subst h; exact hkeep
      · simp only [Except.ok.injEq] at h; subst h; exact hrem
    · split at h
      · split at h
        · simp only [Except.ok.injEq] at h; subst h; exact hkeep
        · simp only [Except.ok.injEq] at h; subst h; exact hmod
      · split at h
        · cases h
        · simp only [Except.ok.injEq] at h; subst h; exact hrem

theorem decideMissing_sub {cfg : Cfg} {st : St} {tp : Str} {d : Dest}
    (h : decideMissing cfg st tp = .ok d) : (flat st.dst).Sublist (flat d.dst) := by
  unfold decideMissing at h
  split at h
  · cases h
  · next x hx =>
    simp only [Except.ok.injEq] at h; subst h
    unfold addPath at hx
    split at hx
    · cases hx
    · split at hx
      · cases hx
      · split at hx
        · cases hx
        · split at hx
          · next y hy =>
            simp only [Except.ok.injEq] at hx; subst hx
            exact flat_sublist_grow _ _ _ _ hy
          · cases hx

theorem decideTo_sub {cfg : Cfg} {st : St} {fp : List Str} {tp : Option Str} {d : Dest}
    (h : decideTo cfg st fp tp = .ok d) :
    ((flat st.dst).filter (fun e => !touched none (destHandle cfg st tp) e)).Sublist (flat d.dst) := by
  unfold decideTo at h
  cases tp with
  | none =>
    simp only [Except.ok.injEq] at h; subst h
    exact List.filter_sublist
  | some tp =>
    simp only at h
    by_cases htp : tp = []
    · simp only [htp, if_true, Except.ok.injEq] at h; subst h
      exact List.filter_sublist
    · simp only [htp, if_false] at h
      cases hf : findFullPath cfg.tsep st.dst tp with
      | error e => simp [hf] at h
      | ok o =>
        cases o with
        | none =>
          simp only [hf] at h
          exact List.filter_sublist.trans (decideMissing_sub h)
        | some x =>
          obtain ⟨dp, X⟩ := x
          simp only [hf] at h
          have := decideExisting_sub h
          simpa [destHandle, htp, hf, touched] using this

theorem attachChildren_sub {cfg : Cfg} {live : Bool} {fp : List Str} {Fc : Tree} {d : Dest} {t : Tree}
    (h : attachChildren cfg live fp Fc d = .ok t) :
    ((flat d.dst).filter (fun e => !(live && under fp e))).Sublist (flat t) := by
  unfold attachChildren at h
  split at h
  · cases h
  · split at h
    · cases h
    · split at h
      · cases h
      · next t1 h1 =>
        simp only [Except.ok.injEq] at h; subst h
        have hs := attachAll_sub h1
        cases live with
        | false => rw [filter_dead]; exact hs
        | true =>
          simp only [Bool.true_and, if_true]
          exact (hs.filter _).trans (flat_filter_sub_removeAt fp t1)

theorem attachLeaves_sub {live : Bool} {fp : List Str} {Fc : Tree} {d : Dest} {t : Tree}
    (h : attachLeaves live fp Fc d = .ok t) :
    ((flat d.dst).filter (fun e => !(live && under fp e))).Sublist (flat t) := by
  unfold attachLeaves at h
  split at h
  · cases h
  · split at h
    · cases h
    · split at h
      · have hs := attachOne_sub h
        cases live with
        | false => rw [filter_dead]; exact hs
        | true =>
          simp only [Bool.true_and, if_true] at hs ⊢
          exact (flat_filter_sub_removeAt fp d.dst).trans hs
      · split at h
        · cases h
        · next t1 h1 =>
          simp only [Except.ok.injEq] at h; subst h
          have hs := attachAll_sub h1
          cases live with
          | false => rw [filter_dead]; exact hs
          | true =>
            simp only [Bool.true_and, if_true]
            exact (hs.filter _).trans
              (flat_filter_sub_modifyAt _ (fun x => removeAll_name _ x) fp t1)

theorem attachNode_sub {live : Bool} {fp : List Str} {Fm t0 : Tree} {parent : Option (List Str)} {t : Tree}
    (h : attachNode live fp Fm t0 parent = .ok t) :
    ((flat t0).filter (fun e => !(live && under fp e))).Sublist (flat t) := by
  unfold attachNode at h
  have hbase : ((flat t0).filter (fun e => !(live && under fp e))).Sublist
      (flat (if live then removeAt fp t0 else t0)) := by
    cases live with
    | false => simp
    | true => simpa using flat_filter_sub_removeAt fp t0
  split at h
  · simp only [Except.ok.injEq] at h; subst h; exact hbase
  · split at h
    · cases h
    · exact hbase.trans (attachOne_sub h)

theorem attach_sub {cfg : Cfg} {sn : Bool} {d : Dest} {fp : List Str} {F0 : Tree} {r : Tree × Nat}
    (h : attach cfg sn d fp F0 = .ok r) :
    ((flat d.dst).filter (fun e => !((sn && !cfg.copy) && under fp e))).Sublist (flat r.1) := by
  -- `live` implies `sn` and `¬copy`
  have hlive : ∀ e : Entry,
      (!((sn && !cfg.copy) && under fp e)) = true →
      (!(((if sn then getRel fp d.dst else none).isSome && !cfg.copy) && under fp e)) = true := by
    intro e he
    clear h
    cases sn <;> cases hc : cfg.copy <;> simp_all
  unfold attach at h
  simp only at h
  have mono : ∀ {t : Tree},
      ((flat d.dst).filter (fun e =>
        !(((if sn then getRel fp d.dst else none).isSome && !cfg.copy) && under fp e))).Sublist (flat t) →
      ((flat d.dst).filter (fun e => !((sn && !cfg.copy) && under fp e))).Sublist (flat t) := by
    intro t hs
    exact (filter_mono _ _ hlive _).trans hs
  split at h
  · cases h
  · next t hr =>
    simp only [Except.ok.injEq] at h; subst h
    simp only
    split at hr
    · exact mono (attachChildren_sub hr)
    · split at hr
      · exact mono (attachLeaves_sub hr)
      · have hs := attachNode_sub hr
        refine mono (List.Sublist.trans ?_ hs)
        -- `del from_node.children` touches only entries below `fp`
        generalize ((if sn = true then getRel fp d.dst else none).isSome && !cfg.copy) = live
        cases live with
        | false => simp
        | true =>
          cases cfg.deleteChildren with
          | false => simp
          | true =>
            simp only [Bool.true_and, Bool.and_self, if_true]
            have := flat_filter_sub_modifyAt (setKids []) (fun x => setKids_name [] x) fp d.dst
            have h2 := this.filter (fun e => !under fp e)
            simpa [List.filter_filter] using h2

/-- **Frame of one pair, every flag combination.**  The entries of the old destination tree that are
neither below the from-node (same-tree call) nor below the existing destination form a sublist of the
entries of the new tree. -/
theorem step_sub {cfg : Cfg} {st st' : St} {pr : Str × Option Str} {fp : List Str} {F : Tree}
    (hres : resolveFrom cfg st pr.1 = .ok (some (fp, F))) (h : step cfg st pr = .ok st') :
    ((flat st.dst).filter (fun e =>
      !touched (if st.src.isNone && !cfg.copy then some fp else none) (destHandle cfg st pr.2) e)).Sublist
      (flat st'.dst) := by
  unfold step at h
  simp only [hres] at h
  cases hd : decideTo cfg st fp pr.2 with
  | error e => simp [hd] at h
  | ok d =>
    simp only [hd] at h
    cases ha : attach cfg st.src.isNone d fp F with
    | error e => simp [ha] at h
    | ok r =>
      simp only [ha, Except.ok.injEq] at h; subst h
      simp only
      have h1 := decideTo_sub hd
      have h2 := attach_sub ha
      have h1' := h1.filter (fun e => !((st.src.isNone && !cfg.copy) && under fp e))
      refine List.Sublist.trans ?_ (h1'.trans h2)
      rw [List.filter_filter]
      have e : ∀ e ∈ flat st.dst,
          (!touched (if st.src.isNone && !cfg.copy then some fp else none) (destHandle cfg st pr.2) e) =
          (!((st.src.isNone && !cfg.copy) && under fp e) && !touched none (destHandle cfg st pr.2) e) := by
        intro e _
        cases hs : st.src.isNone <;> cases hc : cfg.copy <;> simp [touched]
      rw [List.filter_congr e]
      exact List.Sublist.refl _

end Modify
