import BigtreeProofs.Lemmas.StorePathA
/-!
# Paths on the pointer store, part B: sibling-name uniqueness is preserved by every `Node` operation
-/

namespace Store

theorem sibUnique_of_sub {s s' : Store} (hn : s'.name = s.name)
    (hsub : ∀ p a, a ∈ s'.children p → a ∈ s.children p) (hu : SibUnique s) : SibUnique s' := by
  intro p a b ha hb h
  rw [hn] at h
  exact hu p a b (hsub p a ha) (hsub p b hb) h

theorem dupParent_false {s : Store} {v p : Nat} (h : dupParent s v (some p) = false) :
    ∀ c ∈ s.children p, s.name c = s.name v → c = v := by
  intro c hc hn
  simp only [dupParent, List.any_eq_false, Bool.and_eq_true, beq_iff_eq, Bool.not_eq_true',
    beq_eq_false_iff_ne, not_and, Decidable.not_not] at h
  exact h c hc hn

theorem dupNames_false {s : Store} : ∀ {cs : List Nat}, dupNames s cs = false →
    ∀ a ∈ cs, ∀ b ∈ cs, s.name a = s.name b → a = b := by
  intro cs
  induction cs with
  | nil => intro _ a ha; cases ha
  | cons c cs ih =>
    intro h a ha b hb hn
    simp only [dupNames, Bool.or_eq_false_iff, List.any_eq_false, beq_iff_eq] at h
    rcases List.mem_cons.1 ha with rfl | ha' <;> rcases List.mem_cons.1 hb with rfl | hb'
    · rfl
    · exact absurd hn.symm (h.1 b hb')
    · exact absurd hn (h.1 a ha')
    · exact ih h.2 a ha' b hb' hn

theorem sibUnique_reparent {s : Store} (hw : WF s) (hu : SibUnique s) (v : Nat) (np : Option Nat)
    (hd : dupParent s v np = false) : SibUnique (reparent s v np) := by
  intro x a b ha hb hn
  rw [reparent_children] at ha hb
  change s.name a = s.name b at hn
  have hsub : ∀ y, y ∈ (if s.parent v = some x then (s.children x).erase v else s.children x) →
      y ∈ s.children x ∧ y ≠ v := by
    intro y hy
    refine ⟨?_, fun e => not_mem_ch1 hw v x (e ▸ hy)⟩
    split at hy
    · exact List.mem_of_mem_erase hy
    · exact hy
  by_cases hx : np = some x
  · subst hx
    simp only [if_true, List.mem_append, List.mem_singleton] at ha hb
    have hd' := dupParent_false hd
    rcases ha with ha | rfl <;> rcases hb with hb | rfl
    · exact hu x a b (hsub a ha).1 (hsub b hb).1 hn
    · exact absurd (hd' a (hsub a ha).1 hn) (hsub a ha).2
    · exact absurd (hd' b (hsub b hb).1 hn.symm) (hsub b hb).2
    · rfl
  · rw [if_neg hx] at ha hb
    exact hu x a b (hsub a ha).1 (hsub b hb).1 hn

theorem sibUnique_adopted {s : Store} (hu : SibUnique s) (v : Nat) (cs : List Nat)
    (hd : dupNames s cs = false) : SibUnique (adopted s v cs) := by
  intro x a b ha hb hn
  change s.name a = s.name b at hn
  simp only [adopted] at ha hb
  by_cases hx : x = v
  · simp only [hx, if_true] at ha hb
    exact dupNames_false hd a ha b hb hn
  · simp only [if_neg hx] at ha hb
    exact hu x a b (List.mem_filter.1 ha).1 (List.mem_filter.1 hb).1 hn

theorem setParent_name (c : Cfg) (s : Store) (v : Nat) (np : Option Nat) (f : Fault) (hw : WF s) :
    (setParent c s v np f).1.name = s.name := by
  cases ho : (setParent c s v np f).2 with
  | rej => rw [setParent_rej_id hw c v np f ho]
  | ok => rw [(setParent_ok_eq c v np f ho).1]; rfl

theorem sibUnique_setParent {s : Store} (hw : WF s) (hu : SibUnique s) (c : Cfg) (hnode : c.node = true)
    (v : Nat) (np : Option Nat) (f : Fault) : SibUnique (setParent c s v np f).1 := by
  cases ho : (setParent c s v np f).2 with
  | rej => rw [setParent_rej_id hw c v np f ho]; exact hu
  | ok =>
    obtain ⟨he, _, _, hd⟩ := setParent_ok_eq c v np f ho
    rw [he]; exact sibUnique_reparent hw hu v np (hd hnode)

theorem sibUnique_setChildren {s : Store} (hw : WF s) (hu : SibUnique s) (c : Cfg) (hnode : c.node = true)
    (ha : c.assertions = true) (v : Nat) (cs : List Nat) (f : Fault) : SibUnique (setChildren c s v cs f).1 := by
  have hc' : c.assertions = false → checkChildrenLoop s v cs [] = true := by simp [ha]
  cases ho : (setChildren c s v cs f).2 with
  | rej => rw [setChildren_rej_id hw c v cs f hc' ho]; exact hu
  | ok =>
    obtain ⟨he, _, _, hd⟩ := setChildren_ok_eq hw c v cs f hc' ho
    rw [he]; exact sibUnique_adopted hu v cs (hd hnode)

theorem sibUnique_assignParentOf {s : Store} (hw : WF s) (hu : SibUnique s) (c : Cfg) (hnode : c.node = true)
    (ch p : Nat) (f : Fault) : SibUnique (assignParentOf c s ch p f).1 := by
  unfold assignParentOf
  split
  · exact sibUnique_setParent hw hu c hnode ch (some p) f
  · exact hu

theorem sibUnique_extend {c : Cfg} (hnode : c.node = true) (ha : c.assertions = true) (p : Nat) :
    ∀ (cs : List Nat) (s : Store) (f : Fault) (k : Nat), WF s → SibUnique s → SibUnique (extend c s p cs f k).1 := by
  intro cs
  induction cs with
  | nil => intro s f k _ hu; exact hu
  | cons x xs ih =>
    intro s f k hw hu
    unfold extend
    have h1 := wf_assignParentOf hw c ha x p (if k = 0 then f else .none)
    have h2 := sibUnique_assignParentOf hw hu c hnode x p (if k = 0 then f else .none)
    cases ho : (assignParentOf c s x p (if k = 0 then f else .none)).2 with
    | rej => simp only [ho]; exact h2
    | ok => simp only [ho]; exact ih _ _ _ h1 h2

/-- C03: every operation on `Node` objects keeps sibling names unique -/
theorem sibUnique_step {s : Store} (hw : WF s) (hu : SibUnique s) (c : Cfg) (hnode : c.node = true)
    (ha : c.assertions = true) (op : Op) : SibUnique (step c s op).1 := by
  cases op with
  | setParent v np f => simp only [step]; split; exact sibUnique_setParent hw hu c hnode v np f; exact hu
  | setChildren v cs f => simp only [step]; split; exact sibUnique_setChildren hw hu c hnode ha v cs f; exact hu
  | setChildrenNonList v f => exact hu
  | delChildren v =>
    simp only [step]; split
    · rw [delChildren_eq hw]
      refine sibUnique_of_sub (s := s) (s' := detached s v) rfl ?_ hu
      intro p a h
      simp only [detached] at h
      by_cases hp : p = v
      · simp [hp] at h
      · simpa [hp] using h
    · exact hu
  | append p ch f => simp only [step]; split; exact sibUnique_assignParentOf hw hu c hnode ch p f; exact hu
  | extend p cs f k => simp only [step]; split; exact sibUnique_extend hnode ha p cs s f k hw hu; exact hu
  | rshift p ch f => simp only [step]; split; exact sibUnique_assignParentOf hw hu c hnode ch p f; exact hu
  | lshift ch p f => simp only [step]; split; exact sibUnique_setParent hw hu c hnode ch p f; exact hu
  | delItem p nm f =>
    simp only [step, delItem]; split
    · cases findChildByName s p nm with
      | none => exact hu
      | some r =>
        cases r with
        | none => exact hu
        | some ch => exact sibUnique_setParent hw hu c hnode ch none f
    · exact hu
  | sort v ranks rev =>
    simp only [step]; split
    · refine sibUnique_of_sub (s := s) (s' := sortChildren s v ranks rev) rfl ?_ hu
      intro p a h
      by_cases hp : p = v
      · subst hp; exact (sortChildren_perm s p ranks rev).mem_iff.1 h
      · simpa [sortChildren, hp] using h
    · exact hu
  | setSep v x => simp only [step]; split; exact hu; exact hu

theorem sibUnique_init (n : Nat) (names : Nat → Str) (sp : Str) : SibUnique (init n names sp) := by
  intro p a b ha; simp [init] at ha

theorem sibUnique_run {s : Store} (hw : WF s) (hu : SibUnique s) (c : Cfg) (hnode : c.node = true)
    (ha : c.assertions = true) (ops : List Op) : SibUnique (run c s ops) := by
  unfold run
  induction ops generalizing s with
  | nil => exact hu
  | cons op ops ih => exact ih (wf_step hw c ha op) (sibUnique_step hw hu c hnode ha op)

end Store
