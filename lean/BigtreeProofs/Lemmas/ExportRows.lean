import BigtreeProofs.Lemmas.ExportRoundtrip
/-! Helper lemmas for C06: the DataFrame round trip (columns, normalised rows, null dropping).
Core Lean only. -/

namespace Export

/-! ### columns -/

def addKey (cs : List Str) (k : Str) : List Str := if cs.contains k then cs else cs ++ [k]

def addKeys (cs : List Str) (r : Rec) : List Str := r.foldl (fun cs kv => addKey cs kv.1) cs

theorem columnsOf_eq (rows : List Rec) : columnsOf rows = rows.foldl addKeys [] := rfl

theorem addKey_nodup (cs : List Str) (k : Str) (h : cs.Nodup) : (addKey cs k).Nodup := by
  by_cases hk : k ∈ cs
  · simp [addKey, hk, h]
  · simp only [addKey, List.contains_eq_mem, hk, decide_false, Bool.false_eq_true, if_false]
    rw [List.nodup_append]
    refine ⟨h, by simp, ?_⟩
    intro a ha b hb
    simp only [List.mem_singleton] at hb
    subst hb
    intro e
    subst e
    exact hk ha

theorem addKey_mem (cs : List Str) (k : Str) : k ∈ addKey cs k := by
  by_cases hk : k ∈ cs
  · simp [addKey, hk]
  · simp [addKey, hk]

theorem addKey_sub (cs : List Str) (k x : Str) (h : x ∈ cs) : x ∈ addKey cs k := by
  unfold addKey
  split <;> simp [h]

theorem addKey_head (c0 : Str) (cs : List Str) (k : Str) : ∃ cs', addKey (c0 :: cs) k = c0 :: cs' := by
  unfold addKey
  split
  · exact ⟨cs, rfl⟩
  · exact ⟨cs ++ [k], rfl⟩

theorem addKeys_nodup (r : Rec) : ∀ (cs : List Str), cs.Nodup → (addKeys cs r).Nodup := by
  induction r with
  | nil => intro cs h; exact h
  | cons kv r ih => intro cs h; exact ih _ (addKey_nodup cs kv.1 h)

theorem addKeys_sub (r : Rec) : ∀ (cs : List Str) (x : Str), x ∈ cs → x ∈ addKeys cs r := by
  induction r with
  | nil => intro cs x h; exact h
  | cons kv r ih => intro cs x h; exact ih _ x (addKey_sub cs kv.1 x h)

theorem addKeys_mem (r : Rec) : ∀ (cs : List Str) (k : Str), k ∈ r.map Prod.fst → k ∈ addKeys cs r := by
  induction r with
  | nil => intro cs k h; cases h
  | cons kv r ih =>
    intro cs k h
    rcases List.mem_cons.mp h with e | e
    · subst e; exact addKeys_sub r _ _ (addKey_mem cs kv.1)
    · exact ih _ k e

theorem addKeys_head (r : Rec) : ∀ (c0 : Str) (cs : List Str), ∃ cs', addKeys (c0 :: cs) r = c0 :: cs' := by
  induction r with
  | nil => intro c0 cs; exact ⟨cs, rfl⟩
  | cons kv r ih =>
    intro c0 cs
    obtain ⟨cs1, h1⟩ := addKey_head c0 cs kv.1
    obtain ⟨cs2, h2⟩ := ih c0 cs1
    exact ⟨cs2, by simp only [addKeys, List.foldl_cons] at h2 ⊢; rw [h1]; exact h2⟩

theorem foldl_addKeys_nodup (rows : List Rec) : ∀ (cs : List Str), cs.Nodup → (rows.foldl addKeys cs).Nodup := by
  induction rows with
  | nil => intro cs h; exact h
  | cons r rows ih => intro cs h; exact ih _ (addKeys_nodup r cs h)

theorem foldl_addKeys_sub (rows : List Rec) : ∀ (cs : List Str) (x : Str), x ∈ cs → x ∈ rows.foldl addKeys cs := by
  induction rows with
  | nil => intro cs x h; exact h
  | cons r rows ih => intro cs x h; exact ih _ x (addKeys_sub r cs x h)

theorem foldl_addKeys_mem (rows : List Rec) : ∀ (cs : List Str) (r : Rec) (k : Str), r ∈ rows → k ∈ r.map Prod.fst →
    k ∈ rows.foldl addKeys cs := by
  induction rows with
  | nil => intro cs r k h; cases h
  | cons r0 rows ih =>
    intro cs r k h hk
    rcases List.mem_cons.mp h with e | e
    · subst e; exact foldl_addKeys_sub rows _ k (addKeys_mem r cs k hk)
    · exact ih _ r k e hk

theorem foldl_addKeys_head (rows : List Rec) : ∀ (c0 : Str) (cs : List Str), ∃ cs', rows.foldl addKeys (c0 :: cs) = c0 :: cs' := by
  induction rows with
  | nil => intro c0 cs; exact ⟨cs, rfl⟩
  | cons r rows ih =>
    intro c0 cs
    obtain ⟨cs1, h1⟩ := addKeys_head r c0 cs
    obtain ⟨cs2, h2⟩ := ih c0 cs1
    exact ⟨cs2, by rw [List.foldl_cons, h1]; exact h2⟩

theorem columnsOf_nodup (rows : List Rec) : (columnsOf rows).Nodup := by
  rw [columnsOf_eq]; exact foldl_addKeys_nodup rows [] (by simp)

theorem columnsOf_mem (rows : List Rec) (r : Rec) (k : Str) (hr : r ∈ rows) (hk : k ∈ r.map Prod.fst) :
    k ∈ columnsOf rows := by
  rw [columnsOf_eq]; exact foldl_addKeys_mem rows [] r k hr hk

/-- the first key of the first record is the first column -/
theorem columnsOf_head (k0 : Str) (v0 : Val) (r : Rec) (rows : List Rec) :
    ∃ cs', columnsOf (((k0, v0) :: r) :: rows) = k0 :: cs' := by
  rw [columnsOf_eq, List.foldl_cons]
  have h0 : addKeys [] ((k0, v0) :: r) = addKeys [k0] r := by
    simp [addKeys, addKey]
  rw [h0]
  obtain ⟨cs1, h1⟩ := addKeys_head r k0 []
  rw [h1]
  exact foldl_addKeys_head rows k0 cs1

/-! ### normalised rows -/

theorem dget_map_cols (g : Str → Val) : ∀ (cols : List Str) (k : Str), k ∈ cols →
    dget (cols.map fun c => (c, g c)) k = some (g k) := by
  intro cols
  induction cols with
  | nil => intro k h; cases h
  | cons c cs ih =>
    intro k h
    by_cases e : c = k
    · subst e; simp [dget]
    · rcases List.mem_cons.mp h with h' | h'
      · exact absurd h'.symm e
      · simp [dget, e, ih k h']

theorem dget_filter_map_cols (g : Str → Val) (p : Str × Val → Bool) : ∀ (cols : List Str), cols.Nodup → ∀ (k : Str),
    dget ((cols.map fun c => (c, g c)).filter p) k = if k ∈ cols ∧ p (k, g k) = true then some (g k) else none := by
  intro cols
  induction cols with
  | nil => intro _ k; simp [dget]
  | cons c cs ih =>
    intro hn k
    simp only [List.nodup_cons] at hn
    rw [List.map_cons, List.filter_cons]
    by_cases hp : p (c, g c) = true
    · rw [if_pos hp, dget]
      by_cases e : c = k
      · subst e; simp [hp]
      · rw [if_neg e, ih hn.2 k]
        have : (k ∈ c :: cs) ↔ k ∈ cs := by
          simp only [List.mem_cons]
          constructor
          · rintro (h | h)
            · exact absurd h.symm e
            · exact h
          · exact Or.inr
        simp only [this]
    · rw [if_neg hp, ih hn.2 k]
      by_cases e : c = k
      · subst e
        have hk : c ∉ cs := hn.1
        simp [hk, hp]
      · have : (k ∈ c :: cs) ↔ k ∈ cs := by
          simp only [List.mem_cons]
          constructor
          · rintro (h | h)
            · exact absurd h.symm e
            · exact h
          · exact Or.inr
        simp only [this]

/-- the row predicate of `filter_attributes(row, omit_keys=["name", path_col], omit_null_values=True)` -/
def rowKeep (pc : Str) (kv : Str × Val) : Bool := kv.2 != Val.null && kv.1 != strName && kv.1 != pc

theorem filterRowAttrs_eq (pc : Str) (r : Rec) : filterRowAttrs pc r = r.filter (rowKeep pc) := rfl

/-- null dropping on a normalised full-export row gives `rowAttrs` -/
theorem filterRowAttrs_norm (pc : Str) (cols : List Str) (v1 v2 : Val) (a : Attrs) :
    filterRowAttrs pc (cols.map fun c => (c, (dget ((pc, v1) :: (strName, v2) :: describe a) c).getD .null))
      = rowAttrs pc cols a := by
  unfold rowAttrs
  rw [filterRowAttrs_eq, filterRowAttrs_eq]
  induction cols with
  | nil => rfl
  | cons c cs ih =>
    rw [List.map_cons, List.map_cons, List.filter_cons, List.filter_cons, ih]
    by_cases e1 : c = pc
    · simp [rowKeep, e1]
    · by_cases e2 : c = strName
      · simp [rowKeep, e2]
      · have : (dget ((pc, v1) :: (strName, v2) :: describe a) c).getD Val.null = getAttr (describe a) c := by
          simp [dget, Ne.symm e1, Ne.symm e2, getAttr]
        rw [this]

/-- the attributes a row gives back are, as a map, the public non-null attributes of the node -/
theorem rowAttrs_get (pc : Str) (cols : List Str) (a : Attrs) (hn : cols.Nodup)
    (hsub : ∀ k ∈ (describe a).map Prod.fst, k ∈ cols) (hpc : pc ∉ (describe a).map Prod.fst) (k : Str) :
    getAttr (rowAttrs pc cols a) k = getAttr (describe a) k := by
  unfold rowAttrs
  rw [filterRowAttrs_eq]
  unfold getAttr
  rw [dget_filter_map_cols (fun c => (dget (describe a) c).getD .null) (rowKeep pc) cols hn k]
  by_cases h : k ∈ cols ∧ rowKeep pc (k, (dget (describe a) k).getD Val.null) = true
  · rw [if_pos h]; rfl
  · rw [if_neg h]
    simp only [Option.getD_none]
    by_cases hk : k ∈ cols
    · have hr : rowKeep pc (k, (dget (describe a) k).getD Val.null) = false := by
        cases hh : rowKeep pc (k, (dget (describe a) k).getD Val.null) with
        | true => exact absurd ⟨hk, hh⟩ h
        | false => rfl
      simp only [rowKeep, Bool.and_eq_false_iff, bne_eq_false_iff_eq] at hr
      rcases hr with (hr | hr) | hr
      · exact hr.symm
      · subst hr
        rw [dget_of_not_mem _ _ (describe_no_name a)]; rfl
      · subst hr
        rw [dget_of_not_mem _ _ hpc]; rfl
    · have : k ∉ (describe a).map Prod.fst := fun hmem => hk (hsub k hmem)
      rw [dget_of_not_mem _ _ this]; rfl

theorem rowAttrs_keys_nodup (pc : Str) (cols : List Str) (hn : cols.Nodup) (a : Attrs) :
    ((rowAttrs pc cols a).map Prod.fst).Nodup := by
  unfold rowAttrs
  rw [filterRowAttrs_eq]
  have h1 : ((cols.map fun c => (c, getAttr (describe a) c)).map Prod.fst) = cols := by
    rw [List.map_map]; simp [Function.comp_def]
  exact List.Nodup.sublist ((List.filter_sublist (l := cols.map fun c => (c, getAttr (describe a) c))).map Prod.fst)
    (by rw [h1]; exact hn)

/-! ### paths without the leading separator -/

theorem strip_join (c : Char) (xs : List Str) (hne : xs ≠ []) (hs : ∀ x ∈ xs, x ≠ [] ∧ c ∉ x) :
    stripC c (joinC c xs) = joinC c xs := by
  obtain ⟨pre, ch, hj, hch⟩ := joinC_last c xs hne hs
  cases xs with
  | nil => exact absurd rfl hne
  | cons x rest =>
    obtain ⟨hx, hxc⟩ := hs x (by simp)
    cases x with
    | nil => exact absurd rfl hx
    | cons x0 x' =>
      obtain ⟨tl, htl⟩ := joinC_head c (x0 :: x') rest x0 x' rfl
      have hx0 : x0 ≠ c := by
        intro e; apply hxc; simp [e]
      unfold stripC
      have : lstripC c (joinC c ((x0 :: x') :: rest)) = joinC c ((x0 :: x') :: rest) := by
        rw [htl]; exact lstripC_cons c x0 tl hx0
      rw [this, hj, rstripC_concat c ch pre hch]

theorem strip_path (c : Char) (xs : List Str) (hne : xs ≠ []) (hs : ∀ x ∈ xs, x ≠ [] ∧ c ∉ x) :
    stripC c (c :: joinC c xs) = joinC c xs := by
  have h := strip_join c xs hne hs
  unfold stripC at h ⊢
  have hcc : (c == c) = true := by simp
  rw [lstripC, List.dropWhile_cons, hcc]
  exact h

theorem joinC_ne_nil (c : Char) (x : Str) (rest : List Str) (hx : x ≠ []) : joinC c (x :: rest) ≠ [] := by
  cases x with
  | nil => exact absurd rfl hx
  | cons x0 x' =>
    obtain ⟨tl, htl⟩ := joinC_head c (x0 :: x') rest x0 x' rfl
    rw [htl]; simp

theorem insertPath_bare (sep : Char) (r : Tree) (p : List Str) (a : Attrs)
    (hr : r.name ≠ [] ∧ sep ∉ r.name) (hp : CompsOK sep p) :
    insertPath sep r (joinC sep (r.name :: p)) a = some (insertAt a p r) := by
  have hgood : ∀ x ∈ r.name :: p, x ≠ [] ∧ sep ∉ x := by
    intro x hx
    rcases List.mem_cons.mp hx with h | h
    · subst h; exact hr
    · exact hp x h
  unfold insertPath
  rw [if_neg (joinC_ne_nil sep r.name p hr.1)]
  rw [strip_join sep (r.name :: p) (by simp) hgood, splitC_joinC sep (r.name :: p) (by simp) (fun x hx => (hgood x hx).2)]
  have hany : p.any (· == []) = false := by
    rw [List.any_eq_false]
    intro s hs
    have := (hp s hs).1
    simpa using this
  simp only [ne_eq, not_true_eq_false, if_false, hany]
  simp

theorem foldInsert_bare (sep : Char) (es : List (List Str × Attrs)) : ∀ (r : Tree),
    (r.name ≠ [] ∧ sep ∉ r.name) → (∀ e ∈ es, CompsOK sep e.1) →
    foldInsert sep r (es.map fun e => (joinC sep (r.name :: e.1), e.2)) = some (foldAt r es) := by
  induction es with
  | nil => intro r _ _; rfl
  | cons e es ih =>
    intro r hr hes
    rw [List.map_cons, foldInsert, insertPath_bare sep r e.1 e.2 hr (hes e (by simp))]
    simp only
    have hn : (insertAt e.2 e.1 r).name = r.name := insertAt_name _ _ _
    have := ih (insertAt e.2 e.1 r) (by rw [hn]; exact hr) (fun e' he' => hes e' (by simp [he']))
    rw [hn] at this
    rw [this, foldAt_cons]

/-! ### the full DataFrame export and its import -/

/-- record of a full `tree_to_dataframe` / `tree_to_polars` export -/
theorem record_full_rows (sep : Char) (pc : Str) (anc : List Str) (t : Tree) (hpc : pc ≠ [] ∧ pc ≠ strName)
    (h : NodeOK t) (hk : pc ∉ t.attrs.map Prod.fst) :
    record (fullOpts pc) sep anc t
      = (pc, .str (pathName sep anc t.name)) :: (strName, .str t.name) :: describe t.attrs := by
  unfold record
  simp only [fullOpts, ne_eq, hpc.1, not_false_eq_true, if_true, strName_ne_nil, not_true_eq_false, if_false]
  rw [addAttrs_full _ _ _ rfl h.2.1]
  · simp [dset, hpc.2]
  · intro k hk1 hk2
    simp only [dset, hpc.2, if_false, List.map_cons, List.map_nil, List.mem_cons, List.mem_nil_iff, or_false] at hk2
    rcases hk2 with e | e
    · subst e
      obtain ⟨kv, hkv, rfl⟩ := List.mem_map.mp hk1
      exact hk (List.mem_map.mpr ⟨kv, describe_mem _ _ hkv, rfl⟩)
    · exact describe_no_name t.attrs (e ▸ hk1)

/-- the row a full export contributes for a node -/
def fullRow (sep : Char) (pc : Str) (x : List Str × Tree) : Rec :=
  (pc, .str (pathName sep x.1 x.2.name)) :: (strName, .str x.2.name) :: describe x.2.attrs

def normRow (cols : List Str) (r : Rec) : Rec := cols.map fun c => (c, (dget r c).getD .null)

theorem frame_eq (rows : List Rec) : frame rows = (columnsOf rows, rows.map (normRow (columnsOf rows))) := rfl

theorem rowPaths_full (sep : Char) (pc : Str) (cols : List Str) (hpc : pc ∈ cols) :
    ∀ (l : List (List Str × Tree)), (∀ x ∈ l, ∀ s ∈ x.1 ++ [x.2.name], s ≠ [] ∧ sep ∉ s) →
    rowPaths sep pc (l.map fun x => normRow cols (fullRow sep pc x))
      = some (l.map fun x => joinC sep (x.1 ++ [x.2.name])) := by
  intro l
  induction l with
  | nil => intro _; rfl
  | cons x xs ih =>
    intro h
    rw [List.map_cons, rowPaths, ih (fun y hy => h y (by simp [hy]))]
    have : rowPath sep pc (normRow cols (fullRow sep pc x)) = some (joinC sep (x.1 ++ [x.2.name])) := by
      unfold rowPath normRow
      rw [dget_map_cols _ cols pc hpc]
      simp only [fullRow, dget, if_true, Option.getD_some, pathName]
      rw [strip_path sep (x.1 ++ [x.2.name]) (by simp) (h x (by simp))]
    rw [this]
    rfl

mutual
theorem preCtx_comps (sep : Char) : ∀ (t : Tree) (anc : List Str), AllNodes NodeOK t → AllNodes (SepFree sep) t →
    CompsOK sep anc → ∀ x ∈ preCtx anc t, ∀ s ∈ x.1 ++ [x.2.name], s ≠ [] ∧ sep ∉ s
  | .node i n a cs, anc, h1, h2, ha, x, hx => by
    rw [allNodes_node] at h1 h2
    have hn : n ≠ [] ∧ sep ∉ n := ⟨h1.1.1, h2.1⟩
    rw [preCtx] at hx
    rcases List.mem_cons.mp hx with e | e
    · subst e
      intro s hs
      rcases List.mem_append.mp hs with h | h
      · exact ha s h
      · simp only [Tree.name_node, List.mem_singleton] at h; subst h; exact hn
    · refine preCtxL_comps sep cs (anc ++ [n]) h1.2 h2.2 ?_ x e
      intro s hs
      rcases List.mem_append.mp hs with h | h
      · exact ha s h
      · simp only [List.mem_singleton] at h; subst h; exact hn
theorem preCtxL_comps (sep : Char) : ∀ (ts : List Tree) (anc : List Str), AllNodesL NodeOK ts → AllNodesL (SepFree sep) ts →
    CompsOK sep anc → ∀ x ∈ preCtxL anc ts, ∀ s ∈ x.1 ++ [x.2.name], s ≠ [] ∧ sep ∉ s
  | [], anc, _, _, _, x, hx => by simp [preCtxL] at hx
  | t :: ts, anc, h1, h2, ha, x, hx => by
    rw [allNodesL_cons] at h1 h2
    rw [preCtxL] at hx
    rcases List.mem_append.mp hx with e | e
    · exact preCtx_comps sep t anc h1.1 h2.1 ha x e
    · exact preCtxL_comps sep ts anc h1.2 h2.2 ha x e
end

theorem treeToRows_full (sep : Char) (pc : Str) (t : Tree) (anc : List Str) (hpc : pc ≠ [] ∧ pc ≠ strName)
    (h1 : AllNodes NodeOK t) (h3 : AllNodes (fun u => pc ∉ u.attrs.map Prod.fst) t) :
    treeToRows (fullOpts pc) sep anc t = (preCtx anc t).map (fullRow sep pc) := by
  unfold treeToRows
  rw [appendRows_eq, List.nil_append, rowsSpec,
    List.filter_eq_self.mpr (fun x _ => selected_full pc x)]
  apply List.map_congr_left
  intro x hx
  exact record_full_rows sep pc x.1 x.2 hpc (allNodes_preCtx NodeOK t anc h1 x hx)
    (allNodes_preCtx _ t anc h3 x hx)

/-- `dataframe_to_tree` / `polars_to_tree` of the full export -/
theorem rowsToTree_full (sep : Char) (pc : Str) (i : Nat) (n : Str) (a : Attrs) (cs : List Tree)
    (hpc : pc ≠ [] ∧ pc ≠ strName)
    (h1 : AllNodes NodeOK (.node i n a cs)) (h2 : AllNodes (SepFree sep) (.node i n a cs))
    (h3 : AllNodes (fun u => pc ∉ u.attrs.map Prod.fst) (.node i n a cs)) :
    rowsToTree sep (frame (treeToRows (fullOpts pc) sep [] (.node i n a cs)))
      = some (canonWith (rowAttrs pc (columnsOf (treeToRows (fullOpts pc) sep [] (.node i n a cs)))) (.node i n a cs)) := by
  have h1' := h1
  have h2' := h2
  rw [allNodes_node] at h1' h2'
  obtain ⟨⟨hn, hkeys, hnames⟩, hcs⟩ := h1'
  simp only [Tree.name_node, Tree.attrs_node, Tree.children_node] at hn hkeys hnames
  have hsep : sep ∉ n := h2'.1
  rw [treeToRows_full sep pc _ [] hpc h1 h3]
  generalize hcols : columnsOf ((preCtx [] (.node i n a cs)).map (fullRow sep pc)) = cols
  have hnd : cols.Nodup := hcols ▸ columnsOf_nodup _
  obtain ⟨cs', hhead⟩ : ∃ cs', cols = pc :: cs' := by
    rw [← hcols, preCtx, List.map_cons, fullRow]
    exact columnsOf_head _ _ _ _
  have hpcm : pc ∈ cols := by rw [hhead]; simp
  have hrow : ∀ x : List Str × Tree, filterRowAttrs pc (normRow cols (fullRow sep pc x)) = rowAttrs pc cols x.2.attrs := by
    intro x; exact filterRowAttrs_norm pc cols _ _ _
  have hgk : ∀ b : Attrs, (b.map Prod.fst).Nodup → ((rowAttrs pc cols b).map Prod.fst).Nodup :=
    fun b _ => rowAttrs_keys_nodup pc cols hnd b
  generalize rowAttrs pc cols = g at hrow hgk ⊢
  rw [frame_eq, hcols]
  unfold rowsToTree
  simp only
  rw [hhead]
  rw [preCtx, List.map_cons, List.map_cons]
  simp only
  rw [← hhead, ← List.map_cons, ← List.map_cons (f := fullRow sep pc), ← preCtx, List.map_map]
  have hcomps := preCtx_comps sep (.node i n a cs) [] h1 h2 (by intro s hs; cases hs)
  rw [show (normRow cols ∘ fullRow sep pc) = fun x => normRow cols (fullRow sep pc x) from rfl,
    rowPaths_full sep pc cols hpcm _ hcomps]
  simp only
  -- the root name
  have hroot : (splitC sep (((preCtx [] (Tree.node i n a cs)).map fun x => joinC sep (x.1 ++ [x.2.name])).headD [])).headD [] = n := by
    rw [preCtx]
    simp only [List.map_cons, List.headD_cons, List.nil_append, Tree.name_node, joinC]
    rw [splitC_nosep sep n hsep]; rfl
  rw [hroot, List.zip_map', if_neg hn]
  -- root attributes: the first row
  have hfind : List.find? (fun x : Rec × Str => x.2 == n)
      ((preCtx [] (Tree.node i n a cs)).map fun x => (normRow cols (fullRow sep pc x), joinC sep (x.1 ++ [x.2.name])))
      = some (normRow cols (fullRow sep pc ([], .node i n a cs)), n) := by
    rw [preCtx, List.map_cons]
    simp only [List.nil_append, Tree.name_node, joinC]
    exact List.find?_cons_of_pos (by simp)
  rw [hfind]
  simp only
  rw [hrow, List.map_map]
  simp only [Function.comp_def, hrow, Tree.attrs_node]
  -- the entry list
  have hent : (preCtx [] (Tree.node i n a cs)).map (fun x => (joinC sep (x.1 ++ [x.2.name]), g x.2.attrs))
      = (([], g a) :: entriesL g cs).map (fun e => (joinC sep (n :: e.1), e.2)) := by
    have h0 := preCtx_entries g (.node i n a cs) []
    have := congrArg (List.map fun e : List Str × Attrs => (joinC sep e.1, e.2)) h0
    rw [List.map_map, List.map_map] at this
    simp only [Function.comp_def, List.nil_append] at this
    rw [this, entries]
    simp [List.map_map, Function.comp_def]
  rw [hent]
  have hR : (Tree.node 0 n (g a) []).name = n := rfl
  have := foldInsert_bare sep (([], g a) :: entriesL g cs) (.node 0 n (g a) []) ⟨hn, hsep⟩ ?_
  · rw [hR] at this
    rw [this, foldAt_cons]
    simp only [insertAt]
    rw [dupdate_self (g a) (hgk a hkeys)]
    rw [foldAt_entriesL g hgk cs 0 n (g a) [] (by simp) hnames hcs]
    simp [canonWith]
  · intro e he
    rcases List.mem_cons.mp he with h | h
    · subst h; intro s hs; cases hs
    · exact (entriesL_comps sep g cs hcs h2'.2 e h).2.2

end Export
