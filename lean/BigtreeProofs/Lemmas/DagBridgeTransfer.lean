import BigtreeProofs.Lemmas.DagBridgeBasic
import BigtreeProofs.Lemmas.DagClosure
/-!
# DagBridge — the two `ancestors` models coincide; the converse of `toDag_wf`
-/

namespace DagStore
open List

/-! ## `Dag.dedup` is `List.eraseDups` -/

theorem dedup_filter (p : Nat → Bool) (l : List Nat) : Dag.dedup (l.filter p) = (Dag.dedup l).filter p := by
  induction l with
  | nil => rfl
  | cons x xs ih =>
    by_cases hx : p x = true
    · rw [filter_cons_of_pos hx]
      simp only [Dag.dedup]
      rw [filter_cons_of_pos hx, ih, filter_filter, filter_filter]
      congr 2
      funext y
      exact Bool.and_comm _ _
    · rw [filter_cons_of_neg hx]
      simp only [Dag.dedup]
      rw [filter_cons_of_neg hx, ih, filter_filter]
      apply filter_congr
      intro y _
      by_cases hy : y = x
      · subst hy; simp [hx]
      · simp [hy]

theorem dedup_eq_eraseDups (l : List Nat) : Dag.dedup l = l.eraseDups := by
  generalize hn : l.length = n
  induction n using Nat.strongRecOn generalizing l with
  | _ n ih =>
    cases l with
    | nil => rfl
    | cons a as =>
      rw [eraseDups_cons, Dag.dedup]
      have hlen : (as.filter fun b => !b == a).length < n := by
        have := length_filter_le (fun b => !b == a) as
        simp at hn; omega
      rw [← ih _ hlen _ rfl, dedup_filter]
      congr 1

/-! ## the recursion of `ancestors`: same function, and the two fuels give the same list -/

theorem ancRaw_toDag (s : DStore) (a : Nat → Attrs) (f v : Nat) :
    (toDag s a).ancRaw f v = recParent s f v := by
  induction f generalizing v with
  | zero => rfl
  | succ f ih =>
    simp only [Dag.ancRaw, recParent, toDag_parents]
    congr 1
    funext p
    rw [ih]

theorem flatMap_congr' {α β : Type} {l : List α} {f g : α → List β} (h : ∀ a ∈ l, f a = g a) :
    l.flatMap f = l.flatMap g := by
  induction l with
  | nil => rfl
  | cons a l ih =>
    rw [flatMap_cons, flatMap_cons, h a (by simp), ih (fun b hb => h b (by simp [hb]))]

/-- two fuels that both exceed every upward chain from `v` give the same list -/
theorem recParent_fuel {s : DStore} : ∀ (f g v : Nat), (∀ l, Up s v l → l.length ≤ f ∧ l.length ≤ g) →
    recParent s f v = recParent s g v := by
  intro f
  induction f with
  | zero =>
    intro g v h
    have hp : s.parents v = [] := by
      cases hp : s.parents v with
      | nil => rfl
      | cons p t =>
        have := (h [p] (by simp [Up, hp])).1
        simp at this
    cases g <;> simp [recParent, hp]
  | succ f ih =>
    intro g v h
    cases g with
    | zero =>
      have hp : s.parents v = [] := by
        cases hp : s.parents v with
        | nil => rfl
        | cons p t =>
          have := (h [p] (by simp [Up, hp])).2
          simp at this
      simp [recParent, hp]
    | succ g =>
      simp only [recParent]
      apply flatMap_congr'
      intro p hp
      rw [ih g p]
      intro l hl
      have := h (p :: l) ⟨hp, hl⟩
      simp at this
      omega

theorem up_length_le {s : DStore} (hs : DWF s) {v : Nat} {l : List Nat} (h : Up s v l) : l.length ≤ s.n := by
  by_cases hl : l = []
  · subst hl; simp
  · have h1 := h.nodup hs.acyc
    have h2 := h.lt hs.toDWF0 hl
    have := nodup_bound s.n _ h1 h2
    simp at this
    omega

/-- **the `ancestors` the loop check of the setters consults (C10's model) and the `ancestors`
C16 specifies are the same list**, on every well-formed store -/
theorem ancestors_agree {s : DStore} (hs : DWF s) (a : Nat → Attrs) (v : Nat) :
    (toDag s a).ancestors v = ancestors s v := by
  unfold Dag.ancestors ancestors
  simp only [toDag_parents, toDag_nodes, length_range]
  split
  · rfl
  · rw [dedup_eq_eraseDups, ancRaw_toDag]
    congr 1
    apply recParent_fuel
    intro l hl
    have := up_length_le hs hl
    omega

/-! ## converse of `toDag_wf` -/

/-- a graph-level well-formed read-off, plus "no lists outside the allocated ids", is the store invariant -/
theorem dwf_of_toDag {s : DStore} {a : Nat → Attrs} (h : Dag.DWF (toDag s a))
    (hout : ∀ v, s.n ≤ v → s.parents v = [] ∧ s.children v = []) : DWF s := by
  have hin : ∀ {v}, v < s.n → v ∈ (toDag s a).nodes := fun hv => mem_toDag_nodes.2 hv
  have rng : ∀ p c, p ∈ s.parents c → p < s.n ∧ c < s.n := by
    intro p c hp
    have hc : c < s.n := by
      apply Decidable.byContradiction
      intro hc
      rw [(hout c (by omega)).1] at hp
      cases hp
    exact ⟨mem_toDag_nodes.1 (h.par_closed c (hin hc) p hp).1, hc⟩
  have sym : ∀ p c, p ∈ s.parents c ↔ c ∈ s.children p := by
    intro p c
    constructor
    · intro hp
      exact (h.par_closed c (hin (rng p c hp).2) p hp).2
    · intro hc
      have hp : p < s.n := by
        apply Decidable.byContradiction
        intro hp
        rw [(hout p (by omega)).2] at hc
        cases hc
      exact (h.chi_closed p (hin hp) c hc).2
  refine ⟨⟨sym, ?_, ?_, rng⟩, ?_⟩
  · intro v
    by_cases hv : v < s.n
    · exact h.nodup_par v (hin hv)
    · rw [(hout v (by omega)).1]; exact nodup_nil
  · intro v
    by_cases hv : v < s.n
    · exact h.nodup_chi v (hin hv)
    · rw [(hout v (by omega)).2]; exact nodup_nil
  · -- acyclic and finite ⇒ well-founded
    have key : ∀ m k v w, v < s.n → Dag.ReachN (toDag s a) k v w → s.n ≤ k + m →
        Acc (fun p c => p ∈ s.parents c) v := by
      intro m
      induction m with
      | zero =>
        intro k v w hv hr hk
        have := Dag.reachN_lt h (hin hv) hr
        simp at this
        omega
      | succ m ih =>
        intro k v w hv hr hk
        constructor
        intro p hp
        exact ih (k + 1) p w (rng p v hp).1 (.succ ((sym p v).1 hp) hr) (by omega)
    intro v
    by_cases hv : v < s.n
    · exact key s.n 0 v v hv (.zero v) (by omega)
    · constructor
      intro p hp
      rw [(hout v (by omega)).1] at hp
      cases hp

end DagStore
