import BigtreeProofs.Lemmas.RenderHAsm
/-!
# `hblock` / `hplace`: shape invariant, offsets, rows inside the block, leaf order

* `hblock_hole`, `hblock_leaf`, `hblock_inner`: the three cases of `hblock`;
* `hblock_inv` (every block satisfies `PInv`), `hblock_idx_lt`;
* `Placed.shift`, `hplace_shift`: `hplace … d off t` is `hplace … d 0 t` moved down by `off`;
* `hblock_framed`: the block of an inner node is the gap-joined children rows behind a prefix column;
* `hplace_row_lt`: every placement row lies inside the block;
* `h_leaf_order_block`.
-/

namespace Render

/-! ### unfolding `hblock` -/

theorem hblock_hole (S : HStyle) (inter : Bool) (pad : Nat → Nat) (d : Nat) :
    hblock S inter pad d .hole = ([hlabel S inter pad d [' ', ' '] true], 0) := by
  simp [hblock, hlabel]

theorem hblock_leaf (S : HStyle) (inter : Bool) (pad : Nat → Nat) (d : Nat) (n : Str) (cs : List HTree)
    (h : (!cs.any HTree.isReal) = true) :
    hblock S inter pad d (.node n cs) = ([hlabel S inter pad d n true], 0) := by
  simp only [Bool.not_eq_eq_eq_not, Bool.not_true] at h
  simp [hblock, hlabel, h]

theorem hblock_inner (S : HStyle) (inter : Bool) (pad : Nat → Nat) (d : Nat) (n : Str) (cs : List HTree)
    (h : ¬(!cs.any HTree.isReal) = true) :
    hblock S inter pad d (.node n cs) =
      assemble S (hlabel S inter pad d n false) (hblockL S inter pad (d + 1) cs) := by
  simp only [Bool.not_eq_eq_eq_not, Bool.not_true, Bool.not_eq_false] at h
  simp [hblock, hlabel, h]

theorem hblockL_ne (S : HStyle) (inter : Bool) (pad : Nat → Nat) (d : Nat) (cs : List HTree)
    (h : ¬(!cs.any HTree.isReal) = true) : hblockL S inter pad d cs ≠ [] := by
  cases cs with
  | nil => simp at h
  | cons c cs => simp [hblockL]

/-- every block satisfies the shape invariant -/
theorem hblock_inv (S : HStyle) (inter : Bool) (pad : Nat → Nat) :
    (∀ (d : Nat) (t : HTree), PInv (hblock S inter pad d t)) ∧
    (∀ (d : Nat) (cs : List HTree), ∀ p ∈ hblockL S inter pad d cs, PInv p) := by
  apply hblock.mutual_induct S inter pad
  · intro d; rw [hblock_hole]; simp [PInv]
  · intro d n cs h; rw [hblock_leaf _ _ _ _ _ _ h]; simp [PInv]
  · intro d n cs h ih
    rw [hblock_inner _ _ _ _ _ _ h]
    exact (assemble_framed S _ _ (hblockL_ne _ _ _ _ _ h) ih).2
  · intro d; simp [hblockL]
  · intro d c cs ih1 ih2 p hp
    simp only [hblockL, List.mem_cons] at hp
    rcases hp with rfl | hp
    · exact ih1
    · exact ih2 p hp

/-- the row index returned by a block lies inside the block, and a block has at least one row -/
theorem hblock_idx_lt (S : HStyle) (inter : Bool) (pad : Nat → Nat) (d : Nat) (t : HTree) :
    (hblock S inter pad d t).2 < (hblock S inter pad d t).1.length :=
  ((hblock_inv S inter pad).1 d t).lt


/-- move a placement `k` rows down -/
def Placed.shift (k : Nat) (p : Placed) : Placed := { p with row := k + p.row }

@[simp] theorem Placed.shift_row (k : Nat) (p : Placed) : (p.shift k).row = k + p.row := rfl
@[simp] theorem Placed.shift_depth (k : Nat) (p : Placed) : (p.shift k).depth = p.depth := rfl
@[simp] theorem Placed.shift_isLeaf (k : Nat) (p : Placed) : (p.shift k).isLeaf = p.isLeaf := rfl
@[simp] theorem Placed.shift_name (k : Nat) (p : Placed) : (p.shift k).name = p.name := rfl
theorem Placed.shift_shift (j k : Nat) (p : Placed) : (p.shift k).shift j = p.shift (j + k) := by
  simp [Placed.shift, Nat.add_assoc]
theorem Placed.shift_zero (p : Placed) : p.shift 0 = p := by simp [Placed.shift]

theorem hplace_shift (S : HStyle) (inter : Bool) (pad : Nat → Nat) :
    (∀ (d : Nat) (t : HTree), ∀ off, hplace S inter pad d off t = (hplace S inter pad d 0 t).map (Placed.shift off)) ∧
    (∀ (d : Nat) (cs : List HTree), ∀ off gap,
      hplaceL S inter pad d off gap cs = (hplaceL S inter pad d 0 gap cs).map (Placed.shift off)) := by
  apply hblock.mutual_induct S inter pad
  · intro d off; simp [hplace, Placed.shift]
  · intro d n cs h off
    simp only [Bool.not_eq_eq_eq_not, Bool.not_true] at h
    simp [hplace, h, Placed.shift]
  · intro d n cs h ih off
    simp only [Bool.not_eq_eq_eq_not, Bool.not_true, Bool.not_eq_false] at h
    simp only [hplace, h, Bool.not_true, Bool.false_eq_true, ↓reduceIte, List.map_cons]
    rw [ih off]
    simp [Placed.shift]
  · intro d off gap; simp [hplaceL]
  · intro d c cs ih1 ih2 off gap
    simp only [hplaceL, List.map_append]
    rw [ih1 off, ih2 (off + _ + _), ih2 (0 + _ + _), List.map_map]
    congr 1
    apply List.map_congr_left
    intro p _
    simp [Placed.shift_shift, Nat.add_assoc]

theorem hplace_hole0 (S : HStyle) (inter : Bool) (pad : Nat → Nat) (d : Nat) :
    hplace S inter pad d 0 .hole = [⟨d, 0, true, [' ', ' ']⟩] := by simp [hplace]

theorem hplace_leaf0 (S : HStyle) (inter : Bool) (pad : Nat → Nat) (d : Nat) (n : Str) (cs : List HTree)
    (h : (!cs.any HTree.isReal) = true) :
    hplace S inter pad d 0 (.node n cs) = [⟨d, 0, true, n⟩] := by
  simp only [Bool.not_eq_eq_eq_not, Bool.not_true] at h
  simp [hplace, h]

theorem hplace_inner0 (S : HStyle) (inter : Bool) (pad : Nat → Nat) (d : Nat) (n : Str) (cs : List HTree)
    (h : ¬(!cs.any HTree.isReal) = true) :
    hplace S inter pad d 0 (.node n cs) =
      ⟨d, (hblock S inter pad d (.node n cs)).2, false, n⟩ ::
        hplaceL S inter pad (d + 1) 0 (gapInserted (hblockL S inter pad (d + 1) cs)) cs := by
  simp only [Bool.not_eq_eq_eq_not, Bool.not_true, Bool.not_eq_false] at h
  simp [hplace, h]

theorem hplaceL_cons0 (S : HStyle) (inter : Bool) (pad : Nat → Nat) (d : Nat) (gap : Bool) (c : HTree)
    (cs : List HTree) :
    hplaceL S inter pad d 0 gap (c :: cs) =
      hplace S inter pad d 0 c ++
        (hplaceL S inter pad d 0 gap cs).map
          (Placed.shift ((hblock S inter pad d c).1.length + (if gap then 1 else 0))) := by
  simp only [hplaceL]
  rw [(hplace_shift S inter pad).2 d cs (0 + _ + _)]
  simp

/-! ### consequences of `Framed` -/

theorem Framed.length {ns : Str} {res : List Str} {out : List Str × Nat} (h : Framed ns res out) :
    out.1.length = res.length := by
  obtain ⟨pre, h1, h2, -, -⟩ := h
  simp [h1, h2]

theorem Framed.row {ns : Str} {res : List Str} {out : List Str × Nat} (h : Framed ns res out)
    {r : Nat} {row : Str} (hr : res[r]? = some row) :
    ∃ pre : Str, pre.length = ns.length + 1 ∧ out.1[r]? = some (pre ++ row) := by
  obtain ⟨pre, h1, h2, h3, -⟩ := h
  have hlt : r < res.length := (List.getElem?_eq_some_iff.mp hr).1
  refine ⟨pre[r]'(by omega), h3 _ (List.getElem_mem _), ?_⟩
  rw [h1, List.getElem?_zipWith]
  simp [hr, List.getElem?_eq_getElem (show r < pre.length by omega)]

theorem Framed.idxRow {ns : Str} {res : List Str} {out : List Str × Nat} (h : Framed ns res out) :
    ∃ row, out.1[out.2]? = some row ∧ ns <+: row := by
  obtain ⟨pre, h1, h2, h3, g, h4⟩ := h
  have hlt : out.2 < pre.length := (List.getElem?_eq_some_iff.mp h4).1
  refine ⟨(ns ++ [g]) ++ res[out.2]'(by omega), ?_, ?_⟩
  · rw [h1, List.getElem?_zipWith]
    simp [h4, List.getElem?_eq_getElem (show out.2 < res.length by omega)]
  · rw [List.append_assoc]; exact List.prefix_append _ _

theorem joinGap_cons (gap : Bool) (p : List Str × Nat) (ps : List (List Str × Nat)) (h : ps ≠ []) :
    joinGap gap (p :: ps) = p.1 ++ (if gap then [[]] else []) ++ joinGap gap ps := by
  cases ps with
  | nil => exact absurd rfl h
  | cons q r => simp [joinGap]

/-- the block of an inner node is framed children rows -/
theorem hblock_framed (S : HStyle) (inter : Bool) (pad : Nat → Nat) (d : Nat) (n : Str) (cs : List HTree)
    (h : ¬(!cs.any HTree.isReal) = true) :
    Framed (hlabel S inter pad d n false)
      (joinGap (gapInserted (hblockL S inter pad (d + 1) cs)) (hblockL S inter pad (d + 1) cs))
      (hblock S inter pad d (.node n cs)) := by
  rw [hblock_inner _ _ _ _ _ _ h]
  exact (assemble_framed S _ _ (hblockL_ne _ _ _ _ _ h) ((hblock_inv S inter pad).2 _ _)).1

/-! ### rows stay inside the block -/

theorem hplace_row_lt_aux (S : HStyle) (inter : Bool) (pad : Nat → Nat) :
    (∀ (d : Nat) (t : HTree), ∀ p ∈ hplace S inter pad d 0 t, p.row < (hblock S inter pad d t).1.length) ∧
    (∀ (d : Nat) (cs : List HTree), ∀ gap, ∀ p ∈ hplaceL S inter pad d 0 gap cs,
      p.row < (joinGap gap (hblockL S inter pad d cs)).length) := by
  apply hblock.mutual_induct S inter pad
  · intro d p hp; simp [hplace_hole0] at hp; simp [hp, hblock_hole]
  · intro d n cs h p hp
    rw [hplace_leaf0 _ _ _ _ _ _ h] at hp
    simp at hp; simp [hp, hblock_leaf _ _ _ _ _ _ h]
  · intro d n cs h ih p hp
    rw [hplace_inner0 _ _ _ _ _ _ h] at hp
    rw [(hblock_framed S inter pad d n cs h).length]
    simp only [List.mem_cons] at hp
    rcases hp with rfl | hp
    · rw [← (hblock_framed S inter pad d n cs h).length]
      exact hblock_idx_lt _ _ _ _ _
    · exact ih _ p hp
  · intro d gap p hp; simp [hplaceL] at hp
  · intro d c cs ih1 ih2 gap p hp
    rw [hplaceL_cons0] at hp
    cases cs with
    | nil =>
      simp [hplaceL] at hp
      simpa [hblockL, joinGap] using ih1 p hp
    | cons c' r =>
      have hne : hblockL S inter pad d (c' :: r) ≠ [] := by simp [hblockL]
      rw [hblockL, joinGap_cons _ _ _ hne]
      simp only [List.mem_append, List.mem_map] at hp
      rcases hp with hp | ⟨q, hq, rfl⟩
      · have := ih1 p hp
        simp only [List.length_append]; omega
      · have := ih2 gap q hq
        simp only [List.length_append, Placed.shift_row]
        split <;> simp <;> omega

theorem hplace_row_lt (S : HStyle) (inter : Bool) (pad : Nat → Nat) (d : Nat) (t : HTree) :
    ∀ p ∈ hplace S inter pad d 0 t, p.row < (hblock S inter pad d t).1.length :=
  (hplace_row_lt_aux S inter pad).1 d t


/-! ### leaf order -/

/-- the leaves of a placement list occupy strictly increasing rows -/
def LeafInc (pl : List Placed) : Prop := ((pl.filter (·.isLeaf)).map (·.row)).Pairwise (· < ·)

theorem leafInc_append (A B : List Placed) :
    LeafInc (A ++ B) ↔ LeafInc A ∧ LeafInc B ∧
      ∀ x ∈ A, x.isLeaf = true → ∀ y ∈ B, y.isLeaf = true → x.row < y.row := by
  simp only [LeafInc, List.filter_append, List.map_append, List.pairwise_append, List.mem_map,
    List.mem_filter]
  constructor
  · rintro ⟨h1, h2, h3⟩
    exact ⟨h1, h2, fun x hx hxl y hy hyl => h3 _ ⟨x, ⟨hx, hxl⟩, rfl⟩ _ ⟨y, ⟨hy, hyl⟩, rfl⟩⟩
  · rintro ⟨h1, h2, h3⟩
    refine ⟨h1, h2, ?_⟩
    rintro _ ⟨x, ⟨hx, hxl⟩, rfl⟩ _ ⟨y, ⟨hy, hyl⟩, rfl⟩
    exact h3 x hx hxl y hy hyl

theorem leafInc_shift (k : Nat) (B : List Placed) : LeafInc (B.map (Placed.shift k)) ↔ LeafInc B := by
  simp [LeafInc, List.filter_map, List.pairwise_map, Function.comp_def]

theorem hplace_leafInc_aux (S : HStyle) (inter : Bool) (pad : Nat → Nat) :
    (∀ (d : Nat) (t : HTree), LeafInc (hplace S inter pad d 0 t)) ∧
    (∀ (d : Nat) (cs : List HTree), ∀ gap, LeafInc (hplaceL S inter pad d 0 gap cs)) := by
  apply hblock.mutual_induct S inter pad
  · intro d; simp [hplace_hole0, LeafInc]
  · intro d n cs h; simp [hplace_leaf0 _ _ _ _ _ _ h, LeafInc]
  · intro d n cs h ih
    rw [hplace_inner0 _ _ _ _ _ _ h]
    have := ih (gapInserted (hblockL S inter pad (d + 1) cs))
    simpa [LeafInc] using this
  · intro d gap; simp [hplaceL, LeafInc]
  · intro d c cs ih1 ih2 gap
    rw [hplaceL_cons0, leafInc_append, leafInc_shift]
    refine ⟨ih1, ih2 gap, ?_⟩
    intro x hx _ y hy _
    have := hplace_row_lt S inter pad d c x hx
    simp only [List.mem_map] at hy
    obtain ⟨q, _, rfl⟩ := hy
    simp only [Placed.shift_row]
    omega

/-- Tier 1 `h_leaf_order`: the leaves (pre-order) occupy strictly increasing rows -/
theorem h_leaf_order_block (S : HStyle) (inter : Bool) (pad : Nat → Nat) (d : Nat) (t : HTree) :
    (((hplace S inter pad d 0 t).filter (·.isLeaf)).map (·.row)).Pairwise (· < ·) :=
  (hplace_leafInc_aux S inter pad).1 d t

end Render
