import BigtreeModel.Query
import BigtreeModel.Iter
import BigtreeProofs.Lemmas.QueryAddr
import BigtreeProofs.Lemmas.QueryPre
/-! The located pre-order of `Query` (used by descendants / leaves / the search functions) is the
pre-order of `Iter` (property C04's model of `preorder_iter`) with no stop condition: same nodes,
same order, when the filter is a function of the node's identity. -/

namespace Query

theorem preAtL_ids_of (R : Tree) (filt : Addr → Bool) (f : Nat → Bool) (md : Nat) (a : Addr)
    (cs : List Tree)
    (ih : ∀ c ∈ cs, ∀ b : Addr, sub R b = some c →
      (preAt filt md b c).map (idAt R) =
        (Iter.preImpl ⟨f, fun _ => false, md⟩ (b.length + 1) c).map fun s => some s.id) :
    ∀ k, (∀ j c, cs[j]? = some c → sub R (a ++ [k + j]) = some c) →
      (preAtL filt md a k cs).map (idAt R) =
        (Iter.preImplL ⟨f, fun _ => false, md⟩ (a.length + 2) cs).map fun s => some s.id := by
  induction cs with
  | nil => intro k _; simp [preAtL, Iter.preImplL]
  | cons c cs ihc =>
    intro k hk
    rw [preAtL, Iter.preImplL, List.map_append, List.map_append]
    have h0 : sub R (a ++ [k]) = some c := by simpa using hk 0 c (by simp)
    rw [ih c (by simp) (a ++ [k]) h0]
    rw [ihc (fun c hc => ih c (by simp [hc])) (k + 1)
      (fun j c' hj => by
        have := hk (j + 1) c' (by simpa using hj)
        have e : k + (j + 1) = k + 1 + j := by omega
        rwa [e] at this)]
    simp

theorem preAt_ids (R : Tree) (filt : Addr → Bool) (f : Nat → Bool) (md : Nat)
    (hf : ∀ (b : Addr) (s : Tree), sub R b = some s → filt b = f s.id) :
    ∀ (t : Tree) (a : Addr), sub R a = some t →
      (preAt filt md a t).map (idAt R) =
        (Iter.preImpl ⟨f, fun _ => false, md⟩ (a.length + 1) t).map fun s => some s.id := by
  intro t
  induction t using Tree.ind with
  | h i n at' cs ih =>
    intro a ha
    rw [preAt, Iter.preImpl, depth_eq_length]
    have hadm : Iter.Cfg.admit ⟨f, fun _ => false, md⟩ (a.length + 1) (.node i n at' cs)
        = (md == 0 || !(decide (a.length + 1 > md))) := by
      simp [Iter.Cfg.admit]
    rw [hadm]
    by_cases hg : (md == 0 || !(decide (a.length + 1 > md))) = true
    · rw [if_pos hg, if_pos hg, List.map_append, List.map_append]
      have hkids : ∀ j c, cs[j]? = some c → sub R (a ++ [0 + j]) = some c := by
        intro j c hj
        rw [sub_snoc, ha]; simpa using hj
      rw [preAtL_ids_of R filt f md a cs ih 0 hkids]
      congr 1
      have := hf a _ ha
      simp only [Tree.id_node] at this
      simp only [Iter.emit, Tree.id_node, this]
      by_cases hfi : f i = true
      · simp [hfi, idAt, ha]
      · simp [hfi]
    · rw [if_neg hg, if_neg hg]; rfl

end Query
