import BigtreeProofs.Lemmas.BridgeEdit
/-!
# Bridge A→B, part 8: every accepted call of the structural API, read back, is its forest edit

All statements have the form: if `G` is the forest of `s` up to the order of its trees, then the
forest of the store after the accepted call is `Forest.apply G op` up to the order of its trees.
-/

namespace Forest
open Iter Tree

theorem sortChildren_perm {F G : Forest} (h : F.Perm G) (v : Nat) (ranks : List Nat) (rev : Bool) :
    (sortChildren F v ranks rev).Perm (sortChildren G v ranks rev) := by
  unfold sortChildren
  rw [sortChildrenL_eq, sortChildrenL_eq]
  exact h.map _

theorem delItem_perm {F G : Forest} (h : F.Perm G) (hn : (preL F).Nodup) (p : Nat) (nm : Str) :
    (delItem F p nm).Perm (delItem G p nm) := by
  unfold delItem
  rw [← subtreeL_perm h p hn]
  cases subtreeL p F with
  | none => exact h
  | some t =>
    simp only
    split
    · exact toRoot_perm h hn _
    · exact h

end Forest

namespace Store
open Tree

/-- what acceptance of the parent setter means (checks on) -/
theorem setParent_accepted {s : Store} (hw : WF s) (c : Cfg) (hc : c.assertions = true) (v : Nat)
    (np : Option Nat) (f : Fault) (h : (setParent c s v np f).2 = .ok) :
    (setParent c s v np f).1 = reparent s v np ∧ ∀ p, np = some p → p < s.n ∧ ¬ Reach s v p := by
  obtain ⟨he, _, hg, _⟩ := setParent_ok_eq c v np f h
  refine ⟨he, ?_⟩
  intro p hp
  subst hp
  have := hg hc
  exact ⟨by simpa [checkParentType] using this.1, (checkParentLoop_iff hw v p).1 this.2⟩

theorem forest_setParent_some {s : Store} (hw : WF s) (c : Cfg) (hc : c.assertions = true) (v p : Nat)
    (hv : v < s.n) (f : Fault) (h : (setParent c s v (some p) f).2 = .ok) (G : Forest)
    (hG : (forest s).Perm G) : (forest (setParent c s v (some p) f).1).Perm (Forest.move G v p) := by
  obtain ⟨he, hp⟩ := setParent_accepted hw c hc v (some p) f h
  obtain ⟨hpn, hnr⟩ := hp p rfl
  rw [he, forest_reparent_some hw v p hv hpn hnr]
  exact Forest.move_perm hG (nodup_preL_forest hw) v p

theorem forest_setParent_none {s : Store} (hw : WF s) (c : Cfg) (v : Nat)
    (hv : v < s.n) (f : Fault) (h : (setParent c s v none f).2 = .ok) (G : Forest)
    (hG : (forest s).Perm G) : (forest (setParent c s v none f).1).Perm (Forest.toRoot G v) := by
  obtain ⟨he, _⟩ := setParent_ok_eq c v none f h
  rw [he]
  exact (forest_reparent_none hw v hv).trans (Forest.toRoot_perm hG (nodup_preL_forest hw) v)

theorem forest_assignParentOf {s : Store} (hw : WF s) (c : Cfg) (hc : c.assertions = true) (ch p : Nat)
    (f : Fault) (h : (assignParentOf c s ch p f).2 = .ok) (G : Forest) (hG : (forest s).Perm G) :
    (forest (assignParentOf c s ch p f).1).Perm (Forest.move G ch p) := by
  unfold assignParentOf at h ⊢
  split
  · rename_i hv
    rw [if_pos hv] at h
    exact forest_setParent_some hw c hc ch p hv f h G hG
  · rename_i hv
    rw [if_neg hv] at h
    cases h

theorem forest_extend {c : Cfg} (hc : c.assertions = true) (p : Nat) : ∀ (cs : List Nat) (s : Store) (f : Fault)
    (k : Nat), WF s → (extend c s p cs f k).2 = .ok → ∀ G : Forest, (forest s).Perm G →
    (forest (extend c s p cs f k).1).Perm (cs.foldl (fun G c => Forest.move G c p) G) := by
  intro cs
  induction cs with
  | nil => intro s f k _ _ G hG; exact hG
  | cons x xs ih =>
    intro s f k hw h G hG
    unfold extend at h ⊢
    cases ho : (assignParentOf c s x p (if k = 0 then f else .none)).2 with
    | rej => simp only [ho] at h; cases h
    | ok =>
      simp only [ho] at h ⊢
      have hw1 := wf_assignParentOf hw c hc x p (if k = 0 then f else .none)
      exact ih _ _ _ hw1 h _ (forest_assignParentOf hw c hc x p _ ho G hG)

theorem assignParentOf_rej_id {s : Store} (hw : WF s) (c : Cfg) (ch p : Nat) (f : Fault)
    (h : (assignParentOf c s ch p f).2 = .rej) : (assignParentOf c s ch p f).1 = s := by
  unfold assignParentOf at h ⊢
  split
  · rename_i hv; rw [if_pos hv] at h; exact setParent_rej_id hw c ch (some p) f h
  · rfl

/-- `extend`, whatever its outcome: exactly the members before the first refused one have been moved
(all of them when the call is accepted) -/
theorem forest_extend_prefix {c : Cfg} (hc : c.assertions = true) (p : Nat) : ∀ (cs : List Nat) (s : Store)
    (f : Fault) (k : Nat), WF s → ∀ G : Forest, (forest s).Perm G →
    ∃ j, j ≤ cs.length ∧ ((extend c s p cs f k).2 = .ok → j = cs.length) ∧
      (forest (extend c s p cs f k).1).Perm ((cs.take j).foldl (fun G c => Forest.move G c p) G) := by
  intro cs
  induction cs with
  | nil => intro s f k _ G hG; exact ⟨0, Nat.le_refl _, fun _ => rfl, hG⟩
  | cons x xs ih =>
    intro s f k hw G hG
    unfold extend
    cases ho : (assignParentOf c s x p (if k = 0 then f else .none)).2 with
    | rej =>
      simp only [ho]
      refine ⟨0, Nat.zero_le _, fun h => ?_, ?_⟩
      · cases h
      · rw [assignParentOf_rej_id hw c x p _ ho]; exact hG
    | ok =>
      simp only [ho]
      have hw1 := wf_assignParentOf hw c hc x p (if k = 0 then f else .none)
      obtain ⟨j, hj, hok, hperm⟩ := ih _ (if k = 0 then .none else f) (k - 1) hw1 _
        (forest_assignParentOf hw c hc x p _ ho G hG)
      exact ⟨j + 1, by simp only [List.length_cons]; omega,
        fun h => by simp only [List.length_cons]; rw [hok h], by simpa using hperm⟩

theorem forest_setChildren {s : Store} (hw : WF s) (c : Cfg) (hc : c.assertions = true) (v : Nat) (hv : v < s.n)
    (cs : List Nat) (f : Fault) (h : (setChildren c s v cs f).2 = .ok) (G : Forest) (hG : (forest s).Perm G) :
    (forest (setChildren c s v cs f).1).Perm (Forest.setChildren G v cs) := by
  obtain ⟨he, _, hg, _⟩ := setChildren_ok_eq hw c v cs f (by simp [hc]) h
  obtain ⟨hn, hcs⟩ := (checkChildrenLoop_iff hw v cs).1 hg
  rw [he]
  exact forest_adopted hw v hv G hG cs hn hcs

theorem filter_name_treeOf (s : Store) (f : Nat) (nm : Str) (l : List Nat) :
    (l.map (treeOf s f)).filter (fun c => c.name == nm) = (l.filter fun c => s.name c == nm).map (treeOf s f) := by
  rw [List.filter_map]
  congr 1
  apply List.filter_congr
  intro x _
  simp

theorem forest_delItem {s : Store} (hw : WF s) (c : Cfg) (p : Nat) (hp : p < s.n) (nm : Str) (f : Fault)
    (h : (delItem c s p nm f).2 = .ok) (G : Forest) (hG : (forest s).Perm G) :
    (forest (delItem c s p nm f).1).Perm (Forest.delItem G p nm) := by
  refine List.Perm.trans ?_ (Forest.delItem_perm hG (nodup_preL_forest hw) p nm)
  unfold Forest.delItem
  rw [subtreeL_forest hw p hp]
  simp only
  rw [treeOf_children hw p s.n (Nat.le_refl _), filter_name_treeOf]
  unfold delItem findChildByName at h ⊢
  cases hfl : (s.children p).filter (fun c => s.name c == nm) with
  | nil => simp only [List.map_nil]; exact List.Perm.refl _
  | cons ch rest =>
    cases rest with
    | nil =>
      simp only [hfl] at h
      simp only [List.map_cons, List.map_nil, treeOf_id]
      have hmem : ch ∈ (s.children p).filter (fun c => s.name c == nm) := by rw [hfl]; simp
      have hch : ch < s.n := (hw.range ch p (hw.down p ch (List.mem_filter.1 hmem).1)).1
      exact forest_setParent_none hw c ch hch f h (forest s) (List.Perm.refl _)
    | cons ch2 rest2 => simp only [hfl] at h; cases h

theorem treeOf_congr {s t : Store} (h1 : t.children = s.children) (h2 : t.name = s.name) :
    ∀ f v, treeOf t f v = treeOf s f v := by
  intro f
  induction f with
  | zero => intro v; simp [treeOf, h2]
  | succ f ih =>
    intro v
    simp only [treeOf, h1, h2]
    congr 1
    apply List.map_congr_left
    intro c _
    exact ih c

theorem forest_setSep (s : Store) (v : Nat) (x : Str) : forest (setSep s v x) = forest s := by
  show (roots s).map (treeOf (setSep s v x) s.n) = (roots s).map (treeOf s s.n)
  apply List.map_congr_left
  intro r _
  exact treeOf_congr (s := s) (t := setSep s v x) rfl rfl _ _

/-- every accepted call of the structural API, read back, is its documented forest edit
(`G`: the forest of `s` in any order) -/
theorem forest_step {s : Store} (hw : WF s) (c : Cfg) (hc : c.assertions = true) (op : Op)
    (h : (step c s op).2 = .ok) (G : Forest) (hG : (forest s).Perm G) :
    (forest (step c s op).1).Perm (Forest.apply G op) := by
  cases op with
  | setParent v np f =>
    simp only [step] at h ⊢
    split
    · rename_i hv; rw [if_pos hv] at h
      cases np with
      | none => exact forest_setParent_none hw c v hv f h G hG
      | some p => exact forest_setParent_some hw c hc v p hv f h G hG
    · rename_i hv; rw [if_neg hv] at h; cases h
  | setChildren v cs f =>
    simp only [step] at h ⊢
    split
    · rename_i hv; rw [if_pos hv] at h; exact forest_setChildren hw c hc v hv cs f h G hG
    · rename_i hv; rw [if_neg hv] at h; cases h
  | setChildrenNonList v f => cases h
  | delChildren v =>
    simp only [step] at h ⊢
    split
    · rename_i hv
      rw [delChildren_eq hw]
      exact (forest_detached hw v hv).trans (Forest.delChildren_perm hG (nodup_preL_forest hw) v)
    · rename_i hv; rw [if_neg hv] at h; cases h
  | append p ch f =>
    simp only [step] at h ⊢
    split
    · rename_i hv; rw [if_pos hv] at h; exact forest_assignParentOf hw c hc ch p f h G hG
    · rename_i hv; rw [if_neg hv] at h; cases h
  | extend p cs f k =>
    simp only [step] at h ⊢
    split
    · rename_i hv; rw [if_pos hv] at h; exact forest_extend hc p cs s f k hw h G hG
    · rename_i hv; rw [if_neg hv] at h; cases h
  | rshift p ch f =>
    simp only [step] at h ⊢
    split
    · rename_i hv; rw [if_pos hv] at h; exact forest_assignParentOf hw c hc ch p f h G hG
    · rename_i hv; rw [if_neg hv] at h; cases h
  | lshift ch np f =>
    simp only [step] at h ⊢
    split
    · rename_i hv; rw [if_pos hv] at h
      cases np with
      | none => exact forest_setParent_none hw c ch hv f h G hG
      | some p => exact forest_setParent_some hw c hc ch p hv f h G hG
    · rename_i hv; rw [if_neg hv] at h; cases h
  | delItem p nm f =>
    simp only [step] at h ⊢
    split
    · rename_i hv; rw [if_pos hv] at h; exact forest_delItem hw c p hv nm f h G hG
    · rename_i hv; rw [if_neg hv] at h; cases h
  | sort v ranks rev =>
    simp only [step] at h ⊢
    split
    · rw [forest_sortChildren hw]
      exact Forest.sortChildren_perm hG v ranks rev
    · rename_i hv; rw [if_neg hv] at h; cases h
  | setSep v x =>
    simp only [step] at h ⊢
    split
    · rw [forest_setSep]; exact hG
    · exact hG

end Store
