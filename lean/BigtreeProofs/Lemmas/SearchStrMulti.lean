import BigtreeModel.Search
import BigtreeProofs.Lemmas.SearchFullPath
import BigtreeProofs.Lemmas.StorePathF
/-! C09 for separators of ANY length: the string functions of the search model (`Search.split` with its
`consHead` recursion, `List.intercalate`, `dropWhile`) are the string functions of the store model
(`Store.split` with an accumulator, a recursive `join`), so the results of `StorePathF` carry over; on top of
them `join sp (split sp x) = x` for every string `x` and every non-empty separator, and
`find_full_path_iff` / `find_full_path (path_name v) = v` for separators such as `"::"` or `"->"`. -/

namespace Search
open Query

/-! ### the two string models agree -/

theorem lstrip_eq_store (chars s : Str) : lstrip chars s = Store.lstrip chars s := rfl

theorem rstrip_eq_store (chars s : Str) : rstrip chars s = Store.rstrip chars s := rfl

theorem join_eq_store (sep : Str) : ∀ l : List Str, join sep l = Store.join sep l := by
  intro l
  induction l with
  | nil => rfl
  | cons w ws ih =>
    cases ws with
    | nil => simp [Store.join]
    | cons w' ws' => rw [join_cons_cons, ih]; simp [Store.join]

/-- put a prefix in front of the first piece -/
def prependHead (p : Str) : List Str → List Str
  | [] => [p]
  | w :: ws => (p ++ w) :: ws

theorem splitGo_ne_nil (sep : Str) : ∀ (s : Str) (k : Nat), splitGo sep k s ≠ [] := by
  intro s
  induction s with
  | nil => intro k; simp [splitGo_nil]
  | cons c cs ih =>
    intro k
    cases k with
    | succ k => simp only [splitGo]; exact ih k
    | zero =>
      simp only [splitGo]
      split
      · simp
      · cases h : splitGo sep 0 cs with
        | nil => exact absurd h (ih 0)
        | cons w ws => simp [consHead]

theorem splitAux_eq_splitGo (sep : Str) : ∀ (s : Str) (k : Nat) (acc : Str),
    Store.splitAux sep k s acc = prependHead acc.reverse (splitGo sep k s) := by
  intro s
  induction s with
  | nil => intro k acc; cases k <;> simp [Store.splitAux, splitGo, prependHead]
  | cons c cs ih =>
    intro k acc
    cases k with
    | succ k => simp only [Store.splitAux, splitGo]; exact ih k acc
    | zero =>
      simp only [Store.splitAux, splitGo]
      by_cases hp : sep.isPrefixOf (c :: cs) = true
      · simp only [hp, if_true]
        rw [ih]
        cases h : splitGo sep (sep.length - 1) cs with
        | nil => exact absurd h (splitGo_ne_nil sep cs _)
        | cons w ws => simp [prependHead]
      · simp only [hp, Bool.false_eq_true, if_false]
        rw [ih]
        cases h : splitGo sep 0 cs with
        | nil => exact absurd h (splitGo_ne_nil sep cs 0)
        | cons w ws => simp [prependHead, consHead]

theorem split_eq_store (sep s : Str) : split sep s = Store.split sep s := by
  unfold split Store.split
  rw [splitAux_eq_splitGo]
  cases h : splitGo sep 0 s with
  | nil => exact absurd h (splitGo_ne_nil sep s 0)
  | cons w ws => simp [prependHead]

end Search

/-! ### `join (split x) = x` on the store model -/

namespace Store

theorem splitAux_ne_nil (sp : Str) : ∀ (s : Str) (k : Nat) (acc : Str), splitAux sp k s acc ≠ [] := by
  intro s
  induction s with
  | nil => intro k acc; cases k <;> simp [splitAux]
  | cons c cs ih =>
    intro k acc
    cases k with
    | succ k => simp only [splitAux]; exact ih k acc
    | zero =>
      simp only [splitAux]
      split
      · simp
      · exact ih 0 _

theorem join_cons_of_ne_nil (sp a : Str) (l : List Str) (h : l ≠ []) :
    join sp (a :: l) = a ++ sp ++ join sp l := by
  cases l with
  | nil => exact absurd rfl h
  | cons b l' => rfl

theorem eq_append_of_isPrefixOf {sp s : Str} (h : sp.isPrefixOf s = true) : ∃ rest, s = sp ++ rest := by
  induction sp generalizing s with
  | nil => exact ⟨s, rfl⟩
  | cons a as ih =>
    cases s with
    | nil => simp [List.isPrefixOf] at h
    | cons c cs =>
      simp only [List.isPrefixOf, Bool.and_eq_true, beq_iff_eq] at h
      obtain ⟨rest, hr⟩ := ih h.2
      exact ⟨rest, by rw [h.1, hr]; rfl⟩

/-- joining the pieces gives the string back, whatever the string -/
theorem join_splitAux (sp : Str) (hsp : sp ≠ []) : ∀ (n : Nat) (s acc : Str), s.length ≤ n →
    join sp (splitAux sp 0 s acc) = acc.reverse ++ s := by
  intro n
  induction n with
  | zero =>
    intro s acc hl
    have : s = [] := List.eq_nil_of_length_eq_zero (Nat.le_zero.mp hl)
    subst this; simp [splitAux, join]
  | succ n ih =>
    intro s acc hl
    cases s with
    | nil => simp [splitAux, join]
    | cons c cs =>
      by_cases hp : sp.isPrefixOf (c :: cs) = true
      · obtain ⟨rest, hr⟩ := eq_append_of_isPrefixOf hp
        rw [hr, splitAux_sep sp hsp, join_cons_of_ne_nil _ _ _ (splitAux_ne_nil sp rest 0 [])]
        have hlen : rest.length ≤ n := by
          have h1 : (c :: cs).length = sp.length + rest.length := by rw [hr]; simp
          have h2 : 0 < sp.length := List.length_pos_iff.mpr hsp
          simp only [List.length_cons] at h1 hl
          omega
        rw [ih rest [] hlen]; simp
      · have : splitAux sp 0 (c :: cs) acc = splitAux sp 0 cs (c :: acc) := by
          simp [splitAux, hp]
        rw [this, ih cs (c :: acc) (by simpa using hl)]
        simp

theorem join_split (sp : Str) (hsp : sp ≠ []) (s : Str) : join sp (split sp s) = s := by
  have := join_splitAux sp hsp s.length s [] (Nat.le_refl _)
  simpa [split] using this

end Store

namespace Search
open Query

theorem split_ne_nil (sp x : Str) : split sp x ≠ [] := splitGo_ne_nil sp x 0

theorem join_split_multi (sp : Str) (hsp : sp ≠ []) (x : Str) : join sp (split sp x) = x := by
  rw [split_eq_store, join_eq_store, Store.join_split sp hsp]

theorem split_join_multi (sp : Str) (hsp : sp ≠ []) (ws : List Str) (hne : ws ≠ [])
    (h : ∀ w ∈ ws, Store.Free sp w) : split sp (join sp ws) = ws := by
  rw [split_eq_store, join_eq_store, Store.split_join_multi sp hsp ws hne h]

/-- `find_full_path` finds `v` iff the names from the root to `v`, joined by the separator, are the query
without its leading / trailing separator characters — for EVERY non-empty separator; the names share no
character with it -/
theorem findFullPath_iff_multi {R : Tree} (sp : Str) (hsp : sp ≠ []) (a : Addr) (q : Str)
    (hfree : ∀ (x : Addr) (t : Tree), sub R x = some t → Store.Free sp t.name) (hu : SibUnique R) (v : Addr) :
    findFullPath R sp a q = .ok (some v) ↔
      (sub R v).isSome ∧ join sp (pathNames R v) = lstrip sp (rstrip sp q) := by
  unfold findFullPath
  simp only [root_eq_nil]
  have hroot : (nameAt R []).getD [] = R.name := by simp [nameAt]
  rw [hroot]
  constructor
  · intro h
    by_cases hh : (split sp (lstrip sp (rstrip sp q))).head? != some R.name
    · simp [hh] at h
    · simp only [hh, Bool.false_eq_true, ↓reduceIte] at h
      rcases fullPathLoop_sound R _ [] v _ h rfl (by simp) with ⟨ks, _, hv, hpn⟩
      refine ⟨hv, ?_⟩
      have hsplit : split sp (lstrip sp (rstrip sp q)) = pathNames R v := by
        rw [hpn, pathNames_nil]
        have hne := split_ne_nil sp (lstrip sp (rstrip sp q))
        cases hsp' : split sp (lstrip sp (rstrip sp q)) with
        | nil => exact absurd hsp' hne
        | cons w ws =>
          rw [hsp'] at hh
          simp only [List.head?_cons, bne_iff_ne, ne_eq, Option.some.injEq, Decidable.not_not] at hh
          simp [hh]
      rw [← hsplit, join_split_multi sp hsp]
  · rintro ⟨hv, hj⟩
    have hnames : ∀ w ∈ pathNames R v, Store.Free sp w := by
      intro w hw
      rcases pathNames_mem hv hw with ⟨x, t, hx, rfl⟩
      exact hfree x t hx
    have hpn : pathNames R v = R.name :: stepNames R [] v := by
      have := pathNames_append R v []
      simpa [pathNames_nil] using this
    have hsplit : split sp (lstrip sp (rstrip sp q)) = pathNames R v := by
      rw [← hj]
      exact split_join_multi sp hsp _ (by rw [hpn]; simp) hnames
    rw [hsplit, hpn]
    simp only [List.head?_cons, bne_self_eq_false, Bool.false_eq_true, ↓reduceIte, List.drop_one,
      List.tail_cons]
    have := fullPathLoop_complete hu v [] (some []) (by simpa using hv) rfl
    simpa using this

/-- looking up a node's own `path_name` finds that node, for every non-empty separator (names non-empty and
sharing no character with it), also with further separator characters in front of / behind the path -/
theorem findFullPath_pathName_multi {R : Tree} (sp : Str) (hsp : sp ≠ []) (a v : Addr) (lead trail : Str)
    (hl : ∀ x ∈ lead, x ∈ sp) (ht : ∀ x ∈ trail, x ∈ sp)
    (hfree : ∀ (x : Addr) (t : Tree), sub R x = some t → Store.Free sp t.name)
    (hne : ∀ (x : Addr) (t : Tree), sub R x = some t → t.name ≠ [])
    (hu : SibUnique R) (hv : (sub R v).isSome) :
    findFullPath R sp a (lead ++ pathName R sp v ++ trail) = .ok (some v) := by
  rw [findFullPath_iff_multi sp hsp a _ hfree hu v]
  refine ⟨hv, ?_⟩
  have hn : ∀ x ∈ pathNames R v, x ≠ [] ∧ Store.Free sp x := by
    intro w hw
    rcases pathNames_mem hv hw with ⟨x, t, hx, rfl⟩
    exact ⟨hne x t hx, hfree x t hx⟩
  have hlead : ∀ x ∈ lead ++ sp, x ∈ sp := by
    intro x hx
    rcases List.mem_append.1 hx with h | h
    · exact hl x h
    · exact h
  have e : lead ++ pathName R sp v ++ trail = (lead ++ sp) ++ Store.join sp (pathNames R v) ++ trail := by
    rw [pathName_eq, join_eq_store]; simp [List.append_assoc]
  rw [e, lstrip_eq_store, rstrip_eq_store, join_eq_store,
    Store.strip_path_multi sp (pathNames R v) (pathNames_ne_nil R v) hn (lead ++ sp) trail hlead ht]

end Search
