import BigtreeModel.Render
/-! Helper lemmas for C18: `natStr` (Python's `str(int)` on naturals) is non-empty, all digits, injective. -/
namespace Render

theorem natStr_ne_nil (n : Nat) : natStr n ≠ [] := Nat.toDigits_ne_nil

theorem natStr_isDigit (n : Nat) : ∀ c ∈ natStr n, c.isDigit = true :=
  fun _ hc => Nat.isDigit_of_mem_toDigits (by decide) (by decide) hc

theorem digitChar_inj {a b : Nat} (ha : a < 10) (hb : b < 10) (h : a.digitChar = b.digitChar) : a = b := by
  have h1 := Nat.toNat_digitChar_of_lt_ten ha
  have h2 := Nat.toNat_digitChar_of_lt_ten hb
  rw [h] at h1
  omega

theorem natStr_injective {a b : Nat} (h : natStr a = natStr b) : a = b := by
  unfold natStr at h
  induction a using Nat.strongRecOn generalizing b with
  | _ a ih =>
    rw [Nat.toDigits_eq_if (by decide : 1 < 10), Nat.toDigits_eq_if (n := b) (by decide : 1 < 10)] at h
    by_cases ha : a < 10 <;> by_cases hb : b < 10
    · simp only [ha, hb, ↓reduceIte, List.cons.injEq, and_true] at h
      exact digitChar_inj ha hb h
    · simp only [ha, hb, ↓reduceIte] at h
      have := congrArg List.length h
      simp at this
    · simp only [ha, hb, ↓reduceIte] at h
      have := congrArg List.length h
      simp at this
    · simp only [ha, hb, ↓reduceIte] at h
      have h' := List.append_inj' h rfl
      have e1 := ih (a / 10) (by omega) h'.1
      have e2 := digitChar_inj (Nat.mod_lt _ (by decide)) (Nat.mod_lt _ (by decide)) (by simpa using h'.2)
      omega

end Render
