import BigtreeProofs.Lemmas.DagStoreEdges
/-!
# DagStore — strengthenings (Tier 2)

* the roll-back is also exact with the checks **off**, provided the argument is what the checks
  would have let through as far as the members go (distinct nodes);
* with the checks off and a repeated member the roll-back is *not* exact (Python's
  `list.remove` raises inside the `except` branch and the loop is abandoned): recorded as a
  `decide`-checked witness — this is outside C02's domain (user disabled the guard *and* passed
  an argument the guard exists to refuse), the model reproduces the code;
* list-exact form of an accepted assignment.
-/

namespace DagStore

theorem setParents_rej_id_off {s : DStore} (hs : DWF0 s) {v : Nat} {a : Arg} {f : Fault}
    (ha : ∀ l, a.items = some l → l.Nodup ∧ ∀ p ∈ l, p < s.n)
    (_h : (setParents false s v a f).2 = .rej) : (setParents false s v a f).1 = s := by
  cases hi : a.items with
  | none => cases f <;> simp [setParents, hi]
  | some l =>
    obtain ⟨hn, hl⟩ := ha l hi
    have hloop := parentsLoop_eq (s := s) (v := v) hn hl
    cases f with
    | none => simp [setParents, hi, hloop] at _h
    | pre => simp [setParents]
    | post =>
      simp only [setParents, hi, hloop]
      simpa using parentsRollback_eq hs hn hl

theorem setChildren_rej_id_off {s : DStore} (hs : DWF0 s) {v : Nat} {a : Arg} {f : Fault}
    (ha : ∀ l, a.items = some l → l.Nodup ∧ ∀ p ∈ l, p < s.n)
    (_h : (setChildren false s v a f).2 = .rej) : (setChildren false s v a f).1 = s := by
  cases hi : a.items with
  | none => cases f <;> simp [setChildren, hi]
  | some l =>
    obtain ⟨hn, hl⟩ := ha l hi
    have hloop := childrenLoop_eq (s := s) (v := v) hn hl
    cases f with
    | none => simp [setChildren, hi, hloop] at _h
    | pre => simp [setChildren]
    | post =>
      simp only [setChildren, hi, hloop]
      simpa using childrenRollback_eq hs hn hl

/-- checks off + repeated member + failing post-hook: the second `remove` of the repeated
member raises inside the handler and the edge to node 1 survives (same on the real code) -/
example :
    let s := (run true (init 4 fun _ => []) [.rshift 2 3 .none]).1
    (setParents false s 3 (.list [0, 0, 1]) .post).2 = .rej ∧
    (setParents false s 3 (.list [0, 0, 1]) .post).1.parents 3 = [2, 1] ∧ s.parents 3 = [2] := by
  decide

/-! ## list-exact form of an accepted assignment -/

theorem addEs_parentEdges_parents (s : DStore) (v : Nat) (A : List Nat) (x : Nat) :
    (addEs s (A.map fun p => (p, v))).parents x = if x = v then s.parents v ++ A else s.parents x := by
  induction A generalizing s with
  | nil => by_cases h : x = v <;> simp [addEs, h]
  | cons p A ih =>
    simp only [List.map_cons, addEs, ih, addE_parents]
    by_cases h : x = v <;> simp [h]

theorem addEs_childEdges_children (s : DStore) (v : Nat) (A : List Nat) (x : Nat) :
    (addEs s (A.map fun c => (v, c))).children x = if x = v then s.children v ++ A else s.children x := by
  induction A generalizing s with
  | nil => by_cases h : x = v <;> simp [addEs, h]
  | cons p A ih =>
    simp only [List.map_cons, addEs, ih, addE_children]
    by_cases h : x = v <;> simp [h]

/-- an accepted `v.parents = l` appends to `v`'s parents list exactly the members of `l` not
yet listed, in the order of `l`; no other parents list changes -/
theorem setParents_ok_parents {s : DStore} {v : Nat} {l : List Nat} {f : Fault}
    (h : (setParents true s v (.list l) f).2 = .ok) (x : Nat) :
    (setParents true s v (.list l) f).1.parents x =
      if x = v then s.parents v ++ l.filter (fun p => decide (p ∉ s.parents v)) else s.parents x := by
  obtain ⟨l', hl', _, _, he⟩ := setParents_ok h
  cases hl'
  rw [he, newParentEdges, addEs_parentEdges_parents]

/-- an accepted `v.children = l` appends to `v`'s children list exactly the members of `l` that
do not yet list `v`, in the order of `l`; no other children list changes -/
theorem setChildren_ok_children {s : DStore} {v : Nat} {a : Arg} {f : Fault}
    (h : (setChildren true s v a f).2 = .ok) (x : Nat) :
    (setChildren true s v a f).1.children x =
      if x = v then s.children v ++ (a.items.getD []).filter (fun c => decide (v ∉ s.parents c))
      else s.children x := by
  obtain ⟨l, ha, _, _, he⟩ := setChildren_ok h
  rw [he, newChildEdges, addEs_childEdges_children, ha]
  rfl

end DagStore
