import BigtreeProofs.Lemmas.BinStoreBasic
/-! Ancestors in the two-slot store: the fuel-bounded `anc` is the semantic ancestor relation on
well-formed stores (`anc_complete`), and re-parenting nodes under `v` keeps the store acyclic as
long as none of them is `v` or an ancestor of `v` (`acyc_reparent`). Core Lean only. -/

namespace BinStore
open Relation

/-- `a` is a proper ancestor of `v` -/
abbrev ProperAnc (s : Store) (a v : Nat) : Prop := TransGen (IsParent s) a v

theorem mem_anc_properAnc {s : Store} {a : Nat} : ∀ {f v : Nat}, a ∈ anc s f v → ProperAnc s a v
  | 0, _, h => by simp [anc] at h
  | f + 1, v, h => by
    unfold anc at h
    cases hp : s.parent v with
    | none => simp [hp] at h
    | some p =>
      simp only [hp, List.mem_cons] at h
      rcases h with rfl | h
      · exact TransGen.single hp
      · exact TransGen.tail (mem_anc_properAnc h) hp

theorem properAnc_mem_anc {s : Store} {a v : Nat} (h : ProperAnc s a v) : ∃ f, a ∈ anc s f v := by
  induction h with
  | single hp => exact ⟨1, by simp [anc, show s.parent _ = some a from hp]⟩
  | tail _ hp ih =>
    obtain ⟨f, hf⟩ := ih
    exact ⟨f + 1, by simp [anc, show s.parent _ = some _ from hp, hf]⟩

theorem properAnc_irrefl {s : Store} (hs : ∀ x, Acc (IsParent s) x) (a : Nat) : ¬ ProperAnc s a a := by
  have : ∀ x, Acc (TransGen (IsParent s)) x → ¬ TransGen (IsParent s) x x := by
    intro x hx
    induction hx with
    | intro x _ ih => exact fun h => ih x h h
  exact this a (hs a).transGen

theorem anc_nodup {s : Store} (hs : ∀ x, Acc (IsParent s) x) : ∀ f v, (anc s f v).Nodup
  | 0, _ => by simp [anc]
  | f + 1, v => by
    unfold anc
    cases hp : s.parent v with
    | none => simp
    | some p =>
      simp only [List.nodup_cons]
      exact ⟨fun hm => properAnc_irrefl hs p (mem_anc_properAnc hm), anc_nodup hs f p⟩

theorem anc_lt {s : Store} (hr : ∀ c p, s.parent c = some p → c < s.n ∧ p < s.n) :
    ∀ f v a, a ∈ anc s f v → a < s.n
  | 0, _, _, h => by simp [anc] at h
  | f + 1, v, a, h => by
    unfold anc at h
    cases hp : s.parent v with
    | none => simp [hp] at h
    | some p =>
      simp only [hp, List.mem_cons] at h
      rcases h with rfl | h
      · exact (hr v a hp).2
      · exact anc_lt hr f p a h

theorem anc_length_le {s : Store} (hs : ∀ x, Acc (IsParent s) x)
    (hr : ∀ c p, s.parent c = some p → c < s.n ∧ p < s.n) (f v : Nat) : (anc s f v).length ≤ s.n := by
  have := List.Nodup.length_le_of_subset (anc_nodup hs f v) (l₂ := List.range s.n)
    (fun a ha => List.mem_range.2 (anc_lt hr f v a ha))
  simpa using this

theorem anc_mono {s : Store} {a : Nat} : ∀ {f g v : Nat}, f ≤ g → a ∈ anc s f v → a ∈ anc s g v
  | 0, _, _, _, h => by simp [anc] at h
  | f + 1, 0, _, hfg, _ => by omega
  | f + 1, g + 1, v, hfg, h => by
    unfold anc at h ⊢
    cases hp : s.parent v with
    | none => simp [hp] at h
    | some p =>
      simp only [hp, List.mem_cons] at h ⊢
      rcases h with rfl | h
      · exact Or.inl rfl
      · exact Or.inr (anc_mono (Nat.le_of_succ_le_succ hfg) h)

/-- a chain that ended within `f` steps is found with fuel `f` -/
theorem anc_fuel_enough {s : Store} : ∀ {f g v : Nat}, f ≤ g → (anc s g v).length ≤ f →
    anc s f v = anc s g v
  | 0, g, v, _, h => by
    have : anc s g v = [] := List.length_eq_zero_iff.1 (Nat.le_zero.1 h)
    simp [this, anc]
  | f + 1, 0, _, hfg, _ => by omega
  | f + 1, g + 1, v, hfg, h => by
    unfold anc at h ⊢
    cases hp : s.parent v with
    | none => rfl
    | some p =>
      simp only [hp, List.length_cons] at h ⊢
      rw [anc_fuel_enough (Nat.le_of_succ_le_succ hfg) (Nat.le_of_succ_le_succ h)]

/-- **fuel lemma**: on a well-formed store the executable loop check (`n` steps of `.parent`) sees
every proper ancestor -/
theorem anc_complete {s : Store} (hs : ∀ x, Acc (IsParent s) x)
    (hr : ∀ c p, s.parent c = some p → c < s.n ∧ p < s.n) {a v : Nat} :
    a ∈ anc s s.n v ↔ ProperAnc s a v := by
  constructor
  · exact mem_anc_properAnc
  · intro h
    obtain ⟨f, hf⟩ := properAnc_mem_anc h
    by_cases hfn : f ≤ s.n
    · exact anc_mono hfn hf
    · have hle : s.n ≤ f := by omega
      rw [anc_fuel_enough hle (anc_length_le hs hr f v)]
      exact hf

/-- Re-parenting: every node of the set `C` gets parent `v` (or none), the others keep their
parent or lose it. If no node of `C` is `v` or a proper ancestor of `v`, walking parents still
terminates everywhere. -/
theorem acyc_reparent {s t : Store} (hs : ∀ x, Acc (IsParent s) x) (v : Nat) (C : Nat → Prop)
    (h1 : ∀ x p, t.parent x = some p → (C x ∧ p = v) ∨ (¬ C x ∧ s.parent x = some p))
    (h3 : ∀ c, C c → c ≠ v ∧ ¬ ProperAnc s c v) : ∀ x, Acc (IsParent t) x := by
  have key : ∀ y, (∀ c, C c → c ≠ y ∧ ¬ ProperAnc s c y) → Acc (IsParent t) y := by
    intro y
    induction hs y with
    | intro y _ ih =>
      intro hy
      constructor
      intro q hq
      rcases h1 y q hq with ⟨hc, _⟩ | ⟨_, hsq⟩
      · exact absurd rfl (hy y hc).1
      · refine ih q hsq (fun c hc => ⟨?_, ?_⟩)
        · intro e; subst e; exact (hy c hc).2 (TransGen.single hsq)
        · intro hr; exact (hy c hc).2 (TransGen.tail hr hsq)
  have hC : ∀ c, C c → Acc (IsParent t) c := by
    intro c hc
    constructor
    intro q hq
    rcases h1 c q hq with ⟨_, rfl⟩ | ⟨hnc, _⟩
    · exact key q h3
    · exact absurd hc hnc
  intro x
  induction hs x with
  | intro x _ ih =>
    by_cases hx : C x
    · exact hC x hx
    · constructor
      intro q hq
      rcases h1 x q hq with ⟨hc, _⟩ | ⟨_, hsq⟩
      · exact absurd hc hx
      · exact ih q hsq

end BinStore
