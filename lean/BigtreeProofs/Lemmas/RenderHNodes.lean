import BigtreeModel.Render
/-! Helper for C18 (horizontal): `hplace` lists exactly the nodes of the tree in pre-order, with their
depths and leaf flags (empty slots of a BinaryNode count as blank leaves, as `_hprint_branch` renders them). -/
namespace Render

mutual
/-- the obvious pre-order listing: (depth, name, is a leaf of the rendering) -/
def hnodes (d : Nat) : HTree → List (Nat × Str × Bool)
  | .hole => [(d, [' ', ' '], true)]
  | .node n cs => if !(cs.any HTree.isReal) then [(d, n, true)] else (d, n, false) :: hnodesL (d + 1) cs
def hnodesL (d : Nat) : List HTree → List (Nat × Str × Bool)
  | [] => []
  | c :: cs => hnodes d c ++ hnodesL d cs
end

def Placed.key (p : Placed) : Nat × Str × Bool := (p.depth, p.name, p.isLeaf)

mutual
theorem hplace_nodes (S : HStyle) (inter : Bool) (pad : Nat → Nat) (d off : Nat) (t : HTree) :
    (hplace S inter pad d off t).map Placed.key = hnodes d t := by
  match t with
  | .hole => rfl
  | .node n cs =>
    by_cases h : (!cs.any HTree.isReal) = true
    · simp [hplace, hnodes, h, Placed.key]
    · simp only [hplace, hnodes, h, Bool.false_eq_true, ↓reduceIte, List.map_cons, Placed.key]
      rw [← hplaceL_nodes S inter pad (d + 1) off _ cs]
theorem hplaceL_nodes (S : HStyle) (inter : Bool) (pad : Nat → Nat) (d off : Nat) (gap : Bool) (cs : List HTree) :
    (hplaceL S inter pad d off gap cs).map Placed.key = hnodesL d cs := by
  match cs with
  | [] => rfl
  | c :: cs =>
    simp only [hplaceL, hnodesL, List.map_append]
    rw [hplace_nodes S inter pad d off c, hplaceL_nodes S inter pad d _ gap cs]
end

end Render
