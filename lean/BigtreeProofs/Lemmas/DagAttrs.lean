import BigtreeModel.Dag
/-! Association-list facts for the attribute part of the DAG exports / constructors:
`attrSet` (one `dict.update` key), `attrUpdate`, `sortByKey`, `nonNull`, `Row.align`, `columnsOf`. -/

namespace Dag
open List

def keysOf (a : Attrs) : List Str := a.map (·.1)

theorem lookup_cons' (k : Str) (kv : Str × Val) (rest : Attrs) :
    List.lookup k (kv :: rest) = if k = kv.1 then some kv.2 else List.lookup k rest := by
  obtain ⟨k0, v0⟩ := kv
  by_cases h : k = k0
  · subst h; simp [List.lookup]
  · have : (k == k0) = false := by simpa using h
    simp [List.lookup, this, h]

theorem lookup_eq_none_of_not_mem {a : Attrs} {k : Str} (h : k ∉ keysOf a) : a.lookup k = none := by
  induction a with
  | nil => rfl
  | cons kv rest ih =>
    simp only [keysOf, map_cons, mem_cons, not_or] at h
    rw [lookup_cons', if_neg h.1]
    exact ih h.2

theorem mem_of_lookup_eq_some {a : Attrs} {k : Str} {v : Val} (h : a.lookup k = some v) :
    (k, v) ∈ a := by
  induction a with
  | nil => cases h
  | cons kv rest ih =>
    rw [lookup_cons'] at h
    split at h
    · rename_i hk
      simp only [Option.some.injEq] at h
      subst hk; subst h
      simp
    · exact mem_cons_of_mem _ (ih h)

theorem lookup_eq_some_iff {a : Attrs} (hnd : (keysOf a).Nodup) {k : Str} {v : Val} :
    a.lookup k = some v ↔ (k, v) ∈ a := by
  refine ⟨mem_of_lookup_eq_some, ?_⟩
  induction a with
  | nil => intro h; cases h
  | cons kv rest ih =>
    intro h
    simp only [keysOf, map_cons, nodup_cons] at hnd
    rw [lookup_cons']
    rcases mem_cons.1 h with h | h
    · subst h; simp
    · have : k ≠ kv.1 := by
        rintro rfl
        exact hnd.1 (mem_map.2 ⟨(kv.1, v), h, rfl⟩)
      rw [if_neg this]
      exact ih hnd.2 h

/-- two association lists with distinct keys and the same entries look up the same -/
theorem lookup_congr {a b : Attrs} (ha : (keysOf a).Nodup) (hb : (keysOf b).Nodup)
    (h : ∀ x, x ∈ a ↔ x ∈ b) (k : Str) : a.lookup k = b.lookup k := by
  apply Option.ext
  intro v
  rw [lookup_eq_some_iff ha, lookup_eq_some_iff hb, h]

/-! ### `attrSet`, `attrUpdate` -/

theorem lookup_attrSet (a : Attrs) (k : Str) (v : Val) (k' : Str) :
    (attrSet a k v).lookup k' = if k' = k then some v else a.lookup k' := by
  induction a with
  | nil => simp [attrSet, lookup_cons', List.lookup]
  | cons kv rest ih =>
    obtain ⟨k0, v0⟩ := kv
    simp only [attrSet]
    by_cases h0 : k0 = k
    · subst h0
      simp only [if_true, lookup_cons']
      by_cases hk : k' = k0 <;> simp [hk]
    · simp only [h0, if_false, lookup_cons', ih]
      by_cases hk : k' = k
      · subst hk
        have : ¬ k' = k0 := fun h => h0 h.symm
        simp [this]
      · simp [hk]

theorem keysOf_attrSet (a : Attrs) (k : Str) (v : Val) :
    keysOf (attrSet a k v) = if k ∈ keysOf a then keysOf a else keysOf a ++ [k] := by
  induction a with
  | nil => simp [attrSet, keysOf]
  | cons kv rest ih =>
    obtain ⟨k0, v0⟩ := kv
    simp only [attrSet]
    by_cases h0 : k0 = k
    · subst h0; simp [keysOf]
    · have h0' : ¬ k = k0 := fun h => h0 h.symm
      simp only [h0, if_false]
      show k0 :: keysOf (attrSet rest k v) = _
      rw [ih]
      by_cases hm : k ∈ keysOf rest
      · have hm' : k ∈ keysOf ((k0, v0) :: rest) := mem_cons_of_mem _ hm
        rw [if_pos hm, if_pos hm']; rfl
      · have hm' : k ∉ keysOf ((k0, v0) :: rest) := by
          intro hc
          rcases mem_cons.1 hc with hc | hc
          · exact h0' hc
          · exact hm hc
        rw [if_neg hm, if_neg hm']; rfl

theorem nodup_keysOf_attrSet {a : Attrs} (h : (keysOf a).Nodup) (k : Str) (v : Val) :
    (keysOf (attrSet a k v)).Nodup := by
  rw [keysOf_attrSet]
  split
  · exact h
  · rename_i hk
    rw [nodup_append]
    exact ⟨h, by simp, by intro x hx y hy hxy; simp at hy; subst hy; subst hxy; exact hk hx⟩

theorem nodup_keysOf_attrUpdate {a : Attrs} (h : (keysOf a).Nodup) (b : Attrs) :
    (keysOf (attrUpdate a b)).Nodup := by
  unfold attrUpdate
  induction b generalizing a with
  | nil => exact h
  | cons kv b ih => exact ih (nodup_keysOf_attrSet h kv.1 kv.2)

/-- last value written for `k` by a sequence of updates -/
def lastVal : Attrs → Str → Option Val
  | [], _ => none
  | kv :: b, k => (lastVal b k).or (if k = kv.1 then some kv.2 else none)

theorem lookup_attrUpdate (a b : Attrs) (k : Str) :
    (attrUpdate a b).lookup k = (lastVal b k).or (a.lookup k) := by
  unfold attrUpdate
  induction b generalizing a with
  | nil => simp [lastVal]
  | cons kv b ih =>
    rw [foldl_cons, ih, lookup_attrSet]
    simp only [lastVal]
    cases lastVal b k with
    | some v => simp
    | none => by_cases hk : k = kv.1 <;> simp [hk]

theorem lastVal_eq_lookup {b : Attrs} (h : (keysOf b).Nodup) (k : Str) :
    lastVal b k = b.lookup k := by
  induction b with
  | nil => rfl
  | cons kv b ih =>
    simp only [keysOf, map_cons, nodup_cons] at h
    rw [lastVal, lookup_cons', ih h.2]
    by_cases hk : k = kv.1
    · subst hk
      rw [lookup_eq_none_of_not_mem h.1]; simp
    · simp [hk]

/-- updating by a list with distinct keys: its values win, the old ones stay otherwise -/
theorem lookup_attrUpdate_nodup (a : Attrs) {b : Attrs} (h : (keysOf b).Nodup) (k : Str) :
    (attrUpdate a b).lookup k = (b.lookup k).or (a.lookup k) := by
  rw [lookup_attrUpdate, lastVal_eq_lookup h]

theorem lookup_attrUpdate_self {a : Attrs} (h : (keysOf a).Nodup) (k : Str) :
    (attrUpdate a a).lookup k = a.lookup k := by
  rw [lookup_attrUpdate_nodup a h]
  cases a.lookup k <;> simp

/-! ### `nonNull` -/

theorem nodup_keysOf_nonNull {a : Attrs} (h : (keysOf a).Nodup) : (keysOf (nonNull a)).Nodup := by
  unfold nonNull keysOf
  exact (h.sublist ((filter_sublist (l := a)).map _))

theorem lookup_nonNull {a : Attrs} (h : (keysOf a).Nodup) (k : Str) :
    (nonNull a).lookup k = match a.lookup k with
      | some .null => none
      | o => o := by
  apply Option.ext
  intro v
  rw [lookup_eq_some_iff (nodup_keysOf_nonNull h)]
  simp only [nonNull, mem_filter, bne_iff_ne, ne_eq]
  constructor
  · rintro ⟨hm, hv⟩
    rw [(lookup_eq_some_iff h).2 hm]
    cases v <;> simp_all
  · intro hv
    cases hl : a.lookup k with
    | none => simp [hl] at hv
    | some w =>
      rw [hl] at hv
      cases w <;> simp at hv <;> subst hv <;> exact ⟨(lookup_eq_some_iff h).1 hl, by simp⟩

end Dag
