import BigtreeModel.Plot
import BigtreeProofs.Lemmas.Plot
/-!
# Levels of the annotated tree and of the final drawing

* `plv c t n` — the relative final `x` of the nodes `n` levels below the root of the annotated
  subtree `t` (in tree order) when the cumulative `mod + shift` of the ancestors is `c`;
  `flv` the same for a sibling group;
* `FT.lvl` — the nodes `n` levels below a node of the final tree; `FT.level` (filter on the depth
  list) is `FT.lvl`, and the `x` of `lvl (fin … t)` are `plv c t` plus a constant;
* `Sorted m` — consecutive (hence all) entries are `m` apart.

Only core Lean is used.
-/

namespace Plot

/-! ## levels of the final tree -/

mutual
/-- the nodes `n` levels below the root of `t`, left to right -/
def FT.lvl : FT → Nat → List FT
  | .node x y cs, 0 => [.node x y cs]
  | .node _ _ cs, n + 1 => FT.lvlL cs n
def FT.lvlL : List FT → Nat → List FT
  | [], _ => []
  | c :: cs, n => FT.lvl c n ++ FT.lvlL cs n
end

theorem FT.lvlL_eq_flatMap (n : Nat) : ∀ cs : List FT, FT.lvlL cs n = cs.flatMap (fun c => c.lvl n)
  | [] => rfl
  | c :: cs => by simp [FT.lvlL, FT.lvlL_eq_flatMap n cs]

theorem withDepthL_eq_flatMap (d : Nat) : ∀ cs : List FT, FT.withDepthL d cs = cs.flatMap (FT.withDepth d)
  | [] => rfl
  | c :: cs => by simp [FT.withDepthL, withDepthL_eq_flatMap d cs]

theorem flatMap_congr' {α β : Type} {f g : α → List β} : ∀ {l : List α}, (∀ a ∈ l, f a = g a) →
    l.flatMap f = l.flatMap g
  | [], _ => rfl
  | a :: l, h => by
    simp only [List.flatMap_cons]
    rw [h a (by simp), flatMap_congr' (l := l) (fun b hb => h b (by simp [hb]))]

/-- the depth filter on the pre-order depth list is the level function -/
theorem level_from : ∀ (t : FT) (k d : Nat),
    ((t.withDepth k).filter (fun p => p.1 == d)).map (·.2) = if d < k then [] else t.lvl (d - k) := by
  apply FT.ind
  intro x y cs ih k d
  have hkids : (((cs.flatMap (FT.withDepth (k + 1))).filter (fun p => p.1 == d)).map (·.2))
      = if d < k + 1 then [] else FT.lvlL cs (d - (k + 1)) := by
    rw [FT.lvlL_eq_flatMap, List.filter_flatMap, List.map_flatMap]
    split
    · next h =>
      apply List.flatMap_eq_nil_iff.mpr
      intro c hc
      rw [ih c hc]; simp [h]
    · next h =>
      apply flatMap_congr'
      intro c hc
      rw [ih c hc]; simp [h]
  rw [FT.withDepth, withDepthL_eq_flatMap, List.filter_cons]
  by_cases h1 : d < k
  · have h0 : (k == d) = false := by simp; omega
    have h3 : d < k + 1 := by omega
    simp only [h0, h1, if_true, Bool.false_eq_true, if_false]
    rw [hkids]; simp [h3]
  · by_cases h2 : d = k
    · subst h2
      have h3 : d < d + 1 := by omega
      rw [if_pos (by simp), if_neg (Nat.lt_irrefl d), Nat.sub_self, List.map_cons, hkids, if_pos h3]
      rfl
    · have h0 : (k == d) = false := by simp; omega
      simp only [h0, h1, Bool.false_eq_true, if_false]
      rw [hkids]
      have h3 : ¬ d < k + 1 := by omega
      simp only [h3, if_false]
      obtain ⟨e, he⟩ : ∃ e, d - k = e + 1 := ⟨d - k - 1, by omega⟩
      rw [he, FT.lvl]
      congr 1; omega

theorem level_eq_lvl (t : FT) (d : Nat) : t.level (d + 1) = t.lvl d := by
  have := level_from t 1 (d + 1)
  simpa [FT.level] using this

theorem level_zero (t : FT) : t.level 0 = [] := by
  have := level_from t 1 0
  simpa [FT.level] using this

/-! ## levels of the annotated tree -/

mutual
/-- relative final `x` of the nodes `n` levels below the root of `t`; `c` = cumulative `mod + shift`
    of the ancestors -/
def plv : Rat → PT → Nat → List Rat
  | c, .node x _ s _, 0 => [x + s + c]
  | c, .node _ m s cs, n + 1 => flv (c + m + s) cs n
def flv : Rat → List PT → Nat → List Rat
  | _, [], _ => []
  | c, k :: ks, n => plv c k n ++ flv c ks n
end

theorem flv_eq_flatMap (c : Rat) (n : Nat) : ∀ ks : List PT, flv c ks n = ks.flatMap (fun k => plv c k n)
  | [] => by simp [flv]
  | k :: ks => by simp [flv, flv_eq_flatMap c n ks]

theorem mem_flv {c : Rat} {n : Nat} {ks : List PT} {q : Rat} :
    q ∈ flv c ks n ↔ ∃ k ∈ ks, q ∈ plv c k n := by
  simp [flv_eq_flatMap]

theorem flv_append (c : Rat) (n : Nat) (as bs : List PT) :
    flv c (as ++ bs) n = flv c as n ++ flv c bs n := by
  simp [flv_eq_flatMap]

theorem flv_zero (c : Rat) : ∀ ks : List PT, flv c ks 0 = ks.map (fun k => k.x + k.shift + c)
  | [] => by simp [flv]
  | .node x m s cs :: ks => by simp [flv, plv, flv_zero c ks]

theorem plv_succ (c : Rat) (t : PT) (n : Nat) :
    plv c t (n + 1) = flv (c + t.mod + t.shift) t.children n := by
  cases t; simp [plv]

theorem plv_zero (c : Rat) (t : PT) : plv c t 0 = [t.x + t.shift + c] := by
  cases t; simp [plv]

/-- translation of the whole subtree -/
theorem plv_add (e : Rat) : ∀ (t : PT) (c : Rat) (n : Nat), plv (c + e) t n = (plv c t n).map (· + e) := by
  apply PT.ind
  intro x m s cs ih c n
  cases n with
  | zero => simp [plv]; grind
  | succ n =>
    simp only [plv, flv_eq_flatMap, List.map_flatMap]
    apply flatMap_congr'
    intro k hk
    have : c + e + m + s = (c + m + s) + e := by grind
    rw [this, ih k hk]

theorem flv_add (e c : Rat) (n : Nat) (ks : List PT) : flv (c + e) ks n = (flv c ks n).map (· + e) := by
  simp only [flv_eq_flatMap, List.map_flatMap]
  exact flatMap_congr' (fun k _ => plv_add e k c n)

/-- `addShift` translates the whole subtree -/
theorem plv_addShift (e c : Rat) (t : PT) (n : Nat) : plv c (t.addShift e) n = (plv c t n).map (· + e) := by
  cases t with
  | node x m s cs =>
    cases n with
    | zero => simp [PT.addShift, plv]; grind
    | succ n =>
      simp only [PT.addShift, plv]
      have : c + m + (s + e) = (c + m + s) + e := by grind
      rw [this, flv_add]

/-- the `x` of a level of the final tree -/
theorem fin_lvl (P : Params) (H : Nat) (a : Rat) : ∀ (t : PT) (d : Nat) (c : Rat) (n : Nat),
    ((fin P H a d c t).lvl n).map FT.x = (plv c t n).map (· + P.xoff + a) := by
  apply PT.ind
  intro x m s cs ih d c n
  rw [fin_node]
  cases n with
  | zero => simp [FT.lvl, plv]
  | succ n =>
    simp only [FT.lvl, plv, FT.lvlL_eq_flatMap, flv_eq_flatMap, List.map_flatMap, List.flatMap_map]
    apply flatMap_congr'
    intro k hk
    exact ih k hk _ _ n

/-! ## sorted lists of positions -/

/-- any two entries are at least `m` apart, in list order -/
def Sorted (m : Rat) (l : List Rat) : Prop := l.Pairwise (fun a b => a + m ≤ b)

theorem sorted_map_add {m e : Rat} {l : List Rat} (h : Sorted m l) : Sorted m (l.map (· + e)) := by
  unfold Sorted at *
  rw [List.pairwise_map]
  exact h.imp (by intro a b hab; grind)

theorem sorted_le_last {m : Rat} (hm : 0 ≤ m) {l : List Rat} (h : Sorted m l) {z : Rat}
    (hz : l.getLast? = some z) : ∀ p ∈ l, p ≤ z := by
  intro p hp
  obtain ⟨l', rfl⟩ : ∃ l', l = l' ++ [z] := by
    rcases List.eq_nil_or_concat l with h0 | ⟨l', b, h0⟩
    · subst h0; simp at hz
    · subst h0; refine ⟨l', ?_⟩; simp at hz; subst hz; simp
  unfold Sorted at h
  rw [List.pairwise_append] at h
  rcases List.mem_append.mp hp with hp | hp
  · have := h.2.2 p hp z (by simp); grind
  · simp at hp; subst hp; exact Rat.le_refl

theorem sorted_head_le {m : Rat} (hm : 0 ≤ m) {l : List Rat} (h : Sorted m l) {z : Rat}
    (hz : l.head? = some z) : ∀ p ∈ l, z ≤ p := by
  intro p hp
  cases l with
  | nil => simp at hz
  | cons a l =>
    simp at hz; subst hz
    unfold Sorted at h
    rw [List.pairwise_cons] at h
    rcases List.mem_cons.mp hp with rfl | hp
    · exact Rat.le_refl
    · have := h.1 p hp; grind

/-- a sibling group is sorted on level `n` when every member is and members are pairwise apart -/
theorem flv_sorted {m c : Rat} {n : Nat} : ∀ (ks : List PT), (∀ k ∈ ks, Sorted m (plv c k n)) →
    ks.Pairwise (fun a b => ∀ p ∈ plv c a n, ∀ q ∈ plv c b n, p + m ≤ q) → Sorted m (flv c ks n)
  | [], _, _ => by simp [flv, Sorted]
  | k :: ks, h1, h2 => by
    rw [List.pairwise_cons] at h2
    simp only [flv]
    unfold Sorted
    rw [List.pairwise_append]
    refine ⟨h1 k (by simp), flv_sorted ks (fun k hk => h1 k (by simp [hk])) h2.2, ?_⟩
    intro p hp q hq
    obtain ⟨k', hk', hq'⟩ := mem_flv.mp hq
    exact h2.1 k' hk' p hp q hq'

end Plot
