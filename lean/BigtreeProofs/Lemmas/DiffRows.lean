import BigtreeModel.Helper
import BigtreeModel.HelperDiff
import BigtreeProofs.Lemmas.DiffDefs
import BigtreeProofs.Lemmas.DiffWalk
import BigtreeProofs.Lemmas.DiffStr
import BigtreeProofs.Lemmas.DiffMark
import BigtreeProofs.Lemmas.DiffJoin
/-!
# C15: attribute differences, the deque of changed paths and the kept rows, at component level
-/
namespace Helper

/-! ## marked paths -/

theorem mem_markFull (st : List Str → Status) (p : List Str) (m : Str) (h : m ∈ markFull st p) :
    ∃ n ∈ p, ∃ s : Status, m = n ++ s.suffix := by
  unfold markFull at h
  simp only [List.mem_map, List.mem_range] at h
  obtain ⟨i, hi, rfl⟩ := h
  refine ⟨p[i], List.getElem_mem hi, st (p.take (i + 1)), ?_⟩
  simp [List.getD_eq_getElem?_getD, hi]

theorem markFull_good (c : Char) (st : List Str → Status) (p : List Str)
    (hc : c ∉ [' ', '(', ')', '-', '+', '~']) (hp : ∀ n ∈ p, n ≠ [] ∧ c ∉ n) :
    ∀ m ∈ markFull st p, m ≠ [] ∧ c ∉ m := by
  intro m hm
  obtain ⟨n, hn, s, rfl⟩ := mem_markFull st p m hm
  exact ⟨marked_ne_nil n s (hp n hn).1, not_mem_marked c n s hc (hp n hn).2⟩

theorem indC_both_iff (t1 t2 : Tree) (p : List Str) (hp : p ∈ allPaths t1 t2) :
    indC t1 t2 p = .both ↔ p ∈ compPaths t1 ∧ p ∈ compPaths t2 := by
  rw [mem_allPaths] at hp
  rw [← attrsAt_isSome_iff, ← attrsAt_isSome_iff] at hp ⊢
  unfold indC
  cases h1 : attrsAt t1 p <;> cases h2 : attrsAt t2 p <;> simp_all

theorem stPM_same_of_both (t1 t2 : Tree) (p : List Str) (h1 : p ∈ compPaths t1) (h2 : p ∈ compPaths t2) :
    stPM t1 t2 p = .same := by
  rw [← attrsAt_isSome_iff] at h1 h2
  obtain ⟨a1, h1⟩ := h1
  obtain ⟨a2, h2⟩ := h2
  simp [stPM, h1, h2]

/-- a path present in both trees carries no structural mark -/
theorem markPM_both (t1 t2 : Tree) (p : List Str) (hp : p ∈ allPaths t1 t2) (hb : indC t1 t2 p = .both) :
    markFull (stPM t1 t2) p = p := by
  obtain ⟨h1, h2⟩ := (indC_both_iff t1 t2 p hp).mp hb
  apply markFull_same
  intro k hk hk0
  have hne : p.take k ≠ [] := by
    cases p with
    | nil => simp at hk; omega
    | cons a p => cases k with
      | zero => omega
      | succ k => simp
  rw [compPaths_eq] at h1 h2
  apply stPM_same_of_both
  · rw [compPaths_eq]; exact keys_prefix_closed t1 p _ h1 (List.take_prefix _ _) hne
  · rw [compPaths_eq]; exact keys_prefix_closed t2 p _ h2 (List.take_prefix _ _) hne

theorem markPM_eq_both (c : Char) (t1 t2 : Tree) (h : DiffOK c t1 t2) (p q : List Str)
    (hp : p ∈ allPaths t1 t2) (hq : q ∈ allPaths t1 t2) (hb : indC t1 t2 q = .both)
    (he : markFull (stPM t1 t2) p = q) : p = q := by
  have hqq := markPM_both t1 t2 q hq hb
  rw [← hqq] at he
  exact markFull_inj _ p q (fun n hn => ((allPaths_good c t1 t2 h p hp).2 n hn).2.2)
    (fun n hn => ((allPaths_good c t1 t2 h q hq).2 n hn).2.2) he

/-! ## attribute differences -/

def diffAt (t1 t2 : Tree) (k : Str) (p : List Str) : Bool :=
  valAt t1 k p != valAt t2 k p && indC t1 t2 p == .both

def pairOf (t1 t2 : Tree) (k : Str) (p : List Str) : Upd := .pair k (valAt t1 k p) (valAt t2 k p)

/-- the value-pair updates, at component level -/
def pairUpdsC (attrList : List Str) (t1 t2 : Tree) : List (List Str × Upd) :=
  attrList.flatMap fun k => ((allPaths t1 t2).filter (diffAt t1 t2 k)).map fun p => (p, pairOf t1 t2 k p)

theorem cond_simpl (x y : Val) : ((x != .null || y != .null) && x != y) = (x != y) := by
  by_cases h : x = y
  · simp [h]
  · by_cases hx : x = .null
    · subst hx
      have : y ≠ .null := fun e => h e.symm
      simp [h, this]
    · simp [h, hx]

theorem valsAt_getD (attrList : List Str) (t : Tree) (p : List Str) (k : Str) (j : Nat)
    (h : attrList[j]? = some k) : (valsAt attrList t p).getD j .null = valAt t k p := by
  simp [valsAt, List.getD_eq_getElem?_getD, h]

theorem zipIdx_flatMap_congr {α β} (l : List α) (g : α × Nat → List β) (g' : α → List β)
    (h : ∀ k j, l[j]? = some k → g (k, j) = g' k) : l.zipIdx.flatMap g = l.flatMap g' := by
  have h1 : l.zipIdx.flatMap g = l.zipIdx.flatMap (g' ∘ Prod.fst) := by
    simp only [List.flatMap_def]
    congr 1
    apply List.map_congr_left
    intro x hx
    obtain ⟨k, j⟩ := x
    exact h k j (List.mem_zipIdx_iff_getElem?.mp hx)
  rw [h1]
  have := List.flatMap_map Prod.fst g' l.zipIdx
  rw [List.zipIdx_map_fst] at this
  rw [this]; rfl

theorem attrDiffRows_eq (c : Char) (attrList : List Str) (t1 t2 : Tree) (k : Str) (j : Nat)
    (hj : attrList[j]? = some k) (l : List (List Str)) :
    attrDiffRows j (l.map (mrow c attrList t1 t2)) = (l.filter (diffAt t1 t2 k)).map (mrow c attrList t1 t2) := by
  unfold attrDiffRows
  rw [List.filter_map]
  congr 1
  apply List.filter_congr
  intro p _
  simp only [Function.comp_apply, mrow, valsAt_getD _ _ _ _ _ hj, cond_simpl, diffAt]

theorem attrDiffs_flatten (c : Char) (attrList : List Str) (t1 t2 : Tree) (_h : DiffOK c t1 t2) :
    (attrDiffs attrList ((allPaths t1 t2).map (mrow c attrList t1 t2))).flatten =
      (pairUpdsC attrList t1 t2).map fun pu => (pathName [c] pu.1, pu.2) := by
  unfold attrDiffs pairUpdsC
  rw [List.flatten_filter_not_isEmpty, ← List.flatMap_def, List.map_flatMap]
  apply zipIdx_flatMap_congr
  intro k j hj
  simp only []
  rw [attrDiffRows_eq c attrList t1 t2 k j hj, List.map_map, List.map_map]
  apply List.map_congr_left
  intro p hp
  rw [List.mem_filter] at hp
  have hb : indC t1 t2 p = .both := by
    have := hp.2; simp only [diffAt, Bool.and_eq_true, beq_iff_eq] at this; exact this.2
  simp only [Function.comp_apply, mrow, valsAt_getD _ _ _ _ _ hj, pairOf, markPM_both t1 t2 p hp.1 hb]

/-- the changed paths (component level), in deque order -/
def dequeC (attrList : List Str) (t1 t2 : Tree) : List (List Str) := (pairUpdsC attrList t1 t2).map (·.1)

theorem mem_dequeC (attrList : List Str) (t1 t2 : Tree) (q : List Str) :
    q ∈ dequeC attrList t1 t2 ↔ q ∈ allPaths t1 t2 ∧ ∃ k ∈ attrList, diffAt t1 t2 k q = true := by
  unfold dequeC pairUpdsC
  simp only [List.mem_map, List.mem_flatMap, List.mem_filter]
  constructor
  · rintro ⟨pu, ⟨k, hk, p, ⟨hp, hd⟩, rfl⟩, rfl⟩
    exact ⟨hp, k, hk, hd⟩
  · rintro ⟨hq, k, hk, hd⟩
    exact ⟨(q, pairOf t1 t2 k q), ⟨k, hk, q, ⟨hq, hd⟩, rfl⟩, rfl⟩

theorem deque_eq (c : Char) (attrList : List Str) (t1 t2 : Tree) (h : DiffOK c t1 t2) :
    ((attrDiffs attrList ((allPaths t1 t2).map (mrow c attrList t1 t2))).flatMap fun d => d.map (·.1)) =
      (dequeC attrList t1 t2).map (pathName [c]) := by
  rw [List.flatMap_def, ← List.map_flatten, attrDiffs_flatten c attrList t1 t2 h]
  simp [dequeC, List.map_map, Function.comp_def]

theorem dequeC_both (attrList : List Str) (t1 t2 : Tree) (q : List Str) (hq : q ∈ dequeC attrList t1 t2) :
    q ∈ allPaths t1 t2 ∧ indC t1 t2 q = .both := by
  rw [mem_dequeC] at hq
  obtain ⟨hq, k, _, hd⟩ := hq
  simp only [diffAt, Bool.and_eq_true, beq_iff_eq] at hd
  exact ⟨hq, hd.2⟩

theorem deque_contains (c : Char) (attrList : List Str) (t1 t2 : Tree) (h : DiffOK c t1 t2)
    (p : List Str) (hp : p ∈ allPaths t1 t2) :
    ((dequeC attrList t1 t2).map (pathName [c])).contains (pathName [c] (markFull (stPM t1 t2) p)) =
      (dequeC attrList t1 t2).contains p := by
  rw [Bool.eq_iff_iff, List.contains_iff_mem, List.contains_iff_mem, List.mem_map]
  have gp := allPaths_good c t1 t2 h p hp
  constructor
  · rintro ⟨q, hq, he⟩
    obtain ⟨hqa, hqb⟩ := dequeC_both attrList t1 t2 q hq
    have gq := allPaths_good c t1 t2 h q hqa
    have gm := markFull_good c (stPM t1 t2) p h.sepOK (fun n hn => ⟨(gp.2 n hn).1, (gp.2 n hn).2.1⟩)
    have : q = markFull (stPM t1 t2) p :=
      pathName_inj c _ _ gq.1 (by rw [Ne, markFull_eq_nil]; exact gp.1)
        (fun x hx => (gq.2 x hx).2.1) (fun x hx => (gm x hx).2) he
    have := markPM_eq_both c t1 t2 h p q hp hqa hqb this.symm
    rw [this]; exact hq
  · intro hq
    obtain ⟨hqa, hqb⟩ := dequeC_both attrList t1 t2 p hq
    exact ⟨p, hq, by rw [markPM_both t1 t2 p hqa hqb]⟩

/-! ## status -/

theorem status_cases (attrList : List Str) (t1 t2 : Tree) (p : List Str) (hp : p ∈ allPaths t1 t2) :
    (status attrList t1 t2 p != .same) =
      (indC t1 t2 p != .both || (dequeC attrList t1 t2).contains p) := by
  rw [Bool.eq_iff_iff]
  simp only [bne_iff_ne, ne_eq, Bool.or_eq_true, List.contains_iff_mem, mem_dequeC]
  have hp' := hp
  rw [mem_allPaths, ← attrsAt_isSome_iff, ← attrsAt_isSome_iff] at hp'
  unfold status indC diffAt valAt indC
  cases h1 : attrsAt t1 p with
  | none =>
    cases h2 : attrsAt t2 p with
    | none => simp [h1, h2] at hp'
    | some a2 => simp
  | some a1 =>
    cases h2 : attrsAt t2 p with
    | none => simp
    | some a2 =>
      simp only [hp, true_and, not_true_eq_false, false_or,
        Bool.and_eq_true, bne_iff_ne, ne_eq, beq_self_eq_true, and_true]
      rw [← changedAttrs_ne_nil_iff]
      by_cases hc : changedAttrs attrList a1 a2 = [] <;> simp [hc]

theorem status_eq_stPM (attrList : List Str) (t1 t2 : Tree) (p : List Str)
    (h : status attrList t1 t2 p ≠ .changed) : stPM t1 t2 p = status attrList t1 t2 p := by
  unfold status stPM at *
  cases h1 : attrsAt t1 p <;> cases h2 : attrsAt t2 p <;> simp_all

theorem status_changed_iff (attrList : List Str) (t1 t2 : Tree) (p : List Str) (hp : p ∈ allPaths t1 t2) :
    status attrList t1 t2 p = .changed ↔ p ∈ dequeC attrList t1 t2 := by
  have hs := status_cases attrList t1 t2 p hp
  constructor
  · intro h
    have hb : indC t1 t2 p = .both := by
      unfold status at h; unfold indC
      cases h1 : attrsAt t1 p <;> cases h2 : attrsAt t2 p <;> simp_all
    simp only [h, hb, bne_self_eq_false, Bool.false_or] at hs
    exact List.contains_iff_mem.mp (hs ▸ by decide)
  · intro h
    have hb := (dequeC_both attrList t1 t2 p h).2
    have : status attrList t1 t2 p ≠ .same := by
      have : (status attrList t1 t2 p != .same) = true := by
        rw [hs]; simp [h]
      simpa using this
    unfold status at this ⊢; unfold indC at hb
    cases h1 : attrsAt t1 p <;> cases h2 : attrsAt t2 p <;> simp_all

/-! ## the kept rows -/

/-- component-level kept rows (before closing under prefixes) -/
def keptC (attrList : List Str) (t1 t2 : Tree) (onlyDiff : Bool) : List (List Str) :=
  if onlyDiff then (allPaths t1 t2).filter fun p => status attrList t1 t2 p != .same else allPaths t1 t2

theorem keptRows_eq (c : Char) (attrList : List Str) (t1 t2 : Tree) (h : DiffOK c t1 t2) (onlyDiff : Bool) :
    keptRows onlyDiff ((dequeC attrList t1 t2).map (pathName [c])) ((allPaths t1 t2).map (mrow c attrList t1 t2)) =
      (keptC attrList t1 t2 onlyDiff).map (mrow c attrList t1 t2) := by
  unfold keptRows keptC
  cases onlyDiff with
  | false => simp
  | true =>
    simp only [if_true]
    rw [List.filter_map]
    congr 1
    apply List.filter_congr
    intro p hp
    simp only [Function.comp_apply, mrow]
    rw [deque_contains c attrList t1 t2 h p hp, status_cases attrList t1 t2 p hp]

/-! ## carried values -/

theorem carried_eq (attrList : List Str) (t1 t2 : Tree) (p : List Str) :
    carried attrList t1 t2 p =
      (attrList.filter fun k => diffAt t1 t2 k p).flatMap fun k => [(k, valAt t1 k p), (k, valAt t2 k p)] := by
  unfold carried diffAt valAt indC
  cases h1 : attrsAt t1 p <;> cases h2 : attrsAt t2 p <;> simp
  rename_i a1 a2
  unfold changedAttrs
  induction attrList with
  | nil => simp
  | cons k l ih =>
    simp only [List.filterMap_cons, List.filter_cons]
    by_cases hk : getAttr a1 k = getAttr a2 k
    · simp [hk, ih]
    · simp [hk, ih]

end Helper
