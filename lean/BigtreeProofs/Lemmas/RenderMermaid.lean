import BigtreeModel.Render
import BigtreeProofs.Lemmas.RenderNat
import BigtreeProofs.Lemmas.RenderLinks
/-! Helper lemmas for C18 (mermaid): refs are injective in the index path; flow lines = links. -/
namespace Render

theorem append_cons_inj_left {α} {c : α} : ∀ {a b x y : List α}, c ∉ a → c ∉ b → a ++ c :: x = b ++ c :: y → a = b ∧ x = y
  | [], [], _, _, _, _, h => by simpa using h
  | [], b0 :: b, _, _, _, hb, h => by
    simp at h hb
    exact absurd h.1 hb.1
  | a0 :: a, [], _, _, ha, _, h => by
    simp at h ha
    exact absurd h.1.symm ha.1
  | a0 :: a, b0 :: b, x, y, ha, hb, h => by
    simp at h ha hb
    have := append_cons_inj_left (a := a) (b := b) ha.2 hb.2 h.2
    exact ⟨by rw [h.1, this.1], this.2⟩

/-- split at the last occurrence of `c` -/
theorem append_cons_inj_right {α} {c : α} {a b x y : List α} (hx : c ∉ x) (hy : c ∉ y)
    (h : a ++ c :: x = b ++ c :: y) : a = b ∧ x = y := by
  have h' := congrArg List.reverse h
  simp only [List.reverse_append, List.reverse_cons, List.append_assoc, List.singleton_append] at h'
  have := append_cons_inj_left (by simpa using hx) (by simpa using hy) h'
  exact ⟨List.reverse_inj.mp this.2, List.reverse_inj.mp this.1⟩

theorem dash_not_mem_natStr (k : Nat) : '-' ∉ natStr k := by
  intro h
  have := natStr_isDigit k _ h
  simp [Char.isDigit] at this

theorem dash_mem_ref_cons (k : Nat) (r : List Nat) : '-' ∈ mermaidRef (k :: r) := by
  simp [mermaidRef]

/-- `mermaid_name` determines the index path -/
theorem mermaidRef_injective : ∀ {a b : List Nat}, mermaidRef a = mermaidRef b → a = b
  | [], [], _ => rfl
  | [], k :: r, h => by
    have := dash_mem_ref_cons k r
    rw [← h] at this
    simp [mermaidRef] at this
  | k :: r, [], h => by
    have := dash_mem_ref_cons k r
    rw [h] at this
    simp [mermaidRef] at this
  | k :: r, k' :: r', h => by
    simp only [mermaidRef] at h
    have := append_cons_inj_right (dash_not_mem_natStr k) (dash_not_mem_natStr k') h
    rw [mermaidRef_injective this.1, natStr_injective this.2]

/-! ### addresses -/
mutual
def addrsT (addr : List Nat) : Tree → List (List Nat)
  | .node _ _ _ cs => addr :: addrsL addr 0 cs
def addrsL (addr : List Nat) (k : Nat) : List Tree → List (List Nat)
  | [] => []
  | c :: cs => addrsT (k :: addr) c ++ addrsL addr (k + 1) cs
end

mutual
theorem ids_eq_addrsT (addr : List Nat) (t : Tree) : mermaidIdsT addr t = (addrsT addr t).map mermaidRef := by
  match t with
  | .node i n a cs => simp [mermaidIdsT, addrsT, ids_eq_addrsL addr 0 cs]
theorem ids_eq_addrsL (addr : List Nat) (k : Nat) (cs : List Tree) :
    mermaidIdsL addr k cs = (addrsL addr k cs).map mermaidRef := by
  match cs with
  | [] => rfl
  | c :: cs => simp [mermaidIdsL, addrsL, ids_eq_addrsT (k :: addr) c, ids_eq_addrsL addr (k + 1) cs]
end

mutual
theorem addrsT_suffix (addr : List Nat) (t : Tree) : ∀ a ∈ addrsT addr t, addr <:+ a := by
  match t with
  | .node i n a cs =>
    intro x hx
    simp only [addrsT, List.mem_cons] at hx
    rcases hx with rfl | hx
    · exact List.suffix_refl _
    · obtain ⟨j, _, hj⟩ := addrsL_suffix addr 0 cs x hx
      exact (List.suffix_cons j addr).trans hj
theorem addrsL_suffix (addr : List Nat) (k : Nat) (cs : List Tree) :
    ∀ a ∈ addrsL addr k cs, ∃ j, k ≤ j ∧ (j :: addr) <:+ a := by
  match cs with
  | [] => intro a h; simp [addrsL] at h
  | c :: cs =>
    intro x hx
    simp only [addrsL, List.mem_append] at hx
    rcases hx with hx | hx
    · exact ⟨k, Nat.le_refl _, addrsT_suffix (k :: addr) c x hx⟩
    · obtain ⟨j, hj, hs⟩ := addrsL_suffix addr (k + 1) cs x hx
      exact ⟨j, by omega, hs⟩
end

theorem suffix_same_length {α} {a b x : List α} (ha : a <:+ x) (hb : b <:+ x) (hl : a.length = b.length) : a = b := by
  obtain ⟨p, rfl⟩ := ha
  obtain ⟨q, hq⟩ := hb
  have hlen : p.length = q.length := by
    have := congrArg List.length hq
    simp at this; omega
  exact ((List.append_inj hq hlen.symm).2).symm

mutual
theorem addrsT_nodup (addr : List Nat) (t : Tree) : (addrsT addr t).Nodup := by
  match t with
  | .node i n a cs =>
    simp only [addrsT, List.nodup_cons]
    refine ⟨?_, addrsL_nodup addr 0 cs⟩
    intro h
    obtain ⟨j, _, hj⟩ := addrsL_suffix addr 0 cs addr h
    have := hj.length_le
    simp at this
    omega
theorem addrsL_nodup (addr : List Nat) (k : Nat) (cs : List Tree) : (addrsL addr k cs).Nodup := by
  match cs with
  | [] => simp [addrsL]
  | c :: cs =>
    simp only [addrsL]
    rw [List.nodup_append]
    refine ⟨addrsT_nodup (k :: addr) c, addrsL_nodup addr (k + 1) cs, ?_⟩
    intro x hx y hy hxy
    subst hxy
    have h1 := addrsT_suffix (k :: addr) c x hx
    obtain ⟨j, hj, h2⟩ := addrsL_suffix addr (k + 1) cs x hy
    have := suffix_same_length h1 h2 (by simp)
    simp at this
    omega
end

theorem mermaidIds_nodup (t : Tree) : (mermaidIds t).Nodup := by
  unfold mermaidIds
  rw [ids_eq_addrsT]
  exact List.Pairwise.map mermaidRef (fun a b hab h => hab (mermaidRef_injective h)) (addrsT_nodup [] t)



/-! ### flow lines = links -/
mutual
/-- the same tree with every name replaced by the node's ref -/
def refTreeT (addr : List Nat) : Tree → Tree
  | .node i _ a cs => .node i (mermaidRef addr) a (refTreeL addr 0 cs)
def refTreeL (addr : List Nat) (k : Nat) : List Tree → List Tree
  | [] => []
  | c :: cs => refTreeT (k :: addr) c :: refTreeL addr (k + 1) cs
end

mutual
theorem refTreeT_names (addr : List Nat) (t : Tree) : namesT (refTreeT addr t) = mermaidIdsT addr t := by
  match t with
  | .node i n a cs => simp [refTreeT, namesT, mermaidIdsT, refTreeL_names addr 0 cs]
theorem refTreeL_names (addr : List Nat) (k : Nat) (cs : List Tree) :
    namesL (refTreeL addr k cs) = mermaidIdsL addr k cs := by
  match cs with
  | [] => rfl
  | c :: cs => simp [refTreeL, namesL, mermaidIdsL, refTreeT_names (k :: addr) c, refTreeL_names addr (k + 1) cs]
end

mutual
theorem refTreeT_size (addr : List Nat) (t : Tree) : (refTreeT addr t).size = t.size := by
  match t with
  | .node i n a cs => simp [refTreeT, Tree.size, refTreeL_size addr 0 cs]
theorem refTreeL_size (addr : List Nat) (k : Nat) (cs : List Tree) :
    Tree.size.sizeL (refTreeL addr k cs) = Tree.size.sizeL cs := by
  match cs with
  | [] => rfl
  | c :: cs => simp [refTreeL, Tree.size.sizeL, refTreeT_size (k :: addr) c, refTreeL_size addr (k + 1) cs]
end

mutual
theorem refTreeT_links (addr : List Nat) (i : Nat) (t : Tree) : linksT i (refTreeT addr t) = linksT i t := by
  match t with
  | .node j n a cs => simp [refTreeT, linksT, refTreeL_links addr 0 i (i + 1) cs]
theorem refTreeL_links (addr : List Nat) (k p i : Nat) (cs : List Tree) :
    linksL p i (refTreeL addr k cs) = linksL p i cs := by
  match cs with
  | [] => rfl
  | c :: cs =>
    simp [refTreeL, linksL, refTreeT_links (k :: addr) i c, refTreeT_size, refTreeL_links addr (k + 1) p (i + c.size) cs]
end

def Flow.ends (f : Flow) : Str × Str := (f.fromRef, f.toRef)

mutual
theorem flowsT_ends (paddr : List Nat) (r : Bool) (pn : Str) (k : Nat) (t : Tree) :
    (flowsT paddr r pn k t).map Flow.ends =
      (mermaidRef paddr, mermaidRef (k :: paddr)) :: edgesOfT (refTreeT (k :: paddr) t) := by
  match t with
  | .node i n a cs =>
    simp only [flowsT, List.map_cons, Flow.ends, refTreeT, edgesOfT]
    rw [← flowsL_ends (k :: paddr) false n 0 cs]
theorem flowsL_ends (paddr : List Nat) (r : Bool) (pn : Str) (k : Nat) (cs : List Tree) :
    (flowsL paddr r pn k cs).map Flow.ends = edgesOfL (mermaidRef paddr) (refTreeL paddr k cs) := by
  match cs with
  | [] => rfl
  | c :: cs =>
    simp only [flowsL, List.map_append, refTreeL, edgesOfL]
    rw [flowsT_ends paddr r pn k c, flowsL_ends paddr r pn (k + 1) cs]
    match c with
    | .node i n a ds => simp [refTreeT]
end

mutual
theorem flowsT_labels (paddr : List Nat) (r : Bool) (pn : Str) (k : Nat) (t : Tree) :
    (flowsT paddr r pn k t).map (·.toLabel) = namesT t := by
  match t with
  | .node i n a cs => simp [flowsT, namesT, flowsL_labels (k :: paddr) false n 0 cs]
theorem flowsL_labels (paddr : List Nat) (r : Bool) (pn : Str) (k : Nat) (cs : List Tree) :
    (flowsL paddr r pn k cs).map (·.toLabel) = namesL cs := by
  match cs with
  | [] => rfl
  | c :: cs => simp [flowsL, namesL, flowsT_labels paddr r pn k c, flowsL_labels paddr r pn (k + 1) cs]
end

/-- the from-label is present exactly on the lines that leave the root, and is the root's name -/
def FromOk (root : Str) (f : Flow) : Prop :=
  f.fromLabel = if f.fromRef = ['0'] then some root else none

theorem ref_ne_root (k : Nat) (r : List Nat) : mermaidRef (k :: r) ≠ ['0'] := by
  intro h
  have := dash_mem_ref_cons k r
  rw [h] at this
  simp at this

mutual
theorem flowsT_from (root : Str) (paddr : List Nat) (r : Bool) (pn : Str) (k : Nat) (t : Tree)
    (h : (r = true → paddr = [] ∧ pn = root) ∧ (r = false → paddr ≠ [])) :
    ∀ f ∈ flowsT paddr r pn k t, FromOk root f := by
  match t with
  | .node i n a cs =>
    intro f hf
    simp only [flowsT, List.mem_cons] at hf
    rcases hf with rfl | hf
    · cases r with
      | true => obtain ⟨rfl, rfl⟩ := h.1 rfl; simp [FromOk, mermaidRef]
      | false =>
        have := h.2 rfl
        match paddr, this with
        | j :: q, _ => simp [FromOk, ref_ne_root]
    · exact flowsL_from root (k :: paddr) false n 0 cs ⟨by simp, by simp⟩ f hf
theorem flowsL_from (root : Str) (paddr : List Nat) (r : Bool) (pn : Str) (k : Nat) (cs : List Tree)
    (h : (r = true → paddr = [] ∧ pn = root) ∧ (r = false → paddr ≠ [])) :
    ∀ f ∈ flowsL paddr r pn k cs, FromOk root f := by
  match cs with
  | [] => intro f hf; simp [flowsL] at hf
  | c :: cs =>
    intro f hf
    simp only [flowsL, List.mem_append] at hf
    rcases hf with hf | hf
    · exact flowsT_from root paddr r pn k c h f hf
    · exact flowsL_from root paddr r pn (k + 1) cs h f hf
end

mutual
theorem mermaidIdsT_length (addr : List Nat) (t : Tree) : (mermaidIdsT addr t).length = (namesT t).length := by
  match t with
  | .node i n a cs => simp [mermaidIdsT, namesT, mermaidIdsL_length addr 0 cs]
theorem mermaidIdsL_length (addr : List Nat) (k : Nat) (cs : List Tree) :
    (mermaidIdsL addr k cs).length = (namesL cs).length := by
  match cs with
  | [] => rfl
  | c :: cs => simp [mermaidIdsL, namesL, mermaidIdsT_length (k :: addr) c, mermaidIdsL_length addr (k + 1) cs]
end

def Flow.target (f : Flow) : Str × Str := (f.toRef, f.toLabel)

mutual
theorem flowsT_targets (paddr : List Nat) (r : Bool) (pn : Str) (k : Nat) (t : Tree) :
    (flowsT paddr r pn k t).map Flow.target = (mermaidIdsT (k :: paddr) t).zip (namesT t) := by
  match t with
  | .node i n a cs =>
    simp only [flowsT, List.map_cons, Flow.target, mermaidIdsT, namesT, List.zip_cons_cons]
    rw [← flowsL_targets (k :: paddr) false n 0 cs]
theorem flowsL_targets (paddr : List Nat) (r : Bool) (pn : Str) (k : Nat) (cs : List Tree) :
    (flowsL paddr r pn k cs).map Flow.target = (mermaidIdsL paddr k cs).zip (namesL cs) := by
  match cs with
  | [] => rfl
  | c :: cs =>
    simp only [flowsL, List.map_append, mermaidIdsL, namesL]
    rw [flowsT_targets paddr r pn k c, flowsL_targets paddr r pn (k + 1) cs,
      List.zip_append (mermaidIdsT_length (k :: paddr) c)]
end

end Render
