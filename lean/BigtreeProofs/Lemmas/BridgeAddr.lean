import BigtreeModel.Query
import BigtreeProofs.Lemmas.QueryPre
import BigtreeProofs.Lemmas.BridgeIds
/-!
# Bridge A→B, part 3: located nodes (addresses, model B's way of naming a node of a tree) of the
read-back tree versus links of the store
-/

namespace Store
open Query

/-- what sits at an address of a read-back tree is the read-back of the node found there; it is a
descendant of the start node, as many levels down as the address is long -/
theorem sub_treeOf {s : Store} (hw : WF s) (f : Nat) (hf : s.n ≤ f) : ∀ (a : Addr) (r : Nat) (u : Tree),
    sub (treeOf s f r) a = some u →
      u = treeOf s f u.id ∧ Reach s r u.id ∧
      (anc s s.n u.id).length = (anc s s.n r).length + a.length := by
  intro a
  induction a with
  | nil =>
    intro r u h
    simp only [sub_nil, Option.some.injEq] at h
    subst h
    simp [Reach.refl]
  | cons k ks ih =>
    intro r u h
    rw [sub_cons, treeOf_children hw r f hf] at h
    cases hk : ((s.children r).map (treeOf s f))[k]? with
    | none => simp [hk] at h
    | some c' =>
      simp only [hk, Option.bind_some] at h
      rw [List.getElem?_map] at hk
      cases hc : (s.children r)[k]? with
      | none => simp [hc] at hk
      | some c =>
        simp only [hc, Option.map_some, Option.some.injEq] at hk
        subst hk
        have hmem : c ∈ s.children r := List.mem_of_getElem? hc
        obtain ⟨h1, h2, h3⟩ := ih c u h
        refine ⟨h1, (Reach.of_parent (hw.down r c hmem)).trans h2, ?_⟩
        rw [h3, (anc_length_child hw hmem).1, List.length_cons]
        omega

/-- the child list of the store is the identity list of the children in the tree, in order -/
theorem children_at {s : Store} (hw : WF s) (f : Nat) (hf : s.n ≤ f) (r : Nat) (a : Addr) (u : Tree)
    (h : sub (treeOf s f r) a = some u) : u.children.map Tree.id = s.children u.id := by
  obtain ⟨h1, _, _⟩ := sub_treeOf hw f hf a r u h
  rw [h1, treeOf_children hw _ f hf, List.map_map, treeOf_id]
  simp [Function.comp_def]

/-- the parent link of the store is the parent in the tree -/
theorem parent_at {s : Store} (hw : WF s) (f : Nat) (hf : s.n ≤ f) (r : Nat) (a : Addr) (k : Nat) (u : Tree)
    (h : sub (treeOf s f r) (a ++ [k]) = some u) :
    ∃ w, sub (treeOf s f r) a = some w ∧ s.parent u.id = some w.id ∧ (s.children w.id)[k]? = some u.id := by
  rw [sub_snoc] at h
  cases hw' : sub (treeOf s f r) a with
  | none => simp [hw'] at h
  | some w =>
    simp only [hw', Option.bind_some] at h
    refine ⟨w, rfl, ?_⟩
    have hc := children_at hw f hf r a w hw'
    have hk : (w.children.map Tree.id)[k]? = some u.id := by simp [List.getElem?_map, h]
    rw [hc] at hk
    exact ⟨hw.down _ _ (List.mem_of_getElem? hk), hk⟩

/-- one step down: the `k`-th entry of a child list sits at the address extended by `k` -/
theorem child_at {s : Store} (hw : WF s) (f : Nat) (hf : s.n ≤ f) (r : Nat) (a : Addr) (p k x : Nat)
    (ha : sub (treeOf s f r) a = some (treeOf s f p)) (hk : (s.children p)[k]? = some x) :
    sub (treeOf s f r) (a ++ [k]) = some (treeOf s f x) := by
  rw [sub_snoc, ha, Option.bind_some, treeOf_children hw p f hf, List.getElem?_map, hk]
  rfl

/-- every descendant has an address -/
theorem addr_of_reach {s : Store} (hw : WF s) (f : Nat) (hf : s.n ≤ f) {r x : Nat} (h : Reach s r x) :
    ∃ a, sub (treeOf s f r) a = some (treeOf s f x) := by
  induction h with
  | refl => exact ⟨[], by simp⟩
  | step hr hp ih =>
    rename_i p v
    obtain ⟨a, ha⟩ := ih
    have hmem : v ∈ s.children p := hw.up v p hp
    obtain ⟨k, hk, hkv⟩ := List.getElem_of_mem hmem
    refine ⟨a ++ [k], ?_⟩
    rw [sub_snoc, ha, Option.bind_some, treeOf_children hw p f hf, List.getElem?_map,
      List.getElem?_eq_getElem hk, hkv]
    rfl

/-- two addresses naming the same identity are the same address -/
theorem addr_unique {s : Store} (hw : WF s) (f : Nat) (hf : s.n ≤ f) : ∀ (a b : Addr) (r : Nat) (u w : Tree),
    sub (treeOf s f r) a = some u → sub (treeOf s f r) b = some w → u.id = w.id → a = b := by
  intro a
  generalize hn : a.length = n
  induction n generalizing a with
  | zero =>
    intro b r u w ha hb hid
    have : a = [] := List.length_eq_zero_iff.1 hn
    subst this
    simp only [sub_nil, Option.some.injEq] at ha
    subst ha
    obtain ⟨_, _, h3⟩ := sub_treeOf hw f hf b r w hb
    rw [← hid, treeOf_id] at h3
    have : b.length = 0 := by omega
    exact (List.length_eq_zero_iff.1 this).symm
  | succ n ih =>
    intro b r u w ha hb hid
    rcases snoc_cases a with rfl | ⟨a, k, rfl⟩
    · simp at hn
    have hn' : a.length = n := by simpa using hn
    rcases snoc_cases b with rfl | ⟨b', j, rfl⟩
    · simp only [sub_nil, Option.some.injEq] at hb
      subst hb
      obtain ⟨_, _, h3⟩ := sub_treeOf hw f hf _ r u ha
      rw [hid, treeOf_id] at h3
      simp at h3
    · obtain ⟨pa, hpa, hpa2, hka⟩ := parent_at hw f hf r a k u ha
      obtain ⟨pb, hpb, hpb2, hkb⟩ := parent_at hw f hf r b' j w hb
      rw [hid, hpb2] at hpa2
      have hpid : pa.id = pb.id := (Option.some.inj hpa2).symm
      have hab := ih a hn' b' r pa pb hpa hpb hpid
      subst hab
      rw [hpid, hid] at hka
      -- same list, same element, no duplicates: same index
      have hnd := hw.nodup pb.id
      have hk1 := (List.getElem?_eq_some_iff.1 hka)
      have hk2 := (List.getElem?_eq_some_iff.1 hkb)
      obtain ⟨h1, e1⟩ := hk1
      obtain ⟨h2, e2⟩ := hk2
      have := (List.Nodup.getElem_inj_iff hnd).1 (e1.trans e2.symm)
      subst this
      rfl

end Store
