import BigtreeModel.BinBridge
import BigtreeProofs.Lemmas.BinStoreAcyc
import BigtreeProofs.Lemmas.Iter
/-!
# BinBridge — the read-back of the two-slot store: fuel independence, identities, in-order blocks
-/

/-- no depth limit: the gate keeps the whole binary tree -/
theorem Iter.bgate_zero (d : Nat) (t : BTree) : Iter.bgate 0 d t = t := by
  induction t generalizing d with
  | nil => rfl
  | node i n a l r ihl ihr => simp [Iter.bgate, ihl, ihr]

namespace BinStore
open Relation List

/-! ## slots of a well-formed store -/

theorem slots_eq {s : Store} (h : BWF s) (v : Nat) : s.slots v = [left s v, right s v] := by
  obtain ⟨a, b, hab⟩ := two_of_len (h.len2 v)
  simp [left, right, hab]

theorem mem_slots {s : Store} (h : BWF s) {v c : Nat} :
    some c ∈ s.slots v ↔ left s v = some c ∨ right s v = some c := by
  rw [slots_eq h v]
  simp [eq_comm]

theorem left_ne_right {s : Store} (h : BWF s) {v c d : Nat} (hl : left s v = some c) (hr : right s v = some d) :
    c ≠ d := by
  rintro rfl
  have := h.distinct v c
  rw [slots_eq h v, hl, hr] at this
  simp at this

theorem parent_of_left {s : Store} (h : BWF s) {v c : Nat} (hl : left s v = some c) : s.parent c = some v :=
  h.down v c ((mem_slots h).2 (Or.inl hl))

theorem parent_of_right {s : Store} (h : BWF s) {v c : Nat} (hr : right s v = some c) : s.parent c = some v :=
  h.down v c ((mem_slots h).2 (Or.inr hr))

/-! ## the ancestor walk, one step -/

theorem anc_step {s : Store} (h : BWF s) {c v : Nat} (hp : s.parent c = some v) :
    anc s s.n c = v :: anc s s.n v := by
  have hc := (h.range c v hp).1
  obtain ⟨m, hm⟩ : ∃ m, s.n = m + 1 := ⟨s.n - 1, by omega⟩
  have hnd : (v :: anc s s.n v).Nodup := by
    rw [nodup_cons]
    exact ⟨fun hm => properAnc_irrefl h.acyc v (mem_anc_properAnc hm), anc_nodup h.acyc _ _⟩
  have hlen : (v :: anc s s.n v).length ≤ s.n := by
    have := List.Nodup.length_le_of_subset hnd (l₂ := List.range s.n) (by
      intro a ha
      rcases List.mem_cons.1 ha with rfl | ha
      · exact List.mem_range.2 (h.range c a hp).2
      · exact List.mem_range.2 (anc_lt h.range _ _ _ ha))
    simpa using this
  have e : anc s m v = anc s s.n v := anc_fuel_enough (by omega) (by simp at hlen; omega)
  have e1 : anc s (m + 1) c = v :: anc s m v := by simp [anc, hp]
  rw [← e, ← e1, hm]

theorem anc_length_child {s : Store} (h : BWF s) {v c : Nat} (hc : some c ∈ s.slots v) :
    (anc s s.n c).length = (anc s s.n v).length + 1 ∧ (anc s s.n c).length < s.n := by
  have hp := h.down v c hc
  have hlt := (h.range c v hp).1
  refine ⟨by rw [anc_step h hp]; rfl, ?_⟩
  -- `c :: anc c` is duplicate-free and inside `range n`
  have hnd : (c :: anc s s.n c).Nodup := by
    rw [nodup_cons]
    exact ⟨fun hm => properAnc_irrefl h.acyc c (mem_anc_properAnc hm), anc_nodup h.acyc _ _⟩
  have := List.Nodup.length_le_of_subset hnd (l₂ := List.range s.n) (by
    intro a ha
    rcases List.mem_cons.1 ha with rfl | ha
    · exact List.mem_range.2 hlt
    · exact List.mem_range.2 (anc_lt h.range _ _ _ ha))
  simp at this
  omega

/-- induction from the leaves upwards -/
theorem slots_induction {s : Store} (h : BWF s) {P : Nat → Prop}
    (step : ∀ v, (∀ c, some c ∈ s.slots v → P c) → P v) : ∀ v, P v := by
  have key : ∀ m v, s.n - (anc s s.n v).length ≤ m → P v := by
    intro m
    induction m with
    | zero =>
      intro v hm
      apply step
      intro c hc
      have := anc_length_child h hc
      omega
    | succ m ih =>
      intro v hm
      apply step
      intro c hc
      have := anc_length_child h hc
      apply ih
      omega
  intro v
  exact key _ v (Nat.le_refl _)

/-! ## the read-back -/

@[simp] theorem slotTree_none (s : Store) (names : Nat → Str) (f : Nat) : slotTree s names f none = .nil := rfl
@[simp] theorem slotTree_some (s : Store) (names : Nat → Str) (f c : Nat) :
    slotTree s names f (some c) = btreeOf s names f c := rfl

theorem btreeOf_zero (s : Store) (names : Nat → Str) (v : Nat) :
    btreeOf s names 0 v = .node v (names v) [] .nil .nil := rfl

theorem btreeOf_succ (s : Store) (names : Nat → Str) (f v : Nat) :
    btreeOf s names (f + 1) v =
      .node v (names v) [] (slotTree s names f (left s v)) (slotTree s names f (right s v)) := by
  simp only [btreeOf]
  cases left s v <;> cases right s v <;> rfl

/-- enough fuel for the levels that are left below `v` gives one and the same tree -/
theorem btreeOf_fuel_aux {s : Store} (h : BWF s) (names : Nat → Str) : ∀ (v f g : Nat),
    s.n ≤ f + (anc s s.n v).length + 1 → s.n ≤ g + (anc s s.n v).length + 1 →
    btreeOf s names f v = btreeOf s names g v := by
  intro v
  induction v using slots_induction h with
  | step v ih =>
    intro f g hf hg
    have hleaf : s.n ≤ (anc s s.n v).length + 1 → left s v = none ∧ right s v = none := by
      intro hle
      constructor
      · cases hl : left s v with
        | none => rfl
        | some c => have := anc_length_child h ((mem_slots h).2 (Or.inl hl)); omega
      · cases hr : right s v with
        | none => rfl
        | some c => have := anc_length_child h ((mem_slots h).2 (Or.inr hr)); omega
    have hsub : ∀ (o : Option Nat) (f g : Nat), (∀ c, o = some c → some c ∈ s.slots v) →
        s.n ≤ f + (anc s s.n v).length + 2 → s.n ≤ g + (anc s s.n v).length + 2 →
        slotTree s names f o = slotTree s names g o := by
      intro o f g ho hf hg
      cases o with
      | none => rfl
      | some c =>
        have hc := ho c rfl
        have := anc_length_child h hc
        exact ih c hc f g (by omega) (by omega)
    cases f with
    | zero =>
      cases g with
      | zero => rfl
      | succ g =>
        obtain ⟨h1, h2⟩ := hleaf (by omega)
        rw [btreeOf_zero, btreeOf_succ, h1, h2]; rfl
    | succ f =>
      cases g with
      | zero =>
        obtain ⟨h1, h2⟩ := hleaf (by omega)
        rw [btreeOf_zero, btreeOf_succ, h1, h2]; rfl
      | succ g =>
        rw [btreeOf_succ, btreeOf_succ]
        rw [hsub (left s v) f g (fun c hc => (mem_slots h).2 (Or.inl hc)) (by omega) (by omega),
          hsub (right s v) f g (fun c hc => (mem_slots h).2 (Or.inr hc)) (by omega) (by omega)]

theorem btreeOf_fuel {s : Store} (h : BWF s) (names : Nat → Str) (v f g : Nat) (hf : s.n ≤ f) (hg : s.n ≤ g) :
    btreeOf s names f v = btreeOf s names g v :=
  btreeOf_fuel_aux h names v f g (by omega) (by omega)

/-- with fuel `≥ n` the read-back is a fixed point of "read the node, then read `.left` and `.right`" -/
theorem btreeOf_unfold {s : Store} (h : BWF s) (names : Nat → Str) (v f : Nat) (hf : s.n ≤ f) :
    btreeOf s names f v =
      .node v (names v) [] (slotTree s names f (left s v)) (slotTree s names f (right s v)) := by
  rw [btreeOf_fuel h names v f (f + 1) hf (by omega)]
  exact btreeOf_succ s names f v

/-! ## `Below` -/

theorem Below.head {s : Store} {r c x : Nat} (hc : some c ∈ s.slots r) (h : Below s c x) : Below s r x := by
  induction h with
  | refl => exact .step (.refl r) hc
  | step _ h2 ih => exact .step ih h2

theorem Below.trans {s : Store} {a b c : Nat} (h1 : Below s a b) (h2 : Below s b c) : Below s a c := by
  induction h2 with
  | refl => exact h1
  | step _ h ih => exact .step ih h

theorem below_top {s : Store} {r x : Nat} (h : Below s r x) :
    x = r ∨ ∃ c, some c ∈ s.slots r ∧ Below s c x := by
  induction h with
  | refl => exact Or.inl rfl
  | step h1 h2 ih =>
    rename_i p c
    rcases ih with rfl | ⟨d, hd, hdp⟩
    · exact Or.inr ⟨c, h2, .refl c⟩
    · exact Or.inr ⟨d, hd, .step hdp h2⟩

theorem below_iff_properAnc {s : Store} (h : BWF s) {r x : Nat} : Below s r x ↔ x = r ∨ ProperAnc s r x := by
  constructor
  · intro hb
    induction hb with
    | refl => exact Or.inl rfl
    | step _ h2 ih =>
      have hp := h.down _ _ h2
      rcases ih with rfl | ih
      · exact Or.inr (TransGen.single hp)
      · exact Or.inr (TransGen.tail ih hp)
  · rintro (rfl | hp)
    · exact .refl _
    · induction hp with
      | single hp => exact .step (.refl r) (h.up _ _ hp)
      | tail _ hp ih => exact .step ih (h.up _ _ hp)

/-- `x` is below `r` iff the executable parent walk from `x` meets `r` (or `x` is `r`) -/
theorem below_iff_anc {s : Store} (h : BWF s) {r x : Nat} : Below s r x ↔ x = r ∨ r ∈ anc s s.n x := by
  rw [below_iff_properAnc h, anc_complete h.acyc h.range]

theorem Below.antisymm {s : Store} (h : BWF s) {a b : Nat} (h1 : Below s a b) (h2 : Below s b a) : a = b := by
  rcases (below_iff_properAnc h).1 h1 with rfl | p1
  · rfl
  · rcases (below_iff_properAnc h).1 h2 with rfl | p2
    · rfl
    · exact absurd (TransGen.trans p1 p2) (properAnc_irrefl h.acyc a)

/-- the ancestors-or-self of a node form a chain -/
theorem Below.comparable {s : Store} (h : BWF s) {a b x : Nat} (h1 : Below s a x) (h2 : Below s b x) :
    Below s a b ∨ Below s b a := by
  induction h1 with
  | refl => exact Or.inr h2
  | step h1 hc ih =>
    rename_i p c
    cases h2 with
    | refl => exact Or.inl (.step h1 hc)
    | step h2 hc' =>
      rename_i p'
      have e : p' = p := by
        have a1 := h.down _ _ hc
        have a2 := h.down _ _ hc'
        rw [a1] at a2
        exact (Option.some.inj a2).symm
      subst e
      exact ih h2

/-- nothing is below two different children of one node, and the node is below none of its children -/
theorem below_children_disjoint {s : Store} (h : BWF s) {v c d x : Nat} (hc : some c ∈ s.slots v)
    (hd : some d ∈ s.slots v) (hne : c ≠ d) (h1 : Below s c x) : ¬ Below s d x := by
  intro h2
  have hcv : ∀ {c d : Nat}, some c ∈ s.slots v → some d ∈ s.slots v → c ≠ d → ¬ Below s c d := by
    intro c d hc hd hne hb
    -- `d`'s parent is `v`; a proper descent from `c` to `d` passes through `v`
    cases hb with
    | refl => exact hne rfl
    | step hb hd' =>
      rename_i p
      have e : p = v := by
        have a1 := h.down _ _ hd
        have a2 := h.down _ _ hd'
        rw [a1] at a2
        exact (Option.some.inj a2).symm
      subst e
      have : Below s p c := .step (.refl p) hc
      have := Below.antisymm h this hb
      subst this
      exact properAnc_irrefl h.acyc p (TransGen.single (h.down _ _ hc))
  rcases Below.comparable h h1 h2 with hb | hb
  · exact hcv hc hd hne hb
  · exact hcv hd hc (Ne.symm hne) hb

theorem not_below_child_self {s : Store} (h : BWF s) {v c : Nat} (hc : some c ∈ s.slots v) : ¬ Below s c v := by
  intro hb
  have := Below.antisymm h (.step (.refl v) hc) hb
  subst this
  exact properAnc_irrefl h.acyc v (TransGen.single (h.down _ _ hc))

theorem below_root {s : Store} (h : BWF s) {a r : Nat} (hb : Below s a r) (hr : s.parent r = none) : a = r := by
  cases hb with
  | refl => rfl
  | step _ hc =>
    have := h.down _ _ hc
    rw [hr] at this
    cases this

/-- every node lies below exactly one parentless node -/
theorem exists_unique_root {s : Store} (h : BWF s) (x : Nat) :
    ∃ r, s.parent r = none ∧ Below s r x ∧ ∀ r', s.parent r' = none → Below s r' x → r' = r := by
  have hex : ∃ r, s.parent r = none ∧ Below s r x := by
    induction h.acyc x with
    | intro x _ ih =>
      cases hp : s.parent x with
      | none => exact ⟨x, hp, .refl x⟩
      | some p =>
        obtain ⟨r, hr, hb⟩ := ih p hp
        exact ⟨r, hr, .step hb (h.up x p hp)⟩
  obtain ⟨r, hr, hb⟩ := hex
  refine ⟨r, hr, hb, fun r' hr' hb' => ?_⟩
  rcases Below.comparable h hb hb' with h1 | h1
  · exact (below_root h h1 hr').symm
  · exact below_root h h1 hr

/-! ## identities of the read-back -/

open Iter in
theorem inorder_slotTree_none (s : Store) (names : Nat → Str) (f : Nat) :
    inorder (slotTree s names f none) = [] := rfl

open Iter in
/-- the in-order listing of the read-back of `r` contains exactly `r` and its descendants -/
theorem mem_inorder_btreeOf {s : Store} (h : BWF s) (names : Nat → Str) (f : Nat) (hf : s.n ≤ f) (r x : Nat) :
    x ∈ inorder (btreeOf s names f r) ↔ Below s r x := by
  induction r using slots_induction h generalizing x with
  | step r ih =>
    rw [btreeOf_unfold h names r f hf]
    simp only [inorder, mem_append, mem_singleton]
    have hsub : ∀ o : Option Nat, (∀ c, o = some c → some c ∈ s.slots r) →
        (x ∈ inorder (slotTree s names f o) ↔ ∃ c, o = some c ∧ Below s c x) := by
      intro o ho
      cases o with
      | none => simp [inorder]
      | some c => simp [ih c (ho c rfl)]
    rw [hsub _ (fun c hc => (mem_slots h).2 (Or.inl hc)), hsub _ (fun c hc => (mem_slots h).2 (Or.inr hc))]
    constructor
    · rintro ((⟨c, hc, hb⟩ | rfl) | ⟨c, hc, hb⟩)
      · exact Below.head ((mem_slots h).2 (Or.inl hc)) hb
      · exact .refl _
      · exact Below.head ((mem_slots h).2 (Or.inr hc)) hb
    · intro hb
      rcases below_top hb with rfl | ⟨c, hc, hcx⟩
      · exact Or.inl (Or.inr rfl)
      · rcases (mem_slots h).1 hc with hl | hr
        · exact Or.inl (Or.inl ⟨c, hl, hcx⟩)
        · exact Or.inr ⟨c, hr, hcx⟩

open Iter in
/-- … each exactly once -/
theorem nodup_inorder_btreeOf {s : Store} (h : BWF s) (names : Nat → Str) (f : Nat) (hf : s.n ≤ f) (r : Nat) :
    (inorder (btreeOf s names f r)).Nodup := by
  induction r using slots_induction h with
  | step r ih =>
    rw [btreeOf_unfold h names r f hf]
    simp only [inorder]
    have hnd : ∀ o : Option Nat, (∀ c, o = some c → some c ∈ s.slots r) →
        (inorder (slotTree s names f o)).Nodup := by
      intro o ho
      cases o with
      | none => simp [inorder]
      | some c => exact ih c (ho c rfl)
    have hmem : ∀ (o : Option Nat) (x : Nat), x ∈ inorder (slotTree s names f o) →
        ∃ c, o = some c ∧ Below s c x := by
      intro o x hx
      cases o with
      | none => simp [inorder] at hx
      | some c => exact ⟨c, rfl, (mem_inorder_btreeOf h names f hf c x).1 hx⟩
    have hL := fun c hc => (mem_slots h).2 (Or.inl hc : left s r = some c ∨ right s r = some c)
    have hR := fun c hc => (mem_slots h).2 (Or.inr hc : left s r = some c ∨ right s r = some c)
    rw [append_assoc, nodup_append]
    refine ⟨hnd _ hL, ?_, ?_⟩
    · rw [singleton_append, nodup_cons]
      refine ⟨?_, hnd _ hR⟩
      intro hx
      obtain ⟨c, hc, hb⟩ := hmem _ _ hx
      exact not_below_child_self h (hR c hc) hb
    · intro a ha b hb hab
      subst hab
      obtain ⟨c, hc, hca⟩ := hmem _ _ ha
      rcases mem_append.1 hb with hb | hb
      · rw [mem_singleton] at hb
        subst hb
        exact not_below_child_self h (hL c hc) hca
      · obtain ⟨d, hd, hda⟩ := hmem _ _ hb
        exact below_children_disjoint h (hL c hc) (hR d hd) (left_ne_right h hc hd) hca hda

open Iter in
/-- the in-order listing of every node below `r` is a contiguous block of the listing of `r` -/
theorem inorder_block {s : Store} (h : BWF s) (names : Nat → Str) (f : Nat) (hf : s.n ≤ f) {r x : Nat}
    (hb : Below s r x) :
    ∃ l1 l2, inorder (btreeOf s names f r) = l1 ++ inorder (btreeOf s names f x) ++ l2 := by
  induction hb with
  | refl => exact ⟨[], [], by simp⟩
  | step hb1 hc ih =>
    rename_i p c
    obtain ⟨l1, l2, e⟩ := ih
    have hp : ∃ m1 m2, inorder (btreeOf s names f p) = m1 ++ inorder (btreeOf s names f c) ++ m2 := by
      rw [btreeOf_unfold h names p f hf]
      simp only [inorder]
      rcases (mem_slots h).1 hc with hl | hr
      · exact ⟨[], [p] ++ inorder (slotTree s names f (right s p)), by simp [hl]⟩
      · exact ⟨inorder (slotTree s names f (left s p)) ++ [p], [], by simp [hr]⟩
    obtain ⟨m1, m2, e2⟩ := hp
    exact ⟨l1 ++ m1, m2 ++ l2, by rw [e, e2]; simp⟩

end BinStore
