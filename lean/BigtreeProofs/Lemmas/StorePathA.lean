import BigtreeModel.StorePath
import BigtreeProofs.Lemmas.StoreStep
/-!
# Paths on the pointer store, part A: routes from the root are downward chains; sibling-name
uniqueness is an invariant; route names identify nodes
-/

namespace Store

/-! ## fuel: `n` steps of the upward walk are enough -/

theorem anc_succ_of_short (s : Store) : ∀ (f v : Nat), (anc s f v).length < f → anc s (f + 1) v = anc s f v := by
  intro f
  induction f with
  | zero => intro v h; simp at h
  | succ f ih =>
    intro v h
    simp only [anc] at h ⊢
    cases hp : s.parent v with
    | none => rfl
    | some p =>
      simp only [hp, List.length_cons, Nat.add_lt_add_iff_right] at h ⊢
      have := ih p h
      simp only [anc] at this
      rw [this]

theorem anc_length_lt {s : Store} (hw : WF s) (v : Nat) (hv : v < s.n) : (anc s s.n v).length < s.n := by
  have hl := nodup_bounded_length s.n (v :: anc s s.n v) (anc_nodup hw s.n v) (by
    intro y hy
    rcases List.mem_cons.1 hy with rfl | hy
    · exact hv
    · exact anc_lt hw _ _ _ hy)
  simp only [List.length_cons] at hl
  omega

theorem anc_root (s : Store) (f v : Nat) (h : s.parent v = none) : anc s f v = [] := by
  cases f with
  | zero => rfl
  | succ f => simp [anc, h]

theorem anc_step {s : Store} (hw : WF s) (v p : Nat) (h : s.parent v = some p) :
    anc s s.n v = p :: anc s s.n p := by
  have hv := (hw.range v p h).1
  rw [← anc_succ_of_short s s.n v (anc_length_lt hw v hv)]
  simp [anc, h]

theorem rootOf_eq_getLast (s : Store) : ∀ (f v : Nat), rootOf s f v = (v :: anc s f v).getLast (by simp) := by
  intro f
  induction f with
  | zero => intro v; rfl
  | succ f ih =>
    intro v
    rw [rootOf, anc]
    cases hp : s.parent v with
    | none => rfl
    | some p => simp only [ih p]; exact (List.getLast_cons (List.cons_ne_nil _ _)).symm

theorem rootOf_root (s : Store) (v : Nat) (h : s.parent v = none) : rootOf s s.n v = v := by
  rw [rootOf_eq_getLast]; simp [anc_root s s.n v h]

theorem rootOf_step {s : Store} (hw : WF s) (v p : Nat) (h : s.parent v = some p) :
    rootOf s s.n v = rootOf s s.n p := by
  rw [rootOf_eq_getLast, rootOf_eq_getLast]
  simp only [anc_step hw v p h]
  rw [List.getLast_cons (by simp)]

/-- the executable `root` walk reaches the root -/
theorem rootOf_spec {s : Store} (hw : WF s) {r v : Nat} (hr : Reach s r v) (hroot : s.parent r = none) :
    rootOf s s.n v = r := by
  induction hr with
  | refl => exact rootOf_root s r hroot
  | step _ hp ih => rw [rootOf_step hw _ _ hp]; exact ih

theorem rootOf_is_root {s : Store} (hw : WF s) (v : Nat) :
    s.parent (rootOf s s.n v) = none ∧ Reach s (rootOf s s.n v) v := by
  induction hw.acyc v with
  | intro v _ ih =>
    cases hp : s.parent v with
    | none => rw [rootOf_root s v hp]; exact ⟨hp, Reach.refl v⟩
    | some p =>
      rw [rootOf_step hw v p hp]
      exact ⟨(ih p hp).1, Reach.step (ih p hp).2 hp⟩

/-! ## routes from the root -/

/-- consecutive entries are parent and child -/
def Down (s : Store) : List Nat → Prop
  | [] => True
  | [_] => True
  | a :: b :: t => s.parent b = some a ∧ Down s (b :: t)

theorem pathNodes_root (s : Store) (v : Nat) (h : s.parent v = none) : pathNodes s v = [v] := by
  simp [pathNodes, anc_root s s.n v h]

theorem pathNodes_step {s : Store} (hw : WF s) (v p : Nat) (h : s.parent v = some p) :
    pathNodes s v = pathNodes s p ++ [v] := by
  simp [pathNodes, anc_step hw v p h]

theorem pathNodes_getLast (s : Store) (v : Nat) : (pathNodes s v).getLast? = some v := by
  simp [pathNodes]

theorem pathNodes_head (s : Store) (v : Nat) : (pathNodes s v).head? = some (rootOf s s.n v) := by
  rw [rootOf_eq_getLast, pathNodes, List.head?_reverse, List.getLast?_eq_some_getLast (by simp)]

theorem down_snoc (s : Store) : ∀ (l : List Nat) (p v : Nat), Down s l → l.getLast? = some p →
    s.parent v = some p → Down s (l ++ [v]) := by
  intro l
  induction l with
  | nil => intro p v _ h; simp at h
  | cons a t ih =>
    intro p v hd hl hp
    cases t with
    | nil =>
      simp at hl; subst hl
      exact ⟨hp, trivial⟩
    | cons b t' =>
      refine ⟨hd.1, ?_⟩
      apply ih p v hd.2 _ hp
      simpa [List.getLast?_cons_cons] using hl

theorem down_pathNodes {s : Store} (hw : WF s) (v : Nat) : Down s (pathNodes s v) := by
  induction hw.acyc v with
  | intro v _ ih =>
    cases hp : s.parent v with
    | none => rw [pathNodes_root s v hp]; trivial
    | some p =>
      rw [pathNodes_step hw v p hp]
      exact down_snoc s _ p v (ih p hp) (pathNodes_getLast s p) hp

/-! ## sibling names -/

/-- no two children of one parent have the same name -/
def SibUnique (s : Store) : Prop :=
  ∀ p a b, a ∈ s.children p → b ∈ s.children p → s.name a = s.name b → a = b

/-- two downward chains from the same node with the same names are the same chain -/
theorem down_names_inj {s : Store} (hw : WF s) (hu : SibUnique s) : ∀ (t1 t2 : List Nat) (a : Nat),
    Down s (a :: t1) → Down s (a :: t2) → t1.map s.name = t2.map s.name → t1 = t2 := by
  intro t1
  induction t1 with
  | nil =>
    intro t2 a _ _ h
    cases t2 with
    | nil => rfl
    | cons _ _ => simp at h
  | cons b1 t1 ih =>
    intro t2 a h1 h2 h
    cases t2 with
    | nil => simp at h
    | cons b2 t2 =>
      simp only [List.map_cons, List.cons.injEq] at h
      have hb : b1 = b2 := hu a b1 b2 (hw.up b1 a h1.1) (hw.up b2 a h2.1) h.1
      subst hb
      rw [ih t2 b1 h1.2 h2.2 h.2]

/-- same tree -/
def SameTree (s : Store) (u v : Nat) : Prop := rootOf s s.n u = rootOf s s.n v

/-- route names identify a node inside its tree -/
theorem pathNames_injective {s : Store} (hw : WF s) (hu : SibUnique s) (u v : Nat)
    (hst : SameTree s u v) (h : pathNames s u = pathNames s v) : u = v := by
  have h1 := pathNodes_head s u
  have h2 := pathNodes_head s v
  rw [hst] at h1
  have d1 := down_pathNodes hw u
  have d2 := down_pathNodes hw v
  have l1 := pathNodes_getLast s u
  have l2 := pathNodes_getLast s v
  unfold pathNames at h
  generalize pathNodes s u = L1 at *
  generalize pathNodes s v = L2 at *
  cases L1 with
  | nil => simp at h1
  | cons a t1 =>
    cases L2 with
    | nil => simp at h2
    | cons a' t2 =>
      simp at h1 h2
      subst h1; subst h2
      simp only [List.map_cons, List.cons.injEq, true_and] at h
      have := down_names_inj hw hu t1 t2 _ d1 d2 h
      subst this
      rw [l1] at l2
      exact Option.some.inj l2

end Store
