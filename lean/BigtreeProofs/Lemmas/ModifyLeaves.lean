import BigtreeProofs.Lemmas.ModifyMerge
import BigtreeProofs.Lemmas.ModifyReplace
/-!
# C08 helper lemmas: `merge_leaves`
-/
namespace Modify

variable {cfg : Cfg} {c : Char}

/-! ### removing several addresses -/

theorem modifyAt_removeAt (fp p : List Str) (hp : p ≠ []) (t : Tree) :
    modifyAt fp (removeAt p) t = removeAt (fp ++ p) t := by
  induction fp generalizing t with
  | nil => rfl
  | cons n fs ih =>
    cases t with
    | node i nm a cs =>
      have hne : fs ++ p ≠ [] := by simp [hp]
      have hf : modifyAt fs (removeAt p) = removeAt (fs ++ p) := funext ih
      cases hq : fs ++ p with
      | nil => exact absurd hq hne
      | cons m q =>
        simp only [modifyAt, List.cons_append, hq, removeAt, hf]

theorem removeAll_name' (ps : List (List Str)) (t : Tree) : (removeAll ps t).name = t.name :=
  removeAll_name ps t

theorem modifyAt_removeAll (fp : List Str) (ps : List (List Str)) (hps : ∀ p ∈ ps, p ≠ []) (t : Tree) :
    modifyAt fp (removeAll ps) t = removeAll (ps.map (fp ++ ·)) t := by
  induction ps generalizing t with
  | nil =>
    simp only [removeAll, List.map_nil]
    show modifyAt fp id t = t
    induction fp generalizing t with
    | nil => rfl
    | cons n p ih =>
      cases t with
      | node i nm a cs =>
        simp only [modifyAt]
        have : modifyAt p id = id := funext (fun x => ih x)
        rw [this]
        congr 1
        induction cs with
        | nil => rfl
        | cons x cs ihc => simp only [mapChild]; split <;> simp [ihc]
  | cons p ps ih =>
    have hp : p ≠ [] := hps p (by simp)
    have : (removeAll (p :: ps) : Tree → Tree) = removeAll ps ∘ removeAt p := rfl
    rw [this, ← modifyAt_modifyAt _ _ _ (fun x => removeAt_name p x), modifyAt_removeAt fp p hp,
      ih (fun q hq => hps q (by simp [hq]))]
    rfl

theorem flat_removeAll (ps : List (List Str)) (hps : ∀ p ∈ ps, p ≠ []) {t : Tree} (hu : SibUnique t) :
    flat (removeAll ps t) = (flat t).filter (fun e => !(ps.any (fun p => under p e))) ∧
      SibUnique (removeAll ps t) := by
  induction ps generalizing t with
  | nil =>
    refine ⟨?_, hu⟩
    simp only [removeAll, List.any_nil, Bool.not_false]
    rw [eq_comm, List.filter_eq_self]; intro e _; rfl
  | cons p ps ih =>
    have hp : p ≠ [] := hps p (by simp)
    obtain ⟨h1, h2⟩ := ih (fun q hq => hps q (by simp [hq])) (hu.removeAt (p := p))
    refine ⟨?_, h2⟩
    simp only [removeAll]
    rw [h1, flat_removeAt hp hu, List.filter_filter]
    apply List.filter_congr
    intro e _
    simp only [List.any_cons]
    cases under p e <;> simp

/-! ### leaves -/

theorem nodesRel_name {t : Tree} {pr : List Str × Tree} (h : pr ∈ nodesRel t) (hne : pr.1 ≠ []) :
    pr.2.name = pr.1.getLast hne := by
  induction t using Tree.ind generalizing pr with
  | h i n a cs ih =>
    rw [nodesRel_node] at h
    rcases List.mem_cons.1 h with rfl | h
    · exact absurd rfl hne
    · obtain ⟨x, hx, q, hq, rfl⟩ := mem_nodesRelL.1 h
      by_cases hq0 : q.1 = []
      · have : q = ([], x) := by
          cases x with
          | node j m b ds =>
            rw [nodesRel_node] at hq
            rcases List.mem_cons.1 hq with rfl | hq'
            · rfl
            · obtain ⟨y, _, q', _, rfl⟩ := mem_nodesRelL.1 hq'
              simp at hq0
        subst this
        simp
      · have := ih x hx hq hq0
        simp only [List.getLast_cons hq0]
        exact this

theorem leavesRel_facts {F : Tree} (hF : F.children ≠ []) {pr : List Str × Tree} (h : pr ∈ leavesRel F) :
    pr.1 ≠ [] ∧ pr.2.children = [] := by
  unfold leavesRel at h
  obtain ⟨h1, h2⟩ := List.mem_filter.1 h
  have hk : pr.2.children = [] := by simpa using h2
  refine ⟨?_, hk⟩
  intro h0
  cases F with
  | node i n a cs =>
    rw [nodesRel_node] at h1
    rcases List.mem_cons.1 h1 with rfl | h1
    · exact hF hk
    · obtain ⟨x, _, q, _, rfl⟩ := mem_nodesRelL.1 h1
      simp at h0

theorem flat_leaf {x : Tree} (h : x.children = []) : flat x = [([], x.id, x.attrs)] := by
  rw [flat_eq, h]; simp
theorem sibUnique_leaf {x : Tree} (h : x.children = []) : SibUnique x := by
  cases x; simp only [Tree.children_node] at h; subst h; simp [sibUnique_node]

/-! ### an edit at `p` does not change the subtree at an address that is neither above nor below -/

theorem getRel_modifyAt_incomparable {p q : List Str} {g : Tree → Tree} (hg : ∀ x, (g x).name = x.name)
    {t : Tree} (h1 : p.isPrefixOf q = false) (h2 : q.isPrefixOf p = false) :
    getRel q (modifyAt p g t) = getRel q t := by
  induction p generalizing q t with
  | nil => simp [List.isPrefixOf] at h1
  | cons n p ih =>
    cases q with
    | nil => simp [List.isPrefixOf] at h2
    | cons m q =>
      cases t with
      | node i nm a cs =>
        simp only [modifyAt, getRel_cons, Tree.children_node]
        by_cases hnm : m = n
        · subst hnm
          have h1' : p.isPrefixOf q = false := by simpa [List.isPrefixOf] using h1
          have h2' : q.isPrefixOf p = false := by simpa [List.isPrefixOf] using h2
          rw [findChild_mapChild_eq _ (fun x => modifyAt_name _ _ hg x)]
          cases findChild m cs with
          | none => rfl
          | some x => simp only [Option.map_some, Option.bind_some]; exact ih h1' h2'
        · rw [findChild_mapChild_ne hnm _ (fun x => modifyAt_name _ _ hg x)]

theorem getRel_attachAll_incomparable {pp q : List Str} {kids : List Tree} {t t' : Tree}
    (h : attachAll pp kids t = .ok t')
    (h1 : pp.isPrefixOf q = false) (h2 : q.isPrefixOf pp = false) : getRel q t' = getRel q t := by
  induction kids generalizing t with
  | nil => simp [attachAll] at h; subst h; rfl
  | cons x kids ih =>
    simp only [attachAll] at h
    cases ha : attachOne pp x t with
    | error e => rw [ha] at h; simp at h
    | ok t1 =>
      rw [ha] at h
      rw [ih h]
      unfold attachOne at ha
      split at ha
      · simp at ha
      · split at ha
        · simp at ha
        · simp at ha; subst ha
          exact getRel_modifyAt_incomparable (fun y => appendKid_name x y) h1 h2

end Modify

namespace Modify

variable {cfg : Cfg} {c : Char}

/-- `a ++ [x]` is not a prefix-relative of `b ++ p` when `a`, `b` are incomparable -/
theorem incomparable_ext {a b : List Str} (h1 : a.isPrefixOf b = false) (h2 : b.isPrefixOf a = false)
    (x : Str) (p : List Str) :
    (a ++ [x]).isPrefixOf (b ++ p) = false ∧ (b ++ p).isPrefixOf (a ++ [x]) = false := by
  constructor
  · cases h : (a ++ [x]).isPrefixOf (b ++ p) with
    | false => rfl
    | true =>
      exfalso
      rw [List.isPrefixOf_iff_prefix] at h
      have ha : a <+: b ++ p := (List.prefix_append _ _).trans h
      rcases List.prefix_or_prefix_of_prefix ha (List.prefix_append b p) with h' | h'
      · rw [List.isPrefixOf_iff_prefix.2 h'] at h1; cases h1
      · rw [List.isPrefixOf_iff_prefix.2 h'] at h2; cases h2
  · cases h : (b ++ p).isPrefixOf (a ++ [x]) with
    | false => rfl
    | true =>
      exfalso
      rw [List.isPrefixOf_iff_prefix] at h
      have hb : b <+: a ++ [x] := (List.prefix_append _ _).trans h
      rcases List.prefix_or_prefix_of_prefix hb (List.prefix_append a [x]) with h' | h'
      · -- b <+: a
        rw [List.isPrefixOf_iff_prefix.2 h'] at h2; cases h2
      · -- a <+: b, and b <+: a ++ [x]: b = a or b = a ++ [x]
        rw [List.isPrefixOf_iff_prefix.2 h'] at h1; cases h1

/-- `merge_leaves` onto an existing destination (no overriding) -/
theorem merge_leaves_core (hc : cfg.Plain c) (hcp : cfg.copy = false) (hmc : cfg.mergeChildren = false)
    (hml : cfg.mergeLeaves = true) (hov : cfg.overriding = false)
    (t : Tree) (k : Nat) (fpar tpar : List Str) (l : Str) (F D : Tree)
    (hu : SibUnique t)
    (fs : Str) (hfr : FromOK cfg t fs (fpar ++ [l]) F l) (hgt : GoodNames c (t.name :: tpar ++ [l]))
    (hD : getRel (tpar ++ [l]) t = some D)
    (h1 : (fpar ++ [l]).isPrefixOf (tpar ++ [l]) = false)
    (h2 : (tpar ++ [l]).isPrefixOf (fpar ++ [l]) = false)
    (hFk : F.children ≠ [])
    (hnd : ((leavesRel F).map (fun pr => pr.2.name)).Nodup)
    (hclash : ∀ pr ∈ leavesRel F, ∀ y ∈ D.children, y.name ≠ pr.2.name) :
    ∃ t', copyOrShift cfg (st0 t k)
        [(fs, some (pathStr c t.name (tpar ++ [l])))] = .ok (st0 t' k) ∧
      SibUnique t' ∧
      (∀ pr ∈ leavesRel F, (flat t').filter (under (tpar ++ [l] ++ [pr.2.name]))
          = [(tpar ++ [l] ++ [pr.2.name], pr.2.id, pr.2.attrs)]) ∧
      (flat t').filter (fun e => !underAny (tpar ++ [l]) ((leavesRel F).map (·.2)) e)
        = (flat t).filter
            (fun e => !(((leavesRel F).map (fun pr => fpar ++ [l] ++ pr.1)).any (fun p => under p e))) := by
  have hF := hfr.found
  let leaves := (leavesRel F).map (·.2)
  let lp := (leavesRel F).map (·.1)
  have hlp_ne : ∀ p ∈ lp, p ≠ [] := by
    intro p hp
    obtain ⟨pr, hpr, rfl⟩ := List.mem_map.1 hp
    exact (leavesRel_facts hFk hpr).1
  have hleaf : ∀ x ∈ leaves, x.children = [] := by
    intro x hx
    obtain ⟨pr, hpr, rfl⟩ := List.mem_map.1 hx
    exact (leavesRel_facts hFk hpr).2
  obtain ⟨ta, hatt, hsua, hkids, hresta⟩ := attachAll_facts (pp := tpar ++ [l]) leaves hu hD
    (by simpa [leaves, List.map_map, Function.comp_def] using hnd)
    (by
      intro x hx y hy
      obtain ⟨pr, hpr, rfl⟩ := List.mem_map.1 hx
      exact hclash pr hpr y hy)
    (fun x hx => sibUnique_leaf (hleaf x hx))
  have hFa : getRel (fpar ++ [l]) ta = some F := by
    rw [getRel_attachAll_incomparable hatt h2 h1, hF]
  -- the result: the leaves are removed from the from-node one after the other
  have hres : modifyAt (fpar ++ [l]) (removeAll lp) ta = removeAll (lp.map (fpar ++ [l] ++ ·)) ta :=
    modifyAt_removeAll _ _ hlp_ne ta
  have hlpabs_ne : ∀ p ∈ lp.map (fpar ++ [l] ++ ·), p ≠ [] := by
    intro p hp
    obtain ⟨q, _, rfl⟩ := List.mem_map.1 hp
    simp
  obtain ⟨hflat', hsu'⟩ := flat_removeAll (lp.map (fpar ++ [l] ++ ·)) hlpabs_ne hsua
  have hlpabs : lp.map (fpar ++ [l] ++ ·) = (leavesRel F).map (fun pr => fpar ++ [l] ++ pr.1) := by
    simp [lp, List.map_map, Function.comp_def]
  -- an entry below a new leaf is not below an old leaf address
  have hsep : ∀ x ∈ leaves, ∀ e, under (tpar ++ [l] ++ [x.name]) e = true →
      ((lp.map (fpar ++ [l] ++ ·)).any (fun p => under p e)) = false := by
    intro x _ e he
    rw [List.any_eq_false]
    intro p hp hpe
    obtain ⟨q, _, rfl⟩ := List.mem_map.1 hp
    obtain ⟨a1, a2⟩ := incomparable_ext h2 h1 x.name q
    rw [not_under_both a1 a2 e he] at hpe; cases hpe
  refine ⟨modifyAt (fpar ++ [l]) (removeAll lp) ta, ?_, hres ▸ hsu', ?_, ?_⟩
  · have hgt' : GoodNames c (t.name :: (tpar ++ [l])) := by simpa using hgt
    rw [copyOrShift_single _ _ (valid_move hc (st0 t k) fs (fpar ++ [l]) F tpar l (by simp [hmc]) hfr hgt)]
    simp only [norm, hfr.norm, normTo_pathStr hc _ _ hgt']
    unfold step
    have hr := resolveFrom_of (st0 t k) hfr
    have hne : (fpar ++ [l] == tpar ++ [l]) = false := by
      cases h : (fpar ++ [l] == tpar ++ [l]) with
      | false => rfl
      | true =>
        have : fpar ++ [l] = tpar ++ [l] := by simpa using h
        rw [this, List.isPrefixOf_iff_prefix.2 (List.prefix_refl _)] at h1; cases h1
    have hdec : decideTo cfg (st0 t k) (fpar ++ [l]) (some (pathStr c t.name (tpar ++ [l])))
        = .ok ⟨t, k, some (tpar ++ [l]), false⟩ := by
      unfold decideTo
      simp only [if_neg (pathStr_ne_nil (c := c) t.name (tpar ++ [l])), hc.tsep]
      rw [findFullPath_pathStr t (tpar ++ [l]) hgt', hD]
      simp only [Option.map_some, decideExisting, hne, Bool.and_false, Bool.false_eq_true, if_false, hmc,
        hml, hov, Bool.not_false, if_true]
    have hemp : F.children.isEmpty = false := by
      cases hk : F.children with
      | nil => exact absurd hk hFk
      | cons _ _ => rfl
    have hatt' : attachAll (tpar ++ [l]) ((leavesRel F).map (·.2)) t = .ok ta := hatt
    simp only [hr, hdec, attach, Option.isNone_none, if_true, hF, Option.getD_some,
      Option.isSome_some, hcp, Bool.not_false, Bool.and_true, Bool.false_eq_true, if_false, hml,
      attachLeaves, loops, h1, Bool.true_and, hemp, hatt']
    rfl
  · intro pr hpr
    have hx : pr.2 ∈ leaves := List.mem_map.2 ⟨pr, hpr, rfl⟩
    rw [hres, hflat', List.filter_filter]
    have := hkids pr.2 hx
    rw [flat_leaf (hleaf _ hx)] at this
    simp only [List.map_cons, List.map_nil, rebase, List.append_nil] at this
    rw [← this]
    apply List.filter_congr
    intro e _
    cases hue : under (tpar ++ [l] ++ [pr.2.name]) e with
    | false => rfl
    | true => rw [hsep pr.2 hx e hue]; rfl
  · rw [hres, hflat', List.filter_filter, ← hlpabs]
    have : ∀ l' : List Entry,
        l'.filter (fun e => !underAny (tpar ++ [l]) leaves e &&
            !((lp.map (fpar ++ [l] ++ ·)).any (fun p => under p e)))
          = (l'.filter (fun e => !underAny (tpar ++ [l]) leaves e)).filter
              (fun e => !((lp.map (fpar ++ [l] ++ ·)).any (fun p => under p e))) := by
      intro l'
      rw [List.filter_filter]
      apply List.filter_congr
      intro e _
      rw [Bool.and_comm]
    rw [this, hresta]

end Modify
