import BigtreeProofs.Lemmas.RenderHPlace
/-!
# Tier 1 `h_bands`: every node is shown at the column of its depth

* `HFits`: (only with intermediate node names) inner names are no longer than the padding of their depth —
  needed for `nodeStr.length + 1 = bandWidth`, since `center` leaves a too long name unchanged;
* `hcol_succ`, `hlabel_inner_length`, `center_length`;
* `BandOK` and its transport along `++` and `Framed`;
* `h_bands_block`.
-/

namespace Render

/-! ### names fit into the padding -/

mutual
/-- with intermediate node names, the name of every inner node (a node with a real child) is
    no longer than the padding of its depth (`d` = depth of the root of `t`) -/
def HFits (inter : Bool) (pad : Nat → Nat) : Nat → HTree → Prop
  | _, .hole => True
  | d, .node n cs =>
    (inter = true → cs.any HTree.isReal = true → n.length ≤ pad d) ∧ HFitsL inter pad (d + 1) cs
def HFitsL (inter : Bool) (pad : Nat → Nat) : Nat → List HTree → Prop
  | _, [] => True
  | d, c :: cs => HFits inter pad d c ∧ HFitsL inter pad d cs
end

theorem center_length (s : Str) (w : Nat) (h : s.length ≤ w) : (center s w).length = w := by
  unfold center
  split
  · omega
  · rcases Nat.mod_two_eq_zero_or_one w with h2 | h2 <;> simp [h2] <;> omega

theorem hlabel_inner_length (S : HStyle) (inter : Bool) (pad : Nat → Nat) (d : Nat) (n : Str)
    (h : inter = true → n.length ≤ pad d) :
    (hlabel S inter pad d n false).length + 1 = bandWidth inter pad d := by
  cases inter with
  | false => simp [hlabel, bandWidth]
  | true => simp [hlabel, bandWidth, center_length n (pad d) (h rfl)]

theorem hcol_succ (inter : Bool) (pad : Nat → Nat) (d k : Nat) :
    hcol inter pad d (k + 1) = bandWidth inter pad d + hcol inter pad (d + 1) k := by
  induction k with
  | zero => simp [hcol]
  | succ k ih =>
    rw [hcol, ih, hcol]
    have : d + (k + 1) = d + 1 + k := by omega
    rw [this]; omega

/-! ### one placement is shown correctly inside a list of rows -/

/-- `p` (a node of depth `p.depth` in a block whose root has depth `d`) is shown in `rows` at its row,
    at the column of its depth -/
def BandOK (S : HStyle) (inter : Bool) (pad : Nat → Nat) (d : Nat) (rows : List Str) (p : Placed) : Prop :=
  d ≤ p.depth ∧
  ∃ row, rows[p.row]? = some row ∧
    hlabel S inter pad p.depth p.name p.isLeaf <+: row.drop (hcol inter pad d (p.depth - d)) ∧
    (p.isLeaf = true → row.drop (hcol inter pad d (p.depth - d)) = hlabel S inter pad p.depth p.name true)

variable {S : HStyle} {inter : Bool} {pad : Nat → Nat}

theorem BandOK.append_left {d : Nat} {rows1 : List Str} (rows2 : List Str) {p : Placed}
    (h : BandOK S inter pad d rows1 p) : BandOK S inter pad d (rows1 ++ rows2) p := by
  obtain ⟨h1, row, h2, h3⟩ := h
  refine ⟨h1, row, ?_, h3⟩
  have hlt : p.row < rows1.length := (List.getElem?_eq_some_iff.mp h2).1
  rw [List.getElem?_append_left hlt]; exact h2

theorem BandOK.append_right {d : Nat} (rows1 : List Str) {rows2 : List Str} {p : Placed} {k : Nat}
    (hk : rows1.length = k)
    (h : BandOK S inter pad d rows2 p) : BandOK S inter pad d (rows1 ++ rows2) (p.shift k) := by
  obtain ⟨h1, row, h2, h3⟩ := h
  subst hk
  refine ⟨h1, row, ?_, h3⟩
  simp only [Placed.shift_row]
  rw [List.getElem?_append_right (by omega)]
  simpa using h2

theorem BandOK.frame {d : Nat} {ns : Str} {res : List Str} {out : List Str × Nat} {p : Placed}
    (hf : Framed ns res out) (hw : ns.length + 1 = bandWidth inter pad d)
    (h : BandOK S inter pad (d + 1) res p) : BandOK S inter pad d out.1 p := by
  obtain ⟨h1, row, h2, h3⟩ := h
  obtain ⟨pre, hpre, hrow⟩ := hf.row h2
  refine ⟨by omega, pre ++ row, hrow, ?_⟩
  have e : p.depth - d = (p.depth - (d + 1)) + 1 := by omega
  rw [e, hcol_succ, ← hw, ← hpre, ← List.drop_drop]
  simpa using h3

theorem BandOK.leafRow (d : Nat) (n : Str) :
    BandOK S inter pad d [hlabel S inter pad d n true] ⟨d, 0, true, n⟩ := by
  refine ⟨Nat.le_refl _, _, rfl, ?_⟩
  simp [hcol]


/-! ### the bands theorem -/

theorem h_bands_aux (S : HStyle) (inter : Bool) (pad : Nat → Nat) :
    (∀ (d : Nat) (t : HTree), HFits inter pad d t →
      ∀ p ∈ hplace S inter pad d 0 t, BandOK S inter pad d (hblock S inter pad d t).1 p) ∧
    (∀ (d : Nat) (cs : List HTree), HFitsL inter pad d cs → ∀ gap, ∀ p ∈ hplaceL S inter pad d 0 gap cs,
      BandOK S inter pad d (joinGap gap (hblockL S inter pad d cs)) p) := by
  apply hblock.mutual_induct S inter pad
  · intro d _ p hp
    simp only [hplace_hole0, List.mem_singleton] at hp
    subst hp; rw [hblock_hole]; exact BandOK.leafRow d _
  · intro d n cs h _ p hp
    rw [hplace_leaf0 _ _ _ _ _ _ h] at hp
    simp only [List.mem_singleton] at hp
    subst hp; rw [hblock_leaf _ _ _ _ _ _ h]; exact BandOK.leafRow d _
  · intro d n cs h ih hfit p hp
    rw [hplace_inner0 _ _ _ _ _ _ h] at hp
    have hfr := hblock_framed S inter pad d n cs h
    rw [HFits] at hfit
    have hreal : cs.any HTree.isReal = true := by simpa using h
    simp only [List.mem_cons] at hp
    rcases hp with rfl | hp
    · obtain ⟨row, hrow, hpre⟩ := hfr.idxRow
      refine ⟨Nat.le_refl _, row, hrow, ?_, by simp⟩
      simpa [hcol] using hpre
    · exact BandOK.frame hfr (hlabel_inner_length S inter pad d n (fun hi => hfit.1 hi hreal))
        (ih hfit.2 _ p hp)
  · intro d _ gap p hp; simp [hplaceL] at hp
  · intro d c cs ih1 ih2 hfit gap p hp
    rw [HFitsL] at hfit
    rw [hplaceL_cons0] at hp
    cases cs with
    | nil =>
      simp [hplaceL] at hp
      simpa [hblockL, joinGap] using ih1 hfit.1 p hp
    | cons c' r =>
      have hne : hblockL S inter pad d (c' :: r) ≠ [] := by simp [hblockL]
      rw [hblockL, joinGap_cons _ _ _ hne]
      simp only [List.mem_append, List.mem_map] at hp
      rcases hp with hp | ⟨q, hq, rfl⟩
      · exact ((ih1 hfit.1 p hp).append_left _).append_left _
      · exact BandOK.append_right _ (by split <;> simp) (ih2 hfit.2 gap q hq)

/-- Tier 1 `h_bands`: every node of depth e is shown at column `hcol inter pad d (e - d)` of its row — the
    column depends on the depth only; a leaf's label is the rest of its row.
    Hypothesis `HFits`: with intermediate names, inner names are no longer than the padding of their depth
    (without it the statement is false, see `h_bands_block_unpadded_false`). -/
theorem h_bands_block (S : HStyle) (inter : Bool) (pad : Nat → Nat) (d : Nat) (t : HTree)
    (hfit : HFits inter pad d t) :
    ∀ p ∈ hplace S inter pad d 0 t,
      d ≤ p.depth ∧
      ∃ row, (hblock S inter pad d t).1[p.row]? = some row ∧
        hlabel S inter pad p.depth p.name p.isLeaf <+: row.drop (hcol inter pad d (p.depth - d)) ∧
        (p.isLeaf = true → row.drop (hcol inter pad d (p.depth - d)) = hlabel S inter pad p.depth p.name true) :=
  (h_bands_aux S inter pad).1 d t hfit

end Render
