import BigtreeModel.Helper
import BigtreeModel.HelperDiff
import BigtreeProofs.Lemmas.DiffDefs
import BigtreeProofs.Lemmas.DiffWalk
import BigtreeProofs.Lemmas.DiffStr
import BigtreeProofs.Lemmas.DiffMark
import BigtreeProofs.Lemmas.DiffInsert
import BigtreeProofs.Lemmas.DiffJoin
import BigtreeProofs.Lemmas.DiffRows
/-!
# C15: `dataframe_to_tree` on the kept (marked) paths
-/
namespace Helper

/-! ## `add_path_to_tree` on a well-formed path string -/

theorem addPath_join (c : Char) (u : Upd) (T : Tree) (r : Str) (rest : List Str)
    (hg : ∀ n ∈ r :: rest, n ≠ [] ∧ c ∉ n) :
    addPath [c] u T (join [c] (r :: rest)) = if r != T.name then .error .treeError else ins u rest T := by
  unfold addPath
  have hne : join [c] (r :: rest) ≠ [] := join_ne_nil c _ (by simp) (fun x hx => (hg x hx).1)
  have he : (join [c] (r :: rest)).isEmpty = false := by
    cases hj : join [c] (r :: rest) with
    | nil => exact absurd hj hne
    | cons => rfl
  rw [he, strip_join c _ (by simp) hg, split_join c _ (by simp) (fun x hx => (hg x hx).2)]
  simp

theorem addPath_pathName (c : Char) (u : Upd) (T : Tree) (r : Str) (rest : List Str)
    (hg : ∀ n ∈ r :: rest, n ≠ [] ∧ c ∉ n) :
    addPath [c] u T (pathName [c] (r :: rest)) = if r != T.name then .error .treeError else ins u rest T := by
  unfold addPath
  have he : (pathName [c] (r :: rest)).isEmpty = false := by
    cases hj : pathName [c] (r :: rest) with
    | nil => exact absurd hj (pathName_ne_nil c _)
    | cons => rfl
  rw [he, strip_pathName c _ (by simp) hg, split_join c _ (by simp) (fun x hx => (hg x hx).2)]
  simp

/-! ## the fold of insertions -/

theorem rebuild_fold (c : Char) (r : Str) : ∀ (ms : List (List Str)) (T : Tree), SibU T → NoAttrs T → T.name = r →
    (∀ m ∈ ms, (∃ rest, m = r :: rest) ∧ ∀ n ∈ m, n ≠ [] ∧ c ∉ n) →
    ∃ T', (ms.map (join [c])).foldlM (fun t p => addPath [c] .nothing t p) T = .ok T' ∧
      SibU T' ∧ NoAttrs T' ∧ T'.name = r ∧
      ∀ q, q ∈ keys T' ↔ q ∈ keys T ∨ (q ≠ [] ∧ ∃ m ∈ ms, q <+: m) := by
  intro ms
  induction ms with
  | nil =>
    intro T hs ha hn _
    exact ⟨T, rfl, hs, ha, hn, by simp⟩
  | cons m ms ih =>
    intro T hs ha hn hm
    obtain ⟨⟨rest, rfl⟩, hg⟩ := hm m (by simp)
    obtain ⟨T1, h1, hs1, ha1, hn1, hk1⟩ := ins_nothing_spec rest T hs ha
    obtain ⟨T', h', hs', ha', hn', hk'⟩ := ih T1 hs1 ha1 (hn1.trans hn) (fun m' hm' => hm m' (by simp [hm']))
    refine ⟨T', ?_, hs', ha', hn', ?_⟩
    · simp only [List.map_cons, List.foldlM_cons]
      rw [addPath_join c .nothing T r rest hg]
      have : (r != T.name) = false := by simp [hn]
      rw [this, if_neg (by simp), h1]
      exact h'
    · intro q
      rw [hk', hk1, hn]
      simp only [List.mem_cons, exists_eq_or_imp]
      constructor
      · rintro ((h | h) | ⟨hne, m', hm', hp⟩)
        · exact Or.inl h
        · exact Or.inr ⟨h.1, Or.inl h.2⟩
        · exact Or.inr ⟨hne, Or.inr ⟨m', hm', hp⟩⟩
      · rintro (h | ⟨hne, hp | ⟨m', hm', hp⟩⟩)
        · exact Or.inl (Or.inl h)
        · exact Or.inl (Or.inr ⟨hne, hp⟩)
        · exact Or.inr ⟨hne, m', hm', hp⟩

/-- `dataframe_to_tree` of well-formed path names with a common root name -/
theorem rebuild_spec (c : Char) (r : Str) (m0 : List Str) (ms : List (List Str))
    (hm : ∀ m ∈ m0 :: ms, (∃ rest, m = r :: rest) ∧ ∀ n ∈ m, n ≠ [] ∧ c ∉ n) :
    ∃ T', rebuild [c] ((m0 :: ms).map (pathName [c])) = .ok T' ∧ SibU T' ∧ NoAttrs T' ∧ T'.name = r ∧
      ∀ q, q ∈ keys T' ↔ q ≠ [] ∧ ∃ m ∈ m0 :: ms, q <+: m := by
  have hstrip : ((m0 :: ms).map (pathName [c])).map (strip [c]) = (m0 :: ms).map (join [c]) := by
    rw [List.map_map]
    apply List.map_congr_left
    intro m hmm
    obtain ⟨⟨rest, rfl⟩, hg⟩ := hm m hmm
    exact strip_pathName c _ (by simp) hg
  obtain ⟨⟨rest0, hr0⟩, hg0⟩ := hm m0 (by simp)
  have hroot : (split [c] (join [c] m0)).headD [] = r := by
    rw [split_join c m0 (by rw [hr0]; simp) (fun x hx => (hg0 x hx).2), hr0]; rfl
  have hT0s : SibU (.node 0 r [] []) := by rw [SibU.node_iff]; simp
  have hT0a : NoAttrs (.node 0 r [] []) := AllSub.mk _ _ _ _ rfl (by simp)
  obtain ⟨T', h', hs', ha', hn', hk'⟩ := rebuild_fold c r (m0 :: ms) (.node 0 r [] []) hT0s hT0a rfl hm
  refine ⟨T', ?_, hs', ha', hn', ?_⟩
  · unfold rebuild
    simp only []
    rw [hstrip]
    simp only [List.map_cons] at h' ⊢
    rw [hroot]
    exact h'
  · intro q
    rw [hk']
    simp only [keys_node, keysL_nil, List.map_nil, List.mem_singleton]
    constructor
    · rintro (rfl | h)
      · exact ⟨by simp, m0, by simp, by rw [hr0]; simp [List.cons_prefix_cons]⟩
      · exact h
    · exact Or.inr

/-! ## the kept paths -/

theorem keptC_sub (attrList : List Str) (t1 t2 : Tree) (onlyDiff : Bool) (p : List Str)
    (h : p ∈ keptC attrList t1 t2 onlyDiff) : p ∈ allPaths t1 t2 := by
  unfold keptC at h
  cases onlyDiff with
  | false => simpa using h
  | true => simp only [if_true, List.mem_filter] at h; exact h.1

theorem keptPaths_sub (attrList : List Str) (t1 t2 : Tree) (onlyDiff : Bool) (p : List Str)
    (h : p ∈ keptPaths attrList t1 t2 onlyDiff) : p ∈ allPaths t1 t2 := by
  unfold keptPaths at h
  cases onlyDiff with
  | false => simpa using h
  | true => simp only [if_true, List.mem_filter] at h; exact h.1

/-- the kept paths are the non-empty prefixes of the kept rows -/
theorem mem_keptPaths_iff (attrList : List Str) (t1 t2 : Tree) (onlyDiff : Bool) (p : List Str) :
    p ∈ keptPaths attrList t1 t2 onlyDiff ↔
      p ∈ allPaths t1 t2 ∧ ∃ q ∈ keptC attrList t1 t2 onlyDiff, p <+: q := by
  unfold keptPaths keptC
  cases onlyDiff with
  | false =>
    simp only [Bool.false_eq_true, if_false]
    exact ⟨fun h => ⟨h, p, h, List.prefix_refl _⟩, fun h => h.1⟩
  | true =>
    simp only [if_true, List.mem_filter, List.any_eq_true, Bool.and_eq_true, List.isPrefixOf_iff_prefix]
    constructor
    · rintro ⟨hp, q, hq, hs, hpre⟩
      exact ⟨hp, q, ⟨hq, hs⟩, hpre⟩
    · rintro ⟨hp, q, ⟨hq, hs⟩, hpre⟩
      exact ⟨hp, q, hq, hs, hpre⟩

theorem keptPaths_nodup (c : Char) (attrList : List Str) (t1 t2 : Tree) (h : DiffOK c t1 t2) (onlyDiff : Bool) :
    (keptPaths attrList t1 t2 onlyDiff).Nodup := by
  unfold keptPaths
  cases onlyDiff with
  | false => simpa using allPaths_nodup c t1 t2 h
  | true => simp only [if_true]; exact nodup_filter _ _ (allPaths_nodup c t1 t2 h)

theorem keptPaths_eq_nil_iff (attrList : List Str) (t1 t2 : Tree) (onlyDiff : Bool) :
    keptPaths attrList t1 t2 onlyDiff = [] ↔ keptC attrList t1 t2 onlyDiff = [] := by
  constructor
  · intro h
    rw [List.eq_nil_iff_forall_not_mem] at h ⊢
    intro p hp
    exact h p ((mem_keptPaths_iff attrList t1 t2 onlyDiff p).mpr
      ⟨keptC_sub attrList t1 t2 onlyDiff p hp, p, hp, List.prefix_refl _⟩)
  · intro h
    rw [List.eq_nil_iff_forall_not_mem] at h ⊢
    intro p hp
    obtain ⟨_, q, hq, _⟩ := (mem_keptPaths_iff attrList t1 t2 onlyDiff p).mp hp
    exact h q hq

/-- every path of either tree starts with the common root name -/
theorem allPaths_head (c : Char) (t1 t2 : Tree) (h : DiffOK c t1 t2) (p : List Str) (hp : p ∈ allPaths t1 t2) :
    ∃ rest, p = t1.name :: rest := by
  rw [mem_allPaths, compPaths_eq, compPaths_eq] at hp
  rcases hp with hp | hp
  · exact keys_head t1 p hp
  · rw [h.root]; exact keys_head t2 p hp

theorem root_both (c : Char) (t1 t2 : Tree) (h : DiffOK c t1 t2) :
    stPM t1 t2 [t1.name] = .same := by
  apply stPM_same_of_both
  · rw [compPaths_eq]; exact root_mem_keys t1
  · rw [compPaths_eq, h.root]; exact root_mem_keys t2

theorem markPM_head (c : Char) (t1 t2 : Tree) (h : DiffOK c t1 t2) (p : List Str) (hp : p ∈ allPaths t1 t2) :
    ∃ rest, markFull (stPM t1 t2) p = t1.name :: rest := by
  obtain ⟨rest, rfl⟩ := allPaths_head c t1 t2 h p hp
  rw [markFull_eq_relabel]
  simp only [relabel_cons, List.nil_append, root_both c t1 t2 h, Status.suffix, List.append_nil]
  exact ⟨_, rfl⟩

/-- the rebuilt tree: its paths are exactly the marked kept paths, no attributes yet -/
theorem rebuild_kept (c : Char) (attrList : List Str) (t1 t2 : Tree) (h : DiffOK c t1 t2) (onlyDiff : Bool)
    (hne : keptC attrList t1 t2 onlyDiff ≠ []) :
    ∃ T', rebuild [c] ((keptC attrList t1 t2 onlyDiff).map fun p => pathName [c] (markFull (stPM t1 t2) p)) = .ok T' ∧
      SibU T' ∧ NoAttrs T' ∧ T'.name = t1.name ∧
      ∀ q, q ∈ keys T' ↔ q ∈ (keptPaths attrList t1 t2 onlyDiff).map (markFull (stPM t1 t2)) := by
  have hmap : ((keptC attrList t1 t2 onlyDiff).map fun p => pathName [c] (markFull (stPM t1 t2) p)) =
      ((keptC attrList t1 t2 onlyDiff).map (markFull (stPM t1 t2))).map (pathName [c]) := by
    rw [List.map_map]; rfl
  rw [hmap]
  have hgood : ∀ m ∈ (keptC attrList t1 t2 onlyDiff).map (markFull (stPM t1 t2)),
      (∃ rest, m = t1.name :: rest) ∧ ∀ n ∈ m, n ≠ [] ∧ c ∉ n := by
    intro m hm
    obtain ⟨p, hp, rfl⟩ := List.mem_map.mp hm
    have hpa := keptC_sub attrList t1 t2 onlyDiff p hp
    have gp := allPaths_good c t1 t2 h p hpa
    exact ⟨markPM_head c t1 t2 h p hpa,
      markFull_good c _ p h.sepOK (fun n hn => ⟨(gp.2 n hn).1, (gp.2 n hn).2.1⟩)⟩
  cases hK : (keptC attrList t1 t2 onlyDiff).map (markFull (stPM t1 t2)) with
  | nil => simp at hK; exact absurd hK hne
  | cons m0 ms =>
    rw [hK] at hgood
    obtain ⟨T', h', hs', ha', hn', hk'⟩ := rebuild_spec c t1.name m0 ms hgood
    refine ⟨T', h', hs', ha', hn', ?_⟩
    intro q
    rw [hk', ← hK]
    simp only [List.mem_map]
    constructor
    · rintro ⟨hqne, m, ⟨p, hp, rfl⟩, hpre⟩
      obtain ⟨p', hp', rfl⟩ := (prefix_markFull_iff _ p q).mp hpre
      have hp'ne : p' ≠ [] := by rw [Ne, markFull_eq_nil] at hqne; exact hqne
      refine ⟨p', (mem_keptPaths_iff attrList t1 t2 onlyDiff p').mpr ⟨?_, p, hp, hp'⟩, rfl⟩
      exact allPaths_prefix_closed t1 t2 p p' (keptC_sub attrList t1 t2 onlyDiff p hp) hp' hp'ne
    · rintro ⟨p', hp', rfl⟩
      obtain ⟨hpa, p, hp, hpre⟩ := (mem_keptPaths_iff attrList t1 t2 onlyDiff p').mp hp'
      refine ⟨?_, markFull (stPM t1 t2) p, ⟨p, hp, rfl⟩, (prefix_markFull_iff _ p _).mpr ⟨p', hpre, rfl⟩⟩
      rw [Ne, markFull_eq_nil]
      exact (allPaths_good c t1 t2 h p' hpa).1

/-- rows of the rebuilt tree, up to order -/
theorem rebuild_rows_perm (c : Char) (attrList : List Str) (t1 t2 : Tree) (h : DiffOK c t1 t2) (onlyDiff : Bool)
    (T' : Tree) (hs : SibU T') (ha : NoAttrs T')
    (hk : ∀ q, q ∈ keys T' ↔ q ∈ (keptPaths attrList t1 t2 onlyDiff).map (markFull (stPM t1 t2))) :
    (rows T').Perm ((keptPaths attrList t1 t2 onlyDiff).map fun p => (markFull (stPM t1 t2) p, ([] : Attrs))) := by
  have hrows : rows T' = (keys T').map fun q => (q, ([] : Attrs)) := by
    unfold keys
    rw [List.map_map]
    conv => lhs; rw [← List.map_id (rows T')]
    apply List.map_congr_left
    intro r hr
    have := rows_attrs (fun a => a = []) T' ha r hr
    simp only [id, Function.comp_apply]
    rw [← this]
  have hperm : (keys T').Perm ((keptPaths attrList t1 t2 onlyDiff).map (markFull (stPM t1 t2))) := by
    apply perm_of_nodup_of_mem_iff _ _ (keys_nodup T' hs) _ hk
    apply nodup_map_on _ _ _ (keptPaths_nodup c attrList t1 t2 h onlyDiff)
    intro x hx y hy he
    exact markFull_inj _ x y
      (fun n hn => ((allPaths_good c t1 t2 h x (keptPaths_sub attrList t1 t2 onlyDiff x hx)).2 n hn).2.2)
      (fun n hn => ((allPaths_good c t1 t2 h y (keptPaths_sub attrList t1 t2 onlyDiff y hy)).2 n hn).2.2) he
  rw [hrows]
  have := hperm.map (fun q => (q, ([] : Attrs)))
  rw [List.map_map] at this
  exact this

end Helper
