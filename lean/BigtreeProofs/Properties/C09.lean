import BigtreeModel.Search
import BigtreeProofs.Lemmas.Search
import BigtreeProofs.Lemmas.SearchPaths
import BigtreeProofs.Lemmas.SearchChecks
import BigtreeProofs.Lemmas.SearchFullPath
import BigtreeProofs.Lemmas.SearchStrMulti
import BigtreeProofs.Lemmas.QueryIterBridge
import BigtreeProofs.Lemmas.QueryExamples
/-!
# C09 — search returns exactly the nodes that satisfy the query

`R` is the searched tree, `a` the address of the start node, `sep` the tree's separator.
`searched R a md` is the list of nodes of the subtree at `a` whose depth is within `md`
(`md = 0`: no limit), in pre-order; every search function, written the way the Python is written
(`BigtreeModel/Search.lean`), is proved equal to its specification for all inputs.
-/

namespace C09
open Query Search

/-- `findall` = the nodes of the searched subtree (within `max_depth`) that satisfy the
    condition, in pre-order — or `SearchError` when the count contract is violated. -/
theorem findall_eq (R : Tree) (a : Addr) (cond : Addr → Bool) (md mn mx : Nat) :
    findall R a cond md mn mx =
      if (mn ≠ 0 ∧ ((searched R a md).filter cond).length < mn)
          ∨ (mx ≠ 0 ∧ ((searched R a md).filter cond).length > mx)
      then .error .search else .ok ((searched R a md).filter cond) :=
  findall_eq_spec R a cond md mn mx

example : findall exNamed [] (nameIs exNamed ['a', 'b']) 0 0 0 = .ok [[0], [2, 0]] := rfl
example : findall exNamed [] (nameIs exNamed ['a', 'b']) 2 0 0 = .ok [[0]] := rfl
example : findall exNamed [] (nameIs exNamed ['a', 'b']) 0 3 0 = .error .search := rfl

/-- the count contract: `SearchError` exactly when `min_count` or `max_count` (non-zero) is
    violated by the number of matches; no other failure. -/
theorem findall_count_contract (R : Tree) (a : Addr) (cond : Addr → Bool) (md mn mx : Nat) :
    (findall R a cond md mn mx = .error .search ↔
      (mn ≠ 0 ∧ ((searched R a md).filter cond).length < mn)
        ∨ (mx ≠ 0 ∧ ((searched R a md).filter cond).length > mx)) ∧
    (∀ e, findall R a cond md mn mx = .error e → e = .search) := by
  rw [findall_eq_spec]
  constructor
  · constructor
    · intro h
      by_cases hc : (mn ≠ 0 ∧ ((searched R a md).filter cond).length < mn)
          ∨ (mx ≠ 0 ∧ ((searched R a md).filter cond).length > mx)
      · exact hc
      · rw [if_neg hc] at h; cases h
    · intro hc; rw [if_pos hc]
  · intro e h
    split at h
    · cases h; rfl
    · cases h

example : findall exNamed [] (fun _ => true) 0 0 3 = .error .search := rfl

/-- each match once: the result has no repetition, and its members are exactly the existing
    nodes at or below the start node, within the depth limit, that satisfy the condition. -/
theorem findall_nodup (R : Tree) (a : Addr) (cond : Addr → Bool) (md mn mx : Nat) (l : List Addr)
    (h : findall R a cond md mn mx = .ok l) :
    l.Nodup ∧ ∀ x, x ∈ l ↔
      (∃ y, x = a ++ y) ∧ (sub R x).isSome ∧ (md = 0 ∨ depth x ≤ md) ∧ cond x = true := by
  rw [findall_eq_spec] at h
  split at h
  · cases h
  · simp only [Except.ok.injEq] at h
    subst h
    refine ⟨List.Sublist.nodup List.filter_sublist
      (List.Sublist.nodup List.filter_sublist (subtreeLocs_nodup R a)), ?_⟩
    intro x
    simp only [searched, List.mem_filter, mem_subtreeLocs_iff, depth_eq_length, Bool.or_eq_true,
      beq_iff_eq, decide_eq_true_eq]
    constructor
    · rintro ⟨⟨⟨y, rfl, hs⟩, hd⟩, hc⟩; exact ⟨⟨y, rfl⟩, hs, hd, hc⟩
    · rintro ⟨⟨y, rfl⟩, hs, hd, hc⟩; exact ⟨⟨⟨y, rfl, hs⟩, hd⟩, hc⟩

example : ∃ l, findall exNamed [0] (fun _ => true) 0 0 0 = .ok l ∧ l = [[0], [0, 0]] := ⟨_, rfl, rfl⟩

/-- `find`: the node when exactly one matches, `None` when none does, `SearchError` when
    several do. -/
theorem find_eq (R : Tree) (a : Addr) (cond : Addr → Bool) (md : Nat) :
    find R a cond md =
      match (searched R a md).filter cond with
      | [] => .ok none
      | [x] => .ok (some x)
      | _ :: _ :: _ => .error .search :=
  find_eq_spec R a cond md

example : find exNamed [] (nameIs exNamed ['b', 'a']) 0 = .ok (some [2]) := rfl
example : find exNamed [] (nameIs exNamed ['c']) 0 = .ok none := rfl
example : find exNamed [] (nameIs exNamed ['b']) 0 = .error .search := rfl

/-- `find_names` / `find_name`: the instance for "the node's name equals `name`". -/
theorem find_names_eq (R : Tree) (a : Addr) (name : Str) (md : Nat) :
    findNames R a name md = .ok ((searched R a md).filter fun b => nameAt R b == some name) ∧
    findName R a name md =
      match (searched R a md).filter fun b => nameAt R b == some name with
      | [] => .ok none
      | [x] => .ok (some x)
      | _ :: _ :: _ => .error .search := by
  constructor
  · unfold findNames; rw [findall_eq_spec]; simp; rfl
  · exact find_eq_spec R a _ md

example : findNames exNamed [] ['b'] 0 = .ok [[0, 0], [1]] := rfl

/-- `find_attrs` / `find_attr`: the instance for "attribute `k` (default `None`) `==` `v`". -/
theorem find_attrs_eq (R : Tree) (a : Addr) (k : Str) (v : Val) (md : Nat) :
    findAttrs R a k v md =
      .ok ((searched R a md).filter fun b => pyEq (((attrsAt R b).lookup k).getD .null) v) ∧
    findAttr R a k v md =
      match (searched R a md).filter fun b => pyEq (((attrsAt R b).lookup k).getD .null) v with
      | [] => .ok none
      | [x] => .ok (some x)
      | _ :: _ :: _ => .error .search := by
  constructor
  · unfold findAttrs; rw [findall_eq_spec]; simp; rfl
  · exact find_eq_spec R a _ md

example : findAttrs exNamed [] ['k'] (.int 1) 0 = .ok [[], [0, 0], [2, 0]] := rfl
example : findAttrs exNamed [] ['k'] .null 0 = .ok [[0], [2]] := rfl

/-- `find_paths` / `find_path`: the instance for "the node's `path_name`
    (= `sep + sep.join(names from the root)`) ends with the query stripped of trailing separator
    characters" — a *string* suffix; no depth limit. -/
theorem find_paths_eq (R : Tree) (sep : Str) (a : Addr) (q : Str) :
    findPaths R sep a q =
      .ok ((subtreeLocs R a).filter fun b =>
        (rstrip sep q).isSuffixOf (sep ++ join sep (pathNames R b))) ∧
    findPath R sep a q =
      match (subtreeLocs R a).filter fun b =>
        (rstrip sep q).isSuffixOf (sep ++ join sep (pathNames R b)) with
      | [] => .ok none
      | [x] => .ok (some x)
      | _ :: _ :: _ => .error .search := by
  have hs : searched R a 0 = subtreeLocs R a := by simp [searched]
  have hp : pathEndsWith R sep q = fun b => (rstrip sep q).isSuffixOf (sep ++ join sep (pathNames R b)) := by
    funext b; simp [pathEndsWith, endsWith, pathName_eq]
  constructor
  · unfold findPaths; rw [findall_eq_spec, hs, hp]; simp
  · unfold findPath; rw [find_eq_spec, hs, hp]; rfl

-- "b" is a string suffix of ".../ab" as well
example : findPaths exNamed ['/'] [] ['b'] = .ok [[0], [0, 0], [1], [2, 0]] := rfl
example : findPaths exNamed ['/'] [] ['/', 'b', '/'] = .ok [[0, 0], [1]] := rfl
example : findPath exNamed ['/'] [] ['a', '/', 'b'] = .ok (some [1]) := rfl

/-- `find_children`: exactly the children of the start node (the existing addresses `a ++ [k]`)
    that satisfy the condition, in order, with the count contract. -/
theorem find_children_eq (R : Tree) (a : Addr) (cond : Addr → Bool) (mn mx : Nat) :
    findChildren R a cond mn mx =
      (if (mn ≠ 0 ∧ ((childrenOf R a).filter cond).length < mn)
          ∨ (mx ≠ 0 ∧ ((childrenOf R a).filter cond).length > mx)
      then .error .search else .ok ((childrenOf R a).filter cond)) ∧
    (∀ x, x ∈ childrenOf R a ↔ ∃ k, x = a ++ [k] ∧ (sub R x).isSome) ∧
    (childrenOf R a).Nodup :=
  ⟨findChildren_eq_spec R a cond mn mx, mem_childrenOf_iff R a, childrenOf_nodup R a⟩

example : findChildren exNamed [] (fun b => b != [1]) 0 0 = .ok [[0], [2]] := rfl
example : findChildren exNamed [] (fun _ => true) 0 2 = .error .search := rfl

/-- on a BinaryNode, `find_children` looks at the two slots and skips the empty ones: it returns
    the matching children of the generic view. -/
theorem find_children_binary_eq (cond : Nat → Bool) (i : Nat) (n : Str) (at' : Attrs) (l r : BTree) :
    (findChildrenB cond (.node i n at' l r)).flatMap BTree.toTrees =
      (l.toTrees ++ r.toTrees).filter fun c => cond c.id :=
  findChildrenB_eq cond i n at' l r

example : (findChildrenB (fun _ => true) exBinNamed).map (fun b => b.toTrees.map Tree.id) = [[1]] := by
  decide

/-- `find_full_path` finds a node iff the full path exists: with a one-character separator that
    occurs in no name and sibling-unique names, the result is the node `v` exactly when `v` exists
    and the names from the root to `v`, joined by the separator, are the query without its
    leading / trailing separators. -/
theorem find_full_path_iff (R : Tree) (s : Char) (a : Addr) (q : Str)
    (hsep : ∀ (x : Addr) (t : Tree), sub R x = some t → s ∉ t.name) (hu : SibUnique R) (v : Addr) :
    findFullPath R [s] a q = .ok (some v) ↔
      (sub R v).isSome ∧ join [s] (pathNames R v) = lstrip [s] (rstrip [s] q) :=
  findFullPath_iff s a q hsep hu v

example : (∀ (x : Addr) (t : Tree), sub exNamed x = some t → '/' ∉ t.name) ∧ SibUnique exNamed :=
  ⟨noSep_of_check '/' exNamed (by decide), sibUnique_of_check exNamed (by decide)⟩
example : findFullPath exNamed ['/'] [1] ['/', 'a', '/', 'b', 'a', '/', 'a', 'b', '/'] = .ok (some [2, 0]) := rfl
example : findFullPath exNamed ['/'] [] ['a', '/', 'b', '/', 'b'] = .ok none := rfl
example : findFullPath exNamed ['/'] [] ['b'] = .error .value := rfl

/-- `find_relative_paths`: the accumulator-style `resolve` computes exactly what the path
    denotes (`resolveSpec`: `.` stay, `..` parent or error at the root, `*` all children in
    order, a name that child, a missing name an error unless the query has a wildcard); the
    public function adds the count contract. -/
theorem relative_eq_spec (R : Tree) (wild : Bool) (cs : List Str) (a : Addr) (acc : List Addr) :
    resolve R wild cs a acc = (resolveSpec R wild cs a).map (acc ++ ·) :=
  resolve_eq_spec R wild cs a acc

example : findRelativePaths exNamed ['/'] [0, 0] ['.', '.', '/', '.', '.', '/', '*'] 0 0
    = .ok [[0], [1], [2]] := rfl
example : findRelativePaths exNamed ['/'] [0] ['.', '.', '/', '.', '.'] 0 0 = .error .search := rfl
example : findRelativePaths exNamed ['/'] [] ['*', '/', 'a', 'b'] 0 0 = .ok [[2, 0]] := rfl
example : findRelativePaths exNamed ['/'] [] ['c'] 0 0 = .error .search := rfl

/-- the public `find_relative_paths` (query not starting with the separator): strip, split,
    denotation of the components from the start node, then the count contract. -/
theorem relative_paths_eq (R : Tree) (sep : Str) (a : Addr) (q : Str) (mn mx : Nat)
    (hrel : startsWith q sep = false) :
    findRelativePaths R sep a q mn mx =
      match resolveSpec R ((lstrip sep (rstrip sep q)).contains '*')
          (split sep (lstrip sep (rstrip sep q))) a with
      | .error e => .error e
      | .ok l =>
        if (mn ≠ 0 ∧ l.length < mn) ∨ (mx ≠ 0 ∧ l.length > mx) then .error .search else .ok l :=
  findRelativePaths_eq R sep a q mn mx hrel

example : startsWith ['*', '/', '.', '.'] ['/'] = false
    ∧ findRelativePaths exNamed ['/'] [] ['*', '/', '.', '.'] 0 2 = .error .search
    ∧ findRelativePaths exNamed ['/'] [] ['*', '/', '.', '.'] 3 3 = .ok [[], [], []] := ⟨rfl, rfl, rfl⟩

/-- looking up a node's own `path_name` from anywhere in the tree finds that node (non-empty,
    separator-free, sibling-unique names). -/
theorem find_full_path_path_name (R : Tree) (s : Char) (a v : Addr)
    (hsep : ∀ (x : Addr) (t : Tree), sub R x = some t → s ∉ t.name)
    (hne : ∀ (x : Addr) (t : Tree), sub R x = some t → t.name ≠ [])
    (hu : SibUnique R) (hv : (sub R v).isSome) :
    findFullPath R [s] a (pathName R [s] v) = .ok (some v) :=
  findFullPath_pathName s a v hsep hne hu hv

example : (∀ (x : Addr) (t : Tree), sub exNamed x = some t → t.name ≠ []) :=
  fun x t h => by
    have := allSub_sub (fun t => !t.name.isEmpty) x exNamed t (by decide) h
    intro e; simp [e] at this
example : pathName exNamed ['/'] [2, 0] = ['/', 'a', '/', 'b', 'a', '/', 'a', 'b'] := by decide

/-- `find_full_path_iff` for EVERY non-empty separator (`"::"`, `"->"`, ...): the names share no character with
    the separator (`Store.Free`; for a one-character separator this is `s ∉ name`, `Store.free_singleton`).  Python's
    `lstrip` / `rstrip` take the separator as a character SET, which is what the model does. -/
theorem find_full_path_iff_multi (R : Tree) (sp : Str) (hsp : sp ≠ []) (a : Addr) (q : Str)
    (hfree : ∀ (x : Addr) (t : Tree), sub R x = some t → Store.Free sp t.name) (hu : SibUnique R) (v : Addr) :
    findFullPath R sp a q = .ok (some v) ↔
      (sub R v).isSome ∧ join sp (pathNames R v) = lstrip sp (rstrip sp q) :=
  findFullPath_iff_multi sp hsp a q hfree hu v

/-- looking up a node's own `path_name` from anywhere in the tree finds that node, for every non-empty separator,
    also with any run of separator characters in front of / behind the path. -/
theorem find_full_path_path_name_multi (R : Tree) (sp : Str) (hsp : sp ≠ []) (a v : Addr) (lead trail : Str)
    (hl : ∀ x ∈ lead, x ∈ sp) (ht : ∀ x ∈ trail, x ∈ sp)
    (hfree : ∀ (x : Addr) (t : Tree), sub R x = some t → Store.Free sp t.name)
    (hne : ∀ (x : Addr) (t : Tree), sub R x = some t → t.name ≠ [])
    (hu : SibUnique R) (hv : (sub R v).isSome) :
    findFullPath R sp a (lead ++ pathName R sp v ++ trail) = .ok (some v) :=
  findFullPath_pathName_multi sp hsp a v lead trail hl ht hfree hne hu hv

/-- `join (split x) = x` for every string and every non-empty separator: what `find_paths` / `find_full_path` cut a
    query into is the query -/
theorem join_split_multi (sp : Str) (hsp : sp ≠ []) (x : Str) : join sp (split sp x) = x :=
  Search.join_split_multi sp hsp x

-- the hypotheses are met by the example tree with the separator "::", and the lookups compute
example : (∀ (x : Addr) (t : Tree), sub exNamed x = some t → Store.Free [':', ':'] t.name) :=
  fun x t h => by
    have := allSub_sub (fun t => t.name.all fun c => !([':', ':'] : Str).contains c) x exNamed t (by decide) h
    intro c hc
    have h2 := List.all_eq_true.1 this c hc
    intro hm
    simp only [Bool.not_eq_true'] at h2
    have : ([':', ':'] : Str).contains c = true := by simpa using hm
    rw [this] at h2; exact absurd h2 (by decide)
example : findFullPath exNamed [':', ':'] [1] [':', ':', 'a', ':', ':', 'b', 'a', ':', ':', 'a', 'b', ':'] = .ok (some [2, 0]) := rfl
example : findFullPath exNamed [':', ':'] [] (pathName exNamed [':', ':'] [0, 0]) = .ok (some [0, 0]) := rfl
-- just outside the hypothesis (a name that ENDS in a separator character) the character-set strip eats it: K7's shape
example : findFullPath (.node 0 ['r'] [] [.node 1 ['a', ':'] [] []]) [':', ':'] []
    (pathName (.node 0 ['r'] [] [.node 1 ['a', ':'] [] []]) [':', ':'] [0]) = .ok none := rfl

/-- the located pre-order behind `findall`, `descendants`, `leaves` is C04's model of
    `preorder_iter` (no stop condition): same node identities in the same order, whenever the
    condition is a function of the node's identity. -/
theorem preorder_is_iter_preorder (R : Tree) (filt : Addr → Bool) (f : Nat → Bool) (md : Nat)
    (hf : ∀ (b : Addr) (s : Tree), sub R b = some s → filt b = f s.id)
    (t : Tree) (a : Addr) (h : sub R a = some t) :
    (preorderFrom R filt md a).map (idAt R) =
      (Iter.preImpl ⟨f, fun _ => false, md⟩ (a.length + 1) t).map fun s => some s.id := by
  simp only [preorderFrom, h]
  exact preAt_ids R filt f md hf t a h

example : (preorderFrom exNamed (fun _ => true) 2 []).map (idAt exNamed) = [some 0, some 1, some 3, some 4] := by
  decide

end C09
