import BigtreeModel.Dag
import BigtreeProofs.Lemmas.DagIter
import BigtreeProofs.Lemmas.DagCons
import BigtreeProofs.Lemmas.DagExport
import BigtreeProofs.Properties.C16
/-! # C17 — DAG exports are complete; re-importing them reproduces the DAG

Corollaries of C16 (`dag_iter_edges`: the iterator every exporter is built on yields every edge
exactly once) and of the constructor lemma (`Tracks.setParent`: adding pairs through
`child.parents = [parent]` stores exactly the acyclic relation and refuses the first pair that
closes a cycle). Node names are the ids (distinct by hypothesis). -/

namespace C17
open Dag List

/-! ## list format -/

/-- `dag_to_list` lists every edge exactly once, as (parent, child). -/
theorem list_export_each_edge_once {g : Dag} (wf : DWF g) (hc : g.Connected) {v : Nat}
    (hv : v ∈ g.nodes) : (g.dagToList v).Perm g.edges :=
  C16.dag_iter_edges_connected wf hc hv

/-- **Tier 1.** `list_to_dag (dag_to_list g)` succeeds and is a well-formed DAG with the same
    edge set and the same node names as `g` (weakly connected, at least one edge). -/
theorem list_roundtrip {g : Dag} (wf : DWF g) (hc : g.Connected) {v : Nat} (hv : v ∈ g.nodes)
    (hne : g.edges ≠ []) :
    ∃ b, listToDag (g.dagToList v) = .ok b ∧ b.dag.DWF ∧
      (∀ e, e ∈ b.dag.edges ↔ e ∈ g.edges) ∧ (∀ x, x ∈ b.dag.nodes ↔ x ∈ g.nodes) := by
  have hperm := list_export_each_edge_once wf hc hv
  have hrel : ∀ e, e ∈ g.dagToList v ↔ e ∈ g.edges := fun e => hperm.mem_iff
  have hne' : g.dagToList v ≠ [] := fun h => hne (by simpa [h] using hperm.symm)
  obtain ⟨b, hb, t, hk, _⟩ := (listToDag_spec _ hne').1
    (relAcyclic_of_edges wf fun e he => (hrel e).1 he)
  exact ⟨b, hb, rebuilt_of_tracks wf hc hne hrel t
    (endsOnly_nodes wf (fun e he => (hrel e).1 he) hk)⟩

theorem diamond_connected : C16.diamond.Connected := by
  intro u hu w hw
  have h0 : ∀ x ∈ C16.diamond.nodes, C16.diamond.UReach 0 x :=
    C16.connected_from_of_run (by decide)
  have h1 : ∀ x ∈ C16.diamond.nodes, C16.diamond.UReach 1 x :=
    C16.connected_from_of_run (by decide)
  have h2 : ∀ x ∈ C16.diamond.nodes, C16.diamond.UReach 2 x :=
    C16.connected_from_of_run (by decide)
  have h3 : ∀ x ∈ C16.diamond.nodes, C16.diamond.UReach 3 x :=
    C16.connected_from_of_run (by decide)
  have : u = 0 ∨ u = 1 ∨ u = 2 ∨ u = 3 := by
    simpa [C16.diamond, ofEdges, List.range, List.range.loop] using hu
  rcases this with rfl | rfl | rfl | rfl
  · exact h0 w hw
  · exact h1 w hw
  · exact h2 w hw
  · exact h3 w hw

example : ∃ b, listToDag (C16.diamond.dagToList 3) = .ok b ∧ b.dag.DWF ∧
    (∀ e, e ∈ b.dag.edges ↔ e ∈ C16.diamond.edges) ∧ (∀ x, x ∈ b.dag.nodes ↔ x ∈ C16.diamond.nodes) :=
  list_roundtrip C16.diamond_wf diamond_connected (by decide) (by decide)

/-- `list_to_dag` refuses (TreeError) every relation that contains a directed cycle … -/
theorem list_cycle_refused (rel : List Edge) (h : ¬ RelAcyclic rel) :
    listToDag rel = .error .tree := by
  have hne : rel ≠ [] := by
    rintro rfl
    apply h
    intro x hx
    cases hx with
    | edge hb => simp [relGraph, ofEdges] at hb
    | step hb _ => simp [relGraph, ofEdges] at hb
  exact (listToDag_spec rel hne).2 h

/-- … and builds exactly the relation when it is non-empty and acyclic. -/
theorem list_acyclic_accepted (rel : List Edge) (hne : rel ≠ []) (h : RelAcyclic rel) :
    ∃ b, listToDag rel = .ok b ∧ b.dag.DWF ∧ (∀ e, e ∈ b.dag.edges ↔ e ∈ rel) :=
  let ⟨b, hb, t, _, _⟩ := (listToDag_spec rel hne).1 h
  ⟨b, hb, t.dwf h, fun _ => t.edges_iff⟩

example : listToDag [(0, 1), (1, 2), (2, 0)] = .error .tree :=
  list_cycle_refused _ (fun h => h 0 (.step (b := 1) (by decide) (.step (b := 2) (by decide) (.edge (by decide)))))

end C17
