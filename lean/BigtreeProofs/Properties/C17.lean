import BigtreeModel.Dag
import BigtreeProofs.Lemmas.DagIter
import BigtreeProofs.Lemmas.DagCons
import BigtreeProofs.Lemmas.DagExport
import BigtreeProofs.Lemmas.DagRows
import BigtreeProofs.Lemmas.DagDict
import BigtreeProofs.Lemmas.DagConsAttrs
import BigtreeProofs.Lemmas.DagExportAttrs
import BigtreeProofs.Properties.C16
/-! # C17 — DAG exports are complete; re-importing them reproduces the DAG

Corollaries of C16 (`dag_iter_edges`: the iterator every exporter is built on yields every edge
exactly once) and of the constructor lemma (`Tracks.setParent`: adding pairs through
`child.parents = [parent]` stores exactly the acyclic relation and refuses the first pair that
closes a cycle). Node names are the ids (distinct by hypothesis). -/

namespace C17
open Dag List

/-! ## list format -/

/-- `dag_to_list` lists every edge exactly once, as (parent, child). -/
theorem list_export_each_edge_once {g : Dag} (wf : DWF g) (hc : g.Connected) {v : Nat}
    (hv : v ∈ g.nodes) : (g.dagToList v).Perm g.edges :=
  C16.dag_iter_edges_connected wf hc hv

/-- **Tier 1.** `list_to_dag (dag_to_list g)` succeeds and is a well-formed DAG with the same
    edge set and the same node names as `g` (weakly connected, at least one edge). -/
theorem list_roundtrip {g : Dag} (wf : DWF g) (hc : g.Connected) {v : Nat} (hv : v ∈ g.nodes)
    (hne : g.edges ≠ []) :
    ∃ b, listToDag (g.dagToList v) = .ok b ∧ b.dag.DWF ∧
      (∀ e, e ∈ b.dag.edges ↔ e ∈ g.edges) ∧ (∀ x, x ∈ b.dag.nodes ↔ x ∈ g.nodes) := by
  have hperm := list_export_each_edge_once wf hc hv
  have hrel : ∀ e, e ∈ g.dagToList v ↔ e ∈ g.edges := fun e => hperm.mem_iff
  have hne' : g.dagToList v ≠ [] := fun h => hne (by simpa [h] using hperm.symm)
  obtain ⟨b, hb, t, hk, _⟩ := (listToDag_spec _ hne').1
    (relAcyclic_of_edges wf fun e he => (hrel e).1 he)
  exact ⟨b, hb, rebuilt_of_tracks wf hc hne hrel t
    (endsOnly_nodes wf (fun e he => (hrel e).1 he) hk)⟩

theorem diamond_connected : C16.diamond.Connected := C16.connected_of_runs (by decide)

example : ∃ b, listToDag (C16.diamond.dagToList 3) = .ok b ∧ b.dag.DWF ∧
    (∀ e, e ∈ b.dag.edges ↔ e ∈ C16.diamond.edges) ∧ (∀ x, x ∈ b.dag.nodes ↔ x ∈ C16.diamond.nodes) :=
  list_roundtrip C16.diamond_wf diamond_connected (by decide) (by decide)

/-- `list_to_dag` refuses (TreeError) every relation that contains a directed cycle … -/
theorem list_cycle_refused (rel : List Edge) (h : ¬ RelAcyclic rel) :
    listToDag rel = .error .tree := by
  have hne : rel ≠ [] := by
    rintro rfl
    apply h
    intro x hx
    cases hx with
    | edge hb => simp [relGraph, ofEdges] at hb
    | step hb _ => simp [relGraph, ofEdges] at hb
  exact (listToDag_spec rel hne).2 h

/-- … and builds exactly the relation when it is non-empty and acyclic. -/
theorem list_acyclic_accepted (rel : List Edge) (hne : rel ≠ []) (h : RelAcyclic rel) :
    ∃ b, listToDag rel = .ok b ∧ b.dag.DWF ∧ (∀ e, e ∈ b.dag.edges ↔ e ∈ rel) :=
  let ⟨b, hb, t, _, _⟩ := (listToDag_spec rel hne).1 h
  ⟨b, hb, t.dwf h, fun _ => t.edges_iff⟩

example : listToDag [(0, 1), (1, 2), (2, 0)] = .error .tree :=
  list_cycle_refused _ (fun h => h 0 (.step (b := 1) (by decide) (.step (b := 2) (by decide) (.edge (by decide)))))

/-! ## dictionary format -/

theorem iter_parent {g : Dag} (wf : DWF g) {v : Nat} (hv : v ∈ g.nodes) :
    ∀ e ∈ g.dagIter v, e.1 ∈ g.parents e.2 := by
  intro e he
  obtain ⟨h1, h2⟩ := mem_edges.1 ((mem_dagIter wf hv).1 he).1
  exact (wf.chi_closed _ h1 _ h2).2

/-- `dag_to_dict` succeeds; its parent lists mention every edge exactly once; its keys are
    exactly the node names (each once, being dictionary keys); parent-less entries are roots;
    every entry carries the requested attributes of its node. -/
theorem dict_export_each_edge_once {g : Dag} (wf : DWF g) (hc : g.Connected) {v : Nat}
    (hv : v ∈ g.nodes) (hne : g.edges ≠ []) (sel : AttrSel) :
    ∃ d, g.dagToDict sel v = some d ∧ (dictRel d).Perm g.edges ∧ (dictKeys d).Nodup ∧
      (∀ x, x ∈ dictKeys d ↔ x ∈ g.nodes) ∧
      (∀ ent ∈ d, ent.parents = none → g.parents ent.key = []) ∧
      (∀ ent ∈ d, ent.attrs = attrUpdate [] (selAttrs sel (g.attrs ent.key))) := by
  obtain ⟨d, hd, inv⟩ := dagToDict_spec wf sel hv
  have hiter := C16.dag_iter_edges_connected wf hc hv
  have hmem : ∀ e, e ∈ dictRel d ↔ e ∈ g.edges := fun e =>
    (inv.mem_dictRel (iter_parent wf hv)).trans hiter.mem_iff
  refine ⟨d, hd, ?_, inv.keys_nodup, ?_, inv.none_root, inv.attrs_spec⟩
  · exact (perm_ext_iff_of_nodup inv.nodup_dictRel (nodup_edges wf)).2 hmem
  · intro x
    constructor
    · intro hx
      obtain ⟨ent, hent, rfl⟩ := mem_map.1 hx
      exact inv.key_mem ent hent
    · intro hx
      obtain ⟨e, he, hxe⟩ := node_has_edge wf hc hne hx
      have heit : e ∈ g.dagIter v := hiter.mem_iff.2 he
      rcases hxe with rfl | rfl
      · by_cases hroot : g.parents e.1 = []
        · exact inv.roots e heit hroot
        · obtain ⟨p, hp⟩ := exists_mem_of_ne_nil _ hroot
          have hpe := wf.par_closed _ hx _ hp
          have : (p, e.1) ∈ g.dagIter v := hiter.mem_iff.2 (mem_edges.2 ⟨hpe.1, hpe.2⟩)
          exact inv.covers _ this
      · exact inv.covers e heit

/-- **Tier 1.** `dict_to_dag (dag_to_dict g)` succeeds and is a well-formed DAG with the same
    edge set, the same node names as `g`, and every node carries exactly the attribute values
    the export wrote for it (`expAttrs`: `all_attrs` / `attr_dict` selection of its attributes). -/
theorem dict_roundtrip {g : Dag} (wf : DWF g) (hc : g.Connected) {v : Nat} (hv : v ∈ g.nodes)
    (hne : g.edges ≠ []) (sel : AttrSel) :
    ∃ d b, g.dagToDict sel v = some d ∧ dictToDag d = .ok b ∧ b.dag.DWF ∧
      (∀ e, e ∈ b.dag.edges ↔ e ∈ g.edges) ∧ (∀ x, x ∈ b.dag.nodes ↔ x ∈ g.nodes) ∧
      (∀ x ∈ g.nodes, ∀ k, (b.dag.attrs x).lookup k = (expAttrs g sel x).lookup k) := by
  obtain ⟨d, hd, hperm, _, hkeys, _, hattrs⟩ := dict_export_each_edge_once wf hc hv hne sel
  have hrel : ∀ e, e ∈ dictRel d ↔ e ∈ g.edges := fun e => hperm.mem_iff
  have hrelne : dictRel d ≠ [] := fun h => hne (by simpa [h] using hperm.symm)
  have hdne : d ≠ [] := by rintro rfl; exact hrelne rfl
  have hS : ∀ ent ∈ d, ent.key ∈ g.nodes ∧ ∀ p ∈ ent.parents.getD [], p ∈ g.nodes := by
    intro ent hent
    refine ⟨(hkeys _).1 (mem_map.2 ⟨ent, hent, rfl⟩), fun p hp => ?_⟩
    have : (p, ent.key) ∈ dictRel d := Dag.mem_dictRel.2 ⟨ent, hent, rfl, hp⟩
    exact (mem_edges.1 ((hrel _).1 this)).1
  obtain ⟨b, hb, t, hnodes⟩ := (dictToDag_spec (S := (· ∈ g.nodes)) d hdne hS).1
    (relAcyclic_of_edges wf fun e he => (hrel e).1 he) hrelne
  obtain ⟨h1, h2, h3⟩ := rebuilt_of_tracks wf hc hne hrel t hnodes
  refine ⟨d, b, hd, hb, h1, h2, h3, ?_⟩
  intro x hx k
  obtain ⟨ent, hent, rfl⟩ := mem_map.1 ((hkeys x).2 hx)
  exact dictToDag_attrs (expAttrs g sel)
    (fun e he => ⟨hattrs e he, nodup_keysOf_expAttrs g sel e.key⟩) hb ent hent k

/-- diamond with attributes on two nodes (one private, one null) -/
def diamondA : Dag := ofEdges 4 [(0, 1), (0, 2), (1, 3), (2, 3)] fun i =>
  if i = 0 then [("s".toList, .int 1), ("_h".toList, .int 9)]
  else if i = 3 then [("z".toList, .str "x".toList), ("s".toList, .null)] else []

theorem diamondA_wf : DWF diamondA :=
  ⟨by decide, by decide, by decide, by decide, by decide,
   acyclic_of_rank id (by decide) (by decide)⟩

theorem diamondA_connected : diamondA.Connected := C16.connected_of_runs (by decide)

example : ∃ d b, diamondA.dagToDict .all 3 = some d ∧ dictToDag d = .ok b ∧ b.dag.DWF ∧
    (∀ e, e ∈ b.dag.edges ↔ e ∈ diamondA.edges) ∧ (∀ x, x ∈ b.dag.nodes ↔ x ∈ diamondA.nodes) ∧
    (∀ x ∈ diamondA.nodes, ∀ k, (b.dag.attrs x).lookup k = (expAttrs diamondA .all x).lookup k) :=
  dict_roundtrip diamondA_wf diamondA_connected (by decide) (by decide) .all
example : expAttrs diamondA .all 0 = [("s".toList, .int 1)] := by decide

example : (C16.diamond.dagToDict .all 3).map (fun d => d.map fun e => (e.key, e.parents)) =
    some [(3, some [1, 2]), (0, none), (1, some [0]), (2, some [0])] := by decide

/-- `dict_to_dag` refuses (TreeError) every dictionary whose parent lists contain a cycle. -/
theorem dict_cycle_refused (d : List DEntry) (h : ¬ RelAcyclic (dictRel d)) :
    dictToDag d = .error .tree := by
  have hne : d ≠ [] := by rintro rfl; exact h relAcyclic_nil
  exact (dictToDag_spec (S := fun _ => True) d hne (fun _ _ => ⟨trivial, fun _ _ => trivial⟩)).2 h

/-! ## DataFrame format -/

/-- `dag_to_dataframe`: the rows with a parent mention every edge exactly once; no row is
    repeated; the names in the frame are exactly the node names; parent-less rows are roots. -/
theorem rows_export_each_edge_once {g : Dag} (wf : DWF g) (hc : g.Connected) {v : Nat}
    (hv : v ∈ g.nodes) (hne : g.edges ≠ []) (sel : AttrSel) :
    (rowsRel (g.dagToRows sel v)).Perm g.edges ∧ (g.dagToRows sel v).Nodup ∧
      (∀ x, (∃ r ∈ g.dagToRows sel v, r.name = x) ↔ x ∈ g.nodes) ∧
      (∀ r ∈ g.dagToRows sel v, r.parent = none → g.parents r.name = []) := by
  have hiter := C16.dag_iter_edges_connected wf hc hv
  have hmem : ∀ e, e ∈ rowsRel (g.dagToRows sel v) ↔ e ∈ g.edges := fun e =>
    mem_rowsRel_dagToRows.trans hiter.mem_iff
  refine ⟨(perm_ext_iff_of_nodup nodup_rowsRel_dagToRows (nodup_edges wf)).2 hmem,
    nodup_dropDups _, ?_, fun r hr hp => (root_rows_dagToRows hr hp).1⟩
  intro x
  constructor
  · rintro ⟨r, hr, rfl⟩
    cases hp : r.parent with
    | none =>
      obtain ⟨_, e, he, hname⟩ := root_rows_dagToRows hr hp
      rw [← hname]
      exact (mem_edges.1 (hiter.mem_iff.1 he)).1
    | some p =>
      have : (p, r.name) ∈ rowsRel (g.dagToRows sel v) := mem_rowsRel.2 ⟨r, hr, hp, rfl⟩
      obtain ⟨h1, h2⟩ := mem_edges.1 ((hmem _).1 this)
      exact (wf.chi_closed _ h1 _ h2).1
  · intro hx
    obtain ⟨e, he, hxe⟩ := node_has_edge wf hc hne hx
    have child_row : ∀ e' ∈ g.edges, ∃ r ∈ g.dagToRows sel v, r.name = e'.2 := by
      intro e' he'
      obtain ⟨r, hr, _, hn⟩ := mem_rowsRel.1 ((hmem e').2 he')
      exact ⟨r, hr, hn⟩
    rcases hxe with rfl | rfl
    · by_cases hroot : g.parents e.1 = []
      · refine ⟨_, mem_dagToRows.2 ⟨_, mem_rawRows.2 ⟨e, hiter.mem_iff.2 he,
          Or.inl ⟨hroot, rfl⟩⟩, rfl⟩, rfl⟩
      · obtain ⟨p, hp⟩ := exists_mem_of_ne_nil _ hroot
        have hpe := wf.par_closed _ hx _ hp
        exact child_row (p, e.1) (mem_edges.2 ⟨hpe.1, hpe.2⟩)
    · exact child_row e he

theorem rowsConsistent_dagToRows (g : Dag) (sel : AttrSel) (v : Nat) :
    rowsConsistent (g.dagToRows sel v) = true := by
  have key : ∀ r ∈ g.dagToRows sel v, r.attrs =
      (columnsOf (g.rawRows sel v)).map fun k =>
        (k, ((attrUpdate [] (selAttrs sel (g.attrs r.name))).lookup k).getD .null) := by
    intro r hr
    obtain ⟨r0, hr0, rfl⟩ := mem_dagToRows.1 hr
    obtain ⟨e, _, ⟨_, rfl⟩ | rfl⟩ := mem_rawRows.1 hr0 <;> rfl
  unfold rowsConsistent
  rw [all_eq_true]
  intro r hr
  rw [all_eq_true]
  intro r' hr'
  by_cases hn : r.name = r'.name
  · have : r.attrs = r'.attrs := by rw [key r hr, key r' hr', hn]
    simp [this]
  · simp [hn]

theorem attrs_of_mem_dagToRows {g : Dag} {sel : AttrSel} {v : Nat} {r : Row}
    (hr : r ∈ g.dagToRows sel v) :
    r.attrs = (columnsOf (g.rawRows sel v)).map (fun k =>
        (k, ((expAttrs g sel r.name).lookup k).getD .null)) ∧
      ∀ k ∈ keysOf (expAttrs g sel r.name), k ∈ columnsOf (g.rawRows sel v) := by
  obtain ⟨r0, hr0, rfl⟩ := mem_dagToRows.1 hr
  obtain ⟨e, _, ⟨_, rfl⟩ | rfl⟩ := mem_rawRows.1 hr0
  · exact ⟨rfl, fun k hk => mem_columnsOf hr0 hk⟩
  · exact ⟨rfl, fun k hk => mem_columnsOf hr0 hk⟩

/-- **Tier 1.** `dataframe_to_dag (dag_to_dataframe g)` succeeds and is a well-formed DAG with
    the same edge set and the same node names as `g`, and every node carries exactly the non-null
    attribute values the export wrote for it (a null cell — an `attr_dict` attribute the node
    lacks, or a column another node introduced — is read back as "no attribute"). -/
theorem rows_roundtrip {g : Dag} (wf : DWF g) (hc : g.Connected) {v : Nat} (hv : v ∈ g.nodes)
    (hne : g.edges ≠ []) (sel : AttrSel) :
    ∃ b, rowsToDag (g.dagToRows sel v) = .ok b ∧ b.dag.DWF ∧
      (∀ e, e ∈ b.dag.edges ↔ e ∈ g.edges) ∧ (∀ x, x ∈ b.dag.nodes ↔ x ∈ g.nodes) ∧
      (∀ x ∈ g.nodes, ∀ k, (b.dag.attrs x).lookup k =
        match (expAttrs g sel x).lookup k with
        | some .null => none
        | o => o) := by
  obtain ⟨hperm, _, hnames, _⟩ := rows_export_each_edge_once wf hc hv hne sel
  have hrel : ∀ e, e ∈ rowsRel (g.dagToRows sel v) ↔ e ∈ g.edges := fun e => hperm.mem_iff
  have hrelne : rowsRel (g.dagToRows sel v) ≠ [] := fun h => hne (by simpa [h] using hperm.symm)
  have hrne : g.dagToRows sel v ≠ [] := by
    intro h; rw [h] at hrelne; exact hrelne rfl
  have hS : ∀ r ∈ g.dagToRows sel v, r.name ∈ g.nodes ∧ ∀ p, r.parent = some p → p ∈ g.nodes := by
    intro r hr
    refine ⟨(hnames _).1 ⟨r, hr, rfl⟩, fun p hp => ?_⟩
    have : (p, r.name) ∈ rowsRel (g.dagToRows sel v) := mem_rowsRel.2 ⟨r, hr, hp, rfl⟩
    exact (mem_edges.1 ((hrel _).1 this)).1
  obtain ⟨b, hb, t, hnodes⟩ := (rowsToDag_spec (S := (· ∈ g.nodes)) _ hrne
    (rowsConsistent_dagToRows g sel v) hS).1 (relAcyclic_of_edges wf fun e he => (hrel e).1 he)
  obtain ⟨h1, h2, h3⟩ := rebuilt_of_tracks wf hc hne hrel t hnodes
  refine ⟨b, hb, h1, h2, h3, ?_⟩
  intro x hx k
  obtain ⟨r, hr, rfl⟩ := (hnames x).2 hx
  have hcols := nodup_columnsOf (g.rawRows sel v)
  have hA := rowsToDag_attrs
    (fun y => nonNull ((columnsOf (g.rawRows sel v)).map fun c =>
      (c, ((expAttrs g sel y).lookup c).getD .null)))
    (rows := g.dagToRows sel v) (b := b)
    (fun r' hr' => ⟨by rw [(attrs_of_mem_dagToRows hr').1], nodup_keysOf_nonNull (by
      simpa [keysOf, Function.comp_def] using hcols)⟩) hb r hr k
  rw [hA]
  exact lookup_nonNull_align hcols (attrs_of_mem_dagToRows hr).2 k

example : ∃ b, rowsToDag (diamondA.dagToRows .all 3) = .ok b ∧ b.dag.DWF ∧
    (∀ e, e ∈ b.dag.edges ↔ e ∈ diamondA.edges) ∧ (∀ x, x ∈ b.dag.nodes ↔ x ∈ diamondA.nodes) ∧
    (∀ x ∈ diamondA.nodes, ∀ k, (b.dag.attrs x).lookup k =
      match (expAttrs diamondA .all x).lookup k with
      | some .null => none
      | o => o) :=
  rows_roundtrip diamondA_wf diamondA_connected (by decide) (by decide) .all
example : (diamondA.dagToRows .all 3).map (·.attrs) =
    [[("s".toList, .null), ("z".toList, .str "x".toList)],
     [("s".toList, .null), ("z".toList, .str "x".toList)],
     [("s".toList, .int 1), ("z".toList, .null)],
     [("s".toList, .null), ("z".toList, .null)],
     [("s".toList, .null), ("z".toList, .null)]] := by decide

/-- with `all_attrs=True` the exported attributes of a node are exactly its public ones
    (not `name`, not `_…`), whatever their order -/
theorem all_attrs_exported {g : Dag} {x : Nat} (h : (keysOf (g.attrs x)).Nodup) (k : Str) :
    (expAttrs g .all x).lookup k =
      if k != "name".toList && k.head? != some '_' then (g.attrs x).lookup k else none :=
  lookup_expAttrs_all h k

example : (C16.diamond.dagToRows .all 3).map (fun r => (r.name, r.parent)) =
    [(3, some 1), (3, some 2), (0, none), (1, some 0), (2, some 0)] := by decide

/-- `dataframe_to_dag` refuses every frame whose (parent, child) rows contain a cycle: with
    TreeError when it gets as far as building (one attribute tuple per child name), otherwise
    already with the ValueError of the attribute check. -/
theorem rows_cycle_refused (rows : List Row) (h : ¬ RelAcyclic (rowsRel rows)) :
    rowsToDag rows = .error .tree ∨
      (rowsConsistent rows = false ∧ rowsToDag rows = .error .value) := by
  have hne : rows ≠ [] := by rintro rfl; exact h relAcyclic_nil
  cases hcons : rowsConsistent rows with
  | true =>
    exact Or.inl ((rowsToDag_spec (S := fun _ => True) rows hne hcons
      (fun _ _ => ⟨trivial, fun _ _ => trivial⟩)).2 h)
  | false =>
    refine Or.inr ⟨rfl, ?_⟩
    have hemp : rows.isEmpty = false := by cases rows <;> simp_all
    simp [rowsToDag, hemp, hcons]

/-! ## the two summary statements of DESIGN §6 -/

/-- **Tier 1.** Every exporter lists every edge exactly once (as a permutation of the edge
    list, read off the export the way the matching constructor reads it). -/
theorem export_each_edge_once {g : Dag} (wf : DWF g) (hc : g.Connected) {v : Nat}
    (hv : v ∈ g.nodes) (hne : g.edges ≠ []) (sel : AttrSel) :
    (g.dagToList v).Perm g.edges ∧
    (∃ d, g.dagToDict sel v = some d ∧ (dictRel d).Perm g.edges) ∧
    (rowsRel (g.dagToRows sel v)).Perm g.edges :=
  ⟨list_export_each_edge_once wf hc hv,
   let ⟨d, hd, hp, _⟩ := dict_export_each_edge_once wf hc hv hne sel; ⟨d, hd, hp⟩,
   (rows_export_each_edge_once wf hc hv hne sel).1⟩

example : (C16.diamond.dagToList 3).Perm C16.diamond.edges ∧
    (∃ d, C16.diamond.dagToDict .all 3 = some d ∧ (dictRel d).Perm C16.diamond.edges) ∧
    (rowsRel (C16.diamond.dagToRows .all 3)).Perm C16.diamond.edges :=
  export_each_edge_once C16.diamond_wf diamond_connected (by decide) (by decide) .all

/-- **Tier 1.** All three constructors refuse a relation that contains a directed cycle
    (TreeError; for frames possibly the earlier ValueError of the attribute check). -/
theorem cycle_refused :
    (∀ rel : List Edge, ¬ RelAcyclic rel → listToDag rel = .error .tree) ∧
    (∀ d : List DEntry, ¬ RelAcyclic (dictRel d) → dictToDag d = .error .tree) ∧
    (∀ rows : List Row, ¬ RelAcyclic (rowsRel rows) →
      rowsToDag rows = .error .tree ∨ (rowsConsistent rows = false ∧ rowsToDag rows = .error .value)) :=
  ⟨list_cycle_refused, dict_cycle_refused, rows_cycle_refused⟩

end C17
