import BigtreeModel.Export
import BigtreeModel.Newick
import BigtreeProofs.Lemmas.ExportRoundtrip
import BigtreeProofs.Lemmas.ExportRows
import BigtreeProofs.Lemmas.NewickRoundtrip
import BigtreeProofs.Lemmas.NewickAttrs
/-!
# C06 — exports are complete; export ∘ import = identity

Model: `BigtreeModel/Export.lean` (dict / DataFrame rows / nested dict and their constructors) and
`BigtreeModel/Newick.lean` (writer, parser state machine). Helper lemmas: `Lemmas/Export*.lean`,
`Lemmas/Newick*.lean`.

Hypotheses of the round trips (`AllNodes NodeOK t`: what the `Node` class guarantees — non-empty
names, distinct attribute keys, sibling-unique names; `AllNodes (SepFree sep) t`: no name contains
the separator) are exactly the "documented alphabet" of the property.
-/

namespace C06
open Export

/-! ## completeness: one record per selected node, in pre-order -/

/-- `tree_to_dataframe` / `tree_to_polars`: the list of records handed to the DataFrame constructor
is exactly one `record` (path, name, parent name, requested attributes) per node admitted by
`max_depth` / `skip_depth` / `leaf_only`, in pre-order — for every start node (`anc`) and options. -/
theorem rows_complete (o : Opts) (sep : Char) (anc : List Str) (t : Tree) :
    treeToRows o sep anc t
      = ((preCtx anc t).filter (selected o)).map fun x => record o sep x.1 x.2 := by
  unfold treeToRows
  rw [appendRows_eq]
  rfl

/-- What a record carries when no two requested keys coincide (`attr_dict` mode): the node's exact
path (DataFrames only), name and parent name under the requested keys, followed by the requested
attribute values `node.get_attr(k)` under their column names, in `attr_dict` order. -/
theorem record_exact (o : Opts) (sep : Char) (anc : List Str) (t : Tree) (hall : o.allAttrs = false)
    (hn : ((fixedEntries o sep anc t).map Prod.fst ++ o.attrDict.map Prod.snd).Nodup) :
    record o sep anc t
      = fixedEntries o sep anc t ++ o.attrDict.map fun kc => (kc.2, getAttr t.attrs kc.1) := by
  have h := List.nodup_append.mp hn
  rw [record_fixed o sep anc t h.1]
  unfold addAttrs
  rw [hall]
  simp only [Bool.false_eq_true, if_false]
  apply foldl_dset_fresh (fun kc : Str × Str => (kc.2, getAttr t.attrs kc.1)) o.attrDict
  · simpa using h.2.1
  · intro x hx hmem
    exact h.2.2 _ hmem _ (List.mem_map.mpr ⟨x, hx, rfl⟩) rfl

/-- the same in `all_attrs` mode: the fixed entries followed by every public attribute
(`describe`: sorted by key, without `name` and `_`-prefixed keys). -/
theorem record_exact_all (o : Opts) (sep : Char) (anc : List Str) (t : Tree) (hall : o.allAttrs = true)
    (hk : (t.attrs.map Prod.fst).Nodup) (hn : ((fixedEntries o sep anc t).map Prod.fst).Nodup)
    (hd : ∀ k ∈ (describe t.attrs).map Prod.fst, k ∉ (fixedEntries o sep anc t).map Prod.fst) :
    record o sep anc t = fixedEntries o sep anc t ++ describe t.attrs := by
  rw [record_fixed o sep anc t hn]
  exact addAttrs_full _ _ _ hall hk hd

/-- `tree_to_dict`, unconditionally: the dictionary is the result of assigning
`d[path_name] = record` for the selected nodes in pre-order. -/
theorem dict_complete_assign (o : Opts) (sep : Char) (anc : List Str) (t : Tree) :
    treeToDict o sep anc t
      = (((preCtx anc t).filter (selected o)).map fun x =>
          (pathName sep x.1 x.2.name, record o sep x.1 x.2)).foldl (fun d e => dset d e.1 e.2) [] := by
  unfold treeToDict
  rw [appendDict_eq]
  rfl

/-- `tree_to_dict` on a tree with sibling-unique, separator-free, non-empty names: no two nodes
share a key, so the dictionary lists exactly one (path, record) entry per selected node, in pre-order. -/
theorem dict_complete (o : Opts) (sep : Char) (anc : List Str) (t : Tree)
    (h1 : AllNodes NodeOK t) (h2 : AllNodes (SepFree sep) t) (hanc : ∀ s ∈ anc, s ≠ [] ∧ sep ∉ s) :
    treeToDict o sep anc t
      = ((preCtx anc t).filter (selected o)).map fun x =>
          (pathName sep x.1 x.2.name, record o sep x.1 x.2) :=
  treeToDict_eq o sep t anc h1 h2 hanc

/-- distinct nodes have distinct paths (what makes the dictionary keys and the path column identify nodes) -/
theorem paths_distinct (sep : Char) (anc : List Str) (t : Tree)
    (h1 : AllNodes NodeOK t) (h2 : AllNodes (SepFree sep) t) (hanc : ∀ s ∈ anc, s ≠ [] ∧ sep ∉ s) :
    ((preCtx anc t).map fun x => pathName sep x.1 x.2.name).Nodup :=
  paths_nodup sep t anc h1 h2 hanc

/-- `tree_to_nested_dict`: when the start node is within `max_depth`, the result mirrors, node for
node and in sibling order, the tree cut at `max_depth` (each node carrying its name and requested
attributes). -/
theorem nested_complete (o : Opts) (anc : List Str) (t : Tree)
    (h : o.maxDepth = 0 ∨ anc.length + 1 ≤ o.maxDepth) :
    treeToNested o anc t = some (mirror o (cutDepth o.maxDepth (anc.length + 1) t)) := by
  unfold treeToNested
  rw [nestedOf_eq o t (anc.length + 1) (by rcases h with h | h <;> simp [h])]
  rfl

/-- the scope exclusion of DESIGN §5: below `max_depth` the nested format has no value (`KeyError`) -/
theorem nested_empty (o : Opts) (anc : List Str) (t : Tree)
    (h : o.maxDepth ≠ 0 ∧ o.maxDepth < anc.length + 1) : treeToNested o anc t = none := by
  unfold treeToNested
  cases t with
  | node i n a cs =>
    have : (o.maxDepth == 0 || decide (anc.length + 1 ≤ o.maxDepth)) = false := by
      have h1 : ¬ (anc.length + 1 ≤ o.maxDepth) := by omega
      simp [h.1, h1]
    rw [nestedOf, this]
    rfl

/-! ## round trips -/

/-- `dict_to_tree (tree_to_dict t, all_attrs=True) = t` in names, shape, sibling order and public
attributes (`canon t`: ids forgotten, attributes as `describe` lists them). -/
theorem dict_roundtrip (sep : Char) (t : Tree) (h1 : AllNodes NodeOK t) (h2 : AllNodes (SepFree sep) t) :
    dictToTree sep (treeToDict (fullOpts []) sep [] t) = some (canon t) := by
  rw [treeToDict_eq (fullOpts []) sep t [] h1 h2 (by intro s hs; cases hs)]
  cases t with
  | node i n a cs => exact dictToTree_full sep i n a cs h1 h2

/-- `nested_dict_to_tree (tree_to_nested_dict t, all_attrs=True) = t`, from any start node. -/
theorem nested_roundtrip (anc : List Str) (t : Tree) (h : AllNodes NodeOK t) :
    (treeToNested (fullOpts []) anc t).bind (nestedToTree strName) = some (canon t) := by
  rw [nested_complete (fullOpts []) anc t (Or.inl rfl)]
  simp only [fullOpts, cutDepth_zero, Option.bind_some]
  exact nestedToTree_mirror [] t h

/-- `dataframe_to_tree (tree_to_dataframe t, all_attrs=True)` (the same for polars): the rebuilt
tree has the names, shape and sibling order of `t`; each node's attributes are what its row gives
back (`rowAttrs`: per column in order, the node's public attribute unless null) — by
`rows_roundtrip_attrs` that is, as a map, exactly the node's public non-null attributes.
`pc` is the path column; it must not be an attribute name of the tree. -/
theorem rows_roundtrip (sep : Char) (pc : Str) (t : Tree) (hpc : pc ≠ [] ∧ pc ≠ strName)
    (h1 : AllNodes NodeOK t) (h2 : AllNodes (SepFree sep) t)
    (h3 : AllNodes (fun u => pc ∉ u.attrs.map Prod.fst) t) :
    rowsToTree sep (frame (treeToRows (fullOpts pc) sep [] t))
      = some (canonWith (rowAttrs pc (columnsOf (treeToRows (fullOpts pc) sep [] t))) t) := by
  cases t with
  | node i n a cs => exact rowsToTree_full sep pc i n a cs hpc h1 h2 h3

/-- the attributes read back from the DataFrame agree, key by key, with the node's public
attributes (a null value and a missing attribute are not distinguished by a DataFrame). -/
theorem rows_roundtrip_attrs (sep : Char) (pc : Str) (t : Tree) (hpc : pc ≠ [] ∧ pc ≠ strName)
    (h1 : AllNodes NodeOK t) (h3 : AllNodes (fun u => pc ∉ u.attrs.map Prod.fst) t)
    (x : List Str × Tree) (hx : x ∈ preCtx [] t) (k : Str) :
    getAttr (rowAttrs pc (columnsOf (treeToRows (fullOpts pc) sep [] t)) x.2.attrs) k
      = getAttr (describe x.2.attrs) k := by
  rw [treeToRows_full sep pc t [] hpc h1 h3]
  apply rowAttrs_get pc _ _ (columnsOf_nodup _)
  · intro k' hk'
    apply columnsOf_mem _ (fullRow sep pc x) k' (List.mem_map.mpr ⟨x, hx, rfl⟩)
    simp only [fullRow, List.map_cons, List.mem_cons]
    exact Or.inr (Or.inr hk')
  · intro hmem
    obtain ⟨kv, hkv, hk⟩ := List.mem_map.mp hmem
    exact allNodes_preCtx _ t [] h3 x hx (List.mem_map.mpr ⟨kv, describe_mem _ _ hkv, hk⟩)

/-! ## non-vacuity -/

/-- a five-node tree with hostile names and attributes -/
def exTree : Tree :=
  .node 7 "a".toList [("B".toList, .int 3), ("A".toList, .str "x y".toList)] [
    .node 8 "b (c)".toList [] [.node 9 "a".toList [("K".toList, .null)] []],
    .node 10 "c:d".toList [("A".toList, .int 0)] [.node 11 "b (c)".toList [] []]]

theorem exTree_ok : AllNodes NodeOK exTree := by
  simp [exTree, AllNodes, AllNodesL, NodeOK]

theorem exTree_sepfree : AllNodes (SepFree '/') exTree := by
  simp [exTree, AllNodes, AllNodesL, SepFree]

example : (treeToRows { pathCol := "path".toList, skipDepth := 1, leafOnly := true } '/' [] exTree).length = 2 := by
  decide
example : record { pathCol := "path".toList, parentKey := "parent".toList, attrDict := [("A".toList, "col".toList)] }
    '/' ["a".toList] (.node 10 "c:d".toList [("A".toList, .int 0)] [])
    = [("path".toList, .str "/a/c:d".toList), ("name".toList, .str "c:d".toList), ("parent".toList, .str "a".toList),
       ("col".toList, .int 0)] := by decide
example : dictToTree '/' (treeToDict (fullOpts []) '/' [] exTree) = some (canon exTree) :=
  dict_roundtrip '/' exTree exTree_ok exTree_sepfree
example : canon exTree ≠ .node 0 "a".toList [] [] := by decide
example : rowsToTree '/' (frame (treeToRows (fullOpts "path".toList) '/' [] exTree)) =
    some (.node 0 "a".toList [("A".toList, .str "x y".toList), ("B".toList, .int 3)] [
      .node 0 "b (c)".toList [] [.node 0 "a".toList [] []],
      .node 0 "c:d".toList [("A".toList, .int 0)] [.node 0 "b (c)".toList [] []]]) := by decide
example : (treeToNested { maxDepth := 2 } [] exTree).map (fun x => x.kids.length) = some 2 := by decide
example : (treeToNested (fullOpts []) [] exTree).bind (nestedToTree strName) = some (canon exTree) :=
  nested_roundtrip [] exTree exTree_ok

/-! ## Newick -/

/-- side conditions of the Newick theorems, discharged for the GENERATED table of
`NewickCharacter` values: eight pairwise distinct single characters, equal to the punctuation the
writer emits literally. If `constants.py` changes so that this fails, the build fails here. -/
theorem newick_table_ok : Newick.chars.OK := by decide

theorem newick_table_is_generated :
    Newick.Chars.ofTable Generated.newickSpecials = some Newick.chars := by decide

/-- The stack invariant of the parser: reading `tree_to_newick(t)` from a state with nothing
pending at depth `d` (and nothing parked above `d`) ends in the same state with `t`'s name pending
and exactly `t`'s children parked at depth `d+1` — for any constants meeting the side conditions,
any continuation `rest`, names without the quote character (names containing any of the other
special characters are written quoted and are read back verbatim). -/
theorem newick_stack_invariant (c : Newick.Chars) (hc : c.OK) (la pre : Str) (t : Tree) (s : Newick.PState)
    (rest : Str) (hs : Newick.Ready s) (h1 : AllNodes NodeOK t) (h2 : AllNodes (fun u => c.quote ∉ u.name) t) :
    Newick.go c la pre s (Newick.ws c t ++ rest) = Newick.go c la pre (Newick.parked s t) rest :=
  Newick.go_ws c hc la pre t s rest hs ⟨h1, h2⟩

/-- `newick_to_tree (tree_to_newick t) = t` in names, shape and sibling order, for every tree whose
names are non-empty, sibling-unique and free of `'` — including names that contain any of the other
special characters `( ) [ ] = : ,`, from any start node, for any `length_attr` / `attr_prefix`
given to the parser. -/
theorem newick_roundtrip (t : Tree) (isRoot : Bool) (la pre : Str)
    (h1 : AllNodes NodeOK t) (h2 : AllNodes (fun u => '\'' ∉ u.name) t) :
    (Newick.write Newick.chars {} isRoot t).bind (Newick.parse Newick.chars la pre)
      = some (Newick.namesOnly t) := by
  rw [Newick.write_default, Option.bind_some]
  have hq : Newick.chars.quote = '\'' := newick_table_ok.2.2.2.2.2.2.1
  exact Newick.parse_ws Newick.chars newick_table_ok la pre t ⟨h1, by rw [hq]; exact h2⟩

/-- The length / attribute variant: with `length_attr = la`, `attr_list = al`, `attr_prefix = pre`
(and `:` as both separators) the writer is defined and the parser — given the same `la`, `pre` —
returns `img la al isRoot t`: the same names, shape and sibling order, each non-root node carrying
its length and every node its listed truthy attributes (in list order). Hypotheses: lengths are
positive integers, listed attribute names are non-empty and `'`-free, listed truthy values are
`'`-free strings (names, keys and values containing any of the other special characters are
written quoted and are read back verbatim). -/
theorem newick_roundtrip_attrs (t : Tree) (isRoot : Bool) (la pre : Str) (al : List Str)
    (h1 : AllNodes NodeOK t) (h2 : AllNodes (fun u => '\'' ∉ u.name) t)
    (h3 : (isRoot = false → Newick.LenNode la t) ∧ AllNodesL (Newick.LenNode la) t.children)
    (h4 : AllNodes (Newick.AttrNode '\'' al) t) :
    ∃ w, Newick.write Newick.chars (Newick.stdW la al pre) isRoot t = some w ∧
      Newick.parse Newick.chars la pre w = some (Newick.img la al isRoot t) := by
  have hq : Newick.chars.quote = '\'' := newick_table_ok.2.2.2.2.2.2.1
  have hlen : Newick.LenTop la isRoot t := by
    refine ⟨?_, h3.2⟩
    intro hL
    rcases h3.1 hL.2 with e | e
    · exact absurd e hL.1
    · exact e
  obtain ⟨w, hw⟩ := Newick.write_some Newick.chars la pre al t isRoot hlen
  refine ⟨w, hw, ?_⟩
  exact Newick.parse_write Newick.chars newick_table_ok la pre al t isRoot w
    ⟨h1, by rw [hq]; exact h2⟩ hlen (by rw [hq]; exact h4) hw

/-- the quoting rule: a name is written between quotes exactly when it contains one of the table's characters -/
theorem newick_quoting (n : Str) :
    Newick.serialize Newick.chars n
      = if n.any (fun ch => Newick.chars.values.contains ch)
        then '\'' :: n.map (fun ch => if ch = '\'' then '"' else ch) ++ ['\''] else n := by
  have hq : Newick.chars.quote = '\'' := newick_table_ok.2.2.2.2.2.2.1
  unfold Newick.serialize
  rw [hq]

theorem exTree_noquote : AllNodes (fun u => '\'' ∉ u.name) exTree := by
  simp [exTree, AllNodes, AllNodesL]

example : Newick.write Newick.chars {} true exTree = some "((a)'b (c)',('b (c)')'c:d')a".toList := by decide
example : (Newick.write Newick.chars {} true exTree).bind (Newick.parse Newick.chars [] []) = some (Newick.namesOnly exTree) :=
  newick_roundtrip exTree true [] [] exTree_ok exTree_noquote
example : Newick.parse Newick.chars "length".toList [] "(a,(b".toList = none := by decide

/-- a tree with lengths and attributes, hostile keys and values -/
def exTreeL : Tree :=
  .node 1 "r".toList [("S".toList, .str "x:y".toList)] [
    .node 2 "a b".toList [("L".toList, .int 12), ("S".toList, .str "[h]".toList), ("K=".toList, .str "v".toList)] [
      .node 3 "c,d".toList [("L".toList, .int 7), ("S".toList, .str "".toList)] []],
    .node 4 "e".toList [("L".toList, .int 305)] []]


example : Newick.write Newick.chars (Newick.stdW "L".toList ["S".toList, "K=".toList] "&&NHX:".toList) true exTreeL
    = some "(('c,d':7)a b:12[&&NHX:S='[h]':'K='=v],e:305)r[&&NHX:S='x:y']".toList := by decide
example : Newick.img "L".toList ["S".toList, "K=".toList] true exTreeL =
    .node 0 "r".toList [("S".toList, .str "x:y".toList)] [
      .node 0 "a b".toList [("L".toList, .int 12), ("S".toList, .str "[h]".toList), ("K=".toList, .str "v".toList)] [
        .node 0 "c,d".toList [("L".toList, .int 7)] []],
      .node 0 "e".toList [("L".toList, .int 305)] []] := by decide

theorem exTreeL_ok : AllNodes NodeOK exTreeL := by
  simp [exTreeL, AllNodes, AllNodesL, NodeOK]
theorem exTreeL_noquote : AllNodes (fun u => '\'' ∉ u.name) exTreeL := by
  simp [exTreeL, AllNodes, AllNodesL]
theorem exTreeL_len : (true = false → Newick.LenNode "L".toList exTreeL) ∧
    AllNodesL (Newick.LenNode "L".toList) exTreeL.children := by
  refine ⟨by simp, ?_⟩
  simp only [exTreeL, Tree.children_node, AllNodesL, AllNodes, and_true]
  exact ⟨⟨Or.inr ⟨12, by decide, by decide⟩, Or.inr ⟨7, by decide, by decide⟩⟩, Or.inr ⟨305, by decide, by decide⟩⟩
theorem exTreeL_attr : AllNodes (Newick.AttrNode '\'' ["S".toList, "K=".toList]) exTreeL := by
  simp only [exTreeL, AllNodes, AllNodesL, and_true]
  refine ⟨?_, ⟨?_, ?_⟩, ?_⟩ <;> exact Newick.attrNode_of_check _ _ _ (by decide)
example : ∃ w, Newick.write Newick.chars (Newick.stdW "L".toList ["S".toList, "K=".toList] "&&NHX:".toList) true exTreeL = some w ∧
    Newick.parse Newick.chars "L".toList "&&NHX:".toList w
      = some (Newick.img "L".toList ["S".toList, "K=".toList] true exTreeL) :=
  newick_roundtrip_attrs exTreeL true _ _ _ exTreeL_ok exTreeL_noquote exTreeL_len exTreeL_attr

end C06
