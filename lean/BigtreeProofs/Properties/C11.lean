import BigtreeProofs.Lemmas.BinStoreEffects
/-!
# C11 — a BinaryNode always has exactly a left and a right slot

Model: `BigtreeModel/BinStore.lean` (statement-level model of binarynode.py after the `fix:`
commits D2 and D7; `slots v` is the raw Python list `v._BinaryNode__children`).
All theorems are about `step true` (checks on, the default configuration), for every operation,
every argument (including `None`, objects that are not nodes, self, ancestors, repeated members,
lists of any length), every hook fault, over every reachable state (induction on the history).
-/

namespace C11
open BinStore

/-! ## the invariant over all histories -/

theorem bwf_init (n : Nat) : BWF (init n) := by
  refine ⟨fun _ => rfl, fun c p h => ?_, fun p c h => ?_, fun p c => ?_, fun v => ?_, fun c p h => ?_⟩
  · simp [init] at h
  · simp [init] at h
  · simp [init]
  · exact ⟨v, fun q hq => by simp [IsParent, init] at hq⟩
  · simp [init] at h

/-- every operation, every argument, every fault keeps the store well-formed -/
theorem bwf_step {s : Store} (h : BWF s) (op : Op) : BWF (step true s op).1 := bwf_step' h op

theorem bwf_run {s : Store} (h : BWF s) : ∀ ops : List Op, BWF (run true s ops) := by
  intro ops
  induction ops generalizing s with
  | nil => exact h
  | cons op ops ih => exact ih (bwf_step h op)

/-- every store reachable from fresh nodes is well-formed -/
theorem bwf_reachable (n : Nat) (ops : List Op) : BWF (run true (init n) ops) := bwf_run (bwf_init n) ops

example : BWF (run true (init 4)
    [.children 0 (some [some 1, some 2]) .none, .parent 3 (some 1) .post, .left 1 (some 3) .none,
     .parent 0 (some 3) .none, .del 0, .children 2 (some [some 1, some 1]) .none, .sort 1 true]) :=
  bwf_reachable 4 _

/-- the history of the example really builds and then dismantles links (it is not the empty store) -/
example : dump (run true (init 4)
    [.children 0 (some [some 1, some 2]) .none, .parent 3 (some 1) .post, .left 1 (some 3) .none]) =
    [(none, [some 1, some 2]), (some 0, [some 3, none]), (some 0, [none, none]), (some 1, [none, none])] := by
  decide

/-- **exactly two slots**: in every reachable state the raw child list of every node has length 2
(so `.left` / `.right` never raise `IndexError` and `len(node.children) == 2`) -/
theorem two_slots_always (n : Nat) (ops : List Op) (v : Nat) :
    ((run true (init n) ops).slots v).length = 2 := (bwf_reachable n ops).len2 v

/-- each slot is empty or holds a node of the collection, and that node's parent is the owner of the slot -/
theorem slot_holds_child (n : Nat) (ops : List Op) (p c : Nat)
    (h : some c ∈ (run true (init n) ops).slots p) :
    c < n ∧ p < n ∧ (run true (init n) ops).parent c = some p := by
  have hw := bwf_reachable n ops
  have hp := hw.down p c h
  have hr := hw.range c p hp
  have hn : (run true (init n) ops).n = n := run_n (bwf_init n) ops
  rw [hn] at hr
  exact ⟨hr.1, hr.2, hp⟩

/-- a node occupies exactly one slot of its parent and no slot of any other node -/
theorem one_slot_of_parent (n : Nat) (ops : List Op) (c p : Nat)
    (h : (run true (init n) ops).parent c = some p) :
    ((run true (init n) ops).slots p).count (some c) = 1 ∧
    ∀ q, q ≠ p → some c ∉ (run true (init n) ops).slots q := by
  have hw := bwf_reachable n ops
  refine ⟨?_, fun q hq hm => ?_⟩
  · have h1 := hw.distinct p c
    have h2 := List.count_pos_iff.2 (hw.up c p h)
    omega
  · have := hw.down q c hm
    rw [h] at this
    exact hq (Option.some.inj this).symm

/-! ## effects of the accepted operations -/

/-- **Assigning a child to a slot empties the slot it came from.** `v.children = l` accepted
(likewise `v.left = x`, `v.right = x`, which are `v.children = [x, v.right]` / `[v.left, x]`):
a listed node `k` that sat in slot `i` of another node `q` leaves that slot empty, is in no slot of
`q` any more, sits in `v`'s list, has parent `v`, and `v`'s list is exactly the assigned one. -/
theorem slot_move {s : Store} (h : BWF s) (f : Fault) (v : Nat) (l new : List (Option Nat))
    (hok : (setChildren true f s v l).2 = .ok) (hnew : normChildren l = some new)
    {k q i : Nat} (hk : some k ∈ new) (hq : q ≠ v)
    (hi : idx? (s.slots q) k = some i) :
    ((setChildren true f s v l).1.slots q)[i]? = some none ∧
    some k ∉ (setChildren true f s v l).1.slots q ∧
    some k ∈ (setChildren true f s v l).1.slots v ∧
    (setChildren true f s v l).1.parent k = some v ∧
    (setChildren true f s v l).1.slots v = new := by
  obtain ⟨c1, c2, hnorm, hval, esv, esq, ep⟩ := children_effect h f v l hok
  rw [hnorm] at hnew
  cases hnew
  have hk' : c1 = some k ∨ c2 = some k := by
    simp only [List.mem_cons, List.not_mem_nil, or_false] at hk
    rcases hk with e | e
    · exact Or.inl e.symm
    · exact Or.inr e.symm
  have hget := getElem?_of_idx? hi
  refine ⟨?_, ?_, ?_, ?_, esv⟩
  · rw [esq q hq]
    cases c1 <;> cases c2 <;> simp [getElem?_clear, hget] at hk' ⊢ <;> grind
  · rw [esq q hq]
    rcases hk' with e | e
    · subst e
      cases c2 with
      | none => simpa using not_mem_clear k _
      | some k2 =>
        have : k ≠ k2 := fun e => hval.distinct k rfl (by rw [e])
        simp only [clearO_some, mem_clear this]
        exact not_mem_clear k _
    · subst e
      cases c1 <;> simp [not_mem_clear]
  · rw [esv]; simpa using hk
  · rw [ep]; simp [hk']

example : (setChildren true .none (run true (init 4) [.children 0 (some [some 1, some 2]) .none]) 3
    [none, some 2]).2 = .ok ∧
    idx? ((run true (init 4) [.children 0 (some [some 1, some 2]) .none]).slots 0) 2 = some 1 := by decide

/-- `v.left = x` — the same statement through the `left` setter -/
theorem slot_move_left {s : Store} (h : BWF s) (f : Fault) (v : Nat) (x r : Option Nat)
    (hr : slotAt? s v 1 = some r) (hok : (setLeft true f s v x).2 = .ok)
    {k q i : Nat} (hk : x = some k) (hq : q ≠ v)
    (hi : idx? (s.slots q) k = some i) :
    ((setLeft true f s v x).1.slots q)[i]? = some none ∧
    (setLeft true f s v x).1.slots v = [some k, r] ∧ (setLeft true f s v x).1.parent k = some v := by
  subst hk
  simp only [setLeft, hr] at hok ⊢
  have hn : normChildren [some k, r] = some [some k, r] := by simp [normChildren]
  obtain ⟨h1, _, _, h4, h5⟩ := slot_move h f v _ _ hok hn (k := k) (by simp) hq hi
  exact ⟨h1, h5, h4⟩

/-- attaching by `parent` moves too: the slot of the old parent is emptied -/
theorem slot_move_parent {s : Store} (h : BWF s) (f : Fault) (v : Nat) (np : Option Nat)
    (hok : (setParent true f s v np).2 = .ok) {cp i : Nat} (hcp : s.parent v = some cp)
    (hne : np ≠ some cp) (hi : idx? (s.slots cp) v = some i) :
    ((setParent true f s v np).1.slots cp)[i]? = some none ∧
    some v ∉ (setParent true f s v np).1.slots cp := by
  obtain ⟨_, es, _⟩ := parent_effect h f v np hok
  have hget := getElem?_of_idx? hi
  have hsl : (setParent true f s v np).1.slots cp = clear v (s.slots cp) := by
    rw [es]
    cases np with
    | none => simp [parentSlots, detached, hcp]
    | some p =>
      have : ¬ cp = p := fun e => hne (by rw [e])
      simp [parentSlots, detached, hcp, this]
  rw [hsl]
  exact ⟨by simp [getElem?_clear, hget], not_mem_clear v _⟩

/-- **Attaching by `parent` fills the first empty slot (left before right).** `v.parent = p`
accepted: with `L` = the list of `p` once `v` has left its old slot, `v` is written at the index
of the first `None` of `L`; every other list only loses `v`; `v`'s parent is `p`. -/
theorem parent_first_empty {s : Store} (h : BWF s) (f : Fault) (v p : Nat)
    (hok : (setParent true f s v (some p)).2 = .ok) :
    ∃ j, firstNone (detached s v p) = some j ∧
      (setParent true f s v (some p)).1.slots p = (detached s v p).set j (some v) ∧
      (∀ x, x ≠ p → (setParent true f s v (some p)).1.slots x = detached s v x) ∧
      (setParent true f s v (some p)).1.parent v = some p := by
  obtain ⟨ep, es, e4⟩ := parent_effect h f v (some p) hok
  obtain ⟨j, hj⟩ := e4 p rfl
  refine ⟨j, hj, ?_, fun x hx => ?_, ?_⟩
  · rw [es]; simp [parentSlots, hj]
  · rw [es]; simp [parentSlots, hx]
  · rw [ep]; simp

/-- the same in two-slot notation, for a node that is not already a child of `p`:
`[None, b]` becomes `[v, b]`, `[a, None]` (with `a` a node) becomes `[a, v]` -/
theorem parent_left_before_right {s : Store} (h : BWF s) (f : Fault) (v p : Nat) (a b : Option Nat)
    (hnp : s.parent v ≠ some p) (hsl : s.slots p = [a, b])
    (hok : (setParent true f s v (some p)).2 = .ok) :
    (setParent true f s v (some p)).1.slots p = if a = none then [some v, b] else [a, some v] := by
  obtain ⟨j, hj, e1, _, _⟩ := parent_first_empty h f v p hok
  have hd : detached s v p = [a, b] := by simp [detached, hnp, hsl]
  rw [e1, hd]
  rw [hd] at hj
  cases a with
  | none => simp [firstNone] at hj; subst hj; simp
  | some a' =>
    cases b with
    | none => simp [firstNone] at hj; subst hj; simp
    | some b' => simp [firstNone] at hj

example : (setParent true .none (run true (init 3) [.parent 1 (some 0) .none]) 2 (some 0)).2 = .ok ∧
    (setParent true .none (run true (init 3) [.parent 1 (some 0) .none]) 2 (some 0)).1.slots 0 = [some 1, some 2] := by
  decide

/-- **… or is refused when both are taken**, and then nothing changes -/
theorem parent_full_rej {s : Store} (h : BWF s) (f : Fault) (v p a b : Nat)
    (hsl : s.slots p = [some a, some b]) (ha : a ≠ v) (hb : b ≠ v) :
    (setParent true f s v (some p)).2 = .rej ∧ (setParent true f s v (some p)).1 = s := by
  have hrej : (setParent true f s v (some p)).2 = .rej := by
    cases hout : (setParent true f s v (some p)).2 with
    | rej => rfl
    | ok =>
      obtain ⟨j, hj, _⟩ := parent_first_empty h f v p hout
      have hd : detached s v p = [some a, some b] := by
        unfold detached
        split
        · have ha' : ¬ a = v := ha
          have hb' : ¬ b = v := hb
          simp [hsl, ha', hb']
        · exact hsl
      rw [hd] at hj
      simp [firstNone] at hj
  exact ⟨hrej, setParent_rej_id h true f v (some p) hrej⟩

example : (run true (init 4) [.children 0 (some [some 1, some 2]) .none]).slots 0 = [some 1, some 2] := by
  decide

/-- **Deleting children empties both slots**: `del v.children` is always accepted, leaves
`[None, None]`, makes exactly the former children roots and touches nothing else. -/
theorem delChildren_empties_both {s : Store} (h : BWF s) (v : Nat) :
    (delChildren s v).2 = .ok ∧
    (delChildren s v).1.slots v = [none, none] ∧
    (∀ x, x ≠ v → (delChildren s v).1.slots x = s.slots x) ∧
    (∀ x, (delChildren s v).1.parent x = if s.parent x = some v then none else s.parent x) := by
  obtain ⟨s1, hd, _, ep, es⟩ := delChildrenBody_spec h v
  simp only [delChildren, hd]
  refine ⟨by simp, by simp [es], fun x hx => by simp [es, hx], ep⟩

example : (delChildren (run true (init 3) [.children 0 (some [some 1, some 2]) .none]) 0).1.parent 1 = none ∧
    (run true (init 3) [.children 0 (some [some 1, some 2]) .none]).parent 1 = some 0 := by decide

/-- `v.sort(key=…)`: only a node with two children is touched, its two children are kept or
swapped as the key says; every parent and every other list is unchanged -/
theorem sort_effect (s : Store) (v : Nat) (sw : Bool) :
    (sortChildren s v sw).parent = s.parent ∧
    (∀ x, x ≠ v → (sortChildren s v sw).slots x = s.slots x) ∧
    (∀ a b, s.slots v = [some a, some b] →
      (sortChildren s v sw).slots v = if sw then [some b, some a] else [some a, some b]) ∧
    (∀ a b, s.slots v = [a, b] → a = none ∨ b = none → (sortChildren s v sw).slots v = [a, b]) := by
  refine ⟨?_, fun x hx => ?_, fun a b hl => ?_, fun a b hl hn => ?_⟩
  · simp only [sortChildren]; split <;> rfl
  · simp only [sortChildren]; split <;> simp [hx]
  · cases sw <;> simp [sortChildren, hl, List.filter]
  · rcases hn with rfl | rfl
    · cases b <;> simp [sortChildren, hl, List.filter]
    · cases a <;> simp [sortChildren, hl, List.filter]

/-! ## refusals -/

/-- a parent that is the node itself, one of its descendants, or not a BinaryNode is refused -/
theorem reject_loops {s : Store} (h : BWF s) (f : Fault) (v p : Nat)
    (hbad : p = v ∨ ProperAnc s v p ∨ s.n ≤ p) : (setParent true f s v (some p)).2 = .rej := by
  cases hout : (setParent true f s v (some p)).2 with
  | rej => rfl
  | ok =>
    exfalso
    obtain ⟨h1, h2, _⟩ := setParent_ok hout
    simp [parentTypeBad] at h1
    simp [parentLoopBad] at h2
    rcases hbad with e | e | e
    · exact h2.1 e
    · exact h2.2 ((anc_complete h.acyc h.range).2 e)
    · omega

/-- a children list of the wrong length, with a member that is the node itself, one of its
ancestors or not a BinaryNode, or with a repeated member (`node.left = node.right`) is refused -/
theorem reject_loops_children {s : Store} (h : BWF s) (f : Fault) (v : Nat) (l : List (Option Nat))
    (hbad : (l.length ≠ 0 ∧ l.length ≠ 2) ∨
            (∃ k, some k ∈ l ∧ (k = v ∨ ProperAnc s k v ∨ s.n ≤ k)) ∨
            (∃ k, l = [some k, some k])) :
    (setChildren true f s v l).2 = .rej := by
  cases hout : (setChildren true f s v l).2 with
  | rej => rfl
  | ok =>
    exfalso
    obtain ⟨c1, c2, hnorm, hval, _⟩ := children_effect h f v l hout
    rcases hbad with ⟨h0, h2⟩ | ⟨k, hk, hb⟩ | ⟨k, rfl⟩
    · simp [normChildren, h0, h2] at hnorm
    · have hl : l = [c1, c2] := by
        unfold normChildren at hnorm
        by_cases h0 : l.length = 0
        · have : l = [] := List.length_eq_zero_iff.1 h0
          subst this; simp at hk
        · simp only [h0, if_false] at hnorm
          by_cases h2 : l.length = 2
          · simpa [h2] using hnorm
          · simp [h2] at hnorm
      subst hl
      have hk' : c1 = some k ∨ c2 = some k := by
        simp only [List.mem_cons, List.not_mem_nil, or_false] at hk
        rcases hk with e | e
        · exact Or.inl e.symm
        · exact Or.inr e.symm
      rcases hb with e | e | e
      · exact hval.ne_self k hk' e
      · exact hval.not_anc k hk' ((anc_complete h.acyc h.range).2 e)
      · have := hval.range k hk'; omega
    · simp [normChildren] at hnorm
      obtain ⟨rfl, rfl⟩ := hnorm
      exact hval.distinct k rfl rfl

example : ProperAnc (run true (init 3) [.parent 1 (some 0) .none, .parent 2 (some 1) .none]) 0 2 :=
  (anc_complete (bwf_reachable 3 _).acyc (bwf_reachable 3 _).range).1 (by decide)

/-- **successful or rejected**: a refused call (any operation, argument, fault) leaves every
parent and every slot list exactly as it was -/
theorem rejected_unchanged {s : Store} (h : BWF s) (op : Op) (hr : (step true s op).2 = .rej) :
    (step true s op).1 = s := step_rej_id h op hr

example : (step true (run true (init 3) [.children 0 (some [some 1, some 2]) .none])
    (.children 1 (some [some 2, some 0]) .none)).2 = .rej := by decide

/-- the store used for the non-vacuity examples: `0 → [1, 2]`, `1 → [3, None]`, `4` a root with
children `[5, None]`; built by the operations themselves, hence `BWF` -/
def demo : Store := run true (init 6)
  [.children 0 (some [some 1, some 2]) .none, .left 1 (some 3) .none, .parent 5 (some 4) .none]

example : BWF demo := bwf_reachable 6 _

/-- every rejection cause of C02 occurs on `demo` (so `rejected_unchanged`, `setParent_rej_id`,
`setChildren_rej_id` are not vacuous), the failing assignments steal children from two donors
(`2` from `0`, `5` from `4`), re-list a current child, or name two orphans -/
example :
    -- wrong type, self, descendant, full parent, pre-hook, post-hook on the parent setter
    (setParent true .none demo 3 (some 7)).2 = .rej ∧ (setParent true .none demo 1 (some 1)).2 = .rej ∧
    (setParent true .none demo 0 (some 3)).2 = .rej ∧ (setParent true .none demo 5 (some 0)).2 = .rej ∧
    (setParent true .pre demo 3 (some 4)).2 = .rej ∧ (setParent true .post demo 3 (some 4)).2 = .rej ∧
    (setParent true .post demo 2 (some 0)).2 = .rej ∧
    -- wrong length, wrong type, self, ancestor, repeated member, pre-hook, post-hook on the children setter
    (setChildren true .none demo 3 [some 2]).2 = .rej ∧ (setChildren true .none demo 3 [some 9, none]).2 = .rej ∧
    (setChildren true .none demo 3 [some 3, none]).2 = .rej ∧ (setChildren true .none demo 3 [some 0, none]).2 = .rej ∧
    (setChildren true .none demo 3 [some 2, some 2]).2 = .rej ∧
    (setChildren true .pre demo 3 [some 2, some 5]).2 = .rej ∧ (setChildren true .post demo 3 [some 2, some 5]).2 = .rej ∧
    (setChildren true .post demo 0 [some 2, some 1]).2 = .rej ∧ (setChildren true .post demo 1 [some 5, some 3]).2 = .rej ∧
    (setLeft true .none demo 0 (some 2)).2 = .rej ∧ (setRight true .post demo 4 (some 2)).2 = .rej ∧
    -- and the same assignments are accepted without the fault
    (setChildren true .none demo 3 [some 2, some 5]).2 = .ok ∧ (setParent true .none demo 3 (some 4)).2 = .ok := by
  decide

/-! ## negative regression: the pinned pre-fix deleter (D2) -/

/-- with `list.remove` instead of emptying the slot (`delChildrenPre`, the code before commit
af5581a) the two-slot shape is lost: after `a.children = [b, c]; del a.children` node `a` has a
list of length 0 (so `.left` raises `IndexError`) and then refuses every child. -/
theorem prefix_deleter_breaks_two_slots :
    ((delChildrenPre (run true (init 3) [.children 0 (some [some 1, some 2]) .none]) 0).1.slots 0).length = 0 ∧
    (setParent true .none (delChildrenPre (run true (init 3) [.children 0 (some [some 1, some 2]) .none]) 0).1
      1 (some 0)).2 = .rej ∧
    ((delChildren (run true (init 3) [.children 0 (some [some 1, some 2]) .none]) 0).1.slots 0).length = 2 := by
  decide

end C11
