import BigtreeModel.Modify
import BigtreeProofs.Lemmas.ModifyFold
import BigtreeProofs.Lemmas.ModifyEdit
import BigtreeProofs.Lemmas.ModifyMerge
import BigtreeProofs.Lemmas.ModifyReplace
import BigtreeProofs.Lemmas.ModifyLeaves
import BigtreeProofs.Lemmas.ModifyFrame
import BigtreeProofs.Lemmas.ModifyFrameReplace
import BigtreeProofs.Lemmas.ModifyObjs
/-!
# C08 — shift / copy / replace perform exactly the documented edit and nothing else

Theorems about the model `BigtreeModel/Modify.lean` (tied to `/repo` by `harness/props/C08.py`).
-/
open Modify

namespace C08

/-- configuration with `/` for all three separators (used by the examples) -/
def cfgOf (copy sk ov mc ml dc fp : Bool) : Cfg :=
  { sep := ['/'], fsep := ['/'], tsep := ['/'], copy := copy, skippable := sk, overriding := ov,
    mergeChildren := mc, mergeLeaves := ml, deleteChildren := dc, withFullPath := fp }

/-! ## one call with several pairs ≡ the same single-pair calls in sequence -/

/-- The up-front argument validation of `copy_or_shift_logic` looks at *all* pairs before the first
one is processed, so the statement is made for pair lists that pass it (`valid`); see
`pairs_fold_ok` for the unconditional form on the success part. -/
theorem pairs_fold (cfg : Cfg) (st : St) (p : Str × Option Str) (ps : List (Str × Option Str))
    (hv : valid cfg st (p :: ps) = true) :
    copyOrShift cfg st (p :: ps)
      = (copyOrShift cfg st [p]).bind (fun st' => copyOrShift cfg st' ps) := by
  rw [valid_cons] at hv
  simp only [Bool.and_eq_true] at hv
  obtain ⟨hv1, hv2⟩ := hv
  simp only [copyOrShift, valid_cons cfg st p ps, hv1, hv2, Bool.and_self, if_true, List.map_cons,
    List.map_nil, loop]
  cases hs : step cfg st (norm cfg p) with
  | error e => simp [Except.bind]
  | ok st' =>
    obtain ⟨h1, _⟩ := step_name hs
    have h2 := step_tree_name hs
    simp [Except.bind, valid_congr h1 h2, hv2]

example :
    let cfg : Cfg := cfgOf false false false false false false true
    let t : Tree := .node 0 ['r'] [] [.node 1 ['a'] [] [.node 2 ['x'] [] []], .node 3 ['b'] [] []]
    let ps : List (Str × Option Str) :=
      [(['r','/','a','/','x'], some ['r','/','b','/','x']), (['r','/','a'], some ['r','/','b','/','a'])]
    valid cfg ⟨none, t, 4⟩ ps = true ∧
    (copyOrShift cfg ⟨none, t, 4⟩ ps).toOption =
      some ⟨none, .node 0 ['r'] [] [.node 3 ['b'] [] [.node 2 ['x'] [] [], .node 1 ['a'] [] []]], 4⟩ := by
  decide +kernel

/-- Unconditional form: the successful outcomes of one call and of the sequential calls agree
(an invalid list makes both fail, possibly with different exception classes). -/
theorem pairs_fold_ok (cfg : Cfg) (st : St) (p : Str × Option Str) (ps : List (Str × Option Str)) :
    (copyOrShift cfg st (p :: ps)).toOption
      = ((copyOrShift cfg st [p]).bind (fun st' => copyOrShift cfg st' ps)).toOption := by
  cases hv : valid cfg st (p :: ps) with
  | true => rw [pairs_fold cfg st p ps hv]
  | false =>
    have hl : copyOrShift cfg st (p :: ps) = .error .value := by simp [copyOrShift, hv]
    rw [hl]
    rw [valid_cons] at hv
    cases hv1 : valid cfg st [p] with
    | false => simp [copyOrShift, hv1, Except.bind, Except.toOption]
    | true =>
      rw [hv1] at hv
      simp only [Bool.true_and] at hv
      simp only [copyOrShift, hv1, if_true, List.map_cons, List.map_nil, loop]
      cases hs : step cfg st (norm cfg p) with
      | error e => simp [Except.bind, Except.toOption]
      | ok st' =>
        obtain ⟨h1, _⟩ := step_name hs
        have h2 := step_tree_name hs
        simp [Except.bind, Except.toOption, valid_congr h1 h2, hv]

/-- A bare equality of outcomes (exception classes included) does not hold: with a missing
from-path first and a name mismatch second, one call raises `ValueError`, the sequential calls
`NotFoundError`. -/
theorem pairs_fold_needs_valid :
    ∃ (cfg : Cfg) (st : St) (p : Str × Option Str) (ps : List (Str × Option Str)),
      (copyOrShift cfg st (p :: ps)) = .error .value ∧
      ((copyOrShift cfg st [p]).bind (fun st' => copyOrShift cfg st' ps)) = .error .notFound := by
  refine ⟨cfgOf false false false false false false true, ⟨none, .node 0 ['r'] [] [.node 1 ['a'] [] []], 2⟩,
      (['r','/','z'], some ['r','/','a','/','z']), [(['r','/','a'], some ['r','/','b'])], ?_, ?_⟩
  · decide +kernel
  · decide +kernel

/-- The loop as it was before `fix:` D4 (the `merge_children` flag cleared for the rest of the
call) violates the fold law: overriding + merge_children, first destination exists. -/
theorem prefix_loop_not_fold :
    ∃ (cfg : Cfg) (st : St) (p q : Str × Option Str),
      valid cfg st [p, q] = true ∧
      (copyOrShiftPre cfg st [p, q]).toOption
        ≠ ((copyOrShiftPre cfg st [p]).bind (fun st' => copyOrShiftPre cfg st' [q])).toOption := by
  refine ⟨cfgOf false false true true false false true,
    ⟨none, .node 0 ['r'] [] [.node 1 ['a'] [] [.node 2 ['x'] [] []],
                              .node 3 ['b'] [] [.node 4 ['a'] [] [.node 5 ['y'] [] []]],
                              .node 6 ['c'] [] [.node 7 ['a'] [] [.node 8 ['z'] [] []]]], 9⟩,
    (['r','/','b','/','a'], some ['r','/','a']),
    (['r','/','c','/','a'], some ['r','/','n','/','a']), ?_, ?_⟩
  · decide +kernel
  · decide +kernel


/-! ## the hypotheses of the single-pair theorems -/

/-- One (from, to) pair: the to-path is a printed full path `sep + sep.join(names)`, the from-string
`fs` is any string that addresses the from-node (`FromOK`: a printed full path with
`with_full_path=True` — `FromOK.full` —, or a partial path / node name matching exactly one node with
`with_full_path=False` — `FromOK.partial`), in a tree whose
sibling names are unique; all three separators are the character `c`;
no merge flag (`delete_children` is a parameter of the statements). `fpar ++ [l]` / `tpar ++ [l]` are the from- and to-address
below the root (same last name `l`, as `copy_or_shift_logic` requires); `F` is the from-node;
`k` is the fresh-id counter. -/
structure PairHyp (cfg : Cfg) (c : Char) (t : Tree) (k : Nat) (fs : Str) (fpar tpar : List Str)
    (l : Str) (F : Tree) : Prop where
  plain : cfg.Plain c
  mc : cfg.mergeChildren = false
  ml : cfg.mergeLeaves = false
  su : SibUnique t
  fresh : ∀ e ∈ flat t, e.2.1 < k
  /-- the from-string addresses the node `F` at `fpar ++ [l]` (see `FromOK`) -/
  from_ : FromOK cfg t fs (fpar ++ [l]) F l
  gt : GoodNames c (t.name :: tpar ++ [l])
  /-- the destination does not exist yet (so `overriding` plays no role) -/
  missing : getRel (tpar ++ [l]) t = none
  /-- DESIGN §5: the destination is not inside the subtree that is moved -/
  outside : (fpar ++ [l]).isPrefixOf tpar = false

/-- the call `shift_nodes / copy_nodes (tree, [from], [to])` of the single-pair theorems -/
def call1 (cfg : Cfg) (c : Char) (t : Tree) (k : Nat) (fs : Str) (tp : List Str) : Except Err St :=
  copyOrShift cfg (st0 t k) [(fs, some (pathStr c t.name tp))]

/-! ## plain shift -/

/-- the call succeeds -/
theorem shift_ok {cfg c t k fs fpar tpar l F} (h : PairHyp cfg c t k fs fpar tpar l F)
    (hcp : cfg.copy = false) :
    ∃ st', call1 cfg c t k fs (tpar ++ [l]) = .ok st' := by
  obtain ⟨t', k', hcall, _⟩ := shift_core h.plain hcp h.mc h.ml t k fpar tpar l F h.su h.fresh
    fs h.from_ h.gt h.missing h.outside
  exact ⟨_, hcall⟩

/-- path set of the result, for both values of `delete_children`: what is attached is the
from-node (`stripIf false F = F`) or the bare from-node (`stripIf true F`) -/
theorem shift_paths_gen {cfg c t k fs fpar tpar l F} (h : PairHyp cfg c t k fs fpar tpar l F)
    (hcp : cfg.copy = false) {st' : St}
    (hr : call1 cfg c t k fs (tpar ++ [l]) = .ok st') (q : List Str) :
    q ∈ paths st'.dst ↔
      (q ∈ paths t ∧ ¬ (fpar ++ [l]) <+: q) ∨
      (∃ r, r ∈ paths (stripIf cfg.deleteChildren F) ∧ q = tpar ++ [l] ++ r) ∨
      q <+: tpar ++ [l] := by
  obtain ⟨t', k', hcall, _, hsu', hmoved, hframe, hmid, hpre⟩ :=
    shift_core h.plain hcp h.mc h.ml t k fpar tpar l F h.su h.fresh
      fs h.from_ h.gt h.missing h.outside
  have hst : st' = st0 t' k' := by
    unfold call1 at hr; rw [hcall] at hr; injection hr with hr; exact hr.symm
  subst hst
  show q ∈ paths t' ↔ _
  constructor
  · intro hq
    obtain ⟨e, he, rfl⟩ := List.mem_map.1 hq
    cases hue : under (tpar ++ [l]) e with
    | true =>
      right; left
      have : e ∈ (flat t').filter (under (tpar ++ [l])) := List.mem_filter.2 ⟨he, hue⟩
      rw [hmoved] at this
      obtain ⟨e0, he0, rfl⟩ := List.mem_map.1 this
      exact ⟨e0.1, List.mem_map.2 ⟨e0, he0, rfl⟩, rfl⟩
    | false =>
      by_cases hlt : e.2.1 < k
      · left
        have : e ∈ (flat t').filter (fun e => decide (e.2.1 < k) && !under (tpar ++ [l]) e) :=
          List.mem_filter.2 ⟨he, by simp [hlt, hue]⟩
        rw [hframe] at this
        obtain ⟨h1, h2⟩ := List.mem_filter.1 this
        refine ⟨List.mem_map.2 ⟨e, h1, rfl⟩, ?_⟩
        intro hp
        have : under (fpar ++ [l]) e = true := List.isPrefixOf_iff_prefix.2 hp
        simp [this] at h2
      · right; right
        have := (hmid e he hlt).1
        rw [List.isPrefixOf_iff_prefix] at this
        exact this.trans (List.prefix_append _ _)
  · rintro (⟨hq, hnp⟩ | ⟨r, hr', rfl⟩ | hq)
    · obtain ⟨e, he, rfl⟩ := List.mem_map.1 hq
      have : e ∈ (flat t).filter (fun e => !under (fpar ++ [l]) e) := by
        refine List.mem_filter.2 ⟨he, ?_⟩
        cases hu : under (fpar ++ [l]) e with
        | false => rfl
        | true => exact absurd (List.isPrefixOf_iff_prefix.1 hu) hnp
      rw [← hframe] at this
      exact List.mem_map.2 ⟨e, (List.mem_filter.1 this).1, rfl⟩
    · obtain ⟨e0, he0, rfl⟩ := List.mem_map.1 hr'
      have : rebase (tpar ++ [l]) e0 ∈ (flat t').filter (under (tpar ++ [l])) := by
        rw [hmoved]; exact List.mem_map.2 ⟨e0, he0, rfl⟩
      exact List.mem_map.2 ⟨_, (List.mem_filter.1 this).1, rfl⟩
    · by_cases hqe : q = tpar ++ [l]
      · subst hqe
        have hF0 : ([] : List Str) ∈ paths (stripIf cfg.deleteChildren F) := by
          rw [paths, flat_eq]; simp
        obtain ⟨e0, he0, he0'⟩ := List.mem_map.1 hF0
        have : rebase (tpar ++ [l]) e0 ∈ (flat t').filter (under (tpar ++ [l])) := by
          rw [hmoved]; exact List.mem_map.2 ⟨e0, he0, rfl⟩
        exact List.mem_map.2 ⟨_, (List.mem_filter.1 this).1, by simp [rebase, he0']⟩
      · apply hpre
        rw [List.isPrefixOf_iff_prefix]
        obtain ⟨s, hs⟩ := hq
        cases hsl : s.reverse with
        | nil => simp at hsl; subst hsl; simp at hs; exact absurd hs hqe
        | cons x xs =>
          have : s = xs.reverse ++ [x] := by rw [← List.reverse_reverse s, hsl]; simp
          subst this
          rw [← List.append_assoc] at hs
          have := List.append_inj_left' hs rfl
          exact ⟨xs.reverse, this⟩

/-- `paths' = (paths \ under from) ∪ rebase from to (under from) ∪ prefixes to` -/
theorem shift_paths {cfg c t k fs fpar tpar l F} (h : PairHyp cfg c t k fs fpar tpar l F)
    (hcp : cfg.copy = false) (hdc : cfg.deleteChildren = false) {st' : St}
    (hr : call1 cfg c t k fs (tpar ++ [l]) = .ok st') (q : List Str) :
    q ∈ paths st'.dst ↔
      (q ∈ paths t ∧ ¬ (fpar ++ [l]) <+: q) ∨
      (∃ r, fpar ++ [l] ++ r ∈ paths t ∧ q = tpar ++ [l] ++ r) ∨
      q <+: tpar ++ [l] := by
  rw [shift_paths_gen h hcp hr q, hdc]
  simp only [stripIf, Bool.false_eq_true, if_false, mem_paths_sub h.from_.found h.su]

/-- `delete_children=True`: the bare from-node appears at the destination (same object, same
attributes), its whole old subtree is gone: `paths' = (paths \ under from) ∪ prefixes to` -/
theorem delete_children_paths {cfg c t k fs fpar tpar l F} (h : PairHyp cfg c t k fs fpar tpar l F)
    (hcp : cfg.copy = false) (hdc : cfg.deleteChildren = true) {st' : St}
    (hr : call1 cfg c t k fs (tpar ++ [l]) = .ok st') :
    (∀ q, q ∈ paths st'.dst ↔ (q ∈ paths t ∧ ¬ (fpar ++ [l]) <+: q) ∨ q <+: tpar ++ [l]) ∧
    (flat st'.dst).filter (under (tpar ++ [l])) = [(tpar ++ [l], F.id, F.attrs)] := by
  constructor
  · intro q
    rw [shift_paths_gen h hcp hr q, hdc]
    have : paths (stripIf true F) = [[]] := by simp [paths, stripIf, flat_setKids_nil]
    rw [this]
    constructor
    · rintro (h1 | ⟨r, hr', rfl⟩ | h1)
      · exact Or.inl h1
      · simp at hr'; subst hr'; exact Or.inr (by simp)
      · exact Or.inr h1
    · rintro (h1 | h1)
      · exact Or.inl h1
      · exact Or.inr (Or.inr h1)
  · obtain ⟨t', k', hcall, _, _, hmoved, _⟩ :=
      shift_core h.plain hcp h.mc h.ml t k fpar tpar l F h.su h.fresh
        fs h.from_ h.gt h.missing h.outside
    have hst : st' = st0 t' k' := by
      unfold call1 at hr; rw [hcall] at hr; injection hr with hr; exact hr.symm
    subst hst
    show (flat t').filter _ = _
    rw [hmoved, hdc]
    simp [stripIf, flat_setKids_nil, rebase]

/-- moved nodes keep their ids — and their attributes, relative paths and order: the entries
below the destination are exactly the entries of the from-node, re-rooted (`stripIf false F = F`;
with `delete_children` only the from-node itself) -/
theorem shift_keeps_ids {cfg c t k fs fpar tpar l F} (h : PairHyp cfg c t k fs fpar tpar l F)
    (hcp : cfg.copy = false) {st' : St}
    (hr : call1 cfg c t k fs (tpar ++ [l]) = .ok st') :
    (flat st'.dst).filter (under (tpar ++ [l]))
      = (flat (stripIf cfg.deleteChildren F)).map (rebase (tpar ++ [l])) := by
  obtain ⟨t', k', hcall, _, _, hmoved, _⟩ :=
    shift_core h.plain hcp h.mc h.ml t k fpar tpar l F h.su h.fresh
      fs h.from_ h.gt h.missing h.outside
  have hst : st' = st0 t' k' := by
    unfold call1 at hr; rw [hcall] at hr; injection hr with hr; exact hr.symm
  subst hst
  exact hmoved

/-- frame: the objects that existed before and are not below the destination are exactly the
old entries outside the from-subtree — same ids, paths, attributes, same (pre-)order, hence the
same sibling order; whatever else is in the result is a freshly created attribute-less
intermediate node on the destination's parent path. -/
theorem shift_frame {cfg c t k fs fpar tpar l F} (h : PairHyp cfg c t k fs fpar tpar l F)
    (hcp : cfg.copy = false) {st' : St}
    (hr : call1 cfg c t k fs (tpar ++ [l]) = .ok st') :
    (flat st'.dst).filter (fun e => decide (e.2.1 < k) && !under (tpar ++ [l]) e)
        = (flat t).filter (fun e => !under (fpar ++ [l]) e) ∧
    (∀ e ∈ flat st'.dst, ¬ e.2.1 < k → e.1 <+: tpar ∧ e.2.1 < st'.next ∧ e.2.2 = []) ∧
    st'.src = none ∧ SibUnique st'.dst := by
  obtain ⟨t', k', hcall, _, hsu', _, hframe, hmid, _⟩ :=
    shift_core h.plain hcp h.mc h.ml t k fpar tpar l F h.su h.fresh
      fs h.from_ h.gt h.missing h.outside
  have hst : st' = st0 t' k' := by
    unfold call1 at hr; rw [hcall] at hr; injection hr with hr; exact hr.symm
  subst hst
  refine ⟨hframe, fun e he hlt => ?_, rfl, hsu'⟩
  obtain ⟨h1, h2, h3⟩ := hmid e he hlt
  exact ⟨List.isPrefixOf_iff_prefix.1 h1, h2, h3⟩


/-! non-vacuity: a concrete tree, a concrete pair meeting `PairHyp`, and what the call returns -/

/-- `r(a(x, y), b)` with ids 0..4 and one attribute on `x` -/
def exTree : Tree :=
  .node 0 ['r'] [] [.node 1 ['a'] [] [.node 2 ['x'] [(['k'], .int 7)] [], .node 3 ['y'] [] []],
                    .node 4 ['b'] [] []]

/-- shift `/r/a` to `/r/b/n/a` (the intermediate node `n` does not exist) -/
example : PairHyp (cfgOf false false false false false false true) '/' exTree 5
    (pathStr '/' ['r'] [['a']]) [] [['b'], ['n']] ['a']
    (.node 1 ['a'] [] [.node 2 ['x'] [(['k'], .int 7)] [], .node 3 ['y'] [] []]) where
  plain := ⟨rfl, rfl, rfl⟩
  mc := rfl
  ml := rfl
  su := by decide +kernel
  fresh := by decide +kernel
  from_ := FromOK.full ⟨rfl, rfl, rfl⟩ rfl exTree [] ['a'] _ (by decide +kernel) (by decide +kernel)
  gt := by decide +kernel
  missing := by decide +kernel
  outside := by decide +kernel

example : call1 (cfgOf false false false false false false true) '/' exTree 5 (pathStr '/' ['r'] [['a']])
    [['b'], ['n'], ['a']]
    = .ok (st0 (.node 0 ['r'] [] [.node 4 ['b'] [] [.node 5 ['n'] [] [.node 1 ['a'] [] [
        .node 2 ['x'] [(['k'], .int 7)] [], .node 3 ['y'] [] []]]]]) 6) := by
  decide +kernel

/-! ## plain copy (same tree) -/

theorem copy_ok {cfg c t k fs fpar tpar l F} (h : PairHyp cfg c t k fs fpar tpar l F)
    (hcp : cfg.copy = true) :
    ∃ st', call1 cfg c t k fs (tpar ++ [l]) = .ok st' := by
  obtain ⟨t', k', hcall, _⟩ := copy_core h.plain hcp h.mc h.ml none t k fpar tpar l F h.su h.su
    h.fresh fs h.from_ h.gt h.missing (fun _ => h.outside)
  exact ⟨_, hcall⟩

/-- what `copy_core` gives for the same-tree call, with the result state named -/
theorem copy_facts {cfg c t k fs fpar tpar l F} (h : PairHyp cfg c t k fs fpar tpar l F)
    (hcp : cfg.copy = true) {st' : St}
    (hr : call1 cfg c t k fs (tpar ++ [l]) = .ok st') :
    st'.src = none ∧ k ≤ st'.next ∧ SibUnique st'.dst ∧
    shape ((flat st'.dst).filter (under (tpar ++ [l])))
        = (shape (flat (stripIf cfg.deleteChildren F))).map (fun x => (tpar ++ [l] ++ x.1, x.2)) ∧
    (∀ e ∈ (flat st'.dst).filter (under (tpar ++ [l])), k ≤ e.2.1 ∧ e.2.1 < st'.next) ∧
    (flat st'.dst).filter (fun e => decide (e.2.1 < k)) = flat t ∧
    (∀ e ∈ flat st'.dst, ¬ e.2.1 < k → under (tpar ++ [l]) e = false →
        e.1.isPrefixOf tpar = true ∧ e.2.1 < st'.next ∧ e.2.2 = []) ∧
    (∀ q, q.isPrefixOf tpar = true → q ∈ paths st'.dst) := by
  obtain ⟨t', k', hcall, h1, h2, h3, h4, h5, h6, h7⟩ :=
    copy_core h.plain hcp h.mc h.ml none t k fpar tpar l F h.su h.su
      h.fresh fs h.from_ h.gt h.missing (fun _ => h.outside)
  have hst : st' = ⟨none, t', k'⟩ := by
    unfold call1 at hr
    rw [show st0 t k = ⟨none, t, k⟩ from rfl, hcall] at hr
    injection hr with hr; exact hr.symm
  subst hst
  exact ⟨rfl, h1, h2, h3, h4, h5, h6, h7⟩

/-- `paths' = paths ∪ rebase from to (under from) ∪ prefixes to` -/
theorem copy_paths {cfg c t k fs fpar tpar l F} (h : PairHyp cfg c t k fs fpar tpar l F)
    (hcp : cfg.copy = true) (hdc : cfg.deleteChildren = false) {st' : St}
    (hr : call1 cfg c t k fs (tpar ++ [l]) = .ok st') (q : List Str) :
    q ∈ paths st'.dst ↔
      q ∈ paths t ∨ (∃ r, fpar ++ [l] ++ r ∈ paths t ∧ q = tpar ++ [l] ++ r) ∨ q <+: tpar ++ [l] := by
  obtain ⟨_, _, _, hshape, _, hold, hmid, hpre⟩ := copy_facts h hcp hr
  rw [hdc] at hshape
  simp only [stripIf, Bool.false_eq_true, if_false] at hshape
  have hsh : ∀ r, (tpar ++ [l] ++ r ∈ paths st'.dst) ↔ r ∈ paths F := by
    intro r
    have key : ((flat st'.dst).filter (under (tpar ++ [l]))).map (·.1)
        = (paths F).map (fun x => tpar ++ [l] ++ x) := by
      have := congrArg (fun s : List (List Str × Attrs) => s.map (·.1)) hshape
      simpa [shape, paths, Function.comp_def] using this
    constructor
    · intro hq
      obtain ⟨e, he, he'⟩ := List.mem_map.1 hq
      have : e.1 ∈ ((flat st'.dst).filter (under (tpar ++ [l]))).map (·.1) :=
        List.mem_map.2 ⟨e, List.mem_filter.2 ⟨he, by simp [under, he', List.isPrefixOf_iff_prefix]⟩, rfl⟩
      rw [key, he'] at this
      obtain ⟨x, hx, hx'⟩ := List.mem_map.1 this
      rwa [← List.append_cancel_left hx']
    · intro hq
      have : tpar ++ [l] ++ r ∈ (paths F).map (fun x => tpar ++ [l] ++ x) := List.mem_map.2 ⟨r, hq, rfl⟩
      rw [← key] at this
      obtain ⟨e, he, he'⟩ := List.mem_map.1 this
      exact List.mem_map.2 ⟨e, (List.mem_filter.1 he).1, he'⟩
  constructor
  · intro hq
    obtain ⟨e, he, rfl⟩ := List.mem_map.1 hq
    cases hue : under (tpar ++ [l]) e with
    | true =>
      right; left
      obtain ⟨r, hr'⟩ := isPrefixOf_iff.1 hue
      have : tpar ++ [l] ++ r ∈ paths st'.dst := hr' ▸ hq
      exact ⟨r, (mem_paths_sub h.from_.found h.su).1 ((hsh r).1 this), hr'⟩
    | false =>
      by_cases hlt : e.2.1 < k
      · left
        have : e ∈ (flat st'.dst).filter (fun e => decide (e.2.1 < k)) :=
          List.mem_filter.2 ⟨he, by simp [hlt]⟩
        rw [hold] at this
        exact List.mem_map.2 ⟨e, this, rfl⟩
      · right; right
        have := (hmid e he hlt hue).1
        rw [List.isPrefixOf_iff_prefix] at this
        exact this.trans (List.prefix_append _ _)
  · rintro (hq | ⟨r, hr', rfl⟩ | hq)
    · obtain ⟨e, he, rfl⟩ := List.mem_map.1 hq
      rw [← hold] at he
      exact List.mem_map.2 ⟨e, (List.mem_filter.1 he).1, rfl⟩
    · exact (hsh r).2 ((mem_paths_sub h.from_.found h.su).2 hr')
    · by_cases hqe : q = tpar ++ [l]
      · subst hqe
        have hF0 : ([] : List Str) ∈ paths F := by rw [paths, flat_eq]; simp
        simpa using (hsh []).2 hF0
      · apply hpre
        rw [List.isPrefixOf_iff_prefix]
        obtain ⟨s, hs⟩ := hq
        cases hsl : s.reverse with
        | nil => simp at hsl; subst hsl; simp at hs; exact absurd hs hqe
        | cons x xs =>
          have : s = xs.reverse ++ [x] := by rw [← List.reverse_reverse s, hsl]; simp
          subst this
          rw [← List.append_assoc] at hs
          exact ⟨xs.reverse, List.append_inj_left' hs rfl⟩

/-- the copy consists of fresh objects (ids from the counter on) and has the origin's relative
paths, attributes and order (with `delete_children`: of the bare origin node) -/
theorem copy_fresh_ids {cfg c t k fs fpar tpar l F} (h : PairHyp cfg c t k fs fpar tpar l F)
    (hcp : cfg.copy = true) {st' : St}
    (hr : call1 cfg c t k fs (tpar ++ [l]) = .ok st') :
    (∀ e ∈ (flat st'.dst).filter (under (tpar ++ [l])), k ≤ e.2.1 ∧ e.2.1 < st'.next ∧ e.2.1 ∉ ids t) ∧
    shape ((flat st'.dst).filter (under (tpar ++ [l])))
        = (shape (flat (stripIf cfg.deleteChildren F))).map (fun x => (tpar ++ [l] ++ x.1, x.2)) := by
  obtain ⟨_, _, _, hshape, hids, _, _, _⟩ := copy_facts h hcp hr
  refine ⟨fun e he => ⟨(hids e he).1, (hids e he).2, ?_⟩, hshape⟩
  intro hmem
  obtain ⟨e', he', hid⟩ := List.mem_map.1 hmem
  have := h.fresh e' he'
  have := (hids e he).1
  omega

/-- origin untouched — in fact everything that existed is untouched: the old objects of the
result are exactly the old entries (ids, paths, attributes, order), the origin subtree included -/
theorem copy_origin_untouched {cfg c t k fs fpar tpar l F} (h : PairHyp cfg c t k fs fpar tpar l F)
    (hcp : cfg.copy = true) {st' : St}
    (hr : call1 cfg c t k fs (tpar ++ [l]) = .ok st') :
    (flat st'.dst).filter (fun e => decide (e.2.1 < k)) = flat t ∧
    (flat st'.dst).filter (under (fpar ++ [l])) = (flat F).map (rebase (fpar ++ [l])) := by
  obtain ⟨_, _, hsu', _, hids, hold, hmid, _⟩ := copy_facts h hcp hr
  refine ⟨hold, ?_⟩
  -- below the origin address there are only old objects
  have hall : (flat st'.dst).filter (under (fpar ++ [l]))
      = ((flat st'.dst).filter (fun e => decide (e.2.1 < k))).filter (under (fpar ++ [l])) := by
    rw [List.filter_filter]
    apply List.filter_congr
    intro e he
    cases hue : under (fpar ++ [l]) e with
    | false => rfl
    | true =>
      by_cases hlt : e.2.1 < k
      · simp [hlt]
      · exfalso
        cases hut : under (tpar ++ [l]) e with
        | true =>
          -- below both addresses: then one is a prefix of the other
          obtain ⟨r1, hr1⟩ := isPrefixOf_iff.1 hue
          obtain ⟨r2, hr2⟩ := isPrefixOf_iff.1 hut
          have hcmp := List.prefix_or_prefix_of_prefix (l₃ := e.1) ⟨r1, hr1.symm⟩ ⟨r2, hr2.symm⟩
          rcases hcmp with h1 | h1
          · -- from <+: to: then from <+: tpar or from = to
            obtain ⟨s, hs⟩ := h1
            cases hsl : s.reverse with
            | nil =>
              simp at hsl; subst hsl; simp at hs
              have := h.missing; rw [← hs, h.from_.found] at this; cases this
            | cons x xs =>
              have : s = xs.reverse ++ [x] := by rw [← List.reverse_reverse s, hsl]; simp
              subst this
              rw [← List.append_assoc] at hs
              have h2 : (fpar ++ [l]) <+: tpar := ⟨xs.reverse, List.append_inj_left' hs rfl⟩
              have := h.outside
              rw [List.isPrefixOf_iff_prefix.2 h2] at this; cases this
          · -- to <+: from: the destination would exist
            have hp : tpar ++ [l] ∈ paths t := by
              obtain ⟨s, hs⟩ := h1
              have hfp : fpar ++ [l] ∈ paths t := (mem_paths_iff h.su).2 (by rw [h.from_.found]; rfl)
              rw [← hs] at hfp
              exact prefix_mem_paths h.su hfp
            rw [mem_paths_iff h.su, h.missing] at hp; cases hp
        | false =>
          have h1 := (hmid e he hlt hut).1
          have := prefix_trans' hue h1
          rw [h.outside] at this; cases this
  rw [hall, hold]
  exact flat_filter_under h.from_.found h.su

example : PairHyp (cfgOf true false false false false false true) '/' exTree 5
    (pathStr '/' ['r'] [['a']]) [] [['b'], ['n']] ['a']
    (.node 1 ['a'] [] [.node 2 ['x'] [(['k'], .int 7)] [], .node 3 ['y'] [] []]) where
  plain := ⟨rfl, rfl, rfl⟩
  mc := rfl
  ml := rfl
  su := by decide +kernel
  fresh := by decide +kernel
  from_ := FromOK.full ⟨rfl, rfl, rfl⟩ rfl exTree [] ['a'] _ (by decide +kernel) (by decide +kernel)
  gt := by decide +kernel
  missing := by decide +kernel
  outside := by decide +kernel

example : call1 (cfgOf true false false false false false true) '/' exTree 5 (pathStr '/' ['r'] [['a']])
    [['b'], ['n'], ['a']]
    = .ok (st0 (.node 0 ['r'] [] [
        .node 1 ['a'] [] [.node 2 ['x'] [(['k'], .int 7)] [], .node 3 ['y'] [] []],
        .node 4 ['b'] [] [.node 5 ['n'] [] [.node 6 ['a'] [] [
          .node 7 ['x'] [(['k'], .int 7)] [], .node 8 ['y'] [] []]]]]) 9) := by
  decide +kernel

/-! ## tree-to-tree: the source tree is untouched -/

/-- For every flag combination and every pair list: a successful `copy_or_shift_logic` call
returns with the source tree (`tree` when `to_tree` is another tree) exactly as it was. -/
theorem source_untouched (cfg : Cfg) (st : St) (ps : List (Str × Option Str)) {st' : St}
    (h : copyOrShift cfg st ps = .ok st') : st'.src = st.src := by
  unfold copyOrShift at h
  split at h
  · exact loop_src h
  · simp at h

/-- tree-to-tree plain copy: the destination gets a fresh copy with the source subtree's shape,
everything that was in the destination is untouched -/
theorem t2t_copy {cfg : Cfg} {c : Char} (hc : cfg.Plain c) (hcp : cfg.copy = true)
    (hmc : cfg.mergeChildren = false) (hml : cfg.mergeLeaves = false) (hdc : cfg.deleteChildren = false)
    (s t : Tree) (k : Nat) (fpar tpar : List Str) (l : Str) (F : Tree)
    (hu : SibUnique t) (hus : SibUnique s) (hk : ∀ e ∈ flat t, e.2.1 < k)
    (fs : Str) (hfr : FromOK cfg s fs (fpar ++ [l]) F l) (hgt : GoodNames c (t.name :: tpar ++ [l]))
    (hD : getRel (tpar ++ [l]) t = none) :
    ∃ t' k', copyOrShift cfg ⟨some s, t, k⟩
        [(fs, some (pathStr c t.name (tpar ++ [l])))] = .ok ⟨some s, t', k'⟩ ∧
      shape ((flat t').filter (under (tpar ++ [l])))
        = (shape (flat F)).map (fun x => (tpar ++ [l] ++ x.1, x.2)) ∧
      (∀ e ∈ (flat t').filter (under (tpar ++ [l])), k ≤ e.2.1 ∧ e.2.1 < k') ∧
      (flat t').filter (fun e => decide (e.2.1 < k)) = flat t := by
  obtain ⟨t', k', hcall, _, _, h3, h4, h5, _, _⟩ :=
    copy_core hc hcp hmc hml (some s) t k fpar tpar l F hu hus hk fs hfr hgt hD (by simp)
  rw [hdc] at h3
  exact ⟨t', k', hcall, h3, h4, h5⟩

example : copyOrShift (cfgOf true false false false false false true)
      ⟨some exTree, .node 5 ['q'] [] [.node 6 ['b'] [] []], 7⟩
      [(['r','/','a'], some ['q','/','b','/','a'])]
    = .ok ⟨some exTree, .node 5 ['q'] [] [.node 6 ['b'] [] [.node 7 ['a'] [] [
        .node 8 ['x'] [(['k'], .int 7)] [], .node 9 ['y'] [] []]]], 10⟩ := by
  decide +kernel

/-! ## delete (`to_path = None`) -/

/-- `shift_nodes(tree, [from], [None])`: the result is the old tree without the from-subtree —
same entries (ids, paths, attributes) in the same order; no object is created. -/
theorem delete_paths {cfg : Cfg} (hcp : cfg.copy = false)
    (hmc : cfg.mergeChildren = false) (hml : cfg.mergeLeaves = false) (hdc : cfg.deleteChildren = false)
    (t : Tree) (k : Nat) (fs : Str) (fp : List Str) (F : Tree) (l : Str) (hne : fp ≠ [])
    (hu : SibUnique t) (hfr : FromOK cfg t fs fp F l) :
    ∃ t', copyOrShift cfg (st0 t k) [(fs, none)] = .ok (st0 t' k) ∧
      flat t' = (flat t).filter (fun e => !under fp e) ∧
      (∀ q, q ∈ paths t' ↔ q ∈ paths t ∧ ¬ fp <+: q) := by
  refine ⟨removeAt fp t, delete_step hcp hmc hml hdc t k fs fp F l hfr, flat_removeAt hne hu, ?_⟩
  intro q
  rw [mem_paths_removeAt hne hu]
  constructor
  · rintro ⟨h1, h2⟩
    exact ⟨h1, fun hp => by rw [List.isPrefixOf_iff_prefix.2 hp] at h2; cases h2⟩
  · rintro ⟨h1, h2⟩
    refine ⟨h1, ?_⟩
    cases hp : fp.isPrefixOf q with
    | false => rfl
    | true => exact absurd (List.isPrefixOf_iff_prefix.1 hp) h2

example : copyOrShift (cfgOf false false false false false false true) (st0 exTree 5)
      [(pathStr '/' ['r'] [['a'], ['x']], none)]
    = .ok (st0 (.node 0 ['r'] [] [.node 1 ['a'] [] [.node 3 ['y'] [] []], .node 4 ['b'] [] []]) 5) := by
  decide +kernel


/-! ## overriding an existing destination -/

/-- as `PairHyp`, but the destination exists (node `D`) and `overriding=True`; neither of the two
nodes lies inside the other -/
structure OverHyp (cfg : Cfg) (c : Char) (t : Tree) (fs : Str) (fpar tpar : List Str) (l : Str)
    (F D : Tree) : Prop where
  plain : cfg.Plain c
  mc : cfg.mergeChildren = false
  ml : cfg.mergeLeaves = false
  ov : cfg.overriding = true
  su : SibUnique t
  /-- the from-string addresses the node `F` at `fpar ++ [l]` (see `FromOK`) -/
  from_ : FromOK cfg t fs (fpar ++ [l]) F l
  gt : GoodNames c (t.name :: tpar ++ [l])
  dest : getRel (tpar ++ [l]) t = some D
  out1 : (fpar ++ [l]).isPrefixOf (tpar ++ [l]) = false
  out2 : (tpar ++ [l]).isPrefixOf (fpar ++ [l]) = false

/-- `overriding=True`: the old destination subtree is gone, the from-node (same objects) stands
in its place, everything else is untouched and no object is created:
`flat' = (flat \ under to \ under from)` in the old order, plus the from-node's entries re-rooted
at `to`. -/
theorem overriding_paths {cfg c t k fs fpar tpar l F D} (h : OverHyp cfg c t fs fpar tpar l F D)
    (hcp : cfg.copy = false) :
    ∃ t', call1 cfg c t k fs (tpar ++ [l]) = .ok (st0 t' k) ∧ SibUnique t' ∧
      (flat t').filter (under (tpar ++ [l]))
        = (flat (stripIf cfg.deleteChildren F)).map (rebase (tpar ++ [l])) ∧
      (flat t').filter (fun e => !under (tpar ++ [l]) e)
        = (flat t).filter (fun e => !under (tpar ++ [l]) e && !under (fpar ++ [l]) e) ∧
      (∀ q, q ∈ paths t' ↔
        (q ∈ paths t ∧ ¬ (tpar ++ [l]) <+: q ∧ ¬ (fpar ++ [l]) <+: q) ∨
        (∃ r, r ∈ paths (stripIf cfg.deleteChildren F) ∧ q = tpar ++ [l] ++ r)) := by
  obtain ⟨t', hcall, hsu', hmoved, hrest⟩ :=
    over_core h.plain hcp h.mc h.ml h.ov t k fpar tpar l F D h.su fs h.from_ h.gt h.dest h.out1 h.out2
  refine ⟨t', hcall, hsu', hmoved, hrest, fun q => ?_⟩
  constructor
  · intro hq
    obtain ⟨e, he, rfl⟩ := List.mem_map.1 hq
    cases hue : under (tpar ++ [l]) e with
    | true =>
      right
      have : e ∈ (flat t').filter (under (tpar ++ [l])) := List.mem_filter.2 ⟨he, hue⟩
      rw [hmoved] at this
      obtain ⟨e0, he0, rfl⟩ := List.mem_map.1 this
      exact ⟨e0.1, List.mem_map.2 ⟨e0, he0, rfl⟩, rfl⟩
    | false =>
      left
      have : e ∈ (flat t').filter (fun e => !under (tpar ++ [l]) e) :=
        List.mem_filter.2 ⟨he, by simp [hue]⟩
      rw [hrest] at this
      obtain ⟨h1, h2⟩ := List.mem_filter.1 this
      simp only [Bool.and_eq_true, Bool.not_eq_true'] at h2
      refine ⟨List.mem_map.2 ⟨e, h1, rfl⟩, fun hp => ?_, fun hp => ?_⟩
      · have := List.isPrefixOf_iff_prefix.2 hp
        simp only [under] at h2; rw [this] at h2; cases h2.1
      · have := List.isPrefixOf_iff_prefix.2 hp
        simp only [under] at h2; rw [this] at h2; cases h2.2
  · rintro (⟨hq, hn1, hn2⟩ | ⟨r, hr', rfl⟩)
    · obtain ⟨e, he, rfl⟩ := List.mem_map.1 hq
      have : e ∈ (flat t).filter (fun e => !under (tpar ++ [l]) e && !under (fpar ++ [l]) e) := by
        refine List.mem_filter.2 ⟨he, ?_⟩
        have a1 : under (tpar ++ [l]) e = false := by
          cases hu : under (tpar ++ [l]) e with
          | false => rfl
          | true => exact absurd (List.isPrefixOf_iff_prefix.1 hu) hn1
        have a2 : under (fpar ++ [l]) e = false := by
          cases hu : under (fpar ++ [l]) e with
          | false => rfl
          | true => exact absurd (List.isPrefixOf_iff_prefix.1 hu) hn2
        simp [a1, a2]
      rw [← hrest] at this
      exact List.mem_map.2 ⟨e, (List.mem_filter.1 this).1, rfl⟩
    · obtain ⟨e0, he0, rfl⟩ := List.mem_map.1 hr'
      have : rebase (tpar ++ [l]) e0 ∈ (flat t').filter (under (tpar ++ [l])) := by
        rw [hmoved]; exact List.mem_map.2 ⟨e0, he0, rfl⟩
      exact List.mem_map.2 ⟨_, (List.mem_filter.1 this).1, rfl⟩

/-- `r(a(x, y), b(a(z)))`: shifting `/r/a` onto the existing `/r/b/a` with `overriding` -/
def exTree2 : Tree :=
  .node 0 ['r'] [] [.node 1 ['a'] [] [.node 2 ['x'] [] [], .node 3 ['y'] [] []],
                    .node 4 ['b'] [] [.node 5 ['a'] [] [.node 6 ['z'] [] []]]]

example : OverHyp (cfgOf false false true false false false true) '/' exTree2
    (pathStr '/' ['r'] [['a']]) [] [['b']] ['a']
    (.node 1 ['a'] [] [.node 2 ['x'] [] [], .node 3 ['y'] [] []])
    (.node 5 ['a'] [] [.node 6 ['z'] [] []]) where
  plain := ⟨rfl, rfl, rfl⟩
  mc := rfl
  ml := rfl
  ov := rfl
  su := by decide +kernel
  from_ := FromOK.full ⟨rfl, rfl, rfl⟩ rfl exTree2 [] ['a'] _ (by decide +kernel) (by decide +kernel)
  gt := by decide +kernel
  dest := by decide +kernel
  out1 := by decide +kernel
  out2 := by decide +kernel

example : call1 (cfgOf false false true false false false true) '/' exTree2 7 (pathStr '/' ['r'] [['a']]) [['b'], ['a']]
    = .ok (st0 (.node 0 ['r'] [] [.node 4 ['b'] [] [.node 1 ['a'] [] [
        .node 2 ['x'] [] [], .node 3 ['y'] [] []]]]) 7) := by
  decide +kernel

/-- `delete_children` on the example of `PairHyp`: only the bare node arrives -/
example : call1 (cfgOf false false false false false true true) '/' exTree 5 (pathStr '/' ['r'] [['a']])
    [['b'], ['n'], ['a']]
    = .ok (st0 (.node 0 ['r'] [] [.node 4 ['b'] [] [.node 5 ['n'] [] [.node 1 ['a'] [] []]]]) 6) := by
  decide +kernel


/-! ## merge_children onto an existing destination -/

/-- `merge_children=True`, `overriding=False`, the destination `D` exists; neither node lies
inside the other; no child of the from-node is called like a child of the destination -/
structure MergeHyp (cfg : Cfg) (c : Char) (t : Tree) (fs : Str) (fpar tpar : List Str) (l : Str)
    (F D : Tree) : Prop where
  plain : cfg.Plain c
  mc : cfg.mergeChildren = true
  ml : cfg.mergeLeaves = false
  ov : cfg.overriding = false
  su : SibUnique t
  /-- the from-string addresses the node `F` at `fpar ++ [l]` (see `FromOK`) -/
  from_ : FromOK cfg t fs (fpar ++ [l]) F l
  gt : GoodNames c (t.name :: tpar ++ [l])
  dest : getRel (tpar ++ [l]) t = some D
  out1 : (fpar ++ [l]).isPrefixOf (tpar ++ [l]) = false
  out2 : (tpar ++ [l]).isPrefixOf (fpar ++ [l]) = false
  noclash : ∀ x ∈ F.children, ∀ y ∈ D.children, y.name ≠ x.name

/-- `merge_children`: every child of the from-node (all of them, with their subtrees, as the same
objects) appears under the destination, the from-node is gone, everything else — the destination's
own children included — is untouched, in the old order; no object is created. -/
theorem merge_children_paths {cfg c t k fs fpar tpar l F D} (h : MergeHyp cfg c t fs fpar tpar l F D)
    (hcp : cfg.copy = false) :
    ∃ t', call1 cfg c t k fs (tpar ++ [l]) = .ok (st0 t' k) ∧ SibUnique t' ∧
      (∀ x ∈ F.children, (flat t').filter (under (tpar ++ [l] ++ [x.name]))
          = (flat (stripIf cfg.deleteChildren x)).map (rebase (tpar ++ [l] ++ [x.name]))) ∧
      (flat t').filter (fun e => !underAny (tpar ++ [l]) F.children e)
        = (flat t).filter (fun e => !under (fpar ++ [l]) e) ∧
      (∀ q, q ∈ paths t' ↔
        (q ∈ paths t ∧ ¬ (fpar ++ [l]) <+: q) ∨
        (∃ x ∈ F.children, ∃ r ∈ paths (stripIf cfg.deleteChildren x), q = tpar ++ [l] ++ [x.name] ++ r)) := by
  obtain ⟨t', hcall, hsu', hkids, hrest⟩ :=
    merge_children_core h.plain hcp h.mc h.ml h.ov t k fpar tpar l F D h.su fs h.from_ h.gt h.dest
      h.out1 h.out2 h.noclash
  refine ⟨t', hcall, hsu', hkids, hrest, fun q => ?_⟩
  constructor
  · intro hq
    obtain ⟨e, he, rfl⟩ := List.mem_map.1 hq
    cases hue : underAny (tpar ++ [l]) F.children e with
    | true =>
      right
      simp only [underAny, List.any_eq_true] at hue
      obtain ⟨x, hx, hux⟩ := hue
      have : e ∈ (flat t').filter (under (tpar ++ [l] ++ [x.name])) := List.mem_filter.2 ⟨he, hux⟩
      rw [hkids x hx] at this
      obtain ⟨e0, he0, rfl⟩ := List.mem_map.1 this
      exact ⟨x, hx, e0.1, List.mem_map.2 ⟨e0, he0, rfl⟩, rfl⟩
    | false =>
      left
      have : e ∈ (flat t').filter (fun e => !underAny (tpar ++ [l]) F.children e) :=
        List.mem_filter.2 ⟨he, by simp [hue]⟩
      rw [hrest] at this
      obtain ⟨h1, h2⟩ := List.mem_filter.1 this
      refine ⟨List.mem_map.2 ⟨e, h1, rfl⟩, fun hp => ?_⟩
      have := List.isPrefixOf_iff_prefix.2 hp
      simp only [under] at h2; rw [this] at h2; cases h2
  · rintro (⟨hq, hn⟩ | ⟨x, hx, r, hr', rfl⟩)
    · obtain ⟨e, he, rfl⟩ := List.mem_map.1 hq
      have : e ∈ (flat t).filter (fun e => !under (fpar ++ [l]) e) := by
        refine List.mem_filter.2 ⟨he, ?_⟩
        cases hu : under (fpar ++ [l]) e with
        | false => rfl
        | true => exact absurd (List.isPrefixOf_iff_prefix.1 hu) hn
      rw [← hrest] at this
      exact List.mem_map.2 ⟨e, (List.mem_filter.1 this).1, rfl⟩
    · obtain ⟨e0, he0, rfl⟩ := List.mem_map.1 hr'
      have : rebase (tpar ++ [l] ++ [x.name]) e0 ∈ (flat t').filter (under (tpar ++ [l] ++ [x.name])) := by
        rw [hkids x hx]; exact List.mem_map.2 ⟨e0, he0, rfl⟩
      exact List.mem_map.2 ⟨_, (List.mem_filter.1 this).1, rfl⟩

/-- `r(m(k0 … k5), q(m(u)))`: a from-node with six children (the "merges only the first three
children" mutant is refuted by `merge_children_paths` on this instance) -/
def exWide : Tree :=
  .node 0 ['r'] [] [
    .node 1 ['m'] [] [.node 2 ['k','0'] [] [], .node 3 ['k','1'] [] [.node 4 ['g'] [] []],
                      .node 5 ['k','2'] [] [], .node 6 ['k','3'] [] [], .node 7 ['k','4'] [] [],
                      .node 8 ['k','5'] [] []],
    .node 9 ['q'] [] [.node 10 ['m'] [] [.node 11 ['u'] [] []]]]

example : MergeHyp (cfgOf false false false true false false true) '/' exWide
    (pathStr '/' ['r'] [['m']]) [] [['q']] ['m']
    (.node 1 ['m'] [] [.node 2 ['k','0'] [] [], .node 3 ['k','1'] [] [.node 4 ['g'] [] []],
                      .node 5 ['k','2'] [] [], .node 6 ['k','3'] [] [], .node 7 ['k','4'] [] [],
                      .node 8 ['k','5'] [] []])
    (.node 10 ['m'] [] [.node 11 ['u'] [] []]) where
  plain := ⟨rfl, rfl, rfl⟩
  mc := rfl
  ml := rfl
  ov := rfl
  su := by decide +kernel
  from_ := FromOK.full ⟨rfl, rfl, rfl⟩ rfl exWide [] ['m'] _ (by decide +kernel) (by decide +kernel)
  gt := by decide +kernel
  dest := by decide +kernel
  out1 := by decide +kernel
  out2 := by decide +kernel
  noclash := by decide +kernel

example : call1 (cfgOf false false false true false false true) '/' exWide 12 (pathStr '/' ['r'] [['m']]) [['q'], ['m']]
    = .ok (st0 (.node 0 ['r'] [] [
      .node 9 ['q'] [] [.node 10 ['m'] [] [.node 11 ['u'] [] [],
        .node 2 ['k','0'] [] [], .node 3 ['k','1'] [] [.node 4 ['g'] [] []],
        .node 5 ['k','2'] [] [], .node 6 ['k','3'] [] [], .node 7 ['k','4'] [] [],
        .node 8 ['k','5'] [] []]]]) 12) := by
  decide +kernel


/-! ## replace: the newcomer takes the replaced node's sibling position -/

/-- `shift_and_replace_nodes(tree, [from], [to])` with full paths: the replaced node `D` is the
child called `d` of `P` (the node at `tpar`), between the siblings `before` and `after`; the
from-node `F` is neither inside `D` nor contains it, and — the case the statement excludes — it
is **not a later sibling of `D` under the same parent** (`notLater`). `nodup`: once `D` is gone
no other child of `P` is called like the from-node. -/
structure ReplaceHyp (cfg : Cfg) (c : Char) (t : Tree) (fs : Str) (fpar tpar : List Str) (f d : Str)
    (F D P : Tree) (before after : List Tree) : Prop where
  plain : cfg.Plain c
  dc : cfg.deleteChildren = false
  su : SibUnique t
  from_ : FromOK cfg t fs (fpar ++ [f]) F f
  gt : GoodNames c (t.name :: tpar ++ [d])
  parent : getRel tpar t = some P
  split : P.children = before ++ D :: after
  dname : D.name = d
  out1 : (fpar ++ [f]).isPrefixOf (tpar ++ [d]) = false
  out2 : (tpar ++ [d]).isPrefixOf (fpar ++ [f]) = false
  notLater : ∀ y ∈ after, y.name = f → fpar ≠ tpar
  nodup : ∀ y ∈ P.children, y.name = f → f = d ∨ fpar = tpar

/-- The replaced node is gone and the from-node (the same object, with its subtree) stands at
its sibling position: the parent's child list is `X ++ F :: A` where `A` are the later siblings
and `X` the earlier ones (minus the from-node itself if it was an earlier sibling), each with
unchanged name, identity and attributes, in unchanged order; no object is created. -/
theorem replace_keeps_position {cfg c t k fs fpar tpar f d F D P before after}
    (h : ReplaceHyp cfg c t fs fpar tpar f d F D P before after) (hcp : cfg.copy = false) :
    ∃ t' P' X A, replaceNodes cfg (st0 t k)
        [(fs, some (pathStr c t.name (tpar ++ [d])))] = .ok (st0 t' k) ∧
      getRel tpar t' = some P' ∧ P'.children = X ++ F :: A ∧
      X.map ent = (before.filter (fun x => !(decide (fpar = tpar) && x.name == f))).map ent ∧
      A.map ent = after.map ent :=
  replace_core h.plain hcp h.dc t k fpar tpar f d F D P before after h.su fs h.from_ h.gt h.parent
    h.split h.dname h.out1 h.out2 h.notLater h.nodup

/-- `a(x, D(q), y(q), F, z)` -/
def exRep : Tree :=
  .node 0 ['a'] [] [.node 1 ['x'] [] [], .node 2 ['D'] [] [.node 3 ['q'] [] []],
                    .node 4 ['y'] [] [.node 5 ['q'] [] []], .node 6 ['F'] [] [], .node 7 ['z'] [] []]

/-- non-vacuity: replace `D` by the node `/a/y/q` (not a sibling) -/
example : ReplaceHyp (cfgOf false false false false false false true) '/' exRep
    (pathStr '/' ['a'] [['y'], ['q']]) [['y']] [] ['q'] ['D']
    (.node 5 ['q'] [] []) (.node 2 ['D'] [] [.node 3 ['q'] [] []]) exRep
    [.node 1 ['x'] [] []]
    [.node 4 ['y'] [] [.node 5 ['q'] [] []], .node 6 ['F'] [] [], .node 7 ['z'] [] []] where
  plain := ⟨rfl, rfl, rfl⟩
  dc := rfl
  su := by decide +kernel
  from_ := FromOK.full ⟨rfl, rfl, rfl⟩ rfl exRep [['y']] ['q'] _ (by decide +kernel) (by decide +kernel)
  gt := by decide +kernel
  parent := by decide +kernel
  split := by decide +kernel
  dname := rfl
  out1 := by decide +kernel
  out2 := by decide +kernel
  notLater := by decide +kernel
  nodup := by decide +kernel

example : replaceNodes (cfgOf false false false false false false true) (st0 exRep 8)
      [(pathStr '/' ['a'] [['y'], ['q']], some (pathStr '/' ['a'] [['D']]))]
    = .ok (st0 (.node 0 ['a'] [] [.node 1 ['x'] [] [], .node 5 ['q'] [] [],
        .node 4 ['y'] [] [], .node 6 ['F'] [] [], .node 7 ['z'] [] []]) 8) := by
  decide +kernel

/-- Observation (not a defect of the property as stated; recorded in DESIGN §5): when the
from-node is a LATER sibling of the replaced node, the "re-append the later siblings" loop puts
it back at its own old place, so it does not take the replaced node's position:
`[x, D, y, F, z]` with `F` replacing `D` becomes `[x, y, F, z]`, not `[x, F, y, z]`. -/
theorem replace_later_sibling_observation :
    replaceNodes (cfgOf false false false false false false true) (st0 exRep 8)
      [(pathStr '/' ['a'] [['F']], some (pathStr '/' ['a'] [['D']]))]
    = .ok (st0 (.node 0 ['a'] [] [.node 1 ['x'] [] [], .node 4 ['y'] [] [.node 5 ['q'] [] []],
        .node 6 ['F'] [] [], .node 7 ['z'] [] []]) 8) := by
  decide +kernel

/-- an EARLIER sibling does take the position (covered by `replace_keeps_position`) -/
example : replaceNodes (cfgOf false false false false false false true) (st0 exRep 8)
      [(pathStr '/' ['a'] [['x']], some (pathStr '/' ['a'] [['y']]))]
    = .ok (st0 (.node 0 ['a'] [] [.node 2 ['D'] [] [.node 3 ['q'] [] []], .node 1 ['x'] [] [],
        .node 6 ['F'] [] [], .node 7 ['z'] [] []]) 8) := by
  decide +kernel


/-! ## merge_leaves onto an existing destination -/

/-- `merge_leaves=True`, `overriding=False`, the destination `D` exists, the from-node `F` is not
itself a leaf; neither node lies inside the other; the leaves of `F` have distinct names, none of
them the name of a child of `D` (otherwise `Node` refuses the duplicate path) -/
structure LeavesHyp (cfg : Cfg) (c : Char) (t : Tree) (fs : Str) (fpar tpar : List Str) (l : Str)
    (F D : Tree) : Prop where
  plain : cfg.Plain c
  mc : cfg.mergeChildren = false
  ml : cfg.mergeLeaves = true
  ov : cfg.overriding = false
  su : SibUnique t
  /-- the from-string addresses the node `F` at `fpar ++ [l]` (see `FromOK`) -/
  from_ : FromOK cfg t fs (fpar ++ [l]) F l
  gt : GoodNames c (t.name :: tpar ++ [l])
  dest : getRel (tpar ++ [l]) t = some D
  out1 : (fpar ++ [l]).isPrefixOf (tpar ++ [l]) = false
  out2 : (tpar ++ [l]).isPrefixOf (fpar ++ [l]) = false
  inner : F.children ≠ []
  distinct : ((leavesRel F).map (fun pr => pr.2.name)).Nodup
  noclash : ∀ pr ∈ leavesRel F, ∀ y ∈ D.children, y.name ≠ pr.2.name

/-- `merge_leaves`: every leaf of the from-node (same object, same attributes) appears as a
child of the destination; the rest of the tree — the from-node with its inner nodes, the
destination's own children — is the old tree without those leaves, in the old order; nothing is
created. -/
theorem merge_leaves_paths {cfg c t k fs fpar tpar l F D} (h : LeavesHyp cfg c t fs fpar tpar l F D)
    (hcp : cfg.copy = false) :
    ∃ t', call1 cfg c t k fs (tpar ++ [l]) = .ok (st0 t' k) ∧ SibUnique t' ∧
      (∀ pr ∈ leavesRel F, (flat t').filter (under (tpar ++ [l] ++ [pr.2.name]))
          = [(tpar ++ [l] ++ [pr.2.name], pr.2.id, pr.2.attrs)]) ∧
      (flat t').filter (fun e => !underAny (tpar ++ [l]) ((leavesRel F).map (·.2)) e)
        = (flat t).filter
            (fun e => !(((leavesRel F).map (fun pr => fpar ++ [l] ++ pr.1)).any (fun p => under p e))) :=
  merge_leaves_core h.plain hcp h.mc h.ml h.ov t k fpar tpar l F D h.su fs h.from_ h.gt h.dest
    h.out1 h.out2 h.inner h.distinct h.noclash

/-- `r(m(a(x, y), z), q(m(u)))`: leaves `x, y, z` of `/r/m` go under `/r/q/m` -/
def exLeaves : Tree :=
  .node 0 ['r'] [] [
    .node 1 ['m'] [] [.node 2 ['a'] [] [.node 3 ['x'] [] [], .node 4 ['y'] [] []], .node 5 ['z'] [] []],
    .node 6 ['q'] [] [.node 7 ['m'] [] [.node 8 ['u'] [] []]]]

example : LeavesHyp (cfgOf false false false false true false true) '/' exLeaves
    (pathStr '/' ['r'] [['m']]) [] [['q']] ['m']
    (.node 1 ['m'] [] [.node 2 ['a'] [] [.node 3 ['x'] [] [], .node 4 ['y'] [] []], .node 5 ['z'] [] []])
    (.node 7 ['m'] [] [.node 8 ['u'] [] []]) where
  plain := ⟨rfl, rfl, rfl⟩
  mc := rfl
  ml := rfl
  ov := rfl
  su := by decide +kernel
  from_ := FromOK.full ⟨rfl, rfl, rfl⟩ rfl exLeaves [] ['m'] _ (by decide +kernel) (by decide +kernel)
  gt := by decide +kernel
  dest := by decide +kernel
  out1 := by decide +kernel
  out2 := by decide +kernel
  inner := by decide +kernel
  distinct := by decide +kernel
  noclash := by decide +kernel

example : call1 (cfgOf false false false false true false true) '/' exLeaves 9 (pathStr '/' ['r'] [['m']]) [['q'], ['m']]
    = .ok (st0 (.node 0 ['r'] [] [
      .node 1 ['m'] [] [.node 2 ['a'] [] []],
      .node 6 ['q'] [] [.node 7 ['m'] [] [.node 8 ['u'] [] [], .node 3 ['x'] [] [], .node 4 ['y'] [] [],
        .node 5 ['z'] [] []]]]) 9) := by
  decide +kernel


/-! ## Tier 2: partial from-paths

Every single-pair theorem above takes the from-string through `FromOK`; `FromOK.partial` supplies
it for `with_full_path=False` and a partial path (trailing part of the path, or a node name) whose
string is the suffix of exactly one node's `path_name` — `find_path`'s semantics. -/

/-- the node name `x` addresses `/r/a/x` in `exTree` (no other `path_name` ends with `x`):
`shift_nodes(tree, ["x"], ["/r/b/x"])` -/
example : PairHyp (cfgOf false false false false false false false) '/' exTree 5
    ['x'] [['a']] [['b']] ['x'] (.node 2 ['x'] [(['k'], .int 7)] []) where
  plain := ⟨rfl, rfl, rfl⟩
  mc := rfl
  ml := rfl
  su := by decide +kernel
  fresh := by decide +kernel
  from_ := FromOK.partial ⟨rfl, rfl, rfl⟩ rfl exTree ['x'] [['a'], ['x']] _ ['x']
    (by decide +kernel) (by decide +kernel) (by decide +kernel) (by decide +kernel) (by decide +kernel)
  gt := by decide +kernel
  missing := by decide +kernel
  outside := by decide +kernel

example : call1 (cfgOf false false false false false false false) '/' exTree 5 ['x'] [['b'], ['x']]
    = .ok (st0 (.node 0 ['r'] [] [.node 1 ['a'] [] [.node 3 ['y'] [] []],
        .node 4 ['b'] [] [.node 2 ['x'] [(['k'], .int 7)] []]]) 5) := by
  decide +kernel

/-- a partial path with a leading separator: `/a/y` -/
example : FromOK (cfgOf false false false false false false false) exTree ['/','a','/','y']
    [['a'], ['y']] (.node 3 ['y'] [] []) ['y'] :=
  FromOK.partial (c := '/') ⟨rfl, rfl, rfl⟩ rfl exTree _ _ _ _
    (by decide +kernel) (by decide +kernel) (by decide +kernel) (by decide +kernel) (by decide +kernel)


/-! ## the fold law for `replace_logic` -/

/-- `shift_and_replace_nodes` / `copy_and_replace_nodes_from_tree_to_tree` with several pairs ≡ the
single-pair calls in sequence (for lists that pass the up-front validation) -/
theorem replace_pairs_fold (cfg : Cfg) (st : St) (p : Str × Option Str) (ps : List (Str × Option Str))
    (hv : validReplace cfg st (p :: ps) = true) :
    replaceNodes cfg st (p :: ps)
      = (replaceNodes cfg st [p]).bind (fun st' => replaceNodes cfg st' ps) := by
  rw [validReplace_cons] at hv
  simp only [Bool.and_eq_true] at hv
  obtain ⟨hv1, hv2⟩ := hv
  simp only [replaceNodes, validReplace_cons cfg st p ps, hv1, hv2, Bool.and_self, if_true,
    List.map_cons, List.map_nil, loopReplace]
  cases hs : stepReplace cfg st (norm cfg p) with
  | error e => simp [Except.bind]
  | ok st' =>
    obtain ⟨h1, h2⟩ := stepReplace_name hs
    have h3 : st'.tree.name = st.tree.name := by
      unfold St.tree; rw [h2]; cases st.src <;> simp [h1]
    simp [Except.bind, validReplace_congr h1 h3, hv2]

/-- the source tree of `copy_and_replace_nodes_from_tree_to_tree` is untouched, for every flag
combination and pair list -/
theorem replace_source_untouched (cfg : Cfg) (st : St) (ps : List (Str × Option Str)) {st' : St}
    (h : replaceNodes cfg st ps = .ok st') : st'.src = st.src := by
  unfold replaceNodes at h
  split at h
  · have key : ∀ (qs : List (Str × Option Str)) (st : St), loopReplace cfg st qs = .ok st' →
        st'.src = st.src := by
      intro qs
      induction qs with
      | nil => intro st h; simp [loopReplace] at h; rw [h]
      | cons q qs ih =>
        intro st h
        simp only [loopReplace] at h
        cases hs : stepReplace cfg st q with
        | error e => rw [hs] at h; simp at h
        | ok st1 => rw [hs] at h; rw [ih st1 h, (stepReplace_name hs).2]
    exact key _ _ h
  · simp at h

example : replaceNodes (cfgOf false false false false false false true) (st0 exRep 8)
      [(pathStr '/' ['a'] [['y'], ['q']], some (pathStr '/' ['a'] [['D']])),
       (pathStr '/' ['a'] [['x']], some (pathStr '/' ['a'] [['F']]))]
    = .ok (st0 (.node 0 ['a'] [] [.node 5 ['q'] [] [], .node 4 ['y'] [] [], .node 1 ['x'] [] [],
        .node 7 ['z'] [] []]) 8) := by
  decide +kernel

/-! ## the frame, for EVERY flag combination

"Nodes not addressed by the edit keep their identity, path, order and attributes" — one theorem for all
2⁷ settings of copy / skippable / overriding / merge_children / merge_leaves / delete_children /
with_full_path, for same-tree and tree-to-tree calls, for every tree (no hypothesis on names or
separators): the pre-order entry list (path, object identity, attributes) of the old destination tree,
restricted to the entries that lie neither below the from-node (same-tree SHIFT; a copy leaves its origin
alone) nor below the existing destination, is a **sublist** of the entry list of the result. -/

/-- one step of the loop -/
theorem frame_all_flags_step (cfg : Cfg) (st st' : St) (pr : Str × Option Str) (fp : List Str) (F : Tree)
    (hres : resolveFrom cfg st pr.1 = .ok (some (fp, F))) (h : step cfg st pr = .ok st') :
    ((flat st.dst).filter (fun e =>
      !touched (if st.src.isNone && !cfg.copy then some fp else none) (destHandle cfg st pr.2) e)).Sublist
      (flat st'.dst) :=
  Modify.step_sub hres h

/-- the public single-pair call `shift_nodes / copy_nodes / copy_nodes_from_tree_to_tree (…, [from], [to])` -/
theorem frame_all_flags (cfg : Cfg) (st st' : St) (pr : Str × Option Str) (fp : List Str) (F : Tree)
    (hres : resolveFrom cfg st (norm cfg pr).1 = .ok (some (fp, F)))
    (h : copyOrShift cfg st [pr] = .ok st') :
    ((flat st.dst).filter (fun e =>
      !touched (if st.src.isNone && !cfg.copy then some fp else none) (destHandle cfg st (norm cfg pr).2) e)).Sublist
      (flat st'.dst) := by
  unfold copyOrShift at h
  split at h
  · simp only [List.map_cons, List.map_nil, loop] at h
    cases hs : step cfg st (norm cfg pr) with
    | error e => rw [hs] at h; simp at h
    | ok s1 =>
      rw [hs] at h; simp only [Except.ok.injEq] at h; subst h
      exact Modify.step_sub hres hs
  · simp at h

/-- … in particular every such node is still there, with the same path, identity and attributes -/
theorem frame_all_flags_mem (cfg : Cfg) (st st' : St) (pr : Str × Option Str) (fp : List Str) (F : Tree)
    (hres : resolveFrom cfg st (norm cfg pr).1 = .ok (some (fp, F)))
    (h : copyOrShift cfg st [pr] = .ok st') (e : Entry) (he : e ∈ flat st.dst)
    (hout : touched (if st.src.isNone && !cfg.copy then some fp else none) (destHandle cfg st (norm cfg pr).2) e = false) :
    e ∈ flat st'.dst :=
  (frame_all_flags cfg st st' pr fp F hres h).subset (List.mem_filter.2 ⟨he, by rw [hout]; rfl⟩)

/-! non-vacuity on a flag combination no single-flag theorem covers: copy + merge_children +
delete_children onto the existing `/r/b/a` of `r(a(x, y), b(a(z)), c)` -/

def exTree3 : Tree :=
  .node 0 ['r'] [] [.node 1 ['a'] [] [.node 2 ['x'] [(['k'], .int 7)] [.node 8 ['w'] [] []], .node 3 ['y'] [] []],
                    .node 4 ['b'] [] [.node 5 ['a'] [] [.node 6 ['z'] [] []]],
                    .node 7 ['c'] [] []]

example : resolveFrom (cfgOf true false false true false true true) (st0 exTree3 9)
      (norm (cfgOf true false false true false true true)
        (pathStr '/' ['r'] [['a']], some (pathStr '/' ['r'] [['b'], ['a']]))).1
    = .ok (some ([['a']], .node 1 ['a'] [] [.node 2 ['x'] [(['k'], .int 7)] [.node 8 ['w'] [] []], .node 3 ['y'] [] []])) := by
  decide +kernel

example : copyOrShift (cfgOf true false false true false true true) (st0 exTree3 9)
      [(pathStr '/' ['r'] [['a']], some (pathStr '/' ['r'] [['b'], ['a']]))]
    = .ok (st0 (.node 0 ['r'] [] [
        .node 1 ['a'] [] [.node 2 ['x'] [(['k'], .int 7)] [.node 8 ['w'] [] []], .node 3 ['y'] [] []],
        .node 4 ['b'] [] [.node 5 ['a'] [] [.node 6 ['z'] [] [], .node 10 ['x'] [(['k'], .int 7)] [], .node 12 ['y'] [] []]],
        .node 7 ['c'] [] []]) 13) := by
  decide +kernel

-- the entries outside `/r/a` and `/r/b/a`: the root, `b`, `c`
example : (flat exTree3).filter (fun e => !touched (some [['a']]) (some [['b'], ['a']]) e)
    = [([], 0, []), ([['b']], 4, []), ([['c']], 7, [])] := by decide +kernel

/-! ### the same for `replace_logic` (shift_and_replace_nodes, copy_and_replace_nodes_from_tree_to_tree)

The re-append loop permutes siblings in its intermediate states, so the statement is about sub-multisets
(`List.Subperm`, written `<+~`): every old entry that lies neither below the from-node (same-tree shift)
nor below the replaced node occurs in the result with at least its multiplicity. -/

theorem replace_frame_all_flags_step (cfg : Cfg) (st st' : St) (pr : Str × Option Str) (fp : List Str)
    (F : Tree) (hres : resolveFrom cfg st pr.1 = .ok (some (fp, F)))
    (h : stepReplace cfg st pr = .ok st') :
    List.Subperm ((flat st.dst).filter (fun e =>
      !touched (if st.src.isNone && !cfg.copy then some fp else none) (replHandle cfg st pr.2) e))
      (flat st'.dst) :=
  Modify.stepReplace_sub hres h

theorem replace_frame_all_flags_mem (cfg : Cfg) (st st' : St) (pr : Str × Option Str) (fp : List Str)
    (F : Tree) (hres : resolveFrom cfg st pr.1 = .ok (some (fp, F)))
    (h : stepReplace cfg st pr = .ok st') (e : Entry) (he : e ∈ flat st.dst)
    (hout : touched (if st.src.isNone && !cfg.copy then some fp else none) (replHandle cfg st pr.2) e = false) :
    e ∈ flat st'.dst :=
  (replace_frame_all_flags_step cfg st st' pr fp F hres h).subset (List.mem_filter.2 ⟨he, by rw [hout]; rfl⟩)

-- non-vacuity: the first pair of the example above (`/a/y/q` replaces `/a/D` in `exRep`) with delete_children
example : (stepReplace (cfgOf false false false false false true true) (st0 exRep 8)
      (pathStr '/' ['a'] [['y'], ['q']], some (pathStr '/' ['a'] [['D']]))).toOption.isSome = true := by
  decide +kernel

/-! ## nothing is invented, for EVERY flag combination

The *objects* of a tree are the pairs (identity, attributes) of its nodes.  After one pair — whatever the
flags, same-tree or tree-to-tree, any tree, any strings — every node of the destination tree is an object
that was in the destination tree before, or (shift only) an object of the tree the from-node was looked
up in, or a new object whose identity was drawn from the fresh-id counter during this very step.  So no
attribute of an existing node changes, no existing object is duplicated under its old identity, and a copy
consists of new objects only. -/

/-- the from-node found by `find_full_path` / `find_path` is made of objects of the searched tree -/
theorem resolveFrom_objs (cfg : Cfg) (st : St) (f : Str) (fp : List Str) (F : Tree)
    (h : resolveFrom cfg st f = .ok (some (fp, F))) : ∀ x ∈ objs F, x ∈ objs st.tree := by
  unfold resolveFrom at h
  split at h
  · unfold findFullPath at h
    split at h
    · cases h
    · split at h
      · cases h
      · next r rest _ _ =>
        simp only [Except.ok.injEq] at h
        cases hg : getRel rest st.tree with
        | none => simp [hg] at h
        | some X =>
          simp only [hg, Option.map_some, Option.some.injEq, Prod.mk.injEq] at h
          obtain ⟨rfl, rfl⟩ := h
          exact objs_getRel _ _ _ hg
  · unfold findPath at h
    simp only at h
    split at h
    · cases h
    · next m hm =>
      simp only [Except.ok.injEq, Option.some.injEq] at h; subst h
      have : (fp, F) ∈ [(fp, F)] := by simp
      rw [← hm] at this
      exact objs_nodesRel st.tree (fp, F) (List.mem_filter.1 this).1
    · cases h

theorem nothing_invented_step (cfg : Cfg) (st st' : St) (pr : Str × Option Str)
    (h : step cfg st pr = .ok st') :
    st.next ≤ st'.next ∧
    ∀ x ∈ objs st'.dst,
      x ∈ objs st.dst ∨ (cfg.copy = false ∧ x ∈ objs st.tree) ∨ (st.next ≤ x.1 ∧ x.1 < st'.next) := by
  cases hres : resolveFrom cfg st pr.1 with
  | error e => simp [step, hres] at h
  | ok o =>
    cases o with
    | none =>
      simp only [step, hres] at h
      split at h
      · simp only [Except.ok.injEq] at h; subst h
        exact ⟨Nat.le_refl _, fun x hx => Or.inl hx⟩
      · cases h
    | some y =>
      obtain ⟨fp, F⟩ := y
      obtain ⟨hn, hk⟩ := Modify.step_objs hres h
      refine ⟨hn, fun x hx => ?_⟩
      rcases hk x hx with h1 | h1
      · rw [List.mem_append] at h1
        rcases h1 with h1 | h1
        · exact Or.inl h1
        · cases hc : cfg.copy with
          | true => simp [hc] at h1
          | false =>
            simp only [hc, Bool.false_eq_true, if_false] at h1
            exact Or.inr (Or.inl ⟨rfl, resolveFrom_objs cfg st pr.1 fp F hres x h1⟩)
      · exact Or.inr (Or.inr h1)

/-- … lifted to a whole pair list: every object of the final tree was in one of the two trees at the start
or was created during the call -/
theorem nothing_invented (cfg : Cfg) : ∀ (ps : List (Str × Option Str)) (st st' : St),
    loop cfg st ps = .ok st' →
    st.next ≤ st'.next ∧
    ∀ x ∈ objs st'.dst,
      x ∈ objs st.dst ∨ (cfg.copy = false ∧ x ∈ objs st.tree) ∨ (st.next ≤ x.1 ∧ x.1 < st'.next)
  | [], st, st', h => by
    simp only [loop, Except.ok.injEq] at h; subst h
    exact ⟨Nat.le_refl _, fun x hx => Or.inl hx⟩
  | p :: ps, st, st', h => by
    simp only [loop] at h
    cases hs : step cfg st p with
    | error e => simp [hs] at h
    | ok s1 =>
      simp only [hs] at h
      obtain ⟨hn1, hk1⟩ := nothing_invented_step cfg st s1 p hs
      obtain ⟨hn2, hk2⟩ := nothing_invented cfg ps s1 st' h
      have htree : ∀ x ∈ objs s1.tree, x ∈ objs st.tree ∨ x ∈ objs s1.dst := by
        intro x hx
        have hsrc : s1.src = st.src := (step_name hs).2
        unfold St.tree at hx ⊢
        rw [hsrc] at hx
        cases hso : st.src with
        | none => rw [hso] at hx; exact Or.inr (by simpa using hx)
        | some s => rw [hso] at hx; exact Or.inl (by simpa using hx)
      refine ⟨by omega, fun x hx => ?_⟩
      have lift1 : x ∈ objs s1.dst →
          x ∈ objs st.dst ∨ (cfg.copy = false ∧ x ∈ objs st.tree) ∨ (st.next ≤ x.1 ∧ x.1 < st'.next) := by
        intro h1
        rcases hk1 x h1 with h2 | h2 | h2
        · exact Or.inl h2
        · exact Or.inr (Or.inl h2)
        · exact Or.inr (Or.inr ⟨h2.1, by omega⟩)
      rcases hk2 x hx with h1 | ⟨hc, h1⟩ | h1
      · exact lift1 h1
      · rcases htree x h1 with h2 | h2
        · exact Or.inr (Or.inl ⟨hc, h2⟩)
        · exact lift1 h2
      · exact Or.inr (Or.inr ⟨by omega, h1.2⟩)

/-- the public call (`shift_nodes`, `copy_nodes`, `copy_nodes_from_tree_to_tree`, any number of pairs) -/
theorem nothing_invented_call (cfg : Cfg) (st st' : St) (ps : List (Str × Option Str))
    (h : copyOrShift cfg st ps = .ok st') :
    st.next ≤ st'.next ∧
    ∀ x ∈ objs st'.dst,
      x ∈ objs st.dst ∨ (cfg.copy = false ∧ x ∈ objs st.tree) ∨ (st.next ≤ x.1 ∧ x.1 < st'.next) := by
  unfold copyOrShift at h
  split at h
  · exact nothing_invented cfg _ st st' h
  · simp at h

-- non-vacuity: the copy + merge_children + delete_children call on `exTree3` above; objects 0..8 are old,
-- the copy of `a` took 9..12 (9 and 11 are not attached: `a` itself is merged away, `w` is a deleted child)
example : objs (.node 0 ['r'] [] [
        .node 1 ['a'] [] [.node 2 ['x'] [(['k'], .int 7)] [.node 8 ['w'] [] []], .node 3 ['y'] [] []],
        .node 4 ['b'] [] [.node 5 ['a'] [] [.node 6 ['z'] [] [], .node 10 ['x'] [(['k'], .int 7)] [], .node 12 ['y'] [] []]],
        .node 7 ['c'] [] []])
    = [(0, []), (1, []), (2, [(['k'], .int 7)]), (8, []), (3, []), (4, []), (5, []), (6, []),
       (10, [(['k'], .int 7)]), (12, []), (7, [])] := by decide +kernel

/-! ### the same for `replace_logic` -/

theorem replace_nothing_invented_step (cfg : Cfg) (st st' : St) (pr : Str × Option Str)
    (h : stepReplace cfg st pr = .ok st') :
    st.next ≤ st'.next ∧
    ∀ x ∈ objs st'.dst,
      x ∈ objs st.dst ∨ (cfg.copy = false ∧ x ∈ objs st.tree) ∨ (st.next ≤ x.1 ∧ x.1 < st'.next) := by
  cases hres : resolveFrom cfg st pr.1 with
  | error e => simp [stepReplace, hres] at h
  | ok o =>
    cases o with
    | none =>
      simp only [stepReplace, hres] at h
      split at h
      · simp only [Except.ok.injEq] at h; subst h
        exact ⟨Nat.le_refl _, fun x hx => Or.inl hx⟩
      · cases h
    | some y =>
      obtain ⟨fp, F⟩ := y
      obtain ⟨hn, hk⟩ := Modify.stepReplace_objs hres h
      refine ⟨hn, fun x hx => ?_⟩
      rcases hk x hx with h1 | h1
      · rw [List.mem_append] at h1
        rcases h1 with h1 | h1
        · exact Or.inl h1
        · cases hc : cfg.copy with
          | true => simp [hc] at h1
          | false =>
            simp only [hc, Bool.false_eq_true, if_false] at h1
            exact Or.inr (Or.inl ⟨rfl, resolveFrom_objs cfg st pr.1 fp F hres x h1⟩)
      · exact Or.inr (Or.inr h1)

/-- `shift_and_replace_nodes` / `copy_and_replace_nodes_from_tree_to_tree` with any pair list -/
theorem replace_nothing_invented (cfg : Cfg) : ∀ (ps : List (Str × Option Str)) (st st' : St),
    loopReplace cfg st ps = .ok st' →
    st.next ≤ st'.next ∧
    ∀ x ∈ objs st'.dst,
      x ∈ objs st.dst ∨ (cfg.copy = false ∧ x ∈ objs st.tree) ∨ (st.next ≤ x.1 ∧ x.1 < st'.next)
  | [], st, st', h => by
    simp only [loopReplace, Except.ok.injEq] at h; subst h
    exact ⟨Nat.le_refl _, fun x hx => Or.inl hx⟩
  | p :: ps, st, st', h => by
    simp only [loopReplace] at h
    cases hs : stepReplace cfg st p with
    | error e => simp [hs] at h
    | ok s1 =>
      simp only [hs] at h
      obtain ⟨hn1, hk1⟩ := replace_nothing_invented_step cfg st s1 p hs
      obtain ⟨hn2, hk2⟩ := replace_nothing_invented cfg ps s1 st' h
      have htree : ∀ x ∈ objs s1.tree, x ∈ objs st.tree ∨ x ∈ objs s1.dst := by
        intro x hx
        have hsrc : s1.src = st.src := (stepReplace_name hs).2
        unfold St.tree at hx ⊢
        rw [hsrc] at hx
        cases hso : st.src with
        | none => rw [hso] at hx; exact Or.inr (by simpa using hx)
        | some s => rw [hso] at hx; exact Or.inl (by simpa using hx)
      refine ⟨by omega, fun x hx => ?_⟩
      have lift1 : x ∈ objs s1.dst →
          x ∈ objs st.dst ∨ (cfg.copy = false ∧ x ∈ objs st.tree) ∨ (st.next ≤ x.1 ∧ x.1 < st'.next) := by
        intro h1
        rcases hk1 x h1 with h2 | h2 | h2
        · exact Or.inl h2
        · exact Or.inr (Or.inl h2)
        · exact Or.inr (Or.inr ⟨h2.1, by omega⟩)
      rcases hk2 x hx with h1 | ⟨hc, h1⟩ | h1
      · exact lift1 h1
      · rcases htree x h1 with h2 | h2
        · exact Or.inr (Or.inl ⟨hc, h2⟩)
        · exact lift1 h2
      · exact Or.inr (Or.inr ⟨by omega, h1.2⟩)

end C08
