import BigtreeModel.DagCopy
import BigtreeProofs.Lemmas.DagCopy
import BigtreeProofs.Properties.C10
/-!
# C07 for `DAGNode.copy()`: the copy is fresh, equal to the original, and no later call on one side is
visible on the other

Model: `BigtreeModel/DagCopy.lean` (`copy.deepcopy` mirrors the store at ids `≥ n`, every list of a
duplicate being the shifted list of its original, in order) on top of the statement-level `DagStore` of
C10.  The histories that follow the copy are arbitrary sequences of `parents` / `children` assignments,
`>>`, `<<`, `del node.children`, `del node[name]` with any arguments and hook faults, accepted or
refused; "side" is decided by the ids a call mentions.  Constructor calls (which allocate a new id) are
left to the tie.
-/

namespace C07Dag
open DagStore

/-- **the copy is fresh and equal to the original**: the mirrored store is again a well-formed DAG store;
every old cell is unchanged; the duplicate of `v` is a new id whose parents / children / name are the
duplicates of `v`'s, in the same order; the edge list is the old one followed by its shifted image (so no
edge joins an old node and a new one) -/
theorem dag_copy_fresh (s : DStore) (hs : DWF s) :
    DWF (deepCopy s) ∧
    (∀ v, v < s.n → (deepCopy s).parents v = s.parents v ∧ (deepCopy s).children v = s.children v ∧
      (deepCopy s).names v = s.names v) ∧
    (∀ v, v < s.n → s.n ≤ copyOf s v ∧ copyOf s v < (deepCopy s).n ∧
      (deepCopy s).parents (copyOf s v) = (s.parents v).map (copyOf s) ∧
      (deepCopy s).children (copyOf s v) = (s.children v).map (copyOf s) ∧
      (deepCopy s).names (copyOf s v) = s.names v) ∧
    edges (deepCopy s) = edges s ++ (edges s).map (shiftE s.n) := by
  refine ⟨dwf_deepCopy hs, ?_, ?_, edges_deepCopy s⟩
  · intro v hv
    exact ⟨deepCopy_parents_low s hv, deepCopy_children_low s hv, by simp [deepCopy, hv]⟩
  · intro v hv
    have e : v + s.n - s.n = v := by omega
    refine ⟨by simp [copyOf], by simp only [copyOf, deepCopy]; omega, ?_, ?_, ?_⟩
    · rw [copyOf, deepCopy_parents_mid s (by omega) (by omega), e]; rfl
    · rw [copyOf, deepCopy_children_mid s (by omega) (by omega), e]; rfl
    · have h1 : ¬ v + s.n < s.n := by omega
      simp [copyOf, deepCopy, h1]

/-- **later changes of the copy are not visible on the original**: after any history of calls that only
mention duplicates (any arguments among them, any hook faults, accepted or refused), the edges among the
old nodes are exactly the edges of the original -/
theorem dag_no_alias_after_copy (s : DStore) (hs : DWF s) (ops : List Op)
    (hops : ∀ op ∈ ops, op.isConstruct = false ∧ ∀ i ∈ op.ids, s.n ≤ i) :
    (lowE s.n (edges (run true (deepCopy s) ops).1)).Perm (edges s) := by
  have hr := run_rel ops (deepCopy s) _ (dwf_deepCopy hs) (rel_estate _)
    (noRejConstruct_of_noConstruct ops _ (fun op h => (hops op h).1))
  have h1 := hr.perm.filter (fun e => decide (e.1 < s.n ∧ e.2 < s.n))
  refine h1.trans ?_
  have h2 := replay_lowE s.n (ops.zip (run true (deepCopy s) ops).2) (estate (deepCopy s))
    (fun x hx => hops x.1 (List.of_mem_zip hx).1)
  show (lowE s.n _).Perm _
  rw [h2]
  show (lowE s.n (edges (deepCopy s))).Perm _
  rw [lowE_edges_deepCopy hs.toDWF0]

/-- **later changes of the original are not visible on the copy** -/
theorem dag_no_alias_original_mutated (s : DStore) (hs : DWF s) (ops : List Op)
    (hops : ∀ op ∈ ops, op.isConstruct = false ∧ ∀ i ∈ op.ids, i < s.n) :
    (highE s.n (edges (run true (deepCopy s) ops).1)).Perm ((edges s).map (shiftE s.n)) := by
  have hr := run_rel ops (deepCopy s) _ (dwf_deepCopy hs) (rel_estate _)
    (noRejConstruct_of_noConstruct ops _ (fun op h => (hops op h).1))
  have h1 := hr.perm.filter (fun e => decide (s.n ≤ e.1 ∧ s.n ≤ e.2))
  refine h1.trans ?_
  have h2 := replay_highE s.n (ops.zip (run true (deepCopy s) ops).2) (estate (deepCopy s))
    (fun x hx => hops x.1 (List.of_mem_zip hx).1)
  show (highE s.n _).Perm _
  rw [h2]
  show (highE s.n (edges (deepCopy s))).Perm _
  rw [highE_edges_deepCopy hs.toDWF0]

/-! non-vacuity: C10's demo DAG (0→1, 0→2, 1→2, 2→3), its copy, and a history on the duplicates -/

example : edges (deepCopy C10.demo) = [(0, 1), (0, 2), (1, 2), (2, 3), (4, 5), (4, 6), (5, 6), (6, 7)] := by
  decide
example : (deepCopy C10.demo).parents (copyOf C10.demo 2) = [5, 4] ∧ C10.demo.parents 2 = [1, 0] := by decide

def copyHist : List Op :=
  [.delChildren 4, .setParents 7 (.list [5, 4]) .none, .setChildren 6 (.list [4]) .none, .rshift 7 4 .post]

example : (∀ op ∈ copyHist, op.isConstruct = false ∧ ∀ i ∈ op.ids, C10.demo.n ≤ i) := by decide
example : edges (run true (deepCopy C10.demo) copyHist).1
      = [(0, 1), (0, 2), (1, 2), (2, 3), (4, 7), (5, 6), (5, 7), (6, 7), (6, 4)]
    ∧ (run true (deepCopy C10.demo) copyHist).2 = [.ok, .ok, .ok, .rej] := by decide


/-- **mixed histories**: calls on the originals and calls on the duplicates interleaved in any way (each call
mentions nodes of one side only; any arguments, any hook faults, accepted or refused).  At the end the edges
among the old nodes are - up to order - what the calls on the originals ALONE, with the outcomes they had,
make of the original graph: the calls on the copy might as well not have happened. -/
theorem dag_mixed_history (s : DStore) (hs : DWF s) (ops : List Op)
    (hops : ∀ op ∈ ops, op.isConstruct = false ∧ (op.isLow s.n = true ∨ op.isHigh s.n = true)) :
    (lowE s.n (edges (run true (deepCopy s) ops).1)).Perm
      ((EState.mk (2 * s.n) (deepCopy s).names (edges s)).replay
        ((ops.zip (run true (deepCopy s) ops).2).filter fun x => x.1.isLow s.n)).E := by
  have hr := run_rel ops (deepCopy s) _ (dwf_deepCopy hs) (rel_estate _)
    (noRejConstruct_of_noConstruct ops _ (fun op h => (hops op h).1))
  have h1 := hr.perm.filter (fun e => decide (e.1 < s.n ∧ e.2 < s.n))
  refine h1.trans ?_
  have h2 := (replay_low_mixed s.n (ops.zip (run true (deepCopy s) ops).2) (estate (deepCopy s))
    (sepE_edges_deepCopy hs.toDWF0) (fun x hx => hops x.1 (List.of_mem_zip hx).1)).1
  show (lowE s.n _).Perm _
  rw [h2]
  have e : lowG s.n (estate (deepCopy s)) = EState.mk (2 * s.n) (deepCopy s).names (edges s) := by
    simp only [lowG, estate]
    rw [lowE_edges_deepCopy hs.toDWF0]
    rfl
  rw [e]

def mixedHist : List Op :=
  [.delChildren 4, .setChildren 3 (.list [0]) .none, .setParents 7 (.list [5, 4]) .none, .delItem 0 [],
   .rshift 1 3 .none, .setChildren 6 (.list [4]) .post]

example : (∀ op ∈ mixedHist, op.isConstruct = false ∧ (op.isLow C10.demo.n = true ∨ op.isHigh C10.demo.n = true)) := by
  decide
-- three calls accepted (one on the originals: 1 >> 3), three refused; low part = the low calls replayed alone
example : edges (run true (deepCopy C10.demo) mixedHist).1
      = [(0, 1), (0, 2), (1, 2), (1, 3), (2, 3), (4, 7), (5, 6), (5, 7), (6, 7)] ∧
    ((EState.mk 8 (deepCopy C10.demo).names (edges C10.demo)).replay
      ((mixedHist.zip (run true (deepCopy C10.demo) mixedHist).2).filter fun x => x.1.isLow 4)).E
      = [(0, 1), (0, 2), (1, 2), (2, 3), (1, 3)] := by decide

end C07Dag
