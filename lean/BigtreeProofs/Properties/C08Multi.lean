import BigtreeProofs.Properties.C08
import BigtreeProofs.Lemmas.ModifyStrMulti
/-! # C08 - the string layer for separators of any length (kept apart from `Properties/C08.lean`: the store model this
rests on has a `Cfg` of its own) -/
open Modify
namespace C08

/-- The look-up every (from, to) pair starts with under `with_full_path=True`, and the component walk of
`add_path_to_tree`, for separators of ANY length (`"::"`, `"->"`): a printed full path `sep + sep.join(names)` - with any
run of separator characters in front of or behind it, Python strips a character SET - is cut into exactly the names, and
`find_full_path` returns the node at that address (or nothing when there is none). Names are non-empty and share no
character with the separator (`Store.Free`). The per-flag theorems above are stated for a one-character separator;
this is the string layer they rest on, at full generality. -/
theorem find_full_path_printed_multi (sp : Str) (hsp : sp ≠ []) (t : Tree) (p : List Str)
    (h : ∀ x ∈ t.name :: p, x ≠ [] ∧ Store.Free sp x) (lead trail : Str)
    (hl : ∀ x ∈ lead, x ∈ sp) (ht : ∀ x ∈ trail, x ∈ sp) :
    findFullPath sp t (lead ++ pathName sp (t.name :: p) ++ trail) = .ok ((getRel p t).map (fun x => (p, x))) :=
  findFullPath_printed_multi sp hsp t p h lead trail hl ht

theorem comps_printed_multi (sp : Str) (hsp : sp ≠ []) (n : Str) (ns : List Str)
    (h : ∀ x ∈ n :: ns, x ≠ [] ∧ Store.Free sp x) (lead trail : Str)
    (hl : ∀ x ∈ lead, x ∈ sp) (ht : ∀ x ∈ trail, x ∈ sp) :
    splitOn sp (stripL sp (stripR sp (lead ++ pathName sp (n :: ns) ++ trail))) = n :: ns :=
  comps_pathName_multi' sp hsp n ns h lead trail hl ht

-- the hypotheses are met by the example tree with the separator "->" and the look-up computes
example : (∀ x ∈ exTree3.name :: [['b'], ['a']], x ≠ [] ∧ Store.Free ['-', '>'] x) := by
  intro x hx
  simp only [exTree3, Tree.name, List.mem_cons, List.mem_nil_iff, or_false] at hx
  rcases hx with rfl | rfl | rfl <;> exact ⟨by simp, by intro c hc; simp at hc; subst hc; decide⟩
example : (findFullPath ['-', '>'] exTree3 (['>', '-'] ++ pathName ['-', '>'] (exTree3.name :: [['b'], ['a']]) ++ ['-'])).toOption.bind
    (fun o => o.map (fun x => x.2.id)) = some 5 := by decide

end C08
