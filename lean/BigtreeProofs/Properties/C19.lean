import BigtreeModel.Plot
import BigtreeProofs.Lemmas.Plot
import BigtreeProofs.Lemmas.PlotContourPass
import BigtreeProofs.Lemmas.PlotContourClass
/-!
# C19 — Reingold–Tilford coordinates form a tidy, non-overlapping drawing

`Plot.layoutS P t` is the model of `reingold_tilford(root, sib, sub, lvl, xoff, yoff)` over exact
rationals (`BigtreeModel/Plot.lean`) on a tree whose nodes carry the `shift` attributes recorded
in `t : ST` (left by earlier runs; 0 = none): first every shift is cleared (repair D9), then the
three passes run (`Plot.passes`). `Plot.layout P t` is the run on a fresh `Tree`. The theorems
are about that rational algorithm, for every tree, every entry state and **every** parameter value
(no positivity is needed except where stated).

What the code guarantees (the `_partial` set of the property, all proved here):
`rt_shape`, `rt_levels`, `rt_midpoint`, `rt_siblings`, `rt_nonneg`, and `rt_entry_independent`
(a run does not depend on what earlier runs left on the nodes, so every layout of a history
*layout, edit, layout, …* is the layout of the fresh tree of the current shape).
`rt_clear_needed` keeps the pre-D9 behaviour as a negative regression: without the clearing step
the sibling clause fails (lay out, append a fresh child, lay out again).
The remaining clause of the statement — any two nodes of one depth are at least
`min sibling_separation subtree_separation` apart in their left-to-right order — is kept as
`RT_full` and is **false** of the code (known finding K1): `rt_full_false`.
It is proved on the class `ChainExact` of trees on which every sibling-pair comparison of
`_get_subtree_shift` is exact (`rt_cousins_partial`, `rt_order_partial`; the class contains every tree
with at most three levels, `rt_cousins_depth3`, and every complete binary tree,
`rt_cousins_complete_binary`). The two conditions of the class name the two independent reasons why
the clause fails outside it: the K1 tree violates the *scaling* condition only (`k1_outside`), the
14-node tree `chainTree` violates the *walk* condition only (`chain_outside`, `chain_fails`).
-/

namespace C19
open Plot

/-! ### concrete trees for the non-vacuity examples and the witnesses -/

def nd (cs : List Tree) : Tree := .node 0 [] [] cs
def lf : Tree := nd []
/-- K1: `r(a, b(c, d(e)), f(g(h, i)))` -/
def k1Tree : Tree := nd [lf, nd [lf, nd [lf]], nd [nd [lf, lf]]]
/-- `root(A(a1,a2,a3), B(b1,b2,b3), C(c1,c2))`: the first run stores the shifts 0, 2, 4 on A, B, C -/
def abcTree : Tree := nd [nd [lf, lf, lf], nd [lf, lf, lf], nd [lf, lf]]
/-- all separations 1, no offsets -/
def unitP : Params := { sib := 1, sub := 1, lvl := 1, xoff := 0, yoff := 0 }
/-- sibling 1/2, subtree 3/2, level 2, offsets 5/2 and 7 -/
def oddP : Params := { sib := 1/2, sub := 3/2, lvl := 2, xoff := 5/2, yoff := 7 }
/-- `abcTree` after one run (all separations 1): carries the shifts 0, 2, 4 -/
def abcStored : ST := stored unitP (ST.ofTree abcTree)

example : abcStored.children.map ST.shift = [0, 2, 4] := by decide +kernel

/-- the layout is a drawing of the *same* tree: no node is lost or invented
    (so the statements below, which quantify over the nodes of the layout, speak about every node) -/
theorem rt_shape (P : Params) (t : ST) : (layoutS P t).sk = t.sk :=
  layoutS_sk P t

example : (layout unitP k1Tree).subtrees.length = 10 := by decide +kernel

/-- **levels**: nodes of one depth share their `y`; consecutive depths
    differ by the level separation (the deeper level has the smaller `y`). -/
theorem rt_levels (P : Params) (t : ST) :
    ∀ a ∈ (layoutS P t).withDepth 1, ∀ b ∈ (layoutS P t).withDepth 1,
      (a.1 = b.1 → a.2.y = b.2.y) ∧ (b.1 = a.1 + 1 → a.2.y - b.2.y = P.lvl) := by
  intro a ha b hb
  rw [layoutS, passes_eq] at ha hb
  have h1 := fin_levels P _ _ _ _ _ a ha
  have h2 := fin_levels P _ _ _ _ _ b hb
  refine ⟨fun h => by rw [h1, h2, h], fun h => ?_⟩
  rw [h1, h2, h]
  have : (((a.1 + 1 : Nat)) : Rat) = (a.1 : Rat) + 1 := by exact_mod_cast rfl
  rw [this]
  grind

-- non-vacuity: four depths occur, with several nodes on each of the lower three
example : ((layout oddP k1Tree).withDepth 1).map (fun p => (p.1, p.2.y)) =
    [(1, 13), (2, 11), (2, 11), (3, 9), (3, 9), (4, 7), (2, 11), (3, 9), (4, 7), (4, 7)] := by
  decide +kernel

/-- **mid-point**: every parent's `x` is the mid-point of its first and last child. -/
theorem rt_midpoint (P : Params) (t : ST) :
    ∀ s ∈ (layoutS P t).subtrees, ∀ f l, s.children.head? = some f → s.children.getLast? = some l →
      s.x = (f.x + l.x) / 2 := by
  rw [layoutS, passes_eq]
  exact fin_midpoint P _ _ _ (firstPass_good P _) _ _

-- non-vacuity: the root of the K1 drawing has three children, first at 0, last at 3, itself at 3/2
example : (layout unitP k1Tree).x = 3/2 ∧ (layout unitP k1Tree).children.map FT.x = [0, 3/2, 3] := by
  decide +kernel
-- non-vacuity on a non-fresh tree: after detaching A the first child B carries a stored shift 2; the
-- re-layout clears it and puts B, C at 1, 7/2 and the root at their mid-point 9/4
example : (layoutS unitP (abcStored.detach [] 0)).x = 9/4 ∧
    (layoutS unitP (abcStored.detach [] 0)).children.map FT.x = [1, 7/2] := by
  decide +kernel

/-- **siblings**: consecutive children are at least the sibling separation apart, in
    left-to-right order (strictly increasing `x` when the separation is positive). -/
theorem rt_siblings (P : Params) (t : ST) :
    ∀ s ∈ (layoutS P t).subtrees, ∀ (i : Nat) (h : i + 1 < s.children.length),
      s.children[i].x + P.sib ≤ s.children[i + 1].x ∧
      (0 < P.sib → s.children[i].x < s.children[i + 1].x) := by
  intro s hs i h
  rw [layoutS, passes_eq] at hs
  have hc := fin_siblings P _ _ _ (firstPass_good P _)
    (firstPass_q bumpClosed_mono P _ (clear_mono t)) _ _ s hs
  have := chain_get _ hc i h
  exact ⟨this, fun hp => by grind⟩

-- non-vacuity: a sibling group of four under non-unit separations
example : (layout oddP (nd [nd [lf, lf], lf, nd [lf, lf, lf], lf])).children.map FT.x
    = [11/4, 31/8, 5, 49/8] := by
  decide +kernel
-- … and on a non-fresh tree (D9 witness): lay out, append a fresh child D, lay out again ⇒ D right of C
example : (layoutS unitP (ST.insertLast [] (ST.ofTree lf) abcStored)).children.map FT.x = [1, 4, 7, 10] := by
  decide +kernel

/-- **non-negativity** (whatever the offsets): no `x` coordinate is negative. -/
theorem rt_nonneg (P : Params) (t : ST) : ∀ s ∈ (layoutS P t).subtrees, 0 ≤ s.x := by
  rw [layoutS, passes_eq]
  apply nonneg_of_mid
  · exact fin_midpoint P _ _ _ (firstPass_good P _) _ _
  · intro s hs hleaf
    have := fin_leaves P _ _ _ _ _ s hs hleaf
    grind

-- non-vacuity: a tree whose second pass produces negative x (leftmost leaf under a shifted parent)
-- and a negative offset; after the third pass the minimum is exactly 0
example : (layout { unitP with xoff := -3 } k1Tree).subtrees.map FT.x
    = [3/2, 0, 3/2, 1, 2, 2, 3, 3, 5/2, 7/2] := by
  decide +kernel

/-- **entry independence**: the drawing depends on the shape only, not on the `shift` attributes
    earlier runs left on the nodes — every layout in a history is the layout of the fresh tree. -/
theorem rt_entry_independent (P : Params) (t t' : ST) (h : t.sk = t'.sk) : layoutS P t = layoutS P t' := by
  simp only [layoutS, clear_eq_of_sk, h]

-- non-vacuity: `abcStored` carries the shifts 0, 2, 4 and has the shape of the fresh `abcTree`
example : layoutS unitP abcStored = layout unitP abcTree :=
  rt_entry_independent unitP _ _ (by rw [abcStored, stored_sk])

/-- Negative regression for repair D9: WITHOUT the clearing step (`passes` alone) the sibling clause
    is false — lay out `root(A(3), B(3), C(2))` (stored shifts 0, 2, 4), append a fresh child `D`
    (`Node("D", parent=root)`) and run the passes again: `D` lands at x = 4, left of `C` at x = 7
    (the new node's `x` is computed from its left sibling's preliminary `x`, which does not
    contain that sibling's stored shift). -/
theorem rt_clear_needed :
    ¬ ∀ (P : Params) (t : ST), 0 < P.sib → ∀ s ∈ (passes P t).subtrees,
        ∀ (i : Nat) (h : i + 1 < s.children.length), s.children[i].x + P.sib ≤ s.children[i + 1].x := by
  intro h
  have := h unitP (ST.insertLast [] (ST.ofTree lf) abcStored) (by decide +kernel) _ (self_mem_subtrees _) 2
    (by decide +kernel)
  revert this
  decide +kernel

example : (passes unitP (ST.insertLast [] (ST.ofTree lf) abcStored)).children.map FT.x = [1, 4, 7, 4] := by
  decide +kernel

/-- The remaining clause of C19 (cousin separation): any two nodes of one depth are at least
    `min sibling_separation subtree_separation` apart in their left-to-right tree order.
    NOT proved — it is false of the code (K1), see `rt_full_false`. What is missing in the code:
    `_get_subtree_shift` compares only the last-child chain of the left subtree with the
    first-child chain of the right subtree (after the two sibling scans), not the full contours
    (witness: `chain_fails` below); and, independently, for `left_idx > 0` it accumulates the shift of a
    level after dividing it by `1 - left_idx/right_idx`, so deeper levels are compared against a right
    subtree assumed further right than it will be (this is why the K1 tree fails: `k1_outside`).
    Proved on the class that excludes both: `rt_cousins_partial`. -/
def RT_full : Prop :=
  ∀ (P : Params) (t : Tree), 0 < P.sib → 0 < P.sub → 0 < P.lvl → 0 ≤ P.xoff → 0 ≤ P.yoff →
    ∀ d : Nat, ((layout P t).level d).Pairwise (fun a b => a.x + min P.sib P.sub ≤ b.x)

-- the witness: on depth 4 the drawing has e, h, i at 2, 5/2, 7/2
example : ((layout unitP k1Tree).level 4).map FT.x = [2, 5/2, 7/2] := by decide +kernel

/-- **K1**: the full statement is false of the pinned algorithm — on the 10-node tree
    `r(a, b(c, d(e)), f(g(h, i)))` with all separations 1 the cousins `e` and `h` are 1/2 apart. -/
theorem rt_full_false : ¬ RT_full := by
  intro h
  have := h unitP k1Tree (by decide +kernel) (by decide +kernel) (by decide +kernel)
    (by decide +kernel) (by decide +kernel) 4
  revert this
  decide +kernel

/-! ### the cousin clause on the class where the sibling-pair comparison is exact

`ST.ChainExact t` (`BigtreeModel/Plot.lean`, decidable, a condition on the shape only): in every sibling
group `c₀ … c_k`

* for every `j ≥ 1` the walk of `_get_subtree_shift` down the right side of `c₀` (last child; if that is
  a leaf, its nearest left sibling with children; last child; …) and the walk down the left side of
  `c_j` both reach at least `min (height c₀) (height c_j)` levels — so the walked nodes are the true
  contours on every level the two subtrees share;
* for `0 < i < j` one of `c_i`, `c_j` has at most two levels, so that only one level is compared (from
  the second compared level on `_get_subtree_shift` under-estimates the need for `left_idx > 0`,
  because it accumulates the shift already divided by `1 - left_idx/right_idx`).

Both separations must be non-negative (positive for the strict order); no order between them is needed
(the bound is their minimum). -/

/-- **cousins (partial)**: on a tree of the class, any two nodes of one depth are at least
    `min sibling_separation subtree_separation` apart, in their left-to-right tree order — for every
    entry state and every pair of non-negative separations (the harness only generates positive ones). -/
theorem rt_cousins_partial (P : Params) (t : ST) (hsib : 0 ≤ P.sib) (hsub : 0 ≤ P.sub) (h : t.ChainExact) :
    ∀ d : Nat, ((layoutS P t).level d).Pairwise (fun a b => a.x + min P.sib P.sub ≤ b.x) := by
  intro d
  have hm : 0 ≤ min P.sib P.sub := by grind
  have h1 : min P.sib P.sub ≤ P.sib := by grind
  have h2 : min P.sib P.sub ≤ P.sub := by grind
  exact passes_level_sorted P hm h1 h2 t.clear (by rw [clear_sk]; exact h) (clear_mono t) d

/-- the same for a fresh `Tree` (the form of `RT_full`, restricted to the class) -/
theorem rt_cousins_partial_fresh (P : Params) (t : Tree) (hsib : 0 ≤ P.sib) (hsub : 0 ≤ P.sub)
    (h : ChainExact t) :
    ∀ d : Nat, ((layout P t).level d).Pairwise (fun a b => a.x + min P.sib P.sub ≤ b.x) :=
  rt_cousins_partial P (ST.ofTree t) hsib hsub h

/-- **order (partial)**: on a tree of the class the nodes of one depth have strictly increasing `x`
    in their left-to-right tree order. -/
theorem rt_order_partial (P : Params) (t : ST) (hsib : 0 < P.sib) (hsub : 0 < P.sub) (h : t.ChainExact) :
    ∀ d : Nat, ((layoutS P t).level d).Pairwise (fun a b => a.x < b.x) := by
  intro d
  refine (rt_cousins_partial P t (Rat.le_of_lt hsib) (Rat.le_of_lt hsub) h d).imp ?_
  intro a b hab
  grind

/-- a tree of the class with five levels and fan-out three:
    `r(A(l, l, u(l, v(l, l, l))), B(w(z(l, l), l, l)), l)` -/
def deepTree : Tree :=
  nd [nd [lf, lf, nd [lf, nd [lf, lf, lf]]], nd [nd [nd [lf, lf], lf, lf]], lf]

-- non-vacuity: the hypothesis holds of a tree with five levels, fan-out 3 and two deep facing subtrees,
-- under unequal separations in both orders; the fifth level has five nodes from two different subtrees
-- (exactly `subtree_separation` apart where the subtrees meet)
example : ChainExact deepTree := by decide
example : ((ST.ofTree deepTree).sk.height, (layout oddP deepTree).subtrees.length) = (5, 18) := by
  decide +kernel
example : ((layout oddP deepTree).level 5).map FT.x = [13/4, 15/4, 17/4, 23/4, 25/4] := by decide +kernel
example : ((layout { oddP with sib := 3/2, sub := 1/2 } deepTree).level 5).map FT.x
    = [19/4, 25/4, 31/4, 33/4, 39/4] := by decide +kernel
-- … and of a non-fresh tree (stored shifts 0, 2, 4 on the children of the root)
example : abcStored.ChainExact := by decide +kernel

/-- **K1 is outside the class, by the scaling condition only**: in `r(a, b(c, d(e)), f(g(h, i)))` the
    facing walks of every pair of children of the root are exact (`b → d → e` and `f → g → h` reach the
    full height), but the pair `(b, f)` has indices `(1, 2)` and two levels to compare. -/
theorem k1_outside : ¬ ChainExact k1Tree ∧
    Sk.pairExact (ST.ofTree lf).sk (ST.ofTree (nd [lf, nd [lf]])).sk = true ∧
    Sk.pairExact (ST.ofTree lf).sk (ST.ofTree (nd [nd [lf, lf]])).sk = true ∧
    Sk.pairExact (ST.ofTree (nd [lf, nd [lf]])).sk (ST.ofTree (nd [nd [lf, lf]])).sk = true ∧
    Sk.shallow (ST.ofTree (nd [lf, nd [lf]])).sk (ST.ofTree (nd [nd [lf, lf]])).sk = false := by
  decide

/-- `r(L(A(a(z)), B(b)), R(C(c(w₁, w₂, w₃, w₄))))`: the root has two children (no scaling anywhere), but
    the right walk of `L` ends at `b` on the third level although `z` is on the fourth -/
def chainTree : Tree :=
  nd [nd [nd [nd [lf]], nd [lf]], nd [nd [nd [lf, lf, lf, lf]]]]

/-- `chainTree` is outside the class by the walk condition only: no node has more than two
    child-bearing children, the pair `(L, R)` has walks shorter than the common height -/
theorem chain_outside : ¬ ChainExact chainTree ∧
    Sk.pairExact (ST.ofTree (nd [nd [nd [lf]], nd [lf]])).sk (ST.ofTree (nd [nd [nd [lf, lf, lf, lf]]])).sk = false ∧
    (ST.ofTree (nd [nd [nd [lf]], nd [lf]])).sk.rwalk = 3 ∧ (ST.ofTree (nd [nd [nd [lf]], nd [lf]])).sk.height = 4 := by
  decide

/-- … and the cousin clause does fail on it: `z` is at 0 and `w₁` at 1/2 under unit separations
    (a second witness of `rt_full_false`, with the other cause) -/
theorem chain_fails :
    ¬ ((layout unitP chainTree).level 5).Pairwise (fun a b => a.x + min unitP.sib unitP.sub ≤ b.x) := by
  decide +kernel

example : ((layout unitP chainTree).level 5).map FT.x = [0, 1/2, 3/2, 5/2, 7/2] := by decide +kernel

/-- **at most three levels**: every tree with at most three levels is in the class, so the cousin
    clause holds for it. -/
theorem rt_cousins_depth3 (P : Params) (t : ST) (hsib : 0 ≤ P.sib) (hsub : 0 ≤ P.sub)
    (h3 : t.sk.height ≤ 3) :
    ∀ d : Nat, ((layoutS P t).level d).Pairwise (fun a b => a.x + min P.sib P.sub ≤ b.x) :=
  rt_cousins_partial P t hsib hsub (Sk.exact_of_height_le t.sk h3)

-- non-vacuity: three levels, fan-out 4, cousins from four subtrees on the third level
example : (ST.ofTree (nd [nd [lf, lf], lf, nd [lf, lf, lf], nd [lf]])).sk.height = 3 := by decide
example : ((layout oddP (nd [nd [lf, lf], lf, nd [lf, lf, lf], nd [lf]])).level 3).map FT.x
    = [5/2, 3, 25/4, 27/4, 29/4, 35/4] := by decide +kernel

/-- **complete binary trees** of every height are in the class. -/
theorem rt_cousins_complete_binary (P : Params) (n : Nat) (hsib : 0 ≤ P.sib) (hsub : 0 ≤ P.sub) :
    ∀ d : Nat, ((layoutS P (Sk.toST (Sk.full 2 n))).level d).Pairwise
      (fun a b => a.x + min P.sib P.sub ≤ b.x) :=
  rt_cousins_partial P _ hsib hsub (by unfold ST.ChainExact; rw [toST_sk']; exact Sk.full2_exact n)

example : ((layoutS oddP (Sk.toST (Sk.full 2 3))).level 4).map FT.x
    = [5/2, 3, 9/2, 5, 13/2, 7, 17/2, 9] := by decide +kernel

-- complete ternary trees: three levels are inside the class, four levels are outside (pairs (1, 2) with
-- two compared levels) although the algorithm happens to place them correctly — the class is sufficient,
-- not necessary
example : (Sk.toST (Sk.full 3 2)).ChainExact := by decide
example : ¬ (Sk.toST (Sk.full 3 3)).ChainExact := by decide
example : ∀ d ∈ [1, 2, 3, 4, 5], ((layoutS unitP (Sk.toST (Sk.full 3 3))).level d).Pairwise
    (fun a b => a.x + min unitP.sib unitP.sub ≤ b.x) := by decide +kernel

end C19
