import BigtreeModel.Store
import BigtreeProofs.Lemmas.StoreStep
import BigtreeProofs.Lemmas.BinStoreThms
import BigtreeProofs.Lemmas.DagStoreThms
/-!
# C02 — a rejected or failing structural assignment changes nothing (BaseNode / Node part)

The setters of `BigtreeModel/Store.lean` execute the snapshot, the hooks, the body of the `try`
and the explicit roll-back code of the `except` branch.  The theorems say that whenever the outcome
is `rej` — guard (type, loop, repeated child), `Node`'s duplicate-name check, user hook raising
before (`Fault.pre`) or after (`Fault.post`) the assignment — the resulting store EQUALS the store
before the call (every parent, every child list in order, names, separators).
-/

namespace C02
open Store

def demoCfg : Cfg := { assertions := true, node := true }
/-- `p = 0` has children `x y z = 1 2 3`, `q = 4`, names a b c d e -/
def demo : Store :=
  run demoCfg (init 5 (fun i => [Char.ofNat (97 + i)]) ['/']) [.setChildren 0 [1, 2, 3] .none]

theorem demo_wf : WF demo := Store.wf_run (Store.wf_init _ _ _) demoCfg rfl _

/-- parent setter: whatever made the call fail, nothing changed -/
theorem setParent_rej_id (c : Cfg) (s : Store) (hw : WF s) (v : Nat) (np : Option Nat) (f : Fault)
    (h : (setParent c s v np f).2 = .rej) : (setParent c s v np f).1 = s :=
  Store.setParent_rej_id hw c v np f h

-- the hypotheses are met for every rejection cause on a concrete store
example : (setParent demoCfg demo 0 (some 2) .none).2 = .rej := by decide      -- loop
example : (setParent demoCfg demo 2 (some 7) .none).2 = .rej := by decide      -- not a node
example : (setParent demoCfg demo 2 (some 4) .pre).2 = .rej := by decide       -- hook before
example : (setParent demoCfg demo 2 (some 4) .post).2 = .rej := by decide      -- hook after
example : (setParent demoCfg demo 2 (some 4) .none).2 = .ok := by decide

/-- children setter (checks on): whatever made the call fail, nothing changed -/
theorem setChildren_rej_id (c : Cfg) (hc : c.assertions = true) (s : Store) (hw : WF s) (v : Nat)
    (cs : List Nat) (f : Fault) (h : (setChildren c s v cs f).2 = .rej) : (setChildren c s v cs f).1 = s :=
  Store.setChildren_rej_id hw c v cs f (by simp [hc]) h

/-- the same with the checks off, for arguments the checks accept -/
theorem setChildren_rej_id_unchecked (c : Cfg) (s : Store) (hw : WF s) (v : Nat) (cs : List Nat) (f : Fault)
    (hok : checkChildrenLoop s v cs [] = true)
    (h : (setChildren c s v cs f).2 = .rej) : (setChildren c s v cs f).1 = s :=
  Store.setChildren_rej_id hw c v cs f (fun _ => hok) h

example : (setChildren demoCfg demo 4 [2, 1] .post).2 = .rej := by decide     -- D1's failing call
example : (setChildren demoCfg demo 4 [2, 2] .none).2 = .rej := by decide     -- repeated child
example : (setChildren demoCfg demo 1 [0] .none).2 = .rej := by decide        -- ancestor

/-- every call of the API except the documented loop `extend` is atomic -/
theorem step_rej_id (c : Cfg) (hc : c.assertions = true) (s : Store) (hw : WF s) (op : Op)
    (hne : ∀ p cs f k, op ≠ .extend p cs f k) (h : (step c s op).2 = .rej) : (step c s op).1 = s := by
  cases op with
  | setParent v np f =>
    simp only [step] at h ⊢; split
    · rename_i hv; rw [if_pos hv] at h; exact Store.setParent_rej_id hw c v np f h
    · rfl
  | setChildren v cs f =>
    simp only [step] at h ⊢; split
    · rename_i hv; rw [if_pos hv] at h; exact Store.setChildren_rej_id hw c v cs f (by simp [hc]) h
    · rfl
  | setChildrenNonList v f => rfl
  | delChildren v => simp only [step] at h ⊢; split <;> simp_all
  | append p ch f =>
    simp only [step, assignParentOf] at h ⊢; split
    · rename_i hv; rw [if_pos hv] at h; split
      · rename_i hc'; rw [if_pos hc'] at h; exact Store.setParent_rej_id hw c ch (some p) f h
      · rfl
    · rfl
  | extend p cs f k => exact absurd rfl (hne p cs f k)
  | rshift p ch f =>
    simp only [step, assignParentOf] at h ⊢; split
    · rename_i hv; rw [if_pos hv] at h; split
      · rename_i hc'; rw [if_pos hc'] at h; exact Store.setParent_rej_id hw c ch (some p) f h
      · rfl
    · rfl
  | lshift ch p f =>
    simp only [step] at h ⊢; split
    · rename_i hv; rw [if_pos hv] at h; exact Store.setParent_rej_id hw c ch p f h
    · rfl
  | delItem p nm f =>
    simp only [step, delItem] at h ⊢; split
    · rename_i hv; rw [if_pos hv] at h
      cases hf : findChildByName s p nm with
      | none => rfl
      | some r =>
        cases r with
        | none => rfl
        | some ch => rw [hf] at h; exact Store.setParent_rej_id hw c ch none f h
    · rfl
  | sort v ranks rev => simp only [step] at h ⊢; split <;> simp_all
  | setSep v x => simp only [step] at h ⊢; split <;> simp_all

/-- The roll-back as it was BEFORE the D1 repair (dict insertion order instead of ascending
original index) is not the identity: `p.children = [x,y,z]`, failing `q.children = [y,x]`
leaves `p.children = [x,z,y]`. -/
theorem prefix_rollback_not_identity :
    (setChildrenPreFix demoCfg demo 4 [2, 1] .post).2 = .rej ∧
    (setChildrenPreFix demoCfg demo 4 [2, 1] .post).1.children 0 = [1, 3, 2] ∧
    demo.children 0 = [1, 2, 3] ∧
    (setChildren demoCfg demo 4 [2, 1] .post).1.children 0 = [1, 2, 3] := by decide

end C02


/-!
## BinaryNode and DAGNode parts

The same statements for the two other stores are proved next to their models and are audited
together with the theorems above (`harness/props/C02.py`, `THEOREMS`):

* `BinStore.setParent_rej_id`, `BinStore.setChildren_rej_id`, `BinStore.setChildren_rej_id_any`,
  `BinStore.setLeft_rej_id`, `BinStore.setRight_rej_id`, `BinStore.step_rej_id`,
  `BinStore.step_rej_id_any` (`Lemmas/BinStoreThms.lean`; rejection causes: type, loop, repeated
  member, full parent, hook raising before / after);
* `DagStore.setParents_rej_id`, `DagStore.setChildren_rej_id`, `DagStore.step_rej_id`
  (`Lemmas/DagStoreThms.lean`; the executed roll-back removes exactly the appended tail).
-/
#check @BinStore.setParent_rej_id
#check @BinStore.setChildren_rej_id_any
#check @BinStore.step_rej_id_any
#check @DagStore.setParents_rej_id
#check @DagStore.setChildren_rej_id
#check @DagStore.step_rej_id
