import BigtreeModel.Render
import BigtreeModel.RenderStyles
import BigtreeProofs.Lemmas.RenderV
import BigtreeProofs.Lemmas.RenderRT5
import BigtreeProofs.Lemmas.RenderMermaid
import BigtreeProofs.Lemmas.RenderH
import BigtreeProofs.Lemmas.RenderHNodes
import BigtreeProofs.Lemmas.RenderHInj
import BigtreeProofs.Lemmas.RenderDot2
/-!
# C18 — text and graph renderings encode the tree faithfully

Model: `BigtreeModel/Render.lean` (tied to /repo by the correspondence check `harness/props/C18.py`).
Only the property theorems and their non-vacuity examples live here; lemmas are in
`BigtreeProofs/Lemmas/Render*.lean`.
-/
open Render

namespace C18

/-- a small tree used by the non-vacuity examples: a(b(d, e(g)), c) -/
private def exT : Tree :=
  .node 0 ['a'] [] [.node 1 ['b'] [] [.node 2 ['d'] [] [], .node 3 ['e'] [] [.node 4 ['g'] [] []]], .node 5 ['c'] [] []]
/-- the generated "ansi" horizontal style -/
private def exH : HStyle := ⟨'/', '+', '+', '+', '\\', '|', '-'⟩
/-- the generated "ansi" style -/
private def exSt : Style := ⟨"|   ".toList, "|-- ".toList, "`-- ".toList⟩

/-! ## vertical rendering (`yield_tree` / `print_tree`) -/

/-- The loop of `yield_tree` with its `unclosed_depth` book-keeping computes exactly the structural
specification `specRoot` of the (max_depth-pruned) tree: one line per node in pre-order; a non-root
line is `stems ++ connector ++ name` where the connector is `branch` iff the node has a right sibling
(else `stem_final`) and column `j` of the indentation is a stem iff the ancestor at depth `j+1` has a
right sibling (else a gap). Holds for every style (no side condition). -/
theorem vertical_lines (st : Style) (md : Nat) (t : Tree) :
    yieldTree st md t = specRoot st (prune md t) :=
  yieldTree_eq_spec st md t

example : (yieldTree exSt 0 exT).map Line.text =
    ["a", "|-- b", "|   |-- d", "|   `-- e", "|       `-- g", "`-- c"].map String.toList := by decide

/-- one line per node, in pre-order -/
theorem vertical_preorder (st : Style) (md : Nat) (t : Tree) :
    (yieldTree st md t).map Line.name = namesT (prune md t) := by
  rw [vertical_lines, specRoot_names]

example : (yieldTree exSt 3 exT).map Line.name = ["a", "b", "d", "e", "c"].map String.toList := by decide

/-- indentation = depth × glyph length, for every style whose three glyphs have equal length -/
theorem vertical_indent (st : Style) (md : Nat) (t : Tree) (h : st.lengthsOk = true) :
    (yieldTree st md t).map (fun l => (l.pre ++ l.fill).length) =
      (depthsT 0 (prune md t)).map (· * st.stem.length) := by
  rw [vertical_lines, specRoot_indent st h]

example : exSt.lengthsOk = true ∧ depthsT 0 (prune 0 exT) = [0, 1, 2, 2, 3, 1] := by decide

/-- `str_to_tree ∘ print_tree = id`: reading the printed lines back with the connector glyphs as
prefix list rebuilds the (pruned) tree — fresh nodes, hence ids/attributes erased — for every style
meeting `styleOk` and names meeting `nameOk` (no leading blank / glyph character, no connector
inside), sibling names distinct (what `Node` enforces). -/
theorem print_roundtrip (st : Style) (md : Nat) (t : Tree) (hst : styleOk st = true)
    (hnames : ∀ n ∈ namesT t, nameOk st n = true) (hsib : sibDistinct t = true) :
    strToTreeLines [st.branch, st.stemFinal] ((yieldTree st md t).map Line.text) =
      some (erase (prune md t)) :=
  strToTree_yieldTree hst md t hnames hsib

example : ("ansi", exSt) ∈ builtinStyles ∧ styleOk exSt = true ∧ (∀ n ∈ namesT exT, nameOk exSt n = true) ∧
    sibDistinct exT = true ∧ erase (prune 0 exT) ≠ .node 0 ['a'] [] [] := by decide

/-- the same on the text level, as `str_to_tree` is called: `"\n".join(lines)` is stripped of
surrounding line breaks, split at line breaks and parsed — provided neither the glyphs nor the names
contain a line break -/
theorem print_roundtrip_text (st : Style) (md : Nat) (t : Tree) (hst : styleOk st = true)
    (hnl : '\n' ∉ st.stem ++ st.branch ++ st.stemFinal)
    (hnames : ∀ n ∈ namesT t, nameOk st n = true ∧ '\n' ∉ n) (hsib : sibDistinct t = true) :
    strToTree [st.branch, st.stemFinal] (joinNl ((yieldTree st md t).map Line.text)) =
      some (erase (prune md t)) :=
  strToTree_text hst md t hnl hnames hsib

example : '\n' ∉ exSt.stem ++ exSt.branch ++ exSt.stemFinal ∧ (∀ n ∈ namesT exT, nameOk exSt n = true ∧ '\n' ∉ n) ∧
    joinNl ((yieldTree exSt 2 exT).map Line.text) = "a\n|-- b\n`-- c".toList := by decide

/-- `str_to_tree(text)` WITHOUT a prefix list (names are found by dropping every non-ASCII character)
reads the tree back as well, for styles whose glyph characters are all non-ASCII or blank and
names that are pure ASCII -/
theorem print_roundtrip_noprefix (st : Style) (md : Nat) (t : Tree) (hst : styleOk st = true)
    (hab : asciiBlind st = true)
    (hnames : ∀ n ∈ namesT t, nameOk st n = true ∧ asciiName n = true) (hsib : sibDistinct t = true) :
    strToTreeLines [] ((yieldTree st md t).map Line.text) = some (erase (prune md t)) :=
  strToTree_noPrefix hst hab md t hnames hsib

example : let st : Style := ⟨"\u2502   ".toList, "\u251c\u2500\u2500 ".toList, "\u2514\u2500\u2500 ".toList⟩
    ("const", st) ∈ builtinStyles ∧ styleOk st = true ∧ asciiBlind st = true ∧
    (∀ n ∈ namesT exT, nameOk st n = true ∧ asciiName n = true) := by decide

/-- the side conditions hold for every entry of the generated `PRINT_STYLES` table -/
theorem builtin_styles_ok :
    ∀ e ∈ builtinStyles, styleOk e.2 = true ∧ '\n' ∉ e.2.stem ++ e.2.branch ++ e.2.stemFinal ∧
      (e.1 ∉ ["ansi", "ascii"] → asciiBlind e.2 = true) := by decide

example : builtinStyles.length = 6 := by decide

/-! ## mermaid -/

/-- `mermaid_name` (an index path rendered as `0-i-j-…`) determines the index path -/
theorem mermaid_ids_injective {a b : List Nat} (h : mermaidRef a = mermaidRef b) : a = b :=
  mermaidRef_injective h

example : mermaidRef [2, 0] = "0-0-2".toList ∧ mermaidRef [0, 2] = "0-2-0".toList := by decide

/-- distinct nodes of one tree get distinct refs -/
theorem mermaid_ids_nodup (t : Tree) : (mermaidIds t).Nodup := mermaidIds_nodup t

example : mermaidIds exT = ["0", "0-0", "0-0-0", "0-0-1", "0-0-1-0", "0-1"].map String.toList := by decide

/-- one flow line per parent–child link, in pre-order of the child, joining exactly the refs of the
two nodes, labelled with the child's name -/
theorem mermaid_edges_exact (md : Nat) (t : Tree) :
    (mermaidFlows md t).map (fun f => (f.fromRef, f.toRef)) =
      (linksT 0 (prune md t)).map
        (fun pc => ((mermaidIds (prune md t)).getD pc.1 [], (mermaidIds (prune md t)).getD pc.2 [])) ∧
    (mermaidFlows md t).map (·.toLabel) = (namesT (prune md t)).tail := by
  unfold mermaidFlows
  match h : prune md t with
  | .node i n a cs =>
    constructor
    · have e := flowsL_ends [] true n 0 cs
      have g := edgesOf_eq_links (refTreeT [] (.node i n a cs))
      rw [refTreeT_names, refTreeT_links] at g
      simp only [refTreeT, edgesOfT] at g
      have : (fun f : Flow => (f.fromRef, f.toRef)) = Flow.ends := rfl
      rw [this, e]
      exact g
    · rw [flowsL_labels]; simp [namesT]

example : (mermaidFlows 0 exT).map Flow.text =
    ["0(\"a\") --> 0-0(\"b\")", "0-0 --> 0-0-0(\"d\")", "0-0 --> 0-0-1(\"e\")", "0-0-1 --> 0-0-1-0(\"g\")",
     "0(\"a\") --> 0-1(\"c\")"].map String.toList ∧
    linksT 0 exT = [(0, 1), (1, 2), (1, 3), (3, 4), (0, 5)] := by decide

/-- every node of a rendering with at least two nodes is shown as a labelled vertex: each non-root
node exactly once as the target of a flow line carrying its ref and name, the root (ref `0`) with
its name on every line that leaves it, and there is such a line -/
theorem mermaid_vertices (md : Nat) (t : Tree) (h : (prune md t).children ≠ []) :
    (mermaidFlows md t).map (fun f => (f.toRef, f.toLabel)) =
      ((mermaidIds (prune md t)).zip (namesT (prune md t))).tail ∧
    (∀ f ∈ mermaidFlows md t,
      f.fromLabel = if f.fromRef = ['0'] then some (prune md t).name else none) ∧
    (∃ f ∈ mermaidFlows md t, f.fromRef = ['0']) := by
  unfold mermaidFlows mermaidIds
  match hp : prune md t, h with
  | .node i n a cs, h =>
    refine ⟨?_, ?_, ?_⟩
    · have : (fun f : Flow => (f.toRef, f.toLabel)) = Flow.target := rfl
      rw [this, flowsL_targets]
      simp [mermaidIdsT, namesT]
    · exact flowsL_from n [] true n 0 cs ⟨fun _ => ⟨rfl, rfl⟩, fun h => by simp at h⟩
    · match cs, h with
      | c :: cs, _ =>
        match c with
        | .node j m b ds =>
          exact ⟨⟨mermaidRef [], some n, mermaidRef [0], m⟩, by simp [flowsL, flowsT], by simp [mermaidRef]⟩

example : (prune 2 exT).children ≠ [] := by decide

/-- K3: a rendering with a single node has no flow line, hence shows no vertex at all -/
theorem mermaid_single_no_vertex : mermaidFlows 0 (.node 0 ['a'] [] []) = [] := by decide

/-! ## dot -/

/-- one vertex per node, in pre-order, labelled with the node's name (unconditional) -/
theorem dot_vertices_labels (sep : Str) (t : Tree) : (dotVertices sep t).map (·.2) = namesT t :=
  Render.dot_vertices_labels sep t

example : dotVertices ['/'] exT = [("a0", "a"), ("b0", "b"), ("d0", "d"), ("e0", "e"), ("g0", "g"), ("c0", "c")].map
    (fun p => (p.1.toList, p.2.toList)) := by decide

/-- one edge per parent–child link, joining exactly the ids of the two nodes (unconditional; with
`dot_ids_injective_partial` the edge set identifies the links) -/
theorem dot_edges_exact (sep : Str) (t : Tree) :
    dotEdges sep t =
      (linksT 0 t).map fun pc => ((dotIds sep t).getD pc.1 [], (dotIds sep t).getD pc.2 []) :=
  Render.dot_edges_exact sep t

example : dotEdges ['/'] exT = [("a0", "b0"), ("b0", "d0"), ("b0", "e0"), ("e0", "g0"), ("a0", "c0")].map
    (fun p => (p.1.toList, p.2.toList)) := by decide

/-- vertex ids (`label ++ str(k)`) are pairwise distinct when sibling names are distinct, the
(one-character) separator occurs in no name and no name ends in a decimal digit -/
theorem dot_ids_injective_partial (c : Char) (t : Tree) (hsib : sibDistinct t = true)
    (hsep : ∀ n ∈ namesT t, c ∉ n) (hdig : ∀ n ∈ namesT t, noDigitEnd n = true) :
    (dotIds [c] t).Nodup :=
  dot_ids_nodup c t hsib hsep hdig

/-- repeated names across branches: r(p(x), q(x)) gets ids x0, x1 -/
example : let t : Tree := .node 0 ['r'] [] [.node 0 ['p'] [] [.node 0 ['x'] [] []], .node 0 ['q'] [] [.node 0 ['x'] [] []]]
    sibDistinct t = true ∧ (∀ n ∈ namesT t, '/' ∉ n) ∧ (∀ n ∈ namesT t, noDigitEnd n = true) ∧
    dotIds ['/'] t = ["r0", "p0", "x0", "q0", "x1"].map String.toList := by decide

/-- the full statement (without the digit hypothesis); false — K2 -/
def DotIdsInjective : Prop :=
  ∀ t : Tree, sibDistinct t = true → (∀ n ∈ namesT t, '/' ∉ n) → (dotIds ['/'] t).Nodup

/-- K2: 11 nodes named `x` in different branches plus one `x1` ⇒ two vertices with id `x10` -/
theorem dot_ids_not_injective : ¬ DotIdsInjective := by
  intro h
  have hw := k2Witness_ok
  refine dot_ids_collide (h k2Witness hw.1 ?_)
  intro n hn hc
  have := List.all_eq_true.mp hw.2 n hn
  simp at this
  exact this hc

example : (dotIds ['/'] k2Witness).getD 22 [] = "x10".toList ∧ (dotIds ['/'] k2Witness).getD 23 [] = "x10".toList ∧
    (dotVertices ['/'] k2Witness).getD 22 ([], []) ≠ (dotVertices ['/'] k2Witness).getD 23 ([], []) := by decide

/-! ## horizontal rendering (`hyield_tree` / `hprint_tree`)

`hplace S inter pad 1 0 t'` lists every node of the rendered tree `t'` (pre-order; the empty slots of a
BinaryNode count as blank leaves) with its depth and the row on which it is placed. -/

/-- `hplace` lists exactly the nodes of the rendered tree, in pre-order, with their depths and leaf
flags (`hnodes` is the obvious structural listing) — so the three theorems below speak about every node -/
theorem h_places_all_nodes (S : HStyle) (inter : Bool) (pad : Nat → Nat) (t : HTree) :
    (hplace S inter pad 1 0 t).map (fun p => (p.depth, p.name, p.isLeaf)) = hnodes 1 t :=
  hplace_nodes S inter pad 1 0 t

example : hnodes 1 (ofTree exT) =
    [(1, ['a'], false), (2, ['b'], false), (3, ['d'], true), (3, ['e'], false), (4, ['g'], true), (2, ['c'], true)] := by
  decide

/-- column bands: in the rows `hyield_tree` returns, a node of depth `e` is shown at column
`hcol inter pad 1 (e - 1)` of its row — a function of the depth alone (with or without intermediate
node names) — as `─ name ─` / `───` (inner node) or `─ name` up to the end of the row (leaf) -/
theorem h_bands (S : HStyle) (inter : Bool) (md : Nat) (t : HTree) :
    let t' := hprune md t
    let pad := padOf inter t'
    ∀ p ∈ hplace S inter pad 1 0 t',
      1 ≤ p.depth ∧
      ∃ row, (hyieldTree S inter md t)[p.row]? = some row ∧
        hlabel S inter pad p.depth p.name p.isLeaf <+: row.drop (hcol inter pad 1 (p.depth - 1)) ∧
        (p.isLeaf = true → row.drop (hcol inter pad 1 (p.depth - 1)) = hlabel S inter pad p.depth p.name true) :=
  h_bands_hyield S inter md t

example : ("ansi", some exH) ∈ builtinHStyles ∧
    hyieldTree exH true 0 (ofTree exT) =
      ["           /- d", "     /- b -+", "- a -+     \\- e --- g", "     \\- c"].map String.toList ∧
    hplace exH true (padOf true (ofTree exT)) 1 0 (ofTree exT) =
      [⟨1, 2, false, ['a']⟩, ⟨2, 1, false, ['b']⟩, ⟨3, 0, true, ['d']⟩, ⟨3, 2, false, ['e']⟩, ⟨4, 2, true, ['g']⟩,
       ⟨2, 3, true, ['c']⟩] ∧
    (List.range 4).map (hcol true (padOf true (ofTree exT)) 1) = [0, 6, 12, 18] := by decide

/-- leaves appear top to bottom in pre-order: their rows are strictly increasing -/
theorem h_leaf_order (S : HStyle) (inter : Bool) (md : Nat) (t : HTree) :
    (((hplace S inter (padOf inter (hprune md t)) 1 0 (hprune md t)).filter (·.isLeaf)).map (·.row)).Pairwise
      (· < ·) :=
  h_leaf_order_hyield S inter md t

example : ((hplace exH true (padOf true (ofTree exT)) 1 0 (ofTree exT)).filter (·.isLeaf)).map (·.row) = [0, 2, 3] := by
  decide

/-- every placement row is a row of the output -/
theorem h_rows_in_range (S : HStyle) (inter : Bool) (md : Nat) (t : HTree) :
    ∀ p ∈ hplace S inter (padOf inter (hprune md t)) 1 0 (hprune md t),
      p.row < (hyieldTree S inter md t).length :=
  hplace_row_lt_hyield S inter md t

/-- Tier 2: the row of an inner node lies between the rows of its first and its last child
(strictly inside when it has at least two child slots); `childRows` are the rows of the children
themselves (`hplace_head_row` ties them to `hplace`) -/
theorem h_parent_in_span (S : HStyle) (inter : Bool) (pad : Nat → Nat) (d : Nat) (n : Str) (cs : List HTree)
    (h : cs.any HTree.isReal = true) (f l : Nat)
    (hf : (childRows S inter pad (d + 1) 0 (gapInserted (hblockL S inter pad (d + 1) cs)) cs).head? = some f)
    (hl : (childRows S inter pad (d + 1) 0 (gapInserted (hblockL S inter pad (d + 1) cs)) cs).getLast? = some l) :
    f ≤ (hblock S inter pad d (.node n cs)).2 ∧ (hblock S inter pad d (.node n cs)).2 ≤ l ∧
    (2 ≤ cs.length → f < (hblock S inter pad d (.node n cs)).2 ∧ (hblock S inter pad d (.node n cs)).2 < l) :=
  Render.h_parent_in_span S inter pad d n cs h f l hf hl

example : let cs := [ofTree (.node 0 ['d'] [] []), ofTree (.node 0 ['e'] [] [])]
    cs.any HTree.isReal = true ∧
    childRows exH true (fun _ => 1) 2 0 (gapInserted (hblockL exH true (fun _ => 1) 2 cs)) cs = [0, 2] ∧
    (hblock exH true (fun _ => 1) 1 (.node ['b'] cs)).2 = 1 := by decide

/-- the `assert len(result) == 2` of `_hprint_branch` can never fail -/
theorem h_gap_assert (S : HStyle) (inter : Bool) (pad : Nat → Nat) (d : Nat) (a b : HTree) :
    gapInserted (hblockL S inter pad d [a, b]) = true →
      ((hblockL S inter pad d [a, b]).flatMap (·.1)).length = 2 :=
  Render.h_gap_assert S inter pad d a b

example : gapInserted (hblockL exH true (fun _ => 1) 2 [.node ['d'] [], .node ['e'] []]) = true := by decide

/-- Tier 2, decodability of the horizontal form: for every style meeting `hstyleOk` and names without
white space the decoder `hdecode` reads the rendering back — all of the tree that the text shows
(`hExpected`: empty slots and, without intermediate names, the names of inner nodes are blank) -/
theorem h_decodable (S : HStyle) (hS : hstyleOk S = true) (inter : Bool) (md : Nat) (t : HTree)
    (hn : hnamesOk t = true) :
    hdecode S (hyieldTree S inter md t) = some (hExpected inter (hprune md t)) :=
  Render.h_decodable S hS inter md t hn

example : hstyleOk exH = true ∧ hnamesOk (ofTree exT) = true ∧
    hdecode exH (hyieldTree exH true 0 (ofTree exT)) = some (ofTree exT) := by decide

/-- hence, with intermediate node names, two `Node` trees with the same horizontal rendering are equal -/
theorem h_injective (S : HStyle) (hS : hstyleOk S = true) (t1 t2 : Tree)
    (h1 : hnamesOk (ofTree t1) = true) (h2 : hnamesOk (ofTree t2) = true)
    (h : hyieldTree S true 0 (ofTree t1) = hyieldTree S true 0 (ofTree t2)) : ofTree t1 = ofTree t2 :=
  hyield_injective S hS t1 t2 h1 h2 h

/-- every entry of the generated `HPRINT_STYLES` table is a well-formed style that meets the
decodability side conditions `hstyleOk` — except the pinned "ascii" entry (K4) -/
theorem builtin_hstyles_ok :
    ∀ e ∈ builtinHStyles, ∃ S, e.2 = some S ∧ (hstyleOk S = true ∨ S = asciiPinned) := by decide

/-- K4: the horizontal form is not decodable in the pinned "ascii" style — two different trees,
identical rows; and that style indeed fails `hstyleOk` -/
theorem h_ascii_not_injective :
    k4Tree1 ≠ k4Tree2 ∧ hyieldTree asciiPinned true 0 k4Tree1 = hyieldTree asciiPinned true 0 k4Tree2 ∧
    hstyleOk asciiPinned = false := by decide

end C18
