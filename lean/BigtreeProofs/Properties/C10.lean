import BigtreeModel.DagStore
import BigtreeProofs.Lemmas.DagStoreEdges
import BigtreeProofs.Lemmas.DagStoreExtra
/-!
# C10 — DAG links stay symmetric, duplicate-free and acyclic under every history

Model: `BigtreeModel/DagStore.lean` (statement-level model of `bigtree/node/dagnode.py`).
`DWF s` := `p ∈ parents c ↔ c ∈ children p`, both lists `Nodup`, ids in range,
`∀ v, Acc (fun p c => p ∈ parents c) v` (nobody is its own ancestor).
Every theorem is for all stores / operations / arguments (valid or not) / hook faults, with the
checks on (`asrt = true`); each is followed by an `example` on a concrete non-trivial store.
-/

namespace C10
open DagStore

/-- four nodes `0 → 1 → 2 → 3` (a path of length 3) plus the shortcut `0 → 2`, built by a
history that uses both setters, `>>` and `<<` -/
def demoOps : List Op :=
  [.setChildren 0 (.list [1]) .none, .rshift 1 2 .none, .lshift 3 2 .none,
   .setParents 2 (.list [1, 0]) .none]
def demo : DStore := (run true (init 4 fun _ => []) demoOps).1

/-! ## the invariant -/

theorem dwf_init (k : Nat) (names : Nat → Str) : DWF (init k names) := DagStore.dwf_init k names

example : DWF (init 4 fun _ => []) := dwf_init 4 _

/-- every operation (both setters, `>>`, `<<`, both deleters, the constructor), with every
argument — including non-nodes, the node itself, ancestors / descendants, repeated members,
tuples, non-iterables — and every hook fault, keeps the store well-formed -/
theorem dwf_step {s : DStore} (hs : DWF s) (op : Op) : DWF (step true s op).1 :=
  DagStore.dwf_step hs op

/-- every store reachable by a finite history from freshly constructed nodes is well-formed -/
theorem dwf_run (k : Nat) (names : Nat → Str) (ops : List Op) :
    DWF (run true (init k names) ops).1 :=
  DagStore.dwf_run (DagStore.dwf_init k names) ops

/-- … and so is every store the history passes through -/
theorem dwf_trace (k : Nat) (names : Nat → Str) (ops : List Op) :
    ∀ r ∈ trace true (init k names) ops, DWF r.1 :=
  DagStore.dwf_trace (DagStore.dwf_init k names) ops

example : DWF demo := dwf_run 4 _ demoOps
example : demo.parents 2 = [1, 0] ∧ demo.children 0 = [1, 2] ∧ demo.parents 3 = [2] := by decide
-- the step theorem applies to an operation that is refused (cycle through a path of length 3) …
example : (step true demo (.setChildren 3 (.list [0]) .none)).2 = .rej := by decide
-- … to one that fails in the post-hook after two insertions, and to one that is accepted
example : (step true demo (.setParents 3 (.list [0, 1]) .post)).2 = .rej ∧
    (parentsLoop demo 3 [0, 1]).1.parents 3 = [2, 0, 1] := by decide
example : (step true demo (.setParents 3 (.list [0, 1]) .none)).2 = .ok := by decide

/-- the statement of C10 read off `DWF`: symmetric, duplicate-free, nobody its own ancestor -/
theorem history_invariant (k : Nat) (names : Nat → Str) (ops : List Op) :
    let s := (run true (init k names) ops).1
    (∀ p c, p ∈ s.parents c ↔ c ∈ s.children p) ∧
    (∀ v, (s.parents v).Nodup ∧ (s.children v).Nodup) ∧
    (∀ v, ¬ Anc s v v) := by
  have h := dwf_run k names ops
  exact ⟨h.sym, fun v => ⟨h.ndp v, h.ndc v⟩, h.acyc.irrefl⟩

example : Anc demo 0 3 := .step (.base (by decide : 0 ∈ demo.parents 2)) (by decide : 2 ∈ demo.parents 3)

/-! ## assignments only add, and add exactly what was requested -/

/-- For every assignment-like operation (setters, `>>`, `<<`, constructor): whatever the outcome,
every old parents / children list is a prefix of the new one (nothing removed, nothing
reordered); and if the call is accepted the new edge set is the old one plus the requested edges -/
theorem assign_only_adds {s : DStore} (hs : DWF s) {op : Op} (ha : op.isAssign = true) :
    (∀ x, s.parents x <+: (step true s op).1.parents x ∧
          s.children x <+: (step true s op).1.children x) ∧
    ((step true s op).2 = .ok →
      ∀ p c, p ∈ (step true s op).1.parents c ↔ p ∈ s.parents c ∨ (p, c) ∈ requested s op) :=
  ⟨fun x => step_prefix hs ha x, fun h p c => step_adds hs h ha p c⟩

example : (step true demo (.setParents 3 (.list [2, 0, 1]) .none)).2 = .ok ∧
    (step true demo (.setParents 3 (.list [2, 0, 1]) .none)).1.parents 3 = [2, 0, 1] ∧
    requested demo (.setParents 3 (.list [2, 0, 1]) .none) = [(2, 3), (0, 3), (1, 3)] := by decide

/-- list-exact strengthening (the property only needs sets): an accepted `v.parents = l` appends
to `v`'s parents list the members of `l` not yet listed, in the order of `l`, and touches no
other parents list; an accepted `v.children = a` does the same to `v`'s children list -/
theorem assign_list_exact {s : DStore} {v : Nat} :
    (∀ (l : List Nat) (f : Fault), (setParents true s v (.list l) f).2 = .ok → ∀ x,
      (setParents true s v (.list l) f).1.parents x =
        if x = v then s.parents v ++ l.filter (fun p => decide (p ∉ s.parents v)) else s.parents x) ∧
    (∀ (a : Arg) (f : Fault), (setChildren true s v a f).2 = .ok → ∀ x,
      (setChildren true s v a f).1.children x =
        if x = v then s.children v ++ (a.items.getD []).filter (fun c => decide (v ∉ s.parents c))
        else s.children x) :=
  ⟨fun _ _ h x => setParents_ok_parents h x, fun _ _ h x => setChildren_ok_children h x⟩

example : (setChildren true demo 0 (.tuple [3, 2]) .none).2 = .ok ∧
    (setChildren true demo 0 (.tuple [3, 2]) .none).1.children 0 = [1, 2, 3] := by decide

/-! ## deleting removes exactly the named edges -/

/-- `del v.children` / `del v[name]`: an edge is present afterwards iff it was present before
and is not one of the named edges (`removed`: all edges out of `v`, resp. the edge to the unique
child of that name; an ambiguous or unknown name names nothing) — read on the parents lists and
on the children lists -/
theorem delete_exact {s : DStore} (hs : DWF s) {op : Op} (ha : op.isAssign = false) (p c : Nat) :
    (p ∈ (step true s op).1.parents c ↔ p ∈ s.parents c ∧ (p, c) ∉ removed s op) ∧
    (c ∈ (step true s op).1.children p ↔ c ∈ s.children p ∧ (p, c) ∉ removed s op) := by
  have h := step_removes hs ha p c
  refine ⟨h, ?_⟩
  rw [← (DagStore.dwf_step hs op).sym, ← hs.sym]
  exact h

example : (step true demo (.delChildren 0)).1.children 0 = [] ∧
    (step true demo (.delChildren 0)).1.parents 2 = [1] ∧
    removed demo (.delChildren 0) = [(0, 1), (0, 2)] := by decide

/-! ## loops and repeated members are refused -/

/-- an assignment that asks for a self-loop, a cycle (through a path of any length), a repeated
member or a non-node is refused; `Refusable` is the first-principles description in terms of the
reachability relation `Anc` -/
theorem reject_loops {s : DStore} (hs : DWF s) {op : Op} (h : Refusable s op) :
    (step true s op).2 = .rej :=
  DagStore.reject_loops hs h

-- closing a cycle through the path 0 → 1 → 2 → 3 of length 3 via the children setter
example : Refusable demo (.setChildren 3 (.list [0]) .none) :=
  ⟨[0], rfl, Or.inr (Or.inr (Or.inl ⟨0, by simp,
    .step (.base (by decide : 0 ∈ demo.parents 2)) (by decide : 2 ∈ demo.parents 3)⟩))⟩
-- … and via the parents setter
example : Refusable demo (.setParents 0 (.list [3]) .none) :=
  ⟨[3], rfl, Or.inr (Or.inr (Or.inl ⟨3, by simp,
    .step (.base (by decide : 0 ∈ demo.parents 2)) (by decide : 2 ∈ demo.parents 3)⟩))⟩

/-! ## the up-front check is enough for the sequential insertion -/

/-- the guards look at the store **before** the first insertion only, while the loop inserts
one edge after the other (so later insertions see ancestors the check did not). That is enough:
if the guard passes, the loop runs to completion and ends in a well-formed store. Reason
(`Acyclic.add_in` / `Acyclic.add_out`): all new edges end (resp. start) in the one node `v`, so
only `v` and its descendants gain ancestors, and a cycle would have to pass a new edge and then
return from `v` to its source through old edges only. -/
theorem upfront_check_suffices {s : DStore} (hs : DWF s) {v : Nat} (hv : v < s.n) (l : List Nat) :
    (checkParentLoop s v l [] = true →
      (parentsLoop s v l).2 = true ∧ DWF (parentsLoop s v l).1) ∧
    (checkChildrenLoop s v l [] = true →
      (childrenLoop s v l).2 = true ∧ DWF (childrenLoop s v l).1) := by
  constructor
  · intro h
    have hsp := checkParentLoop_spec h
    rw [parentsLoop_eq hsp.1 (fun p hp => (hsp.2 p hp).1)]
    exact ⟨rfl, dwf_addParents hs hv h⟩
  · intro h
    have hsp := checkChildrenLoop_spec h
    rw [childrenLoop_eq hsp.1 (fun p hp => (hsp.2 p hp).1)]
    exact ⟨rfl, dwf_addChildren hs hv h⟩

example : checkParentLoop demo 3 [0, 1] [] = true ∧ checkChildrenLoop demo 0 [3] [] = true := by
  decide

/-! ## the fuel of the recursive `ancestors` -/

/-- on a well-formed store the fuel-bounded (`n + 1`), de-duplicated `ancestors` list is exactly
the set of proper ancestors (transitive closure of "is a parent of") -/
theorem anc_fuel_complete {s : DStore} (hs : DWF s) (a v : Nat) :
    a ∈ ancestors s v ↔ Anc s a v :=
  mem_ancestors hs

example : ancestors demo 3 = [0, 1, 2] := by decide


/-- D13's clause on the model: what the children setter does depends on the MEMBERS of its argument only, not on the kind
of iterable that carries them (the setter reads its argument once into a list; a tuple, a list and a one-shot iterator -
which the protocol hands to the model as "an iterable that is not a list" - with the same members give the same outcome
and the same store, for either setting of the checks and every hook fault) -/
theorem children_arg_kind_irrelevant (asrt : Bool) (s : DStore) (v : Nat) (l : List Nat) (f : Fault) :
    setChildren asrt s v (.tuple l) f = setChildren asrt s v (.list l) f := rfl

/-- ... whereas the parents setter accepts lists only while the checks are on (documented type `List`) -/
example : (setParents true (init 2 (fun _ => [])) 1 (.tuple [0]) .none).2 = .rej
    ∧ (setParents true (init 2 (fun _ => [])) 1 (.list [0]) .none).2 = .ok := by decide

end C10
