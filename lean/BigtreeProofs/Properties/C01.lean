import BigtreeModel.Store
import BigtreeProofs.Lemmas.StoreStep
/-!
# C01 — tree links stay a well-formed forest under every mutation history

Model: `BigtreeModel/Store.lean` (statement-level model of `BaseNode`/`Node`'s setters).
`Store.WF` = W1 (`up`: a node with parent `p` is listed by `p`), W2 (`down`: a listed child names
that node as parent), W3 (`nodup`: listed once), W4 (`acyc`: walking parents terminates),
W5 (`range`: links only between existing nodes).
-/

namespace C01
open Store

/-- a concrete non-trivial history used by the non-vacuity examples: node 0 gets children 1,2,3;
3 moves under 1; a failing children assignment; 2 becomes a root -/
def demoOps : List Op :=
  [.setChildren 0 [1, 2, 3] .none, .setParent 3 (some 1) .none, .setChildren 2 [3, 1] .post, .lshift 2 none .none]
def demoCfg : Cfg := { assertions := true, node := false }
def demo : Store := run demoCfg (init 5 (fun _ => []) ['/']) demoOps

/-- freshly constructed nodes form a forest -/
theorem wf_init (n : Nat) (names : Nat → Str) (sep : Str) : WF (init n names sep) :=
  Store.wf_init n names sep

/-- every call (any op, any argument incl. non-node / repeated / self / ancestor, any hook fault)
maps a forest to a forest -/
theorem wf_step (c : Cfg) (hc : c.assertions = true) (s : Store) (hw : WF s) (op : Op) :
    WF (step c s op).1 :=
  Store.wf_step hw c hc op

/-- every reachable state is a forest -/
theorem wf_run (c : Cfg) (hc : c.assertions = true) (n : Nat) (names : Nat → Str) (sep : Str)
    (ops : List Op) : WF (run c (init n names sep) ops) :=
  Store.wf_run (Store.wf_init n names sep) c hc ops

example : WF demo := wf_run demoCfg rfl 5 _ _ demoOps
example : demo.children 0 = [1] ∧ demo.children 1 = [3] ∧ demo.parent 2 = none := by decide

/-- fuel lemma: the executable ancestor walk with fuel `n` finds exactly the proper ancestors -/
theorem anc_complete (s : Store) (hw : WF s) (x a : Nat) :
    a ∈ anc s s.n x ↔ ProperAncestor s a x :=
  Store.anc_complete hw x a

example : ProperAncestor demo 0 3 := (anc_complete demo (wf_run demoCfg rfl 5 _ _ demoOps) 3 0).1 (by decide)

/-- self-loop, ancestor loop, non-node parent; self, ancestor, repeated or non-node member: rejected -/
theorem reject_loops (c : Cfg) (hc : c.assertions = true) (s : Store) (hw : WF s) (v : Nat) (f : Fault) :
    (∀ p, (p = v ∨ ProperAncestor s v p ∨ s.n ≤ p) → (setParent c s v (some p) f).2 = .rej) ∧
    (∀ cs, ((∃ x ∈ cs, x = v ∨ ProperAncestor s x v ∨ s.n ≤ x) ∨ ¬ cs.Nodup) →
      (setChildren c s v cs f).2 = .rej) := by
  constructor
  · intro p hp
    cases ho : (setParent c s v (some p) f).2 with
    | rej => rfl
    | ok =>
      exfalso
      obtain ⟨_, _, hg, _⟩ := setParent_ok_eq c v (some p) f ho
      obtain ⟨h1, h2⟩ := hg hc
      have hr := (checkParentLoop_iff hw v p).1 h2
      rcases hp with rfl | hp | hp
      · exact hr (Reach.refl _)
      · exact hr (reach_iff.2 (Or.inr hp))
      · simp [checkParentType] at h1; omega
  · intro cs hcs
    cases ho : (setChildren c s v cs f).2 with
    | rej => rfl
    | ok =>
      exfalso
      obtain ⟨_, _, hg, _⟩ := setChildren_ok_eq hw c v cs f (by simp [hc]) ho
      obtain ⟨hn, h⟩ := (checkChildrenLoop_iff hw v cs).1 hg
      rcases hcs with ⟨x, hx, hbad⟩ | hnd
      · rcases hbad with rfl | hp | hp
        · exact (h _ hx).2 (Reach.refl _)
        · exact (h x hx).2 (reach_iff.2 (Or.inr hp))
        · have := (h x hx).1; omega
      · exact hnd hn

example : (setParent demoCfg demo 0 (some 3) .none).2 = .rej := by decide
example : (setChildren demoCfg demo 3 [4, 4] .none).2 = .rej := by decide

/-- effect of an accepted `v.parent = np`: every child list is the old one minus `v` (order kept), the
new parent's list gets `v` appended as last child; only `v`'s parent link changes -/
theorem setParent_ok (c : Cfg) (s : Store) (hw : WF s) (v : Nat) (np : Option Nat) (f : Fault)
    (h : (setParent c s v np f).2 = .ok) :
    let s' := (setParent c s v np f).1
    (∀ x, s'.parent x = if x = v then np else s.parent x) ∧
    (∀ x, s'.children x = if np = some x then (s.children x).erase v ++ [v] else (s.children x).erase v) := by
  obtain ⟨he, _⟩ := setParent_ok_eq c v np f h
  simp only [he]
  refine ⟨fun x => rfl, fun x => ?_⟩
  rw [reparent_children]
  by_cases hx : s.parent v = some x
  · simp [hx]
  · have : v ∉ s.children x := fun hm => hx (hw.down x v hm)
    simp [hx, List.erase_of_not_mem this]

example : (setParent demoCfg demo 4 (some 0) .none).2 = .ok := by decide

/-- effect of an accepted `v.children = cs`: `v` lists exactly `cs` in the given order, its previous
children that are not re-listed become roots, every other list loses the stolen nodes (order kept) -/
theorem setChildren_ok (c : Cfg) (hc : c.assertions = true) (s : Store) (hw : WF s) (v : Nat) (cs : List Nat)
    (f : Fault) (h : (setChildren c s v cs f).2 = .ok) :
    let s' := (setChildren c s v cs f).1
    s'.children v = cs ∧
    (∀ x, x ≠ v → s'.children x = (s.children x).filter fun y => !cs.contains y) ∧
    (∀ x, s'.parent x = if x ∈ cs then some v else if s.parent x = some v then none else s.parent x) := by
  obtain ⟨he, _⟩ := setChildren_ok_eq hw c v cs f (by simp [hc]) h
  simp only [he]
  refine ⟨by simp [adopted], fun x hx => by simp [adopted, hx], fun x => rfl⟩

example : (setChildren demoCfg demo 4 [3, 0] .none).2 = .ok := by decide

/-- effect of `del v.children`: the former children become roots, nothing else changes -/
theorem delChildren_ok (s : Store) (hw : WF s) (v : Nat) :
    (delChildren s v).children v = [] ∧
    (∀ x, x ≠ v → (delChildren s v).children x = s.children x) ∧
    (∀ x, (delChildren s v).parent x = if s.parent x = some v then none else s.parent x) := by
  rw [delChildren_eq hw]
  exact ⟨by simp [detached], fun x hx => by simp [detached, hx], fun x => rfl⟩

/-- effect of `del p[name]`: without a child of that name nothing happens; otherwise the (unique)
child of that name is detached exactly as by `child.parent = None` -/
theorem delItem_ok (c : Cfg) (s : Store) (p : Nat) (nm : Str) (f : Fault)
    (h : (delItem c s p nm f).2 = .ok) :
    ((∀ x ∈ s.children p, s.name x ≠ nm) ∧ (delItem c s p nm f).1 = s) ∨
    (∃ ch ∈ s.children p, s.name ch = nm ∧ (delItem c s p nm f).1 = reparent s ch none) := by
  unfold delItem at h ⊢
  cases hf : findChildByName s p nm with
  | none => simp [hf] at h
  | some r =>
    rw [hf] at h
    unfold findChildByName at hf
    cases r with
    | none =>
      left
      refine ⟨?_, rfl⟩
      split at hf
      · rename_i heq
        intro x hx hn
        have : x ∈ (s.children p).filter fun c => s.name c == nm := List.mem_filter.2 ⟨hx, by simp [hn]⟩
        rw [heq] at this; cases this
      · simp at hf
      · simp at hf
    | some ch =>
      right
      split at hf
      · simp at hf
      · rename_i c' heq
        simp at hf; subst hf
        have hm : c' ∈ (s.children p).filter fun c => s.name c == nm := by rw [heq]; simp
        have hm' := List.mem_filter.1 hm
        refine ⟨c', hm'.1, by simpa using hm'.2, ?_⟩
        exact (setParent_ok_eq c c' none f h).1
      · simp at hf

/-- `sort` permutes one child list and changes nothing else -/
theorem sort_perm (s : Store) (v : Nat) (ranks : List Nat) (rev : Bool) :
    let s' := sortChildren s v ranks rev
    (s'.children v).Perm (s.children v) ∧ (∀ x, x ≠ v → s'.children x = s.children x) ∧ s'.parent = s.parent :=
  ⟨sortChildren_perm s v ranks rev, fun x hx => by simp [sortChildren, hx], rfl⟩

example : (sortChildren demo 0 [0, 2, 1, 0] true).children 0 = [1] := by decide

end C01
