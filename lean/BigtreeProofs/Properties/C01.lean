import BigtreeModel.Basic
