import BigtreeModel.Paths
import BigtreeProofs.Lemmas.PathsStr
import BigtreeProofs.Lemmas.PathsAddr
import BigtreeProofs.Lemmas.PathsSet
import BigtreeProofs.Lemmas.PathsInsert
import BigtreeProofs.Lemmas.PathsLoop
import BigtreeProofs.Lemmas.PathsNoDup
import BigtreeProofs.Lemmas.PathsOrder
import BigtreeProofs.Lemmas.PathsFold
import BigtreeProofs.Lemmas.PathsStrMulti
/-!
# C05 — path-based constructors build exactly the prefix closure of the given paths

`Paths.addComps` is `add_path_to_tree` on the component list `branch` (what `path.lstrip(sep)
.rstrip(sep).split(sep)` yields); `strip_invariant` / `sep_invariant` connect it to the string
interface `Paths.addPath` for a one-character separator that occurs in no name.
`SibUnique t` is the `Node` invariant (no two children of a node share a name).
-/
open Paths Str

namespace C05

/-- Nothing missing, nothing extra, nothing duplicated: the node paths of the result are the
    old node paths together with all prefixes of the given path, each exactly once. -/
theorem paths_insert (treeSep : Str) (t : Tree) (fresh : Nat) (branch : List Str) (attrs : Attrs)
    (t' : Tree) (ad : Addr) (fr' : Nat) (hs : SibUnique t)
    (h : addComps treeSep true t fresh branch attrs = .ok (t', ad, fr')) :
    (∀ q, q ∈ paths t' ↔ q ∈ paths t ∨ q ∈ prefixes branch) ∧ (paths t').Nodup := by
  obtain ⟨r1, _, _, r4, _⟩ := addComps_dup treeSep t fresh branch attrs t' ad fr' hs h
  exact ⟨r4, nodup_paths t' r1⟩

/-- Existing nodes are reused, not duplicated: every node that existed before is still at the
    same address with the same identity, name and path; its attributes are unchanged, except
    for the addressed node, whose attributes are updated with the given ones. -/
theorem insert_keeps_ids (treeSep : Str) (t : Tree) (fresh : Nat) (branch : List Str) (attrs : Attrs)
    (t' : Tree) (ad : Addr) (fr' : Nat) (hs : SibUnique t)
    (h : addComps treeSep true t fresh branch attrs = .ok (t', ad, fr')) :
    ∀ b n, nodeAt b t = some n → ∃ n', nodeAt b t' = some n' ∧ n'.id = n.id ∧ n'.name = n.name ∧
      namesAlong b t' = namesAlong b t ∧ (b ≠ ad → n'.attrs = n.attrs) ∧
      (b = ad → n'.attrs = updateAttrs n.attrs attrs) :=
  (addComps_dup treeSep t fresh branch attrs t' ad fr' hs h).2.2.2.2

/-- The node returned for a path is the node at that path. -/
theorem insert_returns (treeSep : Str) (t : Tree) (fresh : Nat) (branch : List Str) (attrs : Attrs)
    (t' : Tree) (ad : Addr) (fr' : Nat) (hs : SibUnique t)
    (h : addComps treeSep true t fresh branch attrs = .ok (t', ad, fr')) :
    (∃ n, nodeAt ad t' = some n) ∧ namesAlong ad t' = branch := by
  obtain ⟨_, r2, r3, _, _⟩ := addComps_dup treeSep t fresh branch attrs t' ad fr' hs h
  exact ⟨r2, r3⟩

/-- non-vacuity: extending `a(b)` by `a/c/d` (fresh ids 10, 11) -/
example : addComps ['/'] true (.node 0 ['a'] [] [.node 1 ['b'] [] []]) 10 [['a'], ['c'], ['d']] [(['v'], .int 1)]
    = .ok (.node 0 ['a'] [] [.node 1 ['b'] [] [], .node 10 ['c'] [] [.node 11 ['d'] [(['v'], .int 1)] []]],
           [1, 0], 12) := by rfl

example : SibUnique (.node 0 ['a'] [] [.node 1 ['b'] [] []]) := by
  simp [SibUnique, SibUniqueL]

/-- A path with a different root is refused (`TreeError`). -/
theorem different_root_refused (treeSep : Str) (dupOk : Bool) (t : Tree) (fresh : Nat) (b0 : Str)
    (rest : List Str) (attrs : Attrs) (h : b0 ≠ t.name) :
    addComps treeSep dupOk t fresh (b0 :: rest) attrs = .error .tree := by
  simp [addComps, h]

example : addComps ['/'] true (.node 0 ['a'] [] []) 1 [['b'], ['c']] [] = .error .tree := by rfl

/-- Independence of leading / trailing separators: whatever run of separators leads or trails the
    path string, the call is the call on the components. -/
theorem strip_invariant (treeSep : Str) (c : Char) (dupOk : Bool) (t : Tree) (fresh : Nat)
    (lead trail : Str) (branch : List Str) (attrs : Attrs) (hne : branch ≠ [])
    (hl : ∀ x ∈ lead, x = c) (ht : ∀ x ∈ trail, x = c) (hfree : ∀ x ∈ branch, x ≠ [] ∧ c ∉ x) :
    addPath treeSep [c] dupOk t fresh (lead ++ join [c] branch ++ trail) attrs
      = addComps treeSep dupOk t fresh branch attrs := by
  have hpath : lead ++ join [c] branch ++ trail ≠ [] := by
    cases branch with
    | nil => exact absurd rfl hne
    | cons a rest =>
      have ha := (hfree a (by simp)).1
      intro e
      have h1 : join [c] (a :: rest) = [] := by
        have := List.append_eq_nil_iff.mp e
        exact (List.append_eq_nil_iff.mp this.1).2
      cases rest with
      | nil => exact ha (by simpa [join] using h1)
      | cons b r => simp [join] at h1
  unfold addPath addComps
  rw [if_neg hpath, split_strip_join c lead trail branch hne hl ht hfree]

/-- Independence of the separator chosen: spelling the same components with another separator
    (in the path and in the call) gives the same result. -/
theorem sep_invariant (treeSep : Str) (c d : Char) (dupOk : Bool) (t : Tree) (fresh : Nat)
    (branch : List Str) (attrs : Attrs) (hne : branch ≠ [])
    (hc : ∀ x ∈ branch, x ≠ [] ∧ c ∉ x) (hd : ∀ x ∈ branch, x ≠ [] ∧ d ∉ x) :
    addPath treeSep [c] dupOk t fresh (join [c] branch) attrs
      = addPath treeSep [d] dupOk t fresh (join [d] branch) attrs := by
  have h1 := strip_invariant treeSep c dupOk t fresh [] [] branch attrs hne (by simp) (by simp) hc
  have h2 := strip_invariant treeSep d dupOk t fresh [] [] branch attrs hne (by simp) (by simp) hd
  simp only [List.nil_append, List.append_nil] at h1 h2
  rw [h1, h2]

example : addPath ['/'] ['/'] true (.node 0 ['a'] [] []) 1 "/a/b c/".toList []
    = addPath ['/'] ['.'] true (.node 0 ['a'] [] []) 1 "a.b c".toList [] := by rfl

/-- … for a separator of ANY length (`"::"`, `"->"`): whatever run of separator characters leads or trails
the path string, the call is the call on the components — for components that are non-empty and share no
character with the separator (`lstrip`/`rstrip` strip a character set; outside that domain lies K7). -/
theorem strip_invariant_multi (treeSep sp : Str) (hsp : sp ≠ []) (dupOk : Bool) (t : Tree) (fresh : Nat)
    (lead trail : Str) (branch : List Str) (attrs : Attrs) (hne : branch ≠ [])
    (hl : ∀ x ∈ lead, x ∈ sp) (ht : ∀ x ∈ trail, x ∈ sp)
    (hfree : ∀ x ∈ branch, x ≠ [] ∧ Store.Free sp x) :
    addPath treeSep sp dupOk t fresh (lead ++ join sp branch ++ trail) attrs
      = addComps treeSep dupOk t fresh branch attrs := by
  have hpath : lead ++ join sp branch ++ trail ≠ [] := by
    obtain ⟨⟨c0, t0, _, h0⟩, _⟩ := Store.join_shape_multi sp branch hne hfree
    rw [Str.join_eq, h0]
    simp
  unfold addPath addComps
  rw [if_neg hpath, Str.split_strip_join_multi sp hsp lead trail branch hne hl ht hfree]

/-- Independence of the separator chosen, separators of any length -/
theorem sep_invariant_multi (treeSep sp sq : Str) (hsp : sp ≠ []) (hsq : sq ≠ []) (dupOk : Bool) (t : Tree)
    (fresh : Nat) (branch : List Str) (attrs : Attrs) (hne : branch ≠ [])
    (hp : ∀ x ∈ branch, x ≠ [] ∧ Store.Free sp x) (hq : ∀ x ∈ branch, x ≠ [] ∧ Store.Free sq x) :
    addPath treeSep sp dupOk t fresh (join sp branch) attrs
      = addPath treeSep sq dupOk t fresh (join sq branch) attrs := by
  have h1 := strip_invariant_multi treeSep sp hsp dupOk t fresh [] [] branch attrs hne (by simp) (by simp) hp
  have h2 := strip_invariant_multi treeSep sq hsq dupOk t fresh [] [] branch attrs hne (by simp) (by simp) hq
  simp only [List.nil_append, List.append_nil] at h1 h2
  rw [h1, h2]

example : addPath ['/'] [':', ':'] true (.node 0 ['a'] [] []) 1 ":a::b c::::".toList []
    = addPath ['/'] ['-', '>'] true (.node 0 ['a'] [] []) 1 "a->b c".toList [] := by rfl

/-- With duplicate names disallowed (`find_name` over the whole tree + comparison of the full
    path, fix D3) the call either raises, or returns exactly what the call with duplicates
    allowed returns — and then all names are distinct if they were before.
    `s` is the tree's separator; it occurs in no name. -/
theorem no_dup_mode (s : Char) (t : Tree) (fresh : Nat) (branch : List Str) (attrs : Attrs)
    (hs : SibUnique t) (hf : SepFree s t) (hb : ∀ x ∈ branch, s ∉ x) :
    (∃ e, addComps [s] false t fresh branch attrs = .error e) ∨
    (∃ r, addComps [s] false t fresh branch attrs = .ok r ∧
          addComps [s] true t fresh branch attrs = .ok r ∧
          ((names t).Nodup → (names r.1).Nodup)) := by
  cases h : addComps [s] false t fresh branch attrs with
  | error e => exact .inl ⟨e, rfl⟩
  | ok r =>
    obtain ⟨h1, h2⟩ := addComps_nodup s t fresh branch attrs r hs hf hb h
    exact .inr ⟨r, rfl, h1, h2⟩

/-- D3 witness: root `a` with `a/xa/b`; adding `a/b` with duplicates disallowed raises
    `DuplicatedNodeError` (before the fix it returned the node `/a/xa/b`). -/
example : addComps ['/'] false (.node 0 ['a'] [] [.node 1 ['x', 'a'] [] [.node 2 ['b'] [] []]]) 3
    [['a'], ['b']] [] = .error .dup := by rfl

/-- non-vacuity: a call with duplicates disallowed that succeeds -/
example : addComps ['/'] false (.node 0 ['a'] [] [.node 1 ['x', 'a'] [] [.node 2 ['b'] [] []]]) 3
    [['a'], ['x', 'a'], ['c']] [] =
    .ok (.node 0 ['a'] [] [.node 1 ['x', 'a'] [] [.node 2 ['b'] [] [], .node 3 ['c'] [] []]], [0, 1], 4) := by
  rfl

example : SepFree '/' (.node 0 ['a'] [] [.node 1 ['x', 'a'] [] [.node 2 ['b'] [] []]]) := by
  intro q hq x hx
  simp [paths, pathsL] at hq
  rcases hq with rfl | rfl | rfl <;> simp at hx <;> rcases hx with h | h | h <;> subst_vars <;> decide

/-- Attributes end up on exactly the nodes whose path was given with them: after one call every
    node of the result is either an old node — attributes unchanged, or updated with the given
    ones if it is the addressed node — or a new node, which carries no attributes unless it is
    the addressed node (then: the given ones, see `new_node_attrs`). -/
theorem attrs_exact (treeSep : Str) (t : Tree) (fresh : Nat) (branch : List Str) (attrs : Attrs)
    (t' : Tree) (ad : Addr) (fr' : Nat) (hs : SibUnique t)
    (h : addComps treeSep true t fresh branch attrs = .ok (t', ad, fr')) :
    ∀ b n', nodeAt b t' = some n' →
      (∃ n, nodeAt b t = some n ∧ n'.attrs = if b = ad then updateAttrs n.attrs attrs else n.attrs) ∨
      (nodeAt b t = none ∧ n'.attrs = if b = ad then updateAttrs attrs attrs else []) :=
  addComps_attrs treeSep t fresh branch attrs t' ad fr' hs h

/-- a dictionary has pairwise different keys: a new addressed node carries exactly the given attributes -/
theorem new_node_attrs (a : Attrs) (h : (a.map Prod.fst).Nodup) : updateAttrs a a = a :=
  updateAttrs_self a h

/-- Null values are dropped exactly in the row (DataFrame) constructors, and the `name` column is
    never an attribute; the dictionary constructor drops only `name`. -/
theorem nulls_dropped_in_rows (a : Attrs) (kv : Str × Val) :
    (kv ∈ filterRow a ↔ kv ∈ a ∧ kv.2 ≠ .null ∧ kv.1 ≠ "name".toList) ∧
    (kv ∈ dropName a ↔ kv ∈ a ∧ kv.1 ≠ "name".toList) := by
  simp [filterRow, dropName, List.mem_filter]

example : filterRow [(['v'], .int 1), (['w'], .null), ("name".toList, .str ['x'])] = [(['v'], .int 1)] := by rfl

/-- `list_to_tree` on ANY non-empty list of well-formed path strings — repeated paths, any order,
    any leading/trailing separators (`WfStr`: the string is some run of separators, non-empty
    components free of the separator joined by it, some run of separators), both duplicate
    settings. With `branchOf p` the components of `p` and `firstSeen` the duplicate-free list of
    all prefixes in order of first appearance:
    the node paths are exactly the prefixes of the given paths, each once, and the children of every
    node are ordered by first appearance (their paths form a sublist of `firstSeen`).
    With duplicates disallowed all names of the result are distinct. -/
theorem children_first_appearance (c : Char) (dupOk : Bool) (ps : List Str) (hwf : ∀ p ∈ ps, WfStr c p) (t : Tree)
    (h : listToTree [c] dupOk ps = .ok t) :
    (firstSeen (ps.map (branchOf c))).Nodup ∧
    (∀ q, q ∈ paths t ↔ q ∈ firstSeen (ps.map (branchOf c))) ∧ (paths t).Nodup ∧
    (∀ b n, nodeAt b t = some n →
      (kidPaths (namesAlong b t) n).Sublist (firstSeen (ps.map (branchOf c)))) ∧
    (dupOk = false → (names t).Nodup) := by
  obtain ⟨h1, h2, h3, h4, h5⟩ := listToTree_spec' c dupOk ps hwf t h
  exact ⟨h2, h3, nodup_paths t h1, h4, h5⟩

/-- the components read off a well-formed string are the ones it was written from -/
theorem branchOf_written (c : Char) (it : Item) (hw : it.Wf c) : branchOf c (it.render c) = it.branch :=
  branchOf_render c it hw

/-- non-vacuity: `["a/c/x", "/a/b/", "a/c/y"]` — `c` before `b`, `x` before `y` -/
example : listToTree ['/'] true ["a/c/x".toList, "/a/b/".toList, "a/c/y".toList] =
    .ok (.node 0 ['a'] [] [.node 1 ['c'] [] [.node 2 ['x'] [] [], .node 4 ['y'] [] []], .node 3 ['b'] [] []]) := by
  rfl

example : firstSeen [[['a'], ['c'], ['x']], [['a'], ['b']], [['a'], ['c'], ['y']]] =
    [[['a']], [['a'], ['c']], [['a'], ['c'], ['x']], [['a'], ['b']], [['a'], ['c'], ['y']]] := by rfl

example : WfStr '/' "/a/b/".toList := by
  refine ⟨⟨['/'], [['a'], ['b']], ['/'], []⟩, ⟨by simp, by simp, by simp, ?_⟩, rfl, rfl⟩
  intro x hx
  simp at hx
  rcases hx with rfl | rfl <;> simp

example : (⟨['/'], [['a'], ['b']], ['/'], []⟩ : Item).Wf '/' := by
  refine ⟨by simp, by simp, by simp, ?_⟩
  intro x hx
  simp at hx
  rcases hx with rfl | rfl <;> simp

/-- The `add_*_by_path` functions (a fold of `add_path_to_tree` over well-formed path strings,
    starting from ANY tree with pairwise different sibling names): with
    `K := closure (paths t) branches` — the old node paths followed by every new prefix, once, in
    order of first appearance — the node paths of the result are exactly `K`, no path twice, and
    the children paths of every node are a sublist of `K` (existing children keep their order, new
    ones follow in order of first appearance). With duplicates disallowed (`s` = the tree's
    separator, in no name) a fold that does not raise is the fold with duplicates allowed and
    keeps all names distinct if they were. -/
theorem fold_exact (s c : Char) (dupOk : Bool) (items : List Item) (t : Tree) (fresh : Nat) (t' : Tree)
    (fr' : Nat) (hwf : ∀ it ∈ items, it.Wf c) (hs : SibUnique t)
    (hno : dupOk = false → SepFree s t ∧ ∀ it ∈ items, ∀ x ∈ it.branch, s ∉ x)
    (h : addMany [s] [c] dupOk (items.map fun it => (it.render c, it.attrs)) t fresh = .ok (t', fr')) :
    addMany [s] [c] true (items.map fun it => (it.render c, it.attrs)) t fresh = .ok (t', fr') ∧
    SibUnique t' ∧ (closure (paths t) (items.map (·.branch))).Nodup ∧
    (∀ q, q ∈ paths t' ↔ q ∈ closure (paths t) (items.map (·.branch))) ∧
    (∀ b n, nodeAt b t' = some n →
      (kidPaths (namesAlong b t') n).Sublist (closure (paths t) (items.map (·.branch)))) ∧
    t'.name = t.name ∧ (∀ it ∈ items, it.branch.head? = some t.name) ∧
    (dupOk = false → (names t).Nodup → (names t').Nodup) :=
  addMany_spec s c dupOk items t fresh t' fr' hwf hs hno h

/-- `dict_to_tree` on well-formed keys, both duplicate settings: node set = prefix closure, each
    path once, children by first appearance; all names distinct with duplicates disallowed. -/
theorem dict_to_tree_exact (c : Char) (dupOk : Bool) (items : List Item) (hwf : ∀ it ∈ items, it.Wf c) (t : Tree)
    (h : dictToTree [c] dupOk (items.map fun it => (it.render c, it.attrs)) = .ok t) :
    (firstSeen (items.map (·.branch))).Nodup ∧
    (∀ q, q ∈ paths t ↔ q ∈ firstSeen (items.map (·.branch))) ∧ (paths t).Nodup ∧
    (∀ b n, nodeAt b t = some n → (kidPaths (namesAlong b t) n).Sublist (firstSeen (items.map (·.branch)))) ∧
    (dupOk = false → (names t).Nodup) := by
  obtain ⟨h1, h2, h3, h4, h5⟩ := dictToTree_spec c dupOk items hwf t h
  exact ⟨h2, h3, nodup_paths t h1, h4, h5⟩

/-- `dataframe_to_tree` / `polars_to_tree` on well-formed paths (rows that pass the
    duplicate-attribute check), both duplicate settings. Since repair D11 (the root's separator is
    assigned BEFORE the loop) no condition on `/` inside names is needed any more: the statement
    is the same as for `list_to_tree` and `dict_to_tree`. -/
theorem rows_to_tree_exact (c : Char) (dupOk : Bool) (items : List Item) (hwf : ∀ it ∈ items, it.Wf c) (t : Tree)
    (h : rowsToTree [c] dupOk (items.map fun it => (it.render c, it.attrs)) = .ok t) :
    (firstSeen (items.map (·.branch))).Nodup ∧
    (∀ q, q ∈ paths t ↔ q ∈ firstSeen (items.map (·.branch))) ∧ (paths t).Nodup ∧
    (∀ b n, nodeAt b t = some n → (kidPaths (namesAlong b t) n).Sublist (firstSeen (items.map (·.branch)))) ∧
    (dupOk = false → (names t).Nodup) := by
  obtain ⟨h1, h2, h3, h4, h5⟩ := rowsToTree_spec c dupOk items hwf t h
  exact ⟨h2, h3, nodup_paths t h1, h4, h5⟩

example : dictToTree ['.'] true [("a.c".toList, [(['v'], .int 1)]), (".a.b.".toList, []), ("a".toList, [(['w'], .null)])] =
    .ok (.node 0 ['a'] [(['w'], .null)] [.node 1 ['c'] [(['v'], .int 1)] [], .node 2 ['b'] [] []]) := by rfl

example : rowsToTree ['|'] false [("|a|c".toList, [(['v'], .int 1)]), ("a|b|".toList, [(['v'], .null)])] =
    .ok (.node 0 ['a'] [] [.node 1 ['c'] [(['v'], .int 1)] [], .node 2 ['b'] [] []]) := by rfl

end C05
