import BigtreeModel.Store
import BigtreeModel.Bridge
import BigtreeModel.Iter
import BigtreeModel.Query
import BigtreeProofs.Lemmas.BridgeAddr
import BigtreeProofs.Lemmas.BridgeStep
import BigtreeProofs.Lemmas.BridgeTransfer
import BigtreeProofs.Lemmas.StorePathD
import BigtreeProofs.Lemmas.StoreAssert
import BigtreeProofs.Properties.C02
import BigtreeProofs.Properties.C04
import BigtreeProofs.Properties.C12
/-!
# Bridge — model A (pointer store, histories of structural calls) refines model B (rose trees)

`Store.treeOf s fuel v` (`BigtreeModel/Bridge.lean`) reads a node back the way every read-only
function of bigtree does: identity, name, then `.children` recursively.  `Store.forest s` is the list
of the read-backs of the parentless nodes.  The theorems say

1. the read-back of a well-formed store does not depend on the fuel (`treeOf_fuel`, `treeOf_unfold`);
2. its identities are the node and its descendants, each once (`treeOf_ids`), and the forest
   partitions the node set (`forest_partition`);
3. parent/children links of the store are exactly the parent/children relation of the tree, in
   order (`treeOf_sub`, `treeOf_children`, `treeOf_parent`, `treeOf_addr`);
4. every ACCEPTED call of the structural API is, read back, the documented edit of the forest
   (`setParent_some_refines` … `step_refines`, `run_refines`, `run_refines_allok`,
   `run_refines_unchecked`), a REJECTED one changes nothing (`step_rej_forest`; for the documented loop
   `extend`: `extend_refines_prefix`);
5. transfer: theorems about model B hold for every state reachable in model A
   (`preorder_transfer` with C04, `depth_transfer` with C12/C03/C01).

Everything is stated for all stores / histories / arguments; no size bound.
-/

namespace Bridge
open Store

/-! ### a concrete history for the non-vacuity examples -/

def demoCfg : Cfg := { assertions := true, node := false }
/-- 0 gets the children 1,2,3; 3 moves below 1; 4 is appended to 3; a refused loop; 5 stays alone -/
def demoOps : List Op :=
  [.setChildren 0 [1, 2, 3] .none, .setParent 3 (some 1) .none, .append 3 4 .none, .setParent 0 (some 4) .none]
def demo : Store := run demoCfg (init 6 (fun i => [Char.ofNat (97 + i)]) ['/']) demoOps
theorem demo_wf : WF demo := Store.wf_run (Store.wf_init _ _ _) demoCfg rfl _

private def leaf (i : Nat) : Tree := .node i [Char.ofNat (97 + i)] [] []
private def nd (i : Nat) (cs : List Tree) : Tree := .node i [Char.ofNat (97 + i)] [] cs

example : forest demo = [nd 0 [nd 1 [nd 3 [leaf 4]], leaf 2], leaf 5] := by decide

/-! ## 1. fuel -/

/-- acyclicity ⇒ the read-back terminates: every fuel `≥ n` gives the same tree -/
theorem treeOf_fuel (s : Store) (hw : WF s) (v f g : Nat) (hf : s.n ≤ f) (hg : s.n ≤ g) :
    treeOf s f v = treeOf s g v :=
  Store.treeOf_fuel hw v f g hf hg

/-- … and that tree is the fixed point of "read the node, then read its children" -/
theorem treeOf_unfold (s : Store) (hw : WF s) (v f : Nat) (hf : s.n ≤ f) :
    treeOf s f v = .node v (s.name v) [] ((s.children v).map (treeOf s f)) :=
  Store.treeOf_unfold hw v f hf

example : treeOf demo 6 0 = treeOf demo 100 0 := treeOf_fuel demo demo_wf 0 6 100 (by decide) (by decide)
-- too little fuel does cut the tree: the hypothesis `n ≤ fuel` is not idle
example : treeOf demo 2 0 ≠ treeOf demo 6 0 := by decide

/-! ## 2. identities -/

/-- the identities of the read-back of `r` are pairwise distinct and are exactly `r` and the nodes
whose parent walk (`Store.anc`, the executable `ancestors`) meets `r` -/
theorem treeOf_ids (s : Store) (hw : WF s) (f : Nat) (hf : s.n ≤ f) (r : Nat) :
    (Iter.pre (treeOf s f r)).Nodup ∧
    (∀ x, x ∈ Iter.pre (treeOf s f r) ↔ Reach s r x) ∧
    (∀ x, x ∈ Iter.pre (treeOf s f r) ↔ (x = r ∨ r ∈ anc s s.n x)) := by
  refine ⟨nodup_pre_treeOf hw f hf r, mem_pre_treeOf hw f hf r, fun x => ?_⟩
  rw [mem_pre_treeOf hw f hf r, reach_iff, Store.anc_complete hw]
  constructor
  · rintro (h | h)
    · exact Or.inl h.symm
    · exact Or.inr h
  · rintro (h | h)
    · exact Or.inl h.symm
    · exact Or.inr h

example : Iter.pre (treeOf demo 6 1) = [1, 3, 4] := by decide

/-- the trees of the forest partition the node set: together they list every id `< n` exactly once,
and every node lies in exactly one tree, the one of its root -/
theorem forest_partition (s : Store) (hw : WF s) :
    (Iter.preL (forest s)).Perm (List.range s.n) ∧
    ∀ x, x < s.n →
      rootOf s s.n x ∈ roots s ∧ x ∈ Iter.pre (treeOf s s.n (rootOf s s.n x)) ∧
      ∀ r, r ∈ roots s → x ∈ Iter.pre (treeOf s s.n r) → r = rootOf s s.n x := by
  constructor
  · rw [List.perm_ext_iff_of_nodup (nodup_preL_forest hw) List.nodup_range]
    intro x
    rw [mem_preL_forest hw, List.mem_range]
  · intro x hx
    obtain ⟨h1, h2⟩ := rootOf_is_root hw x
    refine ⟨(mem_roots _).2 ⟨reach_lt hw h2 hx, h1⟩, (mem_pre_treeOf hw s.n (Nat.le_refl _) _ x).2 h2, ?_⟩
    intro r hr hm
    exact (rootOf_spec hw ((mem_pre_treeOf hw s.n (Nat.le_refl _) r x).1 hm) ((mem_roots r).1 hr).2).symm

example : Iter.preL (forest demo) = [0, 1, 3, 4, 2, 5] ∧ roots demo = [0, 5] := by decide

/-! ## 3. links of the store = links of the tree

A node of a tree is named, as everywhere in model B, by its address (`Query.Addr`: the child indices
from the root). -/

/-- what sits at an address of the read-back of `r` is the read-back of the node found there, a
descendant of `r`, as many levels below `r` as the address is long -/
theorem treeOf_sub (s : Store) (hw : WF s) (f : Nat) (hf : s.n ≤ f) (r : Nat) (a : Query.Addr) (u : Tree)
    (h : Query.sub (treeOf s f r) a = some u) :
    u = treeOf s f u.id ∧ Reach s r u.id ∧ (anc s s.n u.id).length = (anc s s.n r).length + a.length :=
  Store.sub_treeOf hw f hf a r u h

/-- the child list of the store is the list of the identities of the node's children in the tree, in order -/
theorem treeOf_children (s : Store) (hw : WF s) (f : Nat) (hf : s.n ≤ f) (r : Nat) (a : Query.Addr) (u : Tree)
    (h : Query.sub (treeOf s f r) a = some u) : u.children.map Tree.id = s.children u.id :=
  Store.children_at hw f hf r a u h

/-- the parent link of the store is the parent in the tree: the node at address `a ++ [k]` has the
node at `a` as its parent and is entry number `k` of its child list; conversely every parent/child
link below `r` is a pair of addresses `a`, `a ++ [k]` -/
theorem treeOf_parent (s : Store) (hw : WF s) (f : Nat) (hf : s.n ≤ f) (r : Nat) :
    (∀ (a : Query.Addr) (k : Nat) (u : Tree), Query.sub (treeOf s f r) (a ++ [k]) = some u →
      ∃ w, Query.sub (treeOf s f r) a = some w ∧ s.parent u.id = some w.id ∧ (s.children w.id)[k]? = some u.id) ∧
    (∀ x p, Reach s r p → s.parent x = some p →
      ∃ a k, Query.idAt (treeOf s f r) a = some p ∧ Query.idAt (treeOf s f r) (a ++ [k]) = some x ∧
        (s.children p)[k]? = some x) := by
  refine ⟨fun a k u h => Store.parent_at hw f hf r a k u h, ?_⟩
  intro x p hr hp
  obtain ⟨a, ha⟩ := addr_of_reach hw f hf hr
  obtain ⟨k, hk, hkx⟩ := List.getElem_of_mem (hw.up x p hp)
  have hk' : (s.children p)[k]? = some x := by rw [List.getElem?_eq_getElem hk, hkx]
  refine ⟨a, k, ?_, ?_, hk'⟩
  · simp [Query.idAt, ha]
  · simp [Query.idAt, child_at hw f hf r a p k x ha hk']

/-- every descendant of `r` has exactly one address in the read-back of `r` -/
theorem treeOf_addr (s : Store) (hw : WF s) (f : Nat) (hf : s.n ≤ f) (r x : Nat) (h : Reach s r x) :
    ∃ a, Query.sub (treeOf s f r) a = some (treeOf s f x) ∧
      ∀ b, Query.idAt (treeOf s f r) b = some x → b = a := by
  obtain ⟨a, ha⟩ := addr_of_reach hw f hf h
  refine ⟨a, ha, ?_⟩
  intro b hb
  unfold Query.idAt at hb
  cases hs : Query.sub (treeOf s f r) b with
  | none => simp [hs] at hb
  | some w =>
    simp only [hs, Option.map_some, Option.some.injEq] at hb
    exact addr_unique hw f hf b a r w _ hs ha (by rw [hb, treeOf_id])

example : Query.idAt (treeOf demo 6 0) [0, 0, 0] = some 4 ∧ demo.parent 4 = some 3 ∧
    Query.idAt (treeOf demo 6 0) [0, 0] = some 3 := by decide

/-! ## 4. the step refinement -/

/-- accepted `v.parent = p`: `v`'s subtree is taken out of wherever it is and becomes the LAST child
of `p` — as lists, the trees in the order of their roots -/
theorem setParent_some_refines (c : Cfg) (hc : c.assertions = true) (s : Store) (hw : WF s) (v p : Nat)
    (f : Fault) (h : (step c s (.setParent v (some p) f)).2 = .ok) :
    forest (step c s (.setParent v (some p) f)).1 = Forest.move (forest s) v p := by
  simp only [step] at h ⊢
  split
  · rename_i hv
    rw [if_pos hv] at h
    obtain ⟨he, hp⟩ := setParent_accepted hw c hc v (some p) f h
    obtain ⟨hpn, hnr⟩ := hp p rfl
    rw [he]
    exact forest_reparent_some hw v p hv hpn hnr
  · rename_i hv; rw [if_neg hv] at h; cases h

example : (step demoCfg demo (.setParent 1 (some 5) .none)).2 = .ok ∧
    Forest.move (forest demo) 1 5 = [nd 0 [leaf 2], nd 5 [nd 1 [nd 3 [leaf 4]]]] := by decide

/-- accepted `v.parent = None`: the detached node becomes a root — the roots are the old ones and
`v`; every read-back is the old one with `v`'s subtree removed, `v`'s own subtree is unchanged; as a
forest (up to the order of the trees): `Forest.toRoot` -/
theorem setParent_none_refines (c : Cfg) (s : Store) (hw : WF s) (v : Nat)
    (f : Fault) (h : (step c s (.setParent v none f)).2 = .ok) :
    let s' := (step c s (.setParent v none f)).1
    (∀ r, r ∈ roots s' ↔ r = v ∨ r ∈ roots s) ∧
    (∀ x, treeOf s' s'.n x = Tree.detach v (treeOf s s.n x)) ∧
    treeOf s' s'.n v = treeOf s s.n v ∧
    (forest s').Perm (Forest.toRoot (forest s) v) := by
  simp only [step] at h ⊢
  split
  · rename_i hv
    rw [if_pos hv] at h
    obtain ⟨he, _⟩ := setParent_ok_eq c v none f h
    rw [he]
    have hn : (reparent s v none).n = s.n := rfl
    rw [hn]
    exact ⟨fun r => mem_roots_reparent_none v hv r,
      fun x => (detach_treeOf hw v hv s.n (Nat.le_refl _) x).symm,
      treeOf_reparent_none_self hw v hv s.n (Nat.le_refl _),
      forest_reparent_none hw v hv⟩
  · rename_i hv; rw [if_neg hv] at h; cases h

example : (step demoCfg demo (.setParent 3 none .none)).2 = .ok ∧
    Forest.toRoot (forest demo) 3 = [nd 3 [leaf 4], nd 0 [leaf 1, leaf 2], leaf 5] := by decide

/-- accepted `v.children = cs`: the old children of `v` become roots, then the members of `cs`, each
detached from where it was, become `v`'s children in the given order (up to the order of the trees) -/
theorem setChildren_refines (c : Cfg) (hc : c.assertions = true) (s : Store) (hw : WF s) (v : Nat)
    (cs : List Nat) (f : Fault) (h : (step c s (.setChildren v cs f)).2 = .ok) :
    (forest (step c s (.setChildren v cs f)).1).Perm (Forest.setChildren (forest s) v cs) :=
  forest_step hw c hc (.setChildren v cs f) h (forest s) (List.Perm.refl _)

-- 1 gets the children 4 (stolen from 3, a descendant of 1's old child) and 2 (stolen from 0); 3 becomes a root
example : (step demoCfg demo (.setChildren 1 [4, 2] .none)).2 = .ok ∧
    Forest.setChildren (forest demo) 1 [4, 2] = [leaf 3, nd 0 [nd 1 [leaf 4, leaf 2]], leaf 5] := by decide

/-- `del v.children`: every child subtree of `v` becomes a tree of its own (up to the order of the trees) -/
theorem delChildren_refines (s : Store) (hw : WF s) (v : Nat) (hv : v < s.n) :
    (forest (delChildren s v)).Perm (Forest.delChildren (forest s) v) := by
  rw [delChildren_eq hw]
  exact forest_detached hw v hv

example : Forest.delChildren (forest demo) 0 = [nd 1 [nd 3 [leaf 4]], leaf 2, leaf 0, leaf 5] := by decide

/-- `v.sort(key, reverse)`: the child list of `v` is stably sorted, nothing else moves — as lists -/
theorem sort_refines (s : Store) (hw : WF s) (v : Nat) (ranks : List Nat) (rev : Bool) :
    forest (Store.sortChildren s v ranks rev) = Forest.sortChildren (forest s) v ranks rev :=
  forest_sortChildren hw v ranks rev

example : Forest.sortChildren (forest demo) 0 [0, 7, 3] false = [nd 0 [leaf 2, nd 1 [nd 3 [leaf 4]]], leaf 5] := by
  decide

/-- every accepted call of the API (parent setter incl. `None`, children setter and deleter, `append`,
`extend`, `>>`, `<<`, `del node[name]`, `sort`, `sep` setter) is, read back, its documented forest
edit `Forest.apply`, up to the order of the trees -/
theorem step_refines (c : Cfg) (hc : c.assertions = true) (s : Store) (hw : WF s) (op : Op)
    (h : (step c s op).2 = .ok) :
    (forest (step c s op).1).Perm (Forest.apply (forest s) op) :=
  forest_step hw c hc op h (forest s) (List.Perm.refl _)

example : (step demoCfg demo (.extend 5 [2, 3] .none 0)).2 = .ok ∧
    Forest.apply (forest demo) (.extend 5 [2, 3] .none 0) = [nd 0 [leaf 1], nd 5 [leaf 2, nd 3 [leaf 4]]] := by decide
example : (step demoCfg demo (.delItem 0 ['c'] .none)).2 = .ok ∧
    Forest.apply (forest demo) (.delItem 0 ['c'] .none) = [leaf 2, nd 0 [nd 1 [nd 3 [leaf 4]]], leaf 5] := by decide

/-- a rejected call (any cause; `extend`, the documented loop, excepted) leaves the forest as it was -/
theorem step_rej_forest (c : Cfg) (hc : c.assertions = true) (s : Store) (hw : WF s) (op : Op)
    (hne : ∀ p cs f k, op ≠ .extend p cs f k) (h : (step c s op).2 = .rej) :
    forest (step c s op).1 = forest s := by
  rw [C02.step_rej_id c hc s hw op hne h]

example : (step demoCfg demo (.setParent 0 (some 4) .none)).2 = .rej := by decide
example : (step demoCfg demo (.setChildren 5 [2, 1] .post)).2 = .rej := by decide

/-- no `extend` of the history is rejected half-way -/
def NoRejExtend (c : Cfg) : Store → List Op → Prop
  | _, [] => True
  | s, op :: ops =>
    ((step c s op).2 = .rej → ∀ p cs f k, op ≠ .extend p cs f k) ∧ NoRejExtend c (step c s op).1 ops

/-- whole histories: the forest of the final store is obtained from the initial forest by replaying
the documented forest edits of the accepted calls (`Forest.replay`), up to the order of the trees -/
theorem run_refines (c : Cfg) (hc : c.assertions = true) : ∀ (ops : List Op) (s : Store), WF s →
    NoRejExtend c s ops → ∀ G : Forest, (forest s).Perm G →
    (forest (run c s ops)).Perm (Forest.replay G (ops.zip (outcomes c s ops))) := by
  intro ops
  induction ops with
  | nil => intro s _ _ G hG; exact hG
  | cons op ops ih =>
    intro s hw hx G hG
    have hw1 := Store.wf_step hw c hc op
    have hrun : run c s (op :: ops) = run c (step c s op).1 ops := rfl
    have hout : outcomes c s (op :: ops) = (step c s op).2 :: outcomes c (step c s op).1 ops := rfl
    rw [hrun, hout, List.zip_cons_cons]
    cases ho : (step c s op).2 with
    | ok =>
      simp only [Forest.replay]
      exact ih _ hw1 hx.2 _ (forest_step hw c hc op ho G hG)
    | rej =>
      simp only [Forest.replay]
      refine ih _ hw1 hx.2 G ?_
      rw [step_rej_forest c hc s hw op (hx.1 ho) ho]
      exact hG

example : NoRejExtend demoCfg (init 6 (fun i => [Char.ofNat (97 + i)]) ['/']) demoOps := by
  simp only [NoRejExtend, demoOps]
  refine ⟨?_, ?_, ?_, ?_, trivial⟩ <;> (intro _ p cs f k e; cases e)
example : Forest.replay (forest (init 6 (fun i => [Char.ofNat (97 + i)]) ['/']))
    (demoOps.zip (outcomes demoCfg (init 6 (fun i => [Char.ofNat (97 + i)]) ['/']) demoOps))
    = [nd 0 [nd 1 [nd 3 [leaf 4]], leaf 2], leaf 5] := by decide

/-- `p.extend(cs)`, accepted or not: exactly the members before the first refused one have been moved
below `p`, each as the last child, in order (all members when the call is accepted) -/
theorem extend_refines_prefix (c : Cfg) (hc : c.assertions = true) (s : Store) (hw : WF s) (p : Nat)
    (cs : List Nat) (f : Fault) (k : Nat) :
    ∃ j, j ≤ cs.length ∧ ((step c s (.extend p cs f k)).2 = .ok → j = cs.length) ∧
      (forest (step c s (.extend p cs f k)).1).Perm ((cs.take j).foldl (fun G c => Forest.move G c p) (forest s)) := by
  simp only [step]
  split
  · exact forest_extend_prefix hc p cs s f k hw (forest s) (List.Perm.refl _)
  · exact ⟨0, Nat.zero_le _, fun h => (by cases h), List.Perm.refl _⟩

-- the second member is a non-node: the first one has been moved, the call fails
example : (step demoCfg demo (.extend 5 [2, 9, 3] .none 0)).2 = .rej ∧
    (forest (step demoCfg demo (.extend 5 [2, 9, 3] .none 0)).1)
      = ([2, 9, 3].take 1).foldl (fun G c => Forest.move G c 5) (forest demo) := by decide

/-- histories in which every call is accepted: the final forest is the fold of the documented edits -/
theorem run_refines_allok (c : Cfg) (hc : c.assertions = true) : ∀ (ops : List Op) (s : Store), WF s →
    AllOk c s ops → ∀ G : Forest, (forest s).Perm G →
    (forest (run c s ops)).Perm (ops.foldl Forest.apply G) := by
  intro ops
  induction ops with
  | nil => intro s _ _ G hG; exact hG
  | cons op ops ih =>
    intro s hw h G hG
    exact ih _ (Store.wf_step hw c hc op) h.2 _ (forest_step hw c hc op h.1 G hG)

/-- … also with bigtree's `ASSERTIONS` switched off (C20's domain: histories every call of which the
checks would accept) -/
theorem run_refines_unchecked (nd : Bool) (ops : List Op) (s : Store) (hw : WF s)
    (h : AllOk (onCfg nd) s ops) :
    (forest (run (offCfg nd) s ops)).Perm (ops.foldl Forest.apply (forest s)) := by
  rw [run_off_same nd ops s h]
  exact run_refines_allok (onCfg nd) rfl ops s hw h _ (List.Perm.refl _)

example : AllOk (onCfg false) (init 6 (fun i => [Char.ofNat (97 + i)]) ['/']) (demoOps.take 3) := by
  simp only [AllOk, demoOps, List.take]
  decide

/-! ## 5. transfer: theorems about rose trees hold in every reachable state -/

/-- C04 in every reachable state.  For every history from freshly built nodes and every root `r` of the
final store, the real-shaped pre-order iterator (`Iter.preImpl`, no filter / stop / depth limit) run on
the read-back of `r` lists `r` and all its descendants, each exactly once, `r` first, and every node
after its parent. -/
theorem preorder_transfer (c : Cfg) (hc : c.assertions = true) (n : Nat) (names : Nat → Str) (sep : Str)
    (ops : List Op) :
    let s := run c (init n names sep) ops
    ∀ r, s.parent r = none →
      let L := (Iter.preImpl Iter.Cfg.all 1 (treeOf s s.n r)).map Tree.id
      L = Iter.pre (treeOf s s.n r) ∧ L.Nodup ∧ L.head? = some r ∧
      (∀ x, x ∈ L ↔ Reach s r x) ∧
      (∀ x p, x ∈ L → s.parent x = some p → ∃ l1 l2 l3, L = l1 ++ p :: (l2 ++ x :: l3)) := by
  intro s r hr L
  have hw : WF s := Store.wf_run (Store.wf_init n names sep) c hc ops
  have hL : L = Iter.pre (treeOf s s.n r) := by
    show (Iter.preImpl Iter.Cfg.all 1 (treeOf s s.n r)).map Tree.id = _
    rw [C04.preorder_eq, Iter.gateL_all]
    have hf : ∀ l : List Nat, l.filter Iter.Cfg.all.filt = l := fun l => List.filter_eq_self.2 (fun _ _ => rfl)
    rw [hf]
    simp [Iter.preL]
  refine ⟨hL, ?_, ?_, ?_, ?_⟩
  · rw [hL]; exact nodup_pre_treeOf hw s.n (Nat.le_refl _) r
  · rw [hL, Tree.pre_eq, treeOf_id]; rfl
  · intro x; rw [hL]; exact mem_pre_treeOf hw s.n (Nat.le_refl _) r x
  · intro x p hx hp
    rw [hL] at hx ⊢
    have hrx := (mem_pre_treeOf hw s.n (Nat.le_refl _) r x).1 hx
    have hrp : Reach s r p := by
      cases hrx with
      | refl => rw [hr] at hp; cases hp
      | step h1 h2 => rw [hp] at h2; cases h2; exact h1
    exact pre_parent_before hw s.n (Nat.le_refl _) hrp hp

example : (Iter.preImpl Iter.Cfg.all 1 (treeOf demo demo.n 0)).map Tree.id = [0, 1, 3, 4, 2] := by decide

/-- C12 / C03 / C01 meet.  In every well-formed store, for every root `r`: the `depth` of a located node
of the read-back tree (C12's `Query.depth`, the recursive property as written) equals the `depth` computed
on the store (C03's `Store.depth`), which is 1 + the length of the executable ancestor walk (C01's
`Store.anc`); and every node below `r` is such a located node. -/
theorem depth_transfer (s : Store) (hw : WF s) (r : Nat) (hr : s.parent r = none) :
    (∀ (a : Query.Addr) (u : Tree), Query.sub (treeOf s s.n r) a = some u →
      Query.depth a = Store.depth s u.id ∧ Query.depth a = 1 + (anc s s.n u.id).length) ∧
    (∀ x, Reach s r x → ∃ a, Query.idAt (treeOf s s.n r) a = some x ∧ Query.depth a = Store.depth s x) := by
  have key : ∀ (a : Query.Addr) (u : Tree), Query.sub (treeOf s s.n r) a = some u →
      Query.depth a = Store.depth s u.id ∧ Query.depth a = 1 + (anc s s.n u.id).length := by
    intro a u h
    obtain ⟨_, _, h3⟩ := Store.sub_treeOf hw s.n (Nat.le_refl _) a r u h
    rw [anc_root s s.n r hr] at h3
    have hd : Store.depth s u.id = (anc s s.n u.id).length + 1 := depthAux_eq s s.n u.id
    rw [(C12.depth_eq a).1, hd, h3]
    simp
    omega
  refine ⟨key, ?_⟩
  intro x hx
  obtain ⟨a, ha⟩ := addr_of_reach hw s.n (Nat.le_refl _) hx
  refine ⟨a, by simp [Query.idAt, ha], ?_⟩
  have := (key a _ ha).1
  rwa [treeOf_id] at this

/-- the same for every reachable state -/
theorem depth_transfer_run (c : Cfg) (hc : c.assertions = true) (n : Nat) (names : Nat → Str) (sep : Str)
    (ops : List Op) :
    let s := run c (init n names sep) ops
    ∀ r, s.parent r = none → ∀ x, Reach s r x →
      ∃ a, Query.idAt (treeOf s s.n r) a = some x ∧ Query.depth a = 1 + (anc s s.n x).length := by
  intro s r hr x hx
  have hw : WF s := Store.wf_run (Store.wf_init n names sep) c hc ops
  obtain ⟨a, ha, hd⟩ := (depth_transfer s hw r hr).2 x hx
  refine ⟨a, ha, ?_⟩
  rw [hd]
  have : Store.depth s x = (anc s s.n x).length + 1 := depthAux_eq s s.n x
  omega

example : Query.idAt (treeOf demo demo.n 0) [0, 0, 0] = some 4 ∧ Query.depth [0, 0, 0] = 4 ∧
    Store.depth demo 4 = 4 ∧ anc demo demo.n 4 = [3, 1, 0] := by decide

end Bridge
