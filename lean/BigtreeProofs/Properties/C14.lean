import BigtreeModel.Helper
import BigtreeProofs.Lemmas.HelperPrune
/-!
# C14 — prune_tree and get_subtree return exactly the specified part of the tree

Model: `Helper.prune`, `Helper.getSubtree` (Model B, written as the Python is written: locate each
path with `find_path`, build the ancestor set, detach the non-kept children, cut the depth through
the level groups with `del children`). Nodes are identified by their address in the input tree.
`restrict keep [] t` is `t` with exactly the subtrees rooted at nodes failing `keep` removed —
sibling order, ids, names and attributes untouched.
-/
namespace C14
open Helper


/-- `r(a[k=1](x, y(z)), b(z), c)` with ids in pre-order: the tree of the non-vacuity examples -/
def ex : Tree :=
  .node 0 ['r'] [] [
    .node 1 ['a'] [(['k'], .int 1)] [.node 2 ['x'] [] [], .node 3 ['y'] [] [.node 4 ['z'] [] []]],
    .node 5 ['b'] [] [.node 6 ['z'] [] []],
    .node 7 ['c'] [] []]

/-- a full path and a bare name locate the nodes at addresses `[0]` and `[1]`, which are non-nested -/
theorem ex_locate : locate ['/'] ex ['/'] [['/','r','/','a'], ['b']] = .ok [[0], [1]] := rfl
theorem ex_nonNested : NonNested [[0], [1]] := by unfold NonNested; decide

/-- the kept-node predicate is closed under taking prefixes (ancestors) -/
theorem pruneKeep_prefix_closed (ps : List Addr) (exact : Bool) (md : Nat) (b c : Addr)
    (hcb : c <+: b) (hb : pruneKeep ps exact md b = true) : pruneKeep ps exact md c = true := by
  simp only [pruneKeep, Bool.and_eq_true, Bool.or_eq_true, List.any_eq_true, Bool.not_eq_true',
    List.isPrefixOf_iff_prefix, decide_eq_true_eq, beq_iff_eq] at hb ⊢
  obtain ⟨h1, h2⟩ := hb
  refine ⟨?_, ?_⟩
  · rcases h1 with h1 | ⟨p, hp, h | ⟨he, h⟩⟩
    · exact Or.inl h1
    · exact Or.inr ⟨p, hp, Or.inl (hcb.trans h)⟩
    · rcases List.prefix_or_prefix_of_prefix hcb h with h' | h'
      · exact Or.inr ⟨p, hp, Or.inl h'⟩
      · exact Or.inr ⟨p, hp, Or.inr ⟨he, h'⟩⟩
  · rcases h2 with h2 | h2
    · exact Or.inl h2
    · have := hcb.length_le; exact Or.inr (by omega)

/-- **prune_order_attrs.** For located, pairwise non-nested targets `ps`, `prune_tree` returns the
    input tree restricted to the nodes on a route to a target or (unless `exact`) below one, and
    within the depth limit: sibling order, ids, names and attributes are those of the input. -/
theorem prune_order_attrs (treeSep : Str) (t : Tree) (paths : List Str) (exact : Bool) (sepArg : Str)
    (md : Nat) (ps : List Addr)
    (hloc : locate treeSep t sepArg paths = .ok ps) (hnn : NonNested ps)
    (hne : paths ≠ [] ∨ md ≠ 0) :
    prune treeSep t paths exact sepArg md = .ok (restrict (pruneKeep ps exact md) [] t) := by
  have hlen := locate_length treeSep t sepArg paths ps hloc
  unfold prune
  have hc : (paths.isEmpty && md == 0) = false := by
    rcases hne with h | h
    · simp [List.isEmpty_iff, h]
    · simp [h]
  rw [hc]
  simp only [Bool.false_eq_true, if_false]
  by_cases hp : paths = []
  · -- depth only
    subst hp
    have hps : ps = [] := by simpa using hlen
    subst hps
    have hmd : md ≠ 0 := by rcases hne with h | h; exact absurd rfl h; exact h
    simp only [prunePaths, List.isEmpty_nil, if_true, Except.map]
    have : (md == 0) = false := by simpa using hmd
    rw [this]
    simp only [Bool.false_eq_true, if_false]
    rw [depthCut_eq_cutDepth md (by omega), cutDepth_eq_restrict md (by omega)]
    congr 2
    funext b
    simp [pruneKeep, withDepth, hmd]
  · have hpsne : ps ≠ [] := by
      intro e; subst e
      exact hp (List.length_eq_zero_iff.mp (by simpa using hlen.symm))
    have hpe : paths.isEmpty = false := by simpa [List.isEmpty_iff] using hp
    simp only [prunePaths, hpe, Bool.false_eq_true, if_false, hloc, Except.map]
    have hdet := detach_targets ps exact hnn hpsne t
    unfold ancSet at hdet
    rw [hdet]
    have hpse : ps.isEmpty = false := by simpa [List.isEmpty_iff] using hpsne
    by_cases hmd : md = 0
    · subst hmd
      simp only [beq_self_eq_true, if_true]
      congr 2
      funext b
      simp [pruneKeep, keepT, hpse]
    · have hmdb : (md == 0) = false := by simpa using hmd
      rw [hmdb]
      simp only [Bool.false_eq_true, if_false]
      rw [depthCut_eq_cutDepth md (by omega)]
      have hcut := cutDepth_restrict (keepT ps exact) md t [] (by simp; omega)
      simp only [List.length_nil, Nat.zero_add] at hcut
      rw [hcut]
      congr 2
      funext b
      simp [pruneKeep, withDepth, keepT, hpse, hmdb]

/-- non-vacuity: two paths, `exact=True` — the hypotheses hold and the restriction is the tree
    `r(a[k=1], b)`; with `exact=False` and `max_depth=3` it is `r(a(x, y), b(z))` (this is the case
    the "ignores `exact` once two paths are given" mutant gets wrong) -/
example : prune ['/'] ex [['/','r','/','a'], ['b']] true ['/'] 0
      = .ok (restrict (pruneKeep [[0], [1]] true 0) [] ex)
    ∧ restrict (pruneKeep [[0], [1]] true 0) [] ex
      = .node 0 ['r'] [] [.node 1 ['a'] [(['k'], .int 1)] [], .node 5 ['b'] [] []]
    ∧ restrict (pruneKeep [[0], [1]] false 3) [] ex
      = .node 0 ['r'] [] [.node 1 ['a'] [(['k'], .int 1)] [.node 2 ['x'] [] [], .node 3 ['y'] [] []],
          .node 5 ['b'] [] [.node 6 ['z'] [] []]] :=
  ⟨prune_order_attrs _ _ _ _ _ _ _ ex_locate ex_nonNested (Or.inl (by simp)), rfl, rfl⟩

/-- **prune_nodes.** The nodes of the result, listed in pre-order, are the nodes of the input at
    the kept addresses (with their ids, names and attributes), and an address is kept iff it is an
    address of the input tree, lies on a route to a target or (unless `exact`) below a target, and
    its depth does not exceed `max_depth`. -/
theorem prune_nodes (treeSep : Str) (t : Tree) (paths : List Str) (exact : Bool) (sepArg : Str)
    (md : Nat) (ps : List Addr)
    (hloc : locate treeSep t sepArg paths = .ok ps) (hnn : NonNested ps)
    (hne : paths ≠ [] ∨ md ≠ 0) :
    ∃ r, prune treeSep t paths exact sepArg md = .ok r ∧
      preLabels r = (keptAddrs (pruneKeep ps exact md) [] t).filterMap (labelAt t) ∧
      ∀ a, a ∈ keptAddrs (pruneKeep ps exact md) [] t ↔
        a ∈ addrs [] t ∧ (ps = [] ∨ ∃ p ∈ ps, a <+: p ∨ (exact = false ∧ p <+: a))
          ∧ (md = 0 ∨ a.length + 1 ≤ md) := by
  refine ⟨_, prune_order_attrs treeSep t paths exact sepArg md ps hloc hnn hne,
    preLabels_restrict _ t t [] rfl, ?_⟩
  intro a
  rw [mem_keptAddrs _ (pruneKeep_prefix_closed ps exact md)]
  have hk : pruneKeep ps exact md a = true ↔
      (ps = [] ∨ ∃ p ∈ ps, a <+: p ∨ (exact = false ∧ p <+: a)) ∧ (md = 0 ∨ a.length + 1 ≤ md) := by
    simp [pruneKeep, List.isEmpty_iff, List.isPrefixOf_iff_prefix]
  constructor
  · rintro ⟨h1, h2 | h2⟩
    · subst h2
      refine ⟨h1, ?_, by simp; omega⟩
      by_cases hps : ps = []
      · exact Or.inl hps
      · obtain ⟨p, hp⟩ := List.exists_mem_of_ne_nil ps hps
        exact Or.inr ⟨p, hp, Or.inl List.nil_prefix⟩
    · exact ⟨h1, hk.mp h2⟩
  · rintro ⟨h1, h2⟩
    exact ⟨h1, Or.inr (hk.mpr h2)⟩

/-- non-vacuity: for `exact=False, max_depth=3` the kept addresses are those of `r, a, x, y, b, z`
    (not `y`'s child at depth 4, not `c`) and the result lists exactly their labels -/
example : keptAddrs (pruneKeep [[0], [1]] false 3) [] ex = [[], [0], [0, 0], [0, 1], [1], [1, 0]]
    ∧ (keptAddrs (pruneKeep [[0], [1]] false 3) [] ex).filterMap (labelAt ex)
      = [(0, ['r'], []), (1, ['a'], [(['k'], .int 1)]), (2, ['x'], []), (3, ['y'], []), (5, ['b'], []), (6, ['z'], [])]
    ∧ addrs [] ex = [[], [0], [0, 0], [0, 1], [0, 1, 0], [1], [1, 0], [2]] := ⟨rfl, rfl, rfl⟩
example : ∃ r, prune ['/'] ex [['/','r','/','a'], ['b']] false ['/'] 3 = .ok r ∧ preLabels r
      = [(0, ['r'], []), (1, ['a'], [(['k'], .int 1)]), (2, ['x'], []), (3, ['y'], []), (5, ['b'], []), (6, ['z'], [])] := by
  obtain ⟨r, h1, h2, _⟩ := prune_nodes ['/'] ex _ false ['/'] 3 _ ex_locate ex_nonNested (Or.inl (by simp))
  exact ⟨r, h1, h2⟩

/-- **prune_order.** The kept nodes appear in the result in the order they have in the input
    (the kept addresses are a sublist of the input's pre-order address list) and each exactly once. -/
theorem prune_order (ps : List Addr) (exact : Bool) (md : Nat) (t : Tree) :
    (keptAddrs (pruneKeep ps exact md) [] t).Sublist (addrs [] t) ∧ (addrs [] t).Nodup
      ∧ (keptAddrs (pruneKeep ps exact md) [] t).Nodup :=
  ⟨keptAddrs_sublist _ t [], addrs_nodup t [], (keptAddrs_sublist _ t []).nodup (addrs_nodup t [])⟩

/-- the addresses listed by `addrs` are exactly the positions at which the tree has a node -/
theorem addrs_valid (t : Tree) (a : Addr) : a ∈ addrs [] t ↔ (subAt t a).isSome := mem_addrs_root t a

/-- the targets `locate` returns are the nodes the textual paths designate under `find_path`'s
    reading: the unique node whose `path_name` ends with the path (after `replace(sep, tree.sep)` and
    `rstrip(tree.sep)`) -/
theorem locate_designates (treeSep : Str) (t : Tree) (sepArg : Str) (paths : List Str) (ps : List Addr)
    (h : locate treeSep t sepArg paths = .ok ps) :
    ps.length = paths.length ∧ ∀ qp ∈ paths.zip ps, Designates treeSep t sepArg qp.1 qp.2 :=
  ⟨locate_length treeSep t sepArg paths ps h, locate_sound treeSep t sepArg paths ps h⟩

/-- `find_path` finds `v` iff `v` is the one node whose `path_name` ends with the query -/
theorem find_path_spec (sep : Str) (anc : List Str) (t : Tree) (q : Str) (v : Visit) :
    findPath sep anc t q = .ok (some v) ↔
      v ∈ walk [] anc t ∧ (rstrip sep q) <:+ pathName sep v.names ∧
        ∀ w ∈ walk [] anc t, (rstrip sep q) <:+ pathName sep w.names → w = v :=
  findPath_eq_some_iff sep anc t q v

/-- non-vacuity: `"b"` designates the node at `[1]` of `ex`; `"z"` (two matches) designates none -/
example : ∃ v, findPath ['/'] [] ex ['b'] = .ok (some v) ∧ v.addr = [1] ∧ v.names = [['r'], ['b']] := ⟨_, rfl, rfl, rfl⟩
example : findPath ['/'] [] ex ['z'] = .error .searchError := rfl

/-- **subtree_eq.** `get_subtree` returns the addressed node with its descendants, cut at the
    relative depth `max_depth`, as a new root. -/
theorem subtree_eq (treeSep : Str) (anc : List Str) (t : Tree) (q : Str) (md : Nat) (v : Visit)
    (hq : q ≠ []) (hf : findPath treeSep anc t q = .ok (some v)) :
    getSubtree treeSep anc t q md
        = .ok (if md = 0 then v.sub else restrict (fun b => decide (b.length + 1 ≤ md)) [] v.sub)
      ∧ subAt t v.addr = some v.sub := by
  constructor
  · have hqe : q.isEmpty = false := by simpa [List.isEmpty_iff] using hq
    simp only [getSubtree, subtreeFind, hqe, Bool.false_eq_true, if_false, hf, Except.bind]
    by_cases hmd : md = 0
    · simp [hmd]
    · have : (md == 0) = false := by simpa using hmd
      simp only [this, Bool.false_eq_true, if_false, hmd]
      have := prune_order_attrs treeSep v.sub [] false ['/'] md [] (by simp [locate]) (by intro p hp; simp at hp)
        (Or.inr hmd)
      rw [this]
      congr 2
      funext b
      simp [pruneKeep, hmd]
  · obtain ⟨hv, _, _⟩ := findPath_some treeSep anc t q v hf
    obtain ⟨rel, h1, h2⟩ := walk_subAt t [] anc v hv
    simp only [List.nil_append] at h1
    rw [h1]; exact h2

/-- non-vacuity: `get_subtree(root, "a", max_depth=2)` finds the node at `[0]` and returns `a(x, y)` -/
example : ∃ v, findPath ['/'] [] ex ['a'] = .ok (some v) ∧ v.addr = [0]
    ∧ getSubtree ['/'] [] ex ['a'] 2
      = .ok (.node 1 ['a'] [(['k'], .int 1)] [.node 2 ['x'] [] [], .node 3 ['y'] [] []]) :=
  ⟨_, rfl, rfl, rfl⟩

/-- `get_subtree` without a name or path starts from the given node itself -/
theorem subtree_self (treeSep : Str) (anc : List Str) (t : Tree) (md : Nat) :
    getSubtree treeSep anc t [] md
      = .ok (if md = 0 then t else restrict (fun b => decide (b.length + 1 ≤ md)) [] t) := by
  simp only [getSubtree, subtreeFind, List.isEmpty_nil, if_true, Except.bind]
  by_cases hmd : md = 0
  · simp [hmd]
  · have : (md == 0) = false := by simpa using hmd
    simp only [this, Bool.false_eq_true, if_false, hmd]
    have := prune_order_attrs treeSep t [] false ['/'] md [] (by simp [locate]) (by intro p hp; simp at hp)
      (Or.inr hmd)
    rw [this]
    congr 2
    funext b
    simp [pruneKeep, hmd]

/-- **missing_path_rej.** A path that matches no node is reported: `prune_tree` raises
    `NotFoundError` at the first such path (all earlier ones having been found), `get_subtree`
    raises `ValueError`; and `prune_tree` without path and depth raises `ValueError`. A path
    "matches no node" means: no node of the tree has a `path_name` ending with it. -/
theorem missing_path_rej (treeSep : Str) (t : Tree) (exact : Bool) (sepArg : Str) (md : Nat)
    (qs1 : List Str) (q : Str) (qs2 : List Str)
    (hfound : ∀ q' ∈ qs1, ∃ v, findPath treeSep [] t (replace sepArg treeSep q') = .ok (some v))
    (hmiss : ∀ w ∈ walk [] [] t, ¬ (rstrip treeSep (replace sepArg treeSep q)) <:+ pathName treeSep w.names) :
    prune treeSep t (qs1 ++ q :: qs2) exact sepArg md = .error .notFound := by
  have hloc : locate treeSep t sepArg (qs1 ++ q :: qs2) = .error .notFound := by
    induction qs1 with
    | nil =>
      simp only [List.nil_append, locate]
      rw [(findPath_none treeSep [] t _).mpr hmiss]
    | cons q' qs ih =>
      obtain ⟨v, hv⟩ := hfound q' (by simp)
      simp only [List.cons_append, locate, hv]
      rw [ih (fun x hx => hfound x (by simp [hx]))]
      rfl
  unfold prune prunePaths
  simp [hloc, Except.map]

/-- non-vacuity: the second path `q` matches nothing (the first one is found) -/
example : prune ['/'] ex [['b'], ['q']] false ['/'] 0 = .error .notFound := rfl
example : (∃ v, findPath ['/'] [] ex (replace ['/'] ['/'] ['b']) = .ok (some v))
    ∧ findPath ['/'] [] ex (replace ['/'] ['/'] ['q']) = .ok none := ⟨⟨_, rfl⟩, rfl⟩
/-- an ambiguous name is refused too (`z` occurs twice): `SearchError` -/
example : prune ['/'] ex [['z']] false ['/'] 0 = .error .searchError := rfl

theorem missing_subtree_rej (treeSep : Str) (anc : List Str) (t : Tree) (q : Str) (md : Nat) (hq : q ≠ [])
    (hmiss : ∀ w ∈ walk [] anc t, ¬ (rstrip treeSep q) <:+ pathName treeSep w.names) :
    getSubtree treeSep anc t q md = .error .valueError := by
  have hqe : q.isEmpty = false := by simpa [List.isEmpty_iff] using hq
  simp only [getSubtree, subtreeFind, hqe, Bool.false_eq_true, if_false,
    (findPath_none treeSep anc t q).mpr hmiss, Except.bind]

example : getSubtree ['/'] [] ex ['q'] 0 = .error .valueError := rfl

theorem prune_no_args_rej (treeSep : Str) (t : Tree) (exact : Bool) (sepArg : Str) :
    prune treeSep t [] exact sepArg 0 = .error .valueError := by
  simp [prune]

end C14
