import BigtreeModel.BinStore
import BigtreeModel.BinBridge
import BigtreeModel.Iter
import BigtreeModel.Query
import BigtreeProofs.Lemmas.BinBridgeBasic
import BigtreeProofs.Properties.C04
import BigtreeProofs.Properties.C11
import BigtreeProofs.Properties.C12
/-!
# BinBridge — the two-slot `BinaryNode` store (C11) refines binary trees (`BTree`: C04 in-order, C12 queries)

`BinStore.btreeOf s names fuel v` (`BigtreeModel/BinBridge.lean`) reads a node back the way the
read-only functions do: identity, then `.left` and `.right` recursively, an empty slot is `BTree.nil`.

1. the read-back of a well-formed store does not depend on the fuel (`btreeOf_fuel`, `btreeOf_unfold`);
2. its identities are the node and its descendants, each once (`btreeOf_ids`), the trees of the parentless
   nodes partition the node set (`btree_partition`); `.left` / `.right` of the store are the two subtrees, and
   they agree with the parent pointers (`btreeOf_slots`);
3. transfer: in every state reachable by a history of `BinaryNode` calls, the in-order iterator of C04
   lists every descendant-or-self once, left subtree before node before right subtree
   (`inorder_transfer`), and `is_leaf` of C12 holds exactly of the nodes with two empty slots
   (`is_leaf_transfer`).
-/

namespace BinBridge
open BinStore Iter

/-! ### a concrete history: 0 gets the children 1, 2; 3 becomes the left child of 1; 4 the right child of 2;
a refused loop; 5 stays alone -/

def demoOps : List Op :=
  [.children 0 (some [some 1, some 2]) .none, .left 1 (some 3) .none, .right 2 (some 4) .none,
   .parent 0 (some 3) .none, .parent 5 (some 0) .none]
def demo : Store := run true (init 6) demoOps
theorem demo_wf : BWF demo := C11.bwf_reachable 6 demoOps

private def lf (i : Nat) : BTree := .node i [] [] .nil .nil
example : btreeOf demo (fun _ => []) 6 0 =
    .node 0 [] [] (.node 1 [] [] (lf 3) .nil) (.node 2 [] [] .nil (lf 4)) := by decide
example : dump demo = [(none, [some 1, some 2]), (some 0, [some 3, none]), (some 0, [none, some 4]),
    (some 1, [none, none]), (some 2, [none, none]), (none, [none, none])] := by decide

/-! ## 1. fuel -/

/-- acyclicity ⇒ the read-back terminates: every fuel `≥ n` gives the same tree -/
theorem btreeOf_fuel (s : Store) (hw : BWF s) (names : Nat → Str) (v f g : Nat) (hf : s.n ≤ f) (hg : s.n ≤ g) :
    btreeOf s names f v = btreeOf s names g v :=
  BinStore.btreeOf_fuel hw names v f g hf hg

/-- … and that tree is the fixed point of "read the node, then read `.left` and `.right`" -/
theorem btreeOf_unfold (s : Store) (hw : BWF s) (names : Nat → Str) (v f : Nat) (hf : s.n ≤ f) :
    btreeOf s names f v =
      .node v (names v) [] (slotTree s names f (left s v)) (slotTree s names f (right s v)) :=
  BinStore.btreeOf_unfold hw names v f hf

example : btreeOf demo (fun _ => []) 6 0 = btreeOf demo (fun _ => []) 100 0 :=
  btreeOf_fuel demo demo_wf _ 0 6 100 (by decide) (by decide)
-- too little fuel does cut the tree: the hypothesis `n ≤ fuel` is not idle
example : btreeOf demo (fun _ => []) 1 0 ≠ btreeOf demo (fun _ => []) 6 0 := by decide

/-! ## 2. identities and links -/

/-- the identities of the read-back of `r` are pairwise distinct and are exactly `r` and the nodes reached
from `r` through occupied slots — equivalently the nodes whose parent walk (`BinStore.anc`, the executable
`ancestors` of C11's loop check) meets `r` -/
theorem btreeOf_ids (s : Store) (hw : BWF s) (names : Nat → Str) (f : Nat) (hf : s.n ≤ f) (r : Nat) :
    (inorder (btreeOf s names f r)).Nodup ∧
    (∀ x, x ∈ inorder (btreeOf s names f r) ↔ Below s r x) ∧
    (∀ x, x ∈ inorder (btreeOf s names f r) ↔ (x = r ∨ r ∈ anc s s.n x)) :=
  ⟨nodup_inorder_btreeOf hw names f hf r, mem_inorder_btreeOf hw names f hf r,
   fun x => by rw [mem_inorder_btreeOf hw names f hf r, below_iff_anc hw]⟩

example : inorder (btreeOf demo (fun _ => []) 6 0) = [3, 1, 0, 2, 4] ∧ anc demo 6 4 = [2, 0] := by decide

/-- the read-backs of the parentless nodes partition the node set: every node appears in the tree of exactly
one root (and there exactly once, `btreeOf_ids`) -/
theorem btree_partition (s : Store) (hw : BWF s) (names : Nat → Str) (x : Nat) :
    ∃ r, s.parent r = none ∧ x ∈ inorder (btreeOf s names s.n r) ∧
      ∀ r', s.parent r' = none → x ∈ inorder (btreeOf s names s.n r') → r' = r := by
  obtain ⟨r, hr, hb, hu⟩ := exists_unique_root hw x
  refine ⟨r, hr, (mem_inorder_btreeOf hw names s.n (Nat.le_refl _) r x).2 hb, fun r' hr' hm => ?_⟩
  exact hu r' hr' ((mem_inorder_btreeOf hw names s.n (Nat.le_refl _) r' x).1 hm)

example : demo.parent 0 = none ∧ demo.parent 5 = none ∧ 4 ∈ inorder (btreeOf demo (fun _ => []) demo.n 0) ∧
    inorder (btreeOf demo (fun _ => []) demo.n 5) = [5] := by decide

/-- the raw list of the store is `[left, right]`; a node sits in at most one of the two slots; the occupant
of a slot names the owner as its parent and every child sits in a slot of its parent; and the two subtrees
of the read-back are the read-backs of `.left` and `.right` -/
theorem btreeOf_slots (s : Store) (hw : BWF s) (names : Nat → Str) (f : Nat) (hf : s.n ≤ f) (v : Nat) :
    s.slots v = [left s v, right s v] ∧
    (∀ c d, left s v = some c → right s v = some d → c ≠ d) ∧
    (∀ c, s.parent c = some v ↔ (left s v = some c ∨ right s v = some c)) ∧
    (∃ l r, btreeOf s names f v = .node v (names v) [] l r ∧
      l = slotTree s names f (left s v) ∧ r = slotTree s names f (right s v)) := by
  refine ⟨slots_eq hw v, fun c d hl hr => left_ne_right hw hl hr, fun c => ?_,
    _, _, BinStore.btreeOf_unfold hw names v f hf, rfl, rfl⟩
  rw [← mem_slots hw]
  exact ⟨hw.up c v, hw.down v c⟩

example : left demo 1 = some 3 ∧ right demo 1 = none ∧ demo.parent 3 = some 1 := by decide

/-! ## 3. transfer -/

/-- **C04 in every reachable state.**  For every history of `BinaryNode` calls from freshly built nodes
(any arguments, any hook faults) and every node `r` of the final store, the real-shaped in-order iterator
(`Iter.inorderImpl`, no filter, no depth limit) run on the read-back of `r`

* is the specification-level in-order of C04 (`Iter.inorder`),
* lists `r` and all its descendants, each exactly once, and nothing else,
* lists, for every node `x` below `r`, the whole subtree of `x` as one contiguous block: first the left
  subtree of `x`, then `x`, then the right subtree of `x`;
* so every node of the left subtree of `x` comes before `x` and every node of the right subtree after `x`. -/
theorem inorder_transfer (n : Nat) (ops : List Op) (names : Nat → Str) :
    let s := run true (init n) ops
    ∀ r,
      let L := inorderImpl (fun _ => true) 0 1 (btreeOf s names s.n r)
      L = inorder (btreeOf s names s.n r) ∧ L.Nodup ∧
      (∀ x, x ∈ L ↔ Below s r x) ∧
      (∀ x, Below s r x → ∃ l1 l2, L = l1 ++
        (inorder (slotTree s names s.n (left s x)) ++ [x] ++ inorder (slotTree s names s.n (right s x))) ++ l2) ∧
      (∀ x c y, Below s r x → left s x = some c → Below s c y → ∃ l1 l2 l3, L = l1 ++ y :: (l2 ++ x :: l3)) ∧
      (∀ x c y, Below s r x → right s x = some c → Below s c y → ∃ l1 l2 l3, L = l1 ++ x :: (l2 ++ y :: l3)) := by
  intro s r L
  have hw : BWF s := C11.bwf_reachable n ops
  have hL : L = inorder (btreeOf s names s.n r) := by
    show inorderImpl (fun _ => true) 0 1 (btreeOf s names s.n r) = _
    rw [C04.inorder_eq, bgate_zero]
    exact List.filter_eq_self.2 (fun _ _ => rfl)
  have hblock : ∀ x, Below s r x → ∃ l1 l2, L = l1 ++
      (inorder (slotTree s names s.n (left s x)) ++ [x] ++ inorder (slotTree s names s.n (right s x))) ++ l2 := by
    intro x hx
    obtain ⟨l1, l2, e⟩ := inorder_block hw names s.n (Nat.le_refl _) hx
    refine ⟨l1, l2, ?_⟩
    rw [hL, e, BinStore.btreeOf_unfold hw names x s.n (Nat.le_refl _)]
    rfl
  refine ⟨hL, ?_, ?_, hblock, ?_, ?_⟩
  · rw [hL]; exact nodup_inorder_btreeOf hw names s.n (Nat.le_refl _) r
  · intro x; rw [hL]; exact mem_inorder_btreeOf hw names s.n (Nat.le_refl _) r x
  · intro x c y hx hl hy
    obtain ⟨l1, l2, e⟩ := hblock x hx
    have hm : y ∈ inorder (slotTree s names s.n (left s x)) := by
      rw [hl]; exact (mem_inorder_btreeOf hw names s.n (Nat.le_refl _) c y).2 hy
    obtain ⟨a, b, hab⟩ := List.append_of_mem hm
    exact ⟨l1 ++ a, b, inorder (slotTree s names s.n (right s x)) ++ l2, by rw [e, hab]; simp⟩
  · intro x c y hx hr hy
    obtain ⟨l1, l2, e⟩ := hblock x hx
    have hm : y ∈ inorder (slotTree s names s.n (right s x)) := by
      rw [hr]; exact (mem_inorder_btreeOf hw names s.n (Nat.le_refl _) c y).2 hy
    obtain ⟨a, b, hab⟩ := List.append_of_mem hm
    exact ⟨l1 ++ inorder (slotTree s names s.n (left s x)), a, b ++ l2, by rw [e, hab]; simp⟩

example : inorderImpl (fun _ => true) 0 1 (btreeOf demo (fun _ => []) demo.n 0) = [3, 1, 0, 2, 4] := by decide
example : Below demo 0 1 ∧ left demo 1 = some 3 ∧ Below demo 3 3 :=
  ⟨.step (.refl 0) (by decide), by decide, .refl 3⟩

/-- **C12 `is_leaf` in every reachable state.**  For every history and every node `v`: `is_leaf` (C12's
`Query.isLeafB`, the comprehension over the two slots as written) of the read-back of `v` holds exactly when
both slots of `v` are empty, exactly when no node names `v` as its parent; and it is `is_leaf` of the generic
view of the binary tree (`BTree.toTrees`, what the generic iterators and queries see) -/
theorem is_leaf_transfer (n : Nat) (ops : List Op) (names : Nat → Str) :
    let s := run true (init n) ops
    ∀ v,
      (Query.isLeafB (btreeOf s names s.n v) = true ↔ left s v = none ∧ right s v = none) ∧
      (Query.isLeafB (btreeOf s names s.n v) = true ↔ s.slots v = [none, none]) ∧
      (Query.isLeafB (btreeOf s names s.n v) = true ↔ ∀ c, s.parent c ≠ some v) ∧
      (∀ t, (btreeOf s names s.n v).toTrees = [t] →
        Query.isLeafB (btreeOf s names s.n v) = t.children.isEmpty) := by
  intro s v
  have hw : BWF s := C11.bwf_reachable n ops
  have hnil : ∀ o : Option Nat, slotTree s names s.n o = .nil ↔ o = none := by
    intro o
    cases o with
    | none => simp
    | some c =>
      simp only [slotTree_some, reduceCtorEq, iff_false]
      cases hn : s.n <;> simp [btreeOf]
  have h1 : Query.isLeafB (btreeOf s names s.n v) = true ↔ left s v = none ∧ right s v = none := by
    rw [BinStore.btreeOf_unfold hw names v s.n (Nat.le_refl _), (C12.is_leaf_iff).2.1, hnil, hnil]
  refine ⟨h1, ?_, ?_, fun t ht => (C12.is_leaf_iff).2.2 _ t ht⟩
  · rw [h1, slots_eq hw v]; simp
  · rw [h1]
    constructor
    · rintro ⟨hl, hr⟩ c hc
      rcases (mem_slots hw).1 (hw.up c v hc) with h | h
      · rw [hl] at h; cases h
      · rw [hr] at h; cases h
    · intro h
      constructor
      · cases hl : left s v with
        | none => rfl
        | some c => exact absurd (parent_of_left hw hl) (h c)
      · cases hr : right s v with
        | none => rfl
        | some c => exact absurd (parent_of_right hw hr) (h c)

example : Query.isLeafB (btreeOf demo (fun _ => []) demo.n 3) = true ∧
    Query.isLeafB (btreeOf demo (fun _ => []) demo.n 1) = false ∧ demo.slots 3 = [none, none] := by decide
example : (btreeOf demo (fun _ => []) demo.n 1).toTrees = [.node 1 [] [] [.node 3 [] [] []]] := by decide

end BinBridge
