import BigtreeModel.Store
import BigtreeModel.Generated.Tables
import BigtreeProofs.Lemmas.StoreAssert
import BigtreeProofs.Lemmas.BinStoreThms
import BigtreeProofs.Lemmas.DagStoreThms
/-!
# C20 — switching off the optional assertion checks never changes valid behaviour (BaseNode / Node part)

`assertions` is a parameter of every modelled setter (`Cfg.assertions`, the `if ASSERTIONS:` blocks).
`guards_pure` is checked by the kernel against the guard skeleton that `harness/tables.py` re-extracts
from the source on every run (`BigtreeModel/Generated/Tables.lean`).
-/

namespace C20
open Store

/-- an operation accepted with the checks on gives the identical result (store and outcome) with the
checks off -/
theorem assertions_off_same (nd : Bool) (s : Store) (op : Op)
    (h : (step { assertions := true, node := nd } s op).2 = .ok) :
    step { assertions := false, node := nd } s op = step { assertions := true, node := nd } s op :=
  Store.step_off_same nd s op h

/-- lifted to histories: if every call is accepted with the checks on, the whole trace (outcome and
store after every call) is the same with the checks off -/
theorem assertions_off_same_run (nd : Bool) (s : Store) (ops : List Op)
    (h : AllOk { assertions := true, node := nd } s ops) :
    trace { assertions := false, node := nd } s ops = trace { assertions := true, node := nd } s ops ∧
    run { assertions := false, node := nd } s ops = run { assertions := true, node := nd } s ops :=
  ⟨Store.trace_off_same nd ops s h, Store.run_off_same nd ops s h⟩

/-- turning the checks off only removes rejections -/
theorem off_only_removes_rejections (nd : Bool) (s : Store) (op : Op)
    (h : (step { assertions := false, node := nd } s op).2 = .rej) :
    (step { assertions := true, node := nd } s op).2 = .rej := by
  cases ho : (step { assertions := true, node := nd } s op).2 with
  | rej => rfl
  | ok => rw [assertions_off_same nd s op ho, ho] at h; cases h

def demoOps : List Op :=
  [.setChildren 0 [1, 2, 3] .none, .setParent 3 (some 1) .none, .extend 4 [2, 0] .none 0, .sort 4 [1, 0, 0, 0, 0] false]
example : AllOk { assertions := true, node := true } (init 5 (fun i => [Char.ofNat (97 + i)]) ['/']) demoOps := by
  simp only [AllOk, demoOps]; decide
-- a call the checks refuse is (wrongly, but as documented) accepted without them: the hypothesis matters
example : (step { assertions := true, node := false } (init 2 (fun _ => []) ['/']) (.setParent 0 (some 0) .none)).2 = .rej
    ∧ (step { assertions := false, node := false } (init 2 (fun _ => []) ['/']) (.setParent 0 (some 0) .none)).2 = .ok := by
  decide

/-! ## the guard skeleton of the source -/

def hasSub (p : List Char) : List Char → Bool
  | [] => p.isEmpty
  | c :: cs => p.isPrefixOf (c :: cs) || hasSub p cs

/-- the call's name contains "check" -/
def isCheckName (s : String) : Bool := hasSub "check".toList s.toList

/-- the guarded sites the stores model (BaseNode, BinaryNode, DAGNode: parent(s) and children setters); the
DAGNode children setter has two blocks since D13 (type check, `list(...)` of the argument, loop check) -/
def modelledSites : List String :=
  ["bigtree.node.basenode.BaseNode.children", "bigtree.node.basenode.BaseNode.parent",
   "bigtree.node.binarynode.BinaryNode.children", "bigtree.node.binarynode.BinaryNode.parent",
   "bigtree.node.dagnode.DAGNode.children", "bigtree.node.dagnode.DAGNode.children",
   "bigtree.node.dagnode.DAGNode.parents"]

/-- The checks are pure guards: every `if ASSERTIONS:` block of the package consists only of bare calls
whose name contains "check" (no other statement, no `else`), `ASSERTIONS` is read nowhere else, the check
functions store to nothing that is not local and call no mutator on a non-local, and the guarded sites
are exactly the six setters that the stores model (one of them with two blocks). -/
theorem guards_pure :
    (Generated.guardBlocks.all fun b => b.2.1.all isCheckName && b.2.2.isEmpty) = true ∧
    Generated.assertionsOtherReads = [] ∧
    (Generated.checkFunctions.all fun b => b.2.1.isEmpty && b.2.2.isEmpty) = true ∧
    Generated.guardBlocks.map (·.1) = modelledSites ∧
    (Generated.guardBlocks.all fun b => !b.2.1.isEmpty) = true := by decide

end C20


/-!
## BinaryNode and DAGNode parts

Proved next to their models and audited together with the theorems above
(`harness/props/C20.py`, `THEOREMS`): `BinStore.assertions_off_same`,
`BinStore.off_only_removes_rejections`, `BinStore.run_assertions_off_same`,
`DagStore.assertions_off_same`, `DagStore.off_only_removes_rejections`,
`DagStore.run_assertions_off_same`.
-/
#check @BinStore.assertions_off_same
#check @BinStore.run_assertions_off_same
#check @DagStore.assertions_off_same
#check @DagStore.run_assertions_off_same
