import BigtreeModel.DagStore
import BigtreeModel.Dag
import BigtreeModel.DagBridge
import BigtreeProofs.Lemmas.DagBridgeBasic
import BigtreeProofs.Lemmas.DagBridgeStep
import BigtreeProofs.Lemmas.DagBridgeTransfer
import BigtreeProofs.Lemmas.DagBridgeRun
import BigtreeProofs.Properties.C10
import BigtreeProofs.Properties.C16
import BigtreeProofs.Properties.C17
/-!
# DagBridge — the `DAGNode` store (C10) refines the DAG graphs of C16 / C17

`DagStore.toDag s` (`BigtreeModel/DagBridge.lean`) reads a store as a graph: nodes `0 .. n-1`, the
adjacency lists are the store's `parents` / `children` lists as they are.  The theorems say

1. the C10 invariant of the store is the well-formedness hypothesis `Dag.DWF` of every C16 / C17
   theorem (`toDag_wf`, `toDag_wf_iff`), so that hypothesis holds in **every** state reachable by a
   history of `DAGNode` calls — any arguments, any hook faults (`reachable_wf`, `reachable_wf_trace`);
2. the graph vocabulary is the store vocabulary (`vocabulary`, `store_links`);
3. transfer: the C16 theorems (`dag_iterator`, `ancestors`, `descendants`, `siblings`, `go_to`) and the
   C17 export theorem, stated about the store's own `parents` / `children` lists, in every reachable
   state (`dag_iter_edges_reachable` … `export_reachable`); the `ancestors` list C16 specifies is the
   very list the setters' loop check consults (`ancestors_reachable`);
4. the documented effect of one call on the edge list of the graph: an assignment never removes or
   reorders edges and, when accepted, adds exactly the requested edges that were missing
   (`assign_edges`, list-exact: `setChildren_edges_exact`, `setParents_edges_exact`); a deletion filters
   out exactly the named edges (`delete_edges`); a refused call changes nothing (`rejected_edges`);
5. whole histories: the final edge list is the replay of the documented effects of the accepted calls,
   computed on edge lists alone (`step_refines`, `run_refines`).

Everything is for all stores / histories / arguments; no size bound.
-/

namespace DagBridge
open DagStore

/-! ### the concrete history of C10 (`0 → 1 → 2 → 3` plus `0 → 2`, built with both setters, `>>`, `<<`) -/

abbrev demo : DStore := C10.demo

example : edges demo = [(0, 1), (0, 2), (1, 2), (2, 3)] ∧ edgesUp demo = [(0, 1), (1, 2), (0, 2), (2, 3)] := by
  decide

/-- a decidable certificate of "everything is weakly connected to `v`": the model's own visited set -/
theorem linked_of_run {s : DStore} {v : Nat}
    (h : ∀ u, u < s.n → u ∈ (Dag.dagRun (toDag s) v).vis) : ∀ u, u < s.n → Linked s v u :=
  fun u hu => ureach_toDag.1
    (C16.connected_from_of_run (g := toDag s) (v := v) (fun u hu => h u (mem_toDag_nodes.1 hu)) u
      (mem_toDag_nodes.2 hu))

theorem demo_linked (v : Nat) (hv : v < 4) : ∀ u, u < demo.n → Linked demo v u := by
  have h : ∀ v, v < 4 → ∀ u, u < demo.n → u ∈ (Dag.dagRun (toDag demo) v).vis := by decide
  exact linked_of_run (h v hv)

/-! ## 1. well-formedness -/

/-- the invariant C10 proves for the store is the hypothesis `Dag.DWF` of C16 / C17 for the graph
read off it (with any attributes) -/
theorem toDag_wf {s : DStore} (hs : DWF s) (attrs : Nat → Attrs) : Dag.DWF (toDag s attrs) :=
  DagStore.toDag_wf hs attrs

example : Dag.DWF (toDag demo) := toDag_wf (C10.dwf_run 4 _ C10.demoOps) _

/-- … and conversely: the store invariant is exactly graph well-formedness plus "nothing is listed
under an id that was never allocated" -/
theorem toDag_wf_iff (s : DStore) (attrs : Nat → Attrs) :
    DWF s ↔ Dag.DWF (toDag s attrs) ∧ ∀ v, s.n ≤ v → s.parents v = [] ∧ s.children v = [] :=
  ⟨fun hs => ⟨DagStore.toDag_wf hs attrs, fun _ hv => ⟨hs.parents_nil hv, hs.children_nil hv⟩⟩,
   fun h => dwf_of_toDag h.1 h.2⟩

-- right to left: a store written down by hand (0 → 2 ← 1; not the result of a history) is `DWF` because its graph is
example : DWF ⟨3, fun _ => [], fun i => if i = 2 then [0, 1] else [], fun i => if i = 0 ∨ i = 1 then [2] else []⟩ :=
  (toDag_wf_iff _ (fun _ => [])).2
    ⟨⟨by decide, by decide, by decide, by decide, by decide, Dag.acyclic_of_rank id (by decide) (by decide)⟩,
     fun v hv => by
      have h2 : v ≠ 2 := by simp at hv; omega
      have h01 : ¬ (v = 0 ∨ v = 1) := by simp at hv; omega
      simp [h2, h01]⟩
-- a symmetric, duplicate-free store with a 2-cycle is not `DWF`, and its graph is not either
example : ¬ Dag.DWF (toDag ⟨2, fun _ => [], fun i => if i = 0 then [1] else if i = 1 then [0] else [],
    fun i => if i = 0 then [1] else if i = 1 then [0] else []⟩) :=
  fun h => h.acyclic 0 (by decide) (.step (b := 1) (by decide) (.edge (by decide)))

/-- **the assumption of C16 / C17 is a theorem**: for every history of `DAGNode` calls from freshly
constructed nodes — every operation, every argument (non-nodes, the node itself, ancestors, repeated
members, tuples, non-iterables), every hook fault — the graph read off the final store is well-formed -/
theorem reachable_wf (k : Nat) (names : Nat → Str) (ops : List Op) (attrs : Nat → Attrs) :
    Dag.DWF (toDag (run true (init k names) ops).1 attrs) :=
  DagStore.toDag_wf (C10.dwf_run k names ops) attrs

/-- … and so is the graph read off every intermediate store -/
theorem reachable_wf_trace (k : Nat) (names : Nat → Str) (ops : List Op) (attrs : Nat → Attrs) :
    ∀ r ∈ trace true (init k names) ops, Dag.DWF (toDag r.1 attrs) :=
  fun r hr => DagStore.toDag_wf (C10.dwf_trace k names ops r hr) attrs

example : Dag.DWF (toDag demo) := reachable_wf 4 _ C10.demoOps _
-- a history with a refused cycle, a hook fault after two insertions, a deletion and a half-built constructor
example : Dag.DWF (toDag (run true (init 4 fun _ => []) (C10.demoOps ++
    [.setChildren 3 (.list [0]) .none, .setParents 3 (.list [0, 1]) .post, .delItem 0 [],
     .construct [] (.list [3]) (.list [0]) .none .none])).1) := reachable_wf 4 _ _ _
example : (run true (init 4 fun _ => []) (C10.demoOps ++
    [.setChildren 3 (.list [0]) .none, .setParents 3 (.list [0, 1]) .post, .delChildren 1,
     .construct [] (.list [3]) (.list [0]) .none .none])).2 = [.ok, .ok, .ok, .ok, .rej, .rej, .ok, .rej] := by decide

/-! ## 2. vocabulary -/

/-- edge list, directed reachability, weak connectivity and directed paths of the graph are those of
the store's lists (no hypothesis) -/
theorem vocabulary (s : DStore) (attrs : Nat → Attrs) :
    (toDag s attrs).edges = edges s ∧
    (∀ x y, (toDag s attrs).Reach x y ↔ Desc s x y) ∧
    (∀ x y, (toDag s attrs).UReach x y ↔ Linked s x y) ∧
    (∀ u w l, (toDag s attrs).PathFromTo u w l ↔ ChainFromTo s u w l) :=
  ⟨rfl, fun _ _ => reach_toDag, fun _ _ => ureach_toDag, fun _ _ _ => pathFromTo_toDag⟩

example : (toDag demo).edges = [(0, 1), (0, 2), (1, 2), (2, 3)] := by decide

/-- on a well-formed store the two adjacency tables tell the same story: walking down `children`
lists is walking up `parents` lists (`Anc`, the relation of C10), an edge is a `parents` entry, and
the two edge lists are permutations of each other without repeats -/
theorem store_links {s : DStore} (hs : DWF s) :
    (∀ a b, Desc s a b ↔ Anc s a b) ∧
    (∀ p c, (p, c) ∈ edges s ↔ p ∈ s.parents c) ∧
    (edges s).Nodup ∧ (edges s).Perm (edgesUp s) :=
  ⟨fun _ _ => desc_iff_anc hs.toDWF0, fun _ _ => mem_edges_iff hs.toDWF0, nodup_edges hs.toDWF0,
   edges_perm_edgesUp hs.toDWF0⟩

example : Desc demo 0 3 := .step (b := 2) (by decide) (.edge (by decide))

/-! ## 3. transfer: C16 / C17 in every reachable state -/

/-- **C16 `dag_iter_edges` in every reachable state.** For every history and every start node to which
every node is weakly connected (through `parents` / `children` lists, any direction), `dag_iterator`
yields a permutation of the store's edge list: every `(parent, child)` link exactly once. -/
theorem dag_iter_edges_reachable (k : Nat) (names : Nat → Str) (ops : List Op) (attrs : Nat → Attrs) :
    let s := (run true (init k names) ops).1
    ∀ v, v < s.n → (∀ u, u < s.n → Linked s v u) → (Dag.dagIter (toDag s attrs) v).Perm (edges s) := by
  intro s v hv hc
  exact C16.dag_iter_edges (reachable_wf k names ops attrs) (mem_toDag_nodes.2 hv)
    (fun u hu => ureach_toDag.2 (hc u (mem_toDag_nodes.1 hu)))

example : (Dag.dagIter (toDag demo) 3).Perm (edges demo) :=
  dag_iter_edges_reachable 4 _ C10.demoOps _ 3 (by decide) (demo_linked 3 (by decide))
example : Dag.dagIter (toDag demo) 3 = [(2, 3), (1, 2), (0, 2), (0, 1)] := by decide

/-- **C16 `dag_iter_mem` / `dag_iter_nodup` in every reachable state** (no connectivity needed): from any
start node, the pairs yielded are exactly the links `p ∈ parents c` of the start node's weakly connected
component, none twice. -/
theorem dag_iter_mem_reachable (k : Nat) (names : Nat → Str) (ops : List Op) (attrs : Nat → Attrs) :
    let s := (run true (init k names) ops).1
    ∀ v, v < s.n →
      (Dag.dagIter (toDag s attrs) v).Nodup ∧
      ∀ p c, (p, c) ∈ Dag.dagIter (toDag s attrs) v ↔ p ∈ s.parents c ∧ Linked s v p := by
  intro s v hv
  have hw := reachable_wf k names ops attrs
  have hs : DWF s := C10.dwf_run k names ops
  refine ⟨C16.dag_iter_nodup hw (mem_toDag_nodes.2 hv), fun p c => ?_⟩
  rw [C16.dag_iter_mem hw (mem_toDag_nodes.2 hv), edges_toDag, mem_edges_iff hs.toDWF0, ureach_toDag]

-- a history that leaves two components: from node 0 only the links of its component are yielded
example : Dag.dagIter (toDag (run true (init 4 fun _ => []) [.rshift 0 1 .none, .rshift 2 3 .none]).1) 0 = [(0, 1)] := by
  decide

/-- **C16 `ancestors_eq_reach` in every reachable state**: `v.ancestors` lists exactly the nodes that reach
`v` through the store's `parents` lists (`Anc`, the reachability relation of C10), each once — and it is
the same list as the `ancestors` the loop check of the setters consults (C10's `DagStore.ancestors`). -/
theorem ancestors_reachable (k : Nat) (names : Nat → Str) (ops : List Op) (attrs : Nat → Attrs) :
    let s := (run true (init k names) ops).1
    ∀ v, v < s.n →
      (∀ x, x ∈ Dag.ancestors (toDag s attrs) v ↔ Anc s x v) ∧
      (Dag.ancestors (toDag s attrs) v).Nodup ∧
      Dag.ancestors (toDag s attrs) v = DagStore.ancestors s v := by
  intro s v hv
  have hs : DWF s := C10.dwf_run k names ops
  have h := C16.ancestors_eq_reach (reachable_wf k names ops attrs) (mem_toDag_nodes.2 hv)
  refine ⟨fun x => ?_, h.2, ancestors_agree hs attrs v⟩
  rw [h.1, reach_toDag, desc_iff_anc hs.toDWF0]
  constructor
  · exact fun h => h.2
  · intro ha
    refine ⟨mem_toDag_nodes.2 ?_, ha⟩
    obtain ⟨l, hl⟩ := anc_iff_up.1 ha
    exact hl.lt hs.toDWF0 (by simp) x (by simp)

example : Dag.ancestors (toDag demo) 3 = [0, 1, 2] ∧ DagStore.ancestors demo 3 = [0, 1, 2] := by decide

/-- **C16 `descendants_eq_reach` in every reachable state**: `v.descendants` lists exactly the nodes
reached from `v` through the `children` lists — equivalently, the nodes `v` is an ancestor of — each once. -/
theorem descendants_reachable (k : Nat) (names : Nat → Str) (ops : List Op) (attrs : Nat → Attrs) :
    let s := (run true (init k names) ops).1
    ∀ v, v < s.n →
      (∀ x, x ∈ Dag.descendants (toDag s attrs) v ↔ Desc s v x) ∧
      (∀ x, x ∈ Dag.descendants (toDag s attrs) v ↔ Anc s v x) ∧
      (Dag.descendants (toDag s attrs) v).Nodup := by
  intro s v hv
  have hs : DWF s := C10.dwf_run k names ops
  have h := C16.descendants_eq_reach (reachable_wf k names ops attrs) (mem_toDag_nodes.2 hv)
  exact ⟨fun x => by rw [h.1, reach_toDag], fun x => by rw [h.1, reach_toDag, desc_iff_anc hs.toDWF0], h.2⟩

example : Dag.descendants (toDag demo) 0 = [1, 2, 3] := by decide

/-- **C16 `siblings_eq`** on the store's lists (any store): the siblings are, as a set, the other children
of the node's parents. -/
theorem siblings_store (s : DStore) (attrs : Nat → Attrs) (v x : Nat) :
    x ∈ Dag.siblings (toDag s attrs) v ↔ x ≠ v ∧ ∃ p, p ∈ s.parents v ∧ x ∈ s.children p :=
  C16.siblings_eq (toDag s attrs) v x

example : Dag.siblings (toDag demo) 1 = [2] ∧ Dag.siblings (toDag demo) 2 = [1] := by decide

/-- **C16 `go_to_all_paths` / `go_to_refused_iff` in every reachable state**: when `u.go_to(w)` answers, the
answer lists exactly the directed paths from `u` to `w` through the `children` lists, each once; it raises
exactly when `w` is a different node that is not a descendant of `u`. -/
theorem go_to_reachable (k : Nat) (names : Nat → Str) (ops : List Op) (attrs : Nat → Attrs) :
    let s := (run true (init k names) ops).1
    ∀ u, u < s.n → ∀ w,
      (∀ ps, Dag.goTo (toDag s attrs) u w = some ps → (∀ l, l ∈ ps ↔ ChainFromTo s u w l) ∧ ps.Nodup) ∧
      (Dag.goTo (toDag s attrs) u w = none ↔ u ≠ w ∧ ¬ Desc s u w) := by
  intro s u hu w
  have hw := reachable_wf k names ops attrs
  refine ⟨fun ps h => ?_, ?_⟩
  · have := C16.go_to_all_paths hw (mem_toDag_nodes.2 hu) h
    exact ⟨fun l => by rw [this.1, pathFromTo_toDag], this.2⟩
  · rw [C16.go_to_refused_iff hw (mem_toDag_nodes.2 hu), reach_toDag]

example : Dag.goTo (toDag demo) 0 3 = some [[0, 1, 2, 3], [0, 2, 3]] ∧ Dag.goTo (toDag demo) 3 0 = none := by decide

/-- **C17 `export_each_edge_once` in every reachable state**: for every history that leaves a weakly
connected store with at least one link, the list, dictionary and DataFrame exports each mention every
link of the store exactly once, and `list_to_dag` of the exported list rebuilds a well-formed DAG with
the same links and nodes. -/
theorem export_reachable (k : Nat) (names : Nat → Str) (ops : List Op) (attrs : Nat → Attrs)
    (sel : Dag.AttrSel) :
    let s := (run true (init k names) ops).1
    (∀ u w, u < s.n → w < s.n → Linked s u w) → edges s ≠ [] → ∀ v, v < s.n →
      (Dag.dagToList (toDag s attrs) v).Perm (edges s) ∧
      (∃ d, Dag.dagToDict (toDag s attrs) sel v = some d ∧ (Dag.dictRel d).Perm (edges s)) ∧
      (Dag.rowsRel (Dag.dagToRows (toDag s attrs) sel v)).Perm (edges s) ∧
      (∃ b, Dag.listToDag (Dag.dagToList (toDag s attrs) v) = .ok b ∧ b.dag.DWF ∧
        (∀ e, e ∈ b.dag.edges ↔ e ∈ edges s) ∧ (∀ x, x ∈ b.dag.nodes ↔ x < s.n)) := by
  intro s hc hne v hv
  have hw := reachable_wf k names ops attrs
  have hconn : (toDag s attrs).Connected :=
    fun u hu w hw' => ureach_toDag.2 (hc u w (mem_toDag_nodes.1 hu) (mem_toDag_nodes.1 hw'))
  have h := C17.export_each_edge_once hw hconn (mem_toDag_nodes.2 hv) hne sel
  obtain ⟨b, hb, hbw, hbe, hbn⟩ := C17.list_roundtrip hw hconn (mem_toDag_nodes.2 hv) hne
  exact ⟨h.1, h.2.1, h.2.2, b, hb, hbw, hbe, fun x => by rw [hbn]; exact mem_toDag_nodes⟩

example : (∀ u w, u < demo.n → w < demo.n → Linked demo u w) ∧ edges demo ≠ [] :=
  ⟨fun u w hu hw => demo_linked u hu w hw, by decide⟩
example : Dag.dagToList (toDag demo) 1 = [(0, 1), (1, 2), (0, 2), (2, 3)] := by decide

/-! ## 4. the effect of one call on the edge list of the graph -/

/-- **assignments** (both setters, `>>`, `<<`, the constructor) with any argument and any hook fault:
whatever the outcome, the old edge list is a sublist of the new one — no edge disappears and no two
edges change their relative order — in both readings (out of the `children` lists and out of the
`parents` lists); and when the call is accepted, the requested edges are pairwise distinct and the new
edge list is, up to order, the old one followed by the requested edges that were not there yet. -/
theorem assign_edges {s : DStore} (hs : DWF s) {op : Op} (ha : op.isAssign = true) (attrs : Nat → Attrs) :
    (toDag s attrs).edges.Sublist (toDag (step true s op).1 attrs).edges ∧
    (edgesUp s).Sublist (edgesUp (step true s op).1) ∧
    ((step true s op).2 = .ok →
      (requested s op).Nodup ∧
      (toDag (step true s op).1 attrs).edges.Perm
        ((toDag s attrs).edges ++ (requested s op).filter fun e => decide (e ∉ (toDag s attrs).edges))) :=
  ⟨(step_edges_sublist hs ha).1, (step_edges_sublist hs ha).2,
   fun h => ⟨requested_nodup hs h, step_edges_adds hs ha h⟩⟩

example : (step true demo (.setParents 3 (.list [2, 0, 1]) .none)).2 = .ok ∧
    edges (step true demo (.setParents 3 (.list [2, 0, 1]) .none)).1 = [(0, 1), (0, 2), (0, 3), (1, 2), (1, 3), (2, 3)] ∧
    (requested demo (.setParents 3 (.list [2, 0, 1]) .none)).filter (fun e => decide (e ∉ edges demo))
      = [(0, 3), (1, 3)] := by decide
-- a constructor call whose children assignment is refused: the new node stays listed by its parent
example : (step true demo (.construct [] (.list [3]) (.list [0]) .none .none)).2 = .rej ∧
    edges (step true demo (.construct [] (.list [3]) (.list [0]) .none .none)).1
      = [(0, 1), (0, 2), (1, 2), (2, 3), (3, 4)] := by decide

/-- list-exact, accepted `v.children = a`: the new edges `(v, c)` — the members of `a` that did not list
`v` yet, in argument order — are inserted right behind `v`'s old out-edges; nothing else moves -/
theorem setChildren_edges_exact {s : DStore} {v : Nat} (hv : v < s.n) {a : Arg} {f : Fault}
    (h : (setChildren true s v a f).2 = .ok) (attrs : Nat → Attrs) :
    (toDag (setChildren true s v a f).1 attrs).edges =
      (toDag s attrs).edges.filter (fun e => decide (e.1 ≤ v)) ++
      ((a.items.getD []).filter fun c => decide (v ∉ s.parents c)).map (fun c => (v, c)) ++
      (toDag s attrs).edges.filter (fun e => !decide (e.1 ≤ v)) :=
  DagStore.setChildren_edges_exact hv h

example : (setChildren true demo 1 (.tuple [3, 2]) .none).2 = .ok ∧
    edges (setChildren true demo 1 (.tuple [3, 2]) .none).1 = [(0, 1), (0, 2), (1, 2), (1, 3), (2, 3)] := by decide

/-- list-exact, accepted `v.parents = l`: read off the `parents` lists, the new edges `(p, v)` — the
members of `l` that were not parents of `v` yet, in argument order — sit right behind `v`'s old in-edges;
read off the `children` lists (the graph's edge list), every such `p` gets `v` appended to its out-edges -/
theorem setParents_edges_exact {s : DStore} (hs : DWF s) {v : Nat} (hv : v < s.n) {l : List Nat} {f : Fault}
    (h : (setParents true s v (.list l) f).2 = .ok) (attrs : Nat → Attrs) :
    edgesUp (setParents true s v (.list l) f).1 =
      (edgesUp s).filter (fun e => decide (e.2 ≤ v)) ++
      (l.filter fun p => decide (p ∉ s.parents v)).map (fun p => (p, v)) ++
      (edgesUp s).filter (fun e => !decide (e.2 ≤ v)) ∧
    (toDag (setParents true s v (.list l) f).1 attrs).edges =
      (List.range s.n).flatMap fun p =>
        (s.children p ++ if p ∈ l ∧ p ∉ s.parents v then [v] else []).map fun c => (p, c) :=
  ⟨setParents_edgesUp_exact hs hv h, DagStore.setParents_edges_exact hs h⟩

example : (setParents true demo 3 (.list [1, 2, 0]) .none).2 = .ok ∧
    edgesUp (setParents true demo 3 (.list [1, 2, 0]) .none).1 = [(0, 1), (1, 2), (0, 2), (2, 3), (1, 3), (0, 3)] := by
  decide

/-- **deletions** (`del v.children`, `del v[name]`): the new edge list is the old one with exactly the
named edges filtered out — list equality, the remaining edges keep their order -/
theorem delete_edges {s : DStore} (hs : DWF s) {op : Op} (ha : op.isAssign = false) (attrs : Nat → Attrs) :
    (toDag (step true s op).1 attrs).edges =
      (toDag s attrs).edges.filter fun e => decide (e ∉ removed s op) :=
  step_edges_removes hs ha

example : edges (step true demo (.delChildren 0)).1 = [(1, 2), (2, 3)] ∧
    removed demo (.delChildren 0) = [(0, 1), (0, 2)] := by decide

/-- **refused calls** (any cause — guard, pre-hook, post-hook after the insertions; the constructor, which
is two assignments, excepted): the graph is the one before the call -/
theorem rejected_edges {s : DStore} (hs : DWF s) {op : Op}
    (hop : ∀ nm ps cs fp fc, op ≠ .construct nm ps cs fp fc) (h : (step true s op).2 = .rej)
    (attrs : Nat → Attrs) : toDag (step true s op).1 attrs = toDag s attrs := by
  rw [step_rej_id hs.toDWF0 hop h]

example : (step true demo (.setParents 3 (.list [0, 1]) .post)).2 = .rej ∧
    (parentsLoop demo 3 [0, 1]).1.parents 3 = [2, 0, 1] := by decide

/-! ## 5. whole histories, on edge lists alone

`EState` = (number of nodes, names, edge list); `EState.apply g op` is the documented effect of an accepted
call computed WITHOUT the adjacency tables: an assignment appends the asked-for edges that are missing,
`del v.children` drops the edges out of `v`, `del v[name]` drops the edge to the unique child of that name,
the constructor allocates the next id. -/

/-- **one accepted call** (any operation, any argument): node count and names of the new store are those of
the documented effect, and the edge list of the graph read off the new store is, up to order, the edge list
the documented effect computes from the old one -/
theorem step_refines {s : DStore} (hs : DWF s) (op : Op) (h : (step true s op).2 = .ok) (attrs : Nat → Attrs) :
    ((estate s).apply op).n = (step true s op).1.n ∧
    ((estate s).apply op).names = (step true s op).1.names ∧
    (toDag (step true s op).1 attrs).edges.Perm ((estate s).apply op).E :=
  let r := step_ok_rel hs (rel_estate s) op h
  ⟨r.n, r.names, r.perm⟩

example : (step true demo (.delItem 0 [])).2 = .rej ∧
    (step true (run true (init 4 fun i => [Char.ofNat (97 + i)]) C10.demoOps).1 (.delItem 0 ['c'])).2 = .ok ∧
    ((estate (run true (init 4 fun i => [Char.ofNat (97 + i)]) C10.demoOps).1).apply (.delItem 0 ['c'])).E
      = [(0, 1), (1, 2), (2, 3)] := by decide

/-- **whole histories** in which no constructor call raises (a raising constructor may leave a half-built
node behind, see `assign_edges`): the graph read off the final store has, up to order, exactly the edges
obtained by replaying the documented effects of the accepted calls — refused calls contribute nothing — on
the empty edge list; the replay never looks at an adjacency table -/
theorem run_refines (k : Nat) (names : Nat → Str) (ops : List Op) (attrs : Nat → Attrs)
    (hx : NoRejConstruct (init k names) ops) :
    let r := run true (init k names) ops
    let g := (EState.mk k names []).replay (ops.zip r.2)
    g.n = r.1.n ∧ g.names = r.1.names ∧ (toDag r.1 attrs).edges.Perm g.E := by
  intro r g
  have h0 : Rel (init k names) (EState.mk k names []) := by
    refine ⟨rfl, rfl, ?_⟩
    have : edges (init k names) = [] := by
      simp [edges, init]
    rw [this]
  have := run_rel ops (init k names) _ (C10.dwf_init k names) h0 hx
  exact ⟨this.n, this.names, this.perm⟩

example : NoRejConstruct (init 4 fun _ => []) (C10.demoOps ++ [.setChildren 3 (.list [0]) .none, .delChildren 1]) := by
  simp only [NoRejConstruct, C10.demoOps, List.cons_append, List.nil_append]
  refine ⟨?_, ?_, ?_, ?_, ?_, ?_, trivial⟩ <;> (intro _ nm ps cs fp fc e; cases e)
example :
    let ops := C10.demoOps ++ [.setChildren 3 (.list [0]) .none, .delChildren 1]
    ((EState.mk 4 (fun _ => []) []).replay (ops.zip (run true (init 4 fun _ => []) ops).2)).E
      = [(0, 1), (2, 3), (0, 2)] ∧
    edges (run true (init 4 fun _ => []) ops).1 = [(0, 1), (0, 2), (2, 3)] := by decide

end DagBridge
