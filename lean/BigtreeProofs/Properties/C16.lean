import BigtreeModel.Dag
import BigtreeProofs.Lemmas.DagClosure
import BigtreeProofs.Lemmas.DagIter
import BigtreeProofs.Lemmas.DagGoTo
/-! # C16 — DAG traversal and queries agree with graph-theoretic definitions

Model: `BigtreeModel/Dag.lean` (`dagIter`, `ancestors`, `descendants`, `siblings`, `goTo` written
the way the Python is written). `DWF g` = links closed in `nodes`, symmetric, duplicate-free,
acyclic (what the DAGNode setters maintain, C10). -/

namespace C16
open Dag List

/-! ## example DAGs for the non-vacuity checks -/

/-- diamond 0→1, 0→2, 1→3, 2→3 -/
def diamond : Dag := ofEdges 4 [(0, 1), (0, 2), (1, 3), (2, 3)]
/-- node 0 has three parents 1, 2, 3; the third one is the only way to 4→3 and 4→5 -/
def threeParents : Dag := ofEdges 6 [(1, 0), (2, 0), (3, 0), (4, 3), (4, 5)]
/-- the docstring DAG of `dag_iterator` (a, b, c, d, e = 0 … 4), edges in its construction order -/
def docDag : Dag := ofEdges 5 [(0, 2), (1, 2), (0, 3), (2, 3), (3, 4)]

theorem diamond_wf : DWF diamond :=
  ⟨by decide, by decide, by decide, by decide, by decide,
   acyclic_of_rank id (by decide) (by decide)⟩

/-- rank for `threeParents`: 4 < 1, 2, 3, 5 < 0 -/
def rank3 : Nat → Nat
  | 4 => 0 | 0 => 2 | _ => 1

theorem threeParents_wf : DWF threeParents :=
  ⟨by decide, by decide, by decide, by decide, by decide,
   acyclic_of_rank rank3 (by decide) (by decide)⟩

theorem docDag_wf : DWF docDag :=
  ⟨by decide, by decide, by decide, by decide, by decide,
   acyclic_of_rank id (by decide) (by decide)⟩

/-- a decidable certificate of weak connectivity: the model's own visited set (sound by
    `visit_sound`) -/
theorem connected_from_of_run {g : Dag} {v : Nat} (h : ∀ u ∈ g.nodes, u ∈ (g.dagRun v).vis) :
    ∀ u ∈ g.nodes, g.UReach v u :=
  fun u hu => visit_sound v _ v _ (.refl v) (by simp) u (h u hu)

/-- the same for `Connected` (every pair of nodes) -/
theorem connected_of_runs {g : Dag} (h : ∀ u ∈ g.nodes, ∀ w ∈ g.nodes, w ∈ (g.dagRun u).vis) :
    g.Connected :=
  fun u hu w hw => visit_sound u _ u _ (.refl u) (by simp) w (h u hu w hw)

/-! ## dag_iterator -/

/-- Edge membership, for every start node of every well-formed DAG: the pairs yielded are exactly
    the edges (oriented parent → child) of the weakly connected component of the start node. -/
theorem dag_iter_mem {g : Dag} (wf : DWF g) {v : Nat} (hv : v ∈ g.nodes) (e : Edge) :
    e ∈ g.dagIter v ↔ e ∈ g.edges ∧ g.UReach v e.1 :=
  mem_dagIter wf hv

example : (3, 0) ∈ threeParents.edges ∧ threeParents.UReach 0 3 :=
  (dag_iter_mem threeParents_wf (by decide) (3, 0)).1 (by decide)

/-- No pair is yielded twice. -/
theorem dag_iter_nodup {g : Dag} (wf : DWF g) {v : Nat} (hv : v ∈ g.nodes) :
    (g.dagIter v).Nodup :=
  nodup_dagIter wf hv

example : (diamond.dagIter 3).Nodup := dag_iter_nodup diamond_wf (by decide)

/-- **Tier 1.** On a well-formed DAG in which every node is weakly connected to the start node,
    `dag_iterator` yields a permutation of the edge list: every edge exactly once, as
    (parent, child). -/
theorem dag_iter_edges {g : Dag} (wf : DWF g) {v : Nat} (hv : v ∈ g.nodes)
    (hconn : ∀ u ∈ g.nodes, g.UReach v u) : (g.dagIter v).Perm g.edges := by
  rw [perm_ext_iff_of_nodup (nodup_dagIter wf hv) (nodup_edges wf)]
  intro e
  rw [mem_dagIter wf hv]
  exact ⟨fun h => h.1, fun h => ⟨h, hconn _ (mem_edges.1 h).1⟩⟩

/-- the same for a weakly connected DAG (`Connected`), from any start node -/
theorem dag_iter_edges_connected {g : Dag} (wf : DWF g) (hc : g.Connected) {v : Nat}
    (hv : v ∈ g.nodes) : (g.dagIter v).Perm g.edges :=
  dag_iter_edges wf hv (fun u hu => hc v hv u hu)

example : (threeParents.dagIter 3).Perm threeParents.edges :=
  dag_iter_edges_connected threeParents_wf (connected_of_runs (by decide)) (by decide)

-- non-vacuity: diamond from the sink, the three-parent DAG from the child, the docstring DAG
example : (diamond.dagIter 3).Perm diamond.edges :=
  dag_iter_edges diamond_wf (by decide) (connected_from_of_run (by decide))
example : (threeParents.dagIter 0).Perm threeParents.edges :=
  dag_iter_edges threeParents_wf (by decide) (connected_from_of_run (by decide))
example : threeParents.dagIter 0 = [(1, 0), (2, 0), (3, 0), (4, 3), (4, 5)] := by decide
example : docDag.dagIter 0 = [(0, 2), (0, 3), (1, 2), (2, 3), (3, 4)] := by decide
example : docDag.dagIter 2 = [(0, 2), (1, 2), (2, 3), (0, 3), (3, 4)] := by decide

/-- The fuel of the model is enough: any larger fuel gives the same run (so `dagIter` is the
    result of the unbounded recursion). -/
theorem fuel_suffices {g : Dag} (wf : DWF g) {v : Nat} (hv : v ∈ g.nodes) {f : Nat}
    (hf : g.fuel ≤ f) : visit g f v ⟨[], []⟩ = g.dagRun v :=
  visit_fuel wf g.fuel v ⟨[], []⟩ hv (by simp) (by simp) (unv_nil_le g) f hf

example : visit diamond 50 0 ⟨[], []⟩ = diamond.dagRun 0 :=
  fuel_suffices diamond_wf (by decide) (by decide)

/-! ## closures -/

/-- **Tier 1.** `ancestors` lists exactly the nodes that can reach `v`, each once. -/
theorem ancestors_eq_reach {g : Dag} (wf : DWF g) {v : Nat} (hv : v ∈ g.nodes) :
    (∀ x, x ∈ g.ancestors v ↔ x ∈ g.nodes ∧ g.Reach x v) ∧ (g.ancestors v).Nodup := by
  refine ⟨fun x => mem_ancestors wf hv, ?_⟩
  unfold ancestors
  split
  · simp
  · exact nodup_dedup _

example : diamond.ancestors 3 = [0, 1, 2] := by decide
example : ∀ x, x ∈ diamond.ancestors 3 ↔ x ∈ diamond.nodes ∧ diamond.Reach x 3 :=
  (ancestors_eq_reach diamond_wf (by decide)).1
example : threeParents.ancestors 0 = [1, 2, 4, 3] := by decide

/-- **Tier 1.** `descendants` lists exactly the nodes `v` can reach, each once. -/
theorem descendants_eq_reach {g : Dag} (wf : DWF g) {v : Nat} (hv : v ∈ g.nodes) :
    (∀ x, x ∈ g.descendants v ↔ g.Reach v x) ∧ (g.descendants v).Nodup :=
  ⟨fun _ => mem_descendants wf hv, nodup_dedup _⟩

example : diamond.descendants 0 = [1, 3, 2] := by decide
example : ∀ x, x ∈ diamond.descendants 0 ↔ diamond.Reach 0 x :=
  (descendants_eq_reach diamond_wf (by decide)).1

/-- **Tier 1.** `siblings`, as a set, are the other children of the node's parents
    (no well-formedness needed; the tuple may repeat a node that shares several parents). -/
theorem siblings_eq (g : Dag) (v x : Nat) :
    x ∈ g.siblings v ↔ x ≠ v ∧ ∃ p, p ∈ g.parents v ∧ x ∈ g.children p :=
  mem_siblings

example : diamond.siblings 1 = [2] := by decide
example : threeParents.siblings 3 = [5] := by decide

/-! ## go_to -/

/-- **Tier 2.** When `go_to` answers, the answer is exactly the set of directed paths from `u`
    to `w` (as vertex lists), each once. -/
theorem go_to_all_paths {g : Dag} (wf : DWF g) {u w : Nat} (hu : u ∈ g.nodes)
    {ps : List (List Nat)} (h : g.goTo u w = some ps) :
    (∀ l, l ∈ ps ↔ g.PathFromTo u w l) ∧ ps.Nodup := by
  unfold goTo at h
  split at h
  · rename_i huw
    subst huw
    simp only [Option.some.injEq] at h
    subst h
    refine ⟨?_, by simp⟩
    intro l
    simp only [mem_singleton]
    constructor
    · rintro rfl; exact ⟨trivial, rfl, rfl⟩
    · rintro ⟨hp, hh, hl⟩
      cases l with
      | nil => exact absurd hp not_isPath_nil
      | cons a q =>
        simp only [head?_cons, Option.some.injEq] at hh
        subst hh
        cases q with
        | nil => rfl
        | cons b q =>
          exfalso
          have hnd := (path_nodup wf hu hp).1
          rw [getLast?_cons_cons] at hl
          exact (nodup_cons.1 hnd).1 (mem_of_getLast? hl)
  · rename_i huw
    split at h
    · cases h
    · simp only [Option.some.injEq] at h
      subst h
      have hfuel : g.fuel = g.nodes.length + 1 := rfl
      rw [hfuel, goRec_snd_of_ne huw]
      refine ⟨?_, nodup_goAll wf hu⟩
      intro l
      constructor
      · intro hl
        obtain ⟨q, hq, hp, hlast, _⟩ := mem_goAll_imp hl
        simp only [nil_append] at hq
        subst hq
        exact ⟨hp, rfl, hlast⟩
      · rintro ⟨hp, hh, hlast⟩
        cases l with
        | nil => exact absurd hp not_isPath_nil
        | cons a q =>
          simp only [head?_cons, Option.some.injEq] at hh
          subst hh
          have hlen := path_length_le wf hu hp
          have := mem_goAll_of wf (f := g.nodes.length + 1) (path := []) hu hp hlast
            (by simp at hlen; omega)
          simpa using this

example : diamond.goTo 0 3 = some [[0, 1, 3], [0, 2, 3]] := by decide
example : ∀ l, l ∈ [[0, 1, 3], [0, 2, 3]] ↔ diamond.PathFromTo 0 3 l :=
  (go_to_all_paths diamond_wf (by decide) (by decide)).1

/-- **Tier 2.** `go_to` refuses (TreeError) exactly when the target is a different node that
    cannot be reached. -/
theorem go_to_refused_iff {g : Dag} (wf : DWF g) {u w : Nat} (hu : u ∈ g.nodes) :
    g.goTo u w = none ↔ u ≠ w ∧ ¬ g.Reach u w := by
  unfold goTo
  split
  · rename_i huw; simp [huw]
  · rename_i huw
    split
    · rename_i hnd
      have : ¬ g.Reach u w := fun hr => hnd ((mem_descendants wf hu).2 hr)
      simp [huw, this]
    · rename_i hd
      have hd' : w ∈ g.descendants u := Classical.not_not.1 hd
      have := (mem_descendants wf hu).1 hd'
      simp [this]

example : diamond.goTo 1 2 = none := by decide
example : (1 : Nat) ≠ 2 ∧ ¬ diamond.Reach 1 2 :=
  (go_to_refused_iff diamond_wf (by decide)).1 (by decide)

end C16
