import BigtreeModel.Store
import BigtreeModel.StorePath
import BigtreeProofs.Lemmas.StorePathE
import BigtreeProofs.Lemmas.StorePathF
/-!
# C03 — a Node's path identifies it: sibling names are unique, paths are exact

Model: `BigtreeModel/Store.lean` with `Cfg.node = true` (the `Node` class: its pre-assign hooks run
the user hook, then the duplicate-sibling-name check) and `BigtreeModel/StorePath.lean`
(`path_name`, `depth`, `sep`, `find_full_path` as written; strings are `List Char`).
String-level theorems assume a single-character separator that occurs in no name, and non-empty
names (what `Node.__init__` enforces); the `_multi` theorems at the end cover every non-empty separator
(`"::"`, `"->"`, …) for names that share no character with it (the exact domain on which the
character-set stripping of `lstrip`/`rstrip` is sound: known finding K7 lies just outside).
-/

namespace C03
open Store

def nodeCfg : Cfg := { assertions := true, node := true }
def demoNames : Nat → Str := fun i => [['a'], ['b'], ['a'], ['a', 'b'], ['b']].getD i ['z']
/-- a/b/a, a/ab and a single root b -/
def demoOps : List Op :=
  [.setChildren 0 [1, 3] .none, .setParent 2 (some 1) .none, .setParent 4 (some 0) .none, .setSep 2 ['.']]
def demo : Store := run nodeCfg (init 5 demoNames ['/']) demoOps

/-- every `Node` operation (any argument, any hook fault) keeps sibling names unique -/
theorem sib_unique_step (c : Cfg) (hnode : c.node = true) (ha : c.assertions = true) (s : Store)
    (hw : WF s) (hu : SibUnique s) (op : Op) : SibUnique (step c s op).1 :=
  Store.sibUnique_step hw hu c hnode ha op

/-- … hence in every reachable state of a `Node` history no two siblings share a name (and the state is a forest) -/
theorem sib_unique_run (c : Cfg) (hnode : c.node = true) (ha : c.assertions = true) (n : Nat)
    (names : Nat → Str) (sep : Str) (ops : List Op) :
    SibUnique (run c (init n names sep) ops) ∧ WF (run c (init n names sep) ops) :=
  ⟨Store.sibUnique_run (Store.wf_init n names sep) (Store.sibUnique_init n names sep) c hnode ha ops,
   Store.wf_run (Store.wf_init n names sep) c ha ops⟩

theorem demo_ok : SibUnique demo ∧ WF demo := sib_unique_run nodeCfg rfl rfl 5 demoNames ['/'] demoOps

-- node 4 ("b") was refused under node 0, which already has the child 1 ("b"): the store is unchanged (C02)
example : (step nodeCfg (run nodeCfg (init 5 demoNames ['/']) (demoOps.take 2)) (demoOps.getD 2 default)).2 = .rej := by
  decide
example : demo.parent 4 = none ∧ demo.children 0 = [1, 3] ∧ demo.children 1 = [2] := by decide

/-- a refused duplicate leaves the store unchanged -/
theorem dup_refused_unchanged (s : Store) (hw : WF s) (v p : Nat) (f : Fault)
    (hd : dupParent s v (some p) = true) :
    setParent nodeCfg s v (some p) f = (s, .rej) := by
  have h2 : (setParent nodeCfg s v (some p) f).2 = .rej := by
    cases ho : (setParent nodeCfg s v (some p) f).2 with
    | rej => rfl
    | ok => have := (setParent_ok_eq nodeCfg v (some p) f ho).2.2.2 rfl; rw [hd] at this; cases this
  exact Prod.ext (Store.setParent_rej_id hw nodeCfg v (some p) f h2) h2

/-- route names (root first) identify a node inside its tree -/
theorem pathNames_injective (s : Store) (hw : WF s) (hu : SibUnique s) (u v : Nat)
    (hst : SameTree s u v) (h : pathNames s u = pathNames s v) : u = v :=
  Store.pathNames_injective hw hu u v hst h

example : SameTree demo 2 3 ∧ pathNames demo 2 ≠ pathNames demo 3 := by decide

/-- `sep.join(xs).split(sep) == xs` for a single-character separator occurring in no piece -/
theorem split_join (d : Char) (xs : List Str) (hne : xs ≠ []) (hd : ∀ x ∈ xs, d ∉ x) :
    split [d] (join [d] xs) = xs :=
  Store.split_join d xs hne hd

example : split ['/'] (join ['/'] [['a'], ['a', 'b'], ['b', '.']]) = [['a'], ['a', 'b'], ['b', '.']] := by decide

/-- path names (the strings) are pairwise distinct inside a tree -/
theorem path_name_injective (s : Store) (hw : WF s) (hu : SibUnique s) (d : Char) (u v : Nat)
    (hst : SameTree s u v) (hsep : sep s v = [d]) (hn : ∀ x, s.name x ≠ [] ∧ d ∉ s.name x)
    (h : pathName s u = pathName s v) : u = v :=
  Store.pathName_injective hw hu d u v hst hsep hn h

/-- a node's path name is the separator followed by the names on the route from the root joined by it -/
theorem path_name_eq (s : Store) (v : Nat) :
    pathName s v = sep s v ++ join (sep s v) (pathNames s v) :=
  Store.pathName_eq s v

example : pathName demo 2 = ['.', 'a', '.', 'b', '.', 'a'] ∧ pathName demo 4 = ['/', 'b'] := by decide

/-- depth = length of the route from the root -/
theorem depth_eq_length (s : Store) (v : Nat) : depth s v = (pathNames s v).length :=
  Store.depth_eq_length s v

/-- the separator of every node is the one stored on the root of its tree; a node and its parent agree;
after `u.sep = x` exactly the nodes of `u`'s tree report `x`; a detached node reports its own field -/
theorem sep_is_root_sep (s : Store) (hw : WF s) :
    (∀ r v, Reach s r v → s.parent r = none → sep s v = s.sepOf r) ∧
    (∀ v p, s.parent v = some p → sep s v = sep s p) ∧
    (∀ u x v, sep (setSep s u x) v = if SameTree s v u then x else sep s v) ∧
    (∀ c v f, (setParent c s v none f).2 = .ok → sep (setParent c s v none f).1 v = s.sepOf v) := by
  refine ⟨fun r v hr h => Store.sep_of_root hw hr h, fun v p h => Store.sep_parent hw v p h,
    fun u x v => Store.sep_setSep s u x v, ?_⟩
  intro c v f ho
  obtain ⟨he, _⟩ := setParent_ok_eq c v none f ho
  have hw' : WF (reparent s v none) := by
    have := Store.wf_reparent hw v none
    by_cases hv : v < s.n
    · exact this hv (by simp)
    · -- an id out of range has no links at all
      have hp : s.parent v = none := by
        cases h : s.parent v with
        | none => rfl
        | some p => exact absurd (hw.range v p h).1 hv
      have : reparent s v none = s := by
        apply Store.ext' <;> try rfl
        · funext x; simp only [reparent_parent]; by_cases hx : x = v <;> simp [hx, hp]
        · funext x; simp [reparent_children, hp]
      rw [this]; exact hw
  rw [he]
  exact Store.sep_of_root hw' (Reach.refl v) (by simp [reparent_parent])

example : sep demo 0 = ['.'] ∧ sep demo 2 = ['.'] ∧ sep demo 4 = ['/'] := by decide

/-- looking a node's path name up from any node of its tree returns that very node -/
theorem find_full_path_path_name (s : Store) (hw : WF s) (hu : SibUnique s) (d : Char) (start v : Nat)
    (hst : SameTree s start v) (hsep : sep s v = [d])
    (hn : ∀ x ∈ pathNodes s v, s.name x ≠ [] ∧ d ∉ s.name x) :
    findFullPath s start (pathName s v) = some (some v) :=
  Store.findFullPath_pathName hw hu d start v hst hsep hn

/-- … also with the leading separator omitted and with a trailing separator added -/
theorem find_full_path_variants (s : Store) (hw : WF s) (hu : SibUnique s) (d : Char) (start v : Nat)
    (hst : SameTree s start v) (hsep : sep s v = [d])
    (hn : ∀ x ∈ pathNodes s v, s.name x ≠ [] ∧ d ∉ s.name x) :
    findFullPath s start ((pathName s v).drop (sep s v).length) = some (some v) ∧
    findFullPath s start (pathName s v ++ sep s v) = some (some v) :=
  Store.findFullPath_variants hw hu d start v hst hsep hn

example : findFullPath demo 3 (pathName demo 2) = some (some 2) := by decide
example : findFullPath demo 0 ['a', '.', 'b', '.', 'a', '.'] = some (some 2) := by decide
example : SameTree demo 3 2 ∧ sep demo 2 = ['.'] ∧ ∀ x ∈ pathNodes demo 2, demo.name x ≠ [] ∧ '.' ∉ demo.name x := by
  decide

/-! ## separators of any length

`Node.sep` may be any non-empty string.  `Free sp x` : the name `x` shares no character with `sp`.
For a one-character separator this is "`d ∉ x`" (`free_singleton`), so the theorems above are instances. -/

/-- a/b/a, a/ab below a root whose separator is "::" -/
def demo2 : Store := run nodeCfg (init 5 demoNames [':', ':']) (demoOps.take 3)

theorem free_singleton (d : Char) (x : Str) : Free [d] x ↔ d ∉ x := Store.free_singleton d x

/-- `sep.join(xs).split(sep) == xs` for every non-empty separator sharing no character with a piece -/
theorem split_join_multi (sp : Str) (hsp : sp ≠ []) (xs : List Str) (hne : xs ≠ [])
    (hd : ∀ x ∈ xs, Free sp x) : split sp (join sp xs) = xs :=
  Store.split_join_multi sp hsp xs hne hd

example : split [':', ':'] (join [':', ':'] [['a'], ['a', 'b'], ['b', '.']]) = [['a'], ['a', 'b'], ['b', '.']] := by
  decide
-- outside the hypothesis the law fails: a piece ending in a separator character shifts the split point
example : split [':', ':'] (join [':', ':'] [['a', ':'], ['b']]) ≠ [['a', ':'], ['b']] := by decide

/-- path names are pairwise distinct inside a tree, for every non-empty separator -/
theorem path_name_injective_multi (s : Store) (hw : WF s) (hu : SibUnique s) (u v : Nat)
    (hst : SameTree s u v) (hsp : sep s v ≠ [])
    (hn : ∀ x, s.name x ≠ [] ∧ Free (sep s v) (s.name x))
    (h : pathName s u = pathName s v) : u = v :=
  Store.pathName_injective_multi hw hu u v hst hsp hn h

/-- looking a node's path name up from any node of its tree returns that very node, for every non-empty
separator; so do the spellings with the leading separator omitted, with a trailing separator added, and in
general with any run of separator characters in front and behind (`lstrip`/`rstrip` are character-set strips) -/
theorem find_full_path_multi (s : Store) (hw : WF s) (hu : SibUnique s) (start v : Nat)
    (hst : SameTree s start v) (hsp : sep s v ≠ [])
    (hn : ∀ x ∈ pathNodes s v, s.name x ≠ [] ∧ Free (sep s v) (s.name x)) :
    findFullPath s start (pathName s v) = some (some v) ∧
    findFullPath s start ((pathName s v).drop (sep s v).length) = some (some v) ∧
    findFullPath s start (pathName s v ++ sep s v) = some (some v) ∧
    (∀ lead trail : Str, (∀ x ∈ lead, x ∈ sep s v) → (∀ x ∈ trail, x ∈ sep s v) →
      findFullPath s start (lead ++ join (sep s v) (pathNames s v) ++ trail) = some (some v)) := by
  have key := fun lead trail hl ht =>
    Store.findFullPath_pathName_multi hw hu start v hst hsp hn lead trail hl ht
  refine ⟨?_, ?_, ?_, key⟩
  · have := key (sep s v) [] (fun _ h => h) (by simp)
    rw [pathName_eq]; simpa using this
  · have := key [] [] (by simp) (by simp)
    rw [pathName_eq]; simpa using this
  · have := key (sep s v) (sep s v) (fun _ h => h) (fun _ h => h)
    rw [pathName_eq]; simpa [List.append_assoc] using this

example : pathName demo2 2 = [':', ':', 'a', ':', ':', 'b', ':', ':', 'a'] := by decide
example : findFullPath demo2 3 (pathName demo2 2) = some (some 2) := by decide
example : findFullPath demo2 0 [':', 'a', ':', ':', 'b', ':', ':', 'a', ':', ':', ':'] = some (some 2) := by decide
example : SameTree demo2 3 2 ∧ sep demo2 2 = [':', ':'] ∧
    ∀ x ∈ pathNodes demo2 2, demo2.name x ≠ [] ∧ ∀ c ∈ demo2.name x, c ∉ sep demo2 2 := by decide

end C03
